import QibProofs.Lemmas.TNetPublic2
/-!
Helper lemmas for C08 (public stage), part 3: the value `full` after `merge_tensors` (the product tensor replaces the pair) and after
`merge_bonds` (diagonal restriction) (no property statements).
-/
namespace Qib.TNet
variable {α : Type} [CommSemiring α]

/-- the real tensors of a tensor dictionary as `(dataref, bond ids)` -/
def realTsL (ts : List (Int × STensor)) : List (Option Int × List Int) :=
  (ts.filter (fun e => e.1 != -1)).map (fun e => (e.2.dataref, e.2.bids))

theorem realTs_eq_realTsL (net : Net) : realTs net = realTsL net.tensors := by
  simp only [realTs, realTensors, realTsL, List.map_map]
  rfl

theorem realTsL_perm {ts ts' : List (Int × STensor)} (h : ts.Perm ts') : (realTsL ts).Perm (realTsL ts') :=
  (h.filter _).map _

theorem realTsL_cons_real (k : Int) (T : STensor) (ts : List (Int × STensor)) (hk : k ≠ -1) :
    realTsL ((k, T) :: ts) = (T.dataref, T.bids) :: realTsL ts := by
  have : ((k, T).1 != -1) = true := by simpa using hk
  simp [realTsL, this]

theorem tensorTerm_cons (D : Option Int → List Nat → α) (t : Option Int × List Int) (ts : List (Option Int × List Int))
    (σ : Int → Nat) : tensorTerm D (t :: ts) σ = D t.1 (t.2.map σ) * tensorTerm D ts σ := by
  simp [tensorTerm, prodL]

/-- **the product tensor replaces the pair**: if the array stored for the fused tensor is the outer product of the two arrays (and every
other tensor keeps its array), every entry of the contracted network is unchanged -/
theorem mergeTensors_full {net net' : Net} {tid1 tid2 : Int} {T1 T2 : STensor} (h : WF net) (hne : tid1 ≠ tid2)
    (h1 : tid1 ≠ -1) (h2 : tid2 ≠ -1) (hT1 : dget net.tensors tid1 = some T1) (hT2 : dget net.tensors tid2 = some T2)
    (hok : mergeTensors net tid1 tid2 = .ok net') (D D' : Option Int → List Nat → α)
    (hprod : ∀ i1 i2 : List Nat, i1.length = T1.bids.length → D' T1.dataref (i1 ++ i2) = D T1.dataref i1 * D T2.dataref i2)
    (hrest : ∀ e ∈ net.tensors, e.1 ≠ tid1 → e.1 ≠ tid2 → e.1 ≠ -1 → ∀ i, D' e.2.dataref i = D e.2.dataref i)
    (idx : List Nat) : full net' D' idx = full net D idx := by
  obtain ⟨v, hv⟩ := h.virt_get
  have hv' := virt_mergeTensors h.toWF0 hne h2 hv hT2 hok
  rw [if_neg h1] at hv'
  obtain ⟨T1', T2', hT1', hT2', hnet⟩ := mergeTensors_spec h.toWF0 hne hok
  rw [hT1] at hT1'; cases hT1'
  rw [hT2] at hT2'; cases hT2'
  have hm1 := mem_of_dget_eq_some _ hT1
  have hm2 := mem_of_dget_eq_some _ hT2
  have hp2 := perm_cons_dpop net.tensors h.tnodup hT2
  have h1' : dget (dpop net.tensors tid2) tid1 = some T1 := by rw [dget_dpop_ne _ hne]; exact hT1
  have hn2 := nodup_dkeys_dpop h.tnodup tid2
  have hp1 := perm_cons_dpop (dpop net.tensors tid2) hn2 h1'
  have hpm := perm_dmodify (dpop net.tensors tid2) hn2 (fun t => catTensor t T2) h1'
  generalize hrest' : dpop (dpop net.tensors tid2) tid1 = rest at hp1 hpm
  have hall : net.tensors.Perm ((tid2, T2) :: (tid1, T1) :: rest) := hp2.trans (hp1.cons _)
  have hnd : (dkeys ((tid2, T2) :: (tid1, T1) :: rest)).Nodup := (perm_dkeys hall).nodup_iff.mp h.tnodup
  simp only [dkeys_cons, List.nodup_cons, List.mem_cons, not_or] at hnd
  have hrest_mem : ∀ e ∈ rest, e ∈ net.tensors := fun e he =>
    hall.mem_iff.mpr (List.mem_cons_of_mem _ (List.mem_cons_of_mem _ he))
  -- the legs and their dimensions are the same multiset
  have hlegs : (legDims net').Perm (legDims net) := by
    rw [hnet]
    have ha : (legDims ⟨net.tensors, net.bonds⟩).Perm (legDims ⟨(tid2, T2) :: (tid1, T1) :: rest, net.bonds⟩) :=
      legDims_perm hall
    have hb : (legDims ⟨dmodify (dpop net.tensors tid2) tid1 (fun t => catTensor t T2), relBonds (rep tid2 tid1) net.bonds⟩).Perm
        (legDims ⟨(tid1, catTensor T1 T2) :: rest, net.bonds⟩) := legDims_perm hpm
    refine hb.trans (List.Perm.trans ?_ ha.symm)
    rw [legDims_cons, legDims_cons, legDims_cons]
    simp only [catTensor]
    rw [List.zip_append (by rw [h.tshape (tid1, T1) hm1])]
    rw [← List.append_assoc]
    exact List.Perm.append_right _ List.perm_append_comm
  have hdim : ∀ l, bondDim net' l = bondDim net l :=
    bondDim_congr h.dims (fun p => hlegs.mem_iff)
  have hint : internalBids net' v = internalBids net v := by
    rw [hnet]; simp only [internalBids, dkeys_relBonds]
  rw [full_eq_sem net' D' idx hv', full_eq_sem net D idx hv, hint]
  unfold sem
  split
  · rw [sumOver_congr_dim (bondDim net') (bondDim net) _ _ (fun l _ => hdim l)]
    apply sumOver_congr
    intro σ
    have e1 : (realTs net').Perm ((T1.dataref, T1.bids ++ T2.bids) :: realTsL rest) := by
      rw [realTs_eq_realTsL, hnet]
      refine (realTsL_perm hpm).trans ?_
      rw [realTsL_cons_real _ _ _ h1]
      exact List.Perm.refl _
    have e2 : (realTs net).Perm ((T2.dataref, T2.bids) :: (T1.dataref, T1.bids) :: realTsL rest) := by
      rw [realTs_eq_realTsL]
      refine (realTsL_perm hall).trans ?_
      rw [realTsL_cons_real _ _ _ h2, realTsL_cons_real _ _ _ h1]
    rw [tensorTerm_perm D' e1, tensorTerm_perm D e2, tensorTerm_cons, tensorTerm_cons, tensorTerm_cons]
    simp only [List.map_append]
    rw [hprod _ _ (by simp)]
    have e3 : tensorTerm D' (realTsL rest) σ = tensorTerm D (realTsL rest) σ := by
      unfold tensorTerm
      congr 1
      apply List.map_congr_left
      intro t ht
      simp only [realTsL, List.mem_map, List.mem_filter] at ht
      obtain ⟨e, ⟨he, hek⟩, rfl⟩ := ht
      have hk1 : e.1 ≠ tid1 := fun c => hnd.2.1 (c ▸ mem_dkeys_of_mem he)
      have hk2 : e.1 ≠ tid2 := fun c => hnd.1.2 (c ▸ mem_dkeys_of_mem he)
      exact hrest e (hrest_mem e he) hk1 hk2 (by simpa using hek) _
    rw [e3, mul_comm (D T1.dataref _) (D T2.dataref _), mul_assoc]
  · rfl

/-! ### `merge_bonds`: the diagonal restriction -/

/-- `full` with every summand multiplied by the Kronecker delta of the indices carried by the bonds `b1` and `b2`:
`Σ_σ [σ b1 = σ b2] · Π_t D_t[σ on the axes of t]` (the open bonds pinned to `idx` as in `full`) -/
def fullDiag (net : Net) (D : Option Int → List Nat → α) (b1 b2 : Int) (idx : List Nat) : α :=
  match dget net.tensors (-1) with
  | none => 0
  | some v =>
    if pinsOK v.bids idx then
      sumOver (bondDim net) (internalBids net v)
        (fun σ => if σ b1 = σ b2 then prodL ((realTensors net).map (fun t => D t.dataref (t.bids.map σ))) else 0)
        (pin v.bids idx (fun _ => 0))
    else 0

def semDiag (dim : Int → Nat) (opn intl : List Int) (ts : List (Option Int × List Int)) (D : Option Int → List Nat → α)
    (b1 b2 : Int) (idx : List Nat) : α :=
  if pinsOK opn idx then
    sumOver dim intl (fun σ => if σ b1 = σ b2 then tensorTerm D ts σ else 0) (pin opn idx (fun _ => 0))
  else 0

theorem fullDiag_eq_semDiag (net : Net) (D : Option Int → List Nat → α) (b1 b2 : Int) (idx : List Nat) {v : STensor}
    (hv : dget net.tensors (-1) = some v) :
    fullDiag net D b1 b2 idx = semDiag (bondDim net) v.bids (internalBids net v) (realTs net) D b1 b2 idx := by
  unfold fullDiag semDiag
  rw [hv]
  simp only
  split
  · congr 1
    funext σ
    simp only [tensorTerm, realTs, List.map_map]
    congr 1
  · rfl

theorem comp_rep_eq_upd (τ : Int → Nat) (b1 b2 : Int) : τ ∘ rep b2 b1 = upd τ b2 (τ b1) := by
  funext x
  simp only [Function.comp, rep, upd]
  by_cases hx : x = b2
  · subst hx; simp
  · have : (x == b2) = false := by simpa using hx
    simp [this, hx]

/-- fusing two SUMMED labels: `Σ_{i,j} f(i,j)` becomes `Σ_i f(i,i)` -/
theorem sem_diag_internal (dim : Int → Nat) (opn intl : List Int) (ts : List (Option Int × List Int))
    (D : Option Int → List Nat → α) (z : List Nat) (b1 b2 : Int) (hn : intl.Nodup)
    (h1 : pinsOK opn z = true → b1 ∉ intl → pin opn z (fun _ => 0) b1 < dim b1) (h2 : b2 ∈ intl)
    (hne : b1 ≠ b2) (ho2 : b2 ∉ opn) (hd : dim b1 = dim b2) :
    sem dim (opn.map (rep b2 b1)) (intl.filter (· != b2)) (relabelTs (rep b2 b1) ts) D z =
      semDiag dim opn intl ts D b1 b2 z := by
  have hopn : opn.map (rep b2 b1) = opn := by
    conv_rhs => rw [← List.map_id opn]
    apply List.map_congr_left
    intro x hx
    exact rep_of_ne (fun e => ho2 (e ▸ hx))
  rw [hopn]
  unfold sem semDiag
  split
  · have hperm : intl.Perm (intl.filter (· != b2) ++ [b2]) := by
      have e : intl.erase b2 = intl.filter (· != b2) := hn.erase_eq_filter b2
      rw [← e]
      exact (List.perm_cons_erase h2).trans (List.perm_append_singleton _ _).symm
    rw [sumOver_perm dim hperm, sumOver_append]
    apply sumOver_congr_inrange
    rename_i hpins
    intro τ hr hout
    have hτ : τ b1 < dim b2 := by
      by_cases hb : b1 ∈ intl
      · exact hd ▸ hr b1 (List.mem_filter.mpr ⟨hb, by simpa using hne⟩)
      · rw [hout b1 (fun hc => hb (List.mem_filter.mp hc).1)]
        exact hd ▸ h1 hpins hb
    rw [tensorTerm_relabel, comp_rep_eq_upd]
    simp only [sumOver_cons, sumOver_nil]
    have step : ∀ v ∈ List.range (dim b2),
        (if upd τ b2 v b1 = upd τ b2 v b2 then tensorTerm D ts (upd τ b2 v) else 0)
          = if τ b1 = v then tensorTerm D ts (upd τ b2 v) else 0 := by
      intro v _
      rw [upd_other _ hne, upd_same]
    rw [List.map_congr_left step, sum_range_delta (dim b2) (τ b1) (fun v => tensorTerm D ts (upd τ b2 v)), if_pos hτ]
  · rfl

theorem internalBids_nodup {net : Net} (h : WF0 net) (v : STensor) : (internalBids net v).Nodup := h.bnodup.filter _

/-- an in-range logical index pins every open bond to an index below the bond's dimension -/
theorem pin_lt_of_allIdx {net : Net} (h : WF0 net) {v : STensor} (hv : dget net.tensors (-1) = some v) {z : List Nat}
    (hz : z ∈ allIdx v.shape) (hp : pinsOK v.bids z = true) {b : Int} (hb : b ∈ v.bids) :
    pin v.bids z (fun _ => 0) b < bondDim net b := by
  obtain ⟨p, hpl, rfl⟩ := List.getElem_of_mem hb
  have h1 := pin_of_pinsOK v.bids z (fun _ => 0) hp p hpl
  have hm := mem_of_dget_eq_some _ hv
  have hsh := h.shape_eq_bondDim hm (ax := p) (b := v.bids[p]) (List.getElem?_eq_getElem hpl)
  simp only at hsh
  have hf := List.forall₂_iff_get.mp (mem_allIdx.mp hz)
  have hlen : v.shape.length = v.bids.length := h.tshape _ hm
  have hpz : p < z.length := by rw [hf.1, hlen]; exact hpl
  have hps : p < v.shape.length := by rw [hlen]; exact hpl
  have h2 := hf.2 p hpz hps
  simp only [List.get_eq_getElem] at h2
  rw [List.getElem?_eq_getElem hpz] at h1
  rw [List.getElem?_eq_getElem hps] at hsh
  have e1 : pin v.bids z (fun _ => 0) v.bids[p] = z[p] := Option.some.inj h1
  have e2 : v.shape[p] = bondDim net v.bids[p] := Option.some.inj hsh
  rw [e1, ← e2]; exact h2

/-- **`merge_bonds` where the second bond has no open leg is the diagonal restriction of the defining sum** (the first bond may be
internal, or open - then for logical indices within the shape) -/
theorem mergeBonds_full_internal {net net' : Net} {bid1 bid2 : Int} {v : STensor} {z : List Nat} (h : WF net) (hne : bid1 ≠ bid2)
    (hdim : bondDim net bid1 = bondDim net bid2) (hok : mergeBonds net bid1 bid2 = .ok net')
    (hv : dget net.tensors (-1) = some v) (ho1 : bid1 ∈ v.bids → z ∈ allIdx v.shape) (ho2 : bid2 ∉ v.bids)
    (D : Option Int → List Nat → α) : full net' D z = fullDiag net D bid1 bid2 z := by
  have hw' := mergeBonds_wf h hne hdim hok
  obtain ⟨B1, B2, hB1, hB2, heq⟩ := mergeBonds_spec h.toWF0 hne hok
  have hv' := virt_mergeBonds h.toWF0 hne hv hok
  rw [heq] at hw' hv' ⊢
  rw [full_eq_sem _ D z hv', fullDiag_eq_semDiag net D bid1 bid2 z hv]
  have hk1 : bid1 ∈ dkeys net.bonds := mem_dkeys_of_mem (mem_of_dget_eq_some _ hB1)
  have hk2 : bid2 ∈ dkeys net.bonds := mem_dkeys_of_mem (mem_of_dget_eq_some _ hB2)
  have hi1 : pinsOK v.bids z = true → bid1 ∉ internalBids net v →
      pin v.bids z (fun _ => 0) bid1 < bondDim net bid1 := by
    intro hp hni
    have hopen : bid1 ∈ v.bids := by
      by_contra hc
      apply hni
      simp only [internalBids, List.mem_filter, Bool.not_eq_true', List.contains_eq_mem, decide_eq_false_iff_not]
      exact ⟨hk1, hc⟩
    exact pin_lt_of_allIdx h.toWF0 hv (ho1 hopen) hp hopen
  have hi2 : bid2 ∈ internalBids net v := by
    simp only [internalBids, List.mem_filter, Bool.not_eq_true', List.contains_eq_mem, decide_eq_false_iff_not]
    exact ⟨hk2, ho2⟩
  have hbids : v.bids.map (rep bid2 bid1) = v.bids := by
    conv_rhs => rw [← List.map_id v.bids]
    apply List.map_congr_left
    intro x hx
    exact rep_of_ne (fun e => ho2 (e ▸ hx))
  have hreal : realTs ⟨relTensors (rep bid2 bid1) net.tensors, dmodify (dpop net.bonds bid2) bid1 (fun b => catBond b B2)⟩
      = relabelTs (rep bid2 bid1) (realTs net) := realTs_relTensors _ _ net.bonds _
  have hint : internalBids ⟨relTensors (rep bid2 bid1) net.tensors, dmodify (dpop net.bonds bid2) bid1 (fun b => catBond b B2)⟩
      { v with bids := v.bids.map (rep bid2 bid1) } = (internalBids net v).filter (· != bid2) := by
    simp only [internalBids, dkeys_dmodify, dkeys_dpop, List.filter_filter, hbids]
    apply List.filter_congr
    intro x _
    exact Bool.and_comm _ _
  have hd : ∀ l ∈ (internalBids net v).filter (· != bid2),
      bondDim ⟨relTensors (rep bid2 bid1) net.tensors, dmodify (dpop net.bonds bid2) bid1 (fun b => catBond b B2)⟩ l
        = bondDim net l := by
    intro l hl
    obtain ⟨hl1, hl2⟩ := List.mem_filter.mp hl
    have hl2' : l ≠ bid2 := by simpa using hl2
    have hlk : l ∈ dkeys net.bonds := by
      simp only [internalBids, List.mem_filter] at hl1; exact hl1.1
    obtain ⟨d, hd⟩ := h.toWF0.exists_leg hlk
    rw [h.toWF0.bondDim_of_leg hd]
    apply hw'.toWF0.bondDim_of_leg
    have := legDims_relB (rep bid2 bid1) net.tensors net.bonds (dmodify (dpop net.bonds bid2) bid1 (fun b => catBond b B2))
    rw [show relTensors (rep bid2 bid1) net.tensors = net.tensors.map (fun e => (e.1, { e.2 with bids := e.2.bids.map (rep bid2 bid1) })) from rfl, this]
    refine List.mem_map.mpr ⟨(l, d), hd, ?_⟩
    simp only [rep_of_ne hl2']
  rw [hreal, hint]
  rw [sem_congr D z (List.Perm.refl _) (List.Perm.refl _) hd]
  show sem (bondDim net) (v.bids.map (rep bid2 bid1)) _ _ D z = _
  exact sem_diag_internal (bondDim net) v.bids (internalBids net v) (realTs net) D z bid1 bid2
    (internalBids_nodup h.toWF0 v) hi1 hi2 hne ho2 hdim

/-- **`merge_bonds` of two bonds on open axes `p`, `q` identifies the two open legs**: the value is multiplied by the Kronecker delta
of the two indices -/
theorem mergeBonds_full_open {net net' : Net} {bid1 bid2 : Int} {v : STensor} (h : WF net) (hne : bid1 ≠ bid2)
    (hdim : bondDim net bid1 = bondDim net bid2) (hok : mergeBonds net bid1 bid2 = .ok net')
    (hv : dget net.tensors (-1) = some v) {p q : Nat} (hb1 : v.bids[p]? = some bid1) (hb2 : v.bids[q]? = some bid2)
    (D : Option Int → List Nat → α) (z : List Nat) :
    full net' D z = if z[p]? == z[q]? then full net D z else 0 := by
  have hw' := mergeBonds_wf h hne hdim hok
  obtain ⟨B1, B2, hB1, hB2, heq⟩ := mergeBonds_spec h.toWF0 hne hok
  have hv' := virt_mergeBonds h.toWF0 hne hv hok
  rw [heq] at hw' hv' ⊢
  rw [full_eq_sem _ D z hv', full_eq_sem _ D z hv]
  have hreal : realTs ⟨relTensors (rep bid2 bid1) net.tensors, dmodify (dpop net.bonds bid2) bid1 (fun b => catBond b B2)⟩
      = relabelTs (rep bid2 bid1) (realTs net) := realTs_relTensors _ _ net.bonds _
  have hb1m : bid1 ∈ v.bids := List.mem_of_getElem? hb1
  have hb2m : bid2 ∈ v.bids := List.mem_of_getElem? hb2
  have hint : internalBids ⟨relTensors (rep bid2 bid1) net.tensors, dmodify (dpop net.bonds bid2) bid1 (fun b => catBond b B2)⟩
      { v with bids := v.bids.map (rep bid2 bid1) } = internalBids net v := by
    simp only [internalBids, dkeys_dmodify, dkeys_dpop, List.filter_filter]
    apply List.filter_congr
    intro x _
    rw [Bool.eq_iff_iff]
    simp only [Bool.and_eq_true, Bool.not_eq_true', bne_iff_ne, ne_eq, List.contains_eq_mem, decide_eq_false_iff_not,
      List.mem_map, not_exists, not_and]
    constructor
    · rintro ⟨h1, h2⟩ hx
      exact h1 x hx (rep_of_ne h2)
    · intro hx
      refine ⟨fun y hy hyx => ?_, fun e => hx (e ▸ hb2m)⟩
      by_cases hyb : y = bid2
      · subst hyb; rw [rep_self] at hyx; exact hx (hyx ▸ hb1m)
      · rw [rep_of_ne hyb] at hyx; exact hx (hyx ▸ hy)
  have hintl : ∀ l ∈ internalBids net v, l ≠ bid1 ∧ l ≠ bid2 := by
    intro l hl
    have : l ∉ v.bids := by
      simp only [internalBids, List.mem_filter, Bool.not_eq_true', List.contains_eq_mem, decide_eq_false_iff_not] at hl
      exact hl.2
    exact ⟨fun e => this (e ▸ hb1m), fun e => this (e ▸ hb2m)⟩
  have hd : ∀ l ∈ internalBids net v,
      bondDim ⟨relTensors (rep bid2 bid1) net.tensors, dmodify (dpop net.bonds bid2) bid1 (fun b => catBond b B2)⟩ l
        = bondDim net l := by
    intro l hl
    have hlk : l ∈ dkeys net.bonds := by
      simp only [internalBids, List.mem_filter] at hl; exact hl.1
    obtain ⟨d, hd⟩ := h.toWF0.exists_leg hlk
    rw [h.toWF0.bondDim_of_leg hd]
    apply hw'.toWF0.bondDim_of_leg
    have := legDims_relB (rep bid2 bid1) net.tensors net.bonds (dmodify (dpop net.bonds bid2) bid1 (fun b => catBond b B2))
    rw [show relTensors (rep bid2 bid1) net.tensors = net.tensors.map (fun e => (e.1, { e.2 with bids := e.2.bids.map (rep bid2 bid1) })) from rfl, this]
    refine List.mem_map.mpr ⟨(l, d), hd, ?_⟩
    simp only [rep_of_ne (hintl l hl).2]
  rw [hreal, hint]
  rw [sem_congr D z (List.Perm.refl _) (List.Perm.refl _) hd]
  exact sem_fuse (bondDim net) v.bids (internalBids net v) (realTs net) D z bid1 bid2 _ _ hb1 hb2 hintl

theorem semDiag_symm (dim : Int → Nat) (opn intl : List Int) (ts : List (Option Int × List Int))
    (D : Option Int → List Nat → α) (b1 b2 : Int) (z : List Nat) :
    semDiag dim opn intl ts D b1 b2 z = semDiag dim opn intl ts D b2 b1 z := by
  unfold semDiag
  split
  · apply sumOver_congr
    intro σ
    by_cases h : σ b1 = σ b2
    · simp [h]
    · have : ¬ σ b2 = σ b1 := fun e => h e.symm
      simp [h, this]
  · rfl

theorem relabelTs_comp (f g : Int → Int) (ts : List (Option Int × List Int)) :
    relabelTs f (relabelTs g ts) = relabelTs (f ∘ g) ts := by
  simp [relabelTs, List.map_map, Function.comp_def]

theorem swp_comp_rep (b1 b2 : Int) (hne : b1 ≠ b2) : swp b2 b1 ∘ rep b1 b2 = rep b2 b1 := by
  funext x
  simp only [Function.comp, swp, rep]
  by_cases h1 : x = b1
  · subst h1
    have : (x == b2) = false := by simpa using hne
    simp [this]
  · by_cases h2 : x = b2
    · subst h2
      have : (x == b1) = false := by simpa using h1
      simp [this]
    · have e1 : (x == b1) = false := by simpa using h1
      have e2 : (x == b2) = false := by simpa using h2
      simp [e1, e2, h1, h2]

/-- **`merge_bonds` where the second bond is open and the first is not**: still the diagonal restriction (for logical indices within the
shape): the open axes of the second bond now read the summation index of the first -/
theorem mergeBonds_full_second_open {net net' : Net} {bid1 bid2 : Int} {v : STensor} {z : List Nat} (h : WF net)
    (hne : bid1 ≠ bid2) (hdim : bondDim net bid1 = bondDim net bid2) (hok : mergeBonds net bid1 bid2 = .ok net')
    (hv : dget net.tensors (-1) = some v) (ho1 : bid1 ∉ v.bids) (ho2 : bid2 ∈ v.bids) (hz : z ∈ allIdx v.shape)
    (D : Option Int → List Nat → α) : full net' D z = fullDiag net D bid1 bid2 z := by
  have hw' := mergeBonds_wf h hne hdim hok
  obtain ⟨B1, B2, hB1, hB2, heq⟩ := mergeBonds_spec h.toWF0 hne hok
  have hv' := virt_mergeBonds h.toWF0 hne hv hok
  rw [heq] at hw' hv' ⊢
  rw [full_eq_sem _ D z hv', fullDiag_eq_semDiag net D bid1 bid2 z hv]
  have hk1 : bid1 ∈ dkeys net.bonds := mem_dkeys_of_mem (mem_of_dget_eq_some _ hB1)
  have hi1 : bid1 ∈ internalBids net v := by
    simp only [internalBids, List.mem_filter, Bool.not_eq_true', List.contains_eq_mem, decide_eq_false_iff_not]
    exact ⟨hk1, ho1⟩
  have hreal : realTs ⟨relTensors (rep bid2 bid1) net.tensors, dmodify (dpop net.bonds bid2) bid1 (fun b => catBond b B2)⟩
      = relabelTs (swp bid2 bid1) (relabelTs (rep bid1 bid2) (realTs net)) := by
    rw [relabelTs_comp, swp_comp_rep bid1 bid2 hne]
    exact realTs_relTensors _ _ net.bonds _
  have hint : internalBids ⟨relTensors (rep bid2 bid1) net.tensors, dmodify (dpop net.bonds bid2) bid1 (fun b => catBond b B2)⟩
      { v with bids := v.bids.map (rep bid2 bid1) } = (internalBids net v).filter (· != bid1) := by
    simp only [internalBids, dkeys_dmodify, dkeys_dpop, List.filter_filter]
    apply List.filter_congr
    intro x _
    rw [Bool.eq_iff_iff]
    simp only [Bool.and_eq_true, Bool.not_eq_true', bne_iff_ne, ne_eq, List.contains_eq_mem, decide_eq_false_iff_not,
      List.mem_map, not_exists, not_and]
    constructor
    · rintro ⟨hall, hx2⟩
      have hx1 : x ≠ bid1 := fun e => hall bid2 ho2 (by rw [rep_self, e])
      have hxv : x ∉ v.bids := fun hx => hall x hx (rep_of_ne hx2)
      exact ⟨hx1, hxv⟩
    · rintro ⟨hx1, hxv⟩
      have hx2 : x ≠ bid2 := fun e => hxv (e ▸ ho2)
      have hall : ∀ y ∈ v.bids, ¬ rep bid2 bid1 y = x := by
        intro y hy hyx
        by_cases hyb : y = bid2
        · subst hyb; rw [rep_self] at hyx; exact hx1 hyx.symm
        · rw [rep_of_ne hyb] at hyx; exact hxv (hyx ▸ hy)
      exact ⟨hall, hx2⟩
  have hnot : ∀ l ∈ (internalBids net v).filter (· != bid1), l ≠ bid1 ∧ l ≠ bid2 := by
    intro l hl
    obtain ⟨hl1, hl2⟩ := List.mem_filter.mp hl
    have : l ∉ v.bids := by
      simp only [internalBids, List.mem_filter, Bool.not_eq_true', List.contains_eq_mem, decide_eq_false_iff_not] at hl1
      exact hl1.2
    exact ⟨by simpa using hl2, fun e => this (e ▸ ho2)⟩
  have hswp : ∀ l ∈ (internalBids net v).filter (· != bid1), swp bid2 bid1 l = l := by
    intro l hl
    obtain ⟨h1, h2⟩ := hnot l hl
    simp [swp, h1, h2]
  have hd : ∀ l ∈ (internalBids net v).filter (· != bid1),
      bondDim ⟨relTensors (rep bid2 bid1) net.tensors, dmodify (dpop net.bonds bid2) bid1 (fun b => catBond b B2)⟩
        (swp bid2 bid1 l) = bondDim net l := by
    intro l hl
    rw [hswp l hl]
    obtain ⟨hl1, _⟩ := List.mem_filter.mp hl
    have hlk : l ∈ dkeys net.bonds := by
      simp only [internalBids, List.mem_filter] at hl1; exact hl1.1
    obtain ⟨d, hd⟩ := h.toWF0.exists_leg hlk
    rw [h.toWF0.bondDim_of_leg hd]
    apply hw'.toWF0.bondDim_of_leg
    have := legDims_relB (rep bid2 bid1) net.tensors net.bonds (dmodify (dpop net.bonds bid2) bid1 (fun b => catBond b B2))
    rw [show relTensors (rep bid2 bid1) net.tensors = net.tensors.map (fun e => (e.1, { e.2 with bids := e.2.bids.map (rep bid2 bid1) })) from rfl, this]
    refine List.mem_map.mpr ⟨(l, d), hd, ?_⟩
    simp only [rep_of_ne (hnot l hl).2]
  have hmapI : ((internalBids net v).filter (· != bid1)).map (swp bid2 bid1) = (internalBids net v).filter (· != bid1) := by
    conv_rhs => rw [← List.map_id ((internalBids net v).filter (· != bid1))]
    exact List.map_congr_left hswp
  rw [hreal, hint]
  show sem _ (v.bids.map (rep bid2 bid1)) _ _ D z = _
  rw [map_rep_eq_map_swp bid2 bid1 v.bids ho1]
  conv_lhs => rw [← hmapI]
  rw [sem_relabel (swp_inj bid2 bid1) (bondDim net) _ v.bids _ _ D z hd]
  have hopn : v.bids = v.bids.map (rep bid1 bid2) := by
    conv_lhs => rw [← List.map_id v.bids]
    apply List.map_congr_left
    intro x hx
    exact (rep_of_ne (fun (e : x = bid1) => ho1 (e ▸ hx))).symm
  conv_lhs => rw [hopn]
  rw [sem_diag_internal (bondDim net) v.bids (internalBids net v) (realTs net) D z bid2 bid1
    (internalBids_nodup h.toWF0 v) (fun hp _ => pin_lt_of_allIdx h.toWF0 hv hz hp ho2) hi1 hne.symm ho1 hdim.symm]
  exact semDiag_symm _ _ _ _ D bid2 bid1 z

/-- on two OPEN bonds the delta inside the sum is the delta of the two logical indices -/
theorem fullDiag_open {net : Net} {v : STensor} (hv : dget net.tensors (-1) = some v) {b1 b2 : Int} {p q : Nat}
    (hb1 : v.bids[p]? = some b1) (hb2 : v.bids[q]? = some b2) (D : Option Int → List Nat → α) (z : List Nat) :
    fullDiag net D b1 b2 z = if z[p]? == z[q]? then full net D z else 0 := by
  rw [fullDiag_eq_semDiag net D b1 b2 z hv, full_eq_sem net D z hv]
  unfold semDiag sem
  have hpl : p < v.bids.length := by
    by_contra hc; rw [List.getElem?_eq_none (by omega)] at hb1; cases hb1
  have hql : q < v.bids.length := by
    by_contra hc; rw [List.getElem?_eq_none (by omega)] at hb2; cases hb2
  have e1 : v.bids[p] = b1 := by rw [List.getElem?_eq_getElem hpl] at hb1; exact Option.some.inj hb1
  have e2 : v.bids[q] = b2 := by rw [List.getElem?_eq_getElem hql] at hb2; exact Option.some.inj hb2
  have hni : ∀ b ∈ v.bids, b ∉ internalBids net v := by
    intro b hb hc
    simp only [internalBids, List.mem_filter, Bool.not_eq_true', List.contains_eq_mem, decide_eq_false_iff_not] at hc
    exact hc.2 hb
  by_cases hp : pinsOK v.bids z = true
  · simp only [hp, if_true]
    have g1 := pin_of_pinsOK v.bids z (fun _ => 0) hp p hpl
    have g2 := pin_of_pinsOK v.bids z (fun _ => 0) hp q hql
    rw [e1] at g1; rw [e2] at g2
    by_cases hz : (z[p]? == z[q]?) = true
    · rw [if_pos hz]
      apply sumOver_congr_inrange
      intro τ _ hout
      have : τ b1 = τ b2 := by
        rw [hout b1 (hni b1 (List.mem_of_getElem? hb1)), hout b2 (hni b2 (List.mem_of_getElem? hb2))]
        have := beq_iff_eq.mp hz
        rw [← g1, ← g2] at this
        exact Option.some.inj this
      rw [if_pos this]
    · rw [if_neg hz]
      have : sumOver (bondDim net) (internalBids net v)
          (fun σ => if σ b1 = σ b2 then tensorTerm D (realTs net) σ else 0) (pin v.bids z (fun _ => 0))
          = sumOver (bondDim net) (internalBids net v) (fun _ => (0 : α)) (pin v.bids z (fun _ => 0)) := by
        apply sumOver_congr_inrange
        intro τ _ hout
        have : ¬ τ b1 = τ b2 := by
          rw [hout b1 (hni b1 (List.mem_of_getElem? hb1)), hout b2 (hni b2 (List.mem_of_getElem? hb2))]
          intro e
          apply hz
          rw [beq_iff_eq, ← g1, ← g2, e]
        rw [if_neg this]
      rw [this, sumOver_zero]
  · simp only [hp, Bool.false_eq_true, if_false]
    split <;> rfl

/-- **`merge_bonds` is the diagonal restriction of the defining sum, in every configuration** of the two bonds (internal / open), for
logical indices within the shape -/
theorem mergeBonds_full_general {net net' : Net} {bid1 bid2 : Int} {v : STensor} {z : List Nat} (h : WF net)
    (hne : bid1 ≠ bid2) (hdim : bondDim net bid1 = bondDim net bid2) (hok : mergeBonds net bid1 bid2 = .ok net')
    (hv : dget net.tensors (-1) = some v) (hz : z ∈ allIdx v.shape) (D : Option Int → List Nat → α) :
    full net' D z = fullDiag net D bid1 bid2 z := by
  by_cases ho2 : bid2 ∈ v.bids
  · by_cases ho1 : bid1 ∈ v.bids
    · obtain ⟨p, hp, e1⟩ := List.getElem_of_mem ho1
      obtain ⟨q, hq, e2⟩ := List.getElem_of_mem ho2
      have hb1 : v.bids[p]? = some bid1 := by rw [List.getElem?_eq_getElem hp, e1]
      have hb2 : v.bids[q]? = some bid2 := by rw [List.getElem?_eq_getElem hq, e2]
      rw [mergeBonds_full_open h hne hdim hok hv hb1 hb2 D z, fullDiag_open hv hb1 hb2 D z]
    · exact mergeBonds_full_second_open h hne hdim hok hv ho1 ho2 hz D
  · exact mergeBonds_full_internal h hne hdim hok hv (fun _ => hz) ho2 D

end Qib.TNet
