import QibProofs.Lemmas.TNetPublic2
/-!
Helper lemmas for C08 (public stage), part 4: `generate_bonds` in closed form (accepted or stopped by the `SymbolicBond` constructor) and the
well-formedness of its result; `wrap` (no property statements).
-/
namespace Qib.TNet

/-- the bond `generate_bonds` creates for `bid` -/
def genBond (ts : List (Int × STensor)) (bid : Int) : Int × SBond := (bid, ⟨bid, isort (refsOf ⟨ts, []⟩ bid)⟩)

/-- the bond ids in the order `generate_bonds` visits them -/
def genIds (ts : List (Int × STensor)) : List Int := sortedDedup (ts.flatMap (fun e => e.2.bids))

theorem refsOf_indep (ts : List (Int × STensor)) (bs : List (Int × SBond)) (bid : Int) :
    refsOf ⟨ts, bs⟩ bid = refsOf ⟨ts, []⟩ bid := rfl

theorem foldl_genStep_err (l : List Int) (e : Err) (n : Net) : l.foldl genStep ⟨some e, n⟩ = ⟨some e, n⟩ := by
  induction l with
  | nil => rfl
  | cons b bs ih => simp only [List.foldl_cons, genStep]; exact ih

/-- is the bond id carried by at least two axes (otherwise the `SymbolicBond` constructor refuses) -/
def twoRefs (ts : List (Int × STensor)) (bid : Int) : Bool := decide (2 ≤ (refsOf ⟨ts, []⟩ bid).length)

/-- **closed form of the loop of `generate_bonds`**: the bonds of the ids before the first one carried by a single axis are appended; the
loop stops there with `ValueError` -/
theorem foldl_genStep (ts : List (Int × STensor)) (l : List Int) (hl : l.Nodup) (bs : List (Int × SBond))
    (hd : ∀ b ∈ l, b ∉ dkeys bs) :
    l.foldl genStep ⟨none, ⟨ts, bs⟩⟩ =
      ⟨if l.all (twoRefs ts) then none else some .valueError, ⟨ts, bs ++ (l.takeWhile (twoRefs ts)).map (genBond ts)⟩⟩ := by
  induction l generalizing bs with
  | nil => simp
  | cons b l ih =>
    rw [List.nodup_cons] at hl
    simp only [List.foldl_cons]
    by_cases h2 : twoRefs ts b = true
    · have hlen : ¬ (refsOf ⟨ts, []⟩ b).length < 2 := by
        simp only [twoRefs, decide_eq_true_eq] at h2; omega
      have hnk : dhas bs b = false := (dhas_false_iff _ _).mpr (hd b List.mem_cons_self)
      have e1 : mkBond b (refsOf ⟨ts, bs⟩ b) = .ok ⟨b, isort (refsOf ⟨ts, []⟩ b)⟩ := by
        unfold mkBond; rw [refsOf_indep]; exact if_neg hlen
      have e2 : addBond ⟨ts, bs⟩ ⟨b, isort (refsOf ⟨ts, []⟩ b)⟩ = .ok ⟨ts, bs ++ [genBond ts b]⟩ := by
        unfold addBond; simp only [hnk, Bool.false_eq_true, if_false, genBond]
      have hstep : genStep ⟨none, ⟨ts, bs⟩⟩ b = ⟨none, ⟨ts, bs ++ [genBond ts b]⟩⟩ := by
        simp only [genStep, e1, e2, Outcome.ofExcept]
      rw [hstep, ih hl.2]
      · simp only [List.all_cons, h2, Bool.true_and, List.takeWhile_cons, if_true, List.map_cons, List.append_assoc,
          List.singleton_append]
      · intro x hx
        simp only [dkeys_append, dkeys_cons, dkeys_nil, List.mem_append, List.mem_singleton, not_or, genBond]
        exact ⟨hd x (List.mem_cons_of_mem _ hx), fun e => hl.1 (e ▸ hx)⟩
    · have h2' : twoRefs ts b = false := by cases h : twoRefs ts b <;> simp_all
      have hlen : (refsOf ⟨ts, []⟩ b).length < 2 := by
        simp only [twoRefs, decide_eq_false_iff_not] at h2'; omega
      have e1 : mkBond b (refsOf ⟨ts, bs⟩ b) = .error .valueError := by
        unfold mkBond; rw [refsOf_indep]; exact if_pos hlen
      have hstep : genStep ⟨none, ⟨ts, bs⟩⟩ b = ⟨some .valueError, ⟨ts, bs⟩⟩ := by
        simp only [genStep, e1]
      rw [hstep, foldl_genStep_err]
      simp [h2']

theorem nodup_genIds (ts : List (Int × STensor)) : (genIds ts).Nodup := nodup_eraseDups_int _

theorem mem_genIds {ts : List (Int × STensor)} {b : Int} : b ∈ genIds ts ↔ ∃ e ∈ ts, b ∈ e.2.bids := by
  simp only [genIds, sortedDedup, List.mem_eraseDups, mem_isort, List.mem_flatMap]

theorem generateBondsP_empty (ts : List (Int × STensor)) :
    generateBondsP ⟨ts, []⟩ =
      ⟨if (genIds ts).all (twoRefs ts) then none else some .valueError,
       ⟨ts, ((genIds ts).takeWhile (twoRefs ts)).map (genBond ts)⟩⟩ := by
  unfold generateBondsP
  simp only [List.isEmpty_nil, Bool.not_true, Bool.false_eq_true, if_false]
  have := foldl_genStep ts (genIds ts) (nodup_genIds ts) [] (by simp)
  simpa [genIds] using this

/-! ### the result of an accepted `generate_bonds` is well-formed -/

/-- what `generate_bonds` needs of the tensor dictionary to produce a consistent network -/
structure TensOK (ts : List (Int × STensor)) : Prop where
  nodup : (dkeys ts).Nodup
  key : ∀ e ∈ ts, e.2.tid = e.1
  shape : ∀ e ∈ ts, e.2.shape.length = e.2.bids.length
  dims : ∀ p ∈ legDims ⟨ts, []⟩, ∀ q ∈ legDims ⟨ts, []⟩, p.1 = q.1 → p.2 = q.2
  virt : (-1 : Int) ∈ dkeys ts

theorem count_refsOf {ts : List (Int × STensor)} (h : TensOK ts) (t b : Int) :
    (refsOf ⟨ts, []⟩ b).count t = match dget ts t with
      | some T => T.bids.count b
      | none => 0 := by
  unfold refsOf
  rw [count_flatMap_dict ts h.nodup _ t t]
  · cases hg : dget ts t with
    | none => rfl
    | some T =>
      simp only
      have hk : T.tid = t := h.key _ (mem_of_dget_eq_some _ hg)
      rw [hk, List.count_eq_length_filter]
      simp only [List.filter_map, List.length_map]
      have : (List.filter ((fun x => x == t) ∘ fun _ => t) (List.filter (fun x => x == b) T.bids)) =
          List.filter (fun x => x == b) T.bids := by
        apply List.filter_eq_self.mpr
        intro a _; simp
      rw [this, List.count_eq_length_filter]
  · intro e he hne hm
    simp only [List.mem_map] at hm
    obtain ⟨_, _, hx⟩ := hm
    exact hne ((h.key e he).symm.trans hx)

theorem dkeys_map_genBond (ts : List (Int × STensor)) (l : List Int) : dkeys (l.map (genBond ts)) = l := by
  simp [dkeys, genBond, List.map_map, Function.comp_def]

theorem dget_map_genBond (ts : List (Int × STensor)) (l : List Int) (b : Int) :
    dget (l.map (genBond ts)) b = if b ∈ l then some (genBond ts b).2 else none := by
  induction l with
  | nil => simp [dget]
  | cons x xs ih =>
    simp only [List.map_cons, dget, List.lookup, genBond] at ih ⊢
    by_cases hx : b = x
    · subst hx; simp
    · have : (b == x) = false := by simpa using hx
      simp only [this, List.mem_cons, hx, false_or]
      exact ih

theorem generated_wf {ts : List (Int × STensor)} (h : TensOK ts) (hall : (genIds ts).all (twoRefs ts) = true) :
    WF ⟨ts, (genIds ts).map (genBond ts)⟩ := by
  have hbn : (dkeys ((genIds ts).map (genBond ts))).Nodup := by rw [dkeys_map_genBond]; exact nodup_genIds ts
  refine ⟨⟨h.nodup, hbn, h.key, ?_, h.shape, ?_, ?_, ?_, h.dims⟩, h.virt⟩
  · intro e he
    obtain ⟨b, _, rfl⟩ := List.mem_map.mp he; rfl
  · intro e he
    obtain ⟨b, _, rfl⟩ := List.mem_map.mp he
    exact isort_sorted _
  · intro e he
    obtain ⟨b, hb, rfl⟩ := List.mem_map.mp he
    have := List.all_eq_true.mp hall b hb
    simp only [twoRefs, decide_eq_true_eq] at this
    simpa [genBond, length_isort] using this
  · rw [List.perm_iff_count]
    rintro ⟨t, b⟩
    rw [count_tLegs _ h.nodup, count_bLegs _ hbn]
    simp only
    rw [dget_map_genBond]
    by_cases hb : b ∈ genIds ts
    · simp only [hb, if_true, genBond, count_isort]
      rw [count_refsOf h]
      cases dget ts t <;> rfl
    · simp only [hb, if_false]
      cases hg : dget ts t with
      | none => rfl
      | some T =>
        simp only
        rw [List.count_eq_zero]
        intro hc
        exact hb (mem_genIds.mpr ⟨(t, T), mem_of_dget_eq_some _ hg, hc⟩)

/-! ### regenerating the bonds of a consistent network -/

theorem tensOK_of_wf {net : Net} (h : WF net) : TensOK net.tensors :=
  ⟨h.tnodup, h.tkey, h.tshape, h.dims, h.virt⟩

/-- on a consistent network the references `generate_bonds` collects for a bond are, sorted, the stored tensor ids of that bond -/
theorem isort_refsOf_eq {net : Net} (h : WF net) {b : Int} {B : SBond} (hB : dget net.bonds b = some B) :
    isort (refsOf ⟨net.tensors, []⟩ b) = B.tids := by
  have hm := mem_of_dget_eq_some _ hB
  apply eq_of_perm_sorted _ (isort_sorted _) (h.bsorted _ hm)
  refine (isort_perm _).trans ?_
  rw [List.perm_iff_count]
  intro t
  rw [count_refsOf (tensOK_of_wf h)]
  cases hT : dget net.tensors t with
  | some T => exact (h.toWF0.mult hT hB).symm
  | none =>
    simp only
    symm
    rw [List.count_eq_zero]
    intro hc
    obtain ⟨T, hT'⟩ := h.toWF0.tensor_of_ref hB hc
    rw [hT] at hT'; cases hT'

theorem genIds_of_wf {net : Net} (h : WF net) {b : Int} : b ∈ genIds net.tensors ↔ b ∈ dkeys net.bonds := by
  rw [mem_genIds]
  constructor
  · rintro ⟨e, he, hb⟩
    exact h.toWF0.mem_bond_keys he hb
  · intro hb
    obtain ⟨d, hd⟩ := h.toWF0.exists_leg hb
    obtain ⟨e, he, hz⟩ := List.mem_flatMap.mp (show (b, d) ∈ net.tensors.flatMap (fun e => e.2.bids.zip e.2.shape) from hd)
    exact ⟨e, he, (List.of_mem_zip hz).1⟩

theorem twoRefs_of_wf {net : Net} (h : WF net) : (genIds net.tensors).all (twoRefs net.tensors) = true := by
  rw [List.all_eq_true]
  intro b hb
  obtain ⟨B, hB⟩ := dget_some_of_mem_dkeys ((genIds_of_wf h).mp hb)
  have h2 := h.blen _ (mem_of_dget_eq_some _ hB)
  simp only at h2
  have := congrArg List.length (isort_refsOf_eq h hB)
  rw [length_isort] at this
  simp only [twoRefs, decide_eq_true_eq]
  omega

theorem eraseDups_sublist_int (l : List Int) : l.eraseDups.Sublist l := by
  induction hn : l.length using Nat.strong_induction_on generalizing l with
  | _ n ih =>
    cases l with
    | nil => simp
    | cons a as =>
      rw [List.eraseDups_cons]
      subst hn
      exact ((ih _ (Nat.lt_succ_of_le (List.length_filter_le _ _)) _ rfl).trans List.filter_sublist).cons_cons a

theorem sorted_genIds (ts : List (Int × STensor)) : (genIds ts).Pairwise (· ≤ ·) :=
  (isort_sorted _).sublist (eraseDups_sublist_int _)

theorem takeWhile_of_all {γ : Type} (p : γ → Bool) (l : List γ) (h : l.all p = true) : l.takeWhile p = l := by
  induction l with
  | nil => rfl
  | cons a as ih =>
    simp only [List.all_cons, Bool.and_eq_true] at h
    simp only [List.takeWhile_cons, h.1, if_true, ih h.2]

end Qib.TNet
