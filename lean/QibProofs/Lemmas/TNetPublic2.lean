import QibProofs.Lemmas.TNetPublic
/-!
Helper lemmas for C08 (public stage), part 2: outcomes vs. `Except`, well-formedness, the virtual tensor and the counts after
`merge_tensors` / `merge_bonds` (no property statements).
-/
namespace Qib.TNet

theorem ofExcept_ok_iff (r : Except Err Net) (left n : Net) : Outcome.ofExcept r left = ⟨none, n⟩ ↔ r = .ok n := by
  unfold Outcome.ofExcept
  cases r with
  | ok m => simp
  | error e => simp

theorem mergeTensorsP_ok_iff (net n : Net) (a b : Int) : mergeTensorsP net a b = ⟨none, n⟩ ↔ mergeTensors net a b = .ok n :=
  ofExcept_ok_iff _ _ _

theorem mergeBondsP_ok_iff (net n : Net) (a b : Int) : mergeBondsP net a b = ⟨none, n⟩ ↔ mergeBonds net a b = .ok n :=
  ofExcept_ok_iff _ _ _

theorem mergeTensors_self (net : Net) (a : Int) : mergeTensors net a a = .ok net := by
  rw [mergeTensors_eq]; simp

theorem mergeBonds_self (net : Net) (a : Int) : mergeBonds net a a = .ok net := by
  rw [mergeBonds_eq]; simp

/-! ### `merge_tensors` on a well-formed network -/

theorem mergeTensors_wf {net net' : Net} {tid1 tid2 : Int} (h : WF net) (hne : tid1 ≠ tid2) (h2 : tid2 ≠ -1)
    (hok : mergeTensors net tid1 tid2 = .ok net') : WF net' := by
  refine ⟨mergeTensors_wf0 h.toWF0 hne hok, ?_⟩
  rw [(dkeys_mergeTensors h.toWF0 hne hok).1, List.mem_filter]
  exact ⟨h.virt, by simpa using fun e : (-1 : Int) = tid2 => h2 e.symm⟩

/-- merging the virtual tensor INTO another one removes it: the result is no network any more -/
theorem mergeTensors_virtual_lost {net net' : Net} {tid1 : Int} (h : WF net) (hne : tid1 ≠ -1)
    (hok : mergeTensors net tid1 (-1) = .ok net') : isConsistent net' = .ok false := by
  have hk := (dkeys_mergeTensors h.toWF0 hne hok).1
  have hnot : (-1 : Int) ∉ dkeys net'.tensors := by
    rw [hk, List.mem_filter]; simp
  unfold isConsistent
  rw [(dhas_false_iff _ _).mpr hnot]
  rfl

theorem length_mergeTensors {net net' : Net} {tid1 tid2 : Int} (h : WF0 net) (hne : tid1 ≠ tid2)
    (hok : mergeTensors net tid1 tid2 = .ok net') :
    net'.tensors.length + 1 = net.tensors.length ∧ net'.bonds.length = net.bonds.length := by
  obtain ⟨T1, T2, h1, h2, rfl⟩ := mergeTensors_spec h hne hok
  have := length_dpop_of_nodup net.tensors h.tnodup (mem_dkeys_of_mem (mem_of_dget_eq_some _ h2))
  simp only at this
  have hpos : 1 ≤ net.tensors.length := List.length_pos_of_mem (mem_of_dget_eq_some _ h2)
  refine ⟨?_, by simp [relBonds]⟩
  simp only [dmodify, List.length_map]
  omega

/-- the virtual tensor after `merge_tensors`: untouched unless it is the first operand, which is extended by the second's axes -/
theorem virt_mergeTensors {net net' : Net} {tid1 tid2 : Int} {v T2 : STensor} (h : WF0 net) (hne : tid1 ≠ tid2) (h2 : tid2 ≠ -1)
    (hv : dget net.tensors (-1) = some v) (hT2 : dget net.tensors tid2 = some T2)
    (hok : mergeTensors net tid1 tid2 = .ok net') :
    dget net'.tensors (-1) = some (if tid1 = -1 then catTensor v T2 else v) := by
  obtain ⟨T1, T2', h1, h2', rfl⟩ := mergeTensors_spec h hne hok
  rw [hT2] at h2'; cases h2'
  simp only
  rw [dget_dmodify, dget_dpop_ne _ (fun e : (-1 : Int) = tid2 => h2 e.symm), hv]
  by_cases ht : tid1 = -1
  · subst ht; simp
  · have : ((-1 : Int) == tid1) = false := by simpa using fun e : (-1 : Int) = tid1 => ht e.symm
    simp [this, ht]

/-! ### `merge_bonds` on a well-formed network -/

theorem mergeBonds_wf {net net' : Net} {bid1 bid2 : Int} (h : WF net) (hne : bid1 ≠ bid2)
    (hdim : bondDim net bid1 = bondDim net bid2) (hok : mergeBonds net bid1 bid2 = .ok net') : WF net' := by
  refine ⟨mergeBonds_wf0 h.toWF0 hne ?_ hok, ?_⟩
  · intro p hp q hq hp1 hq2
    have e1 := h.toWF0.bondDim_of_leg (l := p.1) (d := p.2) hp
    have e2 := h.toWF0.bondDim_of_leg (l := q.1) (d := q.2) hq
    rw [hp1] at e1; rw [hq2] at e2
    rw [← e1, ← e2, hdim]
  · rw [(dkeys_mergeBonds h.toWF0 hne hok).1]; exact h.virt

/-- fusing two bonds of different dimensions breaks the one-dimension-per-bond rule -/
theorem mergeBonds_dims_of_wf {net net' : Net} {bid1 bid2 : Int} (h : WF net) (hne : bid1 ≠ bid2)
    (hok : mergeBonds net bid1 bid2 = .ok net') (h' : WF0 net') : bondDim net bid1 = bondDim net bid2 := by
  obtain ⟨B1, B2, h1, h2, rfl⟩ := mergeBonds_spec h.toWF0 hne hok
  obtain ⟨d1, hd1⟩ := h.toWF0.exists_leg (mem_dkeys_of_mem (mem_of_dget_eq_some _ h1))
  obtain ⟨d2, hd2⟩ := h.toWF0.exists_leg (mem_dkeys_of_mem (mem_of_dget_eq_some _ h2))
  rw [h.toWF0.bondDim_of_leg hd1, h.toWF0.bondDim_of_leg hd2]
  have hl := legDims_relB (rep bid2 bid1) net.tensors net.bonds (dmodify (dpop net.bonds bid2) bid1 (fun b => catBond b B2))
  have hm1 : (bid1, d1) ∈ legDims ⟨relTensors (rep bid2 bid1) net.tensors, dmodify (dpop net.bonds bid2) bid1 (fun b => catBond b B2)⟩ := by
    rw [show relTensors (rep bid2 bid1) net.tensors = net.tensors.map (fun e => (e.1, { e.2 with bids := e.2.bids.map (rep bid2 bid1) })) from rfl, hl]
    exact List.mem_map.mpr ⟨(bid1, d1), hd1, by simp only [rep_of_ne hne]⟩
  have hm2 : (bid1, d2) ∈ legDims ⟨relTensors (rep bid2 bid1) net.tensors, dmodify (dpop net.bonds bid2) bid1 (fun b => catBond b B2)⟩ := by
    rw [show relTensors (rep bid2 bid1) net.tensors = net.tensors.map (fun e => (e.1, { e.2 with bids := e.2.bids.map (rep bid2 bid1) })) from rfl, hl]
    exact List.mem_map.mpr ⟨(bid2, d2), hd2, by simp only [rep_self]⟩
  exact h'.dims _ hm1 _ hm2 rfl

theorem length_mergeBonds {net net' : Net} {bid1 bid2 : Int} (h : WF0 net) (hne : bid1 ≠ bid2)
    (hok : mergeBonds net bid1 bid2 = .ok net') :
    net'.tensors.length = net.tensors.length ∧ net'.bonds.length + 1 = net.bonds.length := by
  obtain ⟨B1, B2, h1, h2, rfl⟩ := mergeBonds_spec h hne hok
  have := length_dpop_of_nodup net.bonds h.bnodup (mem_dkeys_of_mem (mem_of_dget_eq_some _ h2))
  simp only at this
  have hpos : 1 ≤ net.bonds.length := List.length_pos_of_mem (mem_of_dget_eq_some _ h2)
  refine ⟨by simp [relTensors], ?_⟩
  simp only [dmodify, List.length_map]
  omega

theorem virt_mergeBonds {net net' : Net} {bid1 bid2 : Int} {v : STensor} (h : WF0 net) (hne : bid1 ≠ bid2)
    (hv : dget net.tensors (-1) = some v) (hok : mergeBonds net bid1 bid2 = .ok net') :
    dget net'.tensors (-1) = some { v with bids := v.bids.map (rep bid2 bid1) } := by
  obtain ⟨B1, B2, h1, h2, rfl⟩ := mergeBonds_spec h hne hok
  simp only
  rw [dget_relTensors, hv]; rfl

end Qib.TNet
