import QibGen.GatesReal
import QibProofs.Ref.GatesRef
import Mathlib.Tactic
import Mathlib.Analysis.SpecialFunctions.Trigonometric.Basic
import Mathlib.Analysis.SpecialFunctions.Complex.Circle
/-!
Bridge between the closed forms REGENERATED from the current Python source (`QibSrc.K.mat`, `QibSrc.K.inv`,
file `QibGen/GatesReal.lean`) and the frozen reference forms the property theorems are proved about (`QibRef.K.mat`,
`QibRef.K.inv`, file `QibProofs/Ref/GatesRef.lean`).

Every lemma here is re-proved on every run against the regenerated text, by the tactic `leaf_eq`, which does not depend on how the source
spells a closed form: entrywise comparison, normalisation of both sides as commutative-ring expressions (also inside the arguments of
`cos`, `sin`, `exp`, `sqrt`), with fall-backs for `1/√2` versus `√2/2` and for `exp (i t)` versus `cos t + i sin t`.
A rewrite of `as_matrix` that keeps the values therefore keeps all theorems; a rewrite that changes a value breaks the bridge lemma of
exactly that class, and the check then searches for an input on which the implementation violates the property.

`QibBridge.SrcAgrees` is the conjunction of all bridge equalities; each of the property files re-exports it, so that every theorem stated
about `QibRef.K.mat` is, by rewriting along these equalities, a theorem about `QibSrc.K.mat`, i.e. about what the code says now.
-/
set_option linter.unreachableTactic false
set_option linter.unusedTactic false
open Matrix Complex

namespace QibBridge

theorem sqrt2_sq : ((Real.sqrt 2 : ℝ) : ℂ) ^ 2 = 2 := by
  have h2 : (Real.sqrt 2) ^ 2 = 2 := Real.sq_sqrt (by norm_num)
  exact_mod_cast h2

theorem sqrt2_ne : ((Real.sqrt 2 : ℝ) : ℂ) ≠ 0 := by
  have hpos : Real.sqrt 2 ≠ 0 := by positivity
  exact_mod_cast hpos

theorem sqrt2_sq_real : (Real.sqrt 2) ^ 2 = 2 := Real.sq_sqrt (by norm_num)
theorem sqrt2_ne_real : Real.sqrt 2 ≠ 0 := by positivity

/-- close one scalar goal `lhs = rhs` between two spellings of the same closed form -/
macro "scalar_eq" : tactic => `(tactic| first
  | rfl
  | (ring_nf; done)
  | (simp; done)
  | (simp; ring_nf; done)
  | (push_cast; ring_nf; done)
  | (simp only [Complex.exp_mul_I, Complex.ofReal_cos, Complex.ofReal_sin, Complex.exp_neg]; push_cast; ring_nf; done)
  | (have h2 := QibBridge.sqrt2_sq; have hn := QibBridge.sqrt2_ne; simp; field_simp; ring_nf; done)
  | (have h2 := QibBridge.sqrt2_sq; have hn := QibBridge.sqrt2_ne; have hI : Complex.I ^ 2 = -1 := Complex.I_sq
     simp; field_simp; grind)
  | (have h2 := QibBridge.sqrt2_sq; have hn := QibBridge.sqrt2_ne; have hI : Complex.I ^ 2 = -1 := Complex.I_sq
     generalize Real.sqrt 2 = r at *; simp; field_simp; grind)
  | (have hI : Complex.I ^ 2 = -1 := Complex.I_sq; simp; grind))

/-- equality of two closed-form matrices of a fixed small size, entry by entry -/
macro "leaf_eq" : tactic => `(tactic| first
  | rfl
  | (ext i j; fin_cases i <;> fin_cases j <;> scalar_eq)
  | (ext i j; fin_cases i <;> fin_cases j <;> simp [Matrix.mul_apply, Fin.sum_univ_two, Fin.sum_univ_four] <;> scalar_eq))

/-- the same for matrices whose size is a parameter (`PhaseFactorGate`) -/
macro "leaf_eq_n" : tactic => `(tactic| first
  | rfl
  | (ext i j; simp [Matrix.one_apply, Matrix.smul_apply]; done)
  | (ext i j; simp [Matrix.one_apply, Matrix.smul_apply]; ring_nf; done)
  | (ext i j; by_cases h : i = j <;> simp [Matrix.one_apply, Matrix.smul_apply, h] <;> scalar_eq))

end QibBridge

namespace QibBridge
open QibBridge

/-! ### `as_matrix` -/
theorem IdentityGate_mat : QibSrc.IdentityGate.mat = QibRef.IdentityGate.mat := by
  first | rfl | (simp only [QibSrc.IdentityGate.mat, QibRef.IdentityGate.mat]; leaf_eq)
theorem PauliXGate_mat : QibSrc.PauliXGate.mat = QibRef.PauliXGate.mat := by
  first | rfl | (simp only [QibSrc.PauliXGate.mat, QibRef.PauliXGate.mat]; leaf_eq)
theorem PauliYGate_mat : QibSrc.PauliYGate.mat = QibRef.PauliYGate.mat := by
  first | rfl | (simp only [QibSrc.PauliYGate.mat, QibRef.PauliYGate.mat]; leaf_eq)
theorem PauliZGate_mat : QibSrc.PauliZGate.mat = QibRef.PauliZGate.mat := by
  first | rfl | (simp only [QibSrc.PauliZGate.mat, QibRef.PauliZGate.mat]; leaf_eq)
theorem HadamardGate_mat : QibSrc.HadamardGate.mat = QibRef.HadamardGate.mat := by
  first | rfl | (simp only [QibSrc.HadamardGate.mat, QibRef.HadamardGate.mat]; leaf_eq)
theorem SxGate_mat : QibSrc.SxGate.mat = QibRef.SxGate.mat := by
  first | rfl | (simp only [QibSrc.SxGate.mat, QibRef.SxGate.mat]; leaf_eq)
theorem RxGate_mat (θ : ℝ) : QibSrc.RxGate.mat θ = QibRef.RxGate.mat θ := by
  first | rfl | (simp only [QibSrc.RxGate.mat, QibRef.RxGate.mat]; leaf_eq)
theorem RyGate_mat (θ : ℝ) : QibSrc.RyGate.mat θ = QibRef.RyGate.mat θ := by
  first | rfl | (simp only [QibSrc.RyGate.mat, QibRef.RyGate.mat]; leaf_eq)
theorem RzGate_mat (θ : ℝ) : QibSrc.RzGate.mat θ = QibRef.RzGate.mat θ := by
  first | rfl | (simp only [QibSrc.RzGate.mat, QibRef.RzGate.mat]; leaf_eq)
theorem RotationGate_mat (v : Fin 3 → ℝ) : QibSrc.RotationGate.mat v = QibRef.RotationGate.mat v := by
  first
  | rfl
  | (simp only [QibSrc.RotationGate.mat, QibRef.RotationGate.mat]; split_ifs <;> leaf_eq)
theorem SGate_mat : QibSrc.SGate.mat = QibRef.SGate.mat := by
  first | rfl | (simp only [QibSrc.SGate.mat, QibRef.SGate.mat]; leaf_eq)
theorem SAdjGate_mat : QibSrc.SAdjGate.mat = QibRef.SAdjGate.mat := by
  first | rfl | (simp only [QibSrc.SAdjGate.mat, QibRef.SAdjGate.mat]; leaf_eq)
theorem TGate_mat : QibSrc.TGate.mat = QibRef.TGate.mat := by
  first | rfl | (simp only [QibSrc.TGate.mat, QibRef.TGate.mat]; leaf_eq)
theorem TAdjGate_mat : QibSrc.TAdjGate.mat = QibRef.TAdjGate.mat := by
  first | rfl | (simp only [QibSrc.TAdjGate.mat, QibRef.TAdjGate.mat]; leaf_eq)
theorem PhaseFactorGate_mat (φ : ℝ) (n : ℕ) : QibSrc.PhaseFactorGate.mat φ n = QibRef.PhaseFactorGate.mat φ n := by
  first | rfl | (simp only [QibSrc.PhaseFactorGate.mat, QibRef.PhaseFactorGate.mat]; leaf_eq_n)
theorem RxxGate_mat (θ : ℝ) : QibSrc.RxxGate.mat θ = QibRef.RxxGate.mat θ := by
  first | rfl | (simp only [QibSrc.RxxGate.mat, QibRef.RxxGate.mat]; leaf_eq)
theorem RyyGate_mat (θ : ℝ) : QibSrc.RyyGate.mat θ = QibRef.RyyGate.mat θ := by
  first | rfl | (simp only [QibSrc.RyyGate.mat, QibRef.RyyGate.mat]; leaf_eq)
theorem RzzGate_mat (θ : ℝ) : QibSrc.RzzGate.mat θ = QibRef.RzzGate.mat θ := by
  first | rfl | (simp only [QibSrc.RzzGate.mat, QibRef.RzzGate.mat]; leaf_eq)
theorem ISwapGate_mat : QibSrc.ISwapGate.mat = QibRef.ISwapGate.mat := by
  first | rfl | (simp only [QibSrc.ISwapGate.mat, QibRef.ISwapGate.mat]; leaf_eq)


/-! ### `inverse()` -/
/-- all `as_matrix` bridge lemmas, as a rewriting set -/
macro "to_ref" : tactic => `(tactic| simp only [QibBridge.IdentityGate_mat, QibBridge.PauliXGate_mat, QibBridge.PauliYGate_mat, QibBridge.PauliZGate_mat, QibBridge.HadamardGate_mat, QibBridge.SxGate_mat, QibBridge.RxGate_mat, QibBridge.RyGate_mat, QibBridge.RzGate_mat, QibBridge.RotationGate_mat, QibBridge.SGate_mat, QibBridge.SAdjGate_mat, QibBridge.TGate_mat, QibBridge.TAdjGate_mat, QibBridge.PhaseFactorGate_mat, QibBridge.RxxGate_mat, QibBridge.RyyGate_mat, QibBridge.RzzGate_mat, QibBridge.ISwapGate_mat])
/-- unfold every reference closed form -/
macro "unfold_ref" : tactic => `(tactic| simp only [QibRef.IdentityGate.mat, QibRef.PauliXGate.mat, QibRef.PauliYGate.mat, QibRef.PauliZGate.mat, QibRef.HadamardGate.mat, QibRef.SxGate.mat, QibRef.RxGate.mat, QibRef.RyGate.mat, QibRef.RzGate.mat, QibRef.RotationGate.mat, QibRef.SGate.mat, QibRef.SAdjGate.mat, QibRef.TGate.mat, QibRef.TAdjGate.mat, QibRef.PhaseFactorGate.mat, QibRef.RxxGate.mat, QibRef.RyyGate.mat, QibRef.RzzGate.mat, QibRef.ISwapGate.mat])
macro "inv_eq" : tactic => `(tactic| first
  | rfl
  | (congr 1 <;> first | rfl | ring | (funext k; ring) | (funext k; simp) | simp)
  | (unfold_ref; leaf_eq)
  | (unfold_ref; split_ifs <;> leaf_eq)
  | (unfold_ref; leaf_eq_n))

theorem IdentityGate_inv : QibSrc.IdentityGate.inv = QibRef.IdentityGate.inv := by
  first | rfl | (simp only [QibSrc.IdentityGate.inv, QibRef.IdentityGate.inv]; (try to_ref) <;> inv_eq)
theorem PauliXGate_inv : QibSrc.PauliXGate.inv = QibRef.PauliXGate.inv := by
  first | rfl | (simp only [QibSrc.PauliXGate.inv, QibRef.PauliXGate.inv]; (try to_ref) <;> inv_eq)
theorem PauliYGate_inv : QibSrc.PauliYGate.inv = QibRef.PauliYGate.inv := by
  first | rfl | (simp only [QibSrc.PauliYGate.inv, QibRef.PauliYGate.inv]; (try to_ref) <;> inv_eq)
theorem PauliZGate_inv : QibSrc.PauliZGate.inv = QibRef.PauliZGate.inv := by
  first | rfl | (simp only [QibSrc.PauliZGate.inv, QibRef.PauliZGate.inv]; (try to_ref) <;> inv_eq)
theorem HadamardGate_inv : QibSrc.HadamardGate.inv = QibRef.HadamardGate.inv := by
  first | rfl | (simp only [QibSrc.HadamardGate.inv, QibRef.HadamardGate.inv]; (try to_ref) <;> inv_eq)
theorem SxGate_inv : QibSrc.SxGate.inv = QibRef.SxGate.inv := by
  first | rfl | (simp only [QibSrc.SxGate.inv, QibRef.SxGate.inv]; (try to_ref) <;> inv_eq)
theorem RxGate_inv (θ : ℝ): QibSrc.RxGate.inv θ = QibRef.RxGate.inv θ := by
  first | rfl | (simp only [QibSrc.RxGate.inv, QibRef.RxGate.inv]; (try to_ref) <;> inv_eq)
theorem RyGate_inv (θ : ℝ): QibSrc.RyGate.inv θ = QibRef.RyGate.inv θ := by
  first | rfl | (simp only [QibSrc.RyGate.inv, QibRef.RyGate.inv]; (try to_ref) <;> inv_eq)
theorem RzGate_inv (θ : ℝ): QibSrc.RzGate.inv θ = QibRef.RzGate.inv θ := by
  first | rfl | (simp only [QibSrc.RzGate.inv, QibRef.RzGate.inv]; (try to_ref) <;> inv_eq)
theorem RotationGate_inv (v : Fin 3 → ℝ): QibSrc.RotationGate.inv v = QibRef.RotationGate.inv v := by
  first | rfl | (simp only [QibSrc.RotationGate.inv, QibRef.RotationGate.inv]; (try to_ref) <;> inv_eq)
theorem SGate_inv : QibSrc.SGate.inv = QibRef.SGate.inv := by
  first | rfl | (simp only [QibSrc.SGate.inv, QibRef.SGate.inv]; (try to_ref) <;> inv_eq)
theorem SAdjGate_inv : QibSrc.SAdjGate.inv = QibRef.SAdjGate.inv := by
  first | rfl | (simp only [QibSrc.SAdjGate.inv, QibRef.SAdjGate.inv]; (try to_ref) <;> inv_eq)
theorem TGate_inv : QibSrc.TGate.inv = QibRef.TGate.inv := by
  first | rfl | (simp only [QibSrc.TGate.inv, QibRef.TGate.inv]; (try to_ref) <;> inv_eq)
theorem TAdjGate_inv : QibSrc.TAdjGate.inv = QibRef.TAdjGate.inv := by
  first | rfl | (simp only [QibSrc.TAdjGate.inv, QibRef.TAdjGate.inv]; (try to_ref) <;> inv_eq)
theorem PhaseFactorGate_inv (φ : ℝ) (n : ℕ): QibSrc.PhaseFactorGate.inv φ n = QibRef.PhaseFactorGate.inv φ n := by
  first | rfl | (simp only [QibSrc.PhaseFactorGate.inv, QibRef.PhaseFactorGate.inv]; (try to_ref) <;> inv_eq)
theorem RxxGate_inv (θ : ℝ): QibSrc.RxxGate.inv θ = QibRef.RxxGate.inv θ := by
  first | rfl | (simp only [QibSrc.RxxGate.inv, QibRef.RxxGate.inv]; (try to_ref) <;> inv_eq)
theorem RyyGate_inv (θ : ℝ): QibSrc.RyyGate.inv θ = QibRef.RyyGate.inv θ := by
  first | rfl | (simp only [QibSrc.RyyGate.inv, QibRef.RyyGate.inv]; (try to_ref) <;> inv_eq)
theorem RzzGate_inv (θ : ℝ): QibSrc.RzzGate.inv θ = QibRef.RzzGate.inv θ := by
  first | rfl | (simp only [QibSrc.RzzGate.inv, QibRef.RzzGate.inv]; (try to_ref) <;> inv_eq)
theorem ISwapGate_inv : QibSrc.ISwapGate.inv = QibRef.ISwapGate.inv := by
  first | rfl | (simp only [QibSrc.ISwapGate.inv, QibRef.ISwapGate.inv]; (try to_ref) <;> inv_eq)

/-- Everything the current source says about the leaf gates agrees with the reference forms the theorems are proved about. -/
def SrcAgrees : Prop :=
  (QibSrc.IdentityGate.mat = QibRef.IdentityGate.mat) ∧
  (QibSrc.IdentityGate.inv = QibRef.IdentityGate.inv) ∧
  (QibSrc.PauliXGate.mat = QibRef.PauliXGate.mat) ∧
  (QibSrc.PauliXGate.inv = QibRef.PauliXGate.inv) ∧
  (QibSrc.PauliYGate.mat = QibRef.PauliYGate.mat) ∧
  (QibSrc.PauliYGate.inv = QibRef.PauliYGate.inv) ∧
  (QibSrc.PauliZGate.mat = QibRef.PauliZGate.mat) ∧
  (QibSrc.PauliZGate.inv = QibRef.PauliZGate.inv) ∧
  (QibSrc.HadamardGate.mat = QibRef.HadamardGate.mat) ∧
  (QibSrc.HadamardGate.inv = QibRef.HadamardGate.inv) ∧
  (QibSrc.SxGate.mat = QibRef.SxGate.mat) ∧
  (QibSrc.SxGate.inv = QibRef.SxGate.inv) ∧
  (∀ (θ : ℝ), QibSrc.RxGate.mat θ = QibRef.RxGate.mat θ) ∧
  (∀ (θ : ℝ), QibSrc.RxGate.inv θ = QibRef.RxGate.inv θ) ∧
  (∀ (θ : ℝ), QibSrc.RyGate.mat θ = QibRef.RyGate.mat θ) ∧
  (∀ (θ : ℝ), QibSrc.RyGate.inv θ = QibRef.RyGate.inv θ) ∧
  (∀ (θ : ℝ), QibSrc.RzGate.mat θ = QibRef.RzGate.mat θ) ∧
  (∀ (θ : ℝ), QibSrc.RzGate.inv θ = QibRef.RzGate.inv θ) ∧
  (∀ (v : Fin 3 → ℝ), QibSrc.RotationGate.mat v = QibRef.RotationGate.mat v) ∧
  (∀ (v : Fin 3 → ℝ), QibSrc.RotationGate.inv v = QibRef.RotationGate.inv v) ∧
  (QibSrc.SGate.mat = QibRef.SGate.mat) ∧
  (QibSrc.SGate.inv = QibRef.SGate.inv) ∧
  (QibSrc.SAdjGate.mat = QibRef.SAdjGate.mat) ∧
  (QibSrc.SAdjGate.inv = QibRef.SAdjGate.inv) ∧
  (QibSrc.TGate.mat = QibRef.TGate.mat) ∧
  (QibSrc.TGate.inv = QibRef.TGate.inv) ∧
  (QibSrc.TAdjGate.mat = QibRef.TAdjGate.mat) ∧
  (QibSrc.TAdjGate.inv = QibRef.TAdjGate.inv) ∧
  (∀ (φ : ℝ) (n : ℕ), QibSrc.PhaseFactorGate.mat φ n = QibRef.PhaseFactorGate.mat φ n) ∧
  (∀ (φ : ℝ) (n : ℕ), QibSrc.PhaseFactorGate.inv φ n = QibRef.PhaseFactorGate.inv φ n) ∧
  (∀ (θ : ℝ), QibSrc.RxxGate.mat θ = QibRef.RxxGate.mat θ) ∧
  (∀ (θ : ℝ), QibSrc.RxxGate.inv θ = QibRef.RxxGate.inv θ) ∧
  (∀ (θ : ℝ), QibSrc.RyyGate.mat θ = QibRef.RyyGate.mat θ) ∧
  (∀ (θ : ℝ), QibSrc.RyyGate.inv θ = QibRef.RyyGate.inv θ) ∧
  (∀ (θ : ℝ), QibSrc.RzzGate.mat θ = QibRef.RzzGate.mat θ) ∧
  (∀ (θ : ℝ), QibSrc.RzzGate.inv θ = QibRef.RzzGate.inv θ) ∧
  (QibSrc.ISwapGate.mat = QibRef.ISwapGate.mat) ∧
  (QibSrc.ISwapGate.inv = QibRef.ISwapGate.inv)

theorem srcAgrees : SrcAgrees :=
  ⟨IdentityGate_mat, IdentityGate_inv, PauliXGate_mat, PauliXGate_inv, PauliYGate_mat, PauliYGate_inv, PauliZGate_mat, PauliZGate_inv, HadamardGate_mat, HadamardGate_inv, SxGate_mat, SxGate_inv, RxGate_mat, RxGate_inv, RyGate_mat, RyGate_inv, RzGate_mat, RzGate_inv, RotationGate_mat, RotationGate_inv, SGate_mat, SGate_inv, SAdjGate_mat, SAdjGate_inv, TGate_mat, TGate_inv, TAdjGate_mat, TAdjGate_inv, PhaseFactorGate_mat, PhaseFactorGate_inv, RxxGate_mat, RxxGate_inv, RyyGate_mat, RyyGate_inv, RzzGate_mat, RzzGate_inv, ISwapGate_mat, ISwapGate_inv⟩

end QibBridge
