import QibProofs.Lemmas.TNetSurgeryCheck
/-!
Helper lemmas for C08, part 3: closed forms of the surgery operations and preservation of `WF0`/`WF` by
`renameTensor`, `renameBond`, `transpose`, `mergeTensors`, `mergeBonds` (no property statements).
-/
namespace Qib.TNet

/-! ### dictionaries up to permutation -/
section Dict
variable {β : Type}

@[simp] theorem dkeys_nil : dkeys ([] : List (Int × β)) = [] := rfl
@[simp] theorem dkeys_cons (e : Int × β) (d : List (Int × β)) : dkeys (e :: d) = e.1 :: dkeys d := rfl
@[simp] theorem dkeys_append (d d' : List (Int × β)) : dkeys (d ++ d') = dkeys d ++ dkeys d' := by simp [dkeys]

theorem dpop_eq_self_of_notMem (d : List (Int × β)) {k : Int} (h : k ∉ dkeys d) : dpop d k = d := by
  simp only [dpop]
  apply List.filter_eq_self.mpr
  intro a ha
  have : a.1 ≠ k := fun e => h (e ▸ mem_dkeys_of_mem ha)
  simpa using this

theorem notMem_dkeys_dpop (d : List (Int × β)) (k : Int) : k ∉ dkeys (dpop d k) := by
  rw [dkeys_dpop]; simp

theorem nodup_dkeys_dpop {d : List (Int × β)} (h : (dkeys d).Nodup) (k : Int) : (dkeys (dpop d k)).Nodup := by
  rw [dkeys_dpop]; exact h.filter _

theorem perm_cons_dpop (d : List (Int × β)) (hn : (dkeys d).Nodup) {k : Int} {v : β} (h : dget d k = some v) :
    d.Perm ((k, v) :: dpop d k) := by
  induction d with
  | nil => simp [dget] at h
  | cons e es ih =>
    obtain ⟨e1, e2⟩ := e
    simp only [dkeys_cons, List.nodup_cons] at hn
    by_cases hk : k = e1
    · subst hk
      simp only [dget, List.lookup, beq_self_eq_true, Option.some.injEq] at h
      subst h
      have : dpop ((k, e2) :: es) k = es := by
        have h1 : dpop ((k, e2) :: es) k = dpop es k := by simp [dpop]
        rw [h1, dpop_eq_self_of_notMem es hn.1]
      rw [this]
    · have hb : (k == e1) = false := by simpa using hk
      simp only [dget, List.lookup, hb] at h
      have h1 : dpop ((e1, e2) :: es) k = (e1, e2) :: dpop es k := by
        have : (e1 != k) = true := by simpa using (fun h' => hk h'.symm)
        simp [dpop, this]
      rw [h1]
      exact ((ih hn.2 h).cons (e1, e2)).trans (List.Perm.swap _ _ _)

theorem dmodify_eq_self_of_notMem (d : List (Int × β)) {k : Int} (f : β → β) (h : k ∉ dkeys d) : dmodify d k f = d := by
  simp only [dmodify]
  conv_rhs => rw [← List.map_id d]
  apply List.map_congr_left
  intro a ha
  have : a.1 ≠ k := fun e => h (e ▸ mem_dkeys_of_mem ha)
  have hb : (a.1 == k) = false := by simpa using this
  simp [hb]

theorem perm_dmodify (d : List (Int × β)) (hn : (dkeys d).Nodup) {k : Int} {v : β} (f : β → β) (h : dget d k = some v) :
    (dmodify d k f).Perm ((k, f v) :: dpop d k) := by
  induction d with
  | nil => simp [dget] at h
  | cons e es ih =>
    obtain ⟨e1, e2⟩ := e
    simp only [dkeys_cons, List.nodup_cons] at hn
    by_cases hk : k = e1
    · subst hk
      simp only [dget, List.lookup, beq_self_eq_true, Option.some.injEq] at h
      subst h
      have h1 : dpop ((k, e2) :: es) k = es := by
        have h1 : dpop ((k, e2) :: es) k = dpop es k := by simp [dpop]
        rw [h1, dpop_eq_self_of_notMem es hn.1]
      have h2 : dmodify ((k, e2) :: es) k f = (k, f e2) :: es := by
        have : dmodify ((k, e2) :: es) k f = (k, f e2) :: dmodify es k f := by simp [dmodify]
        rw [this, dmodify_eq_self_of_notMem es f hn.1]
      rw [h1, h2]
    · have hb : (k == e1) = false := by simpa using hk
      simp only [dget, List.lookup, hb] at h
      have hb' : (e1 == k) = false := by simpa using (fun h' => hk h'.symm)
      have h1 : dpop ((e1, e2) :: es) k = (e1, e2) :: dpop es k := by
        have : (e1 != k) = true := by simpa using (fun h' => hk h'.symm)
        simp [dpop, this]
      have h2 : dmodify ((e1, e2) :: es) k f = (e1, e2) :: dmodify es k f := by
        simp only [dmodify, List.map_cons, hb', Bool.false_eq_true, if_false]
      rw [h1, h2]
      exact ((ih hn.2 h).cons (e1, e2)).trans (List.Perm.swap _ _ _)

theorem dget_dpop_ne (d : List (Int × β)) {k k' : Int} (h : k' ≠ k) : dget (dpop d k) k' = dget d k' := by
  induction d with
  | nil => rfl
  | cons e es ih =>
    obtain ⟨e1, e2⟩ := e
    by_cases he : e1 = k
    · subst he
      have h1 : dpop ((e1, e2) :: es) e1 = dpop es e1 := by simp [dpop]
      have hb : (k' == e1) = false := by simpa using h
      rw [h1, ih]; simp [dget, List.lookup, hb]
    · have h1 : dpop ((e1, e2) :: es) k = (e1, e2) :: dpop es k := by
        have : (e1 != k) = true := by simpa using he
        simp [dpop, this]
      rw [h1]
      simp only [dget, List.lookup]
      cases (k' == e1)
      · exact ih
      · rfl

theorem perm_dkeys {d d' : List (Int × β)} (h : d.Perm d') : (dkeys d).Perm (dkeys d') := h.map _

theorem dget_perm {d d' : List (Int × β)} (h : d.Perm d') (hn : (dkeys d).Nodup) (k : Int) : dget d k = dget d' k := by
  have hn' : (dkeys d').Nodup := (perm_dkeys h).nodup_iff.mp hn
  cases hd : dget d k with
  | some v => exact (dget_eq_some_of_mem d' hn' (h.mem_iff.mp (mem_of_dget_eq_some d hd))).symm
  | none =>
    cases hd' : dget d' k with
    | none => rfl
    | some v =>
      have := dget_eq_some_of_mem d hn (h.mem_iff.mpr (mem_of_dget_eq_some d' hd'))
      rw [hd] at this; cases this

end Dict

/-! ### `WF0` is a property of the dictionaries up to order -/

theorem tLegs_perm {ts ts' : List (Int × STensor)} {bs bs' : List (Int × SBond)} (h : ts.Perm ts') :
    (tLegs ⟨ts, bs⟩).Perm (tLegs ⟨ts', bs'⟩) := h.flatMap_right _

theorem bLegs_perm {ts ts' : List (Int × STensor)} {bs bs' : List (Int × SBond)} (h : bs.Perm bs') :
    (bLegs ⟨ts, bs⟩).Perm (bLegs ⟨ts', bs'⟩) := h.flatMap_right _

theorem legDims_perm {ts ts' : List (Int × STensor)} {bs bs' : List (Int × SBond)} (h : ts.Perm ts') :
    (legDims ⟨ts, bs⟩).Perm (legDims ⟨ts', bs'⟩) := h.flatMap_right _

theorem WF0.perm {ts ts' : List (Int × STensor)} {bs bs' : List (Int × SBond)} (ht : ts.Perm ts') (hb : bs.Perm bs')
    (h : WF0 ⟨ts, bs⟩) : WF0 ⟨ts', bs'⟩ where
  tnodup := (perm_dkeys ht).nodup_iff.mp h.tnodup
  bnodup := (perm_dkeys hb).nodup_iff.mp h.bnodup
  tkey := fun e he => h.tkey e (ht.mem_iff.mpr he)
  bkey := fun e he => h.bkey e (hb.mem_iff.mpr he)
  tshape := fun e he => h.tshape e (ht.mem_iff.mpr he)
  bsorted := fun e he => h.bsorted e (hb.mem_iff.mpr he)
  blen := fun e he => h.blen e (hb.mem_iff.mpr he)
  legs := ((tLegs_perm (bs := bs) (bs' := bs') ht).symm.trans h.legs).trans (bLegs_perm (ts := ts) (ts' := ts') hb)
  dims := fun p hp q hq hpq =>
    h.dims p ((legDims_perm (bs := bs) (bs' := bs') ht).mem_iff.mpr hp) q
      ((legDims_perm (bs := bs) (bs' := bs') ht).mem_iff.mpr hq) hpq

/-! ### relabelling legs -/

/-- `replaceAll x y = map (rep x y)` -/
def rep (x y : Int) : Int → Int := fun t => if t == x then y else t

theorem replaceAll_eq_map (x y : Int) (l : List Int) : replaceAll x y l = l.map (rep x y) := rfl

theorem rep_of_ne {x y t : Int} (h : t ≠ x) : rep x y t = t := by simp [rep, h]
theorem rep_self (x y : Int) : rep x y x = y := by simp [rep]

def relT (ρ : Int → Int) (p : Int × Int) : Int × Int := (ρ p.1, p.2)
def relB (ρ : Int → Int) (p : Int × Int) : Int × Int := (p.1, ρ p.2)

theorem tLegs_cons (k : Int) (T : STensor) (ts : List (Int × STensor)) (bs : List (Int × SBond)) :
    tLegs ⟨(k, T) :: ts, bs⟩ = T.bids.map (fun b => (k, b)) ++ tLegs ⟨ts, bs⟩ := by
  simp [tLegs]

theorem bLegs_cons (k : Int) (B : SBond) (ts : List (Int × STensor)) (bs : List (Int × SBond)) :
    bLegs ⟨ts, (k, B) :: bs⟩ = B.tids.map (fun t => (t, k)) ++ bLegs ⟨ts, bs⟩ := by
  simp [bLegs]

theorem legDims_cons (k : Int) (T : STensor) (ts : List (Int × STensor)) (bs : List (Int × SBond)) :
    legDims ⟨(k, T) :: ts, bs⟩ = T.bids.zip T.shape ++ legDims ⟨ts, bs⟩ := by
  simp [legDims]

/-- relabelling tensor ids on the bond side (`isort` does not matter up to order) -/
theorem bLegs_relT (ρ : Int → Int) (ts ts' : List (Int × STensor)) (bs : List (Int × SBond)) :
    (bLegs ⟨ts', bs.map (fun e => (e.1, { e.2 with tids := isort (e.2.tids.map ρ) }))⟩).Perm
      ((bLegs ⟨ts, bs⟩).map (relT ρ)) := by
  simp only [bLegs, List.flatMap_map, List.map_flatMap]
  apply List.Perm.flatMap_left
  intro e _
  simp only [List.map_map]
  refine ((isort_perm _).map _).trans ?_
  rw [List.map_map]
  exact List.Perm.refl _

/-- relabelling bond ids on the tensor side -/
theorem tLegs_relB (ρ : Int → Int) (ts : List (Int × STensor)) (bs bs' : List (Int × SBond)) :
    tLegs ⟨ts.map (fun e => (e.1, { e.2 with bids := e.2.bids.map ρ })), bs'⟩ = (tLegs ⟨ts, bs⟩).map (relB ρ) := by
  simp only [tLegs, List.flatMap_map, List.map_flatMap, List.map_map]
  rfl

theorem legDims_relB (ρ : Int → Int) (ts : List (Int × STensor)) (bs bs' : List (Int × SBond)) :
    legDims ⟨ts.map (fun e => (e.1, { e.2 with bids := e.2.bids.map ρ })), bs'⟩ =
      (legDims ⟨ts, bs⟩).map (fun p => (ρ p.1, p.2)) := by
  simp only [legDims, List.flatMap_map, List.map_flatMap]
  congr 1
  funext e
  rw [List.zip_map_left]
  apply List.map_congr_left
  intro p _
  rfl

theorem tLegs_map_relT_of_notMem (x y : Int) (ts : List (Int × STensor)) (bs : List (Int × SBond))
    (h : x ∉ dkeys ts) : (tLegs ⟨ts, bs⟩).map (relT (rep x y)) = tLegs ⟨ts, bs⟩ := by
  conv_rhs => rw [← List.map_id (tLegs ⟨ts, bs⟩)]
  apply List.map_congr_left
  intro p hp
  simp only [tLegs, List.mem_flatMap, List.mem_map] at hp
  obtain ⟨e, he, b, _, rfl⟩ := hp
  have : e.1 ≠ x := fun h' => h (h' ▸ mem_dkeys_of_mem he)
  simp [relT, rep_of_ne this]

theorem bLegs_map_relB_of_notMem (x y : Int) (ts : List (Int × STensor)) (bs : List (Int × SBond))
    (h : x ∉ dkeys bs) : (bLegs ⟨ts, bs⟩).map (relB (rep x y)) = bLegs ⟨ts, bs⟩ := by
  conv_rhs => rw [← List.map_id (bLegs ⟨ts, bs⟩)]
  apply List.map_congr_left
  intro p hp
  simp only [bLegs, List.mem_flatMap, List.mem_map] at hp
  obtain ⟨e, he, b, _, rfl⟩ := hp
  have : e.1 ≠ x := fun h' => h (h' ▸ mem_dkeys_of_mem he)
  simp [relB, rep_of_ne this]

/-! ### counting references under `WF0` -/

theorem WF0.notMem_tids_of_notMem_bids {net : Net} (h : WF0 net) {t : Int} {T : STensor}
    (hT : dget net.tensors t = some T) {e : Int × SBond} (he : e ∈ net.bonds) (hb : e.1 ∉ T.bids) : t ∉ e.2.tids := by
  have := h.mult hT (dget_of_mem h.bnodup he)
  rw [List.count_eq_zero.mpr hb] at this
  exact List.count_eq_zero.mp this

theorem WF0.notMem_bids_of_notMem_tids {net : Net} (h : WF0 net) {b : Int} {B : SBond}
    (hB : dget net.bonds b = some B) {e : Int × STensor} (he : e ∈ net.tensors) (ht : e.1 ∉ B.tids) : b ∉ e.2.bids := by
  have := h.mult (dget_of_mem h.tnodup he) hB
  rw [List.count_eq_zero.mpr ht] at this
  exact List.count_eq_zero.mp this.symm

theorem WF0.mem_bond_keys {net : Net} (h : WF0 net) {e : Int × STensor} (he : e ∈ net.tensors) {b : Int}
    (hb : b ∈ e.2.bids) : b ∈ dkeys net.bonds := by
  obtain ⟨B, hB⟩ := h.bond_of_leg (dget_of_mem h.tnodup he) hb
  exact mem_dkeys_of_mem (mem_of_dget_eq_some _ hB)

theorem WF0.mem_tensor_keys {net : Net} (h : WF0 net) {e : Int × SBond} (he : e ∈ net.bonds) {t : Int}
    (ht : t ∈ e.2.tids) : t ∈ dkeys net.tensors := by
  obtain ⟨T, hT⟩ := h.tensor_of_ref (dget_of_mem h.bnodup he) ht
  exact mem_dkeys_of_mem (mem_of_dget_eq_some _ hT)

/-! ### the two generic relabelling steps -/

/-- tensor ids relabelled inside every bond (and the bond re-sorted) -/
def relBonds (ρ : Int → Int) (bs : List (Int × SBond)) : List (Int × SBond) :=
  bs.map (fun e => (e.1, { e.2 with tids := isort (e.2.tids.map ρ) }))

/-- bond ids relabelled inside every tensor -/
def relTensors (ρ : Int → Int) (ts : List (Int × STensor)) : List (Int × STensor) :=
  ts.map (fun e => (e.1, { e.2 with bids := e.2.bids.map ρ }))

theorem dkeys_relBonds (ρ : Int → Int) (bs : List (Int × SBond)) : dkeys (relBonds ρ bs) = dkeys bs := by
  simp [relBonds, dkeys, Function.comp_def]

theorem dkeys_relTensors (ρ : Int → Int) (ts : List (Int × STensor)) : dkeys (relTensors ρ ts) = dkeys ts := by
  simp [relTensors, dkeys, Function.comp_def]

theorem wf0_of_relT {ts ts' : List (Int × STensor)} {bs : List (Int × SBond)} (ρ : Int → Int) (h : WF0 ⟨ts, bs⟩)
    (hnodup : (dkeys ts').Nodup) (hkey : ∀ e ∈ ts', e.2.tid = e.1)
    (hshape : ∀ e ∈ ts', e.2.shape.length = e.2.bids.length)
    (hlegs : (tLegs ⟨ts', bs⟩).Perm ((tLegs ⟨ts, bs⟩).map (relT ρ)))
    (hdims : (legDims ⟨ts', bs⟩).Perm (legDims ⟨ts, bs⟩)) : WF0 ⟨ts', relBonds ρ bs⟩ where
  tnodup := hnodup
  bnodup := by rw [dkeys_relBonds]; exact h.bnodup
  tkey := hkey
  bkey := by
    intro e he
    obtain ⟨e0, he0, rfl⟩ := List.mem_map.mp he
    exact h.bkey e0 he0
  tshape := hshape
  bsorted := by
    intro e he
    obtain ⟨e0, he0, rfl⟩ := List.mem_map.mp he
    exact isort_sorted _
  blen := by
    intro e he
    obtain ⟨e0, he0, rfl⟩ := List.mem_map.mp he
    simp only [length_isort, List.length_map]
    exact h.blen e0 he0
  legs := (hlegs.trans (h.legs.map _)).trans (bLegs_relT ρ ts ts' bs).symm
  dims := fun p hp q hq hpq => h.dims p (hdims.mem_iff.mp hp) q (hdims.mem_iff.mp hq) hpq

theorem wf0_of_relB {ts : List (Int × STensor)} {bs bs' : List (Int × SBond)} (ρ : Int → Int) (h : WF0 ⟨ts, bs⟩)
    (hnodup : (dkeys bs').Nodup) (hkey : ∀ e ∈ bs', e.2.bid = e.1)
    (hsorted : ∀ e ∈ bs', e.2.tids.Pairwise (· ≤ ·)) (hlen : ∀ e ∈ bs', 2 ≤ e.2.tids.length)
    (hlegs : (bLegs ⟨ts, bs'⟩).Perm ((bLegs ⟨ts, bs⟩).map (relB ρ)))
    (hdims : ∀ p ∈ legDims ⟨ts, bs⟩, ∀ q ∈ legDims ⟨ts, bs⟩, ρ p.1 = ρ q.1 → p.2 = q.2) :
    WF0 ⟨relTensors ρ ts, bs'⟩ where
  tnodup := by rw [dkeys_relTensors]; exact h.tnodup
  bnodup := hnodup
  tkey := by
    intro e he
    obtain ⟨e0, he0, rfl⟩ := List.mem_map.mp he
    exact h.tkey e0 he0
  bkey := hkey
  tshape := by
    intro e he
    obtain ⟨e0, he0, rfl⟩ := List.mem_map.mp he
    simp only [List.length_map]
    exact h.tshape e0 he0
  bsorted := hsorted
  blen := hlen
  legs := by
    have h1 : tLegs ⟨relTensors ρ ts, bs'⟩ = (tLegs ⟨ts, bs⟩).map (relB ρ) := tLegs_relB ρ ts bs bs'
    rw [h1]
    exact (h.legs.map _).trans hlegs.symm
  dims := by
    have h1 : legDims ⟨relTensors ρ ts, bs'⟩ = (legDims ⟨ts, bs⟩).map (fun p => (ρ p.1, p.2)) :=
      legDims_relB ρ ts bs bs'
    intro p hp q hq hpq
    rw [h1] at hp hq
    obtain ⟨p0, hp0, rfl⟩ := List.mem_map.mp hp
    obtain ⟨q0, hq0, rfl⟩ := List.mem_map.mp hq
    exact hdims p0 hp0 q0 hq0 hpq

/-! ### `renameTensor` -/

def renTBonds (T : STensor) (cur new : Int) (bonds : List (Int × SBond)) : List (Int × SBond) :=
  bonds.map (fun e => if T.bids.contains e.1 then (e.1, { e.2 with tids := isort (replaceAll cur new e.2.tids) }) else e)

theorem renameTensor_eq (net : Net) (cur new : Int) : renameTensor net cur new =
    if !dhas net.tensors cur then .error .valueError else
    if dhas net.tensors new then .error .valueError else
    match dget net.tensors cur with
    | some T =>
      if T.tid != cur then .error .assertion else
      if !(T.bids.all (dhas net.bonds)) then .error .keyError else
      .ok ⟨dpop net.tensors cur ++ [(new, { T with tid := new })], renTBonds T cur new net.bonds⟩
    | none => .error .keyError := by
  unfold renameTensor renTBonds
  cases dhas net.tensors cur <;> cases dhas net.tensors new <;> try rfl
  cases dget net.tensors cur with
  | none => rfl
  | some T =>
    cases (T.tid != cur) <;> cases T.bids.all (dhas net.bonds) <;> rfl

theorem renTBonds_eq_relBonds {net : Net} (h : WF0 net) {cur new : Int} {T : STensor}
    (hT : dget net.tensors cur = some T) : renTBonds T cur new net.bonds = relBonds (rep cur new) net.bonds := by
  unfold renTBonds relBonds
  apply List.map_congr_left
  intro e he
  by_cases hc : T.bids.contains e.1 = true
  · simp only [hc, if_true]; rfl
  · simp only [hc, Bool.false_eq_true, if_false]
    have hb : e.1 ∉ T.bids := by simpa using hc
    have hnot := h.notMem_tids_of_notMem_bids hT he hb
    have h1 : e.2.tids.map (rep cur new) = e.2.tids := by
      rw [← replaceAll_eq_map]; exact replaceAll_of_notMem _ _ _ hnot
    rw [h1, isort_eq_self (h.bsorted e he)]

/-- what a successful `rename_tensor` returns on a well-formed network -/
theorem renameTensor_spec {net net' : Net} {cur new : Int} (h : WF0 net) (hok : renameTensor net cur new = .ok net') :
    ∃ T, dget net.tensors cur = some T ∧ new ∉ dkeys net.tensors ∧
      net' = ⟨dpop net.tensors cur ++ [(new, { T with tid := new })], relBonds (rep cur new) net.bonds⟩ := by
  rw [renameTensor_eq] at hok
  cases h1 : dhas net.tensors cur
  · rw [h1] at hok; cases hok
  · cases h2 : dhas net.tensors new
    · rw [h1, h2] at hok
      simp only [Bool.not_true, Bool.false_eq_true, if_false] at hok
      cases hT : dget net.tensors cur with
      | none => rw [hT] at hok; cases hok
      | some T =>
        rw [hT] at hok
        simp only at hok
        split at hok
        · cases hok
        · split at hok
          · cases hok
          · refine ⟨T, rfl, (dhas_false_iff _ _).mp h2, ?_⟩
            rw [← renTBonds_eq_relBonds h hT]
            exact (Except.ok.inj hok).symm
    · rw [h1, h2] at hok; cases hok

/-- the guards of `rename_tensor`: exactly "current id exists, new id does not" -/
theorem renameTensor_ok_of {net : Net} {cur new : Int} (h : WF0 net) (hc : cur ∈ dkeys net.tensors)
    (hn : new ∉ dkeys net.tensors) : ∃ net', renameTensor net cur new = .ok net' := by
  rw [renameTensor_eq]
  have h1 : dhas net.tensors cur = true := (dhas_iff _ _).mpr hc
  have h2 : dhas net.tensors new = false := (dhas_false_iff _ _).mpr hn
  obtain ⟨T, hT⟩ := Option.isSome_iff_exists.mp ((dget_isSome_iff _ _).mpr hc)
  have hm := mem_of_dget_eq_some _ hT
  have h3 : (T.tid != cur) = false := by simpa using h.tkey _ hm
  have h4 : T.bids.all (dhas net.bonds) = true := by
    rw [List.all_eq_true]; intro b hb
    exact (dhas_iff _ _).mpr (h.mem_bond_keys hm hb)
  simp only [h1, h2, hT, h3, h4, Bool.not_true, Bool.false_eq_true, if_false]
  exact ⟨_, rfl⟩

theorem renameTensor_err_of {net : Net} {cur new : Int} (hc : ¬ (cur ∈ dkeys net.tensors ∧ new ∉ dkeys net.tensors)) :
    renameTensor net cur new = .error .valueError := by
  rw [renameTensor_eq]
  cases h1 : dhas net.tensors cur
  · rfl
  · cases h2 : dhas net.tensors new
    · exact absurd ⟨(dhas_iff _ _).mp h1, (dhas_false_iff _ _).mp h2⟩ hc
    · rfl

theorem renameTensor_wf0 {net net' : Net} {cur new : Int} (h : WF0 net) (hok : renameTensor net cur new = .ok net') :
    WF0 net' := by
  obtain ⟨T, hT, hnew, rfl⟩ := renameTensor_spec h hok
  have hm := mem_of_dget_eq_some _ hT
  have hperm := perm_cons_dpop net.tensors h.tnodup hT
  have hrest : cur ∉ dkeys (dpop net.tensors cur) := notMem_dkeys_dpop _ _
  refine WF0.perm (ts := (new, { T with tid := new }) :: dpop net.tensors cur) (List.perm_append_comm (l₁ := [_])) (List.Perm.refl _) ?_
  apply wf0_of_relT (ts := net.tensors) (rep cur new) h
  · simp only [dkeys_cons, List.nodup_cons]
    refine ⟨?_, nodup_dkeys_dpop h.tnodup cur⟩
    intro hmem
    rw [dkeys_dpop] at hmem
    exact hnew (List.mem_filter.mp hmem).1
  · intro e he
    rcases List.mem_cons.mp he with rfl | he
    · rfl
    · exact h.tkey e (mem_dpop.mp he).1
  · intro e he
    rcases List.mem_cons.mp he with rfl | he
    · exact h.tshape (cur, T) hm
    · exact h.tshape e (mem_dpop.mp he).1
  · rw [tLegs_cons]
    have h1 : (tLegs ⟨net.tensors, net.bonds⟩).Perm (tLegs ⟨(cur, T) :: dpop net.tensors cur, net.bonds⟩) :=
      tLegs_perm hperm
    refine List.Perm.trans ?_ (h1.map _).symm
    rw [tLegs_cons, List.map_append, tLegs_map_relT_of_notMem cur new _ _ hrest, List.map_map]
    have : (relT (rep cur new) ∘ fun b => (cur, b)) = fun b => (new, b) := by
      funext b; simp [relT, rep_self]
    rw [this]
  · have h1 : (legDims ⟨net.tensors, net.bonds⟩).Perm (legDims ⟨(cur, T) :: dpop net.tensors cur, net.bonds⟩) :=
      legDims_perm hperm
    refine List.Perm.trans ?_ h1.symm
    rw [legDims_cons, legDims_cons]

theorem renameTensor_virt {net net' : Net} {cur new : Int} (h : WF0 net) (hok : renameTensor net cur new = .ok net')
    (hv : (-1 : Int) ∈ dkeys net.tensors) (hc : cur ≠ -1) : (-1 : Int) ∈ dkeys net'.tensors := by
  obtain ⟨T, hT, hnew, rfl⟩ := renameTensor_spec h hok
  simp only [dkeys_append, List.mem_append, dkeys_dpop]
  left
  exact List.mem_filter.mpr ⟨hv, by simpa using (fun h' => hc h'.symm)⟩

/-! ### `renameBond` -/

theorem WF0.legDims_key {net : Net} (h : WF0 net) {p : Int × Nat} (hp : p ∈ legDims net) : p.1 ∈ dkeys net.bonds := by
  obtain ⟨e, he, ax, hb, _⟩ := mem_legDims_iff.mp hp
  exact h.mem_bond_keys he (List.mem_of_getElem? hb)

theorem rep_inj_on {x y a b : Int} (ha : a ≠ y) (hb : b ≠ y) (h : rep x y a = rep x y b) : a = b := by
  unfold rep at h
  by_cases h1 : a = x <;> by_cases h2 : b = x <;> simp_all

def renBTensors (B : SBond) (cur new : Int) (ts : List (Int × STensor)) : List (Int × STensor) :=
  ts.map (fun e => if B.tids.contains e.1 then (e.1, { e.2 with bids := replaceAll cur new e.2.bids }) else e)

theorem renameBond_eq (net : Net) (cur new : Int) : renameBond net cur new =
    if !dhas net.bonds cur then .error .valueError else
    if dhas net.bonds new then .error .valueError else
    match dget net.bonds cur with
    | some B =>
      if B.bid != cur then .error .assertion else
      if !(B.tids.all (dhas net.tensors)) then .error .keyError else
      .ok ⟨renBTensors B cur new net.tensors, dpop net.bonds cur ++ [(new, { B with bid := new })]⟩
    | none => .error .keyError := by
  unfold renameBond renBTensors
  cases dhas net.bonds cur <;> cases dhas net.bonds new <;> try rfl
  cases dget net.bonds cur with
  | none => rfl
  | some B =>
    cases (B.bid != cur) <;> cases B.tids.all (dhas net.tensors) <;> rfl

theorem renBTensors_eq_relTensors {net : Net} (h : WF0 net) {cur new : Int} {B : SBond}
    (hB : dget net.bonds cur = some B) : renBTensors B cur new net.tensors = relTensors (rep cur new) net.tensors := by
  unfold renBTensors relTensors
  apply List.map_congr_left
  intro e he
  by_cases hc : B.tids.contains e.1 = true
  · simp only [hc, if_true]; rfl
  · simp only [hc, Bool.false_eq_true, if_false]
    have hb : e.1 ∉ B.tids := by simpa using hc
    have hnot := h.notMem_bids_of_notMem_tids hB he hb
    have h1 : e.2.bids.map (rep cur new) = e.2.bids := by
      rw [← replaceAll_eq_map]; exact replaceAll_of_notMem _ _ _ hnot
    rw [h1]

theorem renameBond_spec {net net' : Net} {cur new : Int} (h : WF0 net) (hok : renameBond net cur new = .ok net') :
    ∃ B, dget net.bonds cur = some B ∧ new ∉ dkeys net.bonds ∧
      net' = ⟨relTensors (rep cur new) net.tensors, dpop net.bonds cur ++ [(new, { B with bid := new })]⟩ := by
  rw [renameBond_eq] at hok
  cases h1 : dhas net.bonds cur
  · rw [h1] at hok; cases hok
  · cases h2 : dhas net.bonds new
    · rw [h1, h2] at hok
      simp only [Bool.not_true, Bool.false_eq_true, if_false] at hok
      cases hB : dget net.bonds cur with
      | none => rw [hB] at hok; cases hok
      | some B =>
        rw [hB] at hok
        simp only at hok
        split at hok
        · cases hok
        · split at hok
          · cases hok
          · refine ⟨B, rfl, (dhas_false_iff _ _).mp h2, ?_⟩
            rw [← renBTensors_eq_relTensors h hB]
            exact (Except.ok.inj hok).symm
    · rw [h1, h2] at hok; cases hok

theorem renameBond_ok_of {net : Net} {cur new : Int} (h : WF0 net) (hc : cur ∈ dkeys net.bonds)
    (hn : new ∉ dkeys net.bonds) : ∃ net', renameBond net cur new = .ok net' := by
  rw [renameBond_eq]
  have h1 : dhas net.bonds cur = true := (dhas_iff _ _).mpr hc
  have h2 : dhas net.bonds new = false := (dhas_false_iff _ _).mpr hn
  obtain ⟨B, hB⟩ := Option.isSome_iff_exists.mp ((dget_isSome_iff _ _).mpr hc)
  have hm := mem_of_dget_eq_some _ hB
  have h3 : (B.bid != cur) = false := by simpa using h.bkey _ hm
  have h4 : B.tids.all (dhas net.tensors) = true := by
    rw [List.all_eq_true]; intro t ht
    exact (dhas_iff _ _).mpr (h.mem_tensor_keys hm ht)
  simp only [h1, h2, hB, h3, h4, Bool.not_true, Bool.false_eq_true, if_false]
  exact ⟨_, rfl⟩

theorem renameBond_err_of {net : Net} {cur new : Int} (hc : ¬ (cur ∈ dkeys net.bonds ∧ new ∉ dkeys net.bonds)) :
    renameBond net cur new = .error .valueError := by
  rw [renameBond_eq]
  cases h1 : dhas net.bonds cur
  · rfl
  · cases h2 : dhas net.bonds new
    · exact absurd ⟨(dhas_iff _ _).mp h1, (dhas_false_iff _ _).mp h2⟩ hc
    · rfl

theorem renameBond_wf0 {net net' : Net} {cur new : Int} (h : WF0 net) (hok : renameBond net cur new = .ok net') :
    WF0 net' := by
  obtain ⟨B, hB, hnew, rfl⟩ := renameBond_spec h hok
  have hm := mem_of_dget_eq_some _ hB
  have hperm := perm_cons_dpop net.bonds h.bnodup hB
  have hrest : cur ∉ dkeys (dpop net.bonds cur) := notMem_dkeys_dpop _ _
  refine WF0.perm (bs := (new, { B with bid := new }) :: dpop net.bonds cur) (List.Perm.refl _)
    (List.perm_append_comm (l₁ := [_])) ?_
  apply wf0_of_relB (bs := net.bonds) (rep cur new) h
  · simp only [dkeys_cons, List.nodup_cons]
    refine ⟨?_, nodup_dkeys_dpop h.bnodup cur⟩
    intro hmem
    rw [dkeys_dpop] at hmem
    exact hnew (List.mem_filter.mp hmem).1
  · intro e he
    rcases List.mem_cons.mp he with rfl | he
    · rfl
    · exact h.bkey e (mem_dpop.mp he).1
  · intro e he
    rcases List.mem_cons.mp he with rfl | he
    · exact h.bsorted (cur, B) hm
    · exact h.bsorted e (mem_dpop.mp he).1
  · intro e he
    rcases List.mem_cons.mp he with rfl | he
    · exact h.blen (cur, B) hm
    · exact h.blen e (mem_dpop.mp he).1
  · rw [bLegs_cons]
    have h1 : (bLegs ⟨net.tensors, net.bonds⟩).Perm (bLegs ⟨net.tensors, (cur, B) :: dpop net.bonds cur⟩) :=
      bLegs_perm hperm
    refine List.Perm.trans ?_ (h1.map _).symm
    rw [bLegs_cons, List.map_append, bLegs_map_relB_of_notMem cur new _ _ hrest, List.map_map]
    have : (relB (rep cur new) ∘ fun t => (t, cur)) = fun t => (t, new) := by
      funext b; simp [relB, rep_self]
    rw [this]
  · intro p hp q hq hpq
    have hp' := h.legDims_key hp
    have hq' := h.legDims_key hq
    exact h.dims p hp q hq (rep_inj_on (fun e => hnew (by rw [← e]; exact hp')) (fun e => hnew (by rw [← e]; exact hq')) hpq)

/-! ### `transpose` -/

def resolveAxes (n : Nat) : Option (List Int) → List Int
  | some a => a
  | none => (List.range n).reverse.map Int.ofNat

def pickD {γ : Type} (l : List γ) (d : γ) (ax : List Nat) : List γ := ax.map (fun a => l[a]?.getD d)

/-- the transposed virtual tensor -/
def transposedVirt (v : STensor) (axes : Option (List Int)) : STensor :=
  let ax := (resolveAxes v.shape.length axes).map Int.toNat
  { v with shape := pickD v.shape 0 ax, bids := pickD v.bids 0 ax }

theorem transpose_of_valid {net : Net} {v : STensor} (axes : Option (List Int)) (hv : dget net.tensors (-1) = some v)
    (hsh : v.shape.length = v.bids.length)
    (hp : isort (resolveAxes v.shape.length axes) = (List.range v.shape.length).map Int.ofNat) :
    transpose net axes = .ok ⟨dmodify net.tensors (-1) (fun _ => transposedVirt v axes), net.bonds⟩ := by
  have hmem : ∀ a ∈ (resolveAxes v.shape.length axes).map Int.toNat, a < v.shape.length := by
    intro a ha
    obtain ⟨z, hz, rfl⟩ := List.mem_map.mp ha
    have : z ∈ (List.range v.shape.length).map Int.ofNat := by rw [← hp]; exact mem_isort.mpr hz
    obtain ⟨n, hn, rfl⟩ := List.mem_map.mp this
    simpa using hn
  have hcond : (isort (resolveAxes v.shape.length axes) != (List.range v.shape.length).map Int.ofNat) = false := by
    simp [hp]
  unfold transpose virt STensor.transpose transposedVirt
  rw [hv]
  cases axes <;>
  · simp only [resolveAxes] at hcond hmem ⊢
    simp only [bind, Except.bind, hcond, Bool.false_eq_true, if_false]
    rw [mapM_ok_of_forall (g := fun a => v.shape[a]?.getD 0)]
    · simp only
      rw [mapM_ok_of_forall (g := fun a => v.bids[a]?.getD 0)]
      · rfl
      · intro a ha
        rw [List.getElem?_eq_getElem (by rw [← hsh]; exact hmem a ha)]; rfl
    · intro a ha
      rw [List.getElem?_eq_getElem (hmem a ha)]; rfl

theorem transpose_of_invalid {net : Net} {v : STensor} (axes : Option (List Int)) (hv : dget net.tensors (-1) = some v)
    (hp : isort (resolveAxes v.shape.length axes) ≠ (List.range v.shape.length).map Int.ofNat) :
    transpose net axes = .error .valueError := by
  have hcond : (isort (resolveAxes v.shape.length axes) != (List.range v.shape.length).map Int.ofNat) = true := by
    simp [hp]
  unfold transpose virt STensor.transpose
  rw [hv]
  cases axes <;>
  · simp only [resolveAxes] at hcond
    simp only [bind, Except.bind, hcond, if_true]
    rfl

theorem transpose_no_virt {net : Net} (axes : Option (List Int)) (hv : dget net.tensors (-1) = none) :
    transpose net axes = .error .runtimeError := by
  unfold transpose virt
  rw [hv]; rfl


theorem pickD_range {γ : Type} (l : List γ) (d : γ) : pickD l d (List.range l.length) = l := by
  apply List.ext_getElem
  · simp [pickD]
  · intro i h1 h2
    simp [pickD, h2]

theorem pickD_perm {γ : Type} (l : List γ) (d : γ) {ax : List Nat} (h : ax.Perm (List.range l.length)) :
    (pickD l d ax).Perm l := by
  have := h.map (fun a => l[a]?.getD d)
  rw [show (List.range l.length).map (fun a => l[a]?.getD d) = l from pickD_range l d] at this
  exact this

theorem zip_pickD {γ δ : Type} (l : List γ) (m : List δ) (d : γ) (d' : δ) (ax : List Nat) :
    (pickD l d ax).zip (pickD m d' ax) = ax.map (fun a => (l[a]?.getD d, m[a]?.getD d')) := by
  simp [pickD, List.zip_map']

theorem zip_pickD_perm {γ δ : Type} (l : List γ) (m : List δ) (d : γ) (d' : δ) (hl : l.length = m.length)
    {ax : List Nat} (h : ax.Perm (List.range l.length)) : ((pickD l d ax).zip (pickD m d' ax)).Perm (l.zip m) := by
  rw [zip_pickD]
  have := h.map (fun a => (l[a]?.getD d, m[a]?.getD d'))
  refine this.trans ?_
  apply List.Perm.of_eq
  apply List.ext_getElem
  · simp [hl]
  · intro i h1 h2
    have h3 : i < l.length := by simpa using h1
    have h4 : i < m.length := by omega
    simp [h3, h4]

theorem toNat_perm_of_isort {n : Nat} {a : List Int} (h : isort a = (List.range n).map Int.ofNat) :
    (a.map Int.toNat).Perm (List.range n) := by
  have h1 : a.Perm ((List.range n).map Int.ofNat) := by rw [← h]; exact (isort_perm a).symm
  have h2 := h1.map Int.toNat
  rw [List.map_map] at h2
  have : (Int.toNat ∘ Int.ofNat) = id := by funext k; simp
  rw [this, List.map_id] at h2
  exact h2

/-- the tensors are re-grouped (same legs, same leg dimensions), the bonds untouched -/
theorem wf0_of_tensors {ts ts' : List (Int × STensor)} {bs : List (Int × SBond)} (h : WF0 ⟨ts, bs⟩)
    (hnodup : (dkeys ts').Nodup) (hkey : ∀ e ∈ ts', e.2.tid = e.1)
    (hshape : ∀ e ∈ ts', e.2.shape.length = e.2.bids.length)
    (hlegs : (tLegs ⟨ts', bs⟩).Perm (tLegs ⟨ts, bs⟩))
    (hdims : (legDims ⟨ts', bs⟩).Perm (legDims ⟨ts, bs⟩)) : WF0 ⟨ts', bs⟩ where
  tnodup := hnodup
  bnodup := h.bnodup
  tkey := hkey
  bkey := h.bkey
  tshape := hshape
  bsorted := h.bsorted
  blen := h.blen
  legs := hlegs.trans h.legs
  dims := fun p hp q hq hpq => h.dims p (hdims.mem_iff.mp hp) q (hdims.mem_iff.mp hq) hpq

theorem WF.virt_get {net : Net} (h : WF net) : ∃ v, dget net.tensors (-1) = some v :=
  Option.isSome_iff_exists.mp ((dget_isSome_iff _ _).mpr h.virt)

/-- `transpose` succeeds exactly for a full permutation of the open axes -/
theorem transpose_spec {net net' : Net} {axes : Option (List Int)} (h : WF net) (hok : transpose net axes = .ok net') :
    ∃ v, dget net.tensors (-1) = some v ∧
      isort (resolveAxes v.shape.length axes) = (List.range v.shape.length).map Int.ofNat ∧
      net' = ⟨dmodify net.tensors (-1) (fun _ => transposedVirt v axes), net.bonds⟩ := by
  obtain ⟨v, hv⟩ := h.virt_get
  have hsh := h.tshape _ (mem_of_dget_eq_some _ hv)
  by_cases hp : isort (resolveAxes v.shape.length axes) = (List.range v.shape.length).map Int.ofNat
  · rw [transpose_of_valid axes hv hsh hp] at hok
    exact ⟨v, hv, hp, (Except.ok.inj hok).symm⟩
  · rw [transpose_of_invalid axes hv hp] at hok; cases hok

theorem transpose_wf {net net' : Net} {axes : Option (List Int)} (h : WF net) (hok : transpose net axes = .ok net') :
    WF net' := by
  obtain ⟨v, hv, hp, rfl⟩ := transpose_spec h hok
  have hm := mem_of_dget_eq_some _ hv
  have hsh := h.tshape _ hm
  have hax := toNat_perm_of_isort hp
  have hperm := perm_cons_dpop net.tensors h.tnodup hv
  have hperm' := perm_dmodify net.tensors h.tnodup (fun _ => transposedVirt v axes) hv
  have hk : (dkeys (dmodify net.tensors (-1) (fun _ => transposedVirt v axes))) = dkeys net.tensors :=
    dkeys_dmodify _ _ _
  refine ⟨?_, by rw [hk]; exact h.virt⟩
  refine WF0.perm hperm'.symm (List.Perm.refl _) ?_
  apply wf0_of_tensors (h.toWF0.perm hperm (List.Perm.refl _))
  · exact (perm_dkeys hperm).nodup_iff.mp h.tnodup
  · intro e he
    rcases List.mem_cons.mp he with rfl | he
    · exact h.tkey (-1, v) hm
    · exact h.tkey e (mem_dpop.mp he).1
  · intro e he
    rcases List.mem_cons.mp he with rfl | he
    · simp [transposedVirt, pickD]
    · exact h.tshape e (mem_dpop.mp he).1
  · rw [tLegs_cons, tLegs_cons]
    apply List.Perm.append_right
    apply List.Perm.map
    exact pickD_perm v.bids 0 (by rw [← hsh]; exact hax)
  · rw [legDims_cons, legDims_cons]
    apply List.Perm.append_right
    exact zip_pickD_perm v.bids v.shape 0 0 hsh.symm (by rw [← hsh]; exact hax)

end Qib.TNet
