import QibProofs.Lemmas.TNetTreeLeaf
import QibProofs.Lemmas.TNetEinsumTotal
/-!
Helper lemmas for C07 totality, part 1: generic "a monadic fold returns" lemmas, the legs of a bond are pairwise
distinct, and the first loop of `_build_contraction_tree` (the bond scan) never refuses on a consistent network when the
two children have certified tracking (`scan_total`) (no property statements).
-/
namespace Qib.TNet

/-! ### generic lemmas -/

/-- a monadic fold returns as soon as every step returns on every state that is reached from the initial state by a
prefix of the list (so that "if it returns then …" invariants can be used to show that it returns) -/
theorem foldlM_total_of_prefix {σ β ε : Type} (f : σ → β → Except ε σ) (s0 : σ) :
    ∀ (rest pre : List β) (s : σ), pre.foldlM f s0 = .ok s →
      (∀ pre' x post s', pre ++ rest = pre' ++ x :: post → pre'.foldlM f s0 = .ok s' → ∃ s'', f s' x = .ok s'') →
      ∃ res, (pre ++ rest).foldlM f s0 = .ok res := by
  intro rest
  induction rest with
  | nil => intro pre s hs _; exact ⟨s, by simpa using hs⟩
  | cons x xs ih =>
    intro pre s hs hstep
    obtain ⟨s'', hs''⟩ := hstep pre x xs s rfl hs
    have hpre : (pre ++ [x]).foldlM f s0 = .ok s'' := by
      rw [List.foldlM_append, hs]
      simp only [bind, Except.bind, List.foldlM_cons, List.foldlM_nil, hs'']
      rfl
    obtain ⟨res, hres⟩ := ih (pre ++ [x]) s'' hpre (fun pre' y post s' hd => hstep pre' y post s' (by simpa using hd))
    exact ⟨res, by simpa using hres⟩

theorem foldlM_total_of_prefix' {σ β ε : Type} (f : σ → β → Except ε σ) (s0 : σ) (l : List β)
    (hstep : ∀ pre x post s, l = pre ++ x :: post → pre.foldlM f s0 = .ok s → ∃ s', f s x = .ok s') :
    ∃ res, l.foldlM f s0 = .ok res := by
  have := foldlM_total_of_prefix f s0 l [] s0 rfl (fun pre' x post s' hd hp => hstep pre' x post s' (by simpa using hd) hp)
  simpa using this

/-- `mapM` returns when every element does -/
theorem mapM_total {ε γ δ : Type} {f : γ → Except ε δ} (l : List γ) (h : ∀ x ∈ l, ∃ y, f x = .ok y) :
    ∃ r, l.mapM f = .ok r := by
  induction l with
  | nil => exact ⟨[], rfl⟩
  | cons a as ih =>
    obtain ⟨b, hb⟩ := h a List.mem_cons_self
    obtain ⟨bs, hbs⟩ := ih (fun x hx => h x (List.mem_cons_of_mem _ hx))
    exact ⟨b :: bs, by rw [List.mapM_cons, hb, hbs]; rfl⟩

/-- `mapM` fails with `e` when every element returns or fails with `e` and one element fails -/
theorem mapM_error_of {ε γ δ : Type} {f : γ → Except ε δ} {e : ε} (l : List γ)
    (h : ∀ x ∈ l, (∃ y, f x = .ok y) ∨ f x = .error e) (hx : ∃ x ∈ l, f x = .error e) :
    l.mapM f = .error e := by
  induction l with
  | nil => obtain ⟨x, hx, _⟩ := hx; cases hx
  | cons a as ih =>
    rw [List.mapM_cons]
    rcases h a List.mem_cons_self with ⟨b, hb⟩ | hb
    · rw [hb]
      obtain ⟨x, hxm, hxe⟩ := hx
      have hx' : ∃ x ∈ as, f x = .error e := by
        rcases List.mem_cons.mp hxm with rfl | hxm
        · rw [hb] at hxe; cases hxe
        · exact ⟨x, hxm, hxe⟩
      rw [ih (fun x hx => h x (List.mem_cons_of_mem _ hx)) hx']
      rfl
    · rw [hb]; rfl

/-! ### the legs of a bond are pairwise distinct -/

theorem bondLegs_nodup {net : Net} (hwf : WF net) (b : Int) : (bondLegs net b).Nodup := by
  by_cases hk : b ∈ dkeys net.bonds
  · obtain ⟨B, hB⟩ := exists_mem_of_mem_dkeys hk
    have hc := (isConsistent_ok_true_iff net).mp (consistent_of_wf hwf)
    obtain ⟨_, _, axes, hax, hnd, _⟩ := (checkBond_ok_true_iff net b B).mp (hc.2.2 _ hB)
    have hbk : B.bid = b := hwf.bkey _ hB
    rw [hbk] at hax
    have hd : dget net.bonds b = some B := dget_of_mem hwf.bnodup hB
    simp only [bondLegs, hd, hax]
    exact hnd
  · rw [bondLegs_of_notMem hk]; exact List.nodup_nil

/-- the bond on an open axis of a node with certified tracking exists -/
theorem InfoCert.legBond_open {net : Net} {c : NodeInfo} (h : InfoCert net c) {ta : Int × Nat} (ho : ta ∈ c.openaxes) :
    ∃ b, legBond net ta = some b := by
  obtain ⟨k, _, _, hb⟩ := h.track ho
  exact ⟨_, hb⟩

/-- what `get_bond_axes` returns on a consistent network -/
theorem getBondAxes_of_wf {net : Net} (hwf : WF net) {b : Int} {B : SBond} (hB : dget net.bonds b = some B) :
    ∃ axes, getBondAxes net b = .ok axes ∧ bondLegs net b = B.tids.zip axes := by
  have hBm := mem_of_dget_eq_some _ hB
  obtain ⟨axes, hs, he⟩ := bondLegs_spec hwf hBm
  exact ⟨axes, (getBondAxes_ok_iff net b axes).mpr ⟨B, hB, hwf.bkey _ hBm, hs⟩, he⟩

/-! ### the bond scan -/

/-- the removal loop for a fully contracted bond returns when the legs are distinct and all still open -/
theorem eraseLoop_total : ∀ (legs oa : List (Int × Nat)), legs.Nodup → (∀ x ∈ legs, x ∈ oa) →
    ∃ oa', legs.foldlM (fun (oa : List (Int × Nat)) ta =>
      if oa.contains ta then pure (oa.erase ta) else throw Err.valueError) oa = (Except.ok oa' : Except Err _) := by
  intro legs
  induction legs with
  | nil => intro oa _ _; exact ⟨oa, rfl⟩
  | cons ta rest ih =>
    intro oa hn hall
    rw [List.nodup_cons] at hn
    have hc : oa.contains ta = true := List.contains_iff_mem.mpr (hall ta List.mem_cons_self)
    obtain ⟨oa', hoa'⟩ := ih (oa.erase ta) hn.2 (fun x hx => by
      have hne : x ≠ ta := by rintro rfl; exact hn.1 hx
      exact (List.mem_erase_of_ne hne).mpr (hall x (List.mem_cons_of_mem _ hx)))
    refine ⟨oa', ?_⟩
    rw [List.foldlM_cons]
    simp only [hc, if_true, pure, Except.pure, bind, Except.bind]
    exact hoa'

/-- the state of the bond scan: the remaining open axes are distinct, and an open axis of a child whose bond has not
been met yet is still among them -/
def ScanOK (net : Net) (allOpen : List (Int × Nat)) (st : List Int × List BMap × List (Int × Nat)) : Prop :=
  st.2.2.Nodup ∧ ∀ ta ∈ allOpen, (∀ b ∈ st.1, legBond net ta ≠ some b) → ta ∈ st.2.2

/-- **one step of the bond scan returns** -/
theorem bondScanStep_total {net : Net} (hwf : WF net) {nL nR : NodeInfo} (hL : InfoCert net nL) (hR : InfoCert net nR)
    {st : List Int × List BMap × List (Int × Nat)} (hst : ScanOK net (nL.openaxes ++ nR.openaxes) st)
    {od : Int × Nat} (hod : od ∈ nL.openaxes ++ nR.openaxes) :
    ∃ st', bondScanStep net nL nR st od = .ok st' ∧ ScanOK net (nL.openaxes ++ nR.openaxes) st' := by
  obtain ⟨bl, bm, oa⟩ := st
  obtain ⟨hnd, hmem⟩ := hst
  simp only at hnd hmem
  -- the bond on the open axis
  obtain ⟨bid, hbid⟩ : ∃ b, legBond net od = some b := by
    rcases List.mem_append.mp hod with h | h
    · exact hL.legBond_open h
    · exact hR.legBond_open h
  obtain ⟨tensor, hT, hTb⟩ := legBond_eq_some_iff.mp (show legBond net (od.1, od.2) = some bid from hbid)
  obtain ⟨bond, hbond⟩ := hwf.toWF0.bond_of_leg hT (List.mem_of_getElem? hTb)
  obtain ⟨axes, haxes, hlegs⟩ := getBondAxes_of_wf hwf hbond
  -- the result exists
  have key : ∃ st', bondScanStep net nL nR (bl, bm, oa) od = .ok st' := by
    by_cases hc : bl.contains bid = true
    · refine ⟨(bl, bm, oa), ?_⟩
      unfold bondScanStep
      simp only [hT, hTb, hc, bind, Except.bind, pure, Except.pure, if_true]
    · have hnot : bid ∉ bl := fun hm => hc (List.contains_iff_mem.mpr hm)
      unfold bondScanStep
      simp only [hT, hTb, hc, hbond, haxes, bind, Except.bind, pure, Except.pure, Bool.false_eq_true, if_false]
      generalize hm : List.mapM (m := Except Err) (β := Option (Side × Nat)) _ (bond.tids.zip axes) = res
      have hres : res = .ok (bmapOf net nL nR bid) := by
        rw [← hm]
        unfold bmapOf
        rw [hlegs]
        apply mapM_ok_of_forall
        intro ta _
        rw [trackOf_spec hL, trackOf_spec hR]
        unfold ent
        by_cases h1 : ta ∈ nL.openaxes
        · simp [h1]
        · by_cases h2 : ta ∈ nR.openaxes
          · simp [h1, h2]
          · simp [h1, h2]
      rw [hres]
      simp only
      by_cases hf : (bmapOf net nL nR bid).all Option.isSome = true
      · have hall : ∀ x ∈ bond.tids.zip axes, x ∈ oa := by
          intro x hx
          rw [← hlegs] at hx
          have hxo := (bmapOf_all_isSome bid).mp hf x hx
          have hxb : legBond net x = some bid := (mem_bondLegs_iff_legBond hwf).mp hx
          refine hmem x (List.mem_append.mpr hxo) (fun b hb he => ?_)
          rw [hxb] at he
          cases he
          exact hnot hb
        obtain ⟨oa', hoa'⟩ := eraseLoop_total (bond.tids.zip axes) oa (by rw [← hlegs]; exact bondLegs_nodup hwf bid) hall
        simp only [pure, Except.pure] at hoa'
        simp only [hf, if_true]
        rw [hoa']
        exact ⟨_, rfl⟩
      · simp only [hf, Bool.false_eq_true, if_false]
        exact ⟨_, rfl⟩
  obtain ⟨⟨bl', bm', oa'⟩, hstep⟩ := key
  refine ⟨_, hstep, ?_⟩
  obtain ⟨bid', hbid', hcase⟩ := bondScanStep_spec hwf hL hR hnd hstep
  rw [hbid] at hbid'
  cases hbid'
  rcases hcase with ⟨_, rfl, rfl, rfl⟩ | ⟨hnot, rfl, rfl, _, hful, hnful⟩
  · exact ⟨hnd, hmem⟩
  · by_cases hf : (bmapOf net nL nR bid).all Option.isSome = true
    · obtain ⟨hsub, hm⟩ := hful hf
      refine ⟨hnd.sublist hsub, ?_⟩
      intro ta hta hb
      simp only at hb ⊢
      rw [hm ta]
      refine ⟨hmem ta hta (fun b hbm => hb b (List.mem_append_left _ hbm)), ?_⟩
      intro hleg
      exact hb bid (by simp) ((mem_bondLegs_iff_legBond hwf).mp hleg)
    · have hf' : (bmapOf net nL nR bid).all Option.isSome = false := by
        cases hh : (bmapOf net nL nR bid).all Option.isSome
        · rfl
        · exact absurd hh hf
      have := hnful hf'
      subst this
      exact ⟨hnd, fun ta hta hb => hmem ta hta (fun b hbm => hb b (List.mem_append_left _ hbm))⟩

/-- **the bond scan of `_build_contraction_tree` returns** for two children with certified tracking and disjoint open
axes on a consistent network -/
theorem scan_total {net : Net} (hwf : WF net) {nL nR : NodeInfo} (hL : InfoCert net nL) (hR : InfoCert net nR)
    (hno : (nL.openaxes ++ nR.openaxes).Nodup) :
    ∃ scan, (nL.openaxes ++ nR.openaxes).foldlM (bondScanStep net nL nR) ([], [], nL.openaxes ++ nR.openaxes) = .ok scan := by
  obtain ⟨res, hres, _⟩ := foldlM_ok_of_inv (bondScanStep net nL nR) (ScanOK net (nL.openaxes ++ nR.openaxes))
    (nL.openaxes ++ nR.openaxes) ([], [], nL.openaxes ++ nR.openaxes) ⟨hno, fun ta hta _ => hta⟩
    (fun s x hx hs => bondScanStep_total hwf hL hR hs hx)
  exact ⟨res, hres⟩

end Qib.TNet
