import QibProofs.Lemmas.MatBridge
import Mathlib.Data.List.GetD
/-!
Structural induction over the executable gate trees of `QibModel/Gate.lean` (`Tree.mat`, `Tree.wires`, `Tree.inverse`,
`Tree.herm` – the very functions `drv_gate` runs). Helper lemmas only; the property statements are in
`Properties/C01Tree.lean`, `C02Tree.lean`, `C03Tree.lean`, `C16Tree.lean`.

* `Tree.WF`: what the constructors / the harness guarantee about the *numerical payload* of a tree (leaf matrices
  unitary with `invMat` their inverse and of size `2 ^ wires`, a `True` leaf flag means Hermitian; `general`: unitary;
  `timeEvo`: mutually inverse unitaries; `prepare`: real orthogonal `q`; `block`: `h`, `s` Hermitian, `s s = 1 - h h`,
  `s h = h s`; `multiplexed`: `2 ^ nc` children of equal width). Nothing is assumed about the assembly.
* by induction over `Tree` (through the nested list, `Tree.induction'`): `Tree.mat_unitary` (shape `2 ^ wires`,
  well-formed array, unitary), `Tree.inverse_wf`, `Tree.inverse_wires`, `Tree.inverse_mul`, `Tree.herm_sound`, their
  readings on the driver's own arrays (`…_exec`, `Tree.inverse_mat_eq_adjoint`, `Tree.inverse_inverse_mat`) and the
  control semantics `Tree.controlled_entry`, `Tree.multiplexed_entry`.
-/
open Matrix Qib Qib.Mat Qib.GateAlgebra Qib.GateFlat

namespace Qib
namespace Mat
/-- well-formed square matrix of size `d` -/
structure IsSq (A : Mat) (d : ℕ) : Prop where
  n_eq : A.n = d
  m_eq : A.m = d
  wf : A.WF

theorem IsUnitaryN.isSq {A : Mat} {d : ℕ} (h : A.IsUnitaryN d) : A.IsSq d := ⟨h.n_eq, h.m_eq, h.wf⟩
end Mat

namespace Gate

/-! ### structural induction over gate trees -/

theorem matList_eq_map (ts : List Tree) : matList ts = ts.map Tree.mat := by
  induction ts with
  | nil => rfl
  | cons t ts ih => simp only [matList, ih, List.map_cons]

theorem inverseList_eq_map (ts : List Tree) : inverseList ts = ts.map Tree.inverse := by
  induction ts with
  | nil => rfl
  | cons t ts ih => simp only [inverseList, ih, List.map_cons]

theorem hermList_eq_map (ts : List Tree) : hermList ts = ts.map Tree.herm := by
  induction ts with
  | nil => rfl
  | cons t ts ih => simp only [hermList, ih, List.map_cons]

mutual
theorem Tree.induction' {P : Tree → Prop}
    (leaf : ∀ c w m mi f, P (.leaf c w m mi f)) (general : ∀ w m, P (.general w m))
    (timeEvo : ∀ w m mi, P (.timeEvo w m mi)) (prepare : ∀ w q x tr, P (.prepare w q x tr))
    (block : ∀ w m h s, P (.block w m h s)) (controlled : ∀ cs t, P t → P (.controlled cs t))
    (multiplexed : ∀ nc ts, (∀ t ∈ ts, P t) → P (.multiplexed nc ts)) : ∀ t, P t
  | .leaf c w m mi f => leaf c w m mi f
  | .general w m => general w m
  | .timeEvo w m mi => timeEvo w m mi
  | .prepare w q x tr => prepare w q x tr
  | .block w m h s => block w m h s
  | .controlled cs t => controlled cs t (Tree.induction' leaf general timeEvo prepare block controlled multiplexed t)
  | .multiplexed nc ts => multiplexed nc ts (Tree.inductionList' leaf general timeEvo prepare block controlled multiplexed ts)
theorem Tree.inductionList' {P : Tree → Prop}
    (leaf : ∀ c w m mi f, P (.leaf c w m mi f)) (general : ∀ w m, P (.general w m))
    (timeEvo : ∀ w m mi, P (.timeEvo w m mi)) (prepare : ∀ w q x tr, P (.prepare w q x tr))
    (block : ∀ w m h s, P (.block w m h s)) (controlled : ∀ cs t, P t → P (.controlled cs t))
    (multiplexed : ∀ nc ts, (∀ t ∈ ts, P t) → P (.multiplexed nc ts)) : ∀ ts : List Tree, ∀ t ∈ ts, P t
  | [] => fun _ h => absurd h (List.not_mem_nil)
  | t :: ts => fun u hu => by
    rcases List.mem_cons.mp hu with h | hu
    · exact h ▸ Tree.induction' leaf general timeEvo prepare block controlled multiplexed t
    · exact Tree.inductionList' leaf general timeEvo prepare block controlled multiplexed ts u hu
end

end Gate

/-! ### abstract block algebra (additions to `GateAlgebra`) -/
namespace GateAlgebra
section
variable {κ ι : Type*} [Fintype κ] [DecidableEq κ] [Fintype ι] [DecidableEq ι]

theorem blockOn_mul (c : κ) (V U : Matrix ι ι ℂ) : blockOn c V * blockOn c U = blockOn c (V * U) := by
  rw [blockOn_eq_blocks, blockOn_eq_blocks, blocks_mul, blockOn_eq_blocks]
  congr 1; funext k; split_ifs <;> simp

theorem blockOn_one (c : κ) : blockOn c (1 : Matrix ι ι ℂ) = 1 := by
  rw [blockOn_eq_blocks]
  have : (fun k => if k = c then (1 : Matrix ι ι ℂ) else 1) = fun _ : κ => (1 : Matrix ι ι ℂ) := by
    funext k; split_ifs <;> rfl
  rw [this, blocks_one]

theorem blockOn_conjTranspose (c : κ) (U : Matrix ι ι ℂ) : (blockOn c U)ᴴ = blockOn c Uᴴ := by
  rw [blockOn_eq_blocks, blockOn_eq_blocks, blocks_conjTranspose]
  congr 1; funext k; split_ifs <;> simp

end
end GateAlgebra

namespace Mat
open Qib.Gate

/-- `A B = 1` as `d × d` complex matrices -/
def MulEqOne (A B : Mat) (d : ℕ) : Prop := A.toM d d * B.toM d d = 1
/-- `A` is Hermitian as a `d × d` complex matrix -/
def IsHermN (A : Mat) (d : ℕ) : Prop := (A.toM d d)ᴴ = A.toM d d

theorem adjoint_adjoint (A : Mat) (hwf : A.WF) : A.adjoint.adjoint = A := by
  refine ext_get (adjoint_wf _) hwf rfl rfl ?_
  intro i j hi hj
  rw [get_adjoint _ hi hj, get_adjoint A hj hi]
  ext <;> simp

/-! ### controlled gates -/

theorem controlledMat_isSq (cs : List Bool) {U : Mat} {d N : ℕ} (h : U.IsSq d) (hN : N = 2 ^ cs.length * d) :
    (controlledMat cs U).IsSq N :=
  ⟨by rw [controlledMat_n, h.n_eq, hN], by rw [controlledMat_m, h.n_eq, hN], controlledMat_wf _ _⟩

theorem controlledMat_mul (cs : List Bool) {V U : Mat} {d N : ℕ} (hV : V.IsSq d) (hU : U.IsSq d) (hN : N = 2 ^ cs.length * d)
    (h : MulEqOne V U d) : MulEqOne (controlledMat cs V) (controlledMat cs U) N := by
  subst hN
  unfold MulEqOne at h ⊢
  rw [toM_controlledMat cs V hV.n_eq hV.m_eq, toM_controlledMat cs U hU.n_eq hU.m_eq, reindex_mul_reindex, blockOn_mul, h,
    blockOn_one, reindex_one]

theorem controlledMat_conjTranspose (cs : List Bool) {U : Mat} {d N : ℕ} (hU : U.IsSq d) (hN : N = 2 ^ cs.length * d) :
    ((controlledMat cs U).toM N N)ᴴ = (controlledMat cs U.adjoint).toM N N := by
  subst hN
  rw [toM_controlledMat cs U hU.n_eq hU.m_eq, toM_controlledMat cs U.adjoint (by simpa using hU.m_eq) (by simpa using hU.n_eq),
    reindex_conjTranspose, blockOn_conjTranspose, toM_adjoint U hU.n_eq hU.m_eq]

theorem controlledMat_unitary (cs : List Bool) {U : Mat} {d N : ℕ} (h : U.IsUnitaryN d) (hN : N = 2 ^ cs.length * d) :
    (controlledMat cs U).IsUnitaryN N := by
  obtain ⟨h1, h2, h3⟩ := controlledMat_isSq cs h.isSq hN
  refine ⟨h1, h2, h3, ?_⟩
  rw [controlledMat_conjTranspose cs h.isSq hN]
  refine controlledMat_mul cs h.isSq ⟨by simpa using h.m_eq, by simpa using h.n_eq, adjoint_wf _⟩ hN ?_
  unfold MulEqOne
  rw [toM_adjoint U h.n_eq h.m_eq]; exact h.mul_adj

theorem controlledMat_herm (cs : List Bool) {U : Mat} {d N : ℕ} (hU : U.IsSq d) (hN : N = 2 ^ cs.length * d)
    (h : U.IsHermN d) : (controlledMat cs U).IsHermN N := by
  subst hN
  unfold IsHermN at h ⊢
  rw [toM_controlledMat cs U hU.n_eq hU.m_eq, reindex_conjTranspose, blockOn_conjTranspose, h]

/-! ### multiplexed gates -/

/-- `toM_blockDiag` for a nonempty list, any default element -/
theorem toM_blockDiag' (Us : List Mat) (X : Mat) {d K : ℕ} (hne : Us ≠ []) (hd : ∀ V ∈ Us, V.n = d) (hK : Us.length = K) :
    (blockDiag Us).toM (K * d) (K * d) =
      Matrix.reindex finProdFinEquiv finProdFinEquiv (blocks fun k : Fin K => (Us.getD k X).toM d d) := by
  obtain ⟨U, Us', rfl⟩ := List.exists_cons_of_ne_nil hne
  rw [toM_blockDiag U Us' (hd U (by simp)) (by simpa using hK)]
  congr 2; funext k
  have hk : k.val < (U :: Us').length := by rw [hK]; exact k.2
  rw [List.getD_eq_getElem _ _ hk, List.getD_eq_getElem _ _ hk]

theorem blockDiag_isSq (Us : List Mat) {d N : ℕ} (hne : Us ≠ []) (hd : ∀ V ∈ Us, V.n = d) (hN : N = Us.length * d) :
    (blockDiag Us).IsSq N := by
  obtain ⟨U, Us', rfl⟩ := List.exists_cons_of_ne_nil hne
  have := hd U (by simp)
  refine ⟨?_, ?_, blockDiag_wf _⟩
  · rw [blockDiag_cons_n, this, hN, List.length_cons]
  · rw [blockDiag_cons_m, this, hN, List.length_cons]

theorem getD_mem_of_lt {α : Type*} (l : List α) (x : α) {k : ℕ} (hk : k < l.length) : l.getD k x ∈ l := by
  rw [List.getD_eq_getElem _ _ hk]; exact List.getElem_mem hk

theorem blockDiag_mul (Vs Us : List Mat) {d N : ℕ} (hne : Us ≠ []) (hlen : Vs.length = Us.length)
    (hV : ∀ V ∈ Vs, V.n = d) (hU : ∀ U ∈ Us, U.n = d) (hN : N = Us.length * d)
    (h : ∀ k, k < Us.length → MulEqOne (Vs.getD k (one d)) (Us.getD k (one d)) d) :
    MulEqOne (blockDiag Vs) (blockDiag Us) N := by
  subst hN
  unfold MulEqOne
  have hne' : Vs ≠ [] := by
    intro h0; subst h0; exact hne (List.eq_nil_of_length_eq_zero hlen.symm)
  rw [toM_blockDiag' Vs (one d) hne' hV hlen, toM_blockDiag' Us (one d) hne hU rfl, reindex_mul_reindex, blocks_mul]
  have : (fun k : Fin Us.length => (Vs.getD k (one d)).toM d d * (Us.getD k (one d)).toM d d) = fun _ => 1 := by
    funext k; exact h k k.2
  rw [this, blocks_one, reindex_one]

theorem blockDiag_conjTranspose (Us : List Mat) {d N : ℕ} (hne : Us ≠ []) (hU : ∀ U ∈ Us, U.IsSq d) (hN : N = Us.length * d) :
    ((blockDiag Us).toM N N)ᴴ = (blockDiag (Us.map adjoint)).toM N N := by
  subst hN
  have hne' : Us.map adjoint ≠ [] := by simpa using hne
  rw [toM_blockDiag' Us (one d) hne (fun V hV => (hU V hV).n_eq) rfl,
    toM_blockDiag' (Us.map adjoint) (one d) hne' (by
      intro V hV
      obtain ⟨W, hW, rfl⟩ := List.mem_map.mp hV
      simpa using (hU W hW).m_eq) (by simp),
    reindex_conjTranspose, blocks_conjTranspose]
  congr 2; funext k
  rw [List.getD_eq_getElem _ _ k.2, List.getD_eq_getElem _ _ (by simp), List.getElem_map]
  have := hU _ (List.getElem_mem k.2)
  rw [toM_adjoint _ this.n_eq this.m_eq]

theorem blockDiag_unitary (Us : List Mat) {d N : ℕ} (hne : Us ≠ []) (hU : ∀ U ∈ Us, U.IsUnitaryN d) (hN : N = Us.length * d) :
    (blockDiag Us).IsUnitaryN N := by
  obtain ⟨h1, h2, h3⟩ := blockDiag_isSq Us hne (fun V hV => (hU V hV).n_eq) hN
  refine ⟨h1, h2, h3, ?_⟩
  rw [blockDiag_conjTranspose Us hne (fun V hV => (hU V hV).isSq) hN]
  refine blockDiag_mul Us (Us.map adjoint) (by simpa using hne) (by simp) (fun V hV => (hU V hV).n_eq) (by
      intro V hV
      obtain ⟨W, hW, rfl⟩ := List.mem_map.mp hV
      simpa using (hU W hW).m_eq) (by simpa using hN) ?_
  intro k hk
  have hk' : k < Us.length := by simpa using hk
  rw [List.getD_eq_getElem _ _ hk', List.getD_eq_getElem _ _ hk, List.getElem_map]
  have := hU _ (List.getElem_mem hk')
  unfold MulEqOne
  rw [toM_adjoint _ this.n_eq this.m_eq]; exact this.mul_adj

theorem blockDiag_herm (Us : List Mat) {d N : ℕ} (hne : Us ≠ []) (hU : ∀ U ∈ Us, U.IsSq d) (hN : N = Us.length * d)
    (h : ∀ U ∈ Us, U.IsHermN d) : (blockDiag Us).IsHermN N := by
  subst hN
  unfold IsHermN
  rw [toM_blockDiag' Us (one d) hne (fun V hV => (hU V hV).n_eq) rfl, reindex_conjTranspose, blocks_conjTranspose]
  congr 2; funext k
  exact h _ (getD_mem_of_lt Us _ k.2)

end Mat
namespace Gate
end Gate
namespace Mat
open Qib.Gate

/-! ### state preparation -/

/-- all entries (of the `d × d` part) are real -/
def IsReal (A : Mat) (d : ℕ) : Prop := ∀ i j, i < d → j < d → (A.get i j).im = 0

theorem conjTranspose_eq_transpose_of_isReal {A : Mat} {d : ℕ} (h : A.IsReal d) : (A.toM d d)ᴴ = (A.toM d d)ᵀ := by
  ext i j
  simp only [Matrix.conjTranspose_apply, Matrix.transpose_apply, toM_apply]
  exact GQ.star_toC_of_im _ (h j i j.2 i.2)

/-- the sign-fixed QR factor of `PrepareGate.as_matrix` (before the optional transposition) -/
def prepFlip (q : Mat) (x : List Rat) : Mat :=
  let dot : Rat := (List.range q.n).foldl (fun acc i => acc + x.getD i 0 * (q.get i 0).re) 0
  if dot < 0 then Mat.ofFn q.n q.m fun i j => if j = 0 then -q.get i j else q.get i j else q

theorem prepareMat_eq (q : Mat) (x : List Rat) (tr : Bool) :
    prepareMat q x tr = if tr then (prepFlip q x).transpose else prepFlip q x := rfl

theorem unitary_mul_diagonal {d : ℕ} (Q : Matrix (Fin d) (Fin d) ℂ) (σ : Fin d → ℂ) (hQ : Q * Qᴴ = 1) (hσ : ∀ j, σ j * star (σ j) = 1) :
    (Q * Matrix.diagonal σ) * (Q * Matrix.diagonal σ)ᴴ = 1 := by
  rw [Matrix.conjTranspose_mul, Matrix.diagonal_conjTranspose, Matrix.mul_assoc, ← Matrix.mul_assoc (Matrix.diagonal σ),
    Matrix.diagonal_mul_diagonal]
  have : (Matrix.diagonal fun i => σ i * star σ i) = (1 : Matrix (Fin d) (Fin d) ℂ) := by
    rw [← Matrix.diagonal_one]; congr 1; funext i; exact hσ i
  rw [this, Matrix.one_mul, hQ]

theorem prepFlip_spec {q : Mat} {d : ℕ} (x : List Rat) (hq : q.IsUnitaryN d) (hre : q.IsReal d) :
    (prepFlip q x).IsUnitaryN d ∧ (prepFlip q x).IsReal d := by
  unfold prepFlip
  simp only
  split_ifs with hdot
  · refine ⟨⟨hq.n_eq, hq.m_eq, ofFn_wf _ _ _, ?_⟩, ?_⟩
    · have e : (Mat.ofFn q.n q.m fun i j => if j = 0 then -q.get i j else q.get i j).toM d d
          = q.toM d d * Matrix.diagonal (fun j : Fin d => if j.val = 0 then (-1 : ℂ) else 1) := by
        ext i j
        rw [Matrix.mul_diagonal]
        simp only [toM_apply]
        rw [get_ofFn _ (by rw [hq.n_eq]; exact i.2) (by rw [hq.m_eq]; exact j.2)]
        split_ifs <;> simp
      rw [e]
      apply unitary_mul_diagonal _ _ hq.mul_adj
      intro j; split_ifs <;> simp
    · intro i j hi hj
      rw [get_ofFn _ (by rw [hq.n_eq]; exact hi) (by rw [hq.m_eq]; exact hj)]
      have := hre i j hi hj
      split_ifs <;> simp [this]
  · exact ⟨hq, hre⟩

/-- a real unitary (= orthogonal) matrix and its transpose -/
theorem transpose_spec {P : Mat} {d : ℕ} (hP : P.IsUnitaryN d) (hre : P.IsReal d) :
    P.transpose.IsUnitaryN d ∧ P.transpose.toM d d * P.toM d d = 1 ∧ P.toM d d * P.transpose.toM d d = 1 := by
  have ht := toM_transpose P hP.n_eq hP.m_eq
  have hc := conjTranspose_eq_transpose_of_isReal hre
  refine ⟨⟨by simpa using hP.m_eq, by simpa using hP.n_eq, transpose_wf _, ?_⟩, ?_, ?_⟩
  · rw [ht, ← hc, Matrix.conjTranspose_conjTranspose]; exact hP.adj_mul
  · rw [ht, ← hc]; exact hP.adj_mul
  · rw [ht, ← hc]; exact hP.mul_adj

theorem prepareMat_unitary {q : Mat} {d : ℕ} (x : List Rat) (tr : Bool) (hq : q.IsUnitaryN d) (hre : q.IsReal d) :
    (prepareMat q x tr).IsUnitaryN d := by
  obtain ⟨h1, h2⟩ := prepFlip_spec x hq hre
  rw [prepareMat_eq]
  cases tr
  · exact h1
  · exact (transpose_spec h1 h2).1

theorem prepareMat_inverse_mul {q : Mat} {d : ℕ} (x : List Rat) (tr : Bool) (hq : q.IsUnitaryN d) (hre : q.IsReal d) :
    MulEqOne (prepareMat q x (!tr)) (prepareMat q x tr) d := by
  obtain ⟨h1, h2⟩ := prepFlip_spec x hq hre
  rw [prepareMat_eq, prepareMat_eq]
  cases tr
  · exact (transpose_spec h1 h2).2.1
  · exact (transpose_spec h1 h2).2.2

/-! ### block encodings -/
section BlockAbstract
open Complex
variable {ι : Type*} [Fintype ι] [DecidableEq ι]

theorem blockWx_unitary (H S : Matrix ι ι ℂ) (hH : Hᴴ = H) (hS : Sᴴ = S) (hsq : S * S = 1 - H * H) (hc : S * H = H * S) :
    fromBlocks H (I • S) (I • S) H * (fromBlocks H (I • S) (I • S) H)ᴴ = 1 := by
  rw [fromBlocks_conjTranspose, fromBlocks_multiply, ← fromBlocks_one]
  simp only [conjTranspose_smul, hH, hS, star_def, conj_I, smul_mul_smul_comm, Matrix.mul_smul, Matrix.smul_mul, hsq, hc]
  congr 1 <;> simp

theorem blockWxi_unitary (H S : Matrix ι ι ℂ) (hH : Hᴴ = H) (hS : Sᴴ = S) (hsq : S * S = 1 - H * H) (hc : S * H = H * S) :
    fromBlocks H ((-I) • S) ((-I) • S) H * (fromBlocks H ((-I) • S) ((-I) • S) H)ᴴ = 1 := by
  rw [fromBlocks_conjTranspose, fromBlocks_multiply, ← fromBlocks_one]
  simp only [conjTranspose_smul, hH, hS, star_def, conj_I, map_neg, neg_neg, smul_mul_smul_comm, Matrix.mul_smul, Matrix.smul_mul, hsq, hc]
  congr 1 <;> simp

theorem blockR_unitary (H S : Matrix ι ι ℂ) (hH : Hᴴ = H) (hS : Sᴴ = S) (hsq : S * S = 1 - H * H) (hc : S * H = H * S) :
    fromBlocks H S S (-H) * (fromBlocks H S S (-H))ᴴ = 1 := by
  rw [fromBlocks_conjTranspose, fromBlocks_multiply, ← fromBlocks_one]
  simp only [conjTranspose_neg, hH, hS, Matrix.mul_neg, Matrix.neg_mul, neg_neg, hsq, hc]
  congr 1 <;> abel

theorem block_inverse (H S : Matrix ι ι ℂ) (hsq : S * S = 1 - H * H) (hc : S * H = H * S) :
    fromBlocks H ((-I) • S) ((-I) • S) H * fromBlocks H (I • S) (I • S) H = 1 ∧
    fromBlocks H (I • S) (I • S) H * fromBlocks H ((-I) • S) ((-I) • S) H = 1 ∧
    fromBlocks H S S (-H) * fromBlocks H S S (-H) = 1 := by
  refine ⟨?_, ?_, ?_⟩ <;> rw [fromBlocks_multiply, ← fromBlocks_one]
  · simp only [smul_mul_smul_comm, Matrix.mul_smul, Matrix.smul_mul, hsq, hc]
    congr 1 <;> simp
  · simp only [smul_mul_smul_comm, Matrix.mul_smul, Matrix.smul_mul, hsq, hc]
    congr 1 <;> simp
  · simp only [Matrix.mul_neg, Matrix.neg_mul, neg_neg, hsq, hc]
    congr 1 <;> abel

omit [Fintype ι] [DecidableEq ι] in
theorem blockR_herm (H S : Matrix ι ι ℂ) (hH : Hᴴ = H) (hS : Sᴴ = S) : (fromBlocks H S S (-H))ᴴ = fromBlocks H S S (-H) := by
  simp [fromBlocks_conjTranspose, hH, hS]

end BlockAbstract

/-- the abstract matrix of a block encoding, by method -/
noncomputable def blockAbs {d : ℕ} (m : Method) (H S : Matrix (Fin d) (Fin d) ℂ) : Matrix (Fin d ⊕ Fin d) (Fin d ⊕ Fin d) ℂ :=
  match m with
  | .Wx => fromBlocks H (Complex.I • S) (Complex.I • S) H
  | .Wxi => fromBlocks H ((-Complex.I) • S) ((-Complex.I) • S) H
  | .R => fromBlocks H S S (-H)

/-- `blockMat` denotes the `2 × 2` block matrix of the method -/
theorem toM_blockMat (m : Method) {h s : Mat} {d : ℕ} (hh : h.IsSq d) (hs : s.IsSq d) :
    (blockMat m h s).toM (d + d) (d + d) = Matrix.reindex finSumFinEquiv finSumFinEquiv (blockAbs m (h.toM d d) (s.toM d d)) := by
  cases m <;> simp only [blockMat, blockAbs] <;> rw [toM_block _ _ _ _ hh.n_eq]
  · rw [toM_smul _ s hs.n_eq hs.m_eq, GQ.toC_I]
  · rw [toM_smul _ s hs.n_eq hs.m_eq, GQ.toC_neg, GQ.toC_I]
  · rw [toM_neg h hh.n_eq hh.m_eq]

theorem blockMat_isSq (m : Method) {h s : Mat} {d N : ℕ} (hh : h.IsSq d) (hN : N = d + d) : (blockMat m h s).IsSq N := by
  have e : 2 * h.n = N := by rw [hh.n_eq, hN, two_mul]
  cases m <;> exact ⟨e, e, block_wf _ _ _ _⟩

/-- the hypotheses on the two numerical inputs of a block encoding (`H` the encoded operator, `S` standing for
`sqrtm(1 - H²)`): both Hermitian, `S² = 1 - H²`, `S H = H S` -/
structure BlockHyp (h s : Mat) (d : ℕ) : Prop where
  hh : h.IsSq d
  hs : s.IsSq d
  herm_h : (h.toM d d)ᴴ = h.toM d d
  herm_s : (s.toM d d)ᴴ = s.toM d d
  sq : s.toM d d * s.toM d d = 1 - h.toM d d * h.toM d d
  comm : s.toM d d * h.toM d d = h.toM d d * s.toM d d

theorem blockMat_unitary (m : Method) {h s : Mat} {d N : ℕ} (hb : BlockHyp h s d) (hN : N = d + d) :
    (blockMat m h s).IsUnitaryN N := by
  obtain ⟨h1, h2, h3⟩ := blockMat_isSq m (s := s) hb.hh hN
  refine ⟨h1, h2, h3, ?_⟩
  subst hN
  rw [toM_blockMat m hb.hh hb.hs, reindex_unitary_iff]
  cases m
  · exact blockWx_unitary _ _ hb.herm_h hb.herm_s hb.sq hb.comm
  · exact blockWxi_unitary _ _ hb.herm_h hb.herm_s hb.sq hb.comm
  · exact blockR_unitary _ _ hb.herm_h hb.herm_s hb.sq hb.comm

/-- the method of the inverse block encoding, as `BlockEncodingGate.inverse` chooses it -/
def invMethod : Method → Method
  | .Wx => .Wxi | .Wxi => .Wx | .R => .R

theorem blockMat_inverse_mul (m : Method) {h s : Mat} {d N : ℕ} (hb : BlockHyp h s d) (hN : N = d + d) :
    MulEqOne (blockMat (invMethod m) h s) (blockMat m h s) N := by
  subst hN
  unfold MulEqOne
  rw [toM_blockMat _ hb.hh hb.hs, toM_blockMat m hb.hh hb.hs, reindex_mul_reindex, reindex_eq_one_iff]
  have := block_inverse _ _ hb.sq hb.comm
  cases m
  · exact this.1
  · exact this.2.1
  · exact this.2.2

theorem blockMat_R_herm {h s : Mat} {d N : ℕ} (hb : BlockHyp h s d) (hN : N = d + d) : (blockMat .R h s).IsHermN N := by
  subst hN
  unfold IsHermN
  rw [toM_blockMat _ hb.hh hb.hs, reindex_conjTranspose]
  congr 1
  exact blockR_herm _ _ hb.herm_h hb.herm_s

end Mat
namespace Gate

/-! ### equation lemmas of the model functions -/
@[simp] theorem mat_leaf (c w m mi f) : (Tree.leaf c w m mi f).mat = m := by rw [Tree.mat]
@[simp] theorem mat_general (w m) : (Tree.general w m).mat = m := by rw [Tree.mat]
@[simp] theorem mat_timeEvo (w m mi) : (Tree.timeEvo w m mi).mat = m := by rw [Tree.mat]
@[simp] theorem mat_prepare (w q x tr) : (Tree.prepare w q x tr).mat = prepareMat q x tr := by rw [Tree.mat]
@[simp] theorem mat_block (w m h s) : (Tree.block w m h s).mat = blockMat m h s := by rw [Tree.mat]
@[simp] theorem mat_controlled (cs t) : (Tree.controlled cs t).mat = controlledMat cs t.mat := by rw [Tree.mat]
@[simp] theorem mat_multiplexed (nc ts) : (Tree.multiplexed nc ts).mat = blockDiag (ts.map Tree.mat) := by
  rw [Tree.mat, matList_eq_map]

@[simp] theorem wires_leaf (c w m mi f) : (Tree.leaf c w m mi f).wires = w := by rw [Tree.wires]
@[simp] theorem wires_general (w m) : (Tree.general w m).wires = w := by rw [Tree.wires]
@[simp] theorem wires_timeEvo (w m mi) : (Tree.timeEvo w m mi).wires = w := by rw [Tree.wires]
@[simp] theorem wires_prepare (w q x tr) : (Tree.prepare w q x tr).wires = w := by rw [Tree.wires]
@[simp] theorem wires_block (w m h s) : (Tree.block w m h s).wires = w := by rw [Tree.wires]
@[simp] theorem wires_controlled (cs t) : (Tree.controlled cs t).wires = t.wires + cs.length := by rw [Tree.wires]
@[simp] theorem wires_multiplexed (nc ts) : (Tree.multiplexed nc ts).wires = wiresHead ts + nc := by rw [Tree.wires]
@[simp] theorem wiresHead_nil : wiresHead [] = 0 := by rw [wiresHead]
@[simp] theorem wiresHead_cons (t ts) : wiresHead (t :: ts) = t.wires := by rw [wiresHead]

@[simp] theorem inverse_leaf (c w m mi f) : (Tree.leaf c w m mi f).inverse = .leaf (c ++ "^-1") w mi m f := by rw [Tree.inverse]
@[simp] theorem inverse_general (w m) : (Tree.general w m).inverse = .general w m.adjoint := by rw [Tree.inverse]
@[simp] theorem inverse_timeEvo (w m mi) : (Tree.timeEvo w m mi).inverse = .timeEvo w mi m := by rw [Tree.inverse]
@[simp] theorem inverse_prepare (w q x tr) : (Tree.prepare w q x tr).inverse = .prepare w q x (!tr) := by rw [Tree.inverse]
@[simp] theorem inverse_block (w m h s) : (Tree.block w m h s).inverse = .block w (Mat.invMethod m) h s := by
  cases m <;> rw [Tree.inverse] <;> rfl
@[simp] theorem inverse_controlled (cs t) : (Tree.controlled cs t).inverse = .controlled cs t.inverse := by rw [Tree.inverse]
@[simp] theorem inverse_multiplexed (nc ts) : (Tree.multiplexed nc ts).inverse = .multiplexed nc (ts.map Tree.inverse) := by
  rw [Tree.inverse, inverseList_eq_map]

theorem herm_leaf (c w m mi f) : (Tree.leaf c w m mi f).herm = f := by rw [Tree.herm]
theorem herm_general (w m) : (Tree.general w m).herm = QibGen.GeneralGate.hermitianFlag (m.adjoint.beq m) := by rw [Tree.herm]
theorem herm_timeEvo (w m mi) : (Tree.timeEvo w m mi).herm = QibGen.TimeEvolutionGate.hermitianFlag := by rw [Tree.herm]
theorem herm_prepare (w q x tr) : (Tree.prepare w q x tr).herm = QibGen.PrepareGate.hermitianFlag := by rw [Tree.herm]
theorem herm_block (w m h s) : (Tree.block w m h s).herm =
    QibGen.BlockEncodingGate.hermitianFlag (match m with | .Wx => .Wx | .Wxi => .Wxi | .R => .R) := by
  cases m <;> rw [Tree.herm]
theorem herm_controlled (cs t) : (Tree.controlled cs t).herm = QibGen.ControlledGate.hermitianFlag t.herm := by rw [Tree.herm]
theorem herm_multiplexed (nc ts) : (Tree.multiplexed nc ts).herm = QibGen.MultiplexedGate.hermitianFlag (ts.map Tree.herm) := by
  rw [Tree.herm, hermList_eq_map]

/-! ### well-formed gate trees -/

/-- `t.WF`: the numerical payload of the tree has the properties the constructors of the library (and the
recorded assumptions on `sqrtm`, `qr`, `expm`) guarantee; nothing is assumed about the assembly. -/
inductive Tree.WF : Tree → Prop
  /-- closed-form leaf gate on `w` wires: unitary matrix, the matrix of `inverse()` inverts it, a `True` flag means Hermitian -/
  | leaf (c : String) (w : ℕ) (m mi : Mat) (f : Bool) (hm : m.IsUnitaryN (2 ^ w)) (hmi : mi.IsSq (2 ^ w))
      (hinv : mi.toM (2 ^ w) (2 ^ w) * m.toM (2 ^ w) (2 ^ w) = 1)
      (hflag : f = true → (m.toM (2 ^ w) (2 ^ w))ᴴ = m.toM (2 ^ w) (2 ^ w)) : Tree.WF (.leaf c w m mi f)
  /-- `GeneralGate`: the constructor's unitarity check -/
  | general (w : ℕ) (m : Mat) (hm : m.IsUnitaryN (2 ^ w)) : Tree.WF (.general w m)
  /-- `TimeEvolutionGate`: `expm(-i t H)` and `expm(+i t H)` are mutually inverse unitaries -/
  | timeEvo (w : ℕ) (m mi : Mat) (hm : m.IsUnitaryN (2 ^ w)) (hmi : mi.IsSq (2 ^ w))
      (hinv : mi.toM (2 ^ w) (2 ^ w) * m.toM (2 ^ w) (2 ^ w) = 1) : Tree.WF (.timeEvo w m mi)
  /-- `PrepareGate`: the complete QR factor is real orthogonal -/
  | prepare (w : ℕ) (q : Mat) (x : List Rat) (tr : Bool) (hq : q.IsUnitaryN (2 ^ w)) (hre : q.IsReal (2 ^ w)) :
      Tree.WF (.prepare w q x tr)
  /-- `BlockEncodingGate` (one auxiliary qubit): `h`, `s` Hermitian, `s s = 1 - h h`, `s h = h s` -/
  | block (w' : ℕ) (m : Method) (h s : Mat) (hb : Mat.BlockHyp h s (2 ^ w')) : Tree.WF (.block (w' + 1) m h s)
  | controlled (cs : List Bool) (t : Tree) (ht : Tree.WF t) : Tree.WF (.controlled cs t)
  /-- `MultiplexedGate`: `2 ^ nc` targets (constructor check), all of the same number of wires -/
  | multiplexed (nc : ℕ) (ts : List Tree) (hlen : ts.length = 2 ^ nc) (hts : ∀ t ∈ ts, Tree.WF t)
      (hw : ∀ t ∈ ts, t.wires = wiresHead ts) : Tree.WF (.multiplexed nc ts)

theorem two_pow_succ_eq (w : ℕ) : 2 ^ (w + 1) = 2 ^ w + 2 ^ w := by rw [pow_succ, mul_two]

theorem length_pos_of_pow {α : Type*} {ts : List α} {nc : ℕ} (h : ts.length = 2 ^ nc) : ts ≠ [] := by
  intro h0; subst h0
  have : 0 < 2 ^ nc := Nat.pow_pos (by norm_num)
  simp only [List.length_nil] at h; omega

/-- the inverse tree has the same number of wires (no hypothesis) -/
theorem Tree.inverse_wires (t : Tree) : t.inverse.wires = t.wires := by
  induction t using Tree.induction' with
  | leaf | general | timeEvo | prepare | block => simp
  | controlled cs t ih => simp [ih]
  | multiplexed nc ts ih =>
    simp only [inverse_multiplexed, wires_multiplexed]
    cases ts with
    | nil => simp
    | cons t ts => simp [ih t (by simp)]

/-- **unitarity and size of the executed assembly**: for every well-formed tree the matrix the driver computes is
a well-formed `2 ^ wires × 2 ^ wires` array denoting a unitary matrix -/
theorem Tree.mat_unitary (t : Tree) (h : t.WF) : t.mat.IsUnitaryN (2 ^ t.wires) := by
  induction t using Tree.induction' with
  | leaf c w m mi f => cases h with | leaf _ _ _ _ _ hm => simpa using hm
  | general w m => cases h with | general _ _ hm => simpa using hm
  | timeEvo w m mi => cases h with | timeEvo _ _ _ hm => simpa using hm
  | prepare w q x tr => cases h with | prepare _ _ _ _ hq hre => simpa using Mat.prepareMat_unitary x tr hq hre
  | block w m hh s => cases h with | block w' _ _ _ hb => simpa using Mat.blockMat_unitary m hb (two_pow_succ_eq w')
  | controlled cs t ih =>
    cases h with
    | controlled _ _ ht =>
      simp only [mat_controlled, wires_controlled]
      exact Mat.controlledMat_unitary cs (ih ht) (by rw [pow_add, mul_comm])
  | multiplexed nc ts ih =>
    cases h with
    | multiplexed _ _ hlen hts hw =>
      simp only [mat_multiplexed, wires_multiplexed]
      refine Mat.blockDiag_unitary (ts.map Tree.mat) (d := 2 ^ wiresHead ts) (by simpa using length_pos_of_pow hlen) ?_
        (by rw [List.length_map, hlen, pow_add, mul_comm])
      intro U hU
      obtain ⟨t, ht, rfl⟩ := List.mem_map.mp hU
      rw [← hw t ht]; exact ih t ht (hts t ht)

theorem Tree.mat_isSq (t : Tree) (h : t.WF) : t.mat.IsSq (2 ^ t.wires) := (t.mat_unitary h).isSq

/-- the assembled array is well-formed (`data.size = n * m`) -/
theorem Tree.mat_wf (t : Tree) (h : t.WF) : t.mat.WF := (t.mat_isSq h).wf

/-! ### the inverse tree -/

theorem wiresHead_map_inverse (ts : List Tree) : wiresHead (ts.map Tree.inverse) = wiresHead ts := by
  cases ts with
  | nil => rfl
  | cons t ts => simp [Tree.inverse_wires]

/-- a left inverse of a unitary is its adjoint, hence unitary and a right inverse -/
theorem inv_pair_swap {m mi : Mat} {d : ℕ} (hm : m.IsUnitaryN d) (hmi : mi.IsSq d) (hinv : mi.toM d d * m.toM d d = 1) :
    mi.toM d d = (m.toM d d)ᴴ ∧ mi.IsUnitaryN d ∧ m.toM d d * mi.toM d d = 1 := by
  have e : mi.toM d d = (m.toM d d)ᴴ := by
    calc mi.toM d d = mi.toM d d * (m.toM d d * (m.toM d d)ᴴ) := by rw [hm.mul_adj, Matrix.mul_one]
      _ = (m.toM d d)ᴴ := by rw [← Matrix.mul_assoc, hinv, Matrix.one_mul]
  refine ⟨e, ⟨hmi.n_eq, hmi.m_eq, hmi.wf, ?_⟩, ?_⟩
  · rw [e, Matrix.conjTranspose_conjTranspose]; exact hm.adj_mul
  · rw [e]; exact hm.mul_adj

theorem adjoint_unitary {m : Mat} {d : ℕ} (hm : m.IsUnitaryN d) : m.adjoint.IsUnitaryN d := by
  refine ⟨by simpa using hm.m_eq, by simpa using hm.n_eq, Mat.adjoint_wf _, ?_⟩
  rw [Mat.toM_adjoint m hm.n_eq hm.m_eq, Matrix.conjTranspose_conjTranspose]; exact hm.adj_mul

/-- `inverse()` of a well-formed tree is well-formed -/
theorem Tree.inverse_wf (t : Tree) (h : t.WF) : t.inverse.WF := by
  induction t using Tree.induction' with
  | leaf c w m mi f =>
    cases h with
    | leaf _ _ _ _ _ hm hmi hinv hflag =>
      obtain ⟨e, h1, h2⟩ := inv_pair_swap hm hmi hinv
      rw [inverse_leaf]
      refine .leaf _ _ _ _ _ h1 hm.isSq h2 ?_
      intro hf
      have := hflag hf
      rw [e, Matrix.conjTranspose_conjTranspose, this]
  | general w m => cases h with | general _ _ hm => rw [inverse_general]; exact .general _ _ (adjoint_unitary hm)
  | timeEvo w m mi =>
    cases h with
    | timeEvo _ _ _ hm hmi hinv =>
      obtain ⟨_, h1, h2⟩ := inv_pair_swap hm hmi hinv
      rw [inverse_timeEvo]; exact .timeEvo _ _ _ h1 hm.isSq h2
  | prepare w q x tr => cases h with | prepare _ _ _ _ hq hre => rw [inverse_prepare]; exact .prepare _ _ _ _ hq hre
  | block w m hh s => cases h with | block w' _ _ _ hb => rw [inverse_block]; exact .block _ _ _ _ hb
  | controlled cs t ih => cases h with | controlled _ _ ht => rw [inverse_controlled]; exact .controlled _ _ (ih ht)
  | multiplexed nc ts ih =>
    cases h with
    | multiplexed _ _ hlen hts hw =>
      rw [inverse_multiplexed]
      refine .multiplexed _ _ (by simpa using hlen) ?_ ?_
      · intro t' ht'
        obtain ⟨t, ht, rfl⟩ := List.mem_map.mp ht'
        exact ih t ht (hts t ht)
      · intro t' ht'
        obtain ⟨t, ht, rfl⟩ := List.mem_map.mp ht'
        rw [wiresHead_map_inverse, Tree.inverse_wires, hw t ht]

/-- **`inverse()` inverts, on the executed assembly**: the matrix of the inverse tree times the matrix of the tree is
the identity (over `ℂ`, size `2 ^ wires`) -/
theorem Tree.inverse_mul (t : Tree) (h : t.WF) : Mat.MulEqOne t.inverse.mat t.mat (2 ^ t.wires) := by
  induction t using Tree.induction' with
  | leaf c w m mi f =>
    cases h with
    | leaf _ _ _ _ _ hm hmi hinv hflag => simp only [inverse_leaf, mat_leaf, wires_leaf]; exact hinv
  | general w m =>
    cases h with
    | general _ _ hm =>
      simp only [inverse_general, mat_general, wires_general]
      unfold Mat.MulEqOne
      rw [Mat.toM_adjoint m hm.n_eq hm.m_eq]; exact hm.adj_mul
  | timeEvo w m mi =>
    cases h with
    | timeEvo _ _ _ hm hmi hinv => simp only [inverse_timeEvo, mat_timeEvo, wires_timeEvo]; exact hinv
  | prepare w q x tr =>
    cases h with
    | prepare _ _ _ _ hq hre =>
      simp only [inverse_prepare, mat_prepare, wires_prepare]; exact Mat.prepareMat_inverse_mul x tr hq hre
  | block w m hh s =>
    cases h with
    | block w' _ _ _ hb =>
      simp only [inverse_block, mat_block, wires_block]; exact Mat.blockMat_inverse_mul m hb (two_pow_succ_eq w')
  | controlled cs t ih =>
    cases h with
    | controlled _ _ ht =>
      simp only [inverse_controlled, mat_controlled, wires_controlled]
      have h1 := t.inverse.mat_isSq (t.inverse_wf ht)
      rw [Tree.inverse_wires] at h1
      exact Mat.controlledMat_mul cs h1 (t.mat_isSq ht) (by rw [pow_add, mul_comm]) (ih ht)
  | multiplexed nc ts ih =>
    cases h with
    | multiplexed _ _ hlen hts hw =>
      simp only [inverse_multiplexed, mat_multiplexed, wires_multiplexed]
      refine Mat.blockDiag_mul _ _ (d := 2 ^ wiresHead ts) (by simpa using length_pos_of_pow hlen) (by simp) ?_ ?_
        (by rw [List.length_map, hlen, pow_add, mul_comm]) ?_
      · intro V hV
        simp only [List.map_map, List.mem_map, Function.comp] at hV
        obtain ⟨t, ht, rfl⟩ := hV
        have := (t.inverse.mat_isSq (t.inverse_wf (hts t ht))).n_eq
        rw [Tree.inverse_wires, hw t ht] at this; exact this
      · intro U hU
        obtain ⟨t, ht, rfl⟩ := List.mem_map.mp hU
        have := (t.mat_isSq (hts t ht)).n_eq
        rw [hw t ht] at this; exact this
      · intro k hk
        have hk' : k < ts.length := by simpa using hk
        rw [List.getD_eq_getElem _ _ (by simpa using hk'), List.getD_eq_getElem _ _ hk]
        simp only [List.getElem_map]
        have hmem := List.getElem_mem hk'
        have := ih _ hmem (hts _ hmem)
        rw [hw _ hmem] at this; exact this

/-! ### soundness of the Hermiticity answers -/

/-- **`is_hermitian()` is sound on the executed model**: with the delegation functions generated from the source
(`QibGen/GateFlags.lean`), a `True` answer implies that the assembled matrix is Hermitian -/
theorem Tree.herm_sound (t : Tree) (h : t.WF) (hf : t.herm = true) : t.mat.IsHermN (2 ^ t.wires) := by
  induction t using Tree.induction' with
  | leaf c w m mi f =>
    cases h with
    | leaf _ _ _ _ _ hm hmi hinv hflag => rw [herm_leaf] at hf; simp only [mat_leaf, wires_leaf]; exact hflag hf
  | general w m =>
    cases h with
    | general _ _ hm =>
      rw [herm_general] at hf
      have hb : m.adjoint.beq m = true := by simpa [QibGen.GeneralGate.hermitianFlag] using hf
      obtain ⟨_, _, hg⟩ := Mat.get_eq_of_beq hb
      simp only [mat_general, wires_general]
      unfold Mat.IsHermN
      rw [← Mat.toM_adjoint m hm.n_eq hm.m_eq]
      ext i j; simp only [Mat.toM_apply, hg]
  | timeEvo w m mi => rw [herm_timeEvo] at hf; exact absurd hf (by decide)
  | prepare w q x tr => rw [herm_prepare] at hf; exact absurd hf (by decide)
  | block w m hh s =>
    cases h with
    | block w' _ _ _ hb =>
      rw [herm_block] at hf
      cases m with
      | Wx => exact absurd hf (by decide)
      | Wxi => exact absurd hf (by decide)
      | R => simp only [mat_block, wires_block]; exact Mat.blockMat_R_herm hb (two_pow_succ_eq w')
  | controlled cs t ih =>
    cases h with
    | controlled _ _ ht =>
      rw [herm_controlled] at hf
      have hf' : t.herm = true := by simpa [QibGen.ControlledGate.hermitianFlag] using hf
      simp only [mat_controlled, wires_controlled]
      exact Mat.controlledMat_herm cs (t.mat_isSq ht) (by rw [pow_add, mul_comm]) (ih ht hf')
  | multiplexed nc ts ih =>
    cases h with
    | multiplexed _ _ hlen hts hw =>
      rw [herm_multiplexed] at hf
      have hall : ∀ t ∈ ts, t.herm = true := by
        intro t ht
        have h' : (ts.map Tree.herm).all id = true := hf
        rw [List.all_eq_true] at h'
        simpa using h' (t.herm) (List.mem_map.mpr ⟨t, ht, rfl⟩)
      simp only [mat_multiplexed, wires_multiplexed]
      refine Mat.blockDiag_herm _ (d := 2 ^ wiresHead ts) (by simpa using length_pos_of_pow hlen) ?_
        (by rw [List.length_map, hlen, pow_add, mul_comm]) ?_
      · intro U hU
        obtain ⟨t, ht, rfl⟩ := List.mem_map.mp hU
        rw [← hw t ht]; exact t.mat_isSq (hts t ht)
      · intro U hU
        obtain ⟨t, ht, rfl⟩ := List.mem_map.mp hU
        rw [← hw t ht]; exact ih t ht (hts t ht) (hall t ht)

/-! ### the same facts about the arrays the driver computes (no complex numbers in the statements) -/

theorem Tree.inverse_mat_isSq (t : Tree) (h : t.WF) : t.inverse.mat.IsSq (2 ^ t.wires) := by
  have := t.inverse.mat_isSq (t.inverse_wf h)
  rwa [Tree.inverse_wires] at this

/-- the driver's product of the inverse tree's matrix with the tree's matrix IS the driver's identity matrix -/
theorem Tree.inverse_mul_exec (t : Tree) (h : t.WF) : t.inverse.mat.mul t.mat = Mat.one (2 ^ t.wires) :=
  (Mat.mul_eq_one_iff_exec _ _ (t.inverse_mat_isSq h).n_eq (t.inverse_mat_isSq h).m_eq (t.mat_isSq h).m_eq).mp (t.inverse_mul h)

/-- … and in the other order -/
theorem Tree.mul_inverse_exec (t : Tree) (h : t.WF) : t.mat.mul t.inverse.mat = Mat.one (2 ^ t.wires) :=
  (Mat.mul_eq_one_iff_exec _ _ (t.mat_isSq h).n_eq (t.mat_isSq h).m_eq (t.inverse_mat_isSq h).m_eq).mp
    (mul_eq_one_comm.mp (t.inverse_mul h))

/-- the matrix of the inverse tree is, entry for entry, the driver's adjoint of the tree's matrix -/
theorem Tree.inverse_mat_eq_adjoint (t : Tree) (h : t.WF) : t.inverse.mat = t.mat.adjoint := by
  have hm := t.mat_unitary h
  have hi := t.inverse_mat_isSq h
  obtain ⟨e, _, _⟩ := inv_pair_swap hm hi (t.inverse_mul h)
  refine Mat.toM_injective hi.wf (Mat.adjoint_wf _) hi.n_eq hi.m_eq (by simpa using hm.m_eq) (by simpa using hm.n_eq) ?_
  rw [e, Mat.toM_adjoint _ hm.n_eq hm.m_eq]

theorem Tree.mat_mul_adjoint_exec (t : Tree) (h : t.WF) : t.mat.mul t.mat.adjoint = Mat.one (2 ^ t.wires) :=
  (Mat.mul_adj_iff_exec _ (t.mat_isSq h).n_eq (t.mat_isSq h).m_eq).mp (t.mat_unitary h).mul_adj

theorem Tree.adjoint_mul_mat_exec (t : Tree) (h : t.WF) : t.mat.adjoint.mul t.mat = Mat.one (2 ^ t.wires) := by
  rw [← t.inverse_mat_eq_adjoint h]; exact t.inverse_mul_exec h

theorem Tree.herm_sound_exec (t : Tree) (h : t.WF) (hf : t.herm = true) : t.mat.adjoint = t.mat :=
  (Mat.herm_iff_exec _ (t.mat_isSq h).n_eq (t.mat_isSq h).m_eq (t.mat_isSq h).wf).mp (t.herm_sound h hf)

/-- inverting twice gives back the same matrix (what the harness compares as `invinv`) -/
theorem Tree.inverse_inverse_mat (t : Tree) (h : t.WF) : t.inverse.inverse.mat = t.mat := by
  rw [t.inverse.inverse_mat_eq_adjoint (t.inverse_wf h), t.inverse_mat_eq_adjoint h, Mat.adjoint_adjoint _ (t.mat_isSq h).wf]

/-! ### control semantics of the executed assembly, at tree level -/

/-- entries of a controlled gate in block coordinates (control value most significant, first control = most
significant control bit): the target's matrix on the block of the control pattern, the identity on the other
diagonal blocks, zero elsewhere -/
theorem Tree.controlled_entry (cs : List Bool) (t : Tree) (h : t.WF) {c c' a b : ℕ}
    (hc : c < 2 ^ cs.length) (hc' : c' < 2 ^ cs.length) (ha : a < 2 ^ t.wires) (hb : b < 2 ^ t.wires) :
    (Tree.controlled cs t).mat.get (c * 2 ^ t.wires + a) (c' * 2 ^ t.wires + b) =
      if c = c' then (if c = ofBitsMSB cs then t.mat.get a b else if a = b then 1 else 0) else 0 := by
  rw [mat_controlled]
  exact Mat.get_controlledMat cs t.mat (t.mat_isSq h).n_eq (t.mat_isSq h).m_eq hc hc' ha hb

/-- entries of a multiplexed gate in block coordinates: the `k`-th target's matrix as `k`-th diagonal block -/
theorem Tree.multiplexed_entry (nc : ℕ) (ts : List Tree) (h : (Tree.multiplexed nc ts).WF) {k k' a b : ℕ}
    (hk : k < ts.length) (hk' : k' < ts.length) (ha : a < 2 ^ wiresHead ts) (hb : b < 2 ^ wiresHead ts) :
    (Tree.multiplexed nc ts).mat.get (k * 2 ^ wiresHead ts + a) (k' * 2 ^ wiresHead ts + b) =
      if k = k' then ts[k].mat.get a b else 0 := by
  cases h with
  | multiplexed _ _ hlen hts hw =>
    rw [mat_multiplexed]
    cases ts with
    | nil => simp at hk
    | cons t ts =>
      have hd : t.mat.n = 2 ^ wiresHead (t :: ts) := by
        rw [wiresHead_cons]; exact (t.mat_isSq (hts t (by simp))).n_eq
      rw [List.map_cons, Mat.get_blockDiag t.mat (ts.map Tree.mat) hd (by simpa using hk) (by simpa using hk') ha hb]
      split_ifs
      · rw [← List.map_cons, List.getD_eq_getElem _ _ (by simpa using hk), List.getElem_map]
      · rfl

/-! ### concrete well-formed trees (non-vacuity material for the property files) -/
namespace Example

def X : Mat := ⟨2, 2, #[0, 1, 1, 0]⟩
def Z : Mat := ⟨2, 2, #[1, 0, 0, -1]⟩
def S : Mat := ⟨2, 2, #[1, 0, 0, GQ.I]⟩
def Sdg : Mat := ⟨2, 2, #[1, 0, 0, -GQ.I]⟩
/-- `3/5 · Z` and `4/5 · 1`: a Hermitian contraction and the square root of `1 - H²` -/
def H35 : Mat := ⟨2, 2, #[⟨3/5, 0⟩, 0, 0, ⟨-3/5, 0⟩]⟩
def S45 : Mat := ⟨2, 2, #[⟨4/5, 0⟩, 0, 0, ⟨4/5, 0⟩]⟩

theorem get_mk (n m : ℕ) (d : Array GQ) (i j : ℕ) : (Mat.mk n m d).get i j = d.getD (i * m + j) 0 := rfl

theorem toC_mk_real (r : ℚ) : (GQ.mk r 0).toC = ((r : ℝ) : ℂ) := by apply Complex.ext <;> simp

macro "entries2" : tactic =>
  `(tactic| (ext i j; fin_cases i <;> fin_cases j <;>
      simp [X, Z, S, Sdg, H35, S45, get_mk, toC_mk_real, Matrix.mul_apply, Fin.sum_univ_two, Matrix.one_apply]))

theorem X_unitary : X.IsUnitaryN (2 ^ 1) := ⟨rfl, rfl, rfl, by entries2⟩
theorem Z_unitary : Z.IsUnitaryN (2 ^ 1) := ⟨rfl, rfl, rfl, by entries2⟩
theorem S_unitary : S.IsUnitaryN (2 ^ 1) := ⟨rfl, rfl, rfl, by entries2⟩

def leafX : Tree := .leaf "PauliXGate" 1 X X true
def leafS : Tree := .leaf "SGate" 1 S Sdg false

theorem leafX_wf : leafX.WF := .leaf _ _ _ _ _ X_unitary X_unitary.isSq (by entries2) (fun _ => by entries2)
theorem leafS_wf : leafS.WF := .leaf _ _ _ _ _ S_unitary ⟨rfl, rfl, rfl⟩ (by entries2) (fun h => absurd h (by decide))

/-- `ControlledGate(MultiplexedGate([X, S], 1), 2, ctrl_state=[1, 0])`: four wires -/
def tree1 : Tree := .controlled [true, false] (.multiplexed 1 [leafX, leafS])

theorem tree1_wf : tree1.WF :=
  .controlled _ _ (.multiplexed _ _ rfl
    (by intro t ht; simp only [List.mem_cons, List.not_mem_nil, or_false] at ht; rcases ht with rfl | rfl; exacts [leafX_wf, leafS_wf])
    (by intro t ht; simp only [List.mem_cons, List.not_mem_nil, or_false] at ht; rcases ht with rfl | rfl <;> simp [leafX, leafS]))

theorem tree1_wires : tree1.wires = 4 := by simp [tree1, leafX]

theorem H35_S45 : Mat.BlockHyp H35 S45 (2 ^ 1) where
  hh := ⟨rfl, rfl, rfl⟩
  hs := ⟨rfl, rfl, rfl⟩
  herm_h := by entries2
  herm_s := by entries2
  sq := by entries2 <;> norm_num
  comm := by entries2 <;> ring

theorem X_real : X.IsReal (2 ^ 1) := by
  intro i j hi hj
  have hi : i < 2 := hi
  have hj : j < 2 := hj
  interval_cases i <;> interval_cases j <;> simp [X, get_mk]

/-- `MultiplexedGate([ControlledGate(PrepareGate(…, transpose=True), 1, [0]), BlockEncodingGate(h, R)], 1)`: three wires -/
def tree2 : Tree :=
  .multiplexed 1 [.controlled [false] (.prepare 1 X [0, 1] true), .block 2 .R H35 S45]

theorem tree2_wf : tree2.WF :=
  .multiplexed _ _ rfl
    (by
      intro t ht; simp only [List.mem_cons, List.not_mem_nil, or_false] at ht
      rcases ht with rfl | rfl
      · exact .controlled _ _ (.prepare _ _ _ _ X_unitary X_real)
      · exact .block 1 _ _ _ H35_S45)
    (by intro t ht; simp only [List.mem_cons, List.not_mem_nil, or_false] at ht; rcases ht with rfl | rfl <;> simp)

/-- `ControlledGate(MultiplexedGate([GeneralGate(Z), TimeEvolutionGate], 1), 1)`: three wires -/
def tree3 : Tree := .controlled [true] (.multiplexed 1 [.general 1 Z, .timeEvo 1 S Sdg])

theorem tree3_wf : tree3.WF :=
  .controlled _ _ (.multiplexed _ _ rfl
    (by
      intro t ht; simp only [List.mem_cons, List.not_mem_nil, or_false] at ht
      rcases ht with rfl | rfl
      · exact .general _ _ Z_unitary
      · exact .timeEvo _ _ _ S_unitary ⟨rfl, rfl, rfl⟩ (by entries2))
    (by intro t ht; simp only [List.mem_cons, List.not_mem_nil, or_false] at ht; rcases ht with rfl | rfl <;> simp))

/-- a composite whose Hermiticity answer is `True`: doubly controlled multiplexer of `X` and a Hermitian `GeneralGate(Z)` -/
def tree4 : Tree := .controlled [false, true] (.multiplexed 1 [leafX, .general 1 Z])

theorem tree4_wf : tree4.WF :=
  .controlled _ _ (.multiplexed _ _ rfl
    (by
      intro t ht; simp only [List.mem_cons, List.not_mem_nil, or_false] at ht
      rcases ht with rfl | rfl
      · exact leafX_wf
      · exact .general _ _ Z_unitary)
    (by intro t ht; simp only [List.mem_cons, List.not_mem_nil, or_false] at ht; rcases ht with rfl | rfl <;> simp [leafX]))

end Example

end Gate
end Qib
