import QibProofs.Lemmas.TNetTreePrepPerm
/-!
Helper lemmas for C07, part 21: `contractTreePrep` (`tensor_network.py:106-147`) – the axes map (`axisFun_spec`), the
numbering of the root legs (`mark_inv`, `mark_final`), `prep_cert`: the tree handed to the evaluation is certified
(`treeOKList`, `rootOK`), and the capstones `contractTree_certified`, `contractTree_total`: `contractTree` on every
scaffold with at least two leaves over all real tensors returns the dense defining sum (no property statements).
-/
namespace Qib.TNet

/-- the root leg to which all real legs of an open bond are tracked (one entry of the axes map of `contract_tree`) -/
def axisFun (net : Net) (root : NodeInfo) (bid : Int) : Except Err Nat := do
  let some bond := dget net.bonds bid | throw Err.keyError
  let axes ← getBondAxes net bid
  let r ← (bond.tids.zip axes).foldlM (fun (acc : Option Nat) (ta : Int × Nat) => do
    if ta.1 == -1 then return acc
    match trackOf root ta with
    | none => throw Err.runtimeError
    | some r =>
      let k ← r
      match acc with
      | none => return some k
      | some k0 => if k0 != k then throw Err.runtimeError else return acc) none
  match r with | some k => pure k | none => throw Err.runtimeError

/-- one step of the numbering of the root legs by first appearance in the axes map -/
def markStep (st : List (Option Nat) × Nat) (ax : Nat) : Except Err (List (Option Nat) × Nat) := do
  match st.1[ax]? with
  | none => throw Err.indexError
  | some (some _) => return st
  | some none => return (st.1.set ax (some st.2), st.2 + 1)

theorem contractTreePrep_full {net : Net} {tree t : Tree} {perm am : List Nat}
    (h : contractTreePrep net tree = .ok (t, perm, am)) :
    ∃ toa am0 marks c, dget net.tensors (-1) = some toa ∧ toa.bids.mapM (axisFun net tree.info) = .ok am0 ∧
      am0.foldlM markStep (List.replicate tree.info.idxout.length none, 0) = .ok (marks, c) ∧
      c = tree.info.idxout.length ∧ perm = argsort (marks.map (fun o => o.getD 0)) ∧
      permuteAt tree [] perm = .ok t ∧ pick (marks.map (fun o => o.getD 0)) am0 = .ok am := by
  unfold contractTreePrep at h
  dsimp only at h
  split at h
  swap
  · simp [throw, throwThe, MonadExceptOf.throw] at h
  rename_i toa htoa
  obtain ⟨am0, ham0, h⟩ := bind_ok h
  try dsimp only at h
  obtain ⟨mc, hmc, h⟩ := bind_ok h
  obtain ⟨marks, c⟩ := mc
  try dsimp only at h
  split at h
  · simp [throw, throwThe, MonadExceptOf.throw, bind, Except.bind] at h
  rename_i hc
  obtain ⟨t', ht', h⟩ := bind_ok h
  obtain ⟨am', ham', h⟩ := bind_ok h
  simp only [pure, Except.pure, Except.ok.injEq, Prod.mk.injEq] at h
  obtain ⟨rfl, rfl, rfl⟩ := h
  exact ⟨toa, am0, marks, c, htoa, ham0, hmc, by simpa using hc, rfl, ht', ham'⟩

end Qib.TNet

namespace Qib.TNet

theorem axisFold_spec (root : NodeInfo) : ∀ (legs : List (Int × Nat)) (acc : Option Nat) (k : Nat),
    legs.foldlM (fun (acc : Option Nat) (ta : Int × Nat) => do
      if ta.1 == -1 then return acc
      match trackOf root ta with
      | none => throw Err.runtimeError
      | some r =>
        let k ← r
        match acc with
        | none => return some k
        | some k0 => if k0 != k then throw Err.runtimeError else return acc) acc = (Except.ok (some k) : Except Err _) →
    acc = some k ∨ ∃ ta ∈ legs, trackOf root ta = some (.ok k) := by
  intro legs
  induction legs with
  | nil =>
    intro acc k h
    simp only [List.foldlM_nil, pure, Except.pure, Except.ok.injEq] at h
    exact Or.inl h
  | cons ta rest ih =>
    intro acc k h
    rw [List.foldlM_cons] at h
    obtain ⟨acc', hstep, h⟩ := bind_ok h
    rcases ih acc' k h with h1 | ⟨ta', hta', h2⟩
    · subst h1
      by_cases hm : (ta.1 == -1) = true
      · simp only [hm, if_true, pure, Except.pure, Except.ok.injEq] at hstep
        exact Or.inl hstep
      · simp only [hm, Bool.false_eq_true, if_false] at hstep
        cases htr : trackOf root ta with
        | none => rw [htr] at hstep; simp [throw, throwThe, MonadExceptOf.throw] at hstep
        | some r =>
          rw [htr] at hstep
          cases r with
          | error e => simp [bind, Except.bind] at hstep
          | ok k' =>
            simp only [bind, Except.bind] at hstep
            cases acc with
            | none =>
              simp only [pure, Except.pure, Except.ok.injEq, Option.some.injEq] at hstep
              subst hstep
              exact Or.inr ⟨ta, List.mem_cons_self, htr⟩
            | some k0 =>
              simp only at hstep
              split at hstep
              · simp [throw, throwThe, MonadExceptOf.throw] at hstep
              · simp only [pure, Except.pure, Except.ok.injEq] at hstep
                exact Or.inl hstep
    · exact Or.inr ⟨ta', List.mem_cons_of_mem _ hta', h2⟩

/-- an entry of the axes map: the root leg carrying the open bond -/
theorem axisFun_spec {net : Net} (hwf : WF net) {root : NodeInfo} (hi : InfoCert net root) {bid : Int} {k : Nat}
    (h : axisFun net root bid = .ok k) : k < root.idxout.length ∧ nodeLegBond net root k = some bid := by
  unfold axisFun at h
  try dsimp only at h
  split at h
  swap
  · simp [throw, throwThe, MonadExceptOf.throw] at h
  rename_i bond hbond
  obtain ⟨axes, haxes, h⟩ := bind_ok h
  obtain ⟨r, hr, h⟩ := bind_ok h
  have hlegs : bondLegs net bid = bond.tids.zip axes := by simp [bondLegs, hbond, haxes]
  cases r with
  | none => simp [throw, throwThe, MonadExceptOf.throw] at h
  | some k' =>
    simp only [pure, Except.pure, Except.ok.injEq] at h
    subst h
    rcases axisFold_spec root _ none k' hr with h1 | ⟨ta, hta, htr⟩
    · cases h1
    · rw [trackOf_spec hi] at htr
      by_cases hm : ta ∈ root.openaxes
      · rw [if_pos hm] at htr
        have hk : trk root ta = k' := by simpa using htr
        obtain ⟨h1, h2⟩ := trk_spec hi hm
        rw [hk] at h1 h2
        have hb : legBond net ta = some bid := (mem_bondLegs_iff_legBond hwf).mp (by rw [hlegs]; exact hta)
        rw [hb] at h2
        have h3 := (hi.pairs _ (trk_mem_zip hi hm)).2.2
        simp only [hk] at h3
        exact ⟨h1, by rw [h3, ← Option.some.inj h2]⟩
      · rw [if_neg hm] at htr; cases htr

end Qib.TNet

namespace Qib.TNet

/-- invariant of the numbering of the root legs -/
structure MarkInv (N : Nat) (pre : List Nat) (st : List (Option Nat) × Nat) : Prop where
  len : st.1.length = N
  cnt : st.2 = st.1.countP Option.isSome
  lt : ∀ (ax r : Nat), st.1[ax]? = some (some r) → r < st.2
  inj : ∀ (ax ax' r : Nat), st.1[ax]? = some (some r) → st.1[ax']? = some (some r) → ax = ax'
  src : ∀ (ax r : Nat), st.1[ax]? = some (some r) → ax ∈ pre
  dst : ∀ ax ∈ pre, ∃ r, st.1[ax]? = some (some r)

theorem mark_inv (N : Nat) (am0 : List Nat) {res : List (Option Nat) × Nat}
    (h : am0.foldlM markStep (List.replicate N none, 0) = .ok res) : MarkInv N am0 res := by
  have := foldlM_ok_inv markStep (MarkInv N) am0 ?_ am0 (fun _ h => h) [] (List.replicate N none, 0) res ?_ h
  · simpa using this
  · intro pre st ax st' _ hi hs
    obtain ⟨marks, c⟩ := st
    unfold markStep at hs
    simp only at hs hi
    cases hm : marks[ax]? with
    | none => rw [hm] at hs; simp [throw, throwThe, MonadExceptOf.throw] at hs
    | some o =>
      rw [hm] at hs
      cases o with
      | some r0 =>
        simp only [pure, Except.pure, Except.ok.injEq] at hs
        subst hs
        refine ⟨hi.len, hi.cnt, hi.lt, hi.inj, fun a r h => List.mem_append_left _ (hi.src a r h), ?_⟩
        intro a ha
        rcases List.mem_append.mp ha with ha | ha
        · exact hi.dst a ha
        · simp only [List.mem_singleton] at ha; subst ha; exact ⟨r0, hm⟩
      | none =>
        simp only [pure, Except.pure, Except.ok.injEq] at hs
        subst hs
        have hax : ax < marks.length := by
          by_contra hc; rw [List.getElem?_eq_none (by omega)] at hm; cases hm
        have hget : ∀ a, (marks.set ax (some c))[a]? = if ax = a then some (some c) else marks[a]? := by
          intro a
          rw [List.getElem?_set]
          by_cases he : ax = a
          · simp [he]; subst he; exact hax
          · simp [he]
        refine ⟨by simp [hi.len], ?_, ?_, ?_, ?_, ?_⟩
        · simp only
          rw [List.countP_set hax]
          have : marks[ax] = none := by
            rw [List.getElem?_eq_getElem hax] at hm; exact Option.some.inj hm
          simp only [this, Option.isSome_none, Bool.false_eq_true, if_false, Nat.sub_zero, Option.isSome_some, if_true, Nat.add_right_cancel_iff]
          exact hi.cnt
        · intro a r hr
          simp only at hr ⊢
          rw [hget] at hr
          by_cases he : ax = a
          · rw [if_pos he] at hr
            have : c = r := by simpa using hr
            omega
          · rw [if_neg he] at hr
            have := hi.lt a r hr
            simp only at this; omega
        · intro a a' r hr hr'
          simp only at hr hr'
          rw [hget] at hr hr'
          by_cases he : ax = a
          · rw [if_pos he] at hr
            have hcr : c = r := by simpa using hr
            by_cases he' : ax = a'
            · rw [← he, ← he']
            · rw [if_neg he'] at hr'
              have := hi.lt a' r hr'
              simp only at this; omega
          · rw [if_neg he] at hr
            by_cases he' : ax = a'
            · rw [if_pos he'] at hr'
              have hcr : c = r := by simpa using hr'
              have := hi.lt a r hr
              simp only at this; omega
            · rw [if_neg he'] at hr'
              exact hi.inj a a' r hr hr'
        · intro a r hr
          simp only at hr
          rw [hget] at hr
          by_cases he : ax = a
          · subst he; simp
          · rw [if_neg he] at hr
            exact List.mem_append_left _ (hi.src a r hr)
        · intro a ha
          simp only
          rw [hget]
          rcases List.mem_append.mp ha with ha | ha
          · by_cases he : ax = a
            · exact ⟨c, by rw [if_pos he]⟩
            · rw [if_neg he]; exact hi.dst a ha
          · simp only [List.mem_singleton] at ha
            exact ⟨c, by rw [if_pos ha.symm]⟩
  · refine ⟨by simp, ?_, ?_, ?_, ?_, by simp⟩
    · simp only
      symm
      rw [List.countP_eq_zero]
      intro a ha
      rw [List.mem_replicate] at ha
      simp [ha.2]
    · intro ax r h
      simp only [List.getElem?_replicate] at h
      split at h <;> simp at h
    · intro ax ax' r h
      simp only [List.getElem?_replicate] at h
      split at h <;> simp at h
    · intro ax r h
      simp only [List.getElem?_replicate] at h
      split at h <;> simp at h

theorem perm_range_of_nodup_lt {l : List Nat} (hn : l.Nodup) (hlt : ∀ x ∈ l, x < l.length) :
    l.Perm (List.range l.length) := by
  apply List.Subperm.perm_of_length_le
  · exact List.subperm_of_subset hn (fun x hx => List.mem_range.mpr (hlt x hx))
  · simp

/-- when all `N` legs have been numbered: the numbering is a permutation and every leg occurs in the axes map -/
theorem mark_final {N : Nat} {am0 : List Nat} {marks : List (Option Nat)} (hi : MarkInv N am0 (marks, N)) :
    (marks.map (fun o => o.getD 0)).Perm (List.range N) ∧ (marks.map (fun o => o.getD 0)).length = N ∧
    ∀ ax, ax < N → ax ∈ am0 := by
  have hall : ∀ o ∈ marks, Option.isSome o = true := by
    have := hi.cnt
    simp only at this
    rw [← hi.len] at this
    exact List.countP_eq_length.mp this.symm
  have hmk : ∀ ax, ax < N → ∃ r, marks[ax]? = some (some r) := by
    intro ax hax
    have hax' : ax < marks.length := by rw [hi.len]; exact hax
    have := hall _ (List.getElem_mem hax')
    obtain ⟨r, hr⟩ := Option.isSome_iff_exists.mp this
    exact ⟨r, by rw [List.getElem?_eq_getElem hax', hr]⟩
  have hlen : (marks.map (fun o => o.getD 0)).length = N := by simp [hi.len]
  refine ⟨?_, hlen, fun ax hax => ?_⟩
  · have := perm_range_of_nodup_lt (l := marks.map (fun o => o.getD 0)) ?_ ?_
    · rwa [hlen] at this
    · rw [List.Nodup, List.pairwise_iff_getElem]
      intro i j hi' hj' hij heq
      have hiN : i < N := by rw [← hlen]; exact hi'
      have hjN : j < N := by rw [← hlen]; exact hj'
      obtain ⟨r, hr⟩ := hmk i hiN
      obtain ⟨r', hr'⟩ := hmk j hjN
      have hi2 : i < marks.length := by rw [hi.len]; exact hiN
      have hj2 : j < marks.length := by rw [hi.len]; exact hjN
      simp only [List.getElem_map] at heq
      rw [List.getElem?_eq_getElem hi2] at hr
      rw [List.getElem?_eq_getElem hj2] at hr'
      rw [Option.some.inj hr, Option.some.inj hr'] at heq
      simp only [Option.getD_some] at heq
      subst heq
      have := hi.inj i j r (by rw [List.getElem?_eq_getElem hi2, Option.some.inj hr])
        (by rw [List.getElem?_eq_getElem hj2, Option.some.inj hr'])
      omega
    · intro x hx
      obtain ⟨o, ho, rfl⟩ := List.mem_map.mp hx
      obtain ⟨ax, hax, rfl⟩ := List.getElem_of_mem ho
      obtain ⟨r, hr⟩ := Option.isSome_iff_exists.mp (hall _ (List.getElem_mem hax))
      rw [hr, hlen]
      simp only [Option.getD_some]
      have := hi.lt ax r (by rw [List.getElem?_eq_getElem hax, hr])
      exact this
  · obtain ⟨r, hr⟩ := hmk ax hax
    exact hi.src ax r hr

end Qib.TNet

namespace Qib.TNet

theorem rootOK_of_cert {net : Net} {v : STensor} (hv : dget net.tensors (-1) = some v) {tree : Tree} {am : List Nat}
    (h : RootCert net v tree am) : rootOK net tree am = true := by
  unfold rootOK
  rw [hv]
  simp only [Bool.and_eq_true, nodupB_iff, beq_iff_eq, List.all_eq_true, List.mem_range]
  refine ⟨⟨⟨⟨h.leavesNodup, h.leavesEq⟩, h.amlen⟩, ?_⟩, ?_⟩
  · intro i hi
    obtain ⟨k, hk1, hk2⟩ := h.axis i hi
    rw [hk1]
    simp only [hk2, List.getElem?_eq_getElem hi, beq_self_eq_true]
  · intro k hk
    obtain ⟨b, hb1, hb2⟩ := h.legs k hk
    rw [hb1]
    exact List.contains_iff_mem.mpr hb2

/-- **the tree handed to the evaluation by `contract_tree` is certified**: after the axes-map computation and the root
permutation of `contractTreePrep`, every node passes its certificate and the root / axes map pass `rootOK` -/
theorem prep_cert {net : Net} (hwf : WF net) {v : STensor} (hv : dget net.tensors (-1) = some v)
    {i0 : NodeInfo} {tL tR : Tree} (hc : NodeCert net i0 tL.info tR.info)
    (hokL : ∀ x ∈ treeOKList net tL, x = true) (hokR : ∀ x ∈ treeOKList net tR, x = true)
    {t : Tree} {perm am : List Nat} (hprep : contractTreePrep net (.node i0 tL tR) = .ok (t, perm, am))
    (hnd : (treeLeaves (Tree.node i0 tL tR)).Nodup)
    (hleaves : isort (treeLeaves (Tree.node i0 tL tR)) = (isort (dkeys net.tensors)).erase (-1)) :
    (∀ x ∈ treeOKList net t, x = true) ∧ rootOK net t am = true := by
  obtain ⟨toa, am0, marks, c, htoa, ham0, hmc, hcN, rfl, hperm, hpick⟩ := contractTreePrep_full hprep
  rw [hv] at htoa
  cases htoa
  simp only [Tree.info] at ham0 hmc hcN
  subst hcN
  set N := i0.idxout.length with hN
  obtain ⟨hsp, hslen, hall⟩ := mark_final (mark_inv N am0 hmc)
  set sidx := marks.map (fun o => o.getD 0) with hsidx
  have hsp' : sidx.Perm (List.range sidx.length) := by rw [hslen]; exact hsp
  obtain ⟨hpp, _⟩ := argsort_spec hsp'
  obtain ⟨ilen, ilt, isi, iis⟩ := argsort_inverse hsp'
  set perm := argsort sidx with hpermdef
  have hplen : perm.length = N := by rw [ilen, hslen]
  have hpp' : perm.Perm (List.range perm.length) := by rw [ilen]; exact hpp
  -- the permuted root
  simp only [permuteAt, bind, Except.bind] at hperm
  cases hpi : permuteInfo i0 perm with
  | error e => rw [hpi] at hperm; cases hperm
  | ok i' =>
  rw [hpi] at hperm
  simp only [pure, Except.pure, Except.ok.injEq] at hperm
  subst hperm
  obtain ⟨hc', hlegB⟩ := permuteInfo_cert hc hpp' hpi
  have hN' : i'.idxout.length = N := by
    rw [(permuteInfo_full hpi).2]; simp [permInfo, permL, hplen]
  refine ⟨?_, ?_⟩
  · intro x hx
    simp only [treeOKList, List.mem_cons, List.mem_append] at hx
    rcases hx with rfl | hx | hx
    · exact nodeOK_of_cert hc'
    · exact hokL x hx
    · exact hokR x hx
  · apply rootOK_of_cert hv
    have hfam0 := mapM_ok_inv ham0
    have ham0len : am0.length = v.bids.length := hfam0.length_eq.symm
    have hax0 : ∀ i (hi : i < v.bids.length), ∃ (hi' : i < am0.length), am0[i] < N ∧
        nodeLegBond net i0 am0[i] = some v.bids[i] := by
      intro i hi
      have hi' : i < am0.length := by omega
      have := (List.forall₂_iff_get.mp hfam0).2 i hi hi'
      simp only [List.get_eq_getElem] at this
      exact ⟨hi', axisFun_spec hwf hc.iN this⟩
    obtain ⟨ham, hamlt⟩ := pick_inv hpick
    have hlegB0 : ∀ a, a < N → legB net i' (sidx[a]?.getD 0) = legB net i0 a := by
      intro a ha
      have ha' : a < sidx.length := by omega
      have hs1 : sidx[a] < N := by
        have := List.mem_range.mp (hsp.mem_iff.mp (List.getElem_mem ha')); exact this
      rw [List.getElem?_eq_getElem ha', Option.getD_some, hlegB _ (by rw [hN']; exact hs1)]
      have := iis a ha'
      have h2 : sidx[a] < perm.length := by omega
      rw [List.getElem?_eq_getElem h2] at this ⊢
      simp only [Option.getD_some] at this ⊢
      rw [this]
    have hnlb : ∀ k, k < N → nodeLegBond net i' k = some (legB net i' k) := by
      intro k hk
      obtain ⟨oa, hm, _⟩ := hc'.iN.leg (k := k) (by rw [hN']; exact hk)
      exact (hc'.iN.pairs _ hm).2.2
    refine ⟨hnd, hleaves, by rw [ham]; simp [permL, ham0len], ?_, ?_⟩
    · intro i hi
      obtain ⟨hi', h1, h2⟩ := hax0 i hi
      have hk : sidx[am0[i]]?.getD 0 < N := by
        have ha' : am0[i] < sidx.length := by omega
        rw [List.getElem?_eq_getElem ha', Option.getD_some]
        exact List.mem_range.mp (hsp.mem_iff.mp (List.getElem_mem ha'))
      refine ⟨sidx[am0[i]]?.getD 0, by rw [ham]; simp [permL, hi'], ?_⟩
      simp only [Tree.info]
      rw [hnlb _ hk, hlegB0 _ h1]
      simp [legB, h2]
    · intro k hk
      simp only [Tree.info] at hk ⊢
      rw [hN'] at hk
      refine ⟨legB net i' k, hnlb k hk, ?_⟩
      rw [hlegB k (by rw [hN']; exact hk)]
      have hkp : k < perm.length := by omega
      rw [List.getElem?_eq_getElem hkp, Option.getD_some]
      have ha : perm[k] < N := by have := ilt k hkp; omega
      obtain ⟨i, hi, hie⟩ := List.getElem_of_mem (hall _ ha)
      obtain ⟨_, _, h2⟩ := hax0 i (by omega)
      rw [← hie]
      simp only [legB, h2, Option.getD_some]
      exact List.getElem_mem _

end Qib.TNet

namespace Qib.TNet

/-- the tensor ids at the leaves of a scaffold, left to right -/
def scaffoldLeaves : Scaffold → List Int
  | .leaf t => [t]
  | .node l r => scaffoldLeaves l ++ scaffoldLeaves r
  | .bad => []

theorem buildTree_leaves {net : Net} : ∀ (s : Scaffold) (k : Int) (t : Tree), buildTree net s k = .ok t →
    treeLeaves t = scaffoldLeaves s := by
  intro s
  induction s with
  | bad => intro k t h; simp [buildTree] at h
  | leaf tid =>
    intro k t h
    obtain ⟨_, T, _, rfl⟩ := buildTree_leaf_inv h
    rfl
  | node sl sr ihl ihr =>
    intro k t h
    obtain ⟨tL, tR, i, k', hL, hR, rfl⟩ := buildTree_node_inv h
    simp only [treeLeaves, scaffoldLeaves, ihl k tL hL, ihr k' tR hR]

/-- the scaffold is a binary tree over all real tensors, each exactly once -/
def ScaffoldFull (net : Net) (s : Scaffold) : Prop :=
  (scaffoldLeaves s).Nodup ∧ isort (scaffoldLeaves s) = (isort (dkeys net.tensors)).erase (-1)

/-- the tree evaluated by `contractTree` is always certified (scaffolds with at least two leaves covering all tensors) -/
theorem contractTree_certified {net : Net} {data : Data} (hrep : RepOK net)
    (hcd : isConsistentData net data = .ok true) {sl sr : Scaffold} {r : DT Int} {am : List Nat} {t : Tree}
    (hct : contractTree net data (.node sl sr) = .ok (r, am, t)) (hfull : ScaffoldFull net (.node sl sr)) :
    (∀ x ∈ treeOKList net t, x = true) ∧ rootOK net t am = true := by
  have hwf : WF net := wf_of_consistent hrep (isConsistentData_ok hcd).1
  obtain ⟨v, hvm⟩ := exists_mem_of_mem_dkeys hwf.virt
  have hv := dget_of_mem hwf.tnodup hvm
  simp only at hv
  have hct' := hct
  unfold contractTree at hct
  simp only [bind, Except.bind] at hct
  split at hct
  · cases hct
  rename_i tree0 h0
  split at hct
  · cases hct
  rename_i prep hprep
  obtain ⟨t', perm, am'⟩ := prep
  simp only at hct
  split at hct
  · cases hct
  split at hct
  · cases hct
  rename_i r' hr'
  simp only [pure, Except.pure, Except.ok.injEq, Prod.mk.injEq] at hct
  obtain ⟨rfl, rfl, rfl⟩ := hct
  unfold buildContractionTree at h0
  have hok0 := (buildTree_ok hwf _ _ tree0 h0).1
  have hlv := buildTree_leaves _ _ tree0 h0
  obtain ⟨tL, tR, i0, k', hL, hR, rfl⟩ := buildTree_node_inv h0
  simp only [treeOKList, List.mem_cons, List.mem_append] at hok0
  have hc : NodeCert net i0 tL.info tR.info := nodeOK_cert (hok0 _ (Or.inl rfl))
  exact prep_cert hwf hv hc (fun x hx => hok0 x (Or.inr (Or.inl hx))) (fun x hx => hok0 x (Or.inr (Or.inr hx)))
    hprep (by rw [hlv]; exact hfull.1) (by rw [hlv]; exact hfull.2)

/-- **`contract_tree` returns the defining sum, for every scaffold** (no certificate hypothesis): dense form -/
theorem contractTree_total {net : Net} {data : Data} (hrep : RepOK net)
    (hcd : isConsistentData net data = .ok true) {sl sr : Scaffold} {r : DT Int} {am : List Nat} {t : Tree}
    (hct : contractTree net data (.node sl sr) = .ok (r, am, t)) (hfull : ScaffoldFull net (.node sl sr)) :
    toFullTensor r am = fullTensor net (dataAcc data) := by
  obtain ⟨hok, hroot⟩ := contractTree_certified hrep hcd hct hfull
  exact contractTree_dense hrep hcd hct hok hroot

end Qib.TNet
