import QibProofs.Lemmas.TNetTreePerm
/-!
Helper lemmas for C07, part 13: `permuteAt` (`ContractionTreeNode.permute_axes`) followed by evaluation, with the
caller's leaf-transposition protocol (`permDict`): the value is transposed when the root is re-ordered and unchanged
otherwise (`permuteAt_eval`) (no property statements).
-/
namespace Qib.TNet
variable {α : Type} [CommSemiring α]

/-- tensor id of the leaf reached by `path` (`none` for an inner node or an invalid path) -/
def leafAt : Tree → List Bool → Option Int
  | .leaf i, [] => some i.tid
  | .leaf _, _ :: _ => none
  | .node _ _ _, [] => none
  | .node _ l r, b :: p => if b then leafAt r p else leafAt l p

/-- the caller's protocol of `tests/test_tensor_network.py` and of the harness: after `permute_axes(sort)` on a LEAF the
stored tensor of that leaf is transposed alongside; nothing is done for an inner node -/
def permDict (dict : Int → Option (DT α)) (t : Tree) (path : List Bool) (sort : List Nat) : Int → Option (DT α) :=
  match leafAt t path with
  | some tid => fun x => if x = tid then (dict tid).map (fun d => d.transpose sort) else dict x
  | none => dict

omit [CommSemiring α] in
theorem leafAt_mem : ∀ (t : Tree) (path : List Bool) (tid : Int), leafAt t path = some tid → tid ∈ treeLeaves t := by
  intro t
  induction t with
  | leaf i =>
    intro path tid h
    cases path with
    | nil => simp only [leafAt, Option.some.injEq] at h; simp [treeLeaves, h]
    | cons b p => simp [leafAt] at h
  | node n l r ihl ihr =>
    intro path tid h
    cases path with
    | nil => simp [leafAt] at h
    | cons b p =>
      simp only [leafAt] at h
      simp only [treeLeaves, List.mem_append]
      cases b with
      | true => exact Or.inr (ihr p tid (by simpa using h))
      | false => exact Or.inl (ihl p tid (by simpa using h))

theorem treeEval_congr (dict dict' : Int → Option (DT α)) : ∀ t : Tree, (∀ tid ∈ treeLeaves t, dict tid = dict' tid) →
    treeEval dict t = treeEval dict' t := by
  intro t
  induction t with
  | leaf i => intro h; simp only [treeEval]; rw [h i.tid (by simp [treeLeaves])]
  | node n l r ihl ihr =>
    intro h
    simp only [treeEval]
    rw [ihl (fun tid ht => h tid (by simp [treeLeaves, ht])), ihr (fun tid ht => h tid (by simp [treeLeaves, ht]))]

theorem permDict_off (dict : Int → Option (DT α)) (t : Tree) (path : List Bool) (sort : List Nat) (x : Int)
    (hx : x ∉ treeLeaves t) : permDict dict t path sort x = dict x := by
  unfold permDict
  cases h : leafAt t path with
  | none => rfl
  | some tid =>
    simp only
    have : x ≠ tid := by rintro rfl; exact hx (leafAt_mem t path x h)
    simp [this]

theorem permuteInfo_inv {n n' : NodeInfo} {sort : List Nat} (h : permuteInfo n sort = .ok n') :
    sort.length = n.idxout.length ∧ n'.idxout = permL n.idxout sort ∧ n'.idxL = n.idxL ∧ n'.idxR = n.idxR ∧
      n'.tid = n.tid := by
  unfold permuteInfo at h
  simp only [bind, Except.bind] at h
  split at h
  · simp [throw, throwThe, MonadExceptOf.throw] at h
  rename_i hlen
  split at h
  · cases h
  rename_i io hio
  split at h
  · cases h
  simp only [pure, Except.pure, Except.ok.injEq] at h
  subst h
  exact ⟨by simpa using hlen, (pick_inv hio).1, rfl, rfl, rfl⟩

/-- the rank of the value of a subtree is the number of output labels of its root -/
theorem treeEval_rank (dict : Int → Option (DT α)) (t : Tree)
    (hleaf : ∀ i ∈ leafInfos t, ∀ d, dict i.tid = some d → d.shape.length = i.idxout.length) {r : DT α}
    (hr : treeEval dict t = .ok r) : r.shape.length = t.info.idxout.length := by
  cases t with
  | leaf i =>
    simp only [treeEval] at hr
    cases hd : dict i.tid with
    | none => rw [hd] at hr; cases hr
    | some d =>
      rw [hd] at hr
      cases hr
      exact hleaf i (by simp [leafInfos]) r hd
  | node n l r' =>
    simp only [treeEval, bind, Except.bind] at hr
    split at hr
    · cases hr
    split at hr
    · cases hr
    obtain ⟨_, _, _, _, rfl⟩ := einsumEval_ok hr
    simp [DT.ofFn, Tree.info]

end Qib.TNet

namespace Qib.TNet
variable {α : Type} [CommSemiring α]

omit [CommSemiring α] in
theorem permuteAt_root_len {t t' : Tree} {sort : List Nat} (h : permuteAt t [] sort = .ok t') :
    sort.length = t.info.idxout.length := by
  cases t with
  | leaf i =>
    simp only [permuteAt, bind, Except.bind] at h
    split at h
    · cases h
    · rename_i i' hi'; exact (permuteInfo_inv hi').1
  | node i l r =>
    simp only [permuteAt, bind, Except.bind] at h
    split at h
    · cases h
    · rename_i i' hi'; exact (permuteInfo_inv hi').1

/-- **`permute_axes` does not change the contraction result**: re-ordering the axes of the node at `path` by the
permutation `sort` – the caller transposing the stored tensor when the node is a leaf – transposes the value of the tree
when the node is the root and leaves it unchanged otherwise. -/
theorem permuteAt_eval (dict : Int → Option (DT α)) (sort : List Nat) (hsort : sort.Perm (List.range sort.length)) :
    ∀ (t : Tree) (path : List Bool) (t' : Tree) (r : DT α), permuteAt t path sort = .ok t' → (treeLeaves t).Nodup →
      (∀ i ∈ leafInfos t, ∀ d, dict i.tid = some d → d.shape.length = i.idxout.length) → treeEval dict t = .ok r →
      treeEval (permDict dict t path sort) t' = .ok (if path = [] then r.transpose sort else r) := by
  intro t
  induction t with
  | leaf i =>
    intro path t' r hp _ _ hr
    cases path with
    | cons b p => simp [permuteAt] at hp
    | nil =>
      simp only [permuteAt, bind, Except.bind] at hp
      split at hp
      · cases hp
      rename_i i' hi'
      simp only [pure, Except.pure, Except.ok.injEq] at hp
      subst hp
      obtain ⟨_, _, _, _, htid⟩ := permuteInfo_inv hi'
      simp only [treeEval] at hr
      cases hd : dict i.tid with
      | none => rw [hd] at hr; cases hr
      | some d =>
        rw [hd] at hr
        cases hr
        simp [treeEval, permDict, leafAt, htid, hd]
  | node n l r ihl ihr =>
    intro path t' res hp hnd hleaf hr
    simp only [treeLeaves] at hnd
    have hndl := (List.nodup_append.mp hnd).1
    have hndr := (List.nodup_append.mp hnd).2.1
    have hdisj : ∀ x, x ∈ treeLeaves l → x ∉ treeLeaves r := fun x hx hx' =>
      (List.nodup_append.mp hnd).2.2 x hx x hx' rfl
    have hleafl : ∀ i ∈ leafInfos l, ∀ d, dict i.tid = some d → d.shape.length = i.idxout.length :=
      fun i hi => hleaf i (by simp [leafInfos, hi])
    have hleafr : ∀ i ∈ leafInfos r, ∀ d, dict i.tid = some d → d.shape.length = i.idxout.length :=
      fun i hi => hleaf i (by simp [leafInfos, hi])
    simp only [treeEval, bind, Except.bind] at hr
    cases hL : treeEval dict l with
    | error e => rw [hL] at hr; cases hr
    | ok tL =>
    rw [hL] at hr
    cases hR : treeEval dict r with
    | error e => rw [hR] at hr; cases hr
    | ok tR =>
    rw [hR] at hr
    simp only at hr
    obtain ⟨hlens, _, _, _, _⟩ := einsumEval_ok hr
    have hlenL : n.idxL.length = tL.shape.length := hlens (tL, n.idxL) (by simp)
    have hlenR : n.idxR.length = tR.shape.length := hlens (tR, n.idxR) (by simp)
    cases path with
    | nil =>
      simp only [permuteAt, bind, Except.bind] at hp
      split at hp
      · cases hp
      rename_i n' hn'
      simp only [pure, Except.pure, Except.ok.injEq] at hp
      subst hp
      obtain ⟨hlen, hout, hidxL, hidxR, _⟩ := permuteInfo_inv hn'
      have hpd : permDict dict (Tree.node n l r) [] sort = dict := by simp [permDict, leafAt]
      rw [hpd]
      simp only [treeEval, bind, Except.bind, hL, hR, hidxL, hidxR, hout, if_true]
      exact einsumEval_perm_out hr (by rw [← hlen]; exact hsort)
    | cons b rest =>
      simp only [if_neg (List.cons_ne_nil b rest)]
      cases b with
      | true =>
        have hpd : permDict dict (Tree.node n l r) (true :: rest) sort = permDict dict r rest sort := by
          simp [permDict, leafAt]
        rw [hpd]
        simp only [permuteAt, bind, Except.bind, if_true] at hp
        cases hr' : permuteAt r rest sort with
        | error e => rw [hr'] at hp; cases hp
        | ok r' =>
        rw [hr'] at hp
        simp only at hp
        have ih := ihr rest r' tR hr' hndr hleafr hR
        have hlsame : treeEval (permDict dict r rest sort) l = .ok tL := by
          rw [← hL]
          apply treeEval_congr
          intro tid htid
          exact permDict_off dict r rest sort tid (hdisj tid htid)
        by_cases hrest : rest = []
        · subst hrest
          simp only [List.isEmpty_nil, if_true] at hp
          split at hp
          · cases hp
          rename_i ir hir
          simp only [pure, Except.pure, Except.ok.injEq] at hp
          subst hp
          rw [if_pos rfl] at ih
          simp only [treeEval, bind, Except.bind, hlsame, ih]
          rw [(pick_inv hir).1]
          have hsl : sort.length = n.idxR.length := by
            rw [permuteAt_root_len hr', ← treeEval_rank dict r hleafr hR, hlenR]
          have := einsumEval_perm_arg (pre := [(tL, n.idxL)]) (post := []) (t := tR) (ls := n.idxR) hr
            (sort := sort) (by rw [← hsl]; exact hsort)
          simpa using this
        · have hne : rest.isEmpty = false := by cases rest <;> simp_all
          simp only [hne, Bool.false_eq_true, if_false, pure, Except.pure, Except.ok.injEq] at hp
          subst hp
          rw [if_neg hrest] at ih
          simp only [treeEval, bind, Except.bind, hlsame, ih]
          exact hr
      | false =>
        have hpd : permDict dict (Tree.node n l r) (false :: rest) sort = permDict dict l rest sort := by
          simp [permDict, leafAt]
        rw [hpd]
        simp only [permuteAt, bind, Except.bind, Bool.false_eq_true, if_false] at hp
        cases hl' : permuteAt l rest sort with
        | error e => rw [hl'] at hp; cases hp
        | ok l' =>
        rw [hl'] at hp
        simp only at hp
        have ih := ihl rest l' tL hl' hndl hleafl hL
        have hrsame : treeEval (permDict dict l rest sort) r = .ok tR := by
          rw [← hR]
          apply treeEval_congr
          intro tid htid
          exact permDict_off dict l rest sort tid (fun h => hdisj tid h htid)
        by_cases hrest : rest = []
        · subst hrest
          simp only [List.isEmpty_nil, if_true] at hp
          split at hp
          · cases hp
          rename_i il hil
          simp only [pure, Except.pure, Except.ok.injEq] at hp
          subst hp
          rw [if_pos rfl] at ih
          simp only [treeEval, bind, Except.bind, hrsame, ih]
          rw [(pick_inv hil).1]
          have hsl : sort.length = n.idxL.length := by
            rw [permuteAt_root_len hl', ← treeEval_rank dict l hleafl hL, hlenL]
          have := einsumEval_perm_arg (pre := []) (post := [(tR, n.idxR)]) (t := tL) (ls := n.idxL) hr
            (sort := sort) (by rw [← hsl]; exact hsort)
          simpa using this
        · have hne : rest.isEmpty = false := by cases rest <;> simp_all
          simp only [hne, Bool.false_eq_true, if_false, pure, Except.pure, Except.ok.injEq] at hp
          subst hp
          rw [if_neg hrest] at ih
          simp only [treeEval, bind, Except.bind, hrsame, ih]
          exact hr

end Qib.TNet
