import QibProofs.Lemmas.PauliMat
import QibProofs.Lemmas.EncodeParityBasis
/-!
C13, spectral part — helper lemmas, part 7: conjugation of Pauli-string matrices by a *monomial* unitary
`W |c⟩ = (-i)^{f(c)} |π(c)⟩` (`π` an involution of the basis states), in "exponent form".

* `pexp P n r` : the exponent of `-i` of the only non-zero entry of row `r` of `P.mat n`
  (`P.mat n r c = (-i)^{pexp P n r}` if `r = c xor x`, else `0`: `mat_entry`);
* `mono π f`    : the monomial matrix; unitary for an involution `π` (`mono_unitary`);
* `mono_conj_ps`: `W · P.mat · Wᴴ = P'.mat` follows from two statements about basis states and exponents modulo 4 that are
  *decidable* for a concrete register size — this is how the explicit Clifford unitary of the 2 × 2 plaquette is verified.
-/
set_option linter.unusedSimpArgs false
set_option linter.unusedVariables false
open Complex Matrix
namespace Qib.Compact
open Qib.Pauli

/-- exponent of `-i` of the non-zero entry in row `r` -/
def pexp (P : PS) (n : ℕ) (r : Fin n → Bool) : ℕ :=
  P.q.val + ∑ k : Fin n, (P.zf k && P.xf k).toNat + 2 * ∑ k : Fin n, (P.zf k && r k).toNat

theorem neg_one_eq_negI_sq : (-1 : ℂ) = (-I) ^ 2 := by simp [pow_two]

/-- a Pauli string is a signed permutation matrix: the entry `(r, c)` is `(-i)^{pexp r}` if `r = c xor x`, else `0` -/
theorem mat_entry (n : ℕ) (P : PS) (r c : Fin n → Bool) :
    P.mat n r c = if (∀ k, r k = xor (c k) (P.xf k)) then (-I) ^ pexp P n r else 0 := by
  simp only [PS.mat, Matrix.smul_apply, smul_eq_mul]
  rw [Encode.tens_letter_apply (fun k : Fin n => P.zf k) (fun k : Fin n => P.xf k) r c]
  split
  · have h1 : ∀ k : Fin n, ((-I) ^ (P.zf k && P.xf k).toNat * (if (P.zf k && r k) = true then (-1 : ℂ) else 1)) =
        (-I) ^ ((P.zf k && P.xf k).toNat + 2 * (P.zf k && r k).toNat) := by
      intro k
      cases h : (P.zf k && r k) <;> simp [pow_add, pow_mul, pow_two]
    simp only [h1, Finset.prod_pow_eq_pow_sum, ← pow_add, pexp, Finset.sum_add_distrib, ← Finset.mul_sum]
    congr 1
    ring
  · simp

/-- the monomial matrix `|π c⟩ (-i)^{f c} ⟨c|` -/
noncomputable def mono {n : ℕ} (π : (Fin n → Bool) → (Fin n → Bool)) (f : (Fin n → Bool) → ℕ) :
    Matrix (Fin n → Bool) (Fin n → Bool) ℂ := fun r c => if r = π c then (-I) ^ f c else 0

theorem negI_pow_conj (m : ℕ) : star ((-I : ℂ) ^ m) = (-I) ^ (3 * m) := by
  rw [star_pow, pow_mul]
  congr 1
  simp [pow_succ]

theorem negI_pow_mul_conj (m : ℕ) : (-I) ^ (3 * m) * (-I) ^ m = 1 := by
  rw [← pow_add, show 3 * m + m = 4 * m by ring, pow_mul, negI_pow_four, one_pow]

variable {n : ℕ}

theorem mono_unitary (π : (Fin n → Bool) → (Fin n → Bool)) (hπ : Function.Involutive π) (f : (Fin n → Bool) → ℕ) :
    (mono π f)ᴴ * mono π f = 1 ∧ mono π f * (mono π f)ᴴ = 1 := by
  constructor
  · ext r c
    simp only [Matrix.mul_apply, Matrix.conjTranspose_apply, mono, Matrix.one_apply]
    rw [Finset.sum_eq_single (π r)]
    · by_cases h : r = c
      · subst h
        simp only [if_true, negI_pow_conj]
        exact negI_pow_mul_conj _
      · have : ¬ π r = π c := fun e => h (hπ.injective e)
        simp [h, this]
    · intro a _ ha; simp [ha]
    · intro h; exact absurd (Finset.mem_univ _) h
  · ext r c
    simp only [Matrix.mul_apply, Matrix.conjTranspose_apply, mono, Matrix.one_apply]
    rw [Finset.sum_eq_single (π r)]
    · by_cases h : r = c
      · subst h
        simp only [hπ r, if_true, negI_pow_conj]
        rw [mul_comm]; exact negI_pow_mul_conj _
      · have : ¬ c = π (π r) := fun e => h (by rw [hπ r] at e; exact e.symm)
        simp only [if_true, if_neg this, if_neg h]
        simp
    · intro a _ ha
      have : ¬ r = π a := fun e => ha (by rw [e, hπ a])
      simp [this]
    · intro h; exact absurd (Finset.mem_univ _) h

/-- conjugation by a monomial matrix, entrywise -/
theorem mono_conj_apply (π : (Fin n → Bool) → (Fin n → Bool)) (hπ : Function.Involutive π) (f : (Fin n → Bool) → ℕ)
    (A : Matrix (Fin n → Bool) (Fin n → Bool) ℂ) (r c : Fin n → Bool) :
    (mono π f * A * (mono π f)ᴴ) r c = (-I) ^ f (π r) * A (π r) (π c) * (-I) ^ (3 * f (π c)) := by
  simp only [Matrix.mul_apply, Matrix.conjTranspose_apply, mono]
  rw [Finset.sum_eq_single (π c)]
  · rw [Finset.sum_eq_single (π r)]
    · simp only [hπ r, hπ c, if_true, negI_pow_conj]
    · intro a _ ha
      have : ¬ r = π a := fun e => ha (by rw [e, hπ a])
      simp [this]
    · intro h; exact absurd (Finset.mem_univ _) h
  · intro b _ hb
    have : ¬ c = π b := fun e => hb (by rw [e, hπ b])
    simp [this]
  · intro h; exact absurd (Finset.mem_univ _) h

/-- **conjugation of a string by a monomial unitary**, from two decidable conditions: `π` shifts by the `x`-part, and the exponents
of `-i` match modulo 4 -/
theorem mono_conj_ps (π : (Fin n → Bool) → (Fin n → Bool)) (hπ : Function.Involutive π) (f : (Fin n → Bool) → ℕ) (P P' : PS)
    (H1 : ∀ r : Fin n → Bool, π (fun k => xor (r k) (P'.xf k)) = fun k => xor (π r k) (P.xf k))
    (H2 : ∀ r : Fin n → Bool, (f (π r) + 3 * f (π (fun k => xor (r k) (P'.xf k))) + pexp P n (π r)) % 4 = pexp P' n r % 4) :
    mono π f * P.mat n * (mono π f)ᴴ = P'.mat n := by
  ext r c
  rw [mono_conj_apply π hπ f, mat_entry, mat_entry]
  by_cases h : ∀ k, r k = xor (c k) (P'.xf k)
  · have hc : c = fun k => xor (r k) (P'.xf k) := by
      funext k; rw [h k]; cases c k <;> cases P'.xf k <;> rfl
    have h1 : ∀ k, π r k = xor (π c k) (P.xf k) := by
      intro k
      have := congrFun (H1 r) k
      rw [← hc] at this
      rw [this]; cases π r k <;> cases P.xf k <;> rfl
    rw [if_pos h, if_pos h1, ← pow_add, ← pow_add]
    apply negI_pow_congr
    have := H2 r
    rw [← hc] at this
    omega
  · have h1 : ¬ ∀ k, π r k = xor (π c k) (P.xf k) := by
      intro h1
      apply h
      have e : π c = π (fun k => xor (r k) (P'.xf k)) := by
        rw [H1 r]; funext k; rw [h1 k]; cases π c k <;> cases P.xf k <;> rfl
      have := hπ.injective e
      intro k
      have hk : c k = xor (r k) (P'.xf k) := congrFun this k
      rw [hk]; cases r k <;> cases P'.xf k <;> rfl
    rw [if_neg h, if_neg h1]; simp

end Qib.Compact
