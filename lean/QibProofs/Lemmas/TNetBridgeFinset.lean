import QibProofs.Lemmas.TNetBridgeRel
import Mathlib.Algebra.BigOperators.Group.Finset.Basic
/-!
Helper lemmas for C07, part 14: the bridge from the model's list sums to Mathlib `Finset` sums – `sumOver` over
duplicate-free labels is the `Finset` sum over the box of all index vectors within the dimensions; the denotation `full`
in that form (no property statements).
-/
namespace Qib.TNet
variable {α : Type} [CommSemiring α] {L : Type} [DecidableEq L]

theorem pin_upd_comm (ls : List L) (vs : List Nat) (σ : L → Nat) (l : L) (v : Nat) (hl : l ∉ ls) :
    pin ls vs (upd σ l v) = upd (pin ls vs σ) l v := by
  induction ls generalizing vs with
  | nil => cases vs <;> rfl
  | cons x xs ih =>
    cases vs with
    | nil => rfl
    | cons w ws =>
      simp only [List.mem_cons, not_or] at hl
      simp only [pin]
      rw [ih ws hl.2, upd_comm _ hl.1]

theorem sum_map_flatMap {A B : Type} (l : List A) (g : A → List B) (f : B → α) :
    ((l.flatMap g).map f).sum = (l.map (fun a => ((g a).map f).sum)).sum := by
  induction l with
  | nil => rfl
  | cons a as ih => simp only [List.flatMap_cons, List.map_append, List.sum_append, List.map_cons, List.sum_cons, ih]

/-- **Bridge, list form**: `sumOver` over duplicate-free labels is the sum over all index vectors within the dimensions -/
theorem sumOver_eq_sum_allIdx (dim : L → Nat) (ls : List L) (hnd : ls.Nodup) (f : (L → Nat) → α) (σ : L → Nat) :
    sumOver dim ls f σ = ((allIdx (ls.map dim)).map (fun vs => f (pin ls vs σ))).sum := by
  induction ls generalizing σ with
  | nil => simp [allIdx, pin]
  | cons l ls ih =>
    rw [List.nodup_cons] at hnd
    simp only [sumOver_cons, List.map_cons, allIdx]
    rw [sum_map_flatMap]
    simp only [List.map_map]
    congr 1
    apply List.map_congr_left
    intro v _
    rw [ih hnd.2]
    congr 1
    apply List.map_congr_left
    intro vs _
    simp only [Function.comp, pin]
    rw [pin_upd_comm ls vs σ l v hnd.1]

/-- **Bridge to Mathlib**: `sumOver` over duplicate-free labels as a `Finset` sum over the box of all index vectors `vs`
with `vs[k] < dim ls[k]` -/
theorem sumOver_eq_finset_sum (dim : L → Nat) (ls : List L) (hnd : ls.Nodup) (f : (L → Nat) → α) (σ : L → Nat) :
    sumOver dim ls f σ = ∑ vs ∈ (allIdx (ls.map dim)).toFinset, f (pin ls vs σ) := by
  rw [sumOver_eq_sum_allIdx dim ls hnd, List.sum_toFinset _ (nodup_allIdx _)]

theorem mem_allIdx_toFinset {S z : List Nat} : z ∈ (allIdx S).toFinset ↔ List.Forall₂ (fun i d => i < d) z S := by
  rw [List.mem_toFinset, mem_allIdx]

/-- **the denotation in Mathlib's terms**: for consistent pins, `full` is the `Finset` sum, over all index vectors `vs` for the
bonds without open leg (`vs[k] <` dimension of the `k`-th such bond), of the product of the tensor entries read at the
assignment "bond `k` ↦ `vs[k]`, open bonds ↦ the logical index" -/
theorem full_eq_finset_sum (net : Net) (hb : (dkeys net.bonds).Nodup) (D : Option Int → List Nat → α) (idx : List Nat)
    {v : STensor} (hv : dget net.tensors (-1) = some v) :
    full net D idx = if pinsOK v.bids idx then
        ∑ vs ∈ (allIdx ((internalBids net v).map (bondDim net))).toFinset,
          ((realTensors net).map (fun t => D t.dataref (t.bids.map
            (pin (internalBids net v) vs (pin v.bids idx (fun _ => 0)))))).prod
      else 0 := by
  unfold full
  rw [hv]
  simp only
  split
  · rw [sumOver_eq_finset_sum _ _ (by unfold internalBids; exact hb.filter _)]
    apply Finset.sum_congr rfl
    intro vs _
    exact prodL_eq_prod _
  · rfl

end Qib.TNet
