import QibProofs.Lemmas.CircuitNetTotalWires
/-!
Helper lemmas for C05 (totality of `Circuit.as_tensornet`), part 6: the extra loop invariant needed for totality –
every bond of the circuit network has a reference that is not an output axis, and one that is not an input axis
(`SlackOK`) – holds for the identity wires and is kept by one loop iteration, and under it the symbolic part of a loop
iteration (`merge`, `perm`, `argsort`, `transpose`) returns. No property statements.
-/
set_option linter.unusedSimpArgs false
set_option linter.unusedSectionVars false
namespace Qib.CircuitNet
open Qib.TNet Qib.GateNet Qib.Embed

/-- every bond has a reference beyond the output axes (positions `0..n-1` of the virtual tensor), and one beyond the
input axes (positions `n..2n-1`) -/
structure SlackOK (n : Nat) (net : Net) : Prop where
  out : ∀ v, dget net.tensors (-1) = some v → ∀ e ∈ net.bonds, hits v.bids (List.range n) e.1 + 1 ≤ e.2.tids.length
  inp : ∀ v, dget net.tensors (-1) = some v → ∀ e ∈ net.bonds, hits v.bids (List.range' n n) e.1 + 1 ≤ e.2.tids.length

theorem hits_range_self (l : List Int) (c : Int) : hits l (List.range l.length) c = l.count c := by
  rw [hits_eq_count, pickD_range]

theorem length_irange (n : Nat) : (irange n).length = n := by simp [irange]

/-- the identity wires: bond `i` is `[-1, -1]`, one output and one input axis -/
theorem wireNetC_slack (wd : List Nat) : SlackOK wd.length (wireNetC wd) := by
  have hcount : ∀ c : Int, (irange wd.length).count c ≤ 1 := by
    intro c; rw [count_irange]; split <;> omega
  constructor
  · intro v hv e he
    rw [wireNetC_virt] at hv; cases hv
    simp only [wireNetC, List.mem_map, List.mem_range] at he
    obtain ⟨i, _, rfl⟩ := he
    simp only [wireVirt, wireBond, List.length_cons, List.length_nil]
    rw [hits_append_left _ _ (by intro d hd; rw [length_irange]; exact List.mem_range.mp hd)]
    have := hits_range_self (irange wd.length) (Int.ofNat i)
    rw [length_irange] at this
    rw [this]
    have := hcount (Int.ofNat i)
    omega
  · intro v hv e he
    rw [wireNetC_virt] at hv; cases hv
    simp only [wireNetC, List.mem_map, List.mem_range] at he
    obtain ⟨i, _, rfl⟩ := he
    simp only [wireVirt, wireBond, List.length_cons, List.length_nil]
    have hr : List.range' wd.length wd.length = (List.range wd.length).map ((irange wd.length).length + ·) := by
      rw [length_irange, List.range'_eq_map_range]
    rw [hr, hits_append_right]
    have := hits_range_self (irange wd.length) (Int.ofNat i)
    rw [length_irange] at this
    rw [this]
    have := hcount (Int.ofNat i)
    omega

theorem keepAxes_double (n : Nat) (iw : List Nat) (hlt : ∀ w ∈ iw, w < n) :
    keepAxes (2 * n) iw = keepAxes n iw ++ List.range' n n := by
  unfold keepAxes
  have hsplit : List.range (2 * n) = List.range n ++ List.range' n n := by
    rw [List.range_eq_range', List.range_eq_range']
    have : 2 * n = n + n := by omega
    rw [this, ← List.range'_append_1]
    simp
  rw [hsplit, List.filter_append]
  congr 1
  rw [List.filter_eq_self]
  intro k hk
  have hk' := List.mem_range'_1.mp hk
  have : k ∉ iw := fun hm => by have := hlt k hm; omega
  simpa using this

theorem pickD_append {γ : Type} (l : List γ) (d : γ) (a b : List Nat) : pickD l d (a ++ b) = pickD l d a ++ pickD l d b := by
  simp [pickD]

theorem length_pickD {γ : Type} (l : List γ) (d : γ) (a : List Nat) : (pickD l d a).length = a.length := by
  simp [pickD]

/-- **the symbolic part of one loop iteration returns and keeps `SlackOK`.** `a` = the circuit network so far, `b` =
the gate network (every bond refers to a real tensor), `iwire` = distinct wires of the register. -/
theorem step_total {a b : Net} {n : Nat} {iwire tor bor : List Int}
    (ha : C08.Inv a) (hb : C08.Inv b) (ho : C08.OrdersOK a b tor bor)
    {va vb : STensor} (hva : dget a.tensors (-1) = some va) (hvb : dget b.tensors (-1) = some vb)
    (hsa : va.shape = rep2 (2 * n)) (hsb : vb.shape = rep2 (2 * iwire.length))
    (hnd : iwire.Nodup) (hr : ∀ x ∈ iwire, 0 ≤ x ∧ x.toNat < n)
    (hrb : RealRef b (-1)) (hsl : SlackOK n a) :
    ∃ net' perm net'', merge a b (joinOf iwire) tor bor = .ok net' ∧ permOf n iwire = .ok perm ∧
      transpose net' (some ((argsort (perm.map Int.toNat)).map Int.ofNat)) = .ok net'' ∧ SlackOK n net'' := by
  have wa := (C08.C08_inv_iff_wf a).mp ha
  have wb := (C08.C08_inv_iff_wf b).mp hb
  set m := iwire.length with hm
  set iw := iwire.map Int.toNat with hiw
  have hiwl : iw.length = m := by rw [hiw, List.length_map]
  have hiwn : iw.Nodup := toNat_nodup hnd (fun x hx => (hr x hx).1)
  have hiwlt : ∀ w ∈ iw, w < n := by
    intro w hw; obtain ⟨x, hx, rfl⟩ := List.mem_map.mp hw; exact (hr x hx).2
  have hiwlt2 : ∀ w ∈ iw, w < 2 * n := fun w hw => by have := hiwlt w hw; omega
  have hla : va.bids.length = 2 * n := by
    rw [← wa.tshape _ (mem_of_dget_eq_some _ hva), hsa, length_rep2]
  have hlb : vb.bids.length = 2 * m := by
    rw [← wb.tshape _ (mem_of_dget_eq_some _ hvb), hsb, length_rep2]
  have hlsa : va.shape.length = 2 * n := by rw [hsa, length_rep2]
  have hlsb : vb.shape.length = 2 * m := by rw [hsb, length_rep2]
  -- the join list
  have hdim : C08.JoinDimsMatch a b (joinOf iwire) := by
    intro va' vb' hva' hvb' ja hja
    rw [hva] at hva'; rw [hvb] at hvb'
    cases hva'; cases hvb'
    obtain ⟨q, hq, rfl⟩ := mem_joinOf.mp hja
    have h1 := (hr _ (List.getElem_mem hq)).2
    rw [hsa, hsb]
    simp only [rep2, Int.ofNat_eq_natCast, Int.toNat_natCast]
    rw [List.getElem?_replicate, List.getElem?_replicate, if_pos (by omega), if_pos (by omega)]
  have hrange : ∀ ja ∈ joinOf iwire, 0 ≤ ja.1 ∧ ja.1 < va.shape.length ∧ 0 ≤ ja.2 ∧ ja.2 < vb.shape.length := by
    intro ja hja
    obtain ⟨q, hq, rfl⟩ := mem_joinOf.mp hja
    have h1 := hr _ (List.getElem_mem hq)
    rw [hlsa, hlsb]
    simp only [Int.ofNat_eq_natCast]
    omega
  -- `merge` returns
  obtain ⟨net', hmrg⟩ := merge_returns wa wb ho.1 ho.2 hdim hva hvb hrange hrb (List.range n)
    (fun d hd => by rw [hla]; have := List.mem_range.mp hd; omega)
    (fun ja hja => by
      obtain ⟨q, hq, rfl⟩ := mem_joinOf.mp hja
      exact List.mem_range.mpr (hr _ (List.getElem_mem hq)).2)
    (hsl.out va hva)
  -- `perm`
  obtain ⟨perm, hperm⟩ := permOf_total (n := n) hnd (fun x hx => ⟨(hr x hx).1, by have := (hr x hx).2; omega⟩)
  obtain ⟨_, _, hP⟩ := permOf_ok hperm
  rw [← hiw] at hP
  have hkeep := keepAxes_length (2 * n) iw hiwn hiwlt2
  have hPlen : (perm.map Int.toNat).length = 2 * n := by rw [hP]; simp [hkeep]
  have hPperm : (perm.map Int.toNat).Perm (List.range (perm.map Int.toNat).length) := by
    rw [hPlen, hP]
    exact keep_append_perm _ _ hiwn hiwlt2
  -- the merged network
  have hinv' : C08.Inv net' := C08.C08_merge_consistent ha hb ho hdim hmrg
  have w' := (C08.C08_inv_iff_wf net').mp hinv'
  obtain ⟨toa2b, v', hl2, hv', hvb', hslack⟩ := merge_result_slack wa wb ho.1 ho.2 hdim hva hvb hmrg hrb
  rw [hla, hlb] at hl2
  rw [hlsa] at hvb' hslack
  -- the kept axes
  have hK : (List.range toa2b.length).filter (fun x => !(delAxesOf (2 * n) (joinNat (joinOf iwire))).contains x) =
      keepAxes n iw ++ List.range' n n ++ List.range' (2 * n) m := by
    have h1 := keptAxes_eq (2 * n) (2 * m) (joinOf iwire)
    unfold keptAxes at h1
    rw [hl2, h1, remainingAxes_joinOf (2 * n) iwire (fun x hx => by have := (hr x hx).2; omega), ← hiw,
      keepAxes_double n iw hiwlt]
  rw [hK] at hvb'
  have hkn : (keepAxes n iw).length + m = n := by
    have := keepAxes_length n iw hiwn hiwlt; omega
  have hv'len : v'.bids.length = 2 * n := by
    rw [hvb']; simp only [length_pickD, List.length_append, List.length_range']; omega
  have hv'sh : v'.shape.length = v'.bids.length := w'.tshape _ (mem_of_dget_eq_some _ hv')
  -- `transpose` returns
  have hvalid : isort (resolveAxes v'.shape.length (some ((argsort (perm.map Int.toNat)).map Int.ofNat))) =
      (List.range v'.shape.length).map Int.ofNat := by
    show isort ((argsort (perm.map Int.toNat)).map Int.ofNat) = _
    rw [isort_argsort hPperm, hPlen, hv'sh, hv'len]
  have htr := transpose_of_valid (net := net') (some ((argsort (perm.map Int.toNat)).map Int.ofNat)) hv' hv'sh hvalid
  refine ⟨net', perm, _, hmrg, hperm, htr, ?_⟩
  -- the virtual tensor after the transposition
  have hax : ((resolveAxes v'.shape.length (some ((argsort (perm.map Int.toNat)).map Int.ofNat))).map Int.toNat) =
      argsort (perm.map Int.toNat) := by
    simp only [resolveAxes, List.map_map]
    have : (Int.toNat ∘ Int.ofNat) = id := by funext k; simp
    rw [this, List.map_id]
  have hv'' : ∀ v, dget (dmodify net'.tensors (-1) (fun _ => transposedVirt v' (some ((argsort (perm.map Int.toNat)).map Int.ofNat)))) (-1)
      = some v → v.bids = pickD v'.bids 0 (argsort (perm.map Int.toNat)) := by
    intro v hv
    rw [dget_dmodify, hv'] at hv
    simp only [Option.map_some, beq_self_eq_true, if_true, Option.some.injEq] at hv
    rw [← hv]
    simp only [transposedVirt, hax]
  -- the positions of the new virtual tensor in terms of the fused one
  have hback : ∀ v : STensor, v.bids = pickD v'.bids 0 (argsort (perm.map Int.toNat)) →
      pickD v.bids 0 (keepAxes n iw) = pickD toa2b 0 (keepAxes n iw) ∧
      pickD v.bids 0 (List.range' n n) = pickD toa2b 0 (List.range' n n) ∧
      pickD v.bids 0 iw = pickD toa2b 0 (List.range' (2 * n) m) := by
    intro v hv
    have h1 : pickD v.bids 0 (perm.map Int.toNat) = v'.bids := by
      rw [hv]; exact pickD_argsort_inv v'.bids 0 hPperm (by rw [hv'len, hPlen])
    rw [hP, keepAxes_double n iw hiwlt, hvb', pickD_append, pickD_append, pickD_append, pickD_append] at h1
    have h2 := List.append_inj h1 (by simp only [List.length_append, length_pickD])
    have h3 := List.append_inj h2.1 (by simp only [length_pickD])
    exact ⟨h3.1, h3.2, h2.2⟩
  -- the deleted axes
  have hDperm : (delAxesOf (2 * n) (joinNat (joinOf iwire))).Perm (iw ++ List.range' (2 * n + m) m) := by
    rw [List.perm_ext_iff_of_nodup (by unfold delAxesOf; exact nodup_eraseDups _)
      (List.Nodup.append hiwn (List.nodup_range') (by
        intro x h1 h2
        have := hiwlt x h1
        have := List.mem_range'_1.mp h2
        omega))]
    intro d
    rw [mem_delAxesOf, List.mem_append, List.mem_range'_1]
    constructor
    · rintro ⟨ja, hja, hd⟩
      obtain ⟨jz, hjz, rfl⟩ := List.mem_map.mp hja
      obtain ⟨q, hq, rfl⟩ := mem_joinOf.mp hjz
      simp only [Int.ofNat_eq_natCast, Int.toNat_natCast] at hd
      rcases hd with rfl | rfl
      · exact Or.inl (List.mem_map_of_mem (List.getElem_mem hq))
      · right; omega
    · rintro (hd | hd)
      · obtain ⟨x, hx, rfl⟩ := List.mem_map.mp hd
        obtain ⟨q, hq, rfl⟩ := List.getElem_of_mem hx
        exact ⟨_, List.mem_map.mpr ⟨_, mem_joinOf.mpr ⟨q, hq, rfl⟩, rfl⟩, Or.inl rfl⟩
      · refine ⟨_, List.mem_map.mpr ⟨_, mem_joinOf.mpr ⟨d - (2 * n + m), by omega, rfl⟩, rfl⟩, Or.inr ?_⟩
        simp only [Int.ofNat_eq_natCast, Int.toNat_natCast]
        omega
  have hD : ∀ c, hits toa2b (delAxesOf (2 * n) (joinNat (joinOf iwire))) c =
      hits toa2b iw c + hits toa2b (List.range' (2 * n + m) m) c := by
    intro c; rw [hits_perm hDperm, hits_append]
  have hrn : ∀ (l : List Int) c, hits l (List.range n) c = hits l (keepAxes n iw) c + hits l iw c := by
    intro l c
    rw [← hits_append]
    exact hits_perm (keep_append_perm n iw hiwn hiwlt).symm c
  -- the two slack statements of the merged network
  have hO := hslack (List.range n) (List.range (2 * m)) 1
    (fun d hd => by rw [hla]; have := List.mem_range.mp hd; omega)
    (fun d hd => by rw [hlb]; exact List.mem_range.mp hd) List.nodup_range (hsl.out va hva)
    (fun e he => Or.inl (hsl.out va hva e he))
  have hI := hslack (List.range' n n ++ iw) (List.range' m m) 0
    (fun d hd => by
      rw [hla]
      rcases List.mem_append.mp hd with h | h
      · have := List.mem_range'_1.mp h; omega
      · exact hiwlt2 d h)
    (fun d hd => by rw [hlb]; have := List.mem_range'_1.mp hd; omega) List.nodup_range'
    (fun e he => by
      have hnd' : (List.range' n n ++ iw).Nodup := List.Nodup.append List.nodup_range' hiwn (by
        intro x h1 h2
        have := hiwlt x h2
        have := List.mem_range'_1.mp h1
        omega)
      have h1 := hits_le_count hnd' (l := va.bids) (by
        intro d hd
        rw [hla]
        rcases List.mem_append.mp hd with h | h
        · have := List.mem_range'_1.mp h; omega
        · exact hiwlt2 d h) e.1
      have h2 := wa.toWF0.mult hva (dget_of_mem wa.bnodup he)
      have h3 := List.count_le_length (a := (-1 : Int)) (l := e.2.tids)
      omega)
    (fun e he => by
      by_cases h0 : hits va.bids iw e.1 = 0
      · left
        rw [hits_append, h0]
        exact hsl.inp va hva e he
      · right
        have hpos : 0 < hits va.bids iw e.1 := Nat.pos_of_ne_zero h0
        simp only [hits, List.countP_pos_iff, beq_iff_eq] at hpos
        obtain ⟨d, hd, hde⟩ := hpos
        obtain ⟨x, hx, rfl⟩ := List.mem_map.mp hd
        obtain ⟨q, hq, rfl⟩ := List.getElem_of_mem hx
        refine ⟨_, mem_joinOf.mpr ⟨q, hq, rfl⟩, ?_⟩
        simp only
        have hlt : iwire[q].toNat < va.bids.length := by
          rw [hla]; exact hiwlt2 _ (List.mem_map_of_mem (List.getElem_mem hq))
        rw [List.getElem?_eq_getElem hlt] at hde ⊢
        simpa using hde)
  have hbs : (List.range (2 * m)).map (2 * n + ·) = List.range' (2 * n) m ++ List.range' (2 * n + m) m := by
    rw [← List.range'_eq_map_range]
    have : 2 * m = m + m := by omega
    rw [this, ← List.range'_append_1]
  have hbi : (List.range' m m).map (2 * n + ·) = List.range' (2 * n + m) m := by
    rw [List.map_add_range']
  constructor
  · intro v hv e he
    obtain ⟨h1, _, h3⟩ := hback v (hv'' v hv)
    have := hO e he
    rw [hits_append, hbs, hits_append, hD, hrn toa2b] at this
    rw [hrn v.bids, hits_congr h1, hits_congr h3]
    omega
  · intro v hv e he
    obtain ⟨_, h2, _⟩ := hback v (hv'' v hv)
    have := hI e he
    rw [hits_append, hits_append, hbi, hD] at this
    rw [hits_congr h2]
    omega

end Qib.CircuitNet
