import QibProofs.Lemmas.CompactSpecStab3
import QibProofs.Lemmas.CompactSpecProj
import QibProofs.Lemmas.CompactSpecTens
/-!
C13, spectral part — helper lemmas, part 15: the code space of the compact encoding, for every shape.  For a duplicate-free list `R`
of plain faces the loop matrices are pairwise commuting Hermitian involutions; the projector onto their joint `+1` eigenspace has
trace `2^N / 2^|R|`, and multiplied by the fermion parity `Π_j V_j` it is traceless.
-/
set_option linter.unusedSimpArgs false
set_option linter.unusedVariables false
open Complex Matrix
namespace Qib.Compact
open Qib.Pauli Qib.Lattice Qib.Spec

/-- the loop matrices of the listed faces -/
noncomputable def loopMats (n0 n1 : ℕ) (R : List (ℕ × ℕ)) : List (CMat n0 n1) :=
  R.map fun g => (loopStr n0 n1 g.1 g.2).mat (ofcNsites n0 n1)

theorem loopMats_commInvols (n0 n1 : ℕ) (R : List (ℕ × ℕ)) (hR : ∀ g ∈ R, FaceIn n0 n1 g.1 g.2) :
    CommInvols (loopMats n0 n1 R) := by
  refine ⟨?_, ?_, ?_⟩
  · intro M hM
    simp only [loopMats, List.mem_map] at hM
    obtain ⟨g, hg, rfl⟩ := hM
    exact (hermitian_iff _ _).mp (isHermitian_of_even _ (loopStr_q_even (hR g hg)))
  · intro M hM
    simp only [loopMats, List.mem_map] at hM
    obtain ⟨g, hg, rfl⟩ := hM
    have h := hR g hg
    rw [← mat_mul _ _ _ (loopStr_hasLen h) (loopStr_hasLen h), loopStr_sq h, identity_mat]
  · intro M hM M' hM'
    simp only [loopMats, List.mem_map] at hM hM'
    obtain ⟨g, hg, rfl⟩ := hM
    obtain ⟨g', hg', rfl⟩ := hM'
    exact mat_comm_of_not_anti _ _ _ (loopStr_hasLen (hR g hg)) (loopStr_hasLen (hR g' hg')) (anti_loop_loop (hR g hg) (hR g' hg'))

theorem plainFaces_sublist {n0 n1 : ℕ} {S R : List (ℕ × ℕ)} (h : S.Sublist R) (hR : PlainFaces n0 n1 R) : PlainFaces n0 n1 S :=
  fun g hg => hR g (h.subset hg)

/-- a non-empty product of loop matrices of distinct plain faces is traceless -/
theorem trace_stab_zero (n0 n1 : ℕ) (S : List (ℕ × ℕ)) (hne : S ≠ []) (hnd : S.Nodup) (hS : PlainFaces n0 n1 S) :
    ((loopMats n0 n1 S).prod).trace = 0 := by
  have hin : ∀ g ∈ S, FaceIn n0 n1 g.1 g.2 := fun g hg => (hS g hg).1
  rw [loopMats, ← stabProd_mat n0 n1 S hin]
  obtain ⟨a, b, hf, hb⟩ := stab_nontrivial n0 n1 S hne hnd hS
  exact trace_mat_zero _ _ (fIdx n0 n1 a b) (fIdx_lt hf) hb

theorem sum_sublists_trace (n0 n1 : ℕ) (R : List (ℕ × ℕ)) (hnd : R.Nodup) (hR : PlainFaces n0 n1 R) :
    ((R.sublists'.map fun S => ((loopMats n0 n1 S).prod).trace).sum) = 2 ^ ofcNsites n0 n1 := by
  have hz : ∀ S ∈ R.sublists', S ≠ [] → ((loopMats n0 n1 S).prod).trace = 0 := by
    intro S hS hne
    have hsub := List.mem_sublists'.mp hS
    exact trace_stab_zero n0 n1 S hne (hnd.sublist hsub) (plainFaces_sublist hsub hR)
  clear hnd hR
  induction R with
  | nil => simp [loopMats, trace_one_bits]
  | cons a l ih =>
    rw [List.sublists'_cons, List.map_append, List.sum_append, List.map_map]
    rw [ih (fun S hS hne => hz S (by rw [List.sublists'_cons]; exact List.mem_append_left _ hS) hne)]
    have : (List.map ((fun S => ((loopMats n0 n1 S).prod).trace) ∘ List.cons a) l.sublists').sum = 0 := by
      apply List.sum_eq_zero
      intro t ht
      simp only [List.mem_map, Function.comp] at ht
      obtain ⟨S, hS, rfl⟩ := ht
      exact hz (a :: S) (by rw [List.sublists'_cons]; exact List.mem_append_right _ (List.mem_map.mpr ⟨S, hS, rfl⟩)) (by simp)
    rw [this, add_zero]

/-- **trace of the projector onto the joint `+1` eigenspace**: `2^N / 2^|R|` -/
theorem trace_jointProj (n0 n1 : ℕ) (R : List (ℕ × ℕ)) (hnd : R.Nodup) (hR : PlainFaces n0 n1 R) :
    (jointProj (loopMats n0 n1 R)).trace = (1 / 2 : ℂ) ^ R.length * 2 ^ ofcNsites n0 n1 := by
  unfold jointProj
  rw [prod_half_one_add, Matrix.trace_smul, smul_eq_mul]
  congr 1
  · simp [loopMats]
  · rw [← sum_sublists_trace n0 n1 R hnd hR]
    have : ∀ l : List (CMat n0 n1), l.sum.trace = (l.map Matrix.trace).sum := by
      intro l
      induction l with
      | nil => simp
      | cons a l ih => simp [Matrix.trace_add, ih]
    rw [this, List.map_map, loopMats, List.sublists'_map, List.map_map]
    rfl


/-! ### the fermion parity `Π_j V_j` -/

/-- `Z` on every vertex qubit, identity on the auxiliary qubits -/
def parStr (n0 n1 : ℕ) : PS :=
  ⟨(List.range (ofcNsites n0 n1)).map fun k => decide (k < n0 * n1), List.replicate (ofcNsites n0 n1) false, 0⟩

theorem parStr_hasLen (n0 n1 : ℕ) : (parStr n0 n1).HasLen (ofcNsites n0 n1) := by simp [parStr, PS.HasLen]

theorem parStr_bits (n0 n1 t : ℕ) (ht : t < ofcNsites n0 n1) :
    (parStr n0 n1).zf t = decide (t < n0 * n1) ∧ (parStr n0 n1).xf t = false := by
  constructor
  · simp [PS.zf, parStr, List.getD_eq_getElem?_getD, List.getElem?_map, List.getElem?_range ht]
  · exact getD_replicate_false _ _

/-- `Z` on the qubits `< m` -/
def zUpTo (N m : ℕ) : Matrix (Fin N → Bool) (Fin N → Bool) ℂ := tens (fun k : Fin N => if k.val < m then pauliZ else 1)

theorem parStr_mat (n0 n1 : ℕ) : (parStr n0 n1).mat (ofcNsites n0 n1) = zUpTo (ofcNsites n0 n1) (n0 * n1) := by
  simp only [PS.mat, zUpTo]
  rw [show (parStr n0 n1).q.val = 0 from rfl, pow_zero, one_smul]
  congr 1; funext k
  rw [(parStr_bits n0 n1 k k.isLt).1, (parStr_bits n0 n1 k k.isLt).2]
  by_cases h : k.val < n0 * n1
  · simp [h, letter_Z]
  · simp [h, letter_I]

/-- the fermion parity is the product of all vertex operators -/
theorem zUpTo_eq_prod (N m : ℕ) : zUpTo N m = ((List.range m).map (zSite N)).prod := by
  induction m with
  | zero => simp [zUpTo, tens_one]
  | succ m ih =>
    rw [List.range_succ, List.map_append, List.prod_append, ← ih]
    simp only [List.map_cons, List.map_nil, List.prod_cons, List.prod_nil, mul_one, zUpTo, zSite, tens_mul]
    congr 1; funext k
    by_cases h : k.val < m
    · simp [h, show k.val < m + 1 by omega, show k.val ≠ m by omega]
    · by_cases h' : k.val = m
      · simp [h']
      · simp [h, h', show ¬ k.val < m + 1 by omega]

theorem trace_stab_par_zero (n0 n1 : ℕ) (hL : 0 < n0 * n1) (S : List (ℕ × ℕ)) (hnd : S.Nodup) (hS : PlainFaces n0 n1 S) :
    ((loopMats n0 n1 S).prod * (parStr n0 n1).mat (ofcNsites n0 n1)).trace = 0 := by
  have hin : ∀ g ∈ S, FaceIn n0 n1 g.1 g.2 := fun g hg => (hS g hg).1
  have hl := stabProd_hasLen n0 n1 S hin
  have hp := parStr_hasLen n0 n1
  rw [loopMats, ← stabProd_mat n0 n1 S hin, ← mat_mul _ _ _ hl hp]
  by_cases hne : S = []
  · subst hne
    have h0 : 0 < ofcNsites n0 n1 := lt_of_lt_of_le hL (nverts_le n0 n1)
    apply trace_mat_zero _ _ 0 h0
    left
    rw [zf_mul _ _ _ hl hp, (parStr_bits n0 n1 0 h0).1]
    have : (stabProd n0 n1 []).zf 0 = false := getD_replicate_false _ _
    simp [this, hL]
  · obtain ⟨a, b, hf, hb⟩ := stab_nontrivial n0 n1 S hne hnd hS
    have ht := fIdx_lt hf
    have hge := fIdx_ge n0 n1 a b
    apply trace_mat_zero _ _ (fIdx n0 n1 a b) ht
    rw [zf_mul _ _ _ hl hp, xf_mul _ _ _ hl hp, (parStr_bits n0 n1 _ ht).1, (parStr_bits n0 n1 _ ht).2]
    have : ¬ fIdx n0 n1 a b < n0 * n1 := by omega
    simpa [this] using hb

/-- **the fermion parity is traceless on the code space** -/
theorem trace_jointProj_parity (n0 n1 : ℕ) (hL : 0 < n0 * n1) (R : List (ℕ × ℕ)) (hnd : R.Nodup) (hR : PlainFaces n0 n1 R) :
    (jointProj (loopMats n0 n1 R) * (parStr n0 n1).mat (ofcNsites n0 n1)).trace = 0 := by
  unfold jointProj
  rw [prod_half_one_add, Matrix.smul_mul, Matrix.trace_smul, ← List.sum_map_mul_right]
  have htr : ∀ l : List (CMat n0 n1), l.sum.trace = (l.map Matrix.trace).sum := by
    intro l
    induction l with
    | nil => simp
    | cons a l ih => simp [Matrix.trace_add, ih]
  rw [htr, List.map_map, loopMats, List.sublists'_map, List.map_map, List.sum_eq_zero, smul_zero]
  intro t ht
  simp only [List.mem_map, Function.comp] at ht
  obtain ⟨S, hS, rfl⟩ := ht
  have hsub := List.mem_sublists'.mp hS
  exact trace_stab_par_zero n0 n1 hL S (hnd.sublist hsub) (plainFaces_sublist hsub hR)

end Qib.Compact
