import Mathlib.Analysis.Matrix.Spectrum
import Mathlib.Tactic.Ring
import Mathlib.Tactic.Linarith
/-!
Helper lemmas for C20 (VQE): the quadratic form `ψ† P ψ` over an arbitrary finite index type.

* `ev ψ P = star ψ ⬝ᵥ P *ᵥ ψ`, its double-sum form, the two-step order `(ψ† P) ψ` used by the code,
  conjugation, behaviour under scalar multiples of `ψ`, eigenvectors, change of basis by a matrix.
* Rayleigh bounds for Hermitian `P` through Mathlib's spectral theorem
  (`Matrix.IsHermitian.spectral_theorem`): `ev ψ P = Σᵢ λᵢ |(U†ψ)ᵢ|²` and `Σᵢ |(U†ψ)ᵢ|² = ψ†ψ`.
No property statements here.
-/
open Matrix Complex
open scoped ComplexConjugate

namespace Qib.VqeLemmas

variable {n : Type*} [Fintype n]

/-- the quadratic form `ψ† P ψ` -/
def ev (ψ : n → ℂ) (P : Matrix n n ℂ) : ℂ := star ψ ⬝ᵥ P *ᵥ ψ

/-- squared norm `ψ† ψ` -/
def nrm (ψ : n → ℂ) : ℂ := star ψ ⬝ᵥ ψ

theorem ev_sum (ψ : n → ℂ) (P : Matrix n n ℂ) :
    ev ψ P = ∑ i, ∑ j, conj (ψ i) * P i j * ψ j := by
  simp only [ev, dotProduct, mulVec, Pi.star_apply, Complex.star_def, Finset.mul_sum, mul_assoc]

/-- the code's order of evaluation: first the row vector `ψ† P`, then its product with `ψ` -/
theorem ev_two_step (ψ : n → ℂ) (P : Matrix n n ℂ) : ev ψ P = (star ψ ᵥ* P) ⬝ᵥ ψ :=
  dotProduct_mulVec _ _ _

theorem nrm_sum (ψ : n → ℂ) : nrm ψ = ∑ i, ((Complex.normSq (ψ i) : ℝ) : ℂ) := by
  simp only [nrm, dotProduct, Pi.star_apply, Complex.star_def]
  refine Finset.sum_congr rfl fun i _ => ?_
  rw [mul_comm, Complex.mul_conj]

theorem nrm_im (ψ : n → ℂ) : (nrm ψ).im = 0 := by
  rw [nrm_sum, Complex.im_sum]; simp

theorem nrm_re_nonneg (ψ : n → ℂ) : 0 ≤ (nrm ψ).re := by
  rw [nrm_sum, Complex.re_sum]
  exact Finset.sum_nonneg fun i _ => by simpa using Complex.normSq_nonneg (ψ i)

theorem ev_conj (ψ : n → ℂ) (P : Matrix n n ℂ) : conj (ev ψ P) = ev ψ Pᴴ := by
  simp only [ev_sum, map_sum, map_mul, Complex.conj_conj, conjTranspose_apply, Complex.star_def]
  rw [Finset.sum_comm]
  refine Finset.sum_congr rfl fun i _ => Finset.sum_congr rfl fun j _ => ?_
  ring

theorem ev_im_of_hermitian (ψ : n → ℂ) {P : Matrix n n ℂ} (hP : P.IsHermitian) : (ev ψ P).im = 0 := by
  have h := ev_conj ψ P
  rw [hP.eq] at h
  exact Complex.conj_eq_iff_im.mp h

theorem ev_smul (u : ℂ) (ψ : n → ℂ) (P : Matrix n n ℂ) : ev (u • ψ) P = (conj u * u) * ev ψ P := by
  simp only [ev_sum, Pi.smul_apply, smul_eq_mul, map_mul, Finset.mul_sum]
  refine Finset.sum_congr rfl fun i _ => Finset.sum_congr rfl fun j _ => ?_
  ring

theorem nrm_smul (u : ℂ) (ψ : n → ℂ) : nrm (u • ψ) = (conj u * u) * nrm ψ := by
  simp only [nrm, dotProduct, Pi.star_apply, Pi.smul_apply, smul_eq_mul, Complex.star_def, map_mul, Finset.mul_sum]
  refine Finset.sum_congr rfl fun i _ => ?_
  ring

theorem ev_eigen (ψ : n → ℂ) (P : Matrix n n ℂ) (ev0 : ℂ) (h : P *ᵥ ψ = ev0 • ψ) :
    ev ψ P = ev0 * nrm ψ := by
  simp only [ev, nrm, h, dotProduct_smul, smul_eq_mul]

theorem ev_add (ψ : n → ℂ) (P Q : Matrix n n ℂ) : ev ψ (P + Q) = ev ψ P + ev ψ Q := by
  simp only [ev, add_mulVec, dotProduct_add]

theorem ev_smul_mat (c : ℂ) (ψ : n → ℂ) (P : Matrix n n ℂ) : ev ψ (c • P) = c * ev ψ P := by
  simp only [ev, smul_mulVec, dotProduct_smul, smul_eq_mul]

theorem ev_one (ψ : n → ℂ) [DecidableEq n] : ev ψ (1 : Matrix n n ℂ) = nrm ψ := by
  simp only [ev, nrm, one_mulVec]

/-- change of basis: `(Uψ)† P (Uψ) = ψ† (U† P U) ψ` -/
theorem ev_mulVec (U : Matrix n n ℂ) (ψ : n → ℂ) (P : Matrix n n ℂ) :
    ev (U *ᵥ ψ) P = ev ψ (Uᴴ * P * U) := by
  simp only [ev, star_mulVec, ← mulVec_mulVec, dotProduct_mulVec, vecMul_vecMul]

theorem nrm_mulVec [DecidableEq n] (U : Matrix n n ℂ) (hU : Uᴴ * U = 1) (ψ : n → ℂ) :
    nrm (U *ᵥ ψ) = nrm ψ := by
  have := ev_mulVec U ψ 1
  rwa [ev_one, Matrix.mul_one, hU, ev_one] at this

/-! ### Rayleigh bounds -/

section Rayleigh
variable [DecidableEq n] {A : Matrix n n ℂ} (hA : A.IsHermitian)

/-- coordinates of `ψ` in the eigenbasis -/
noncomputable def coords (ψ : n → ℂ) : n → ℂ := (star (hA.eigenvectorUnitary : Matrix n n ℂ)) *ᵥ ψ

theorem ev_diagonal (d : n → ℂ) (φ : n → ℂ) : ev φ (diagonal d) = ∑ i, d i * (conj (φ i) * φ i) := by
  simp only [ev, dotProduct, mulVec_diagonal, Pi.star_apply, Complex.star_def]
  refine Finset.sum_congr rfl fun i _ => ?_
  ring

theorem ev_spectral (ψ : n → ℂ) :
    ev ψ A = ∑ i, (hA.eigenvalues i : ℂ) * (conj (coords hA ψ i) * coords hA ψ i) := by
  have hs := hA.spectral_theorem
  rw [Unitary.conjStarAlgAut_apply] at hs
  have h1 : ev ψ A = ev (coords hA ψ) (diagonal (RCLike.ofReal ∘ hA.eigenvalues)) := by
    conv_lhs => rw [hs]
    rw [coords, ev_mulVec, star_eq_conjTranspose, conjTranspose_conjTranspose]
  rw [h1, ev_diagonal]
  rfl

theorem nrm_coords (ψ : n → ℂ) : nrm (coords hA ψ) = nrm ψ := by
  apply nrm_mulVec
  rw [star_eq_conjTranspose, conjTranspose_conjTranspose, ← star_eq_conjTranspose]
  exact Unitary.coe_mul_star_self hA.eigenvectorUnitary

theorem ev_re_spectral (ψ : n → ℂ) :
    (ev ψ A).re = ∑ i, hA.eigenvalues i * Complex.normSq (coords hA ψ i) := by
  rw [ev_spectral hA, Complex.re_sum]
  refine Finset.sum_congr rfl fun i _ => ?_
  rw [mul_comm (conj _), Complex.mul_conj]
  simp

theorem nrm_re_coords (ψ : n → ℂ) : ∑ i, Complex.normSq (coords hA ψ i) = (nrm ψ).re := by
  rw [← nrm_coords hA ψ, nrm_sum, Complex.re_sum]
  simp

/-- every `m` below all eigenvalues is below `ψ†Aψ / ψ†ψ` -/
theorem ev_ge_of_le_eigenvalues (ψ : n → ℂ) (m : ℝ) (hm : ∀ i, m ≤ hA.eigenvalues i) :
    m * (nrm ψ).re ≤ (ev ψ A).re := by
  rw [ev_re_spectral hA, ← nrm_re_coords hA, Finset.mul_sum]
  exact Finset.sum_le_sum fun i _ => mul_le_mul_of_nonneg_right (hm i) (Complex.normSq_nonneg _)

theorem ev_le_of_eigenvalues_le (ψ : n → ℂ) (m : ℝ) (hm : ∀ i, hA.eigenvalues i ≤ m) :
    (ev ψ A).re ≤ m * (nrm ψ).re := by
  rw [ev_re_spectral hA, ← nrm_re_coords hA, Finset.mul_sum]
  exact Finset.sum_le_sum fun i _ => mul_le_mul_of_nonneg_right (hm i) (Complex.normSq_nonneg _)

/-- each of Mathlib's `eigenvalues` is an eigenvalue in the elementary sense, with a non-zero eigenvector -/
theorem eigenvalues_spec (i : n) :
    ∃ v : n → ℂ, v ≠ 0 ∧ A *ᵥ v = ((hA.eigenvalues i : ℝ) : ℂ) • v := by
  refine ⟨⇑(hA.eigenvectorBasis i), ?_, ?_⟩
  · intro h
    have := hA.eigenvectorBasis.orthonormal.1 i
    have h0 : hA.eigenvectorBasis i = 0 := by
      ext j; exact congrFun h j
    rw [h0, norm_zero] at this
    exact zero_ne_one this
  · rw [hA.mulVec_eigenvectorBasis i]
    rfl

end Rayleigh

end Qib.VqeLemmas
