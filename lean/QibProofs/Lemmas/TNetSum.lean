import QibModel.TNet
import Mathlib.Algebra.BigOperators.Ring.List
import Mathlib.Algebra.BigOperators.Group.List.Basic
/-!
Helper lemmas for Core C: sums over label assignments (`sumOver`), independent of any network.
-/
namespace Qib.TNet
variable {α : Type} [CommSemiring α] {L : Type} [DecidableEq L]

theorem upd_same (σ : L → Nat) (l : L) (v : Nat) : upd σ l v l = v := by simp [upd]

theorem upd_other (σ : L → Nat) {l x : L} (h : x ≠ l) (v : Nat) : upd σ l v x = σ x := by simp [upd, h]

theorem upd_comm (σ : L → Nat) {a b : L} (h : a ≠ b) (v w : Nat) :
    upd (upd σ a v) b w = upd (upd σ b w) a v := by
  funext x; simp only [upd]; by_cases h1 : x = b <;> by_cases h2 : x = a <;> simp_all

theorem upd_upd_same (σ : L → Nat) (a : L) (v w : Nat) : upd (upd σ a v) a w = upd σ a w := by
  funext x; simp only [upd]; by_cases h1 : x = a <;> simp [h1]

@[simp] theorem sumOver_nil (dim : L → Nat) (f : (L → Nat) → α) (σ : L → Nat) : sumOver dim [] f σ = f σ := rfl

theorem sumOver_cons (dim : L → Nat) (l : L) (ls : List L) (f : (L → Nat) → α) (σ : L → Nat) :
    sumOver dim (l :: ls) f σ = ((List.range (dim l)).map (fun v => sumOver dim ls f (upd σ l v))).sum := rfl

theorem sumOver_congr (dim : L → Nat) (ls : List L) {f g : (L → Nat) → α} (h : ∀ σ, f σ = g σ) (σ : L → Nat) :
    sumOver dim ls f σ = sumOver dim ls g σ := by
  have : f = g := funext h
  rw [this]

theorem sumOver_append (dim : L → Nat) (a b : List L) (f : (L → Nat) → α) (σ : L → Nat) :
    sumOver dim (a ++ b) f σ = sumOver dim a (sumOver dim b f) σ := by
  induction a generalizing σ with
  | nil => rfl
  | cons l ls ih => simp only [List.cons_append, sumOver_cons, ih]

/-- `f` does not look at label `l` -/
def Indep (f : (L → Nat) → α) (l : L) : Prop := ∀ σ v, f (upd σ l v) = f σ

theorem sumOver_mul_right (dim : L → Nat) (ls : List L) (f g : (L → Nat) → α)
    (h : ∀ l ∈ ls, Indep g l) (σ : L → Nat) :
    sumOver dim ls (fun τ => f τ * g τ) σ = sumOver dim ls f σ * g σ := by
  induction ls generalizing σ with
  | nil => rfl
  | cons l ls ih =>
    simp only [sumOver_cons]
    rw [← List.sum_map_mul_right]
    congr 1
    apply List.map_congr_left
    intro v _
    rw [ih (fun x hx => h x (List.mem_cons_of_mem _ hx)), h l List.mem_cons_self]

theorem sumOver_mul_left (dim : L → Nat) (ls : List L) (f g : (L → Nat) → α)
    (h : ∀ l ∈ ls, Indep g l) (σ : L → Nat) :
    sumOver dim ls (fun τ => g τ * f τ) σ = g σ * sumOver dim ls f σ := by
  rw [mul_comm, ← sumOver_mul_right dim ls f g h]
  exact sumOver_congr dim ls (fun τ => mul_comm _ _) σ

theorem indep_sumOver (dim : L → Nat) (ls : List L) (f : (L → Nat) → α) (l : L) (h : Indep f l) :
    Indep (sumOver dim ls f) l := by
  induction ls with
  | nil => exact h
  | cons x xs ih =>
    intro σ v
    simp only [sumOver_cons]
    congr 1
    apply List.map_congr_left
    intro w _
    by_cases hx : l = x
    · subst hx; rw [upd_upd_same]
    · rw [upd_comm σ hx, ih]

theorem indep_mul {f g : (L → Nat) → α} {l : L} (hf : Indep f l) (hg : Indep g l) :
    Indep (fun σ => f σ * g σ) l := fun σ v => by simp only [hf σ v, hg σ v]

theorem sum_swap {A B : Type} (l1 : List A) (l2 : List B) (g : A → B → α) :
    (l1.map fun a => (l2.map fun b => g a b).sum).sum = (l2.map fun b => (l1.map fun a => g a b).sum).sum := by
  induction l1 with
  | nil => simp
  | cons a l1 ih => simp only [List.map_cons, List.sum_cons, ih, List.sum_map_add]

theorem sumOver_perm (dim : L → Nat) {ls ls' : List L} (h : ls.Perm ls') (f : (L → Nat) → α) (σ : L → Nat) :
    sumOver dim ls f σ = sumOver dim ls' f σ := by
  induction h generalizing σ with
  | nil => rfl
  | cons x _ ih => simp only [sumOver_cons, ih]
  | swap x y l =>
    simp only [sumOver_cons]
    by_cases hxy : x = y
    · subst hxy; rfl
    · rw [sum_swap]
      congr 1
      apply List.map_congr_left
      intro v _
      congr 1
      apply List.map_congr_left
      intro w _
      rw [upd_comm σ hxy]
  | trans _ _ ih1 ih2 => rw [ih1, ih2]

/-- the sum only looks at `σ` outside the summed labels -/
theorem sumOver_agree (dim : L → Nat) (ls : List L) (f : (L → Nat) → α) (σ τ : L → Nat)
    (h : ∀ x, x ∉ ls → σ x = τ x) : sumOver dim ls f σ = sumOver dim ls f τ := by
  induction ls generalizing σ τ with
  | nil => have : σ = τ := funext (fun x => h x (by simp)); rw [this]
  | cons l ls ih =>
    simp only [sumOver_cons]
    congr 1
    apply List.map_congr_left
    intro v _
    apply ih
    intro x hx
    by_cases hxl : x = l
    · subst hxl; simp [upd]
    · rw [upd_other _ hxl, upd_other _ hxl]; exact h x (by simp [hxl, hx])

/-- value of a pinned assignment -/
theorem pin_notMem (ls : List L) (vs : List Nat) (σ : L → Nat) (x : L) (h : x ∉ ls) : pin ls vs σ x = σ x := by
  induction ls generalizing vs with
  | nil => cases vs <;> rfl
  | cons l ls ih =>
    cases vs with
    | nil => rfl
    | cons v vs =>
      simp only [pin]
      rw [upd_other _ (by intro e; exact h (by simp [e]))]
      exact ih vs (by intro hm; exact h (List.mem_cons_of_mem _ hm))

/-! ### dense tensors -/

theorem NT.get_ofFn {β : Type} [Zero β] (shape : List Nat) (f : List Nat → β) (idx : List Nat)
    (h : List.Forall₂ (fun i d => i < d) idx shape) :
    (NT.ofFn shape f).get idx = f idx := by
  induction h generalizing f with
  | nil => rfl
  | cons hi _ ih =>
    simp only [NT.ofFn, NT.get]
    rw [List.getElem?_map, List.getElem?_range hi]
    simp only [Option.map_some]
    exact ih _

theorem DT.get_ofFn {β : Type} [Zero β] (shape : List Nat) (f : List Nat → β) (idx : List Nat)
    (h : List.Forall₂ (fun i d => i < d) idx shape) : (DT.ofFn shape f).get idx = f idx :=
  NT.get_ofFn shape f idx h

end Qib.TNet
