import QibProofs.Lemmas.CircuitNetTotalMerge
/-!
Helper lemmas for C05 (totality of `Circuit.as_tensornet`), part 4: the assembled statements about `merge` –
(1) `merge_returns`: the internal `assert` of `merge` cannot fire when every bond of the first operand has a reference
beyond the joined axes and every bond of the second refers to a real tensor; (2) `merge_result_slack`: the slack of the
bonds of the result. No property statements.
-/
namespace Qib.TNet

theorem hits_le_of_subset {l : List Int} {D W : List Nat} (hD : D.Nodup) (hsub : ∀ d ∈ D, d ∈ W) (c : Int) :
    hits l D c ≤ hits l W c :=
  (List.subperm_of_subset hD hsub).countP_le _

theorem mem_delAxesOf {orig : Nat} {joinN : List (Nat × Nat)} {d : Nat} :
    d ∈ delAxesOf orig joinN ↔ ∃ ja ∈ joinN, d = ja.1 ∨ d = orig + ja.2 := by
  simp only [delAxesOf, List.mem_eraseDups, List.mem_flatMap, List.mem_cons, List.not_mem_nil, or_false]

/-- after the join loop every bond carrying a joined axis has two references beyond the axes to be deleted -/
theorem del_slack_of_js {A : List Int} {orig : Nat} {W : List Nat} {m2 : Net} {toa2 : STensor} {joinN : List (Nat × Nat)}
    (hn : (dkeys m2.bonds).Nodup) (hjs : JS A orig W 1 m2 toa2.bids [] joinN.reverse)
    (hsub : ∀ d ∈ delAxesOf orig joinN, d ∈ W) :
    ∀ e ∈ m2.bonds, hits toa2.bids (delAxesOf orig joinN) e.1 = 0 ∨
      hits toa2.bids (delAxesOf orig joinN) e.1 + 2 ≤ e.2.tids.length := by
  intro e he
  by_cases h0 : hits toa2.bids (delAxesOf orig joinN) e.1 = 0
  · exact Or.inl h0
  · right
    have hpos : 0 < hits toa2.bids (delAxesOf orig joinN) e.1 := Nat.pos_of_ne_zero h0
    simp only [hits, List.countP_pos_iff, beq_iff_eq] at hpos
    obtain ⟨d, hd, hde⟩ := hpos
    obtain ⟨ja, hja, hdja⟩ := mem_delAxesOf.mp hd
    obtain ⟨c, h1, h2, h3⟩ := hjs.g4 ja (List.mem_reverse.mpr hja)
    have hc : c = e.1 := by
      rcases hdja with rfl | rfl
      · rw [h1] at hde; exact hde
      · rw [h2] at hde; exact hde
    subst hc
    have := h3 e.2 (dget_of_mem hn he)
    have hle : hits toa2.bids (delAxesOf orig joinN) e.1 ≤ hits toa2.bids W e.1 :=
      hits_le_of_subset (by unfold delAxesOf; exact nodup_eraseDups _) hsub e.1
    omega

/-- **`merge` returns** – on well-formed operands, with in-range joins of matching dimensions and valid set orders, when
every bond of the first operand has a reference beyond the open axes at the positions `Wa ⊇` joined axes, and every bond
of the second operand refers to a real tensor: the `assert` of the deletion loop cannot fire -/
theorem merge_returns {a b : Net} {j : List (Int × Int)} {tor bor : List Int} (ha : WF a) (hb : WF b)
    (htor : tor.Perm (sharedTids a b)) (hbor : bor.Perm (sharedBids a b))
    (hdim : ∀ va vb, dget a.tensors (-1) = some va → dget b.tensors (-1) = some vb →
      ∀ ja ∈ j, va.shape[ja.1.toNat]? = vb.shape[ja.2.toNat]?)
    {va vb : STensor} (hva : dget a.tensors (-1) = some va) (hvb : dget b.tensors (-1) = some vb)
    (hrange : ∀ ja ∈ j, 0 ≤ ja.1 ∧ ja.1 < va.shape.length ∧ 0 ≤ ja.2 ∧ ja.2 < vb.shape.length)
    (hrb : RealRef b (-1)) (Wa : List Nat) (hWa : ∀ d ∈ Wa, d < va.bids.length)
    (hsub : ∀ ja ∈ j, ja.1.toNat ∈ Wa)
    (hsl : ∀ e ∈ a.bonds, hits va.bids Wa e.1 + 1 ≤ e.2.tids.length) :
    ∃ net', merge a b j tor bor = .ok net' := by
  generalize hX : merge a b j tor bor = r
  cases r with
  | ok n => exact ⟨n, rfl⟩
  | error e =>
    exfalso
    unfold merge at hX
    simp only [bind, Except.bind] at hX
    have hoa := numOpenAxes_eq hva
    have hob := numOpenAxes_eq hvb
    split at hX
    · -- the range loop cannot fail
      rename_i err hloop
      have key : ∀ (f : Int × Int → PUnit → Except Err (ForInStep PUnit)),
          (∀ ja ∈ j, f ja PUnit.unit = .ok (.yield PUnit.unit)) → forIn j PUnit.unit f = .error err → False := by
        intro f hall hl
        have := (forIn_unit_all_ok j f hall).symm.trans hl
        cases this
      refine key _ (fun ja hja => ?_) hloop
      obtain ⟨h1, h2, h3, h4⟩ := hrange ja hja
      rw [hoa, hob]
      simp only
      have c1 : (decide (ja.1 < 0) || decide (ja.1 ≥ ↑va.shape.length)) = false := by
        simp only [Bool.or_eq_false_iff, decide_eq_false_iff_not]; omega
      have c2 : (decide (ja.2 < 0) || decide (ja.2 ≥ ↑vb.shape.length)) = false := by
        simp only [Bool.or_eq_false_iff, decide_eq_false_iff_not]; omega
      rw [c1, c2]; rfl
    · split at hX
      · rename_i err h0; rw [hoa] at h0; cases h0
      · rename_i orig horig
        have horig' : orig = va.shape.length := by
          rw [hoa] at horig; exact (Except.ok.inj horig).symm
        subst horig'
        have hmaxT : ∀ k ∈ dkeys a.tensors ++ dkeys b.tensors, k ≤ maxKey (dkeys a.tensors ++ dkeys b.tensors) :=
          fun k hk => le_maxKey hk
        obtain ⟨st1, hst1⟩ := renT_fold_ok (st := (b, -1, maxKey (dkeys a.tensors ++ dkeys b.tensors) + 1)) hb.toWF0
          (htor.nodup_iff.mpr (nodup_sharedTids ha.toWF0))
          (fun t ht => (mem_sharedTids.mp (htor.mem_iff.mp ht)).2)
          (fun k hk => by have := hmaxT k (List.mem_append_right _ hk); simp only; omega)
        split at hX
        · rename_i err h1
          have := hst1.symm.trans h1
          cases this
        · rename_i x1 hf1
          obtain ⟨o1, tmpOpen, n1⟩ := x1
          simp only at hX
          have hf1' : tor.foldlM renTStep (b, -1, maxKey (dkeys a.tensors ++ dkeys b.tensors) + 1)
              = .ok (o1, tmpOpen, n1) := hf1
          obtain ⟨w1, _, kb1, _, _, _⟩ := renT_fold (st := (b, -1, _)) hb.toWF0 hf1'
          simp only at w1 kb1
          have hmaxB : ∀ k ∈ dkeys a.bonds ++ dkeys o1.bonds, k ≤ maxKey (dkeys a.bonds ++ dkeys o1.bonds) :=
            fun k hk => le_maxKey hk
          obtain ⟨st2, hst2⟩ := renB_fold_ok (st := (o1, maxKey (dkeys a.bonds ++ dkeys o1.bonds) + 1)) w1
            (hbor.nodup_iff.mpr (nodup_sharedBids ha.toWF0))
            (fun t ht => by rw [kb1]; exact (mem_sharedBids.mp (hbor.mem_iff.mp ht)).2)
            (fun k hk => by have := hmaxB k (List.mem_append_right _ hk); simp only; omega)
          split at hX
          · rename_i err h2
            have := hst2.symm.trans h2
            cases this
          · rename_i x2 hf2
            obtain ⟨o2, n2⟩ := x2
            simp only at hX
            have hf2' : bor.foldlM renBStep (o1, maxKey (dkeys a.bonds ++ dkeys o1.bonds) + 1) = .ok (o2, n2) := hf2
            obtain ⟨w2, disjT, disjB, tmpne, ⟨vb2, hvb2⟩, hu1, hu2⟩ := merge_precopy ha hb htor hbor hf1' hf2'
            have wu := union_wf0 ha.toWF0 w2 disjT disjB
            obtain ⟨m1', hm1'⟩ := mergeTensors_ok_of (net := ⟨a.tensors ++ o2.tensors, a.bonds ++ o2.bonds⟩)
              (tid1 := -1) (tid2 := tmpOpen) wu
              (by simp only [dkeys_append, List.mem_append]; exact Or.inl ha.virt)
              (by simp only [dkeys_append, List.mem_append]
                  exact Or.inr (mem_dkeys_of_mem (mem_of_dget_eq_some _ hvb2)))
            split at hX
            · rename_i err h3
              rw [hu1, hu2] at h3
              have := hm1'.symm.trans h3
              cases this
            · rename_i m1 hm1
              have hvirt1 : (-1 : Int) ∈ dkeys m1.tensors := by
                have hm1c := hm1
                rw [hu1, hu2] at hm1c
                obtain ⟨T1, T2, _, _, heq⟩ := mergeTensors_spec wu tmpne hm1c
                rw [heq]
                simp only [dkeys_dmodify, dkeys_dpop, dkeys_append]
                exact List.mem_filter.mpr ⟨List.mem_append_left _ ha.virt, by simpa using tmpne⟩
              obtain ⟨toa1, htoa1⟩ := Option.isSome_iff_exists.mp ((dget_isSome_iff _ _).mpr hvirt1)
              split at hX
              · rename_i toa1' htoa1'
                rw [htoa1] at htoa1'
                cases htoa1'
                have pre := merge_prejoin ha hb htor hbor hf1' hf2' hm1 htoa1
                have hS := pre.shape va vb hva hvb
                have hdimS : ∀ ja ∈ joinNat j, toa1.shape[ja.1]? = toa1.shape[va.shape.length + ja.2]? := by
                  intro ja hja
                  obtain ⟨jz, hjz, rfl⟩ := List.mem_map.mp hja
                  obtain ⟨h1, h2, h3, h4⟩ := hrange jz hjz
                  have hp : jz.1.toNat < va.shape.length := by omega
                  rw [hS, List.getElem?_append_left hp, List.getElem?_append_right (by omega)]
                  simp only [Nat.add_sub_cancel_left]
                  exact hdim va vb hva hvb jz hjz
                have hrS : ∀ ja ∈ joinNat j, ja.1 < toa1.shape.length ∧ va.shape.length + ja.2 < toa1.shape.length := by
                  intro ja hja
                  obtain ⟨jz, hjz, rfl⟩ := List.mem_map.mp hja
                  obtain ⟨h1, h2, h3, h4⟩ := hrange jz hjz
                  rw [hS, List.length_append]
                  simp only
                  omega
                have hj1 : JInv toa1.shape m1 := ⟨pre.wf, toa1, pre.virt, rfl⟩
                obtain ⟨st3, hst3⟩ := join_fold_ok (st := (m1, List.range toa1.shape.length)) hj1 hdimS hrS
                split at hX
                · rename_i err h4
                  have : (joinNat j).foldlM (joinStep va.shape.length) (m1, List.range toa1.shape.length)
                      = .error err := h4
                  rw [hst3] at this; cases this
                · rename_i x3 hf3
                  obtain ⟨m2, axesMap⟩ := x3
                  have hf3' : (joinNat j).foldlM (joinStep va.shape.length) (m1, List.range toa1.shape.length)
                      = .ok (m2, axesMap) := hf3
                  obtain ⟨⟨wf2, toa2, hv2, hS2⟩, ham, _⟩ := join_fold_inv (st := (m1, _)) hj1 hdimS hf3'
                  simp only at wf2 hv2 ham
                  have hsh2 : toa2.shape.length = toa2.bids.length := wf2.tshape _ (mem_of_dget_eq_some _ hv2)
                  have hDlt : ∀ d ∈ delAxesOf va.shape.length (joinNat j), d < toa2.bids.length := by
                    intro d hd
                    simp only [delAxesOf, List.mem_eraseDups, List.mem_flatMap, List.mem_cons, List.not_mem_nil,
                      or_false] at hd
                    obtain ⟨ja, hja, hd⟩ := hd
                    have := hrS ja hja
                    rw [← hsh2, hS2]
                    rcases hd with rfl | rfl
                    · exact this.1
                    · exact this.2
                  -- the slack bookkeeping
                  have hshb : vb.shape.length = vb.bids.length := hb.tshape _ (mem_of_dget_eq_some _ hvb)
                  obtain ⟨toa2', hv2', _, _, _, hjs⟩ := merge_js_final ha hb htor hbor hdim hva hvb hrange hf1' hf2' hm1
                    htoa1 hf3' hrb Wa (List.range vb.bids.length) 1 hWa (fun d hd => List.mem_range.mp hd)
                    List.nodup_range hsl (fun e he => Or.inl (hsl e he))
                  rw [hv2] at hv2'; cases hv2'
                  have hsubW : ∀ d ∈ delAxesOf va.shape.length (joinNat j),
                      d ∈ Wa ++ (List.range vb.bids.length).map (va.shape.length + ·) := by
                    intro d hd
                    obtain ⟨ja, hja, hd⟩ := mem_delAxesOf.mp hd
                    obtain ⟨jz, hjz, rfl⟩ := List.mem_map.mp hja
                    obtain ⟨h1, h2, h3, h4⟩ := hrange jz hjz
                    rcases hd with rfl | rfl
                    · exact List.mem_append_left _ (hsub jz hjz)
                    · refine List.mem_append_right _ (List.mem_map.mpr ⟨jz.2.toNat, List.mem_range.mpr ?_, rfl⟩)
                      omega
                  have hslack := del_slack_of_js wf2.bnodup hjs hsubW
                  obtain ⟨m3, hm3⟩ := del_fold_ok (D := delAxesOf va.shape.length (joinNat j)) hv2 hDlt
                    (fun b hb' => wf2.toWF0.mem_bond_keys (mem_of_dget_eq_some _ hv2) hb') hslack
                  split at hX
                  · rename_i err h5
                    have h5' : (delAxesOf va.shape.length (joinNat j)).foldlM delStep m2 = .error err := h5
                    rw [hm3] at h5'; cases h5'
                  · rename_i m3' hf4
                    have hf4' : (delAxesOf va.shape.length (joinNat j)).foldlM delStep m2 = .ok m3' := hf4
                    obtain ⟨_, ht3, _, _⟩ := del_fold wf2.bnodup hv2 wf2.blen hf4'
                    split at hX
                    · rename_i toa3 htoa3
                      have htoa3' : toa3 = toa2 := by
                        rw [ht3, hv2] at htoa3; exact (Option.some.inj htoa3).symm
                      subst htoa3'
                      have hamlt : ∀ x ∈ axesMap, x < toa3.shape.length := by
                        intro x hx
                        rw [ham, foldl_erase_eq_filter _ _ _ List.nodup_range] at hx
                        have := List.mem_range.mp (List.mem_filter.mp hx).1
                        rw [hS2]; exact this
                      rw [mapM_ok_of_forall (g := fun x => toa3.shape[x]?.getD 0)] at hX
                      · simp only at hX
                        rw [mapM_ok_of_forall (g := fun x => toa3.bids[x]?.getD 0)] at hX
                        · cases hX
                        · intro x hx
                          rw [List.getElem?_eq_getElem (by rw [← hsh2]; exact hamlt x hx)]; rfl
                      · intro x hx
                        rw [List.getElem?_eq_getElem (hamlt x hx)]; rfl
                    · rename_i hnone
                      have : dget m3'.tensors (-1) = some toa2 := by rw [ht3]; exact hv2
                      exact hnone toa2 this
              · rename_i hnone
                exact hnone toa1 htoa1

/-- **the slack of the bonds of a merged network**: with `toa2b` the bond ids of the fused virtual tensor after the join
loop (first operand's axes, then the second's), the virtual tensor of the result keeps the axes outside the deleted
ones, and – for all position lists `Wa`, `Wb` and every `ka` that satisfy the hypotheses of `merge_js_final` – every bond
has one reference beyond the open legs at the positions `W = Wa ++ (orig + Wb)` that are not deleted -/
theorem merge_result_slack {a b net' : Net} {j : List (Int × Int)} {tor bor : List Int} (ha : WF a) (hb : WF b)
    (htor : tor.Perm (sharedTids a b)) (hbor : bor.Perm (sharedBids a b))
    (hdim : ∀ va vb, dget a.tensors (-1) = some va → dget b.tensors (-1) = some vb →
      ∀ ja ∈ j, va.shape[ja.1.toNat]? = vb.shape[ja.2.toNat]?)
    {va vb : STensor} (hva : dget a.tensors (-1) = some va) (hvb : dget b.tensors (-1) = some vb)
    (h : merge a b j tor bor = .ok net') (hrb : RealRef b (-1)) :
    ∃ (toa2b : List Int) (v' : STensor), toa2b.length = va.bids.length + vb.bids.length ∧
      dget net'.tensors (-1) = some v' ∧
      v'.bids = pickD toa2b 0 ((List.range toa2b.length).filter
        (fun x => !(delAxesOf va.shape.length (joinNat j)).contains x)) ∧
      ∀ (Wa Wb : List Nat) (ka : Nat), (∀ d ∈ Wa, d < va.bids.length) → (∀ d ∈ Wb, d < vb.bids.length) → Wb.Nodup →
        (∀ e ∈ a.bonds, hits va.bids Wa e.1 + ka ≤ e.2.tids.length) →
        (∀ e ∈ a.bonds, hits va.bids Wa e.1 + 1 ≤ e.2.tids.length ∨ ∃ ja ∈ j, va.bids[ja.1.toNat]? = some e.1) →
        ∀ e ∈ net'.bonds, hits toa2b (Wa ++ Wb.map (va.shape.length + ·)) e.1 + 1 ≤
          e.2.tids.length + hits toa2b (delAxesOf va.shape.length (joinNat j)) e.1 := by
  obtain ⟨orig, nb, o1, tmpOpen, n1, o2, n2, m1, toa1, m2, axesMap, m3, toa3, horig, hnb, hrange, hf1, hf2, hm1,
    htoa1, hf3, hf4, htoa3, _, hnet⟩ := merge_ok_inv h
  have horig' : orig = va.shape.length := by
    rw [numOpenAxes_eq hva] at horig; exact (Except.ok.inj horig).symm
  subst horig'
  have hrange' : ∀ ja ∈ j, 0 ≤ ja.1 ∧ ja.1 < va.shape.length ∧ 0 ≤ ja.2 ∧ ja.2 < vb.shape.length := by
    intro ja hja
    have hne : j ≠ [] := List.ne_nil_of_mem hja
    have := hnb hne
    rw [numOpenAxes_eq hvb] at this
    have hnb' : nb = vb.shape.length := (Except.ok.inj this).symm
    have := hrange ja hja
    rw [hnb'] at this; exact this
  have pre := merge_prejoin ha hb htor hbor hf1 hf2 hm1 htoa1
  have hS := pre.shape va vb hva hvb
  have hj1 : JInv toa1.shape m1 := ⟨pre.wf, toa1, htoa1, rfl⟩
  have hdimS : ∀ ja ∈ joinNat j, toa1.shape[ja.1]? = toa1.shape[va.shape.length + ja.2]? := by
    intro ja hja
    obtain ⟨jz, hjz, rfl⟩ := List.mem_map.mp hja
    obtain ⟨h1, h2, h3, h4⟩ := hrange' jz hjz
    have hp : jz.1.toNat < va.shape.length := by omega
    rw [hS, List.getElem?_append_left hp, List.getElem?_append_right (by omega)]
    simp only [Nat.add_sub_cancel_left]
    exact hdim va vb hva hvb jz hjz
  obtain ⟨⟨wf2, toa2, hv2, hS2'⟩, ham, _⟩ := join_fold_inv (st := (m1, _)) hj1 hdimS hf3
  simp only at hv2 ham wf2
  obtain ⟨hDlt, ht3, hb3, hl3⟩ := del_fold wf2.bnodup hv2 wf2.blen hf4
  have htoa3' : toa3 = toa2 := by
    rw [ht3, hv2] at htoa3; exact (Option.some.inj htoa3).symm
  subst htoa3'
  have hsh2 := wf2.tshape _ (mem_of_dget_eq_some _ hv2)
  simp only at hsh2
  have hsha : va.shape.length = va.bids.length := ha.tshape _ (mem_of_dget_eq_some _ hva)
  have hshb : vb.shape.length = vb.bids.length := hb.tshape _ (mem_of_dget_eq_some _ hvb)
  have hl2 : toa3.bids.length = va.bids.length + vb.bids.length := by
    rw [← hsh2, hS2', hS, List.length_append, hsha, hshb]
  have hK : axesMap = (List.range toa3.bids.length).filter
      (fun x => !(delAxesOf va.shape.length (joinNat j)).contains x) := by
    rw [ham, foldl_erase_eq_filter _ _ _ List.nodup_range, ← hsh2, hS2']
    apply List.filter_congr
    intro x _
    congr 1
    rw [Bool.eq_iff_iff]
    simp only [delAxesOf, List.contains_iff_mem, List.mem_eraseDups]
  refine ⟨toa3.bids, { toa3 with shape := pickD toa3.shape 0 axesMap, bids := pickD toa3.bids 0 axesMap }, hl2, ?_, ?_, ?_⟩
  · rw [hnet]
    simp only
    rw [dget_dmodify, ht3, hv2]
    simp
  · simp only [hK]
  · intro Wa Wb ka hWa hWb hWbn ha5 ha1 e he
    obtain ⟨toa2', hv2', _, _, _, hjs⟩ := merge_js_final ha hb htor hbor hdim hva hvb hrange' hf1 hf2 hm1 htoa1 hf3
      hrb Wa Wb ka hWa hWb hWbn ha5 ha1
    rw [hv2] at hv2'; cases hv2'
    rw [hnet] at he
    simp only at he
    rw [hb3] at he
    obtain ⟨e0, he0, rfl⟩ := List.mem_map.mp he
    simp only
    -- slack 1 of every bond after the join loop
    have hs1 : Slk m2 toa3.bids (Wa ++ Wb.map (va.shape.length + ·)) 1 e0.1 := by
      by_cases hA : e0.1 ∈ dkeys a.bonds
      · rcases hjs.g1 _ hA with h1 | ⟨ja, hja, _⟩
        · exact h1
        · cases hja
      · exact hjs.g6 _ hA
    have := hs1 e0.2 (dget_of_mem wf2.bnodup he0)
    have hge := length_eraseN_ge (-1) (hits toa3.bids (delAxesOf va.shape.length (joinNat j)) e0.1) e0.2.tids
    omega

end Qib.TNet
