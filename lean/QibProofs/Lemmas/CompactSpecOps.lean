import QibProofs.Lemmas.CompactSpecMain
import QibProofs.Lemmas.EncodeTotal
/-!
C13, spectral part — helper lemmas, part 6: the string-level operations the driver executes for the op `compact.chain`
(`conjBy`, `conjOp`, `canonOp`) denote what their names say, and the field operator `fermiOp` passes the field check of the
Jordan-Wigner encoder of C11.
-/
set_option linter.unusedSimpArgs false
set_option linter.unusedVariables false
open Complex Matrix
namespace Qib.Compact
open Qib.Pauli Qib.Lattice

/-- conjugation of a string by a Hermitian string (`q = 0`): `W P W = ± P` -/
theorem conjBy_mat (n : ℕ) (W P : PS) (hW : W.HasLen n) (hP : P.HasLen n) (hq : W.q = 0) :
    (conjBy W P).mat n = W.mat n * P.mat n * W.mat n := by
  have hsq := Encode.mat_sq_of_q0 n W hq
  unfold conjBy
  by_cases hc : W.commutesWith P = true
  · rw [if_pos hc, (commutes_iff n W P hW hP).mp hc, Matrix.mul_assoc, hsq, Matrix.mul_one]
  · rw [if_neg hc]
    have ha : anti W P = true := by simp [anti, hc]
    rw [mat_anticomm n W P hW hP ha, Matrix.neg_mul, Matrix.mul_assoc, hsq, Matrix.mul_one]
    exact mat_neg n P

theorem conjBy_hasLen (n : ℕ) (W P : PS) (hP : P.HasLen n) : (conjBy W P).HasLen n := by
  unfold conjBy; split
  · exact hP
  · exact hP

/-- conjugation of every string conjugates the matrix of the operator -/
theorem conjOp_mat (n : ℕ) (W : PS) (hW : W.HasLen n) (hq : W.q = 0) (op : PauliOp GQ) (hop : ∀ e ∈ op, e.1.HasLen n) :
    PauliOp.mat GQ.toC n (conjOp W op) = W.mat n * PauliOp.mat GQ.toC n op * W.mat n := by
  induction op with
  | nil => simp [conjOp, PauliOp.mat, PauliOp.matG]
  | cons e rest ih =>
    have h1 := hop e (by simp)
    have h2 := ih (fun e' he' => hop e' (by simp [he']))
    simp only [conjOp, List.map_cons, PauliOp.mat, PauliOp.matG_cons] at h2 ⊢
    rw [h2, conjBy_mat n W e.1 hW h1 hq, Matrix.mul_add, Matrix.add_mul, Matrix.mul_smul, Matrix.smul_mul]

theorem phaseGQ_toC (q : Fin 4) : (phaseGQ q).toC = (-I) ^ q.val := by
  fin_cases q <;> simp [phaseGQ, GQ.toC, pow_succ]

/-- moving the phases into the weights, merging equal strings and dropping zero weights does not change the matrix -/
theorem canonOp_mat (n : ℕ) (op : PauliOp GQ) : PauliOp.mat GQ.toC n (canonOp op) = PauliOp.mat GQ.toC n op := by
  unfold canonOp
  have hfold : ∀ (l : PauliOp GQ) (acc : PauliOp GQ),
      PauliOp.mat GQ.toC n (l.foldl (fun (acc : PauliOp GQ) e => PauliOp.add acc ⟨e.1.z, e.1.x, 0⟩ (phaseGQ e.1.q * e.2)) acc) =
        PauliOp.mat GQ.toC n acc + PauliOp.mat GQ.toC n l := by
    intro l
    induction l with
    | nil => intro acc; simp [PauliOp.mat, PauliOp.matG]
    | cons e rest ih =>
      intro acc
      rw [List.foldl_cons, ih, mat_add, Encode.GQ.toC_mul, phaseGQ_toC]
      simp only [PauliOp.mat, PauliOp.matG_cons]
      have : e.1.mat n = (-I) ^ e.1.q.val • (⟨e.1.z, e.1.x, 0⟩ : PS).mat n := by
        simp [PS.mat, PS.zf, PS.xf]
      rw [this, smul_smul]
      have hc : (-I) ^ e.1.q.val * e.2.toC = e.2.toC * (-I) ^ e.1.q.val := mul_comm _ _
      rw [hc]
      abel
  have := hfold op []
  simp only [PauliOp.mat] at this ⊢
  rw [PauliOp.removeZero_matG (PS.mat n) GQ.toC _ (fun w hw => GQ.absLe_zero w hw), this]
  simp [PauliOp.matG]

theorem chainW_props (n0 n1 n : ℕ) (hn : n0 * n1 = n) : (chainW n0 n1).HasLen n ∧ (chainW n0 n1).q = 0 := by
  subst hn
  unfold chainW
  split
  · exact ⟨wString_hasLen _, rfl⟩
  · exact ⟨identity_hasLen _, rfl⟩

/-! ### `fermiOp` as input of the Jordan-Wigner encoder -/

theorem fermiOp_wf (n0 n1 : ℕ) (terms : List Term) : (fermiOp n0 n1 terms).WF := by
  intro t ht e he
  simp only [fermiOp, List.mem_map] at ht
  obtain ⟨t0, _, rfl⟩ := ht
  simp only [fermiTerm, hopEntries, List.mem_flatMap, List.mem_map, List.mem_range] at he
  obtain ⟨i, _, j, _, rfl⟩ := he
  rfl

theorem fermiOp_fieldCheck (n0 n1 L : ℕ) (terms : List Term) (h : Encode.fieldCheck (fermiOp n0 n1 terms) = .ok L) :
    L = n0 * n1 := by
  obtain ⟨f, _, hf⟩ := (Encode.fieldCheck_ok_iff _ L).mp h
  simp only [fermiOp] at hf
  cases f with
  | zero => simpa using hf.symm
  | succ f => simp at hf

end Qib.Compact
