import QibProofs.Lemmas.CompactMat
/-!
C13 helper lemmas, part 12: the strings of a fixed length form a group under `PS.mul` (associativity of the mod-4 phase
formula, identity, commuting strings commute as strings), and consequently the loop product around a face does not depend
on the corner it starts from nor on the direction.
-/
set_option linter.unusedSimpArgs false
namespace Qib.Compact
open Qib.Pauli Qib.Lattice

theorem zipWith_xor_assoc (a b c : List Bool) :
    List.zipWith xor (List.zipWith xor a b) c = List.zipWith xor a (List.zipWith xor b c) := by
  induction a generalizing b c with
  | nil => simp
  | cons p a ih =>
    cases b with
    | nil => simp
    | cons q b =>
      cases c with
      | nil => simp
      | cons r c => simp [ih, Bool.xor_assoc]

/-- `PS.mul` is associative on strings of equal length -/
theorem mul_assoc' (n : Nat) (P R S : PS) (hP : P.HasLen n) (hR : R.HasLen n) (hS : S.HasLen n) :
    (P.mul R).mul S = P.mul (R.mul S) := by
  obtain ⟨p1, p2⟩ := hP
  obtain ⟨r1, r2⟩ := hR
  obtain ⟨s1, s2⟩ := hS
  have hq : ((P.mul R).mul S).q = (P.mul (R.mul S)).q := by
    apply Fin.ext
    have a1 := mul_q_val (P.mul R) S
    have a2 := mul_q_val P R
    have b1 := mul_q_val P (R.mul S)
    have b2 := mul_q_val R S
    have ez : (P.mul R).z = List.zipWith xor P.z R.z := rfl
    have ex : (P.mul R).x = List.zipWith xor P.x R.x := rfl
    have fz : (R.mul S).z = List.zipWith xor R.z S.z := rfl
    have fx : (R.mul S).x = List.zipWith xor R.x S.x := rfl
    rw [ez, ex] at a1
    rw [fz, fx] at b1
    rw [zipWith_xor_assoc, zipWith_xor_assoc] at a1
    have k1 := dot_xor_left P.x R.x S.z (by omega)
    have k2 := dot_xor_right P.x R.z S.z (by omega)
    generalize dot (List.zipWith xor P.z (List.zipWith xor R.z S.z)) (List.zipWith xor P.x (List.zipWith xor R.x S.x)) = Y at *
    generalize dot (List.zipWith xor P.z R.z) (List.zipWith xor P.x R.x) = Y1 at *
    generalize dot (List.zipWith xor R.z S.z) (List.zipWith xor R.x S.x) = Y2 at *
    generalize dot (List.zipWith xor P.x R.x) S.z = A at *
    generalize dot P.x (List.zipWith xor R.z S.z) = B at *
    have b1' := (P.mul (R.mul S)).q.isLt
    have a1' := ((P.mul R).mul S).q.isLt
    have a2' := (P.mul R).q.isLt
    have b2' := (R.mul S).q.isLt
    omega
  have e1 : (P.mul R).mul S = ⟨List.zipWith xor (List.zipWith xor P.z R.z) S.z,
      List.zipWith xor (List.zipWith xor P.x R.x) S.x, ((P.mul R).mul S).q⟩ := rfl
  have e2 : P.mul (R.mul S) = ⟨List.zipWith xor P.z (List.zipWith xor R.z S.z),
      List.zipWith xor P.x (List.zipWith xor R.x S.x), (P.mul (R.mul S)).q⟩ := rfl
  rw [e1, e2, hq, zipWith_xor_assoc, zipWith_xor_assoc]

theorem zipWith_xor_false_left (n : Nat) (a : List Bool) (h : a.length = n) :
    List.zipWith xor (List.replicate n false) a = a := by
  induction a generalizing n with
  | nil => simp
  | cons p a ih =>
    cases n with
    | zero => simp at h
    | succ n => simp [List.replicate_succ, ih n (by simpa using h)]

theorem identity_mul (n : Nat) (P : PS) (hP : P.HasLen n) : (PS.identity n).mul P = P := by
  obtain ⟨p1, p2⟩ := hP
  have hq : ((PS.identity n).mul P).q = P.q := by
    apply Fin.ext
    have a : (((PS.identity n).mul P).q.val : Int) =
        (((0 : Fin 4).val : Int) + P.q.val + dot (List.replicate n false) (List.replicate n false) + dot P.z P.x
          - dot (List.zipWith xor (List.replicate n false) P.z) (List.zipWith xor (List.replicate n false) P.x)
          + 2 * dot (List.replicate n false) P.z) % 4 := mul_q_val (PS.identity n) P
    rw [zipWith_xor_false_left n _ p1, zipWith_xor_false_left n _ p2, dot_replicate_false_left,
      dot_replicate_false_left] at a
    have := P.q.isLt
    have := ((PS.identity n).mul P).q.isLt
    simp only [Fin.val_zero] at a
    push_cast at a
    omega
  have e : (PS.identity n).mul P = ⟨List.zipWith xor (List.replicate n false) P.z,
      List.zipWith xor (List.replicate n false) P.x, ((PS.identity n).mul P).q⟩ := rfl
  rw [e, hq, zipWith_xor_false_left n _ p1, zipWith_xor_false_left n _ p2]

/-- strings that commute (as operators) commute as strings -/
theorem mul_comm_of_not_anti (P R : PS) (h : anti P R = false) : P.mul R = R.mul P := by
  have hq : (P.mul R).q = (R.mul P).q := (mul_q_eq_iff P R).mpr ((anti_false_iff P R).mp h)
  have e1 : P.mul R = ⟨List.zipWith xor P.z R.z, List.zipWith xor P.x R.x, (P.mul R).q⟩ := rfl
  have e2 : R.mul P = ⟨List.zipWith xor R.z P.z, List.zipWith xor R.x P.x, (R.mul P).q⟩ := rfl
  rw [e1, e2, hq, zipWith_xor_comm P.z, zipWith_xor_comm P.x]

theorem neg_mul (P R : PS) : (neg P).mul R = neg (P.mul R) := by
  have hq : ((neg P).mul R).q = (P.mul R).q + 2 := by
    apply Fin.ext
    have a := mul_q_val (neg P) R
    have b := mul_q_val P R
    have hn : ((neg P).q.val : Int) = ((P.q.val : Int) + 2) % 4 := by
      simp only [neg, Fin.add_def]; omega
    simp only [neg] at a hn ⊢
    have e : ((P.mul R).q + 2 : Fin 4).val = ((P.mul R).q.val + 2) % 4 := by simp [Fin.add_def]
    rw [e]
    have := (PS.mul ⟨P.z, P.x, P.q + 2⟩ R).q.isLt
    have := (P.mul R).q.isLt
    omega
  have e1 : (neg P).mul R = ⟨List.zipWith xor P.z R.z, List.zipWith xor P.x R.x, ((neg P).mul R).q⟩ := rfl
  rw [e1, hq]; rfl

theorem mul_neg (P R : PS) : P.mul (neg R) = neg (P.mul R) := by
  have hq : (P.mul (neg R)).q = (P.mul R).q + 2 := by
    apply Fin.ext
    have a := mul_q_val P (neg R)
    have b := mul_q_val P R
    have hn : ((neg R).q.val : Int) = ((R.q.val : Int) + 2) % 4 := by
      simp only [neg, Fin.add_def]; omega
    simp only [neg] at a hn ⊢
    have e : ((P.mul R).q + 2 : Fin 4).val = ((P.mul R).q.val + 2) % 4 := by simp [Fin.add_def]
    rw [e]
    have := (PS.mul P ⟨R.z, R.x, R.q + 2⟩).q.isLt
    have := (P.mul R).q.isLt
    omega
  have e1 : P.mul (neg R) = ⟨List.zipWith xor P.z R.z, List.zipWith xor P.x R.x, (P.mul (neg R)).q⟩ := rfl
  rw [e1, hq]; rfl

/-! ### four involutions in a row -/

theorem cancel_left (n : Nat) (A X : PS) (hA : A.HasLen n) (hX : X.HasLen n) (hAA : A.mul A = PS.identity n) :
    A.mul (A.mul X) = X := by
  rw [← mul_assoc' n A A X hA hA hX, hAA, identity_mul n X hX]

/-- moving the first factor of a product of four to the end does not change it, if it commutes with the product -/
theorem rot4 (n : Nat) (A B C D : PS) (hA : A.HasLen n) (hB : B.HasLen n) (hC : C.HasLen n) (hD : D.HasLen n)
    (hAA : A.mul A = PS.identity n) (hc : anti (((A.mul B).mul C).mul D) A = false) :
    ((B.mul C).mul D).mul A = ((A.mul B).mul C).mul D := by
  have lBC := mul_hasLen n _ _ hB hC
  have lBCD := mul_hasLen n _ _ lBC hD
  have lAB := mul_hasLen n _ _ hA hB
  have lABC := mul_hasLen n _ _ lAB hC
  have lL := mul_hasLen n _ _ lABC hD
  have lM := mul_hasLen n _ _ lBCD hA
  -- A · M = L · A = A · L
  have h1 : A.mul (((B.mul C).mul D).mul A) = A.mul (((A.mul B).mul C).mul D) := by
    rw [← mul_assoc' n A _ A hA lBCD hA, ← mul_assoc' n A _ D hA lBC hD, ← mul_assoc' n A B C hA hB hC,
      mul_comm_of_not_anti _ _ hc]
  have h2 : A.mul (A.mul (((B.mul C).mul D).mul A)) = A.mul (A.mul (((A.mul B).mul C).mul D)) := by rw [h1]
  rwa [cancel_left n A _ hA lM hAA, cancel_left n A _ hA lL hAA] at h2

/-- the product of four involutions times the product in the reverse order is the identity -/
theorem rev4 (n : Nat) (A B C D : PS) (hA : A.HasLen n) (hB : B.HasLen n) (hC : C.HasLen n) (hD : D.HasLen n)
    (hAA : A.mul A = PS.identity n) (hBB : B.mul B = PS.identity n) (hCC : C.mul C = PS.identity n)
    (hDD : D.mul D = PS.identity n) :
    (((A.mul B).mul C).mul D).mul (((D.mul C).mul B).mul A) = PS.identity n := by
  have lDC := mul_hasLen n _ _ hD hC
  have lDCB := mul_hasLen n _ _ lDC hB
  have lX := mul_hasLen n _ _ lDCB hA
  have lAB := mul_hasLen n _ _ hA hB
  have lABC := mul_hasLen n _ _ lAB hC
  have lCB := mul_hasLen n _ _ hC hB
  have lCBA := mul_hasLen n _ _ lCB hA
  have lBA := mul_hasLen n _ _ hB hA
  -- D · (((D C) B) A) = (C B) A
  have s1 : D.mul (((D.mul C).mul B).mul A) = (C.mul B).mul A := by
    rw [← mul_assoc' n D _ A hD lDCB hA, ← mul_assoc' n D _ B hD lDC hB, cancel_left n D C hD hC hDD]
  have s2 : C.mul ((C.mul B).mul A) = B.mul A := by
    rw [← mul_assoc' n C _ A hC lCB hA, cancel_left n C B hC hB hCC]
  have s3 : B.mul (B.mul A) = A := cancel_left n B A hB hA hBB
  rw [mul_assoc' n _ D _ lABC hD lX, s1, mul_assoc' n _ C _ lAB hC lCBA, s2, mul_assoc' n A B _ hA hB lBA, s3, hAA]

theorem mul_identity (n : Nat) (P : PS) (hP : P.HasLen n) : P.mul (PS.identity n) = P := by
  rw [mul_comm_of_not_anti _ _ (anti_identity_right n P), identity_mul n P hP]

theorem neg4 (A B C D : PS) : (((neg A).mul (neg B)).mul (neg C)).mul (neg D) = ((A.mul B).mul C).mul D := by
  simp only [neg_mul, mul_neg, neg_neg]

/-- **the loop product does not depend on the starting corner nor on the direction**: with `E₀ … E₃` the edge operators
along `(x,y) → (x,y+1) → (x+1,y+1) → (x+1,y) → (x,y)` and `F₀ … F₃` the operators of the reversed edges -/
theorem loop_variants {n0 n1 x y : Nat} (h : FaceIn n0 n1 x y) :
    let E0 := edgeStr n0 n1 x y x (y + 1)
    let E1 := edgeStr n0 n1 x (y + 1) (x + 1) (y + 1)
    let E2 := edgeStr n0 n1 (x + 1) (y + 1) (x + 1) y
    let E3 := edgeStr n0 n1 (x + 1) y x y
    let F0 := edgeStr n0 n1 x (y + 1) x y
    let F1 := edgeStr n0 n1 (x + 1) (y + 1) x (y + 1)
    let F2 := edgeStr n0 n1 (x + 1) y (x + 1) (y + 1)
    let F3 := edgeStr n0 n1 x y (x + 1) y
    let L := loopStr n0 n1 x y
    ((E1.mul E2).mul E3).mul E0 = L ∧ ((E2.mul E3).mul E0).mul E1 = L ∧ ((E3.mul E0).mul E1).mul E2 = L ∧
    ((F3.mul F2).mul F1).mul F0 = L ∧ ((F2.mul F1).mul F0).mul F3 = L ∧ ((F1.mul F0).mul F3).mul F2 = L ∧
    ((F0.mul F3).mul F2).mul F1 = L := by
  intro E0 E1 E2 E3 F0 F1 F2 F3 L
  obtain ⟨e0, e1, e2, e3⟩ := loop_edges_ok h
  have l0 : E0.HasLen _ := edgeStr_hasLen e0
  have l1 : E1.HasLen _ := edgeStr_hasLen e1
  have l2 : E2.HasLen _ := edgeStr_hasLen e2
  have l3 : E3.HasLen _ := edgeStr_hasLen e3
  have s0 : E0.mul E0 = _ := mul_self_of_herm _ _ l0 (edgeStr_q_even e0)
  have s1 : E1.mul E1 = _ := mul_self_of_herm _ _ l1 (edgeStr_q_even e1)
  have s2 : E2.mul E2 = _ := mul_self_of_herm _ _ l2 (edgeStr_q_even e2)
  have s3 : E3.mul E3 = _ := mul_self_of_herm _ _ l3 (edgeStr_q_even e3)
  have c0 : anti L E0 = false := anti_loop_edge h e0
  have c1 : anti L E1 = false := anti_loop_edge h e1
  have c2 : anti L E2 = false := anti_loop_edge h e2
  have c3 : anti L E3 = false := anti_loop_edge h e3
  have hL : L = ((E0.mul E1).mul E2).mul E3 := rfl
  have lL : L.HasLen _ := loopStr_hasLen h
  have sL : L.mul L = _ := loopStr_sq h
  -- forward rotations
  have r1 : ((E1.mul E2).mul E3).mul E0 = L := rot4 _ E0 E1 E2 E3 l0 l1 l2 l3 s0 (hL ▸ c0)
  have r2 : ((E2.mul E3).mul E0).mul E1 = L := by
    rw [rot4 _ E1 E2 E3 E0 l1 l2 l3 l0 s1 (by rw [r1]; exact c1), r1]
  have r3 : ((E3.mul E0).mul E1).mul E2 = L := by
    rw [rot4 _ E2 E3 E0 E1 l2 l3 l0 l1 s2 (by rw [r2]; exact c2), r2]
  -- reversed edges
  have f0 : F0 = neg E0 := edgeStr_rev e0
  have f1 : F1 = neg E1 := edgeStr_rev e1
  have f2 : F2 = neg E2 := edgeStr_rev e2
  have f3 : F3 = neg E3 := edgeStr_rev e3
  -- the reverse product is the inverse of `L`, and `L` is an involution
  have lR := mul_hasLen _ _ _ (mul_hasLen _ _ _ (mul_hasLen _ _ _ l3 l2) l1) l0
  have hrev : ((E3.mul E2).mul E1).mul E0 = L := by
    have k := rev4 _ E0 E1 E2 E3 l0 l1 l2 l3 s0 s1 s2 s3
    have k2 : L.mul (L.mul (((E3.mul E2).mul E1).mul E0)) = L.mul (PS.identity (ofcNsites n0 n1)) := by rw [hL, k]
    rwa [cancel_left _ L _ lL lR sL, mul_identity _ L lL] at k2
  have q1 : ((E2.mul E1).mul E0).mul E3 = L := by
    rw [rot4 _ E3 E2 E1 E0 l3 l2 l1 l0 s3 (by rw [hrev]; exact c3), hrev]
  have q2 : ((E1.mul E0).mul E3).mul E2 = L := by
    rw [rot4 _ E2 E1 E0 E3 l2 l1 l0 l3 s2 (by rw [q1]; exact c2), q1]
  have q3 : ((E0.mul E3).mul E2).mul E1 = L := by
    rw [rot4 _ E1 E0 E3 E2 l1 l0 l3 l2 s1 (by rw [q2]; exact c1), q2]
  refine ⟨r1, r2, r3, ?_, ?_, ?_, ?_⟩
  · rw [f0, f1, f2, f3, neg4]; exact hrev
  · rw [f0, f1, f2, f3, neg4]; exact q1
  · rw [f0, f1, f2, f3, neg4]; exact q2
  · rw [f0, f1, f2, f3, neg4]; exact q3

end Qib.Compact
