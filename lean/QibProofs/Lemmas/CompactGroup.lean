import QibProofs.Lemmas.CompactLoop
/-!
C13 helper lemmas, part 12: the strings of a fixed length form a group under `PS.mul` (associativity of the mod-4 phase
formula, identity, commuting strings commute as strings), and consequently the loop product around a face does not depend
on the corner it starts from nor on the direction.
-/
set_option linter.unusedSimpArgs false
namespace Qib.Compact
open Qib.Pauli Qib.Lattice

theorem zipWith_xor_assoc (a b c : List Bool) :
    List.zipWith xor (List.zipWith xor a b) c = List.zipWith xor a (List.zipWith xor b c) := by
  induction a generalizing b c with
  | nil => simp
  | cons p a ih =>
    cases b with
    | nil => simp
    | cons q b =>
      cases c with
      | nil => simp
      | cons r c => simp [ih, Bool.xor_assoc]

/-- `PS.mul` is associative on strings of equal length -/
theorem mul_assoc' (n : Nat) (P R S : PS) (hP : P.HasLen n) (hR : R.HasLen n) (hS : S.HasLen n) :
    (P.mul R).mul S = P.mul (R.mul S) := by
  obtain ⟨p1, p2⟩ := hP
  obtain ⟨r1, r2⟩ := hR
  obtain ⟨s1, s2⟩ := hS
  have hq : ((P.mul R).mul S).q = (P.mul (R.mul S)).q := by
    apply Fin.ext
    have a1 := mul_q_val (P.mul R) S
    have a2 := mul_q_val P R
    have b1 := mul_q_val P (R.mul S)
    have b2 := mul_q_val R S
    have ez : (P.mul R).z = List.zipWith xor P.z R.z := rfl
    have ex : (P.mul R).x = List.zipWith xor P.x R.x := rfl
    have fz : (R.mul S).z = List.zipWith xor R.z S.z := rfl
    have fx : (R.mul S).x = List.zipWith xor R.x S.x := rfl
    rw [ez, ex] at a1
    rw [fz, fx] at b1
    rw [zipWith_xor_assoc, zipWith_xor_assoc] at a1
    have k1 := dot_xor_left P.x R.x S.z (by omega)
    have k2 := dot_xor_right P.x R.z S.z (by omega)
    generalize dot (List.zipWith xor P.z (List.zipWith xor R.z S.z)) (List.zipWith xor P.x (List.zipWith xor R.x S.x)) = Y at *
    generalize dot (List.zipWith xor P.z R.z) (List.zipWith xor P.x R.x) = Y1 at *
    generalize dot (List.zipWith xor R.z S.z) (List.zipWith xor R.x S.x) = Y2 at *
    generalize dot (List.zipWith xor P.x R.x) S.z = A at *
    generalize dot P.x (List.zipWith xor R.z S.z) = B at *
    have b1' := (P.mul (R.mul S)).q.isLt
    have a1' := ((P.mul R).mul S).q.isLt
    have a2' := (P.mul R).q.isLt
    have b2' := (R.mul S).q.isLt
    omega
  have e1 : (P.mul R).mul S = ⟨List.zipWith xor (List.zipWith xor P.z R.z) S.z,
      List.zipWith xor (List.zipWith xor P.x R.x) S.x, ((P.mul R).mul S).q⟩ := rfl
  have e2 : P.mul (R.mul S) = ⟨List.zipWith xor P.z (List.zipWith xor R.z S.z),
      List.zipWith xor P.x (List.zipWith xor R.x S.x), (P.mul (R.mul S)).q⟩ := rfl
  rw [e1, e2, hq, zipWith_xor_assoc, zipWith_xor_assoc]

theorem zipWith_xor_false_left (n : Nat) (a : List Bool) (h : a.length = n) :
    List.zipWith xor (List.replicate n false) a = a := by
  induction a generalizing n with
  | nil => simp
  | cons p a ih =>
    cases n with
    | zero => simp at h
    | succ n => simp [List.replicate_succ, ih n (by simpa using h)]

theorem identity_mul (n : Nat) (P : PS) (hP : P.HasLen n) : (PS.identity n).mul P = P := by
  obtain ⟨p1, p2⟩ := hP
  have hq : ((PS.identity n).mul P).q = P.q := by
    apply Fin.ext
    have a : (((PS.identity n).mul P).q.val : Int) =
        (((0 : Fin 4).val : Int) + P.q.val + dot (List.replicate n false) (List.replicate n false) + dot P.z P.x
          - dot (List.zipWith xor (List.replicate n false) P.z) (List.zipWith xor (List.replicate n false) P.x)
          + 2 * dot (List.replicate n false) P.z) % 4 := mul_q_val (PS.identity n) P
    rw [zipWith_xor_false_left n _ p1, zipWith_xor_false_left n _ p2, dot_replicate_false_left,
      dot_replicate_false_left] at a
    have := P.q.isLt
    have := ((PS.identity n).mul P).q.isLt
    simp only [Fin.val_zero] at a
    push_cast at a
    omega
  have e : (PS.identity n).mul P = ⟨List.zipWith xor (List.replicate n false) P.z,
      List.zipWith xor (List.replicate n false) P.x, ((PS.identity n).mul P).q⟩ := rfl
  rw [e, hq, zipWith_xor_false_left n _ p1, zipWith_xor_false_left n _ p2]

/-- strings that commute (as operators) commute as strings -/
theorem mul_comm_of_not_anti (P R : PS) (h : anti P R = false) : P.mul R = R.mul P := by
  have hq : (P.mul R).q = (R.mul P).q := (mul_q_eq_iff P R).mpr ((anti_false_iff P R).mp h)
  have e1 : P.mul R = ⟨List.zipWith xor P.z R.z, List.zipWith xor P.x R.x, (P.mul R).q⟩ := rfl
  have e2 : R.mul P = ⟨List.zipWith xor R.z P.z, List.zipWith xor R.x P.x, (R.mul P).q⟩ := rfl
  rw [e1, e2, hq, zipWith_xor_comm P.z, zipWith_xor_comm P.x]

theorem neg_mul (P R : PS) : (neg P).mul R = neg (P.mul R) := by
  have hq : ((neg P).mul R).q = (P.mul R).q + 2 := by
    apply Fin.ext
    have a := mul_q_val (neg P) R
    have b := mul_q_val P R
    have hn : ((neg P).q.val : Int) = ((P.q.val : Int) + 2) % 4 := by
      simp only [neg, Fin.add_def]; omega
    simp only [neg] at a hn ⊢
    have e : ((P.mul R).q + 2 : Fin 4).val = ((P.mul R).q.val + 2) % 4 := by simp [Fin.add_def]
    rw [e]
    have := (PS.mul ⟨P.z, P.x, P.q + 2⟩ R).q.isLt
    have := (P.mul R).q.isLt
    omega
  have e1 : (neg P).mul R = ⟨List.zipWith xor P.z R.z, List.zipWith xor P.x R.x, ((neg P).mul R).q⟩ := rfl
  rw [e1, hq]; rfl

theorem mul_neg (P R : PS) : P.mul (neg R) = neg (P.mul R) := by
  have hq : (P.mul (neg R)).q = (P.mul R).q + 2 := by
    apply Fin.ext
    have a := mul_q_val P (neg R)
    have b := mul_q_val P R
    have hn : ((neg R).q.val : Int) = ((R.q.val : Int) + 2) % 4 := by
      simp only [neg, Fin.add_def]; omega
    simp only [neg] at a hn ⊢
    have e : ((P.mul R).q + 2 : Fin 4).val = ((P.mul R).q.val + 2) % 4 := by simp [Fin.add_def]
    rw [e]
    have := (PS.mul P ⟨R.z, R.x, R.q + 2⟩).q.isLt
    have := (P.mul R).q.isLt
    omega
  have e1 : P.mul (neg R) = ⟨List.zipWith xor P.z R.z, List.zipWith xor P.x R.x, (P.mul (neg R)).q⟩ := rfl
  rw [e1, hq]; rfl

end Qib.Compact
