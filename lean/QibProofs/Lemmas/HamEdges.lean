import Mathlib.Algebra.BigOperators.Intervals
import Mathlib.Algebra.BigOperators.Ring.Finset
import Mathlib.Tactic.Abel
import QibModel.Hamiltonian
/-!
C15 helper lemmas: list sums / folds as `Finset` sums, and the set of pairs visited by the upper-triangle scan
`for i in range(L): for j in range(i + 1, L): if adj[i, j] != 0` (`edgeSet`). Helper lemmas only.
-/
namespace Qib.Ham

/-! ### list sums and folds -/

section folds
variable {M : Type} [AddCommMonoid M]

theorem list_range_sum (f : ℕ → M) (n : ℕ) : ((List.range n).map f).sum = ∑ i ∈ Finset.range n, f i := by
  induction n with
  | zero => simp
  | succ n ih => simp [List.range_succ, Finset.sum_range_succ, ih]

theorem list_range'_sum (f : ℕ → M) (s n : ℕ) :
    ((List.range' s n).map f).sum = ∑ i ∈ Finset.Ico s (s + n), f i := by
  rw [List.range'_eq_map_range, List.map_map, list_range_sum, Finset.sum_Ico_eq_sum_range]
  simp

/-- a fold whose every step adds `D x` to an additive observable `Φ` adds the sum of the `D x` -/
theorem foldl_additive {σ β : Type} (Φ : σ → M) (step : σ → β → σ) (D : β → M)
    (h : ∀ s x, Φ (step s x) = Φ s + D x) (l : List β) (s : σ) :
    Φ (l.foldl step s) = Φ s + (l.map D).sum := by
  induction l generalizing s with
  | nil => simp
  | cons x l ih => simp only [List.foldl_cons, ih, h, List.map_cons, List.sum_cons, add_assoc]

end folds

end Qib.Ham

/-! ### the edge set scanned by the upper triangle -/

namespace Qib.Ham

/-- the pairs visited by `for i in range(L): for j in range(i + 1, L): if adj[i, j] != 0` -/
def edgeSet (L : ℕ) (adj : ℕ → ℕ → ℤ) : Finset (ℕ × ℕ) :=
  (Finset.range L ×ˢ Finset.range L).filter fun p => p.1 < p.2 ∧ adj p.1 p.2 ≠ 0

theorem mem_edgeSet (L : ℕ) (adj : ℕ → ℕ → ℤ) (i j : ℕ) :
    (i, j) ∈ edgeSet L adj ↔ i < j ∧ j < L ∧ adj i j ≠ 0 := by
  simp only [edgeSet, Finset.mem_filter, Finset.mem_product, Finset.mem_range]
  constructor
  · rintro ⟨⟨_, h2⟩, h3, h4⟩; exact ⟨h3, h2, h4⟩
  · rintro ⟨h1, h2, h3⟩; exact ⟨⟨by omega, h2⟩, h1, h3⟩

theorem scan_eq_sum_edgeSet {M : Type} [AddCommMonoid M] (L : ℕ) (adj : ℕ → ℕ → ℤ) (f : ℕ → ℕ → M) :
    (∑ i ∈ Finset.range L, ∑ j ∈ Finset.Ico (i + 1) L, if adj i j = 0 then 0 else f i j) =
      ∑ p ∈ edgeSet L adj, f p.1 p.2 := by
  unfold edgeSet
  rw [Finset.sum_filter, Finset.sum_product]
  apply Finset.sum_congr rfl
  intro i hi
  have hsub : Finset.Ico (i + 1) L ⊆ Finset.range L := by
    intro j hj; simp only [Finset.mem_Ico] at hj; exact Finset.mem_range.mpr hj.2
  rw [← Finset.sum_subset hsub]
  · apply Finset.sum_congr rfl
    intro j hj
    simp only [Finset.mem_Ico] at hj
    by_cases h : adj i j = 0
    · simp [h]
    · have : i < j := by omega
      simp [h, this]
  · intro j _ hj
    simp only [Finset.mem_Ico, not_and, not_lt] at hj
    have : ¬ i < j := by
      intro hlt
      have := hj (by omega)
      simp only [Finset.mem_range] at *
      omega
    simp [this]

/-- symmetric, zero-diagonal adjacency: the sum over all ordered neighbour pairs is the sum over the scanned
pairs of both orientations – the scan takes every undirected edge exactly once -/
theorem sum_ordered_eq_sum_edgeSet {M : Type} [AddCommMonoid M] (L : ℕ) (adj : ℕ → ℕ → ℤ) (f : ℕ → ℕ → M)
    (hsym : ∀ i j, i < L → j < L → adj i j = adj j i) (hdiag : ∀ i, i < L → adj i i = 0) :
    (∑ i ∈ Finset.range L, ∑ j ∈ Finset.range L, if adj i j = 0 then 0 else f i j) =
      ∑ p ∈ edgeSet L adj, (f p.1 p.2 + f p.2 p.1) := by
  rw [Finset.sum_add_distrib, ← scan_eq_sum_edgeSet, ← scan_eq_sum_edgeSet L adj (fun i j => f j i)]
  -- split each row at the diagonal
  have hrow : ∀ i ∈ Finset.range L, (∑ j ∈ Finset.range L, if adj i j = 0 then 0 else f i j) =
      (∑ j ∈ Finset.range i, if adj i j = 0 then 0 else f i j) +
        ∑ j ∈ Finset.Ico (i + 1) L, if adj i j = 0 then 0 else f i j := by
    intro i hi
    have hi' := Finset.mem_range.mp hi
    rw [Finset.range_eq_Ico, ← Finset.sum_Ico_consecutive _ (Nat.zero_le i) (Nat.le_of_lt hi'),
      Finset.sum_eq_sum_Ico_succ_bot hi']
    simp [hdiag i hi']
  rw [Finset.sum_congr rfl hrow, Finset.sum_add_distrib, add_comm]
  congr 1
  -- lower triangle = upper triangle with the roles exchanged, by symmetry
  rw [Finset.sum_sigma', Finset.sum_sigma']
  refine Finset.sum_bij' (fun x _ => ⟨x.2, x.1⟩) (fun x _ => ⟨x.2, x.1⟩) ?_ ?_ ?_ ?_ ?_
  · rintro ⟨i, j⟩ h
    simp only [Finset.mem_sigma, Finset.mem_range, Finset.mem_Ico] at h ⊢
    omega
  · rintro ⟨i, j⟩ h
    simp only [Finset.mem_sigma, Finset.mem_range, Finset.mem_Ico] at h ⊢
    omega
  · rintro ⟨i, j⟩ _; rfl
  · rintro ⟨i, j⟩ _; rfl
  · rintro ⟨i, j⟩ h
    simp only [Finset.mem_sigma, Finset.mem_range] at h
    simp only
    rw [hsym i j h.1 (by omega)]

/-- for a symmetric summand every edge of the scan is counted exactly twice in the ordered sum -/
theorem two_nsmul_sum_edgeSet {M : Type} [AddCommMonoid M] (L : ℕ) (adj : ℕ → ℕ → ℤ) (f : ℕ → ℕ → M)
    (hsym : ∀ i j, i < L → j < L → adj i j = adj j i) (hdiag : ∀ i, i < L → adj i i = 0)
    (hf : ∀ i j, f i j = f j i) :
    (∑ i ∈ Finset.range L, ∑ j ∈ Finset.range L, if adj i j = 0 then 0 else f i j) =
      2 • ∑ p ∈ edgeSet L adj, f p.1 p.2 := by
  rw [sum_ordered_eq_sum_edgeSet L adj f hsym hdiag, two_nsmul, ← Finset.sum_add_distrib]
  apply Finset.sum_congr rfl
  intro p _
  rw [hf p.2 p.1]

end Qib.Ham
