import QibProofs.Lemmas.TNetEinsumSound
import Mathlib.Algebra.Ring.Int.Defs
/-!
Helper lemmas for C07, part 3: the driver's `contractEinsum` (`TensorNetwork.contract_einsum`: operands read from the data
dictionary, ones-vectors for dangling output labels) returns the defining sum (no property statements).
-/
namespace Qib.TNet

theorem filterMapM_ok_inv {ε γ δ : Type} {f : γ → Except ε (Option δ)} {l : List γ} {r : List δ}
    (h : l.filterMapM f = .ok r) : ∀ a ∈ r, ∃ x ∈ l, f x = .ok (some a) := by
  induction l generalizing r with
  | nil =>
    have : r = [] := by simpa [pure, Except.pure] using h.symm
    subst this; intro a ha; cases ha
  | cons x xs ih =>
    rw [List.filterMapM_cons] at h
    cases hx : f x with
    | error err => rw [hx] at h; cases h
    | ok o =>
      rw [hx] at h
      cases o with
      | none =>
        have h' : xs.filterMapM f = .ok r := h
        intro a ha
        obtain ⟨y, hy, hfy⟩ := ih h' a ha
        exact ⟨y, List.mem_cons_of_mem _ hy, hfy⟩
      | some b =>
        cases hxs : xs.filterMapM f with
        | error err =>
          exfalso
          simp [hxs, bind, Except.bind] at h
        | ok bs =>
          have : r = b :: bs := by
            have h' : (Except.ok (b :: bs) : Except ε (List δ)) = .ok r := by
              simpa [hxs, bind, Except.bind, pure, Except.pure] using h
            cases h'; rfl
          subst this
          intro a ha
          rcases List.mem_cons.mp ha with rfl | ha
          · exact ⟨x, List.mem_cons_self, hx⟩
          · obtain ⟨y, hy, hfy⟩ := ih hxs a ha
            exact ⟨y, List.mem_cons_of_mem _ hy, hfy⟩

theorem isConsistentData_ok {net : Net} {data : Data} (h : isConsistentData net data = .ok true) :
    isConsistent net = .ok true ∧ ∀ e ∈ net.tensors, e.2.tid ≠ -1 →
      ∃ r d, e.2.dataref = some r ∧ data.lookup r = some d ∧ d.shape = e.2.shape := by
  unfold isConsistentData at h
  cases hc : isConsistent net with
  | error err => rw [hc] at h; cases h
  | ok b =>
    rw [hc] at h
    cases b with
    | false => cases h
    | true =>
      refine ⟨rfl, ?_⟩
      simp only [Bool.not_true, Bool.false_eq_true, if_false, bind, Except.bind, pure, Except.pure] at h
      have h' := Except.ok.inj h
      intro e he hne
      have := List.all_eq_true.mp h' e he
      simp only [Bool.or_eq_true, beq_iff_eq] at this
      rcases this with h1 | h1
      · exact absurd h1 hne
      · split at h1
        · cases h1
        · rename_i r hr
          split at h1
          · cases h1
          · rename_i d hd
            exact ⟨r, d, hr, hd, by simpa using h1⟩


/-- the data tensor stored for tensor id `tid` (a scalar zero when there is none) -/
def dataOf (net : Net) (data : Data) (tid : Int) : DT Int := (tensorDict net data tid).getD ⟨[], .s 0⟩

theorem dataOK_dataOf {net : Net} {data : Data} (hk : ∀ e ∈ net.tensors, e.2.tid = e.1) (hcd : isConsistentData net data = .ok true) :
    DataOK net (dataAcc data) (dataOf net data) := by
  intro tid T hne hT
  have hm := mem_of_dget_eq_some _ hT
  have hne' : T.tid ≠ -1 := by rw [hk _ hm]; exact hne
  obtain ⟨r, d, hr, hd, hs⟩ := (isConsistentData_ok hcd).2 _ hm hne'
  simp only at hr hd hs
  have hb : (tid == -1) = false := by simpa using hne
  have : dataOf net data tid = d := by
    simp [dataOf, tensorDict, hb, hT, hr, hd]
  rw [this]
  refine ⟨hs, fun i => ?_⟩
  simp [dataAcc, hr, hd]

/-- **`contract_einsum` returns the defining sum** whenever the specification produced by `as_einsum` is certified -/
theorem contractEinsum_sound {net : Net} {data : Data} (hrep : RepOK net) (hcd : isConsistentData net data = .ok true)
    {e : EinsumSpec} (he : asEinsum net = .ok e) (hok : einsumOK net e = true)
    {r : DT Int} {am : List Nat} (hce : contractEinsum net data = .ok (r, am)) {v : STensor}
    (hv : dget net.tensors (-1) = some v) (idx : List Nat) (hidx : List.Forall₂ (fun i d => i < d) idx v.shape) :
    am = e.axesMap ∧ toFullSem r am idx = full net (dataAcc data) idx := by
  have hwf : WF net := wf_of_consistent hrep (isConsistentData_ok hcd).1
  have hc := (einsumOK_iff hv e).mp hok
  have hdt := dataOK_dataOf hwf.tkey hcd
  unfold contractEinsum at hce
  rw [he] at hce
  simp only [bind, Except.bind] at hce
  split at hce
  · cases hce
  · rename_i args hargs
    have hshape : netShape net = .ok v.shape := by
      simp [netShape, virt, hv, bind, Except.bind, pure, Except.pure]
    rw [hshape] at hce
    simp only at hce
    split at hce
    · cases hce
    · rename_i ones hones
      split at hce
      · cases hce
      · rename_i r' hr'
        simp only [pure, Except.pure, Except.ok.injEq, Prod.mk.injEq] at hce
        obtain ⟨rfl, rfl⟩ := hce
        refine ⟨rfl, ?_⟩
        -- the operands
        have hA : args = eArgs (dataOf net data) e := by
          have hf := mapM_ok_inv hargs
          unfold eArgs
          apply List.ext_getElem
          · simpa using hf.length_eq.symm
          · intro i h1 h2
            have hi : i < (e.tids.zip e.tidx).length := by simpa using h2
            have := (List.forall₂_iff_get.mp hf).2 i hi h1
            simp only [List.get_eq_getElem] at this
            simp only [List.getElem_map]
            have hq : (e.tids.zip e.tidx)[i] ∈ e.tids.zip e.tidx := List.getElem_mem hi
            generalize (e.tids.zip e.tidx)[i] = q at this hq
            obtain ⟨T, hT, _⟩ := hc.rows q hq
            have hne : q.1 ≠ -1 := hc.tid_ne hwf.tnodup (List.of_mem_zip hq).1
            have hm := mem_of_dget_eq_some _ hT
            have hne' : T.tid ≠ -1 := by rw [hwf.tkey _ hm]; exact hne
            obtain ⟨r0, d, hr0, hd, _⟩ := (isConsistentData_ok hcd).2 _ hm hne'
            simp only at hr0 hd
            have hb : (q.1 == -1) = false := by simpa using hne
            simp only [hT, hr0, hd, pure, Except.pure, Except.ok.injEq] at this
            rw [← this]
            simp [dataOf, tensorDict, hb, hT, hr0, hd]
        have hO : OnesOK v e ones := by
          intro a ha
          obtain ⟨k, hk, hfk⟩ := filterMapM_ok_inv hones a ha
          have hk' := List.mem_range.mp hk
          split at hfk
          · cases hfk
          · split at hfk
            · cases hfk
            · rename_i p hp
              split at hfk
              · cases hfk
              · rename_i d hd
                simp only [pure, Except.pure, Except.ok.injEq, Option.some.injEq] at hfk
                refine ⟨e.idxout[k]!, d, p, hfk.symm, ?_, hd⟩
                unfold indexOf? at hp
                split at hp
                · rename_i hcon
                  have hpe : e.axesMap.idxOf k = p := Option.some.inj hp
                  have hmem : k ∈ e.axesMap := List.contains_iff_mem.mp hcon
                  have hlt : e.axesMap.idxOf k < e.axesMap.length := List.idxOf_lt_length_of_mem hmem
                  have hg : e.axesMap[e.axesMap.idxOf k] = k := List.getElem_idxOf hlt
                  subst hpe
                  simp [eVLabels, hlt, hg, hk']
                · cases hp
        rw [hA] at hr'
        exact einsumOK_sound hwf hv hc hdt hO hr' idx hidx

end Qib.TNet
