import QibProofs.Lemmas.CircuitMat
/-!
Core B: the statevector simulator of the executable model returns the first column of the circuit matrix (helper lemmas for C05).
-/
open Matrix
namespace Qib.Embed

section
variable {α : Type} [CommRing α] [DecidableEq α] {N : ℕ}

/-- Mathlib vector of an array-backed vector -/
def vecOf (v : Vector α N) : Fin N → α := fun i => v[i.1]

theorem vecOf_mulVec (A : DMat α N) (v : Vector α N) : vecOf (A.mulVec v) = A.toMatrix *ᵥ vecOf v := by
  funext i
  simp only [vecOf, DMat.mulVec, Vector.getElem_ofFn, Matrix.mulVec, dotProduct, DMat.toMatrix]
  rw [List.sum_ofFn]

theorem vecOf_basis0 : vecOf (basis0 N : Vector α N) = fun i => if i.1 = 0 then 1 else 0 := by
  funext i; simp [vecOf, basis0]

/-- the loop applies the gate matrices in list order; it fails on the first control instruction or embedding error -/
theorem svLoop_spec (fields : List FieldSpec) (instrs : List (Instr α)) (psi w : Vector α (2 ^ numWires fields))
    (h : svLoop fields psi instrs = .ok w) :
    (∀ i ∈ instrs, i ≠ Instr.ctrl) ∧ ∃ Ms, gateMats fields instrs = .ok Ms ∧ Ms.length = instrs.length ∧
      vecOf w = ((Ms.map DMat.toMatrix).reverse).prod *ᵥ vecOf psi := by
  induction instrs generalizing psi with
  | nil =>
    simp only [svLoop, Except.ok.injEq] at h
    subst h
    exact ⟨by simp, [], rfl, rfl, by simp⟩
  | cons i is ih =>
    cases i with
    | ctrl => simp [svLoop] at h
    | gate ps d g =>
      simp only [svLoop] at h
      cases hp : placedMat fields ps d g with
      | error e => rw [hp] at h; simp at h
      | ok M =>
        rw [hp] at h
        obtain ⟨hc, Ms, hMs, hlen, hv⟩ := ih (M.mulVec psi) h
        refine ⟨?_, M :: Ms, ?_, by simp [hlen], ?_⟩
        · intro j hj
          rcases List.mem_cons.mp hj with rfl | hj
          · simp
          · exact hc j hj
        · simp [gateMats, hp, hMs]
        · rw [hv, vecOf_mulVec]
          simp only [List.map_cons, List.reverse_cons, List.prod_append, List.prod_cons, List.prod_nil, mul_one]
          rw [Matrix.mulVec_mulVec]

end
end Qib.Embed
