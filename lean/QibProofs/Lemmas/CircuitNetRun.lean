import QibProofs.Lemmas.CircuitNetSim
/-!
Helper lemmas for C05 (tensor-network part), part 11: merging the `|0>` network onto the input legs of a circuit
network (`TensorNetworkSimulator.run`), and what a successful run of the executable model consists of.
No property statements.
-/
set_option linter.unusedSimpArgs false
set_option linter.unusedSectionVars false
namespace Qib.CircuitNet
open Qib.TNet Qib.GateNet Qib.Embed

/-- the join list of the simulator: input leg `n + i` of the circuit network with leg `i` of the `|0>` network -/
def simJoin (n : Nat) : List (Int × Int) := (List.range n).map (fun i => (Int.ofNat (n + i), Int.ofNat i))

theorem mem_simJoin {n : Nat} {ja : Int × Int} : ja ∈ simJoin n ↔ ∃ i, i < n ∧ ja = (Int.ofNat (n + i), Int.ofNat i) := by
  simp only [simJoin, List.mem_map, List.mem_range]
  constructor
  · rintro ⟨i, hi, rfl⟩; exact ⟨i, hi, rfl⟩
  · rintro ⟨i, hi, rfl⟩; exact ⟨i, hi, rfl⟩

theorem remainingAxes_simJoin (n : Nat) : remainingAxes (2 * n) n (simJoin n) = List.range n := by
  unfold remainingAxes
  have hpred : ∀ k, ((simJoin n).any fun ja => k == ja.1.toNat || k == 2 * n + ja.2.toNat) = decide (n ≤ k ∧ k < 3 * n) := by
    intro k
    rw [Bool.eq_iff_iff]
    simp only [List.any_eq_true, Bool.or_eq_true, beq_iff_eq, decide_eq_true_eq]
    constructor
    · rintro ⟨ja, hja, h⟩
      obtain ⟨i, hi, rfl⟩ := mem_simJoin.mp hja
      simp only [Int.ofNat_eq_natCast, Int.toNat_natCast] at h
      omega
    · rintro ⟨h1, h2⟩
      by_cases hk : k < 2 * n
      · exact ⟨_, mem_simJoin.mpr ⟨k - n, by omega, rfl⟩, Or.inl (by simp only [Int.ofNat_eq_natCast, Int.toNat_natCast]; omega)⟩
      · exact ⟨_, mem_simJoin.mpr ⟨k - 2 * n, by omega, rfl⟩, Or.inr (by simp only [Int.ofNat_eq_natCast, Int.toNat_natCast]; omega)⟩
  have hsplit : List.range (2 * n + n) = List.range n ++ List.range' n (2 * n) := by
    rw [List.range_eq_range', List.range_eq_range']
    have : 2 * n + n = n + 2 * n := by omega
    rw [this, ← List.range'_append_1]
    simp
  rw [hsplit, List.filter_append]
  have h1 : (List.range n).filter (fun k => !(simJoin n).any fun ja => k == ja.1.toNat || k == 2 * n + ja.2.toNat) = List.range n := by
    rw [List.filter_eq_self]
    intro k hk
    rw [hpred]
    have := List.mem_range.mp hk
    have : ¬ (n ≤ k ∧ k < 3 * n) := by omega
    simp [this]
  have h2 : (List.range' n (2 * n)).filter (fun k => !(simJoin n).any fun ja => k == ja.1.toNat || k == 2 * n + ja.2.toNat) = [] := by
    rw [List.filter_eq_nil_iff]
    intro k hk
    rw [hpred]
    have := List.mem_range'_1.mp hk
    have : n ≤ k ∧ k < 3 * n := by omega
    simp [this]
  rw [h1, h2, List.append_nil]

theorem joinsAgree_simJoin (n : Nat) (x y : List Nat) :
    joinsAgree (simJoin n) x y = true ↔ ∀ i, i < n → x[n + i]? = y[i]? := by
  unfold joinsAgree
  rw [List.all_eq_true]
  have e : ∀ i : Nat, ((n : Int) + (i : Int)).toNat = n + i := fun i => by omega
  constructor
  · intro h i hi
    have := h _ (mem_simJoin.mpr ⟨i, hi, rfl⟩)
    simpa [e] using this
  · intro h ja hja
    obtain ⟨i, hi, rfl⟩ := mem_simJoin.mp hja
    simpa [e] using h i hi

theorem survive_sim (n : Nat) (x y idx : List Nat) (hx : x.length = 2 * n) (hy : y.length = n) (hidx : idx.length = n) :
    ((pickD (x ++ y) 0 (List.range n) == idx) && joinsAgree (simJoin n) x y) = true ↔ x = idx ++ y := by
  rw [Bool.and_eq_true, beq_iff_eq, joinsAgree_simJoin]
  have hpick : pickD (x ++ y) 0 (List.range n) = x.take n := by
    apply List.ext_getElem
    · simp [pickD, hx]; omega
    · intro k h1 h2
      have hk : k < n := by simpa [pickD] using h1
      simp only [pickD, List.getElem_map, List.getElem_range, List.getElem_take]
      rw [List.getElem?_append_left (by omega), List.getElem?_eq_getElem (by omega)]
      rfl
  rw [hpick]
  constructor
  · rintro ⟨h1, h2⟩
    have hd : x.drop n = y := by
      apply List.ext_getElem?
      intro i
      rw [List.getElem?_drop]
      by_cases hi : i < n
      · exact h2 i hi
      · rw [List.getElem?_eq_none (by omega), List.getElem?_eq_none (by omega)]
    rw [← List.take_append_drop n x, h1, hd]
  · rintro rfl
    refine ⟨by rw [List.take_left' hidx], fun i hi => ?_⟩
    rw [List.getElem?_append_right (by omega), hidx]
    congr 1; omega

theorem simJoin_dims {a b : Net} {n : Nat} {va vb : STensor} (hva : dget a.tensors (-1) = some va)
    (hvb : dget b.tensors (-1) = some vb) (hsa : va.shape = rep2 (2 * n)) (hsb : vb.shape = rep2 n) :
    C08.JoinDimsMatch a b (simJoin n) := by
  intro va' vb' hva' hvb' ja hja
  rw [hva] at hva'; rw [hvb] at hvb'
  cases hva'; cases hvb'
  obtain ⟨i, hi, rfl⟩ := mem_simJoin.mp hja
  rw [hsa, hsb]
  simp only [rep2, Int.ofNat_eq_natCast, Int.toNat_natCast]
  rw [List.getElem?_replicate, List.getElem?_replicate, if_pos (by omega), if_pos hi]

section Merge
variable {α : Type} [CommSemiring α]

/-- **the last merge of the simulator, symbolically**: `b` with `n` open axes of dimension 2 merged onto the input legs of
`a` (`2n` open axes of dimension 2) leaves the `n` output axes, and the value is the contraction over the inputs -/
theorem sim_merge_full {a b net' : Net} {n : Nat} {tor bor : List Int} (ha : C08.Inv a) (hb : C08.Inv b)
    (ho : C08.OrdersOK a b tor bor) {va vb : STensor} (hva : dget a.tensors (-1) = some va)
    (hvb : dget b.tensors (-1) = some vb) (hsa : va.shape = rep2 (2 * n)) (hsb : vb.shape = rep2 n)
    (hm : merge a b (simJoin n) tor bor = .ok net') (D : Option Int → List Nat → α) :
    C08.Inv net' ∧ (∃ v', dget net'.tensors (-1) = some v' ∧ v'.shape = rep2 n) ∧
    ∀ idx, idx.length = n → Bits idx →
      full net' D idx = ((allIdx (rep2 n)).map (fun y => full a D (idx ++ y) * full b D y)).sum := by
  have hdim : C08.JoinDimsMatch a b (simJoin n) := simJoin_dims hva hvb hsa hsb
  have hinv' : C08.Inv net' := C08.C08_merge_consistent ha hb ho hdim hm
  obtain ⟨v', hv', hsh', hval'⟩ := C08.C08_merge_full ha hb ho hdim hm D hva hvb
  rw [hsa, hsb] at hsh' hval'
  simp only [length_rep2] at hsh' hval'
  rw [remainingAxes_simJoin] at hsh' hval'
  have hsh2 : v'.shape = rep2 n := by
    rw [hsh', ← rep2_add, pickD_rep2]
    · simp
    · intro p hp; have := List.mem_range.mp hp; omega
  refine ⟨hinv', ⟨v', hv', hsh2⟩, ?_⟩
  intro idx hidl hidb
  have hidx : idx ∈ allIdx v'.shape := by rw [hsh2, mem_allIdx_rep2]; exact ⟨hidl, hidb⟩
  rw [hval' idx hidx, sum_swap]
  apply congrArg
  apply List.map_congr_left
  intro y hy
  obtain ⟨hyl, hyb⟩ := mem_allIdx_rep2.mp hy
  have hcond : ∀ x ∈ allIdx (rep2 (2 * n)),
      (if (pickD (x ++ y) 0 (List.range n) == idx && joinsAgree (simJoin n) x y) = true then full a D x * full b D y else 0) =
      if idx ++ y = x then full a D x * full b D y else 0 := by
    intro x hx
    have hxl := (mem_allIdx_rep2.mp hx).1
    have := survive_sim n x y idx hxl hyl hidl
    by_cases hc : x = idx ++ y
    · rw [if_pos (this.mpr hc), if_pos hc.symm]
    · rw [if_neg (fun h => hc (this.mp h)), if_neg (fun h => hc h.symm)]
  have hX : idx ++ y ∈ allIdx (rep2 (2 * n)) := by
    rw [mem_allIdx_rep2]; exact ⟨by simp [hidl, hyl]; omega, hidb.append hyb⟩
  rw [List.map_congr_left hcond, sum_delta_nodup _ (nodup_allIdx _) (idx ++ y) (fun x => full a D x * full b D y),
    if_pos hX]

end Merge

/-! ### anatomy of a successful simulator run -/
section Anatomy
variable {α : Type} [Zero α] [One α] [Add α] [Mul α] [DecidableEq α]

theorem tnRunNet_ok {fields : List FieldSpec} {instrs : List (CInstr α)} {tor bor : List Int} {tn' : TN α}
    (h : tnRunNet fields instrs tor bor = .ok tn') :
    ∃ init tn, initTN (wireDims fields) = .ok init ∧ GateNet.isConsistentData init = .ok true ∧
      circuitNet fields instrs = .ok tn ∧
      mergeTN tn init (simJoin (wireDims fields).length) tor bor = .ok tn' := by
  unfold tnRunNet at h
  simp only [bind, Except.bind] at h
  cases hi : initTN (α := α) (wireDims fields) with
  | error e => rw [hi] at h; cases h
  | ok init =>
    rw [hi] at h
    simp only at h
    cases ha : assertConsistent init with
    | error e => rw [ha] at h; cases h
    | ok u =>
      rw [ha] at h
      simp only at h
      cases hno : liftT (numOpenAxes init.net) with
      | error e => rw [hno] at h; cases h
      | ok k =>
        rw [hno] at h
        simp only at h
        split at h
        · cases h
        · cases hc : circuitNet fields instrs with
          | error e => rw [hc] at h; cases h
          | ok tn =>
            rw [hc] at h
            simp only at h
            cases hn2 : liftT (numOpenAxes tn.net) with
            | error e => rw [hn2] at h; cases h
            | ok k2 =>
              rw [hn2] at h
              refine ⟨init, tn, rfl, ?_, rfl, h⟩
              unfold assertConsistent at ha
              simp only [bind, Except.bind] at ha
              cases hd : GateNet.isConsistentData init with
              | error e => rw [hd] at ha; simp [liftT] at ha
              | ok b =>
                rw [hd] at ha
                cases b with
                | false => simp [liftT, throw, throwThe, MonadExceptOf.throw] at ha
                | true => rfl

theorem tnRun_ok {fields : List FieldSpec} {instrs : List (CInstr α)} {tor bor : List Int} {psi : DT α}
    (h : tnRun fields instrs tor bor = .ok psi) :
    ∃ tn' r am, tnRunNet fields instrs tor bor = .ok tn' ∧ contractEinsum tn' = .ok (r, am) ∧
      toFullTensor r am = .ok psi := by
  unfold tnRun at h
  simp only [bind, Except.bind] at h
  cases hn : tnRunNet fields instrs tor bor with
  | error e => rw [hn] at h; cases h
  | ok tn' =>
    rw [hn] at h
    simp only at h
    cases hc : contractEinsum tn' with
    | error e => rw [hc] at h; simp [liftT] at h
    | ok ram =>
      obtain ⟨r, am⟩ := ram
      rw [hc] at h
      simp only [liftT] at h
      cases ht : toFullTensor r am with
      | error e => rw [ht] at h; cases h
      | ok p =>
        rw [ht] at h
        simp only [Except.ok.injEq] at h
        subst h
        exact ⟨tn', r, am, rfl, hc, ht⟩

end Anatomy

section State
variable {α : Type} [CommSemiring α] [DecidableEq α]

/-- the state of the loop at the end of `circuitNet`, for a circuit whose matrix exists -/
theorem circuit_state (fields : List FieldSpec) (instrs : List (CInstr α)) (tn : TN α)
    (P : DMat α (2 ^ numWires fields)) (hnet : circuitNet fields instrs = .ok tn)
    (hmat : circuitMatrix fields (instrs.map CInstr.toInstr) = .ok P)
    (hg : ∀ p, CInstr.gate p ∈ instrs → GateHyp p) :
    wireDims fields = rep2 (numWires fields) ∧ StateOK (numWires fields) tn := by
  have hloop := circuitNet_ok hnet
  rw [length_wireDims] at hloop
  unfold circuitMatrix at hmat
  split at hmat
  · cases hmat
  · cases hl : circuitMatrixLoop fields none (instrs.map CInstr.toInstr) with
    | error e => rw [hl] at hmat; cases hmat
    | ok acc =>
      rw [hl] at hmat
      cases acc with
      | none => cases hmat
      | some Q =>
        have hwd := wireDims_eq_rep2 fields (loop_some_localDim _ Q hl)
        obtain ⟨hst0, hden0⟩ := init_state (α := α) (wireDims fields) (numWires fields) hwd
        exact ⟨hwd, (loop_den instrs _ tn none (some Q) hst0 hden0 hloop hl hg).1⟩

end State

end Qib.CircuitNet
