import Mathlib.LinearAlgebra.Matrix.Notation
import Mathlib.Data.Complex.Basic
import Mathlib.Analysis.SpecialFunctions.Trigonometric.Basic
import Mathlib.Analysis.SpecialFunctions.Sqrt
import Mathlib.Analysis.SpecialFunctions.Exp
import QibGen.GateFlags
/-!
REFERENCE closed forms of the leaf gates (hand-maintained; namespace `QibRef`).

These are the forms that `harness/translators/gates.py` produced from `src/qib/operator/gates.py` at the pinned commit, frozen.
The property theorems of C01 / C02 / C03 / C16 / C19 are proved about these forms; the forms regenerated from the CURRENT source on
every run live in `QibGen/GatesReal.lean` (namespace `QibSrc`) and `QibProofs/Lemmas/GateBridge.lean` proves, on every run,
`QibSrc.K.mat = QibRef.K.mat` and `QibSrc.K.inv = QibRef.K.inv` for every leaf class K with a tactic that does not depend on how the
source spells the closed form (so an algebraically identical rewrite of `as_matrix` keeps every theorem, and a change of the values
breaks exactly the bridge lemma of that class).
-/
open Matrix
namespace QibRef

/-- `IdentityGate.as_matrix` -/
noncomputable def IdentityGate.mat  : Matrix (Fin 2) (Fin 2) ℂ :=
  !![(((1 : ℝ) : ℝ) : ℂ), (((0 : ℝ) : ℝ) : ℂ); (((0 : ℝ) : ℝ) : ℂ), (((1 : ℝ) : ℝ) : ℂ)]

/-- `PauliXGate.as_matrix` -/
noncomputable def PauliXGate.mat  : Matrix (Fin 2) (Fin 2) ℂ :=
  !![(((0 : ℝ) : ℝ) : ℂ), (((1 : ℝ) : ℝ) : ℂ); (((1 : ℝ) : ℝ) : ℂ), (((0 : ℝ) : ℝ) : ℂ)]

/-- `PauliYGate.as_matrix` -/
noncomputable def PauliYGate.mat  : Matrix (Fin 2) (Fin 2) ℂ :=
  !![(((0 : ℝ) : ℝ) : ℂ), (-((((1 : ℝ) : ℝ) : ℂ) * Complex.I)); ((((1 : ℝ) : ℝ) : ℂ) * Complex.I), (((0 : ℝ) : ℝ) : ℂ)]

/-- `PauliZGate.as_matrix` -/
noncomputable def PauliZGate.mat  : Matrix (Fin 2) (Fin 2) ℂ :=
  !![(((1 : ℝ) : ℝ) : ℂ), (((0 : ℝ) : ℝ) : ℂ); (((0 : ℝ) : ℝ) : ℂ), (((-(1 : ℝ)) : ℝ) : ℂ)]

/-- `HadamardGate.as_matrix` -/
noncomputable def HadamardGate.mat  : Matrix (Fin 2) (Fin 2) ℂ :=
  (((((1 : ℝ) / Real.sqrt (2 : ℝ)) : ℝ) : ℂ) • !![(((1 : ℝ) : ℝ) : ℂ), (((1 : ℝ) : ℝ) : ℂ); (((1 : ℝ) : ℝ) : ℂ), (((-(1 : ℝ)) : ℝ) : ℂ)])

/-- `SxGate.as_matrix` -/
noncomputable def SxGate.mat  : Matrix (Fin 2) (Fin 2) ℂ :=
  (((((1 : ℝ) / Real.sqrt (2 : ℝ)) : ℝ) : ℂ) • !![(((1 : ℝ) : ℝ) : ℂ), (-((((1 : ℝ) : ℝ) : ℂ) * Complex.I)); (-((((1 : ℝ) : ℝ) : ℂ) * Complex.I)), (((1 : ℝ) : ℝ) : ℂ)])

/-- `RxGate.as_matrix` -/
noncomputable def RxGate.mat (theta : ℝ) : Matrix (Fin 2) (Fin 2) ℂ :=
  let c : ℝ := Real.cos (theta / (2 : ℝ))
  let s : ℝ := Real.sin (theta / (2 : ℝ))
  !![((c : ℝ) : ℂ), ((-((((1 : ℝ) : ℝ) : ℂ) * Complex.I)) * ((s : ℝ) : ℂ)); ((-((((1 : ℝ) : ℝ) : ℂ) * Complex.I)) * ((s : ℝ) : ℂ)), ((c : ℝ) : ℂ)]

/-- `RyGate.as_matrix` -/
noncomputable def RyGate.mat (theta : ℝ) : Matrix (Fin 2) (Fin 2) ℂ :=
  let c : ℝ := Real.cos (theta / (2 : ℝ))
  let s : ℝ := Real.sin (theta / (2 : ℝ))
  !![((c : ℝ) : ℂ), (((-s) : ℝ) : ℂ); ((s : ℝ) : ℂ), ((c : ℝ) : ℂ)]

/-- `RzGate.as_matrix` -/
noncomputable def RzGate.mat (theta : ℝ) : Matrix (Fin 2) (Fin 2) ℂ :=
  let x : ℂ := Complex.exp ((((((1 : ℝ) : ℝ) : ℂ) * Complex.I) * ((theta : ℝ) : ℂ)) / (((2 : ℝ) : ℝ) : ℂ))
  !![(starRingEnd ℂ x), (((0 : ℝ) : ℝ) : ℂ); (((0 : ℝ) : ℝ) : ℂ), x]

/-- `RotationGate.as_matrix` -/
noncomputable def RotationGate.mat (ntheta : Fin 3 → ℝ) : Matrix (Fin 2) (Fin 2) ℂ :=
  let theta : ℝ := Real.sqrt ((ntheta 0)^2 + (ntheta 1)^2 + (ntheta 2)^2)
  if theta = 0 then (1 : Matrix (Fin 2) (Fin 2) ℂ) else
  let n : Fin 3 → ℝ := (fun k => ntheta k / theta)
  ((((Real.cos (theta / (2 : ℝ)) : ℝ) : ℂ) • (1 : Matrix (Fin 2) (Fin 2) ℂ)) - ((((((1 : ℝ) : ℝ) : ℂ) * Complex.I) * ((Real.sin (theta / (2 : ℝ)) : ℝ) : ℂ)) • !![(((n 2) : ℝ) : ℂ), ((((n 0) : ℝ) : ℂ) - (((((1 : ℝ) : ℝ) : ℂ) * Complex.I) * (((n 1) : ℝ) : ℂ))); ((((n 0) : ℝ) : ℂ) + (((((1 : ℝ) : ℝ) : ℂ) * Complex.I) * (((n 1) : ℝ) : ℂ))), (((-(n 2)) : ℝ) : ℂ)]))

/-- `SGate.as_matrix` -/
noncomputable def SGate.mat  : Matrix (Fin 2) (Fin 2) ℂ :=
  !![(((1 : ℝ) : ℝ) : ℂ), (((0 : ℝ) : ℝ) : ℂ); (((0 : ℝ) : ℝ) : ℂ), ((((1 : ℝ) : ℝ) : ℂ) * Complex.I)]

/-- `SAdjGate.as_matrix` -/
noncomputable def SAdjGate.mat  : Matrix (Fin 2) (Fin 2) ℂ :=
  !![(((1 : ℝ) : ℝ) : ℂ), (((0 : ℝ) : ℝ) : ℂ); (((0 : ℝ) : ℝ) : ℂ), (-((((1 : ℝ) : ℝ) : ℂ) * Complex.I))]

/-- `TGate.as_matrix` -/
noncomputable def TGate.mat  : Matrix (Fin 2) (Fin 2) ℂ :=
  !![(((1 : ℝ) : ℝ) : ℂ), (((0 : ℝ) : ℝ) : ℂ); (((0 : ℝ) : ℝ) : ℂ), (((((1 : ℝ) : ℝ) : ℂ) + ((((1 : ℝ) : ℝ) : ℂ) * Complex.I)) / ((Real.sqrt (2 : ℝ) : ℝ) : ℂ))]

/-- `TAdjGate.as_matrix` -/
noncomputable def TAdjGate.mat  : Matrix (Fin 2) (Fin 2) ℂ :=
  !![(((1 : ℝ) : ℝ) : ℂ), (((0 : ℝ) : ℝ) : ℂ); (((0 : ℝ) : ℝ) : ℂ), (((((1 : ℝ) : ℝ) : ℂ) - ((((1 : ℝ) : ℝ) : ℂ) * Complex.I)) / ((Real.sqrt (2 : ℝ) : ℝ) : ℂ))]

/-- `PhaseFactorGate.as_matrix` -/
noncomputable def PhaseFactorGate.mat (phi : ℝ) (nwires : ℕ) : Matrix (Fin (2 ^ nwires)) (Fin (2 ^ nwires)) ℂ :=
  (Complex.exp (((((1 : ℝ) : ℝ) : ℂ) * Complex.I) * ((phi : ℝ) : ℂ)) • (1 : Matrix (Fin (2 ^ nwires)) (Fin (2 ^ nwires)) ℂ))

/-- `RxxGate.as_matrix` -/
noncomputable def RxxGate.mat (theta : ℝ) : Matrix (Fin 4) (Fin 4) ℂ :=
  let x : ℝ := Real.cos (theta / (2 : ℝ))
  let y : ℂ := ((-((((1 : ℝ) : ℝ) : ℂ) * Complex.I)) * ((Real.sin (theta / (2 : ℝ)) : ℝ) : ℂ))
  !![((x : ℝ) : ℂ), (((0 : ℝ) : ℝ) : ℂ), (((0 : ℝ) : ℝ) : ℂ), y; (((0 : ℝ) : ℝ) : ℂ), ((x : ℝ) : ℂ), y, (((0 : ℝ) : ℝ) : ℂ); (((0 : ℝ) : ℝ) : ℂ), y, ((x : ℝ) : ℂ), (((0 : ℝ) : ℝ) : ℂ); y, (((0 : ℝ) : ℝ) : ℂ), (((0 : ℝ) : ℝ) : ℂ), ((x : ℝ) : ℂ)]

/-- `RyyGate.as_matrix` -/
noncomputable def RyyGate.mat (theta : ℝ) : Matrix (Fin 4) (Fin 4) ℂ :=
  let x : ℝ := Real.cos (theta / (2 : ℝ))
  let y : ℂ := (((((1 : ℝ) : ℝ) : ℂ) * Complex.I) * ((Real.sin (theta / (2 : ℝ)) : ℝ) : ℂ))
  !![((x : ℝ) : ℂ), (((0 : ℝ) : ℝ) : ℂ), (((0 : ℝ) : ℝ) : ℂ), y; (((0 : ℝ) : ℝ) : ℂ), ((x : ℝ) : ℂ), (-y), (((0 : ℝ) : ℝ) : ℂ); (((0 : ℝ) : ℝ) : ℂ), (-y), ((x : ℝ) : ℂ), (((0 : ℝ) : ℝ) : ℂ); y, (((0 : ℝ) : ℝ) : ℂ), (((0 : ℝ) : ℝ) : ℂ), ((x : ℝ) : ℂ)]

/-- `RzzGate.as_matrix` -/
noncomputable def RzzGate.mat (theta : ℝ) : Matrix (Fin 4) (Fin 4) ℂ :=
  let x : ℂ := Complex.exp (((-((((1 : ℝ) : ℝ) : ℂ) * Complex.I)) * ((theta : ℝ) : ℂ)) / (((2 : ℝ) : ℝ) : ℂ))
  let y : ℂ := (starRingEnd ℂ x)
  !![x, (((0 : ℝ) : ℝ) : ℂ), (((0 : ℝ) : ℝ) : ℂ), (((0 : ℝ) : ℝ) : ℂ); (((0 : ℝ) : ℝ) : ℂ), y, (((0 : ℝ) : ℝ) : ℂ), (((0 : ℝ) : ℝ) : ℂ); (((0 : ℝ) : ℝ) : ℂ), (((0 : ℝ) : ℝ) : ℂ), y, (((0 : ℝ) : ℝ) : ℂ); (((0 : ℝ) : ℝ) : ℂ), (((0 : ℝ) : ℝ) : ℂ), (((0 : ℝ) : ℝ) : ℂ), x]

/-- `ISwapGate.as_matrix` -/
noncomputable def ISwapGate.mat  : Matrix (Fin 4) (Fin 4) ℂ :=
  !![(((1 : ℝ) : ℝ) : ℂ), (((0 : ℝ) : ℝ) : ℂ), (((0 : ℝ) : ℝ) : ℂ), (((0 : ℝ) : ℝ) : ℂ); (((0 : ℝ) : ℝ) : ℂ), (((0 : ℝ) : ℝ) : ℂ), ((((1 : ℝ) : ℝ) : ℂ) * Complex.I), (((0 : ℝ) : ℝ) : ℂ); (((0 : ℝ) : ℝ) : ℂ), ((((1 : ℝ) : ℝ) : ℂ) * Complex.I), (((0 : ℝ) : ℝ) : ℂ), (((0 : ℝ) : ℝ) : ℂ); (((0 : ℝ) : ℝ) : ℂ), (((0 : ℝ) : ℝ) : ℂ), (((0 : ℝ) : ℝ) : ℂ), (((1 : ℝ) : ℝ) : ℂ)]

/-- matrix of `IdentityGate.inverse()` -/
noncomputable def IdentityGate.inv  : Matrix (Fin 2) (Fin 2) ℂ :=
  IdentityGate.mat 
/-- matrix of `PauliXGate.inverse()` -/
noncomputable def PauliXGate.inv  : Matrix (Fin 2) (Fin 2) ℂ :=
  PauliXGate.mat 
/-- matrix of `PauliYGate.inverse()` -/
noncomputable def PauliYGate.inv  : Matrix (Fin 2) (Fin 2) ℂ :=
  PauliYGate.mat 
/-- matrix of `PauliZGate.inverse()` -/
noncomputable def PauliZGate.inv  : Matrix (Fin 2) (Fin 2) ℂ :=
  PauliZGate.mat 
/-- matrix of `HadamardGate.inverse()` -/
noncomputable def HadamardGate.inv  : Matrix (Fin 2) (Fin 2) ℂ :=
  HadamardGate.mat 
/-- matrix of `SxGate.inverse()` -/
noncomputable def SxGate.inv  : Matrix (Fin 2) (Fin 2) ℂ :=
  RxGate.mat (((-(1 / 2 : ℝ)) * Real.pi))
/-- matrix of `RxGate.inverse()` -/
noncomputable def RxGate.inv (theta : ℝ) : Matrix (Fin 2) (Fin 2) ℂ :=
  RxGate.mat ((-theta))
/-- matrix of `RyGate.inverse()` -/
noncomputable def RyGate.inv (theta : ℝ) : Matrix (Fin 2) (Fin 2) ℂ :=
  RyGate.mat ((-theta))
/-- matrix of `RzGate.inverse()` -/
noncomputable def RzGate.inv (theta : ℝ) : Matrix (Fin 2) (Fin 2) ℂ :=
  RzGate.mat ((-theta))
/-- matrix of `RotationGate.inverse()` -/
noncomputable def RotationGate.inv (ntheta : Fin 3 → ℝ) : Matrix (Fin 2) (Fin 2) ℂ :=
  RotationGate.mat (fun k => -(ntheta k))
/-- matrix of `SGate.inverse()` -/
noncomputable def SGate.inv  : Matrix (Fin 2) (Fin 2) ℂ :=
  SAdjGate.mat 
/-- matrix of `SAdjGate.inverse()` -/
noncomputable def SAdjGate.inv  : Matrix (Fin 2) (Fin 2) ℂ :=
  SGate.mat 
/-- matrix of `TGate.inverse()` -/
noncomputable def TGate.inv  : Matrix (Fin 2) (Fin 2) ℂ :=
  TAdjGate.mat 
/-- matrix of `TAdjGate.inverse()` -/
noncomputable def TAdjGate.inv  : Matrix (Fin 2) (Fin 2) ℂ :=
  TGate.mat 
/-- matrix of `PhaseFactorGate.inverse()` -/
noncomputable def PhaseFactorGate.inv (phi : ℝ) (nwires : ℕ) : Matrix (Fin (2 ^ nwires)) (Fin (2 ^ nwires)) ℂ :=
  PhaseFactorGate.mat ((-phi)) nwires
/-- matrix of `RxxGate.inverse()` -/
noncomputable def RxxGate.inv (theta : ℝ) : Matrix (Fin 4) (Fin 4) ℂ :=
  RxxGate.mat ((-theta))
/-- matrix of `RyyGate.inverse()` -/
noncomputable def RyyGate.inv (theta : ℝ) : Matrix (Fin 4) (Fin 4) ℂ :=
  RyyGate.mat ((-theta))
/-- matrix of `RzzGate.inverse()` -/
noncomputable def RzzGate.inv (theta : ℝ) : Matrix (Fin 4) (Fin 4) ℂ :=
  RzzGate.mat ((-theta))
/-- matrix of `ISwapGate.inverse()` -/
noncomputable def ISwapGate.inv  : Matrix (Fin 4) (Fin 4) ℂ :=
  (ISwapGate.mat )ᴴ


end QibRef
