import QibProofs.Lemmas.TNetSurgeryOps
/-!
C08 — Network surgery keeps the network consistent and means what it says.
Property theorems only (helper lemmas: `QibProofs/Lemmas/TNetSurgery*.lean`, `TNetBasic.lean`, `TNetSum.lean`).

All statements are about the executable definitions of `QibModel/TNet.lean` that the driver `drv_tnet` runs
(`isConsistent`, `renameTensor`, `renameBond`, `transpose`, `merge`, `numTensors`, `numBonds`, `numOpenAxes`, `full`).

The invariant is the code's own check: `Inv net := RepOK net ∧ isConsistent net = .ok true`, where `RepOK` lists what
Python dictionaries and the constructors guarantee and `is_consistent` therefore never tests (unique keys,
`len(shape) == len(bids)`, sorted `bond.tids`).
-/
namespace Qib.C08
open Qib.TNet

/-- the invariant: representation facts + the implementation's own consistency check returns `True` -/
def Inv (net : Net) : Prop := RepOK net ∧ isConsistent net = .ok true

/-! ### the executable check says what it should -/

/-- **The consistency check is exact**: a network passes `is_consistent` iff both dictionaries are keyed by the
ids of their entries, every bond has at least two references, tensors and bonds describe the same multiset of legs
`(tensor id, bond id)` (both directions of the incidence, with multiplicities), all axes on a bond have one dimension,
and the virtual tensor `-1` exists. -/
theorem C08_inv_iff_wf (net : Net) : Inv net ↔ WF net :=
  ⟨fun h => wf_of_consistent h.1 h.2, fun h => ⟨h.toWF0.repOK, consistent_of_wf h⟩⟩

/-! ### `rename_tensor` -/

/-- the guard enforced by the code is exactly "the current id exists and the new id does not" … -/
theorem C08_renameTensor_accepts_iff {net : Net} (h : Inv net) (cur new : Int) :
    (∃ net', renameTensor net cur new = .ok net') ↔ cur ∈ dkeys net.tensors ∧ new ∉ dkeys net.tensors := by
  have hw := ((C08_inv_iff_wf net).mp h).toWF0
  constructor
  · rintro ⟨net', hok⟩
    by_contra hc
    rw [renameTensor_err_of hc] at hok; cases hok
  · rintro ⟨h1, h2⟩; exact renameTensor_ok_of hw h1 h2

/-- … and every other call is refused with `ValueError` -/
theorem C08_renameTensor_rejects {net : Net} (cur new : Int)
    (hc : ¬ (cur ∈ dkeys net.tensors ∧ new ∉ dkeys net.tensors)) : renameTensor net cur new = .error .valueError :=
  renameTensor_err_of hc

/-- **`rename_tensor` keeps the network consistent** (for every tensor but the virtual one, whose id `-1` is what
"network" means; `merge` itself renames the virtual tensor of its private copy) -/
theorem C08_renameTensor_consistent {net net' : Net} {cur new : Int} (h : Inv net) (hc : cur ≠ -1)
    (hok : renameTensor net cur new = .ok net') : Inv net' := by
  have hw := (C08_inv_iff_wf net).mp h
  exact (C08_inv_iff_wf net').mpr ⟨renameTensor_wf0 hw.toWF0 hok, renameTensor_virt hw.toWF0 hok hw.virt hc⟩

/-! ### `rename_bond` -/

theorem C08_renameBond_accepts_iff {net : Net} (h : Inv net) (cur new : Int) :
    (∃ net', renameBond net cur new = .ok net') ↔ cur ∈ dkeys net.bonds ∧ new ∉ dkeys net.bonds := by
  have hw := ((C08_inv_iff_wf net).mp h).toWF0
  constructor
  · rintro ⟨net', hok⟩
    by_contra hc
    rw [renameBond_err_of hc] at hok; cases hok
  · rintro ⟨h1, h2⟩; exact renameBond_ok_of hw h1 h2

theorem C08_renameBond_rejects {net : Net} (cur new : Int)
    (hc : ¬ (cur ∈ dkeys net.bonds ∧ new ∉ dkeys net.bonds)) : renameBond net cur new = .error .valueError :=
  renameBond_err_of hc

/-- **`rename_bond` keeps the network consistent** (no guard beyond the code's own) -/
theorem C08_renameBond_consistent {net net' : Net} {cur new : Int} (h : Inv net)
    (hok : renameBond net cur new = .ok net') : Inv net' := by
  have hw := (C08_inv_iff_wf net).mp h
  obtain ⟨B, hB, hnew, rfl⟩ := renameBond_spec hw.toWF0 hok
  refine (C08_inv_iff_wf _).mpr ⟨renameBond_wf0 hw.toWF0 hok, ?_⟩
  show (-1 : Int) ∈ dkeys (relTensors (rep cur new) net.tensors)
  rw [dkeys_relTensors]; exact hw.virt

/-! ### `transpose` -/

/-- `transpose` accepts exactly the full permutations of the open axes (`None` = reversal), like `numpy.transpose` -/
theorem C08_transpose_accepts_iff {net : Net} (h : Inv net) (axes : Option (List Int)) :
    (∃ net', transpose net axes = .ok net') ↔
      ∃ v, dget net.tensors (-1) = some v ∧
        isort (resolveAxes v.shape.length axes) = (List.range v.shape.length).map Int.ofNat := by
  have hw := (C08_inv_iff_wf net).mp h
  constructor
  · rintro ⟨net', hok⟩
    obtain ⟨v, hv, hp, _⟩ := transpose_spec hw hok
    exact ⟨v, hv, hp⟩
  · rintro ⟨v, hv, hp⟩
    exact ⟨_, transpose_of_valid axes hv (hw.tshape _ (mem_of_dget_eq_some _ hv)) hp⟩

theorem C08_transpose_rejects {net : Net} {v : STensor} (axes : Option (List Int)) (hv : dget net.tensors (-1) = some v)
    (hp : isort (resolveAxes v.shape.length axes) ≠ (List.range v.shape.length).map Int.ofNat) :
    transpose net axes = .error .valueError := transpose_of_invalid axes hv hp

/-- **`transpose` keeps the network consistent** -/
theorem C08_transpose_consistent {net net' : Net} {axes : Option (List Int)} (h : Inv net)
    (hok : transpose net axes = .ok net') : Inv net' :=
  (C08_inv_iff_wf net').mpr (transpose_wf ((C08_inv_iff_wf net).mp h) hok)

/-! ### non-vacuity: `TensorNetwork.wrap` of a 2×3 array satisfies the invariant and the operations apply -/

def wrapNet : Net :=
  ⟨[(0, ⟨0, [2, 3], [0, 1], some 7⟩), (-1, ⟨-1, [2, 3], [0, 1], none⟩)], [(0, ⟨0, [-1, 0]⟩), (1, ⟨1, [-1, 0]⟩)]⟩

example : isConsistent wrapNet = .ok true := by decide +kernel
example : (transpose wrapNet none).toOption.map (fun n => n.tensors.map (·.2.shape)) = some [[2, 3], [3, 2]] := by
  decide +kernel
example : (renameTensor wrapNet 0 5).toOption.map (fun n => n.bonds.map (·.2.tids)) = some [[-1, 5], [-1, 5]] := by
  decide +kernel

end Qib.C08
