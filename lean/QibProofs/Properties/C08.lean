import QibProofs.Lemmas.TNetSurgeryTotal
/-!
C08 — Network surgery keeps the network consistent and means what it says.
Property theorems only (helper lemmas: `QibProofs/Lemmas/TNetSurgery*.lean`, `TNetBasic.lean`, `TNetSum.lean`).

All statements are about the executable definitions of `QibModel/TNet.lean` that the driver `drv_tnet` runs
(`isConsistent`, `renameTensor`, `renameBond`, `transpose`, `merge`, `numTensors`, `numBonds`, `numOpenAxes`, `full`).

The invariant is the code's own check: `Inv net := RepOK net ∧ isConsistent net = .ok true`, where `RepOK` lists what
Python dictionaries and the constructors guarantee and `is_consistent` therefore never tests (unique keys,
`len(shape) == len(bids)`, sorted `bond.tids`).
-/
namespace Qib.C08
open Qib.TNet

/-- the invariant: representation facts + the implementation's own consistency check returns `True` -/
def Inv (net : Net) : Prop := RepOK net ∧ isConsistent net = .ok true

/-! ### the executable check says what it should -/

/-- **The consistency check is exact**: a network passes `is_consistent` iff both dictionaries are keyed by the
ids of their entries, every bond has at least two references, tensors and bonds describe the same multiset of legs
`(tensor id, bond id)` (both directions of the incidence, with multiplicities), all axes on a bond have one dimension,
and the virtual tensor `-1` exists. -/
theorem C08_inv_iff_wf (net : Net) : Inv net ↔ WF net :=
  ⟨fun h => wf_of_consistent h.1 h.2, fun h => ⟨h.toWF0.repOK, consistent_of_wf h⟩⟩

/-! ### `rename_tensor` -/

/-- the guard enforced by the code is exactly "the current id exists and the new id does not" … -/
theorem C08_renameTensor_accepts_iff {net : Net} (h : Inv net) (cur new : Int) :
    (∃ net', renameTensor net cur new = .ok net') ↔ cur ∈ dkeys net.tensors ∧ new ∉ dkeys net.tensors := by
  have hw := ((C08_inv_iff_wf net).mp h).toWF0
  constructor
  · rintro ⟨net', hok⟩
    by_contra hc
    rw [renameTensor_err_of hc] at hok; cases hok
  · rintro ⟨h1, h2⟩; exact renameTensor_ok_of hw h1 h2

/-- … and every other call is refused with `ValueError` -/
theorem C08_renameTensor_rejects {net : Net} (cur new : Int)
    (hc : ¬ (cur ∈ dkeys net.tensors ∧ new ∉ dkeys net.tensors)) : renameTensor net cur new = .error .valueError :=
  renameTensor_err_of hc

/-- **`rename_tensor` keeps the network consistent** (for every tensor but the virtual one, whose id `-1` is what
"network" means; `merge` itself renames the virtual tensor of its private copy) -/
theorem C08_renameTensor_consistent {net net' : Net} {cur new : Int} (h : Inv net) (hc : cur ≠ -1)
    (hok : renameTensor net cur new = .ok net') : Inv net' := by
  have hw := (C08_inv_iff_wf net).mp h
  exact (C08_inv_iff_wf net').mpr ⟨renameTensor_wf0 hw.toWF0 hok, renameTensor_virt hw.toWF0 hok hw.virt hc⟩

/-! ### `rename_bond` -/

theorem C08_renameBond_accepts_iff {net : Net} (h : Inv net) (cur new : Int) :
    (∃ net', renameBond net cur new = .ok net') ↔ cur ∈ dkeys net.bonds ∧ new ∉ dkeys net.bonds := by
  have hw := ((C08_inv_iff_wf net).mp h).toWF0
  constructor
  · rintro ⟨net', hok⟩
    by_contra hc
    rw [renameBond_err_of hc] at hok; cases hok
  · rintro ⟨h1, h2⟩; exact renameBond_ok_of hw h1 h2

theorem C08_renameBond_rejects {net : Net} (cur new : Int)
    (hc : ¬ (cur ∈ dkeys net.bonds ∧ new ∉ dkeys net.bonds)) : renameBond net cur new = .error .valueError :=
  renameBond_err_of hc

/-- **`rename_bond` keeps the network consistent** (no guard beyond the code's own) -/
theorem C08_renameBond_consistent {net net' : Net} {cur new : Int} (h : Inv net)
    (hok : renameBond net cur new = .ok net') : Inv net' := by
  have hw := (C08_inv_iff_wf net).mp h
  obtain ⟨B, hB, hnew, rfl⟩ := renameBond_spec hw.toWF0 hok
  refine (C08_inv_iff_wf _).mpr ⟨renameBond_wf0 hw.toWF0 hok, ?_⟩
  show (-1 : Int) ∈ dkeys (relTensors (rep cur new) net.tensors)
  rw [dkeys_relTensors]; exact hw.virt

/-! ### `transpose` -/

/-- `transpose` accepts exactly the full permutations of the open axes (`None` = reversal), like `numpy.transpose` -/
theorem C08_transpose_accepts_iff {net : Net} (h : Inv net) (axes : Option (List Int)) :
    (∃ net', transpose net axes = .ok net') ↔
      ∃ v, dget net.tensors (-1) = some v ∧
        isort (resolveAxes v.shape.length axes) = (List.range v.shape.length).map Int.ofNat := by
  have hw := (C08_inv_iff_wf net).mp h
  constructor
  · rintro ⟨net', hok⟩
    obtain ⟨v, hv, hp, _⟩ := transpose_spec hw hok
    exact ⟨v, hv, hp⟩
  · rintro ⟨v, hv, hp⟩
    exact ⟨_, transpose_of_valid axes hv (hw.tshape _ (mem_of_dget_eq_some _ hv)) hp⟩

theorem C08_transpose_rejects {net : Net} {v : STensor} (axes : Option (List Int)) (hv : dget net.tensors (-1) = some v)
    (hp : isort (resolveAxes v.shape.length axes) ≠ (List.range v.shape.length).map Int.ofNat) :
    transpose net axes = .error .valueError := transpose_of_invalid axes hv hp

/-- **`transpose` keeps the network consistent** -/
theorem C08_transpose_consistent {net net' : Net} {axes : Option (List Int)} (h : Inv net)
    (hok : transpose net axes = .ok net') : Inv net' :=
  (C08_inv_iff_wf net').mpr (transpose_wf ((C08_inv_iff_wf net).mp h) hok)

/-! ### `merge` -/

/-- the dimension guard of a join list: joined open axes have equal dimensions (the code does not test it; a join of
axes of different dimensions has no meaning as a contraction) -/
def JoinDimsMatch (a b : Net) (j : List (Int × Int)) : Prop :=
  ∀ va vb, dget a.tensors (-1) = some va → dget b.tensors (-1) = some vb →
    ∀ ja ∈ j, va.shape[ja.1.toNat]? = vb.shape[ja.2.toNat]?

/-- the two iteration orders of Python sets that `merge` consumes are permutations of the shared ids
(checked by the driver on every call; the theorems hold for every such order) -/
def OrdersOK (a b : Net) (tor bor : List Int) : Prop := tor.Perm (sharedTids a b) ∧ bor.Perm (sharedBids a b)

/-- **`merge` keeps the network consistent**: whenever it returns (range checks passed, no fused bond is left with
fewer than two references - the code's `assert`), the result passes the consistency check, for every join list
(axes may be reused on either side) with matching dimensions and every iteration order of the shared-id sets. -/
theorem C08_merge_consistent {a b net' : Net} {j : List (Int × Int)} {tor bor : List Int} (ha : Inv a) (hb : Inv b)
    (ho : OrdersOK a b tor bor) (hdim : JoinDimsMatch a b j) (hok : merge a b j tor bor = .ok net') : Inv net' :=
  (C08_inv_iff_wf net').mpr
    (merge_wf ((C08_inv_iff_wf a).mp ha) ((C08_inv_iff_wf b).mp hb) ho.1 ho.2 hdim hok)

/-- a successful `merge` only happened with all joined axes in range (the `ValueError` guard of the code) -/
theorem C08_merge_accepts_only_in_range {a b net' : Net} {j : List (Int × Int)} {tor bor : List Int}
    (hok : merge a b j tor bor = .ok net') :
    ∃ oa ob, numOpenAxes a = .ok oa ∧ (j ≠ [] → numOpenAxes b = .ok ob) ∧
      ∀ ja ∈ j, 0 ≤ ja.1 ∧ ja.1 < oa ∧ 0 ≤ ja.2 ∧ ja.2 < ob := by
  obtain ⟨orig, nb, _, _, _, _, _, _, _, _, _, _, _, h1, h2, h3, _⟩ := merge_ok_inv hok
  exact ⟨orig, nb, h1, h2, h3⟩

/-- … and a join pair outside the open axes of either operand is refused with `ValueError` (the guard the code
enforces), whatever else is passed -/
theorem C08_merge_rejects_out_of_range {a b : Net} {j : List (Int × Int)} {tor bor : List Int} {oa ob : Nat}
    (hoa : numOpenAxes a = .ok oa) (hob : numOpenAxes b = .ok ob)
    (h : ∃ ja ∈ j, ¬ (0 ≤ ja.1 ∧ ja.1 < oa ∧ 0 ≤ ja.2 ∧ ja.2 < ob)) : merge a b j tor bor = .error .valueError :=
  merge_out_of_range hoa hob h

/-- **The guard of `merge` is exact**: on consistent operands, with every join pair inside the open axes and of
matching dimensions, `merge` either returns a network or stops at its own `assert` (a fused bond would be left with
fewer than two references, e.g. a closed loop of identity wires) – no other exception can occur. -/
theorem C08_merge_returns_or_asserts {a b : Net} {j : List (Int × Int)} {tor bor : List Int} (ha : Inv a) (hb : Inv b)
    (ho : OrdersOK a b tor bor) (hdim : JoinDimsMatch a b j) {va vb : STensor}
    (hva : dget a.tensors (-1) = some va) (hvb : dget b.tensors (-1) = some vb)
    (hrange : ∀ ja ∈ j, 0 ≤ ja.1 ∧ ja.1 < va.shape.length ∧ 0 ≤ ja.2 ∧ ja.2 < vb.shape.length) :
    (∃ net', merge a b j tor bor = .ok net') ∨ merge a b j tor bor = .error .assertion :=
  merge_total ((C08_inv_iff_wf a).mp ha) ((C08_inv_iff_wf b).mp hb) ho.1 ho.2 hdim hva hvb hrange

/-! ### counting laws -/

/-- `rename_tensor`, `rename_bond`, `transpose` change no count -/
theorem C08_renameTensor_counts {net net' : Net} {cur new : Int} (h : Inv net) (hc : cur ≠ -1)
    (hok : renameTensor net cur new = .ok net') :
    numTensors net' = numTensors net ∧ numBonds net' = numBonds net ∧ numOpenAxes net' = numOpenAxes net := by
  have hw := (C08_inv_iff_wf net).mp h
  have hw' := (C08_inv_iff_wf net').mp (C08_renameTensor_consistent h hc hok)
  obtain ⟨T, hT, hnew, rfl⟩ := renameTensor_spec hw.toWF0 hok
  obtain ⟨v, hv⟩ := hw.virt_get
  have hv' : dget (dpop net.tensors cur ++ [(new, { T with tid := new })]) (-1) = some v :=
    dget_append_left _ _ (by rw [dget_dpop_ne _ (fun e => hc e.symm)]; exact hv)
  refine ⟨?_, ?_, ?_⟩
  · rw [numTensors_eq hw'.virt, numTensors_eq hw.virt]
    have := length_dpop_of_nodup net.tensors hw.tnodup (mem_dkeys_of_mem (mem_of_dget_eq_some _ hT))
    simp only at this
    simp only [List.length_append, List.length_cons, List.length_nil]
    congr 1; omega
  · simp [numBonds, relBonds]
  · rw [numOpenAxes_eq hv', numOpenAxes_eq hv]

theorem C08_renameBond_counts {net net' : Net} {cur new : Int} (h : Inv net)
    (hok : renameBond net cur new = .ok net') :
    numTensors net' = numTensors net ∧ numBonds net' = numBonds net ∧ numOpenAxes net' = numOpenAxes net := by
  have hw := (C08_inv_iff_wf net).mp h
  have hw' := (C08_inv_iff_wf net').mp (C08_renameBond_consistent h hok)
  obtain ⟨B, hB, hnew, rfl⟩ := renameBond_spec hw.toWF0 hok
  obtain ⟨v, hv⟩ := hw.virt_get
  have hv' : dget (relTensors (rep cur new) net.tensors) (-1) = some { v with bids := v.bids.map (rep cur new) } := by
    rw [dget_relTensors, hv]; rfl
  refine ⟨?_, ?_, ?_⟩
  · rw [numTensors_eq hw'.virt, numTensors_eq hw.virt]; simp [relTensors]
  · have := length_dpop_of_nodup net.bonds hw.bnodup (mem_dkeys_of_mem (mem_of_dget_eq_some _ hB))
    simp only at this
    simp only [numBonds, List.length_append, List.length_cons, List.length_nil]; omega
  · rw [numOpenAxes_eq hv', numOpenAxes_eq hv]

theorem C08_transpose_counts {net net' : Net} {axes : Option (List Int)} (h : Inv net)
    (hok : transpose net axes = .ok net') :
    numTensors net' = numTensors net ∧ numBonds net' = numBonds net ∧ numOpenAxes net' = numOpenAxes net := by
  have hw := (C08_inv_iff_wf net).mp h
  have hw' := (C08_inv_iff_wf net').mp (C08_transpose_consistent h hok)
  obtain ⟨v, hv, hp, rfl⟩ := transpose_spec hw hok
  have hv' : dget (dmodify net.tensors (-1) (fun _ => transposedVirt v axes)) (-1) = some (transposedVirt v axes) := by
    rw [dget_dmodify, hv]; simp
  refine ⟨?_, rfl, ?_⟩
  · rw [numTensors_eq hw'.virt, numTensors_eq hw.virt]; simp [dmodify]
  · rw [numOpenAxes_eq hv', numOpenAxes_eq hv]
    have := (toNat_perm_of_isort hp).length_eq
    simp only [transposedVirt, pickD, List.length_map, List.length_range] at this ⊢
    rw [this]

/-- **The counts add up after `merge`**: tensors add; open axes: `a + b −` (number of distinct joined axes of the
first) `−` (number of distinct joined axes of the second); bonds: at most the sum, and every join pair fuses at most
one pair of bonds. -/
theorem C08_merge_counts {a b net' : Net} {j : List (Int × Int)} {tor bor : List Int} (ha : Inv a) (hb : Inv b)
    (ho : OrdersOK a b tor bor) (hdim : JoinDimsMatch a b j) (hok : merge a b j tor bor = .ok net') :
    ∃ ta tb oa ob, numTensors a = .ok ta ∧ numTensors b = .ok tb ∧ numOpenAxes a = .ok oa ∧ numOpenAxes b = .ok ob ∧
      numTensors net' = .ok (ta + tb) ∧
      numOpenAxes net' = .ok (oa + ob - (distinct (j.map (·.1)) + distinct (j.map (·.2)))) ∧
      distinct (j.map (·.1)) + distinct (j.map (·.2)) ≤ oa + ob ∧
      numBonds net' ≤ numBonds a + numBonds b ∧ numBonds a + numBonds b ≤ numBonds net' + j.length := by
  have wa := (C08_inv_iff_wf a).mp ha
  have wb := (C08_inv_iff_wf b).mp hb
  have r := merge_result wa wb ho.1 ho.2 hdim hok
  obtain ⟨c1, c2, c3, va, vb, v', hva, hvb, hv', c4⟩ := merge_counts_of_result r
  have hta : 1 ≤ a.tensors.length := List.length_pos_of_mem (mem_of_dget_eq_some _ hva)
  have htb : 1 ≤ b.tensors.length := List.length_pos_of_mem (mem_of_dget_eq_some _ hvb)
  refine ⟨a.tensors.length - 1, b.tensors.length - 1, va.shape.length, vb.shape.length, numTensors_eq wa.virt,
    numTensors_eq wb.virt, numOpenAxes_eq hva, numOpenAxes_eq hvb, ?_, ?_, by omega, c2, c3⟩
  · rw [numTensors_eq r.wf.virt]; congr 1; omega
  · rw [numOpenAxes_eq hv']; congr 1; omega

/-- **The number of bonds after `merge`, exactly**: the sum minus the number of effective fusions. `fuseCount`
processes the pairs of bond ids on the joined axes (tagged by operand) in order: a pair that is already on one bond
fuses nothing, any other pair fuses two bonds into one – the rank of the join graph (touched bonds − connected
components), so axes reused in several pairs and several axes on one bond are accounted for. -/
theorem C08_merge_numBonds {a b net' : Net} {j : List (Int × Int)} {tor bor : List Int} (ha : Inv a) (hb : Inv b)
    (ho : OrdersOK a b tor bor) (hdim : JoinDimsMatch a b j) (hok : merge a b j tor bor = .ok net')
    {va vb : STensor} (hva : dget a.tensors (-1) = some va) (hvb : dget b.tensors (-1) = some vb) :
    numBonds net' + fuseCount (taggedPairs va vb j) = numBonds a + numBonds b :=
  merge_numBonds ((C08_inv_iff_wf a).mp ha) ((C08_inv_iff_wf b).mp hb) ho.1 ho.2 hdim hok hva hvb

/-! ### what the operations mean: the contracted value `full`

`full net D idx` is the defining sum of the network: the sum over all assignments of an index to every bond without
open leg of the product of the tensor entries (`D r i` = entry `i` of the array stored under data reference `r`), the
bonds with open legs pinned to the logical multi-index `idx`. `α` is any commutative semiring (the driver computes in
`Int`, the implementation in floating point). -/
section Value
variable {α : Type} [CommSemiring α]

/-- **Renaming a tensor leaves the contracted value unchanged** (every entry, every data assignment) -/
theorem C08_renameTensor_full {net net' : Net} {cur new : Int} (h : Inv net) (hc : cur ≠ -1)
    (hok : renameTensor net cur new = .ok net') (D : Option Int → List Nat → α) (idx : List Nat) :
    full net' D idx = full net D idx :=
  renameTensor_full ((C08_inv_iff_wf net).mp h) hc hok D idx

/-- **Renaming a bond leaves the contracted value unchanged** -/
theorem C08_renameBond_full {net net' : Net} {cur new : Int} (h : Inv net)
    (hok : renameBond net cur new = .ok net') (D : Option Int → List Nat → α) (idx : List Nat) :
    full net' D idx = full net D idx :=
  renameBond_full ((C08_inv_iff_wf net).mp h) hok D idx

/-- **`transpose` transposes the value like `numpy.transpose`**: with `ax` the (resolved) axes list,
`transpose(net, ax)[j[ax[0]], …, j[ax[n-1]]] = net[j]` for every multi-index `j` of the original network
(`pickD j 0 ax = [j[ax[0]], …]`; `ax = None` is the reversal). -/
theorem C08_transpose_full {net net' : Net} {axes : Option (List Int)} (h : Inv net)
    (hok : transpose net axes = .ok net') (D : Option Int → List Nat → α) {v : STensor}
    (hv : dget net.tensors (-1) = some v) (j : List Nat) (hj : j.length = v.shape.length) :
    full net' D (pickD j 0 ((resolveAxes v.shape.length axes).map Int.toNat)) = full net D j :=
  transpose_full ((C08_inv_iff_wf net).mp h) hok D hv j hj

/-- the shape is transposed alongside -/
theorem C08_transpose_shape {net net' : Net} {axes : Option (List Int)} (h : Inv net)
    (hok : transpose net axes = .ok net') {v : STensor} (hv : dget net.tensors (-1) = some v) :
    netShape net' = .ok (pickD v.shape 0 ((resolveAxes v.shape.length axes).map Int.toNat)) := by
  obtain ⟨v0, hv0, _, rfl⟩ := transpose_spec ((C08_inv_iff_wf net).mp h) hok
  rw [hv] at hv0; cases hv0
  unfold netShape virt
  rw [dget_dmodify, hv]
  simp [transposedVirt]

/-- **`merge` means the generalised contraction over the joined axes.** With `x`, `y` ranging over all multi-indices of
the two operands (`allIdx shape`), the merged network has at every index `idx` within its shape the value

  `Σ_x Σ_y [ (x ++ y) restricted to the remaining axes = idx ] · [ x[p] = y[q] for every join pair (p, q) ] · a[x] · b[y]`,

i.e. the contraction of the two values over the joined axes (an axis joined several times identifies all the legs
involved – the general case, no injectivity assumed), the remaining open axes being those of the first operand
followed by those of the second (`remainingAxes` is increasing); its shape is the corresponding sub-list of the two
shapes. Holds for every data assignment `D`, every iteration order of the shared-id sets and every scalar semiring. -/
theorem C08_merge_full {a b net' : Net} {j : List (Int × Int)} {tor bor : List Int} (ha : Inv a) (hb : Inv b)
    (ho : OrdersOK a b tor bor) (hdim : JoinDimsMatch a b j) (hok : merge a b j tor bor = .ok net')
    (D : Option Int → List Nat → α) {va vb : STensor} (hva : dget a.tensors (-1) = some va)
    (hvb : dget b.tensors (-1) = some vb) :
    ∃ v', dget net'.tensors (-1) = some v' ∧
      v'.shape = pickD (va.shape ++ vb.shape) 0 (remainingAxes va.shape.length vb.shape.length j) ∧
      ∀ idx ∈ allIdx v'.shape, full net' D idx =
        ((allIdx va.shape).map (fun x => ((allIdx vb.shape).map (fun y =>
          if pickD (x ++ y) 0 (remainingAxes va.shape.length vb.shape.length j) == idx && joinsAgree j x y then
            full a D x * full b D y else 0)).sum)).sum := by
  have wa := (C08_inv_iff_wf a).mp ha
  have wb := (C08_inv_iff_wf b).mp hb
  obtain ⟨v', hv', hsh, hval⟩ := merge_full_raw wa wb ho.1 ho.2 hdim hok D hva hvb
  obtain ⟨oa, ob, hoa, hob, hrange⟩ := C08_merge_accepts_only_in_range hok
  rw [numOpenAxes_eq hva] at hoa
  have hoa' : oa = va.shape.length := (Except.ok.inj hoa).symm
  refine ⟨v', hv', by rw [hsh, keptAxes_eq], ?_⟩
  intro idx hidx
  rw [hval idx hidx, keptAxes_eq]
  apply congrArg
  apply List.map_congr_left
  intro x hx
  apply congrArg
  apply List.map_congr_left
  intro y _
  rw [joinsAgree_eq j x y va.shape.length (length_of_mem_allIdx hx) (fun ja hja => by
    have := hrange ja hja; rw [hoa'] at this; exact ⟨this.1, this.2.1⟩)]
  by_cases c1 : (pickD (x ++ y) 0 (remainingAxes va.shape.length vb.shape.length j) == idx) = true <;>
    by_cases c2 : joinsAgree j x y = true <;> simp [c1, c2]

/-- the special case of an empty join list: the merged network is the outer product, first operand's axes first -/
theorem C08_merge_full_outer {a b net' : Net} {tor bor : List Int} (ha : Inv a) (hb : Inv b)
    (ho : OrdersOK a b tor bor) (hok : merge a b [] tor bor = .ok net')
    (D : Option Int → List Nat → α) {va vb : STensor} (hva : dget a.tensors (-1) = some va)
    (hvb : dget b.tensors (-1) = some vb) :
    netShape net' = .ok (va.shape ++ vb.shape) ∧
      ∀ x ∈ allIdx va.shape, ∀ y ∈ allIdx vb.shape, full net' D (x ++ y) = full a D x * full b D y := by
  obtain ⟨v', hv', hsh, hval⟩ := C08_merge_full ha hb ho (fun _ _ _ _ ja hja => by simp at hja) hok D hva hvb
  have hK : remainingAxes va.shape.length vb.shape.length [] = List.range (va.shape ++ vb.shape).length := by
    simp [remainingAxes]
  rw [hK, pickD_range] at hsh
  refine ⟨by simp only [netShape, virt, hv', bind, Except.bind, pure, Except.pure, hsh], ?_⟩
  intro x hx y hy
  have hxy : x ++ y ∈ allIdx v'.shape := by
    rw [hsh, mem_allIdx]
    exact List.rel_append (mem_allIdx.mp hx) (mem_allIdx.mp hy)
  rw [hval _ hxy, hK]
  have hterm : ∀ x' ∈ allIdx va.shape, ((allIdx vb.shape).map (fun y' =>
      if pickD (x' ++ y') 0 (List.range (va.shape ++ vb.shape).length) == x ++ y && joinsAgree [] x' y' then
        full a D x' * full b D y' else 0)).sum = if x = x' then full a D x' * full b D y else 0 := by
    intro x' hx'
    have h1 : ∀ y' ∈ allIdx vb.shape,
        (if pickD (x' ++ y') 0 (List.range (va.shape ++ vb.shape).length) == x ++ y && joinsAgree [] x' y' then
          full a D x' * full b D y' else 0) = if y = y' then (if x = x' then full a D x' * full b D y' else 0) else 0 := by
      intro y' hy'
      have hl : (x' ++ y').length = (va.shape ++ vb.shape).length := by
        simp [length_of_mem_allIdx hx', length_of_mem_allIdx hy']
      rw [← hl, pickD_range]
      have hxl : x'.length = x.length := by rw [length_of_mem_allIdx hx', length_of_mem_allIdx hx]
      have hj : joinsAgree [] x' y' = true := rfl
      rw [hj, Bool.and_true]
      by_cases hboth : x = x' ∧ y = y'
      · obtain ⟨rfl, rfl⟩ := hboth
        simp
      · have hne : (x' ++ y' == x ++ y) = false := by
          rw [beq_eq_false_iff_ne]
          intro e
          have := List.append_inj e hxl
          exact hboth ⟨this.1.symm, this.2.symm⟩
        rw [hne]
        simp only [Bool.false_eq_true, if_false]
        by_cases c2 : y = y'
        · have c1 : ¬ x = x' := fun c1 => hboth ⟨c1, c2⟩
          rw [if_pos c2, if_neg c1]
        · rw [if_neg c2]
    rw [List.map_congr_left h1, sum_delta_nodup _ (nodup_allIdx _), if_pos hy]
  rw [List.map_congr_left hterm, sum_delta_nodup _ (nodup_allIdx _), if_pos hx]

/-- **The data dictionaries are united correctly** (`TensorNetwork.merge`): if the two networks come with their own data
assignments `Da`, `Db` that agree on every data reference used by both (what the equality check on clashing
dictionary entries enforces), then under the united assignment – the second operand's entries extend/override the
first's, as `dict.update` does – the merged network is the contraction of the value of the first network under `Da`
with the value of the second under `Db`. -/
theorem C08_merge_full_data_union {a b net' : Net} {j : List (Int × Int)} {tor bor : List Int} (ha : Inv a)
    (hb : Inv b) (ho : OrdersOK a b tor bor) (hdim : JoinDimsMatch a b j) (hok : merge a b j tor bor = .ok net')
    (Da Db : Option Int → List Nat → α) (hclash : ∀ r ∈ dataRefs a, r ∈ dataRefs b → Da r = Db r)
    {va vb : STensor} (hva : dget a.tensors (-1) = some va) (hvb : dget b.tensors (-1) = some vb) :
    ∃ v', dget net'.tensors (-1) = some v' ∧
      ∀ idx ∈ allIdx v'.shape, full net' (fun r => if r ∈ dataRefs b then Db r else Da r) idx =
        ((allIdx va.shape).map (fun x => ((allIdx vb.shape).map (fun y =>
          if pickD (x ++ y) 0 (remainingAxes va.shape.length vb.shape.length j) == idx && joinsAgree j x y then
            full a Da x * full b Db y else 0)).sum)).sum := by
  obtain ⟨v', hv', _, hval⟩ := C08_merge_full ha hb ho hdim hok (fun r => if r ∈ dataRefs b then Db r else Da r) hva hvb
  refine ⟨v', hv', fun idx hidx => ?_⟩
  rw [hval idx hidx]
  have e1 : ∀ x, full a (fun r => if r ∈ dataRefs b then Db r else Da r) x = full a Da x := by
    intro x
    apply full_congr_data
    intro r hr
    by_cases hrb : r ∈ dataRefs b
    · simp only [hrb, if_true]; exact (hclash r hr hrb).symm
    · simp only [hrb, if_false]
  have e2 : ∀ y, full b (fun r => if r ∈ dataRefs b then Db r else Da r) y = full b Db y := by
    intro y
    apply full_congr_data
    intro r hr
    simp only [hr, if_true]
  simp only [e1, e2]

/-- **`merge` depends on its second operand only through that operand's value**: two second operands with the same
shape and the same contracted values give merged networks with the same shape and the same values (whatever their
tensor ids, bond ids, internal structure and the iteration orders used). In particular the second operand is an
argument, not a state: nothing of it but its meaning enters the result. (That the Python object passed as second
operand is not mutated is checked on the real objects by the correspondence harness – the model is a pure function.) -/
theorem C08_merge_pure {a b b' n1 n2 : Net} {j : List (Int × Int)} {tor bor tor' bor' : List Int} (ha : Inv a)
    (hb : Inv b) (hb' : Inv b') (ho : OrdersOK a b tor bor) (ho' : OrdersOK a b' tor' bor')
    (hdim : JoinDimsMatch a b j) (hdim' : JoinDimsMatch a b' j)
    (h1 : merge a b j tor bor = .ok n1) (h2 : merge a b' j tor' bor' = .ok n2)
    (D : Option Int → List Nat → α) (hshape : netShape b = netShape b') (hval : ∀ y, full b D y = full b' D y) :
    netShape n1 = netShape n2 ∧ ∀ s, netShape n1 = .ok s → ∀ idx ∈ allIdx s, full n1 D idx = full n2 D idx := by
  obtain ⟨va, hva⟩ := ((C08_inv_iff_wf a).mp ha).virt_get
  obtain ⟨vb, hvb⟩ := ((C08_inv_iff_wf b).mp hb).virt_get
  obtain ⟨vb', hvb'⟩ := ((C08_inv_iff_wf b').mp hb').virt_get
  have hs : vb.shape = vb'.shape := by
    unfold netShape virt at hshape
    rw [hvb, hvb'] at hshape
    exact Except.ok.inj hshape
  obtain ⟨v1, hv1, hsh1, hval1⟩ := C08_merge_full ha hb ho hdim h1 D hva hvb
  obtain ⟨v2, hv2, hsh2, hval2⟩ := C08_merge_full ha hb' ho' hdim' h2 D hva hvb'
  have hns1 : netShape n1 = .ok v1.shape := by unfold netShape virt; rw [hv1]; rfl
  have hns2 : netShape n2 = .ok v2.shape := by unfold netShape virt; rw [hv2]; rfl
  have hsh : v1.shape = v2.shape := by rw [hsh1, hsh2, hs]
  refine ⟨by rw [hns1, hns2, hsh], ?_⟩
  intro s hs' idx hidx
  rw [hns1] at hs'
  have : s = v1.shape := (Except.ok.inj hs').symm
  subst this
  rw [hval1 idx hidx, hval2 idx (by rw [← hsh]; exact hidx), ← hs]
  simp only [hval]

end Value

/-! ### operation sequences -/

/-- one surgery operation applied to one of several networks (`merge i k`: network `k` is merged into network `i`) -/
inductive Op where
  | renameTensor (i : Nat) (cur new : Int)
  | renameBond (i : Nat) (cur new : Int)
  | transpose (i : Nat) (axes : Option (List Int))
  | merge (i k : Nat) (join : List (Int × Int)) (tor bor : List Int)

def getNet (nets : List Net) (i : Nat) : Except Err Net :=
  match nets[i]? with
  | some n => .ok n
  | none => .error .indexError

/-- apply one operation; only network `i` changes (the second operand of `merge` is an argument, not a state) -/
def applyOp (nets : List Net) : Op → Except Err (List Net)
  | .renameTensor i cur new => do let n ← getNet nets i; return nets.set i (← renameTensor n cur new)
  | .renameBond i cur new => do let n ← getNet nets i; return nets.set i (← renameBond n cur new)
  | .transpose i axes => do let n ← getNet nets i; return nets.set i (← transpose n axes)
  | .merge i k join tor bor => do
    let a ← getNet nets i
    let b ← getNet nets k
    return nets.set i (← merge a b join tor bor)

/-- the guards under which the invariant is claimed (everything else is enforced by the code itself) -/
def opGuard (nets : List Net) : Op → Prop
  | .renameTensor _ cur _ => cur ≠ -1
  | .renameBond _ _ _ => True
  | .transpose _ _ => True
  | .merge i k join tor bor => ∀ a b, nets[i]? = some a → nets[k]? = some b → OrdersOK a b tor bor ∧ JoinDimsMatch a b join

/-- **Every single operation preserves the invariant** -/
theorem C08_step_consistent {nets nets' : List Net} {op : Op} (h : ∀ n ∈ nets, Inv n) (hg : opGuard nets op)
    (hok : applyOp nets op = .ok nets') : ∀ n ∈ nets', Inv n := by
  have hget : ∀ i n, getNet nets i = .ok n → nets[i]? = some n ∧ n ∈ nets := by
    intro i n hn
    unfold getNet at hn
    cases hi : nets[i]? with
    | none => rw [hi] at hn; cases hn
    | some m =>
      rw [hi] at hn
      have := Except.ok.inj hn; subst this
      exact ⟨rfl, List.mem_of_getElem? hi⟩
  have hset : ∀ i (x : Net), Inv x → ∀ n ∈ nets.set i x, Inv n := by
    intro i x hx n hn
    rcases List.mem_or_eq_of_mem_set hn with hn | rfl
    · exact h n hn
    · exact hx
  cases op with
  | renameTensor i cur new =>
    simp only [applyOp, bind, Except.bind, pure, Except.pure] at hok
    split at hok
    · cases hok
    · rename_i n hn
      split at hok
      · cases hok
      · rename_i n' hn'
        rw [← Except.ok.inj hok]
        exact hset i n' (C08_renameTensor_consistent (h n (hget i n hn).2) hg hn')
  | renameBond i cur new =>
    simp only [applyOp, bind, Except.bind, pure, Except.pure] at hok
    split at hok
    · cases hok
    · rename_i n hn
      split at hok
      · cases hok
      · rename_i n' hn'
        rw [← Except.ok.inj hok]
        exact hset i n' (C08_renameBond_consistent (h n (hget i n hn).2) hn')
  | transpose i axes =>
    simp only [applyOp, bind, Except.bind, pure, Except.pure] at hok
    split at hok
    · cases hok
    · rename_i n hn
      split at hok
      · cases hok
      · rename_i n' hn'
        rw [← Except.ok.inj hok]
        exact hset i n' (C08_transpose_consistent (h n (hget i n hn).2) hn')
  | merge i k join tor bor =>
    simp only [applyOp, bind, Except.bind, pure, Except.pure] at hok
    split at hok
    · cases hok
    · rename_i a ha
      split at hok
      · cases hok
      · rename_i b hb
        split at hok
        · cases hok
        · rename_i n' hn'
          rw [← Except.ok.inj hok]
          obtain ⟨g1, g2⟩ := hg a b (hget i a ha).1 (hget k b hb).1
          exact hset i n' (C08_merge_consistent (h a (hget i a ha).2) (h b (hget k b hb).2) g1 g2 hn')

/-- a history: an operation the code refuses raises before (or, for the `assert` inside `merge`, instead of)
producing a new network; the state then stays what it was -/
def runOps (nets : List Net) : List Op → List Net
  | [] => nets
  | op :: ops =>
    match applyOp nets op with
    | .ok nets' => runOps nets' ops
    | .error _ => runOps nets ops

/-- the guards hold along the history -/
def guardsHold (nets : List Net) : List Op → Prop
  | [] => True
  | op :: ops =>
    opGuard nets op ∧
      guardsHold (match applyOp nets op with
        | .ok nets' => nets'
        | .error _ => nets) ops

/-- **The invariant holds after every history**, from any consistent starting point, for operations in any
sequence on any number of networks (by induction over the history) -/
theorem C08_ops_consistent (ops : List Op) (nets : List Net) (h : ∀ n ∈ nets, Inv n) (hg : guardsHold nets ops) :
    ∀ n ∈ runOps nets ops, Inv n := by
  induction ops generalizing nets with
  | nil => exact h
  | cons op ops ih =>
    simp only [runOps, guardsHold] at hg ⊢
    cases hstep : applyOp nets op with
    | ok nets' =>
      rw [hstep] at hg
      exact ih nets' (C08_step_consistent h hg.1 hstep) hg.2
    | error e =>
      rw [hstep] at hg
      exact ih nets h hg.2

/-! ### non-vacuity: `TensorNetwork.wrap` of a 2×3 array satisfies the invariant and the operations apply -/

def wrapNet : Net :=
  ⟨[(0, ⟨0, [2, 3], [0, 1], some 7⟩), (-1, ⟨-1, [2, 3], [0, 1], none⟩)], [(0, ⟨0, [-1, 0]⟩), (1, ⟨1, [-1, 0]⟩)]⟩

example : Inv wrapNet := ⟨⟨by decide, by decide, by decide, by decide⟩, by decide +kernel⟩
example : isConsistent wrapNet = .ok true := by decide +kernel
/-- the orders handed to `merge` in the examples are the shared ids -/
example : OrdersOK wrapNet wrapNet [0, -1] [0, 1] := ⟨by decide, by decide⟩
example : JoinDimsMatch wrapNet wrapNet [(0, 0)] := by
  intro va vb hva hvb ja hja
  have e1 : va = ⟨-1, [2, 3], [0, 1], none⟩ := by
    have : dget wrapNet.tensors (-1) = some ⟨-1, [2, 3], [0, 1], none⟩ := by decide
    rw [this] at hva; exact (Option.some.inj hva).symm
  have e2 : vb = ⟨-1, [2, 3], [0, 1], none⟩ := by
    have : dget wrapNet.tensors (-1) = some ⟨-1, [2, 3], [0, 1], none⟩ := by decide
    rw [this] at hvb; exact (Option.some.inj hvb).symm
  simp only [List.mem_singleton] at hja
  subst hja e1 e2
  decide
/-- merging the wrapped 2×3 array with itself over axis 0: three bonds remain (four minus one fusion), two open axes -/
example : (merge wrapNet wrapNet [(0, 0)] [0, -1] [0, 1]).toOption.map
    (fun n => (n.tensors.map (fun e => (e.1, e.2.shape, e.2.bids)), n.bonds.map (fun e => (e.1, e.2.tids)))) =
    some ([(0, [2, 3], [0, 1]), (-1, [3, 3], [1, 3]), (1, [2, 3], [0, 3])], [(0, [0, 1]), (1, [-1, 0]), (3, [-1, 1])]) := by
  decide +kernel
/-- `fuseCount`: three join pairs forming one connected component over four bonds fuse three times -/
example : fuseCount [((Sum.inl 0 : Sum Int Int), (Sum.inr 0 : Sum Int Int)), (Sum.inl 0, Sum.inr 1), (Sum.inl 1, Sum.inr 1)] = 3 := by
  decide +kernel
example : fuseCount [((Sum.inl 0 : Sum Int Int), (Sum.inr 0 : Sum Int Int)), (Sum.inl 0, Sum.inr 0)] = 1 := by
  decide +kernel
example : (transpose wrapNet none).toOption.map (fun n => n.tensors.map (·.2.shape)) = some [[2, 3], [3, 2]] := by
  decide +kernel
example : (renameTensor wrapNet 0 5).toOption.map (fun n => n.bonds.map (·.2.tids)) = some [[-1, 5], [-1, 5]] := by
  decide +kernel

end Qib.C08
