import Mathlib.Algebra.Star.Rat
import QibProofs.Lemmas.HamPauli
import QibProofs.Lemmas.HamMol
import QibProofs.Lemmas.LatticeAll
/-!
C15 — Model Hamiltonians equal their lattice definitions and are Hermitian.

Property theorems only (helpers: `Lemmas/HamPauli.lean`, `Lemmas/HamFermi.lean`, `Lemmas/HamMol.lean`). Everything is stated about the
executable model `QibModel/Hamiltonian.lean` (the definitions the driver `drv_ham` runs), for every number of
sites `L`, every integer matrix `adj` (the entries of `adjacency_matrix()`), and all couplings.

Conventions: `PauliOp.mat φ L op` is the matrix `Σ φ(weight) • (string matrix)` of C09 (`φ` maps the weight
type into ℂ; `Rat.cast` for the driver's rational weights); `siteMat L M i` is `M` on site `i` and the identity
elsewhere (site 0 = outermost Kronecker factor); `edgeSet L adj` is the set of pairs `i < j < L` with
`adj i j ≠ 0`, i.e. for a symmetric zero-diagonal adjacency matrix every undirected edge exactly once
(`C15_edges_once`).
-/
open Complex Matrix
namespace Qib.Ham
open Qib.Pauli Qib.Lattice

/-! ### the edge set of the upper-triangle scan -/

theorem C15_mem_edgeSet (L : ℕ) (adj : ℕ → ℕ → ℤ) (i j : ℕ) :
    (i, j) ∈ edgeSet L adj ↔ i < j ∧ j < L ∧ adj i j ≠ 0 := mem_edgeSet L adj i j

/-- for a symmetric adjacency matrix with zero diagonal, every pair of neighbouring sites `{i, j}` is
represented in the scanned set exactly once (as `(min, max)`) -/
theorem C15_edges_once (L : ℕ) (adj : ℕ → ℕ → ℤ)
    (hsym : ∀ i j, i < L → j < L → adj i j = adj j i) (hdiag : ∀ i, i < L → adj i i = 0)
    (i j : ℕ) (hi : i < L) (hj : j < L) (hadj : adj i j ≠ 0) :
    ((i, j) ∈ edgeSet L adj ∨ (j, i) ∈ edgeSet L adj) ∧ ¬ ((i, j) ∈ edgeSet L adj ∧ (j, i) ∈ edgeSet L adj) := by
  simp only [mem_edgeSet]
  have hne : i ≠ j := by rintro rfl; exact hadj (hdiag i hi)
  have hji : adj j i ≠ 0 := by rw [← hsym i j hi hj]; exact hadj
  constructor
  · rcases Nat.lt_or_gt_of_ne hne with h | h
    · exact Or.inl ⟨h, hj, hadj⟩
    · exact Or.inr ⟨h, hi, hji⟩
  · rintro ⟨⟨h1, _⟩, ⟨h2, _⟩⟩; omega

/-- the same as a counting statement: summing a symmetric quantity over all ordered neighbour pairs gives
twice the sum over the scanned set -/
theorem C15_edges_once_sum {M : Type} [AddCommMonoid M] (L : ℕ) (adj : ℕ → ℕ → ℤ) (f : ℕ → ℕ → M)
    (hsym : ∀ i j, i < L → j < L → adj i j = adj j i) (hdiag : ∀ i, i < L → adj i i = 0)
    (hf : ∀ i j, f i j = f j i) :
    (∑ i ∈ Finset.range L, ∑ j ∈ Finset.range L, if adj i j = 0 then 0 else f i j) =
      2 • ∑ p ∈ edgeSet L adj, f p.1 p.2 := two_nsmul_sum_edgeSet L adj f hsym hdiag hf

/-! ### the strings inserted by the scan -/

/-- `PauliString.from_single_paulis(L, (c, i), …)` (constructor model of C09) succeeds for in-range sites and
returns the closed form `sitePS` used by the model -/
theorem C15_sitePS_is_from_single_paulis (L : ℕ) (c : Letter) (sites : List ℕ) (hs : ∀ i ∈ sites, i < L) :
    PS.ofSinglePaulis L (sites.map fun (i : ℕ) => (c.char, Int.ofNat i)) 0 = .ok (sitePS L c sites) :=
  sitePS_eq_ofSinglePaulis L c sites hs

/-- the one- and two-site strings denote `σ_i` and `σ_i σ_j` -/
theorem C15_sitePS_mat (L : ℕ) (c : Letter) (i j : ℕ) (hij : i ≠ j) :
    (sitePS L c [i]).mat L = siteMat L c.mat i ∧
    (sitePS L c [i, j]).mat L = siteMat L c.mat i * siteMat L c.mat j :=
  ⟨sitePS_one_mat L c i, sitePS_two_mat L c i j hij⟩

theorem C15_letter_mat : Letter.X.mat = pauliX ∧ Letter.Y.mat = pauliY ∧ Letter.Z.mat = pauliZ := ⟨rfl, rfl, rfl⟩

/-! ### Ising -/

section spin
variable {α : Type} [Add α] (φ : α → ℂ) (hadd : ∀ a b, φ (a + b) = φ a + φ b)
include hadd

/-- `IsingHamiltonian.as_pauli_operator` with interaction letter `A` and transverse letter `B`:
`H = Σ_{edges once} J A_i A_j + Σ_sites (h A_i + g B_i)` -/
theorem C15_ising_def (L : ℕ) (adj : ℕ → ℕ → ℤ) (J h g : α) (conv : IsingConv) :
    PauliOp.mat φ L (isingOp L adj J h g conv) =
      (∑ p ∈ edgeSet L adj, φ J • (siteMat L conv.letters.1.mat p.1 * siteMat L conv.letters.1.mat p.2)) +
      ∑ i ∈ Finset.range L, (φ h • siteMat L conv.letters.1.mat i + φ g • siteMat L conv.letters.2.mat i) := by
  unfold PauliOp.mat isingOp
  rw [isingOpAB_matG (PS.mat L) φ hadd]
  simp only [add_assoc]
  rw [Finset.sum_add_distrib, scan_eq_sum_edgeSet L adj (fun i j => φ J • (sitePS L conv.letters.1 [i, j]).mat L)]
  congr 1
  · apply Finset.sum_congr rfl
    intro p hp
    have : p.1 < p.2 := ((mem_edgeSet L adj p.1 p.2).mp hp).1
    rw [sitePS_two_mat L _ p.1 p.2 (by omega)]
  · apply Finset.sum_congr rfl
    intro i _
    rw [sitePS_one_mat, sitePS_one_mat]

/-- convention ISING_ZZ: `J Z Z + h Z + g X` -/
theorem C15_ising_def_zz (L : ℕ) (adj : ℕ → ℕ → ℤ) (J h g : α) :
    PauliOp.mat φ L (isingOp L adj J h g .zz) =
      (∑ p ∈ edgeSet L adj, φ J • (siteMat L pauliZ p.1 * siteMat L pauliZ p.2)) +
      ∑ i ∈ Finset.range L, (φ h • siteMat L pauliZ i + φ g • siteMat L pauliX i) :=
  C15_ising_def φ hadd L adj J h g .zz

/-- convention ISING_XX: `J X X + h X + g Z` -/
theorem C15_ising_def_xx (L : ℕ) (adj : ℕ → ℕ → ℤ) (J h g : α) :
    PauliOp.mat φ L (isingOp L adj J h g .xx) =
      (∑ p ∈ edgeSet L adj, φ J • (siteMat L pauliX p.1 * siteMat L pauliX p.2)) +
      ∑ i ∈ Finset.range L, (φ h • siteMat L pauliX i + φ g • siteMat L pauliZ i) :=
  C15_ising_def φ hadd L adj J h g .xx

/-! ### Heisenberg -/

/-- `HeisenbergHamiltonian.as_pauli_operator`:
`H = Σ_{A ∈ {X,Y,Z}} (Σ_{edges once} J_A A_i A_j + Σ_sites h_A A_i)` -/
theorem C15_heisenberg_def (L : ℕ) (adj : ℕ → ℕ → ℤ) (J h : Letter → α) :
    PauliOp.mat φ L (heisOp L adj J h) =
      ∑ A ∈ ({Letter.X, Letter.Y, Letter.Z} : Finset Letter),
        ((∑ p ∈ edgeSet L adj, φ (J A) • (siteMat L A.mat p.1 * siteMat L A.mat p.2)) +
          ∑ i ∈ Finset.range L, φ (h A) • siteMat L A.mat i) := by
  unfold PauliOp.mat
  rw [heisOp_matG (PS.mat L) φ hadd]
  apply Finset.sum_congr rfl
  intro A _
  rw [Finset.sum_add_distrib, scan_eq_sum_edgeSet L adj (fun i j => φ (J A) • (sitePS L A [i, j]).mat L)]
  congr 1
  · apply Finset.sum_congr rfl
    intro p hp
    have : p.1 < p.2 := ((mem_edgeSet L adj p.1 p.2).mp hp).1
    rw [sitePS_two_mat L _ p.1 p.2 (by omega)]
  · apply Finset.sum_congr rfl
    intro i _
    rw [sitePS_one_mat]

/-! ### Hermiticity of the spin models -/

/-- real couplings (what the constructor enforces: `isinstance(·, (int, float))`) ⇒ `H = H†` -/
theorem C15_ising_hermitian (L : ℕ) (adj : ℕ → ℕ → ℤ) (J h g : α) (conv : IsingConv)
    (hJ : star (φ J) = φ J) (hh : star (φ h) = φ h) (hg : star (φ g) = φ g) :
    (PauliOp.mat φ L (isingOp L adj J h g conv))ᴴ = PauliOp.mat φ L (isingOp L adj J h g conv) := by
  rw [C15_ising_def φ hadd]
  simp only [Matrix.conjTranspose_add, Matrix.conjTranspose_sum]
  congr 1
  · apply Finset.sum_congr rfl
    intro p hp
    have : p.1 < p.2 := ((mem_edgeSet L adj p.1 p.2).mp hp).1
    exact pair_term_herm L _ _ hJ _ _ (by omega)
  · apply Finset.sum_congr rfl
    intro i _
    rw [site_term_herm L _ _ hh, site_term_herm L _ _ hg]

theorem C15_heisenberg_hermitian (L : ℕ) (adj : ℕ → ℕ → ℤ) (J h : Letter → α)
    (hJ : ∀ A, star (φ (J A)) = φ (J A)) (hh : ∀ A, star (φ (h A)) = φ (h A)) :
    (PauliOp.mat φ L (heisOp L adj J h))ᴴ = PauliOp.mat φ L (heisOp L adj J h) := by
  rw [C15_heisenberg_def φ hadd]
  simp only [Matrix.conjTranspose_add, Matrix.conjTranspose_sum]
  apply Finset.sum_congr rfl
  intro A _
  congr 1
  · apply Finset.sum_congr rfl
    intro p hp
    have : p.1 < p.2 := ((mem_edgeSet L adj p.1 p.2).mp hp).1
    exact pair_term_herm L _ _ (hJ A) _ _ (by omega)
  · apply Finset.sum_congr rfl
    intro i _
    exact site_term_herm L _ _ (hh A) _

end spin

/-- the driver's instance (rational weights): every accepted Ising / Heisenberg Hamiltonian answers
`is_hermitian() = True`, and its matrix is Hermitian – unconditionally -/
theorem C15_ising_hermitian_flag_sound (H : Ising ℚ) :
    H.isHermitian = true ∧
    (PauliOp.mat (fun q : ℚ => (q : ℂ)) H.lat.nsites H.asPauliOperator)ᴴ =
      PauliOp.mat (fun q : ℚ => (q : ℂ)) H.lat.nsites H.asPauliOperator :=
  ⟨rfl, C15_ising_hermitian _ (fun a b => Rat.cast_add a b) _ _ _ _ _ _ (star_ratCast _) (star_ratCast _) (star_ratCast _)⟩

theorem C15_heisenberg_hermitian_flag_sound (H : Heisenberg ℚ) :
    H.isHermitian = true ∧
    (PauliOp.mat (fun q : ℚ => (q : ℂ)) H.lat.nsites H.asPauliOperator)ᴴ =
      PauliOp.mat (fun q : ℚ => (q : ℂ)) H.lat.nsites H.asPauliOperator :=
  ⟨rfl, C15_heisenberg_hermitian _ (fun a b => Rat.cast_add a b) _ _ _ _ (fun _ => star_ratCast _) (fun _ => star_ratCast _)⟩

/-! ### constructors of the spin models -/

/-- accepted ⇔ qubit field, all couplings `int`/`float` instances (incl. `bool`, `np.float64`), a genuine convention -/
theorem C15_ising_accepts_iff {α : Type} (f : FieldIn) (J h g : PyArg α) (conv : Option IsingConv) (H : Ising α) :
    mkIsing f J h g conv = .ok H ↔
      f.ptype = .qubit ∧ J.kind.isIntOrFloat = true ∧ h.kind.isIntOrFloat = true ∧ g.kind.isIntOrFloat = true ∧
      ∃ c, conv = some c ∧ H = ⟨f.lat, J.val, h.val, g.val, c⟩ := by
  unfold mkIsing
  cases conv with
  | none => simp
  | some c =>
    by_cases h1 : f.ptype = .qubit <;> by_cases h2 : J.kind.isIntOrFloat = true <;>
      by_cases h3 : h.kind.isIntOrFloat = true <;> by_cases h4 : g.kind.isIntOrFloat = true <;>
      simp [h1, h2, h3, h4, eq_comm]

theorem C15_heisenberg_accepts_iff {α : Type} (f : FieldIn) (J h : List (PyArg α)) (H : Heisenberg α) :
    mkHeisenberg f J h = .ok H ↔
      f.ptype = .qubit ∧ ∃ j1 j2 j3 h1 h2 h3, J = [j1, j2, j3] ∧ h = [h1, h2, h3] ∧
        (∀ a ∈ [j1, h1, j2, h2, j3, h3], a.kind.isIntOrFloat = true) ∧
        H = ⟨f.lat, tripleFn j1.val j2.val j3.val, tripleFn h1.val h2.val h3.val⟩ := by
  unfold mkHeisenberg
  by_cases h0 : f.ptype = .qubit
  swap
  · simp [h0]
  simp only [h0, ne_eq, not_true_eq_false, if_false, true_and]
  split
  · rename_i j1 j2 j3 h1 h2 h3
    split
    · rename_i hall
      simp only [List.all_eq_true] at hall
      constructor
      · intro e
        exact ⟨j1, j2, j3, h1, h2, h3, rfl, rfl, hall, by simpa using e.symm⟩
      · rintro ⟨a1, a2, a3, b1, b2, b3, e1, e2, _, e3⟩
        simp only [List.cons.injEq, and_true] at e1 e2
        obtain ⟨rfl, rfl, rfl⟩ := e1
        obtain ⟨rfl, rfl, rfl⟩ := e2
        rw [e3]
    · rename_i hall
      simp only [List.all_eq_true, Bool.not_eq_true] at hall
      simp only [reduceCtorEq, false_iff, not_exists, not_and]
      intro a1 a2 a3 b1 b2 b3 e1 e2 hk
      simp only [List.cons.injEq, and_true] at e1 e2
      obtain ⟨rfl, rfl, rfl⟩ := e1
      obtain ⟨rfl, rfl, rfl⟩ := e2
      exact absurd hk (by simpa using hall)
  · rename_i hne
    simp only [reduceCtorEq, false_iff, not_exists, not_and]
    intro a1 a2 a3 b1 b2 b3 e1 e2
    exact absurd e2 (hne a1 a2 a3 b1 b2 b3 e1)

/-! ### every lattice class: the adjacency input has the assumed shape -/

/-- for every well-formed lattice of the lattice model (C14) the adjacency input of the Hamiltonians is
symmetric, has zero diagonal and 0/1 entries – so `C15_edges_once` applies: the scan takes every lattice edge once -/
theorem C15_lattice_adj_props (l : Lat) (hl : l.WF) :
    (∀ i j, (LatIn.ofLat l).adj i j = (LatIn.ofLat l).adj j i) ∧ (∀ i, (LatIn.ofLat l).adj i i = 0) ∧
    (∀ i j, (LatIn.ofLat l).adj i j = 0 ∨ (LatIn.ofLat l).adj i j = 1) ∧
    (∀ i j, (LatIn.ofLat l).adj i j ≠ 0 ↔ l.adj i j = true) ∧ (LatIn.ofLat l).nsites = l.nsites := by
  refine ⟨fun i j => ?_, fun i => ?_, fun i j => ?_, fun i j => ?_, rfl⟩
  · simp only [LatIn.ofLat, adj_symm l hl i j]
  · simp [LatIn.ofLat, adj_irrefl l hl i]
  · simp only [LatIn.ofLat]; split <;> simp
  · simp only [LatIn.ofLat]; split <;> simp_all

/-- a two-layer lattice: `some 2` layers, twice the base sites, and the block `adj[:L/2, :L/2]` used by the spinful
Hubbard Hamiltonian is the adjacency matrix of the base lattice -/
theorem C15_layered_block (base : Lat) (i j : ℕ) (hi : i < base.nsites) (hj : j < base.nsites) :
    (LatIn.ofLat (.layered base 2)).layers = some 2 ∧
    (LatIn.ofLat (.layered base 2)).nsites = base.nsites + base.nsites ∧
    (LatIn.ofLat (.layered base 2)).adj i j = (LatIn.ofLat base).adj i j := by
  refine ⟨rfl, by simp [LatIn.ofLat, Lat.nsites]; omega, ?_⟩
  simp only [LatIn.ofLat, Lat.adj]
  have e1 : i / base.nsites = 0 := Nat.div_eq_of_lt hi
  have e2 : j / base.nsites = 0 := Nat.div_eq_of_lt hj
  have h1 : i < 2 * base.nsites := by omega
  have h2 : j < 2 * base.nsites := by omega
  simp [e1, e2, Nat.mod_eq_of_lt hi, Nat.mod_eq_of_lt hj, h1, h2]

end Qib.Ham
