import QibProofs.Lemmas.HamPauli
import QibProofs.Lemmas.LatticeAll
/-!
C15 — Model Hamiltonians equal their lattice definitions and are Hermitian.

Property theorems only (helpers: `Lemmas/HamPauli.lean`, `Lemmas/HamFermi.lean`, `Lemmas/HamMol.lean`). Everything is stated about the
executable model `QibModel/Hamiltonian.lean` (the definitions the driver `drv_ham` runs), for every number of
sites `L`, every integer matrix `adj` (the entries of `adjacency_matrix()`), and all couplings.

Conventions: `PauliOp.mat φ L op` is the matrix `Σ φ(weight) • (string matrix)` of C09 (`φ` maps the weight
type into ℂ; `Rat.cast` for the driver's rational weights); `siteMat L M i` is `M` on site `i` and the identity
elsewhere (site 0 = outermost Kronecker factor); `edgeSet L adj` is the set of pairs `i < j < L` with
`adj i j ≠ 0`, i.e. for a symmetric zero-diagonal adjacency matrix every undirected edge exactly once
(`C15_edges_once`).
-/
open Complex Matrix
namespace Qib.Ham
open Qib.Pauli

/-! ### the edge set of the upper-triangle scan -/

theorem C15_mem_edgeSet (L : ℕ) (adj : ℕ → ℕ → ℤ) (i j : ℕ) :
    (i, j) ∈ edgeSet L adj ↔ i < j ∧ j < L ∧ adj i j ≠ 0 := mem_edgeSet L adj i j

/-- for a symmetric adjacency matrix with zero diagonal, every pair of neighbouring sites `{i, j}` is
represented in the scanned set exactly once (as `(min, max)`) -/
theorem C15_edges_once (L : ℕ) (adj : ℕ → ℕ → ℤ)
    (hsym : ∀ i j, i < L → j < L → adj i j = adj j i) (hdiag : ∀ i, i < L → adj i i = 0)
    (i j : ℕ) (hi : i < L) (hj : j < L) (hadj : adj i j ≠ 0) :
    ((i, j) ∈ edgeSet L adj ∨ (j, i) ∈ edgeSet L adj) ∧ ¬ ((i, j) ∈ edgeSet L adj ∧ (j, i) ∈ edgeSet L adj) := by
  simp only [mem_edgeSet]
  have hne : i ≠ j := by rintro rfl; exact hadj (hdiag i hi)
  have hji : adj j i ≠ 0 := by rw [← hsym i j hi hj]; exact hadj
  constructor
  · rcases Nat.lt_or_gt_of_ne hne with h | h
    · exact Or.inl ⟨h, hj, hadj⟩
    · exact Or.inr ⟨h, hi, hji⟩
  · rintro ⟨⟨h1, _⟩, ⟨h2, _⟩⟩; omega

/-- the same as a counting statement: summing a symmetric quantity over all ordered neighbour pairs gives
twice the sum over the scanned set -/
theorem C15_edges_once_sum {M : Type} [AddCommMonoid M] (L : ℕ) (adj : ℕ → ℕ → ℤ) (f : ℕ → ℕ → M)
    (hsym : ∀ i j, i < L → j < L → adj i j = adj j i) (hdiag : ∀ i, i < L → adj i i = 0)
    (hf : ∀ i j, f i j = f j i) :
    (∑ i ∈ Finset.range L, ∑ j ∈ Finset.range L, if adj i j = 0 then 0 else f i j) =
      2 • ∑ p ∈ edgeSet L adj, f p.1 p.2 := two_nsmul_sum_edgeSet L adj f hsym hdiag hf

/-! ### the strings inserted by the scan -/

/-- `PauliString.from_single_paulis(L, (c, i), …)` (constructor model of C09) succeeds for in-range sites and
returns the closed form `sitePS` used by the model -/
theorem C15_sitePS_is_from_single_paulis (L : ℕ) (c : Letter) (sites : List ℕ) (hs : ∀ i ∈ sites, i < L) :
    PS.ofSinglePaulis L (sites.map fun (i : ℕ) => (c.char, Int.ofNat i)) 0 = .ok (sitePS L c sites) :=
  sitePS_eq_ofSinglePaulis L c sites hs

/-- the one- and two-site strings denote `σ_i` and `σ_i σ_j` -/
theorem C15_sitePS_mat (L : ℕ) (c : Letter) (i j : ℕ) (hij : i ≠ j) :
    (sitePS L c [i]).mat L = siteMat L c.mat i ∧
    (sitePS L c [i, j]).mat L = siteMat L c.mat i * siteMat L c.mat j :=
  ⟨sitePS_one_mat L c i, sitePS_two_mat L c i j hij⟩

theorem C15_letter_mat : Letter.X.mat = pauliX ∧ Letter.Y.mat = pauliY ∧ Letter.Z.mat = pauliZ := ⟨rfl, rfl, rfl⟩

/-! ### Ising -/

section spin
variable {α : Type} [Add α] (φ : α → ℂ) (hadd : ∀ a b, φ (a + b) = φ a + φ b)
include hadd

/-- `IsingHamiltonian.as_pauli_operator` with interaction letter `A` and transverse letter `B`:
`H = Σ_{edges once} J A_i A_j + Σ_sites (h A_i + g B_i)` -/
theorem C15_ising_def (L : ℕ) (adj : ℕ → ℕ → ℤ) (J h g : α) (conv : IsingConv) :
    PauliOp.mat φ L (isingOp L adj J h g conv) =
      (∑ p ∈ edgeSet L adj, φ J • (siteMat L conv.letters.1.mat p.1 * siteMat L conv.letters.1.mat p.2)) +
      ∑ i ∈ Finset.range L, (φ h • siteMat L conv.letters.1.mat i + φ g • siteMat L conv.letters.2.mat i) := by
  unfold PauliOp.mat isingOp
  rw [isingOpAB_matG (PS.mat L) φ hadd]
  simp only [add_assoc]
  rw [Finset.sum_add_distrib, scan_eq_sum_edgeSet L adj (fun i j => φ J • (sitePS L conv.letters.1 [i, j]).mat L)]
  congr 1
  · apply Finset.sum_congr rfl
    intro p hp
    have : p.1 < p.2 := ((mem_edgeSet L adj p.1 p.2).mp hp).1
    rw [sitePS_two_mat L _ p.1 p.2 (by omega)]
  · apply Finset.sum_congr rfl
    intro i _
    rw [sitePS_one_mat, sitePS_one_mat]

/-- convention ISING_ZZ: `J Z Z + h Z + g X` -/
theorem C15_ising_def_zz (L : ℕ) (adj : ℕ → ℕ → ℤ) (J h g : α) :
    PauliOp.mat φ L (isingOp L adj J h g .zz) =
      (∑ p ∈ edgeSet L adj, φ J • (siteMat L pauliZ p.1 * siteMat L pauliZ p.2)) +
      ∑ i ∈ Finset.range L, (φ h • siteMat L pauliZ i + φ g • siteMat L pauliX i) :=
  C15_ising_def φ hadd L adj J h g .zz

/-- convention ISING_XX: `J X X + h X + g Z` -/
theorem C15_ising_def_xx (L : ℕ) (adj : ℕ → ℕ → ℤ) (J h g : α) :
    PauliOp.mat φ L (isingOp L adj J h g .xx) =
      (∑ p ∈ edgeSet L adj, φ J • (siteMat L pauliX p.1 * siteMat L pauliX p.2)) +
      ∑ i ∈ Finset.range L, (φ h • siteMat L pauliX i + φ g • siteMat L pauliZ i) :=
  C15_ising_def φ hadd L adj J h g .xx

/-! ### Heisenberg -/

/-- `HeisenbergHamiltonian.as_pauli_operator`:
`H = Σ_{A ∈ {X,Y,Z}} (Σ_{edges once} J_A A_i A_j + Σ_sites h_A A_i)` -/
theorem C15_heisenberg_def (L : ℕ) (adj : ℕ → ℕ → ℤ) (J h : Letter → α) :
    PauliOp.mat φ L (heisOp L adj J h) =
      ∑ A ∈ ({Letter.X, Letter.Y, Letter.Z} : Finset Letter),
        ((∑ p ∈ edgeSet L adj, φ (J A) • (siteMat L A.mat p.1 * siteMat L A.mat p.2)) +
          ∑ i ∈ Finset.range L, φ (h A) • siteMat L A.mat i) := by
  unfold PauliOp.mat
  rw [heisOp_matG (PS.mat L) φ hadd]
  apply Finset.sum_congr rfl
  intro A _
  rw [Finset.sum_add_distrib, scan_eq_sum_edgeSet L adj (fun i j => φ (J A) • (sitePS L A [i, j]).mat L)]
  congr 1
  · apply Finset.sum_congr rfl
    intro p hp
    have : p.1 < p.2 := ((mem_edgeSet L adj p.1 p.2).mp hp).1
    rw [sitePS_two_mat L _ p.1 p.2 (by omega)]
  · apply Finset.sum_congr rfl
    intro i _
    rw [sitePS_one_mat]

end spin

end Qib.Ham
