import Mathlib.Algebra.Star.Rat
import QibProofs.Lemmas.HamPauli
import QibProofs.Lemmas.HamTerms
import QibProofs.Lemmas.HamMol
import QibProofs.Lemmas.LatticeAll
/-!
C15 — Model Hamiltonians equal their lattice definitions and are Hermitian.

Property theorems only (helpers: `Lemmas/HamPauli.lean`, `Lemmas/HamFermi.lean`, `Lemmas/HamMol.lean`). Everything is stated about the
executable model `QibModel/Hamiltonian.lean` (the definitions the driver `drv_ham` runs), for every number of
sites `L`, every integer matrix `adj` (the entries of `adjacency_matrix()`), and all couplings.

Conventions: `PauliOp.mat φ L op` is the matrix `Σ φ(weight) • (string matrix)` of C09 (`φ` maps the weight
type into ℂ; `Rat.cast` for the driver's rational weights); `siteMat L M i` is `M` on site `i` and the identity
elsewhere (site 0 = outermost Kronecker factor); `edgeSet L adj` is the set of pairs `i < j < L` with
`adj i j ≠ 0`, i.e. for a symmetric zero-diagonal adjacency matrix every undirected edge exactly once
(`C15_edges_once`).
-/
open Complex Matrix
namespace Qib.Ham
open Qib.Pauli Qib.Lattice

/-! ### the edge set of the upper-triangle scan -/

theorem C15_mem_edgeSet (L : ℕ) (adj : ℕ → ℕ → ℤ) (i j : ℕ) :
    (i, j) ∈ edgeSet L adj ↔ i < j ∧ j < L ∧ adj i j ≠ 0 := mem_edgeSet L adj i j

/-- for a symmetric adjacency matrix with zero diagonal, every pair of neighbouring sites `{i, j}` is
represented in the scanned set exactly once (as `(min, max)`) -/
theorem C15_edges_once (L : ℕ) (adj : ℕ → ℕ → ℤ)
    (hsym : ∀ i j, i < L → j < L → adj i j = adj j i) (hdiag : ∀ i, i < L → adj i i = 0)
    (i j : ℕ) (hi : i < L) (hj : j < L) (hadj : adj i j ≠ 0) :
    ((i, j) ∈ edgeSet L adj ∨ (j, i) ∈ edgeSet L adj) ∧ ¬ ((i, j) ∈ edgeSet L adj ∧ (j, i) ∈ edgeSet L adj) := by
  simp only [mem_edgeSet]
  have hne : i ≠ j := by rintro rfl; exact hadj (hdiag i hi)
  have hji : adj j i ≠ 0 := by rw [← hsym i j hi hj]; exact hadj
  constructor
  · rcases Nat.lt_or_gt_of_ne hne with h | h
    · exact Or.inl ⟨h, hj, hadj⟩
    · exact Or.inr ⟨h, hi, hji⟩
  · rintro ⟨⟨h1, _⟩, ⟨h2, _⟩⟩; omega

/-- the same as a counting statement: summing a symmetric quantity over all ordered neighbour pairs gives
twice the sum over the scanned set -/
theorem C15_edges_once_sum {M : Type} [AddCommMonoid M] (L : ℕ) (adj : ℕ → ℕ → ℤ) (f : ℕ → ℕ → M)
    (hsym : ∀ i j, i < L → j < L → adj i j = adj j i) (hdiag : ∀ i, i < L → adj i i = 0)
    (hf : ∀ i j, f i j = f j i) :
    (∑ i ∈ Finset.range L, ∑ j ∈ Finset.range L, if adj i j = 0 then 0 else f i j) =
      2 • ∑ p ∈ edgeSet L adj, f p.1 p.2 := two_nsmul_sum_edgeSet L adj f hsym hdiag hf

/-! ### the strings inserted by the scan -/

/-- `PauliString.from_single_paulis(L, (c, i), …)` (constructor model of C09) succeeds for in-range sites and
returns the closed form `sitePS` used by the model -/
theorem C15_sitePS_is_from_single_paulis (L : ℕ) (c : Letter) (sites : List ℕ) (hs : ∀ i ∈ sites, i < L) :
    PS.ofSinglePaulis L (sites.map fun (i : ℕ) => (c.char, Int.ofNat i)) 0 = .ok (sitePS L c sites) :=
  sitePS_eq_ofSinglePaulis L c sites hs

/-- the one- and two-site strings denote `σ_i` and `σ_i σ_j` -/
theorem C15_sitePS_mat (L : ℕ) (c : Letter) (i j : ℕ) (hij : i ≠ j) :
    (sitePS L c [i]).mat L = siteMat L c.mat i ∧
    (sitePS L c [i, j]).mat L = siteMat L c.mat i * siteMat L c.mat j :=
  ⟨sitePS_one_mat L c i, sitePS_two_mat L c i j hij⟩

theorem C15_letter_mat : Letter.X.mat = pauliX ∧ Letter.Y.mat = pauliY ∧ Letter.Z.mat = pauliZ := ⟨rfl, rfl, rfl⟩

/-! ### Ising -/

section spin
variable {α : Type} [Add α] (φ : α → ℂ) (hadd : ∀ a b, φ (a + b) = φ a + φ b)
include hadd

/-- `IsingHamiltonian.as_pauli_operator` with interaction letter `A` and transverse letter `B`:
`H = Σ_{edges once} J A_i A_j + Σ_sites (h A_i + g B_i)` -/
theorem C15_ising_def (L : ℕ) (adj : ℕ → ℕ → ℤ) (J h g : α) (conv : IsingConv) :
    PauliOp.mat φ L (isingOp L adj J h g conv) =
      (∑ p ∈ edgeSet L adj, φ J • (siteMat L conv.letters.1.mat p.1 * siteMat L conv.letters.1.mat p.2)) +
      ∑ i ∈ Finset.range L, (φ h • siteMat L conv.letters.1.mat i + φ g • siteMat L conv.letters.2.mat i) := by
  unfold PauliOp.mat isingOp
  rw [isingOpAB_matG (PS.mat L) φ hadd]
  simp only [add_assoc]
  rw [Finset.sum_add_distrib, scan_eq_sum_edgeSet L adj (fun i j => φ J • (sitePS L conv.letters.1 [i, j]).mat L)]
  congr 1
  · apply Finset.sum_congr rfl
    intro p hp
    have : p.1 < p.2 := ((mem_edgeSet L adj p.1 p.2).mp hp).1
    rw [sitePS_two_mat L _ p.1 p.2 (by omega)]
  · apply Finset.sum_congr rfl
    intro i _
    rw [sitePS_one_mat, sitePS_one_mat]

/-- convention ISING_ZZ: `J Z Z + h Z + g X` -/
theorem C15_ising_def_zz (L : ℕ) (adj : ℕ → ℕ → ℤ) (J h g : α) :
    PauliOp.mat φ L (isingOp L adj J h g .zz) =
      (∑ p ∈ edgeSet L adj, φ J • (siteMat L pauliZ p.1 * siteMat L pauliZ p.2)) +
      ∑ i ∈ Finset.range L, (φ h • siteMat L pauliZ i + φ g • siteMat L pauliX i) :=
  C15_ising_def φ hadd L adj J h g .zz

/-- convention ISING_XX: `J X X + h X + g Z` -/
theorem C15_ising_def_xx (L : ℕ) (adj : ℕ → ℕ → ℤ) (J h g : α) :
    PauliOp.mat φ L (isingOp L adj J h g .xx) =
      (∑ p ∈ edgeSet L adj, φ J • (siteMat L pauliX p.1 * siteMat L pauliX p.2)) +
      ∑ i ∈ Finset.range L, (φ h • siteMat L pauliX i + φ g • siteMat L pauliZ i) :=
  C15_ising_def φ hadd L adj J h g .xx

/-! ### Heisenberg -/

/-- `HeisenbergHamiltonian.as_pauli_operator`:
`H = Σ_{A ∈ {X,Y,Z}} (Σ_{edges once} J_A A_i A_j + Σ_sites h_A A_i)` -/
theorem C15_heisenberg_def (L : ℕ) (adj : ℕ → ℕ → ℤ) (J h : Letter → α) :
    PauliOp.mat φ L (heisOp L adj J h) =
      ∑ A ∈ ({Letter.X, Letter.Y, Letter.Z} : Finset Letter),
        ((∑ p ∈ edgeSet L adj, φ (J A) • (siteMat L A.mat p.1 * siteMat L A.mat p.2)) +
          ∑ i ∈ Finset.range L, φ (h A) • siteMat L A.mat i) := by
  unfold PauliOp.mat
  rw [heisOp_matG (PS.mat L) φ hadd]
  apply Finset.sum_congr rfl
  intro A _
  rw [Finset.sum_add_distrib, scan_eq_sum_edgeSet L adj (fun i j => φ (J A) • (sitePS L A [i, j]).mat L)]
  congr 1
  · apply Finset.sum_congr rfl
    intro p hp
    have : p.1 < p.2 := ((mem_edgeSet L adj p.1 p.2).mp hp).1
    rw [sitePS_two_mat L _ p.1 p.2 (by omega)]
  · apply Finset.sum_congr rfl
    intro i _
    rw [sitePS_one_mat]

/-! ### Hermiticity of the spin models -/

/-- real couplings (what the constructor enforces: `isinstance(·, (int, float))`) ⇒ `H = H†` -/
theorem C15_ising_hermitian (L : ℕ) (adj : ℕ → ℕ → ℤ) (J h g : α) (conv : IsingConv)
    (hJ : star (φ J) = φ J) (hh : star (φ h) = φ h) (hg : star (φ g) = φ g) :
    (PauliOp.mat φ L (isingOp L adj J h g conv))ᴴ = PauliOp.mat φ L (isingOp L adj J h g conv) := by
  rw [C15_ising_def φ hadd]
  simp only [Matrix.conjTranspose_add, Matrix.conjTranspose_sum]
  congr 1
  · apply Finset.sum_congr rfl
    intro p hp
    have : p.1 < p.2 := ((mem_edgeSet L adj p.1 p.2).mp hp).1
    exact pair_term_herm L _ _ hJ _ _ (by omega)
  · apply Finset.sum_congr rfl
    intro i _
    rw [site_term_herm L _ _ hh, site_term_herm L _ _ hg]

theorem C15_heisenberg_hermitian (L : ℕ) (adj : ℕ → ℕ → ℤ) (J h : Letter → α)
    (hJ : ∀ A, star (φ (J A)) = φ (J A)) (hh : ∀ A, star (φ (h A)) = φ (h A)) :
    (PauliOp.mat φ L (heisOp L adj J h))ᴴ = PauliOp.mat φ L (heisOp L adj J h) := by
  rw [C15_heisenberg_def φ hadd]
  simp only [Matrix.conjTranspose_add, Matrix.conjTranspose_sum]
  apply Finset.sum_congr rfl
  intro A _
  congr 1
  · apply Finset.sum_congr rfl
    intro p hp
    have : p.1 < p.2 := ((mem_edgeSet L adj p.1 p.2).mp hp).1
    exact pair_term_herm L _ _ (hJ A) _ _ (by omega)
  · apply Finset.sum_congr rfl
    intro i _
    exact site_term_herm L _ _ (hh A) _

end spin

/-- the driver's instance (rational weights): every accepted Ising / Heisenberg Hamiltonian answers
`is_hermitian() = True`, and its matrix is Hermitian – unconditionally -/
theorem C15_ising_hermitian_flag_sound (H : Ising ℚ) :
    H.isHermitian = true ∧
    (PauliOp.mat (fun q : ℚ => (q : ℂ)) H.lat.nsites H.asPauliOperator)ᴴ =
      PauliOp.mat (fun q : ℚ => (q : ℂ)) H.lat.nsites H.asPauliOperator :=
  ⟨rfl, C15_ising_hermitian _ (fun a b => Rat.cast_add a b) _ _ _ _ _ _ (star_ratCast _) (star_ratCast _) (star_ratCast _)⟩

theorem C15_heisenberg_hermitian_flag_sound (H : Heisenberg ℚ) :
    H.isHermitian = true ∧
    (PauliOp.mat (fun q : ℚ => (q : ℂ)) H.lat.nsites H.asPauliOperator)ᴴ =
      PauliOp.mat (fun q : ℚ => (q : ℂ)) H.lat.nsites H.asPauliOperator :=
  ⟨rfl, C15_heisenberg_hermitian _ (fun a b => Rat.cast_add a b) _ _ _ _ (fun _ => star_ratCast _) (fun _ => star_ratCast _)⟩

/-! ### the (string, weight) list itself: the scan never merges -/

/-- the neighbours visited in row `i` are exactly the scanned edges `(i, j)`, each once -/
theorem C15_rowJs_spec (L : ℕ) (adj : ℕ → ℕ → ℤ) (i j : ℕ) (hi : i < L) :
    (j ∈ rowJs L adj i ↔ (i, j) ∈ edgeSet L adj) ∧ (rowJs L adj i).Nodup := by
  rw [mem_rowJs L adj i j hi, mem_edgeSet]
  exact ⟨Iff.rfl, rowJs_nodup L adj i⟩

/-- distinct (letter, support) pairs give distinct strings, so `add_pauli_string` never finds an equal string:
`as_pauli_operator()` is literally the list of inserted terms – for every row `i` one `J`-term per scanned edge
`(i, j)`, then the `h`-term and the `g`-term of site `i` – with exactly the weights `J`, `h`, `g` (nothing is summed) -/
theorem C15_ising_terms {α : Type} [Add α] (L : ℕ) (adj : ℕ → ℕ → ℤ) (J h g : α) (conv : IsingConv) :
    isingOp L adj J h g conv =
      (List.range L).flatMap fun i =>
        ((rowJs L adj i).map fun j => (sitePS L conv.letters.1 [i, j], J)) ++
          [(sitePS L conv.letters.1 [i], h), (sitePS L conv.letters.2 [i], g)] := by
  unfold isingOp
  rw [isingOpAB_eq_terms L adj J h g _ _ (by cases conv <;> decide)]
  rfl

theorem C15_heisenberg_terms {α : Type} [Add α] (L : ℕ) (adj : ℕ → ℕ → ℤ) (J h : Letter → α) :
    heisOp L adj J h =
      [Letter.X, Letter.Y, Letter.Z].flatMap fun A => (List.range L).flatMap fun i =>
        ((rowJs L adj i).map fun j => (sitePS L A [i, j], J A)) ++ [(sitePS L A [i], h A)] := by
  rw [heisOp_eq_terms]
  rfl

/-- the strings of one- and two-site supports determine letter and support -/
theorem C15_sitePS_injective (L : ℕ) (c c' : Letter) (s s' : List ℕ) (hs : ValidSites L s) (hs' : ValidSites L s')
    (h : sitePS L c s = sitePS L c' s') : c = c' ∧ s = s' := sitePS_inj L c c' s s' hs hs' h

/-! ### constructors of the spin models -/

/-- accepted ⇔ qubit field, all couplings `int`/`float` instances (incl. `bool`, `np.float64`), a genuine convention -/
theorem C15_ising_accepts_iff {α : Type} (f : FieldIn) (J h g : PyArg α) (conv : Option IsingConv) (H : Ising α) :
    mkIsing f J h g conv = .ok H ↔
      f.ptype = .qubit ∧ J.kind.isIntOrFloat = true ∧ h.kind.isIntOrFloat = true ∧ g.kind.isIntOrFloat = true ∧
      ∃ c, conv = some c ∧ H = ⟨f.lat, J.val, h.val, g.val, c⟩ := by
  unfold mkIsing
  cases conv with
  | none => simp
  | some c =>
    by_cases h1 : f.ptype = .qubit <;> by_cases h2 : J.kind.isIntOrFloat = true <;>
      by_cases h3 : h.kind.isIntOrFloat = true <;> by_cases h4 : g.kind.isIntOrFloat = true <;>
      simp [h1, h2, h3, h4, eq_comm]

theorem C15_heisenberg_accepts_iff {α : Type} (f : FieldIn) (J h : List (PyArg α)) (H : Heisenberg α) :
    mkHeisenberg f J h = .ok H ↔
      f.ptype = .qubit ∧ ∃ j1 j2 j3 h1 h2 h3, J = [j1, j2, j3] ∧ h = [h1, h2, h3] ∧
        (∀ a ∈ [j1, h1, j2, h2, j3, h3], a.kind.isIntOrFloat = true) ∧
        H = ⟨f.lat, tripleFn j1.val j2.val j3.val, tripleFn h1.val h2.val h3.val⟩ := by
  unfold mkHeisenberg
  by_cases h0 : f.ptype = .qubit
  swap
  · simp [h0]
  simp only [h0, ne_eq, not_true_eq_false, if_false, true_and]
  split
  · rename_i j1 j2 j3 h1 h2 h3
    split
    · rename_i hall
      simp only [List.all_eq_true] at hall
      constructor
      · intro e
        exact ⟨j1, j2, j3, h1, h2, h3, rfl, rfl, hall, by simpa using e.symm⟩
      · rintro ⟨a1, a2, a3, b1, b2, b3, e1, e2, _, e3⟩
        simp only [List.cons.injEq, and_true] at e1 e2
        obtain ⟨rfl, rfl, rfl⟩ := e1
        obtain ⟨rfl, rfl, rfl⟩ := e2
        rw [e3]
    · rename_i hall
      simp only [List.all_eq_true] at hall
      simp only [reduceCtorEq, false_iff, not_exists, not_and]
      intro a1 a2 a3 b1 b2 b3 e1 e2 hk
      simp only [List.cons.injEq, and_true] at e1 e2
      obtain ⟨rfl, rfl, rfl⟩ := e1
      obtain ⟨rfl, rfl, rfl⟩ := e2
      exact absurd hk (by simpa using hall)
  · rename_i hne
    simp only [reduceCtorEq, false_iff, not_exists, not_and]
    intro a1 a2 a3 b1 b2 b3 e1 e2
    exact absurd e2 (hne a1 a2 a3 b1 b2 b3 e1)

/-! ### every lattice class: the adjacency input has the assumed shape -/

/-- for every well-formed lattice of the lattice model (C14) the adjacency input of the Hamiltonians is
symmetric, has zero diagonal and 0/1 entries – so `C15_edges_once` applies: the scan takes every lattice edge once -/
theorem C15_lattice_adj_props (l : Lat) (hl : l.WF) :
    (∀ i j, (LatIn.ofLat l).adj i j = (LatIn.ofLat l).adj j i) ∧ (∀ i, (LatIn.ofLat l).adj i i = 0) ∧
    (∀ i j, (LatIn.ofLat l).adj i j = 0 ∨ (LatIn.ofLat l).adj i j = 1) ∧
    (∀ i j, (LatIn.ofLat l).adj i j ≠ 0 ↔ l.adj i j = true) ∧ (LatIn.ofLat l).nsites = l.nsites := by
  refine ⟨fun i j => ?_, fun i => ?_, fun i j => ?_, fun i j => ?_, rfl⟩
  · simp only [LatIn.ofLat, adj_symm l hl i j]
  · simp [LatIn.ofLat, adj_irrefl l hl i]
  · simp only [LatIn.ofLat]; split <;> simp
  · simp only [LatIn.ofLat]; split <;> simp_all

/-- a two-layer lattice: `some 2` layers, twice the base sites, and the block `adj[:L/2, :L/2]` used by the spinful
Hubbard Hamiltonian is the adjacency matrix of the base lattice -/
theorem C15_layered_block (base : Lat) (i j : ℕ) (hi : i < base.nsites) (hj : j < base.nsites) :
    (LatIn.ofLat (.layered base 2)).layers = some 2 ∧
    (LatIn.ofLat (.layered base 2)).nsites = base.nsites + base.nsites ∧
    (LatIn.ofLat (.layered base 2)).adj i j = (LatIn.ofLat base).adj i j := by
  refine ⟨rfl, by simp [LatIn.ofLat, Lat.nsites]; omega, ?_⟩
  simp only [LatIn.ofLat, Lat.adj]
  have e1 : i / base.nsites = 0 := Nat.div_eq_of_lt hi
  have e2 : j / base.nsites = 0 := Nat.div_eq_of_lt hj
  have h1 : i < 2 * base.nsites := by omega
  have h2 : j < 2 * base.nsites := by omega
  simp [e1, e2, Nat.mod_eq_of_lt hi, Nat.mod_eq_of_lt hj, h1, h2]

/-! ### Fermi-Hubbard: constructor, coefficient tensors -/

/-- accepted ⇔ fermionic field, `t` and `u` are `float` instances (ints are refused), and – when `spin` – the
lattice is a `LayeredLattice` with exactly two layers -/
theorem C15_hubbard_accepts_iff {α : Type} (f : FieldIn) (t u : PyArg α) (spin : Bool) (H : Hubbard α) :
    mkHubbard f t u spin = .ok H ↔
      f.ptype = .fermion ∧ t.kind.isFloat = true ∧ u.kind.isFloat = true ∧
      (spin = true → f.lat.layers = some 2) ∧ H = ⟨f.lat, t.val, u.val, spin⟩ := by
  unfold mkHubbard
  by_cases h1 : f.ptype = .fermion <;> by_cases h2 : t.kind.isFloat = true <;> by_cases h3 : u.kind.isFloat = true <;>
    cases spin <;> simp [h1, h2, h3, eq_comm]
  cases hl : f.lat.layers with
  | none => simp
  | some nl =>
    by_cases h4 : nl = 2
    · simp [h4]
    · simp [h4]

/-- spinless: `-t` on every neighbour pair (both orientations), `u` on `(i, i, j, j)` for every edge `i < j` once -/
theorem C15_hubbard_def_spinless {K : Type} [Ring K] (L : ℕ) (adj : ℕ → ℕ → ℤ) (t u : K)
    (h01 : ∀ i j, adj i j = 0 ∨ adj i j = 1) :
    (∀ i j, hubbardKin L adj t false i j = if adj i j ≠ 0 then -t else 0) ∧
    (∀ a b c d, hubbardInt L adj u false a b c d = if (a, c) ∈ edgeSet L adj ∧ b = a ∧ d = c then u else 0) := by
  constructor
  · intro i j
    simp only [hubbardKin, Bool.false_eq_true, if_false]
    rcases h01 i j with h | h <;> simp [h]
  · intro a b c d
    simp only [hubbardInt, Bool.false_eq_true, if_false, mem_edgeSet]
    congr 1
    apply propext
    constructor
    · rintro ⟨h1, h2, h3, h4, h5⟩; exact ⟨⟨h3, h4, h5⟩, h1, h2⟩
    · rintro ⟨⟨h3, h4, h5⟩, h1, h2⟩; exact ⟨h1, h2, h3, h4, h5⟩

/-- spinful on `L = h + h` sites (layer `s` = sites `s·h … s·h + h − 1`): hopping `-t` inside each spin layer on the
neighbour pairs of the base block `adj[:h, :h]`, nothing between the layers; `u` on `(i, i, i + h, i + h)` -/
theorem C15_hubbard_def_spinful {K : Type} [Ring K] (h : ℕ) (adj : ℕ → ℕ → ℤ) (t u : K)
    (h01 : ∀ i j, i < h → j < h → adj i j = 0 ∨ adj i j = 1) :
    (∀ s s' i j, i < h → j < h →
      hubbardKin (h + h) adj t true (s * h + i) (s' * h + j) = if s = s' ∧ adj i j ≠ 0 then -t else 0) ∧
    (∀ a b c d, hubbardInt (h + h) adj u true a b c d = if a < h ∧ b = a ∧ c = a + h ∧ d = a + h then u else 0) := by
  have hh : (h + h) / 2 = h := by omega
  constructor
  · intro s s' i j hi hj
    simp only [hubbardKin, if_true, hh, kronI2_block h adj s s' i j hi hj]
    by_cases e : s = s'
    · rcases h01 i j hi hj with h | h <;> simp [e, h]
    · simp [e]
  · intro a b c d
    simp only [hubbardInt, if_true, hh]

/-- both branches together: the coefficient tensors of `FermiHubbardHamiltonian.as_field_operator` -/
theorem C15_hubbard_def {K : Type} [Ring K] (n : ℕ) (adj : ℕ → ℕ → ℤ) (t u : K) (h01 : ∀ i j, adj i j = 0 ∨ adj i j = 1) :
    ((∀ i j, hubbardKin n adj t false i j = if adj i j ≠ 0 then -t else 0) ∧
     (∀ a b c d, hubbardInt n adj u false a b c d = if (a, c) ∈ edgeSet n adj ∧ b = a ∧ d = c then u else 0)) ∧
    ((∀ s s' i j, i < n → j < n →
        hubbardKin (n + n) adj t true (s * n + i) (s' * n + j) = if s = s' ∧ adj i j ≠ 0 then -t else 0) ∧
     (∀ a b c d, hubbardInt (n + n) adj u true a b c d = if a < n ∧ b = a ∧ c = a + n ∧ d = a + n then u else 0)) :=
  ⟨C15_hubbard_def_spinless n adj t u h01, C15_hubbard_def_spinful n adj t u (fun i j _ _ => h01 i j)⟩

/-- the two terms of `as_field_operator` are number-balanced: as many creators as annihilators
(the same holds for the molecular Hamiltonian) -/
theorem C15_hubbard_number_balanced :
    charge hubbardPatternT = 0 ∧ charge hubbardPatternV = 0 ∧
    hubbardPatternT = [.create, .annihil] ∧ hubbardPatternV = [.create, .annihil, .create, .annihil] ∧
    charge molPatternC = 0 ∧ charge molPatternT = 0 ∧ charge molPatternV = 0 := by decide

/-! ### Fermi-Hubbard at the operator level, in any representation of the CAR

`C : CAR R L` is a family `a 0 … a (L-1)` in a `*`-ring `R` with `a_i a_j + a_j a_i = 0` and
`a_i a_j† + a_j† a_i = δ_ij`; `C.ad i = a_i†`, `C.n i = a_i† a_i`, `C.N = Σ n_i`. The Jordan-Wigner matrices built by
`FieldOperator.as_matrix` are such a family (C10). `C.termDen pat coef` is the denotation of a `FieldOperatorTerm`:
`Σ coef[i₁…i_k] • op₁(i₁) ⋯ op_k(i_k)`. -/

section car
variable {R : Type} [Ring R] [StarRing R] {K : Type} [CommRing K] [Algebra K R]

theorem C15_termDen_def {L : ℕ} (C : CAR R L) (c : K) (o1 o2 o3 o4 : Op) (t : ℕ → ℕ → K) (v : ℕ → ℕ → ℕ → ℕ → K) :
    C.termDen [] (coef0 c) = c • (1 : R) ∧
    C.termDen [o1, o2] (coef2 t) = ∑ i ∈ Finset.range L, ∑ j ∈ Finset.range L, t i j • (C.op o1 i * C.op o2 j) ∧
    C.termDen [o1, o2, o3, o4] (coef4 v) =
      ∑ i ∈ Finset.range L, ∑ j ∈ Finset.range L, ∑ k ∈ Finset.range L, ∑ l ∈ Finset.range L,
        v i j k l • (C.op o1 i * C.op o2 j * C.op o3 k * C.op o4 l) :=
  ⟨C.termDen_nil c, C.termDen_two o1 o2 t, C.termDen_four o1 o2 o3 o4 v⟩

/-- spinless Hubbard: `H = -t Σ_{edges once} (a†_i a_j + a†_j a_i) + u Σ_{edges once} n_i n_j` -/
theorem C15_hubbard_def_op_spinless (lat : LatIn) (t u : K) (C : CAR R lat.nsites)
    (h01 : ∀ i j, i < lat.nsites → j < lat.nsites → lat.adj i j = 0 ∨ lat.adj i j = 1)
    (hsym : ∀ i j, i < lat.nsites → j < lat.nsites → lat.adj i j = lat.adj j i)
    (hdiag : ∀ i, i < lat.nsites → lat.adj i i = 0) :
    Hubbard.den ⟨lat, t, u, false⟩ C =
      (-t) • ∑ p ∈ edgeSet lat.nsites lat.adj, (C.ad p.1 * C.a p.2 + C.ad p.2 * C.a p.1) +
      u • ∑ p ∈ edgeSet lat.nsites lat.adj, C.n p.1 * C.n p.2 := by
  unfold Hubbard.den Hubbard.kin Hubbard.int
  rw [C.hubbard_kin_spinless lat.adj t h01 hsym hdiag, C.hubbard_int_spinless lat.adj u]

/-- spinful Hubbard on `L = h + h` sites with base block `adj[:h, :h]`:
`H = -t Σ_{σ} Σ_{edges of the base once} (a†_{σ,i} a_{σ,j} + h.c.) + u Σ_i n_{↑,i} n_{↓,i}` -/
theorem C15_hubbard_def_op_spinful (lat : LatIn) (h : ℕ) (hL : lat.nsites = h + h) (t u : K) (C : CAR R lat.nsites)
    (h01 : ∀ i j, i < h → j < h → lat.adj i j = 0 ∨ lat.adj i j = 1)
    (hsym : ∀ i j, i < h → j < h → lat.adj i j = lat.adj j i) (hdiag : ∀ i, i < h → lat.adj i i = 0) :
    Hubbard.den ⟨lat, t, u, true⟩ C =
      (-t) • ∑ s ∈ Finset.range 2, ∑ p ∈ edgeSet h lat.adj,
        (C.ad (s * h + p.1) * C.a (s * h + p.2) + C.ad (s * h + p.2) * C.a (s * h + p.1)) +
      u • ∑ i ∈ Finset.range h, C.n i * C.n (i + h) := by
  obtain ⟨n, adj, layers⟩ := lat
  simp only at hL C h01 hsym hdiag ⊢
  subst hL
  unfold Hubbard.den Hubbard.kin Hubbard.int
  exact congrArg₂ (· + ·) (C.hubbard_kin_spinful adj t h01 hsym hdiag) (C.hubbard_int_spinful adj u)

/-- Hubbard conserves the particle number: `[N, H] = 0` in every representation of the CAR, for every lattice input
(each term of `as_field_operator` is number-balanced and `[N, a†_i] = a†_i`, `[N, a_i] = -a_i` follow from the CAR) -/
theorem C15_hubbard_conserves_N (H : Hubbard K) (C : CAR R H.lat.nsites) : C.N * H.den C = H.den C * C.N := by
  unfold Hubbard.den
  rw [mul_add, add_mul, C.N_commutes_balanced _ C15_hubbard_number_balanced.1,
    C.N_commutes_balanced _ C15_hubbard_number_balanced.2.1]

/-- the general statement behind it: `[N, term] = (#creators − #annihilators) • term` for every operator pattern -/
theorem C15_number_commutator {L : ℕ} (C : CAR R L) (pat : List Op) (coef : List ℕ → K) :
    C.N * C.termDen pat coef - C.termDen pat coef * C.N = charge pat • C.termDen pat coef :=
  C.N_comm_termDen pat coef

variable [StarRing K] [StarModule K R]

/-- Hubbard is Hermitian (`is_hermitian()` answers `True` unconditionally): for real `t`, `u` – the constructor only
accepts floats – and a symmetric 0/1 zero-diagonal adjacency, `H† = H` in every representation of the CAR. Spinless: -/
theorem C15_hubbard_hermitian_spinless (lat : LatIn) (t u : K) (ht : star t = t) (hu : star u = u) (C : CAR R lat.nsites)
    (h01 : ∀ i j, i < lat.nsites → j < lat.nsites → lat.adj i j = 0 ∨ lat.adj i j = 1)
    (hsym : ∀ i j, i < lat.nsites → j < lat.nsites → lat.adj i j = lat.adj j i)
    (hdiag : ∀ i, i < lat.nsites → lat.adj i i = 0) :
    (Hubbard.mk lat t u false).isHermitian = true ∧
    star (Hubbard.den ⟨lat, t, u, false⟩ C) = Hubbard.den ⟨lat, t, u, false⟩ C := by
  refine ⟨rfl, ?_⟩
  rw [C15_hubbard_def_op_spinless lat t u C h01 hsym hdiag]
  apply C.hubbard_form_star _ _ t u ht hu
  intro p hp
  have := (mem_edgeSet _ _ p.1 p.2).mp hp
  exact ⟨by omega, this.2.1, by omega⟩

/-- spinful: -/
theorem C15_hubbard_hermitian_spinful (lat : LatIn) (h : ℕ) (hL : lat.nsites = h + h) (t u : K)
    (ht : star t = t) (hu : star u = u) (C : CAR R lat.nsites)
    (h01 : ∀ i j, i < h → j < h → lat.adj i j = 0 ∨ lat.adj i j = 1)
    (hsym : ∀ i j, i < h → j < h → lat.adj i j = lat.adj j i) (hdiag : ∀ i, i < h → lat.adj i i = 0) :
    (Hubbard.mk lat t u true).isHermitian = true ∧
    star (Hubbard.den ⟨lat, t, u, true⟩ C) = Hubbard.den ⟨lat, t, u, true⟩ C := by
  refine ⟨rfl, ?_⟩
  rw [C15_hubbard_def_op_spinful lat h hL t u C h01 hsym hdiag]
  rw [star_add, star_smul, star_smul, star_neg, ht, hu, star_sum, star_sum]
  congr 2
  · apply Finset.sum_congr rfl
    intro s _
    rw [star_sum]
    apply Finset.sum_congr rfl
    intro p _
    simp only [star_add, star_mul, C.star_a, C.star_ad]
    exact add_comm _ _
  · apply Finset.sum_congr rfl
    intro i hi
    have := Finset.mem_range.mp hi
    rw [star_mul, C.star_n, C.star_n, C.n_comm _ _ (by omega) (by omega) (by omega)]

/-- Hermiticity at the coefficient level: the hopping tensor is Hermitian, and the adjoint index map
`v ↦ conj v[l, k, j, i]` of `FieldOperatorTerm.adjoint` sends the interaction tensor to itself with the two density
factors exchanged (`v[k, l, i, j]`), which denotes the same operator because `n_i n_j = n_j n_i` for `i ≠ j` -/
theorem C15_hubbard_hermitian_coeff (L : ℕ) (adj : ℕ → ℕ → ℤ) (t u : K) (spin : Bool) (ht : star t = t) (hu : star u = u)
    (hsym : ∀ i j, adj i j = adj j i) :
    (∀ i j, star (hubbardKin L adj t spin j i) = hubbardKin L adj t spin i j) ∧
    (∀ i j k l, star (hubbardInt L adj u spin l k j i) = hubbardInt L adj u spin k l i j) := by
  constructor
  · intro i j
    cases spin
    · simp [hubbardKin, ht, hsym j i]
    · simp only [hubbardKin, if_true, kronI2, star_mul', star_neg, ht, star_intCast, hsym (j % (L / 2)) (i % (L / 2)),
        eq_comm (a := j / (L / 2))]
  · intro i j k l
    cases spin
    · simp only [hubbardInt, Bool.false_eq_true, if_false]
      have : (k = l ∧ i = j ∧ l < j ∧ j < L ∧ adj l j ≠ 0) ↔ (l = k ∧ j = i ∧ k < i ∧ i < L ∧ adj k i ≠ 0) := by
        constructor
        · rintro ⟨rfl, rfl, h⟩; exact ⟨rfl, rfl, h⟩
        · rintro ⟨rfl, rfl, h⟩; exact ⟨rfl, rfl, h⟩
      by_cases hc : (k = l ∧ i = j ∧ l < j ∧ j < L ∧ adj l j ≠ 0)
      · rw [if_pos hc, if_pos (this.mp hc), hu]
      · rw [if_neg hc, if_neg (fun h => hc (this.mpr h)), star_zero]
    · simp only [hubbardInt, if_true]
      have : (l < L / 2 ∧ k = l ∧ j = l + L / 2 ∧ i = l + L / 2) ↔ (k < L / 2 ∧ l = k ∧ i = k + L / 2 ∧ j = k + L / 2) := by
        constructor
        · rintro ⟨h, rfl, rfl, rfl⟩; exact ⟨h, rfl, rfl, rfl⟩
        · rintro ⟨h, rfl, rfl, rfl⟩; exact ⟨h, rfl, rfl, rfl⟩
      by_cases hc : (l < L / 2 ∧ k = l ∧ j = l + L / 2 ∧ i = l + L / 2)
      · rw [if_pos hc, if_pos (this.mp hc), hu]
      · rw [if_neg hc, if_neg (fun h => hc (this.mpr h)), star_zero]

end car

/-! ### on every lattice of the lattice model -/

/-- every well-formed lattice: each pair of neighbouring sites is scanned exactly once -/
theorem C15_lattice_edges_once (l : Lat) (hl : l.WF) (i j : ℕ) (hadj : l.adj i j = true) :
    ((i, j) ∈ edgeSet l.nsites (LatIn.ofLat l).adj ∨ (j, i) ∈ edgeSet l.nsites (LatIn.ofLat l).adj) ∧
    ¬ ((i, j) ∈ edgeSet l.nsites (LatIn.ofLat l).adj ∧ (j, i) ∈ edgeSet l.nsites (LatIn.ofLat l).adj) := by
  obtain ⟨hsym, hdiag, _, hiff, _⟩ := C15_lattice_adj_props l hl
  obtain ⟨hi, hj⟩ := adj_lt l hadj
  exact C15_edges_once l.nsites _ (fun a b _ _ => hsym a b) (fun a _ => hdiag a) i j hi hj ((hiff i j).mpr hadj)

section carlat
variable {R : Type} [Ring R] [StarRing R] {K : Type} [CommRing K] [Algebra K R] [StarRing K] [StarModule K R]

/-- spinless Hubbard on any well-formed lattice, real couplings: the edge/site form, Hermitian, number conserving -/
theorem C15_hubbard_lattice_spinless (l : Lat) (hl : l.WF) (t u : K) (ht : star t = t) (hu : star u = u)
    (C : CAR R (LatIn.ofLat l).nsites) :
    Hubbard.den ⟨LatIn.ofLat l, t, u, false⟩ C =
      (-t) • ∑ p ∈ edgeSet l.nsites (LatIn.ofLat l).adj, (C.ad p.1 * C.a p.2 + C.ad p.2 * C.a p.1) +
      u • ∑ p ∈ edgeSet l.nsites (LatIn.ofLat l).adj, C.n p.1 * C.n p.2 ∧
    star (Hubbard.den ⟨LatIn.ofLat l, t, u, false⟩ C) = Hubbard.den ⟨LatIn.ofLat l, t, u, false⟩ C ∧
    C.N * Hubbard.den ⟨LatIn.ofLat l, t, u, false⟩ C = Hubbard.den ⟨LatIn.ofLat l, t, u, false⟩ C * C.N := by
  obtain ⟨hsym, hdiag, h01, _, _⟩ := C15_lattice_adj_props l hl
  exact ⟨C15_hubbard_def_op_spinless (LatIn.ofLat l) t u C (fun a b _ _ => h01 a b) (fun a b _ _ => hsym a b) (fun a _ => hdiag a),
    (C15_hubbard_hermitian_spinless (LatIn.ofLat l) t u ht hu C (fun a b _ _ => h01 a b) (fun a b _ _ => hsym a b)
      (fun a _ => hdiag a)).2,
    C15_hubbard_conserves_N ⟨LatIn.ofLat l, t, u, false⟩ C⟩

/-- spinful Hubbard on two layers of any well-formed base lattice: accepted by the constructor, the assertion
`L % 2 == 0` holds, hopping inside each layer over the base lattice's edges once, on-site repulsion between the
layers, Hermitian, number conserving -/
theorem C15_hubbard_lattice_spinful (base : Lat) (hb : base.WF) (t u : PyArg K) (hk : t.kind.isFloat = true ∧ u.kind.isFloat = true)
    (ht : star t.val = t.val) (hu : star u.val = u.val) (C : CAR R (LatIn.ofLat (.layered base 2)).nsites) :
    mkHubbard ⟨.fermion, LatIn.ofLat (.layered base 2)⟩ t u true = .ok ⟨LatIn.ofLat (.layered base 2), t.val, u.val, true⟩ ∧
    Hubbard.check (⟨LatIn.ofLat (.layered base 2), t.val, u.val, true⟩ : Hubbard K) = .ok () ∧
    Hubbard.den ⟨LatIn.ofLat (.layered base 2), t.val, u.val, true⟩ C =
      (-t.val) • ∑ s ∈ Finset.range 2, ∑ p ∈ edgeSet base.nsites (LatIn.ofLat base).adj,
        (C.ad (s * base.nsites + p.1) * C.a (s * base.nsites + p.2) +
          C.ad (s * base.nsites + p.2) * C.a (s * base.nsites + p.1)) +
      u.val • ∑ i ∈ Finset.range base.nsites, C.n i * C.n (i + base.nsites) ∧
    star (Hubbard.den ⟨LatIn.ofLat (.layered base 2), t.val, u.val, true⟩ C) =
      Hubbard.den ⟨LatIn.ofLat (.layered base 2), t.val, u.val, true⟩ C ∧
    C.N * Hubbard.den ⟨LatIn.ofLat (.layered base 2), t.val, u.val, true⟩ C =
      Hubbard.den ⟨LatIn.ofLat (.layered base 2), t.val, u.val, true⟩ C * C.N := by
  obtain ⟨hsym, hdiag, h01, _, _⟩ := C15_lattice_adj_props base hb
  have hL : (LatIn.ofLat (.layered base 2)).nsites = base.nsites + base.nsites := by
    simp [LatIn.ofLat, Lat.nsites]; omega
  have hblk : ∀ i j, i < base.nsites → j < base.nsites →
      (LatIn.ofLat (.layered base 2)).adj i j = (LatIn.ofLat base).adj i j :=
    fun i j hi hj => (C15_layered_block base i j hi hj).2.2
  have e01 : ∀ i j, i < base.nsites → j < base.nsites →
      (LatIn.ofLat (.layered base 2)).adj i j = 0 ∨ (LatIn.ofLat (.layered base 2)).adj i j = 1 :=
    fun i j hi hj => by rw [hblk i j hi hj]; exact h01 i j
  have esym : ∀ i j, i < base.nsites → j < base.nsites →
      (LatIn.ofLat (.layered base 2)).adj i j = (LatIn.ofLat (.layered base 2)).adj j i :=
    fun i j hi hj => by rw [hblk i j hi hj, hblk j i hj hi]; exact hsym i j
  have ediag : ∀ i, i < base.nsites → (LatIn.ofLat (.layered base 2)).adj i i = 0 :=
    fun i hi => by rw [hblk i i hi hi]; exact hdiag i
  have hedge : edgeSet base.nsites (LatIn.ofLat (.layered base 2)).adj = edgeSet base.nsites (LatIn.ofLat base).adj := by
    ext ⟨i, j⟩
    simp only [mem_edgeSet]
    constructor
    · rintro ⟨h1, h2, h3⟩; exact ⟨h1, h2, by rwa [hblk i j (by omega) h2] at h3⟩
    · rintro ⟨h1, h2, h3⟩; exact ⟨h1, h2, by rwa [hblk i j (by omega) h2]⟩
  refine ⟨?_, ?_, ?_, ?_, ?_⟩
  · simp [mkHubbard, hk.1, hk.2, LatIn.ofLat]
  · have : (LatIn.ofLat (.layered base 2)).nsites % 2 = 0 := by rw [hL]; omega
    simp [Hubbard.check, this]
  · rw [C15_hubbard_def_op_spinful _ base.nsites hL t.val u.val C e01 esym ediag, hedge]
  · exact (C15_hubbard_hermitian_spinful _ base.nsites hL t.val u.val ht hu C e01 esym ediag).2
  · exact C15_hubbard_conserves_N ⟨LatIn.ofLat (.layered base 2), t.val, u.val, true⟩ C

end carlat

/-! ### molecular Hamiltonian -/

/-- what the constructor accepts: shapes `(n, n)` / `(n, n, n, n)` with `n = len(tkin)`, a fermionic field on `n`
sites, and – exactly when the flag demands it – a real constant, `allclose(tkin, tkin†)`,
`allclose(vint, conj(vint).transpose(2, 3, 0, 1))` (HERMITIAN) resp. `allclose(vint, vint.transpose(1, 0, 3, 2))`
(VARCHANGE); the object then stores the arguments unchanged -/
theorem C15_molecular_accepts_iff (atol rtol : ℚ) (m : MolArgs) (H : Molecular) :
    mkMolecular atol rtol m = .ok H ↔
      MolValid atol rtol m H.norbs ∧ H = ⟨H.norbs, m.c.val, m.t, m.v, m.symH, m.symV⟩ :=
  ⟨mkMolecular_ok atol rtol m H, fun ⟨hv, e⟩ => by rw [e]; exact mkMolecular_complete atol rtol m _ hv⟩

theorem C15_molecular_valid_def (atol rtol : ℚ) (m : MolArgs) (n : ℕ) :
    MolValid atol rtol m n ↔
      (m.tshape = [n, n] ∧ m.vshape = [n, n, n, n] ∧ m.ptype = .fermion ∧ m.nsites = n ∧
      (m.symH = true → m.c.kind.isIntOrFloat = true ∧
        (∀ i j, i < n → j < n → closeTol atol rtol (m.t i j) (m.t j i).conj = true) ∧
        (∀ i j k l, i < n → j < n → k < n → l < n → closeTol atol rtol (m.v i j k l) (m.v k l i j).conj = true)) ∧
      (m.symV = true → ∀ i j k l, i < n → j < n → k < n → l < n → closeTol atol rtol (m.v i j k l) (m.v j i l k) = true)) :=
  Iff.rfl

/-- the tolerance test of the model is NumPy's `isclose` formula over the reals; with zero tolerances it is equality -/
theorem C15_closeTol_spec (atol rtol : ℚ) (ha : 0 ≤ atol) (hr : 0 ≤ rtol) (a b : GQ) :
    (closeTol atol rtol a b = true ↔ ‖a.toC - b.toC‖ ≤ (atol : ℝ) + (rtol : ℝ) * ‖b.toC‖) ∧
    (closeTol 0 0 a b = true ↔ a = b) :=
  ⟨closeTol_iff atol rtol ha hr a b, closeTol_zero a b⟩

/-- rejections: wrong shapes, a non-fermionic field or a wrong site count are refused with `ValueError`
(a 0-dimensional `tkin` with `TypeError` from `len`) whatever the flags are -/
theorem C15_molecular_rejects (atol rtol : ℚ) (m : MolArgs) (n : ℕ) (rest : List ℕ) (hts : m.tshape = n :: rest)
    (hbad : m.tshape ≠ [n, n] ∨ m.vshape ≠ [n, n, n, n] ∨ m.ptype ≠ .fermion ∨ m.nsites ≠ n) :
    mkMolecular atol rtol m = .error .valueError := by
  unfold mkMolecular
  rw [hts]
  simp only
  rw [hts] at hbad
  by_cases h1 : n :: rest ≠ [n, n]
  · rw [if_pos h1]
  · rw [if_neg h1]
    by_cases h2 : m.vshape ≠ [n, n, n, n]
    · rw [if_pos h2]
    · rw [if_neg h2]
      by_cases h3 : m.ptype ≠ .fermion
      · rw [if_pos h3]
      · rw [if_neg h3]
        by_cases h4 : m.nsites ≠ n
        · rw [if_pos h4]
        · rcases hbad with h | h | h | h <;> contradiction

/-- `is_hermitian()` answers `HERMITIAN in symm` -/
theorem C15_molecular_flag (atol rtol : ℚ) (m : MolArgs) (H : Molecular) (h : mkMolecular atol rtol m = .ok H) :
    H.isHermitian = m.symH := by
  rw [((C15_molecular_accepts_iff atol rtol m H).mp h).2]; rfl

/-- coefficient tensors of `as_field_operator`: the constant, `tkin`, and `0.5 * vint.transpose(0, 1, 3, 2)`;
operator patterns `[]`, `a† a`, `a† a† a a` -/
theorem C15_molecular_def_coeff (H : Molecular) (i j k l : ℕ) :
    H.coeffC = H.c ∧ H.coeffT i j = H.t i j ∧ H.coeffV i j k l = GQ.half * H.v i j l k ∧ GQ.half.toC = 1 / 2 ∧
    molPatternC = [] ∧ molPatternT = [.create, .annihil] ∧ molPatternV = [.create, .create, .annihil, .annihil] :=
  ⟨rfl, rfl, rfl, GQ.toC_half, rfl, rfl, rfl⟩

section carmol
variable {R : Type} [Ring R] [StarRing R] [Algebra ℂ R]

/-- the index swap and the factor ½ give the physicists' convention of the docstring:
`H = c + Σ t_ij a†_i a_j + ½ Σ v_ijkl a†_i a†_j a_l a_k` (note the order of `k` and `l`) -/
theorem C15_molecular_def (H : Molecular) (C : CAR R H.norbs) :
    H.den C = H.c.toC • (1 : R) +
      (∑ i ∈ Finset.range H.norbs, ∑ j ∈ Finset.range H.norbs, (H.t i j).toC • (C.ad i * C.a j)) +
      (1 / 2 : ℂ) • ∑ i ∈ Finset.range H.norbs, ∑ j ∈ Finset.range H.norbs, ∑ k ∈ Finset.range H.norbs,
        ∑ l ∈ Finset.range H.norbs, (H.v i j k l).toC • (C.ad i * C.ad j * C.a l * C.a k) := by
  unfold Molecular.den
  have hV : (fun i j k l => (H.coeffV i j k l).toC) = molV (1 / 2 : ℂ) (fun i j k l => (H.v i j k l).toC) := by
    funext i j k l
    simp only [Molecular.coeffV, molV, GQ.toC_mul, GQ.toC_half]
  rw [hV, C.mol_int_form, molPatternC, molPatternT, C.termDen_nil, C.termDen_two]
  rfl

/-- the molecular Hamiltonian conserves the particle number as well -/
theorem C15_molecular_conserves_N (H : Molecular) (C : CAR R H.norbs) : C.N * H.den C = H.den C * C.N := by
  unfold Molecular.den
  rw [mul_add, mul_add, add_mul, add_mul, C.N_commutes_balanced _ C15_hubbard_number_balanced.2.2.2.2.1,
    C.N_commutes_balanced _ C15_hubbard_number_balanced.2.2.2.2.2.1,
    C.N_commutes_balanced _ C15_hubbard_number_balanced.2.2.2.2.2.2]

variable [StarModule ℂ R]

/-- Hermitian under exactly the validated symmetries: a constructor call with the HERMITIAN flag that succeeds
(here with zero tolerances, i.e. exactly symmetric tensors: real `c`, `t = t†`, `v_ijkl = conj v_klij`) yields
`is_hermitian() = True` and `H† = H` in every representation of the CAR; the VARCHANGE symmetry is not needed -/
theorem C15_molecular_hermitian (m : MolArgs) (H : Molecular) (h : mkMolecular 0 0 m = .ok H) (hs : m.symH = true)
    (hc : m.c.val.im = 0) (C : CAR R H.norbs) :
    H.isHermitian = true ∧ star (H.den C) = H.den C := by
  obtain ⟨hv, e⟩ := (C15_molecular_accepts_iff 0 0 m H).mp h
  obtain ⟨_, _, _, _, hH, _⟩ := hv
  obtain ⟨_, ht, hvv⟩ := hH hs
  have eT : ∀ i j, i < H.norbs → j < H.norbs → star (H.t j i).toC = (H.t i j).toC := by
    intro i j hi hj
    have := (closeTol_zero _ _).mp (ht i j hi hj)
    rw [e]; simp only
    rw [this, GQ.toC_conj]
  have eV : ∀ i j k l, i < H.norbs → j < H.norbs → k < H.norbs → l < H.norbs →
      star (H.v k l i j).toC = (H.v i j k l).toC := by
    intro i j k l hi hj hk hl
    have := (closeTol_zero _ _).mp (hvv i j k l hi hj hk hl)
    rw [e]; simp only
    rw [this, GQ.toC_conj]
  have eC : star H.c.toC = H.c.toC := by
    rw [e]; exact GQ.toC_real_star _ hc
  refine ⟨by rw [e]; exact hs, ?_⟩
  rw [C15_molecular_def, star_add, star_add, star_smul, star_one, eC, star_smul, C.star_int_form]
  have h2 : star (∑ i ∈ Finset.range H.norbs, ∑ j ∈ Finset.range H.norbs, (H.t i j).toC • (C.ad i * C.a j)) =
      ∑ i ∈ Finset.range H.norbs, ∑ j ∈ Finset.range H.norbs, (H.t i j).toC • (C.ad i * C.a j) := by
    have := C.star_hop_term (K := ℂ) (fun i j => (H.t i j).toC)
    rw [molPatternT, C.termDen_two, C.termDen_two] at this
    rw [show (∑ i ∈ Finset.range H.norbs, ∑ j ∈ Finset.range H.norbs, (H.t i j).toC • (C.ad i * C.a j)) =
      ∑ i ∈ Finset.range H.norbs, ∑ j ∈ Finset.range H.norbs, (H.t i j).toC • (C.op .create i * C.op .annihil j) from rfl,
      this]
    apply Finset.sum_congr rfl; intro i hi
    apply Finset.sum_congr rfl; intro j hj
    rw [eT i j (Finset.mem_range.mp hi) (Finset.mem_range.mp hj)]
  rw [h2]
  congr 2
  · simp
  · apply Finset.sum_congr rfl; intro i hi
    apply Finset.sum_congr rfl; intro j hj
    apply Finset.sum_congr rfl; intro k hk
    apply Finset.sum_congr rfl; intro l hl
    rw [eV i j k l (Finset.mem_range.mp hi) (Finset.mem_range.mp hj) (Finset.mem_range.mp hk) (Finset.mem_range.mp hl)]

end carmol

/-- with NumPy's tolerances the validated symmetry is approximate: a successful HERMITIAN construction bounds every
coefficient's deviation from the Hermitian partner by `atol + rtol·|partner|` (so `H − H†` is small, not zero) -/
theorem C15_molecular_hermitian_tol (atol rtol : ℚ) (ha : 0 ≤ atol) (hr : 0 ≤ rtol) (m : MolArgs) (H : Molecular)
    (h : mkMolecular atol rtol m = .ok H) (hs : m.symH = true) :
    (∀ i j, i < H.norbs → j < H.norbs →
      ‖(H.t i j).toC - star (H.t j i).toC‖ ≤ (atol : ℝ) + (rtol : ℝ) * ‖(H.t j i).toC‖) ∧
    (∀ i j k l, i < H.norbs → j < H.norbs → k < H.norbs → l < H.norbs →
      ‖(H.v i j k l).toC - star (H.v k l i j).toC‖ ≤ (atol : ℝ) + (rtol : ℝ) * ‖(H.v k l i j).toC‖) := by
  obtain ⟨hv, e⟩ := (C15_molecular_accepts_iff atol rtol m H).mp h
  obtain ⟨_, _, _, _, hH, _⟩ := hv
  obtain ⟨_, ht, hvv⟩ := hH hs
  constructor
  · intro i j hi hj
    have := (closeTol_iff atol rtol ha hr _ _).mp (ht i j hi hj)
    rw [GQ.toC_conj, Complex.star_def, Complex.norm_conj] at this
    rw [e, Complex.star_def]; exact this
  · intro i j k l hi hj hk hl
    have := (closeTol_iff atol rtol ha hr _ _).mp (hvv i j k l hi hj hk hl)
    rw [GQ.toC_conj, Complex.star_def, Complex.norm_conj] at this
    rw [e, Complex.star_def]; exact this

/-! ### non-vacuity -/

/-- 3-site ring, convention ZZ: three edges once, then the fields (order of insertion of the code) -/
example : isingOp 3 (fun i j => if i = j then 0 else 1) (1 : ℤ) 2 3 .zz =
    [(sitePS 3 .Z [0, 1], 1), (sitePS 3 .Z [0, 2], 1), (sitePS 3 .Z [0], 2), (sitePS 3 .X [0], 3),
     (sitePS 3 .Z [1, 2], 1), (sitePS 3 .Z [1], 2), (sitePS 3 .X [1], 3),
     (sitePS 3 .Z [2], 2), (sitePS 3 .X [2], 3)] := by decide
example : sitePS 3 .Y [0, 2] = ⟨[true, false, true], [true, false, true], 0⟩ := by decide
example : edgeSet 3 (fun i j => if i = j then 0 else 1) = {(0, 1), (0, 2), (1, 2)} := by decide
example : (heisOp 2 (fun i j => if i = j then 0 else 1) (fun _ => (1 : ℤ)) (fun _ => 0)).length = 9 := by decide

example : (LatIn.ofLat (.layered (.integer [2] [false]) 2)).adj 0 1 = 1 ∧
    (LatIn.ofLat (.layered (.integer [2] [false]) 2)).adj 0 2 = 1 ∧
    (LatIn.ofLat (.layered (.integer [2] [false]) 2)).adj 0 3 = 0 := by decide
example : Lat.WF (.layered (.integer [2, 3] [true, false]) 2) := trivial

example : hubbardKin 4 (LatIn.ofLat (.layered (.integer [2] [false]) 2)).adj (1 : ℤ) true 2 3 = -1 ∧
    hubbardKin 4 (LatIn.ofLat (.layered (.integer [2] [false]) 2)).adj (1 : ℤ) true 0 2 = 0 ∧
    hubbardInt 4 (LatIn.ofLat (.layered (.integer [2] [false]) 2)).adj (5 : ℤ) true 1 1 3 3 = 5 ∧
    hubbardInt 4 (LatIn.ofLat (.layered (.integer [2] [false]) 2)).adj (5 : ℤ) true 3 3 1 1 = 0 := by decide

/-- the hypotheses of the operator-level theorems are satisfiable: a two-mode Jordan-Wigner representation -/
def exHubbard : Hubbard ℂ := ⟨⟨2, fun i j => if i = j then 0 else 1, none⟩, 1, 2, false⟩
example : jwCAR2.N * exHubbard.den jwCAR2 = exHubbard.den jwCAR2 * jwCAR2.N :=
  C15_hubbard_conserves_N (R := Matrix (Fin 4) (Fin 4) ℂ) (K := ℂ) exHubbard jwCAR2

example : mkHubbard (α := ℚ) ⟨.fermion, ⟨4, fun _ _ => 0, some 2⟩⟩ ⟨.float, 1⟩ ⟨.npfloat64, 2⟩ true =
    .ok ⟨⟨4, fun _ _ => 0, some 2⟩, 1, 2, true⟩ := rfl
example : (mkHubbard (α := ℚ) ⟨.fermion, ⟨4, fun _ _ => 0, some 3⟩⟩ ⟨.float, 1⟩ ⟨.float, 2⟩ true).toOption = none := rfl
example : (mkHubbard (α := ℚ) ⟨.fermion, ⟨4, fun _ _ => 0, none⟩⟩ ⟨.int, 1⟩ ⟨.float, 2⟩ false).toOption = none := rfl

def exMol (t01 : GQ) (symH : Bool) : MolArgs :=
  { ptype := .fermion, nsites := 2, tshape := [2, 2], vshape := [2, 2, 2, 2], c := ⟨.float, ⟨3 / 2, 0⟩⟩,
    t := fun i j => if i = 0 ∧ j = 1 then t01 else if i = 1 ∧ j = 0 then ⟨0, 1⟩ else 0,
    v := fun _ _ _ _ => 0, symH := symH, symV := true }

/-- Hermitian `tkin` (`t01 = conj t10 = -i`) is accepted with the flag; `t01 = i` only without it -/
example : (mkMolecular 0 0 (exMol ⟨0, -1⟩ true)).toOption.isSome = true := by decide +kernel
example : (mkMolecular 0 0 (exMol ⟨0, 1⟩ true)).toOption.isSome = false := by decide +kernel
example : (mkMolecular 0 0 (exMol ⟨0, 1⟩ false)).toOption.isSome = true := by decide +kernel
example : closeTol (1 / 100000000) (1 / 100000) ⟨1, 0⟩ ⟨1 + 1 / 1000000000000, 0⟩ = true ∧
    closeTol (1 / 100000000) (1 / 100000) ⟨1, 0⟩ ⟨1 + 1 / 1000, 0⟩ = false := by decide +kernel

end Qib.Ham
