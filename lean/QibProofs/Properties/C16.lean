import QibProofs.Lemmas.GateBridge
import QibProofs.Lemmas.GateAlgebra
import QibProofs.Lemmas.PauliFlags
import Mathlib.Tactic.NormNum
import Mathlib.Tactic.Positivity
/-!
C16 — Hermiticity claims are sound (property theorems only; gate classes).
`K.hermitianFlag` is the answer of `K.is_hermitian()` regenerated from the source; each theorem has the
form `flag = true → Mᴴ = M` and its proof script works for either value of the flag as long as the claim
is true, so flipping a flag to an unsound `True` in the source breaks the proof obligation.
Pauli strings, weighted strings and Pauli operators are covered at the end of this file (executable model
`QibModel/Pauli.lean`, phase table regenerated from the source); field-operator terms and Hamiltonians in C10 / C15.
-/
open Matrix NormedSpace Complex QibGen QibRef Qib.GateAlgebra

namespace Qib.C16

/-- closes `flag = true → Mᴴ = M` for a generated 2×2 / 4×4 leaf: refute the hypothesis when the flag is
`false`, compute entries otherwise -/
macro "flag_sound" d:ident : tactic =>
  `(tactic| (intro h; first
      | exact absurd h (by decide)
      | (ext i j; fin_cases i <;> fin_cases j <;> simp [$d:ident])))

theorem C16_IdentityGate : IdentityGate.hermitianFlag = true → IdentityGate.matᴴ = IdentityGate.mat := by
  flag_sound IdentityGate.mat
theorem C16_PauliXGate : PauliXGate.hermitianFlag = true → PauliXGate.matᴴ = PauliXGate.mat := by
  flag_sound PauliXGate.mat
theorem C16_PauliYGate : PauliYGate.hermitianFlag = true → PauliYGate.matᴴ = PauliYGate.mat := by
  flag_sound PauliYGate.mat
theorem C16_PauliZGate : PauliZGate.hermitianFlag = true → PauliZGate.matᴴ = PauliZGate.mat := by
  flag_sound PauliZGate.mat
theorem C16_HadamardGate : HadamardGate.hermitianFlag = true → HadamardGate.matᴴ = HadamardGate.mat := by
  flag_sound HadamardGate.mat
theorem C16_SxGate : SxGate.hermitianFlag = true → SxGate.matᴴ = SxGate.mat := by
  flag_sound SxGate.mat
theorem C16_SGate : SGate.hermitianFlag = true → SGate.matᴴ = SGate.mat := by
  flag_sound SGate.mat
theorem C16_SAdjGate : SAdjGate.hermitianFlag = true → SAdjGate.matᴴ = SAdjGate.mat := by
  flag_sound SAdjGate.mat
theorem C16_TGate : TGate.hermitianFlag = true → TGate.matᴴ = TGate.mat := by
  flag_sound TGate.mat
theorem C16_TAdjGate : TAdjGate.hermitianFlag = true → TAdjGate.matᴴ = TAdjGate.mat := by
  flag_sound TAdjGate.mat
theorem C16_ISwapGate : ISwapGate.hermitianFlag = true → ISwapGate.matᴴ = ISwapGate.mat := by
  flag_sound ISwapGate.mat
theorem C16_RxGate (θ : ℝ) : RxGate.hermitianFlag = true → (RxGate.mat θ)ᴴ = RxGate.mat θ := by
  flag_sound RxGate.mat
theorem C16_RyGate (θ : ℝ) : RyGate.hermitianFlag = true → (RyGate.mat θ)ᴴ = RyGate.mat θ := by
  flag_sound RyGate.mat
theorem C16_RzGate (θ : ℝ) : RzGate.hermitianFlag = true → (RzGate.mat θ)ᴴ = RzGate.mat θ := by
  flag_sound RzGate.mat
theorem C16_RotationGate (v : Fin 3 → ℝ) : RotationGate.hermitianFlag = true → (RotationGate.mat v)ᴴ = RotationGate.mat v := by
  flag_sound RotationGate.mat
theorem C16_RxxGate (θ : ℝ) : RxxGate.hermitianFlag = true → (RxxGate.mat θ)ᴴ = RxxGate.mat θ := by
  flag_sound RxxGate.mat
theorem C16_RyyGate (θ : ℝ) : RyyGate.hermitianFlag = true → (RyyGate.mat θ)ᴴ = RyyGate.mat θ := by
  flag_sound RyyGate.mat
theorem C16_RzzGate (θ : ℝ) : RzzGate.hermitianFlag = true → (RzzGate.mat θ)ᴴ = RzzGate.mat θ := by
  flag_sound RzzGate.mat
theorem C16_PhaseFactorGate (φ : ℝ) (n : ℕ) : PhaseFactorGate.hermitianFlag = true → (PhaseFactorGate.mat φ n)ᴴ = PhaseFactorGate.mat φ n := by
  intro h; exact absurd h (by decide)

/-! ### composites: the answer is derived from the parts -/

section Composite
variable {κ ι : Type} [Fintype κ] [DecidableEq κ] [Fintype ι] [DecidableEq ι]

/-- `ControlledGate.is_hermitian` (delegation to the target as written in the source) is sound -/
theorem C16_controlled (cs : κ) (U : Matrix ι ι ℂ) (tflag : Bool) (hU : tflag = true → Uᴴ = U) :
    ControlledGate.hermitianFlag tflag = true → (blockOn cs U)ᴴ = blockOn cs U := by
  intro h
  have hU' : Uᴴ = U := hU (by simpa [ControlledGate.hermitianFlag] using h)
  rw [blockOn_eq_blocks, blocks_conjTranspose]
  congr 1; funext k; split_ifs
  · exact hU'
  · simp

/-- `MultiplexedGate.is_hermitian` (all targets) is sound -/
theorem C16_multiplexed (ks : List κ) (hks : ∀ k, k ∈ ks) (U : κ → Matrix ι ι ℂ) (tflag : κ → Bool)
    (hU : ∀ k, tflag k = true → (U k)ᴴ = U k) :
    MultiplexedGate.hermitianFlag (ks.map tflag) = true → (blocks U)ᴴ = blocks U := by
  intro h
  have hall : ∀ k, tflag k = true := by
    intro k
    have h' : (ks.map tflag).all id = true := h
    rw [List.all_eq_true] at h'
    have := h' (tflag k) (List.mem_map.mpr ⟨k, hks k, rfl⟩)
    simpa using this
  rw [blocks_conjTranspose]
  congr 1; funext k; exact hU k (hall k)

/-- `BlockEncodingGate.is_hermitian` by method: only where the matrix really is Hermitian (for Hermitian `H`, `S`) -/
theorem C16_blockEncoding (H S : Matrix ι ι ℂ) (hH : Hᴴ = H) (hS : Sᴴ = S) (m : BlockEncodingMethod) :
    BlockEncodingGate.hermitianFlag m = true →
      (match m with
        | .Wx => fromBlocks H (I • S) (I • S) H
        | .Wxi => fromBlocks H ((-I) • S) ((-I) • S) H
        | .R => fromBlocks H S S (-H))ᴴ =
      (match m with
        | .Wx => fromBlocks H (I • S) (I • S) H
        | .Wxi => fromBlocks H ((-I) • S) ((-I) • S) H
        | .R => fromBlocks H S S (-H)) := by
  intro h
  cases m with
  | Wx => first | exact absurd h (by decide) | (simp [fromBlocks_conjTranspose, hH, hS])
  | Wxi => first | exact absurd h (by decide) | (simp [fromBlocks_conjTranspose, hH, hS])
  | R => first | exact absurd h (by decide) | (simp [fromBlocks_conjTranspose, hH, hS])

/-- `GeneralGate.is_hermitian` is the matrix test itself: sound and complete (exact arithmetic) -/
theorem C16_general_iff (U : Matrix ι ι ℂ) [Decidable (Uᴴ = U)] :
    GeneralGate.hermitianFlag (decide (Uᴴ = U)) = true ↔ Uᴴ = U := by
  simp [GeneralGate.hermitianFlag]

theorem C16_timeEvolution_prepare : TimeEvolutionGate.hermitianFlag = false ∧ PrepareGate.hermitianFlag = false := by
  first | exact ⟨rfl, rfl⟩ | skip

end Composite

/-- non-vacuity: a controlled Hadamard really is flagged and is Hermitian -/
example : ControlledGate.hermitianFlag HadamardGate.hermitianFlag = true := by decide

/-! ### Pauli strings, weighted Pauli strings, Pauli operators (all lengths `n`, all phases, all weights) -/

open Qib.Pauli in
/-- `PauliString.is_hermitian` (`q % 2 == 0`, constants regenerated from the source) is exact: sound AND complete. -/
theorem C16_PauliString_iff (n : ℕ) (P : PS) : P.isHermitian = true ↔ (P.mat n)ᴴ = P.mat n :=
  Qib.Pauli.hermitian_iff n P

open Qib.Pauli in
/-- `WeightedPauliString.is_hermitian` (`([1,-1j,-1,1j][q] * weight).imag == 0`, table regenerated from the source) on
exactly representable weights (Gaussian rationals; every float weight is one) is exact: sound AND complete. -/
theorem C16_WeightedPauliString_iff (n : ℕ) (P : PS) (w : GQ) :
    wpsIsHermitian P w = true ↔ (w.toC • P.mat n)ᴴ = w.toC • P.mat n :=
  Qib.Pauli.wpsIsHermitian_iff n P w

open Qib.Pauli in
/-- the same for an arbitrary complex weight: the weighted string is Hermitian iff `(-i)^q · w` is real. -/
theorem C16_WeightedPauliString_iff_complex (n : ℕ) (P : PS) (w : ℂ) :
    ((-I) ^ P.q.val * w).im = 0 ↔ (w • P.mat n)ᴴ = w • P.mat n :=
  Qib.Pauli.wps_hermitian_iff n P w

open Qib.Pauli in
/-- `PauliOperator.is_hermitian` (all weighted strings answer True) is sound for the operator's matrix (weighted sum). -/
theorem C16_PauliOperator_sound (n : ℕ) (op : PauliOp GQ) (h : PauliOp.isHermitian op = true) :
    (PauliOp.mat GQ.toC n op)ᴴ = PauliOp.mat GQ.toC n op :=
  Qib.Pauli.pauliOp_isHermitian_sound n op h

/-- non-vacuity / incompleteness is genuine at operator level: `X·(i) + X·(-i)` stored as two entries would answer False although
the sum is Hermitian (0); the code merges equal strings on insertion, so this needs a constructor list with duplicates. The property
claims completeness only for strings and weighted strings. -/
example : Qib.Pauli.PauliOp.isHermitian [(⟨[false], [true], 0⟩, ⟨1, 0⟩)] = true := by decide +kernel

/-! ### The same statements about the forms regenerated from the CURRENT source

`QibSrc.K.mat` / `QibSrc.K.inv` are regenerated from `src/qib/operator/gates.py` on every run; `QibBridge` proves on every run that they are
equal to the reference forms `QibRef.K.mat` / `QibRef.K.inv` used above (by a tactic that is independent of how the source spells the
closed form), so every theorem above is a theorem about what the code says now. -/

theorem C16_source_agrees : QibBridge.SrcAgrees := QibBridge.srcAgrees
theorem C16_IdentityGate_src : IdentityGate.hermitianFlag = true → (QibSrc.IdentityGate.mat)ᴴ = QibSrc.IdentityGate.mat := by
  rw [QibBridge.IdentityGate_mat]; exact C16_IdentityGate
theorem C16_PauliXGate_src : PauliXGate.hermitianFlag = true → (QibSrc.PauliXGate.mat)ᴴ = QibSrc.PauliXGate.mat := by
  rw [QibBridge.PauliXGate_mat]; exact C16_PauliXGate
theorem C16_PauliYGate_src : PauliYGate.hermitianFlag = true → (QibSrc.PauliYGate.mat)ᴴ = QibSrc.PauliYGate.mat := by
  rw [QibBridge.PauliYGate_mat]; exact C16_PauliYGate
theorem C16_PauliZGate_src : PauliZGate.hermitianFlag = true → (QibSrc.PauliZGate.mat)ᴴ = QibSrc.PauliZGate.mat := by
  rw [QibBridge.PauliZGate_mat]; exact C16_PauliZGate
theorem C16_HadamardGate_src : HadamardGate.hermitianFlag = true → (QibSrc.HadamardGate.mat)ᴴ = QibSrc.HadamardGate.mat := by
  rw [QibBridge.HadamardGate_mat]; exact C16_HadamardGate
theorem C16_SxGate_src : SxGate.hermitianFlag = true → (QibSrc.SxGate.mat)ᴴ = QibSrc.SxGate.mat := by
  rw [QibBridge.SxGate_mat]; exact C16_SxGate
theorem C16_RxGate_src (θ : ℝ): RxGate.hermitianFlag = true → (QibSrc.RxGate.mat θ)ᴴ = QibSrc.RxGate.mat θ := by
  rw [QibBridge.RxGate_mat]; exact C16_RxGate θ
theorem C16_RyGate_src (θ : ℝ): RyGate.hermitianFlag = true → (QibSrc.RyGate.mat θ)ᴴ = QibSrc.RyGate.mat θ := by
  rw [QibBridge.RyGate_mat]; exact C16_RyGate θ
theorem C16_RzGate_src (θ : ℝ): RzGate.hermitianFlag = true → (QibSrc.RzGate.mat θ)ᴴ = QibSrc.RzGate.mat θ := by
  rw [QibBridge.RzGate_mat]; exact C16_RzGate θ
theorem C16_RotationGate_src (v : Fin 3 → ℝ): RotationGate.hermitianFlag = true → (QibSrc.RotationGate.mat v)ᴴ = QibSrc.RotationGate.mat v := by
  rw [QibBridge.RotationGate_mat]; exact C16_RotationGate v
theorem C16_SGate_src : SGate.hermitianFlag = true → (QibSrc.SGate.mat)ᴴ = QibSrc.SGate.mat := by
  rw [QibBridge.SGate_mat]; exact C16_SGate
theorem C16_SAdjGate_src : SAdjGate.hermitianFlag = true → (QibSrc.SAdjGate.mat)ᴴ = QibSrc.SAdjGate.mat := by
  rw [QibBridge.SAdjGate_mat]; exact C16_SAdjGate
theorem C16_TGate_src : TGate.hermitianFlag = true → (QibSrc.TGate.mat)ᴴ = QibSrc.TGate.mat := by
  rw [QibBridge.TGate_mat]; exact C16_TGate
theorem C16_TAdjGate_src : TAdjGate.hermitianFlag = true → (QibSrc.TAdjGate.mat)ᴴ = QibSrc.TAdjGate.mat := by
  rw [QibBridge.TAdjGate_mat]; exact C16_TAdjGate
theorem C16_PhaseFactorGate_src (φ : ℝ) (n : ℕ): PhaseFactorGate.hermitianFlag = true → (QibSrc.PhaseFactorGate.mat φ n)ᴴ = QibSrc.PhaseFactorGate.mat φ n := by
  rw [QibBridge.PhaseFactorGate_mat]; exact C16_PhaseFactorGate φ n
theorem C16_RxxGate_src (θ : ℝ): RxxGate.hermitianFlag = true → (QibSrc.RxxGate.mat θ)ᴴ = QibSrc.RxxGate.mat θ := by
  rw [QibBridge.RxxGate_mat]; exact C16_RxxGate θ
theorem C16_RyyGate_src (θ : ℝ): RyyGate.hermitianFlag = true → (QibSrc.RyyGate.mat θ)ᴴ = QibSrc.RyyGate.mat θ := by
  rw [QibBridge.RyyGate_mat]; exact C16_RyyGate θ
theorem C16_RzzGate_src (θ : ℝ): RzzGate.hermitianFlag = true → (QibSrc.RzzGate.mat θ)ᴴ = QibSrc.RzzGate.mat θ := by
  rw [QibBridge.RzzGate_mat]; exact C16_RzzGate θ
theorem C16_ISwapGate_src : ISwapGate.hermitianFlag = true → (QibSrc.ISwapGate.mat)ᴴ = QibSrc.ISwapGate.mat := by
  rw [QibBridge.ISwapGate_mat]; exact C16_ISwapGate

end Qib.C16
