import QibProofs.Lemmas.GateTree
/-!
C03 (deepening) — `inverse()` really inverts, proved about the definitions `drv_gate` executes.

`Properties/C03.lean` proves `V * U = 1` over Mathlib matrices for an inductive predicate `InvPair U V`. Here the
statement is about `Qib.Gate.Tree.inverse` and `Tree.mat` of `QibModel/Gate.lean` themselves: for EVERY tree (any
nesting depth, any number of controls, any pattern) with a well-formed numerical payload (`Tree.WF`,
`Lemmas/GateTree.lean`), the array computed for the inverse tree times the array computed for the tree is the
identity array – as `Qib.Mat` values, i.e. exactly what `gate.all` returns as `inv` and `mat`. Proofs: structural
induction over `Tree` in `Lemmas/GateTree.lean`. Property statements only.
-/
open Matrix Qib Qib.Mat Qib.Gate

namespace Qib.C03Tree

/-- **C03 (inverse, executed model)**: the driver's product of `t.inverse.mat` and `t.mat` is the driver's identity
matrix of size `2 ^ wires`, in both orders. -/
theorem C03_tree_inverse_mul (t : Tree) (h : t.WF) :
    t.inverse.mat.mul t.mat = Mat.one (2 ^ t.wires) ∧ t.mat.mul t.inverse.mat = Mat.one (2 ^ t.wires) :=
  ⟨t.inverse_mul_exec h, t.mul_inverse_exec h⟩

/-- the same over `ℂ`: the complex matrices denoted by the two arrays multiply to `1` -/
theorem C03_tree_inverse_mul_complex (t : Tree) (h : t.WF) :
    t.inverse.mat.toM (2 ^ t.wires) (2 ^ t.wires) * t.mat.toM (2 ^ t.wires) (2 ^ t.wires) = 1 ∧
    t.mat.toM (2 ^ t.wires) (2 ^ t.wires) * t.inverse.mat.toM (2 ^ t.wires) (2 ^ t.wires) = 1 :=
  ⟨t.inverse_mul h, mul_eq_one_comm.mp (t.inverse_mul h)⟩

/-- entry by entry -/
theorem C03_tree_inverse_mul_entries (t : Tree) (h : t.WF) (i j : ℕ) (hi : i < 2 ^ t.wires) (hj : j < 2 ^ t.wires) :
    ∑ k ∈ Finset.range (2 ^ t.wires), t.inverse.mat.get i k * t.mat.get k j = if i = j then 1 else 0 := by
  have h1 := t.inverse_mat_isSq h
  have := congrArg (fun M => Mat.get M i j) (t.inverse_mul_exec h)
  rw [Mat.get_mul _ _ (by rw [h1.n_eq]; exact hi) (by rw [(t.mat_isSq h).m_eq]; exact hj), h1.m_eq, Mat.get_one hi hj] at this
  exact this

/-- **C03 (wires)**: the inverse acts on the same number of wires (no hypothesis needed). -/
theorem C03_tree_inverse_wires (t : Tree) : t.inverse.wires = t.wires := t.inverse_wires

/-- the inverse of a well-formed tree is well-formed (so every theorem applies to it again, e.g. C01, C16) -/
theorem C03_tree_inverse_wf (t : Tree) (h : t.WF) : t.inverse.WF := t.inverse_wf h

/-- the array of the inverse tree IS the driver's adjoint of the tree's array -/
theorem C03_tree_inverse_eq_adjoint (t : Tree) (h : t.WF) : t.inverse.mat = t.mat.adjoint := t.inverse_mat_eq_adjoint h

/-- inverting twice returns the same array (the harness compares this as `invinv`) -/
theorem C03_tree_inverse_inverse (t : Tree) (h : t.WF) : t.inverse.inverse.mat = t.mat := t.inverse_inverse_mat h

/-! ### non-vacuity: concrete nested trees satisfy the hypothesis -/

/-- `ControlledGate(MultiplexedGate([X, S], 1), 2, ctrl_state=[1, 0])` and its inverse, 16 × 16 -/
example : Example.tree1.inverse.mat.mul Example.tree1.mat = Mat.one 16 := by
  have := (C03_tree_inverse_mul _ Example.tree1_wf).1; rwa [Example.tree1_wires] at this
/-- the inverse really is a different tree (the `S` leaf is replaced by its partner) -/
example : Example.tree1.inverse =
    .controlled [true, false] (.multiplexed 1 [.leaf "PauliXGate^-1" 1 Example.X Example.X true, .leaf "SGate^-1" 1 Example.Sdg Example.S false]) := by
  simp [Example.tree1, Example.leafX, Example.leafS]
/-- prepare (transposed) / block encoding `R`; general / time evolution -/
example : Example.tree2.inverse.mat.mul Example.tree2.mat = Mat.one (2 ^ Example.tree2.wires) :=
  (C03_tree_inverse_mul _ Example.tree2_wf).1
example : Example.tree3.inverse.mat.mul Example.tree3.mat = Mat.one (2 ^ Example.tree3.wires) :=
  (C03_tree_inverse_mul _ Example.tree3_wf).1

end Qib.C03Tree
