import QibProofs.Lemmas.TNetSum
import Mathlib.Algebra.BigOperators.Ring.Finset
import Mathlib.Algebra.BigOperators.Group.Finset.Sigma
import Mathlib.Data.Fintype.Pi
/-!
C07 — Network contraction is independent of strategy and equals the defining sum.
Property theorems only (helper lemmas: `QibProofs/Lemmas/TNetSum.lean`).

Part 1 is the abstract heart over arbitrary finite index types (Mathlib `Finset`).
-/
namespace Qib.C07

/-! ### Part 1 — labelled tensors over finite index types: any bracketing gives the defining sum -/
section Abstract
set_option linter.unusedSectionVars false
variable {L : Type} [DecidableEq L] [Fintype L] {I : L → Type} [∀ l, Fintype (I l)] [∀ l, DecidableEq (I l)]
variable {α : Type} [CommSemiring α]

/-- `sumOut S f σ = Σ_{τ agreeing with σ outside S} f τ`: the labels in `S` are summed, the others stay pinned -/
def sumOut (S : Finset L) (f : (∀ l, I l) → α) (σ : ∀ l, I l) : α :=
  ∑ τ ∈ Finset.univ.filter (fun τ : ∀ l, I l => ∀ l, l ∉ S → τ l = σ l), f τ

/-- `f` reads its argument only at the labels in `U` -/
def DependsOn (f : (∀ l, I l) → α) (U : Finset L) : Prop := ∀ σ τ : ∀ l, I l, (∀ l ∈ U, σ l = τ l) → f σ = f τ

theorem sumOut_congr (S : Finset L) {f g : (∀ l, I l) → α} (h : ∀ τ, f τ = g τ) (σ : ∀ l, I l) :
    sumOut S f σ = sumOut S g σ := by
  unfold sumOut; exact Finset.sum_congr rfl (fun τ _ => h τ)

theorem sumOut_empty (f : (∀ l, I l) → α) (σ : ∀ l, I l) : sumOut ∅ f σ = f σ := by
  unfold sumOut
  have : Finset.univ.filter (fun τ : ∀ l, I l => ∀ l, l ∉ (∅ : Finset L) → τ l = σ l) = {σ} := by
    ext τ
    simp only [Finset.notMem_empty, not_false_eq_true, forall_const, Finset.mem_filter, Finset.mem_univ, true_and,
      Finset.mem_singleton]
    exact ⟨fun h => funext h, fun h l => by rw [h]⟩
  rw [this, Finset.sum_singleton]

theorem sumOut_sumOut (S T : Finset L) (hd : Disjoint S T) (f : (∀ l, I l) → α) (σ : ∀ l, I l) :
    sumOut S (sumOut T f) σ = sumOut (S ∪ T) f σ := by
  unfold sumOut
  rw [Finset.sum_comm' (t' := Finset.univ.filter (fun υ : ∀ l, I l => ∀ l, l ∉ S ∪ T → υ l = σ l))
      (s' := fun υ => {fun l => if l ∈ T then σ l else υ l})]
  · apply Finset.sum_congr rfl
    intro υ _
    rw [Finset.sum_singleton]
  · intro τ υ
    simp only [Finset.mem_filter, Finset.mem_univ, true_and, Finset.mem_singleton, Finset.mem_union, not_or]
    constructor
    · rintro ⟨h1, h2⟩
      refine ⟨?_, ?_⟩
      · funext l
        by_cases hl : l ∈ T
        · simp only [hl, if_true]
          exact h1 l (fun hs => (Finset.disjoint_left.mp hd hs) hl)
        · simp only [hl, if_false]; exact (h2 l hl).symm
      · rintro l ⟨hs, ht⟩
        rw [h2 l ht, h1 l hs]
    · rintro ⟨rfl, h2⟩
      refine ⟨?_, ?_⟩
      · intro l hs
        by_cases hl : l ∈ T
        · simp [hl]
        · simp only [hl, if_false]; exact h2 l ⟨hs, hl⟩
      · intro l hl
        simp [hl]

theorem sumOut_mul_right (S U : Finset L) (hd : Disjoint U S) (f g : (∀ l, I l) → α) (hg : DependsOn g U)
    (σ : ∀ l, I l) : sumOut S (fun τ => f τ * g τ) σ = sumOut S f σ * g σ := by
  unfold sumOut
  rw [Finset.sum_mul]
  apply Finset.sum_congr rfl
  intro τ hτ
  simp only [Finset.mem_filter, Finset.mem_univ, true_and] at hτ
  show f τ * g τ = f τ * g σ
  rw [hg τ σ (fun l hl => hτ l (fun hs => (Finset.disjoint_left.mp hd hl) hs))]

theorem sumOut_mul_left (S U : Finset L) (hd : Disjoint U S) (f g : (∀ l, I l) → α) (hg : DependsOn g U)
    (σ : ∀ l, I l) : sumOut S (fun τ => g τ * f τ) σ = g σ * sumOut S f σ := by
  rw [mul_comm, ← sumOut_mul_right S U hd f g hg]
  unfold sumOut
  exact Finset.sum_congr rfl (fun τ _ => mul_comm _ _)

/-- a partial sum only depends on the labels that were not summed -/
theorem sumOut_dependsOn (T U : Finset L) (f : (∀ l, I l) → α) (hf : DependsOn f U) :
    DependsOn (sumOut T f) (U \ T) := by
  intro σ τ hst
  unfold sumOut
  refine Finset.sum_bij' (fun υ _ => fun l => if l ∈ T then υ l else τ l)
    (fun υ _ => fun l => if l ∈ T then υ l else σ l) ?_ ?_ ?_ ?_ ?_
  · intro υ _
    simp only [Finset.mem_filter, Finset.mem_univ, true_and]
    intro l hl; simp [hl]
  · intro υ _
    simp only [Finset.mem_filter, Finset.mem_univ, true_and]
    intro l hl; simp [hl]
  · intro υ hυ
    simp only [Finset.mem_filter, Finset.mem_univ, true_and] at hυ
    funext l
    by_cases hl : l ∈ T
    · simp [hl]
    · simp only [hl, if_false]; exact (hυ l hl).symm
  · intro υ hυ
    simp only [Finset.mem_filter, Finset.mem_univ, true_and] at hυ
    funext l
    by_cases hl : l ∈ T
    · simp [hl]
    · simp only [hl, if_false]; exact (hυ l hl).symm
  · intro υ hυ
    simp only [Finset.mem_filter, Finset.mem_univ, true_and] at hυ
    apply hf
    intro l hlU
    by_cases hl : l ∈ T
    · simp [hl]
    · simp only [hl, if_false]
      rw [hυ l hl]
      exact hst l (Finset.mem_sdiff.mpr ⟨hlU, hl⟩)

/-- a contraction tree: leaves are tensors (a function of the label assignment, reading only its own labels),
an inner node multiplies its two children and sums the labels in `elim` -/
inductive CTree (L : Type) (I : L → Type) (α : Type) where
  | leaf (labels : Finset L) (f : (∀ l, I l) → α)
  | node (elim : Finset L) (l r : CTree L I α)

/-- labels carried by the tensors of the subtree -/
def CTree.supp : CTree L I α → Finset L
  | .leaf S _ => S
  | .node _ l r => l.supp ∪ r.supp

/-- all labels summed somewhere in the subtree -/
def CTree.elims : CTree L I α → Finset L
  | .leaf _ _ => ∅
  | .node e l r => e ∪ (l.elims ∪ r.elims)

/-- the tensors at the leaves, left to right -/
def CTree.leaves : CTree L I α → List ((∀ l, I l) → α)
  | .leaf _ f => [f]
  | .node _ l r => l.leaves ++ r.leaves

/-- product of all leaf tensors (the summand of the defining sum) -/
def CTree.prod : CTree L I α → (∀ l, I l) → α
  | .leaf _ f => f
  | .node _ l r => fun σ => l.prod σ * r.prod σ

/-- pairwise contraction along the tree -/
def CTree.eval : CTree L I α → (∀ l, I l) → α
  | .leaf _ f => f
  | .node e l r => sumOut e (fun σ => l.eval σ * r.eval σ)

/-- the schedule is admissible: a label is summed at a node only if it is carried inside the subtree and by
no tensor outside it, is not an output label and is not summed again further up (`X` = the labels that are
"outside": output labels, labels of tensors outside the subtree, labels summed further up) -/
def CTree.WF : Finset L → CTree L I α → Prop
  | _, .leaf S f => DependsOn f S
  | X, .node e l r => Disjoint e X ∧ e ⊆ l.supp ∪ r.supp ∧
      CTree.WF (X ∪ e ∪ r.supp) l ∧ CTree.WF (X ∪ e ∪ l.supp) r

theorem CTree.elims_disjoint (X : Finset L) (t : CTree L I α) (h : t.WF X) : Disjoint t.elims X := by
  induction t generalizing X with
  | leaf S f => simp [CTree.elims]
  | node e l r ihl ihr =>
    obtain ⟨h1, _, h3, h4⟩ := h
    simp only [CTree.elims, Finset.disjoint_union_left]
    refine ⟨h1, ?_, ?_⟩
    · exact (ihl _ h3).mono_right (by intro x hx; simp [hx])
    · exact (ihr _ h4).mono_right (by intro x hx; simp [hx])

theorem CTree.elims_subset_supp (X : Finset L) (t : CTree L I α) (h : t.WF X) : t.elims ⊆ t.supp := by
  induction t generalizing X with
  | leaf S f => simp [CTree.elims]
  | node e l r ihl ihr =>
    obtain ⟨_, h2, h3, h4⟩ := h
    simp only [CTree.elims, CTree.supp]
    intro x hx
    simp only [Finset.mem_union] at hx ⊢
    rcases hx with hx | hx | hx
    · simpa using h2 hx
    · exact Or.inl (ihl _ h3 hx)
    · exact Or.inr (ihr _ h4 hx)

theorem CTree.prod_dependsOn (X : Finset L) (t : CTree L I α) (h : t.WF X) : DependsOn t.prod t.supp := by
  induction t generalizing X with
  | leaf S f => exact h
  | node e l r ihl ihr =>
    obtain ⟨_, _, h3, h4⟩ := h
    intro σ τ hst
    simp only [CTree.prod]
    rw [ihl _ h3 σ τ (fun x hx => hst x (by simp [CTree.supp, hx])),
        ihr _ h4 σ τ (fun x hx => hst x (by simp [CTree.supp, hx]))]

/-- **Contraction along ANY binary tree equals the defining sum.** For labelled tensors over finite index
types, contracting pairwise along an arbitrary binary tree – summing a label at a node as soon as no tensor
outside the subtree carries it and it is not an output label – gives, for every pinning `σ` of the remaining
labels, the sum over all assignments of the summed labels of the product of all tensors. -/
theorem C07_contract_any_bracketing (X : Finset L) (t : CTree L I α) (h : t.WF X) (σ : ∀ l, I l) :
    t.eval σ = sumOut t.elims t.prod σ := by
  induction t generalizing X σ with
  | leaf S f => simp only [CTree.eval, CTree.elims, CTree.prod, sumOut_empty]
  | node e l r ihl ihr =>
    obtain ⟨h1, h2, h3, h4⟩ := h
    have dl := CTree.elims_disjoint _ l h3
    have dr := CTree.elims_disjoint _ r h4
    have sl := CTree.elims_subset_supp _ l h3
    have sr := CTree.elims_subset_supp _ r h4
    have dEL_r : Disjoint l.elims r.supp := dl.mono_right (by intro x hx; simp [hx])
    have dER_l : Disjoint r.elims l.supp := dr.mono_right (by intro x hx; simp [hx])
    have dELER : Disjoint l.elims r.elims := dEL_r.mono_right sr
    have de : Disjoint e (l.elims ∪ r.elims) := by
      rw [Finset.disjoint_union_right]
      exact ⟨(dl.mono_right (by intro x hx; simp [hx])).symm, (dr.mono_right (by intro x hx; simp [hx])).symm⟩
    simp only [CTree.eval, CTree.elims, CTree.prod]
    rw [← sumOut_sumOut e _ de]
    apply sumOut_congr
    intro τ
    rw [← sumOut_sumOut _ _ dELER, ihl _ h3 τ, ihr _ h4 τ]
    -- (Σ_EL P_L)(τ) * (Σ_ER P_R)(τ) = Σ_EL (P_L * Σ_ER P_R)(τ) = Σ_EL Σ_ER (P_L * P_R)(τ)
    have hR : DependsOn (sumOut r.elims r.prod) (r.supp \ r.elims) :=
      sumOut_dependsOn _ _ _ (CTree.prod_dependsOn _ r h4)
    rw [← sumOut_mul_right l.elims (r.supp \ r.elims)
        (dEL_r.symm.mono_left Finset.sdiff_subset) l.prod _ hR τ]
    apply sumOut_congr
    intro υ
    exact (sumOut_mul_left r.elims l.supp dER_l.symm r.prod l.prod (CTree.prod_dependsOn _ l h3) υ).symm

omit [DecidableEq L] [Fintype L] [∀ l, Fintype (I l)] [∀ l, DecidableEq (I l)] in
/-- the summand is the product of all leaf tensors -/
theorem C07_prod_eq_leaves (t : CTree L I α) (σ : ∀ l, I l) : t.prod σ = (t.leaves.map (fun f => f σ)).prod := by
  induction t with
  | leaf S f => simp [CTree.prod, CTree.leaves]
  | node e l r ihl ihr => simp [CTree.prod, CTree.leaves, ihl, ihr]

/-- corollary in the form "equals the global defining sum": if the tree sums every label that is not an
output label, the result is `Σ_{τ | τ = σ on out} Π_tensors T(τ)` whatever the bracketing -/
theorem C07_contract_any_bracketing_global (out : Finset L) (t : CTree L I α) (h : t.WF out)
    (hall : t.elims = Finset.univ \ out) (σ : ∀ l, I l) :
    t.eval σ = ∑ τ ∈ Finset.univ.filter (fun τ : ∀ l, I l => ∀ l ∈ out, τ l = σ l),
      (t.leaves.map (fun f => f τ)).prod := by
  rw [C07_contract_any_bracketing out t h σ, hall]
  unfold sumOut
  apply Finset.sum_congr
  · ext τ; simp
  · intro τ _; exact C07_prod_eq_leaves t τ

/-- two admissible bracketings of the same tensors that sum the same labels agree -/
theorem C07_bracketing_independent (X : Finset L) (t t' : CTree L I α) (h : t.WF X) (h' : t'.WF X)
    (he : t.elims = t'.elims) (hp : ∀ σ, t.prod σ = t'.prod σ) (σ : ∀ l, I l) : t.eval σ = t'.eval σ := by
  rw [C07_contract_any_bracketing X t h, C07_contract_any_bracketing X t' h', he]
  unfold sumOut
  exact Finset.sum_congr rfl (fun τ _ => hp τ)

end Abstract

end Qib.C07
