import QibProofs.Lemmas.CircuitMat
import QibProofs.Lemmas.Simulator
/-!
C05 — All views of a circuit agree. **Matrix part**: the circuit matrix is the product of the embedded gate
matrices in application order, append/prepend compose accordingly, gates are captured by value, first column has
unit norm. (The tensor-network and simulator views are added on top of these files.)

Property theorems only. Model: `QibModel/Embed.lean` — `circuitMatOf` is the loop of `Circuit.as_matrix`
(`mat = first; mat = gate @ mat`), `circuitMatrix` the same loop with `as_circuit_matrix` of every gate and its
rejections, `Op`/`step`/`run` the builder API (`append_gate`, `prepend_gate`, `append_circuit`, `prepend_circuit`)
interleaved with mutations of the caller's gate objects.
-/
open Matrix
namespace Qib.Embed

/-! ### Composition laws of the left-multiplication loop (any monoid: array matrices, Mathlib matrices) -/

section fold
variable {M : Type} [Monoid M]

/-- first gate applied first: the loop returns `gₖ * … * g₂ * g₁` (the first gate is the rightmost factor),
and it returns nothing exactly for the empty list -/
theorem C05_circuitMat_eq_prod (gs : List M) (P : M) :
    circuitMatOf (· * ·) gs = some P ↔ gs ≠ [] ∧ P = gs.reverse.prod :=
  circuitMatOf_eq_some_iff gs P

/-- `append_gate`: the new gate multiplies from the left (it is applied last) -/
theorem C05_circuitMat_append (gs : List M) (g P : M) (h : circuitMatOf (· * ·) gs = some P) :
    circuitMatOf (· * ·) (gs ++ [g]) = some (g * P) := by
  obtain ⟨_, rfl⟩ := (circuitMatOf_eq_some_iff gs P).mp h
  rw [circuitMatOf_eq_some_iff]
  exact ⟨by simp, by simp⟩

/-- `prepend_gate`: the new gate multiplies from the right (it is applied first) -/
theorem C05_circuitMat_prepend (gs : List M) (g P : M) (h : circuitMatOf (· * ·) gs = some P) :
    circuitMatOf (· * ·) (g :: gs) = some (P * g) := by
  obtain ⟨_, rfl⟩ := (circuitMatOf_eq_some_iff gs P).mp h
  rw [circuitMatOf_eq_some_iff]
  exact ⟨by simp, by simp⟩

/-- `append_circuit`: `matrix(c₁ then c₂) = matrix(c₂) * matrix(c₁)` -/
theorem C05_circuitMat_appendCircuit (c₁ c₂ : List M) (P₁ P₂ : M)
    (h₁ : circuitMatOf (· * ·) c₁ = some P₁) (h₂ : circuitMatOf (· * ·) c₂ = some P₂) :
    circuitMatOf (· * ·) (c₁ ++ c₂) = some (P₂ * P₁) := by
  obtain ⟨hne, rfl⟩ := (circuitMatOf_eq_some_iff c₁ P₁).mp h₁
  obtain ⟨_, rfl⟩ := (circuitMatOf_eq_some_iff c₂ P₂).mp h₂
  rw [circuitMatOf_eq_some_iff]
  exact ⟨by simp [hne], by simp⟩

/-- `prepend_circuit`: `matrix(c₂ then c₁) = matrix(c₁) * matrix(c₂)` -/
theorem C05_circuitMat_prependCircuit (c₁ c₂ : List M) (P₁ P₂ : M)
    (h₁ : circuitMatOf (· * ·) c₁ = some P₁) (h₂ : circuitMatOf (· * ·) c₂ = some P₂) :
    circuitMatOf (· * ·) (c₂ ++ c₁) = some (P₁ * P₂) :=
  C05_circuitMat_appendCircuit c₂ c₁ P₂ P₁ h₂ h₁

/-- appending or prepending an empty circuit changes nothing -/
theorem C05_circuitMat_emptyCircuit (c : List M) :
    circuitMatOf (· * ·) (c ++ []) = circuitMatOf (· * ·) c ∧ circuitMatOf (· * ·) ([] ++ c) = circuitMatOf (· * ·) c := by
  simp

end fold

/-! ### `Circuit.as_matrix(fields)`: product of the embedded gate matrices -/

section concrete
variable {α : Type} [CommRing α] [DecidableEq α]

/-- the matrix `gate.as_circuit_matrix(fields)` contributes: `g` on the wires of its particles, identity elsewhere -/
theorem C05_placedMat_spec (fields : List FieldSpec) (ps : List ParticleSpec) (d : Nat) (g : Nat → Nat → α)
    (Mg : DMat α (2 ^ numWires fields)) (h : placedMat fields ps d g = .ok Mg) :
    GateOK fields ps d ∧
      ∀ i j, Mg.toMatrix i j = embedEntry (numWires fields) (wiresOfParticles fields ps) g i.1 j.1 := by
  unfold placedMat at h
  cases hg : gateCircuitMatrix fields ps d g with
  | error e => rw [hg] at h; cases h
  | ok r =>
    obtain ⟨n', out⟩ := r
    rw [hg] at h
    simp only [Except.ok.injEq] at h
    subst h
    obtain ⟨_, hok, _, hden⟩ := gateCircuitMatrix_spec fields ps d g n' out hg
    exact ⟨hok, fun i j => by rw [DMat.toMatrix_tab]; exact hden _ _ i.2 j.2⟩

/-- **the circuit matrix is the product of its embedded gate matrices, first gate applied first**: whenever
`Circuit.as_matrix(fields)` returns `P`, every gate embedded successfully (matrices `Ms`, in list order, control
instructions skipped), there is at least one gate, and `P = Mₖ * … * M₁` as Mathlib matrices -/
theorem C05_circuitMatrix_eq_prod (fields : List FieldSpec) (instrs : List (Instr α))
    (P : DMat α (2 ^ numWires fields)) (h : circuitMatrix fields instrs = .ok P) :
    ∃ Ms, gateMats fields instrs = .ok Ms ∧ Ms ≠ [] ∧
      P.toMatrix = ((Ms.map DMat.toMatrix).reverse).prod := by
  obtain ⟨Ms, hMs, hfold⟩ := (circuitMatrix_eq_ok_iff fields instrs P).mp h
  refine ⟨Ms, hMs, ?_, ?_⟩
  · rintro rfl; simp [circuitMatOf] at hfold
  · have hmap := circuitMatOf_map (DMat.mul (α := α) (N := 2 ^ numWires fields)) (· * ·) DMat.toMatrix
      (fun x y => DMat.toMatrix_mul x y) Ms
    rw [hfold, Option.map_some] at hmap
    exact ((circuitMatOf_eq_some_iff _ _).mp hmap.symm).2

/-- rejections of `Circuit.as_matrix`: empty gate list ↦ `RuntimeError`; control instructions only ↦ the loop
variable stays unbound (`UnboundLocalError`) -/
theorem C05_circuitMatrix_rejects (fields : List FieldSpec) :
    circuitMatrix fields ([] : List (Instr α)) = .error .runtimeError ∧
    circuitMatrix fields ([.ctrl, .ctrl] : List (Instr α)) = .error .other := by
  constructor <;> rfl

end concrete

/-! ### Value capture: later mutations of the caller's gate objects never reach the circuit -/

section hist
variable {G : Type}

/-- a mutation of a caller's object changes no gate of the circuit (`append_gate` & co. stored copies) -/
theorem C05_run_ignores_mutation (objs : List G) (ops : List (Op G)) (h : Nat) (v : G) :
    (run objs (ops ++ [.mutate h v])).circ = (run objs ops).circ := by
  simp [run, List.foldl_append, step]

/-- general form: whatever follows (builder calls, mutations of any object, in any order), the gates already in
the circuit stay in it unchanged as one contiguous block, and what is added around them does not depend on them -/
theorem C05_run_frame (ops : List (Op G)) (s : BState G) :
    ∃ pre post, (ops.foldl step s).circ = pre ++ s.circ ++ post ∧
      ∀ c', (ops.foldl step { s with circ := c' }).circ = pre ++ c' ++ post :=
  foldl_step_frame ops s

/-- a builder call stores the value the object has *at the time of the call* -/
theorem C05_append_captures_current_value (s : BState G) (h : Nat) (v w : G) (hh : h < s.objs.length) :
    (step (step (step s (.mutate h v)) (.append h)) (.mutate h w)).circ = s.circ ++ [v] := by
  simp [step, lookup, hh]

end hist

/-! ### Unit norm of the first column -/

section norm
variable {α : Type*} [CommRing α] [StarRing α] {n : ℕ}

/-- if every gate of the circuit is unitary, every column of the circuit matrix — in particular column `|0…0⟩`,
what the simulators return — has unit norm: `Σ_R conj(U R 0) · U R 0 = 1` -/
theorem C05_col0_norm (gs : List (Placed α n)) (hu : ∀ p ∈ gs, p.g * p.gᴴ = 1 ∧ p.gᴴ * p.g = 1)
    (C : Fin n → Bool) :
    ∑ R, star (((gs.map Placed.mat).reverse.prod) R C) * ((gs.map Placed.mat).reverse.prod) R C = 1 := by
  have h := prod_isometry (gs.map Placed.mat) (by
    intro U hU
    obtain ⟨p, hp, rfl⟩ := List.mem_map.mp hU
    exact (embed_unitary p.iw p.g (hu p hp)).2)
  have := congrFun (congrFun h C) C
  simpa [Matrix.mul_apply, Matrix.conjTranspose_apply] using this

end norm

/-! ### The statevector simulator returns the first column of the circuit matrix -/

section sim
variable {α : Type} [CommRing α] [DecidableEq α]

/-- **`StatevectorSimulator.run` = column `|0…0⟩` of `Circuit.as_matrix`**: whenever the model of the simulator loop returns a
state `psi` for a non-empty gate list (any length, any gates, any wire assignment), the circuit contains no control instruction,
`Circuit.as_matrix(fields)` succeeds with some `P`, and `psi[i] = P[i, 0]` for every basis index `i`. -/
theorem C05_svRun_eq_col0 (fields : List FieldSpec) (instrs : List (Instr α)) (hne : instrs ≠ [])
    (psi : Vector α (2 ^ numWires fields)) (h : svRun fields instrs = .ok psi) :
    (∀ i ∈ instrs, i ≠ Instr.ctrl) ∧ ∃ P, circuitMatrix fields instrs = .ok P ∧
      ∀ i : Fin (2 ^ numWires fields), psi[i.1] = P.get i ⟨0, Nat.pos_of_ne_zero (by positivity)⟩ := by
  obtain ⟨hc, Ms, hMs, hlen, hv⟩ := svLoop_spec fields instrs _ psi h
  have hMne : Ms ≠ [] := by
    intro h0; rw [h0] at hlen; exact hne (List.length_eq_zero_iff.mp hlen.symm)
  obtain ⟨M, Ms', rfl⟩ := List.exists_cons_of_ne_nil hMne
  refine ⟨hc, (Ms'.foldl (fun acc h => DMat.mul h acc) M), ?_, ?_⟩
  · exact (circuitMatrix_eq_ok_iff fields instrs _).mpr ⟨M :: Ms', hMs, rfl⟩
  · intro i
    have hP := C05_circuitMatrix_eq_prod fields instrs _ ((circuitMatrix_eq_ok_iff fields instrs _).mpr ⟨M :: Ms', hMs, rfl⟩)
    obtain ⟨Ms2, hMs2, _, hprod⟩ := hP
    rw [hMs] at hMs2
    cases hMs2
    have := congrFun hv i
    simp only [vecOf] at this
    rw [this, ← hprod, vecOf_basis0]
    simp [Matrix.mulVec, dotProduct, DMat.toMatrix]

/-- conversely the simulator never fails on a gate-only circuit whose matrix exists -/
theorem C05_svRun_total (fields : List FieldSpec) (instrs : List (Instr α)) (hc : ∀ i ∈ instrs, i ≠ Instr.ctrl)
    (P : DMat α (2 ^ numWires fields)) (h : circuitMatrix fields instrs = .ok P) :
    ∃ psi, svRun fields instrs = .ok psi := by
  obtain ⟨Ms, hMs, _⟩ := (circuitMatrix_eq_ok_iff fields instrs P).mp h
  have aux : ∀ (is : List (Instr α)) (v : Vector α (2 ^ numWires fields)) (Ms : List (DMat α (2 ^ numWires fields))),
      (∀ i ∈ is, i ≠ Instr.ctrl) → gateMats fields is = .ok Ms → ∃ psi, svLoop fields v is = .ok psi := by
    intro is
    induction is with
    | nil => intro v _ _ _; exact ⟨v, rfl⟩
    | cons i is ih =>
      intro v Ms hc hMs
      cases i with
      | ctrl => exact absurd rfl (hc _ (by simp))
      | gate ps d g =>
        simp only [gateMats] at hMs
        cases hp : placedMat fields ps d g with
        | error e => rw [hp] at hMs; simp at hMs
        | ok M =>
          rw [hp] at hMs
          cases hg : gateMats fields is with
          | error e => rw [hg] at hMs; simp at hMs
          | ok Ms' =>
            simp only [svLoop, hp]
            exact ih (M.mulVec v) Ms' (fun j hj => hc j (by simp [hj])) hg
  exact aux instrs _ Ms hc hMs

end sim

/-! ### Non-vacuity -/

example : circuitMatOf (· * ·) ([2, 3, 5] : List ℕ) = some (5 * 3 * 2) := by decide

/-- on non-commuting matrices the order matters, and it is "first gate = rightmost factor" -/
example : circuitMatOf (· * ·) [!![1, 1; 0, 1], !![1, 0; 1, 1]] = some ((!![1, 0; 1, 1] * !![1, 1; 0, 1] : Matrix (Fin 2) (Fin 2) ℤ)) := by
  rfl

example : (run [(10 : ℕ), 20] [.append 0, .mutate 0 11, .prepend 0, .appendCircuit [1, 0], .mutate 1 21]).circ
    = [11, 10, 20, 11] := by decide

end Qib.Embed
