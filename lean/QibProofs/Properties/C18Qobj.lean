import QibProofs.Lemmas.QobjFull
import QibProofs.Properties.C18
/-!
C18, stage `qobj` — the COMPLETE Qobj and the request that carries it.

`qobjFull` (`QibModel/QobjFull.lean`) evaluates the dictionary display of `WMIExperiment.as_qasm`, which is a Lean term REGENERATED
from the source (`QibGen.Wmi.qobjSkeleton`, `qobjUpdates`), with `WMIOptions.optional()` read from the regenerated row table
(`QibGen.Wmi.optionalRows`) and `WMIOptions(**kw)` from `initParams / initAssign`; `request` interprets the regenerated description of
`_send_request` (`QibGen.Wmi.qsim / qc`). The theorems below are therefore re-checked against the current source on every run:
 (a) the `config` section = the required options (caller's value or default, falsy or not) + an optional option iff truthy;
 (b) shots / n_qubits / memory_slots / labels / instructions are those of the instruction-level Qobj `Wmi.qobj` (theorems of `C18.lean`);
 (c) the Qobj does not depend on the credentials, the token is in the header only, the body is exactly `{'qobj': Qobj}`;
 (d) injectivity up to falsy options, determinism up to `qobj_id`;
 (e) the key lists of all sections are fixed.
-/
namespace Qib.Wmi.Full
open QibGen.Wmi (Val QEnv RSrc Proc labels len)

/-! ### Specification: the layout of the Qobj -/

/-- the keys of the optional options -/
def optionalKeys : List String := QibGen.Wmi.optionalRows.map (·.2.1)

/-- the seven fixed entries of the top-level `config` section -/
def configFixed (x : Experiment) : Dict :=
  [("shots", attr x.options "shots"), ("memory", attr x.cfgAttrs "memory"), ("meas_level", attr x.cfgAttrs "meas_level"),
   ("init_qubits", attr x.options "init_qubits"), ("do_emulation", attr x.options "do_emulation"),
   ("memory_slots", .int (clbitsOf x.instrs).length), ("n_qubits", .int (particles x.instrs).length)]

def configFixedKeys : List String := ["shots", "memory", "meas_level", "init_qubits", "do_emulation", "memory_slots", "n_qubits"]

/-- the optional entries: the options whose value is truthy, in the order of `optional()` -/
def optionalEntries (o : Dict) : Dict := QibGen.Wmi.optionalRows.filterMap (rowEntry o)

/-- **what the Qobj of an experiment must be** (hand-written; `C18_qobj_shape` proves that the regenerated `as_qasm` produces it) -/
def qobjSpec (x : Experiment) : Val :=
  let nq : Val := .int (particles x.instrs).length
  let nc : Val := .int (clbitsOf x.instrs).length
  .dict [
    ("qobj_id", .str x.qobjId), ("type", .str x.typeValue), ("schema_version", .str "1.3.0"),
    ("experiments", .list [.dict [
      ("header", .dict [
        ("qubit_labels", .dict [("qubits", labels "q" (particles x.instrs))]), ("n_qubits", nq), ("qreg_sizes", .dict [("q", nq)]),
        ("clbit_labels", .dict [("clbits", labels "c" (clbitsOf x.instrs))]), ("memory_slots", nc), ("creg_sizes", .dict [("c", nc)]),
        ("name", .str x.name), ("global_phase", .float 0 1), ("metadata", .dict [])]),
      ("config", .dict [("n_qubits", nq), ("memory_slots", nc)]),
      ("instructions", .list ((x.instrs.map Instr.toQ).map instrVal))]]),
    ("header", .dict [("backend_name", attr x.cfgAttrs "backend_name"), ("backend_version", attr x.cfgAttrs "backend_version")]),
    ("config", .dict (configFixed x ++ optionalEntries x.options))]

/-! ### The regenerated tables are well-formed (discharged by evaluation on the current source) -/

/-- `optional()`: pairwise distinct keys; every row tests, names and copies the SAME attribute; every such attribute is stored by
`__init__` under the name of its parameter, whose default is `None`; no optional key collides with a fixed key of the config section -/
theorem C18_optional_rows_wf :
    optionalKeys.Nodup ∧ (∀ r ∈ QibGen.Wmi.optionalRows, r.1 = r.2.1 ∧ r.2.2 = r.2.1) ∧
    (∀ k ∈ optionalKeys, QibGen.Wmi.initAssign.lookup k = some k ∧ attr QibGen.Wmi.initParams k = .none) ∧
    (∀ k ∈ optionalKeys, k ∉ configFixedKeys) := by
  refine ⟨by decide, by decide, ?_, by decide⟩
  intro k hk
  simp only [optionalKeys, QibGen.Wmi.optionalRows, List.map_cons, List.map_nil, List.mem_cons, List.not_mem_nil, or_false] at hk
  rcases hk with h | h | h | h | h | h | h | h | h | h | h | h | h | h | h | h | h | h | h | h | h | h | h <;> subst h <;>
    exact ⟨by decide, rfl⟩

/-- the required options: stored under their own names, with the defaults 1024 / True / False -/
theorem C18_required_options_wf :
    QibGen.Wmi.initAssign.lookup "shots" = some "shots" ∧ attr QibGen.Wmi.initParams "shots" = .int 1024 ∧
    QibGen.Wmi.initAssign.lookup "init_qubits" = some "init_qubits" ∧ attr QibGen.Wmi.initParams "init_qubits" = .bool true ∧
    QibGen.Wmi.initAssign.lookup "do_emulation" = some "do_emulation" ∧ attr QibGen.Wmi.initParams "do_emulation" = .bool false :=
  ⟨by decide, rfl, by decide, rfl, by decide, rfl⟩

/-! ### The Qobj has the specified layout -/

/-- **`as_qasm()` = the specified Qobj**, for every experiment (any circuit, any option values, any configuration attributes) -/
theorem C18_qobj_shape (x : Experiment) : qobjFull x = qobjSpec x := by
  have hopt := optionalOf_eq_filterMap x.options QibGen.Wmi.optionalRows C18_optional_rows_wf.1
  have hsub := filterMap_rowEntry_keys_sublist x.options QibGen.Wmi.optionalRows
  have hnd : ((QibGen.Wmi.optionalRows.filterMap (rowEntry x.options)).map (·.1)).Nodup := hsub.nodup C18_optional_rows_wf.1
  simp only [qobjFull, qobjOf, QibGen.Wmi.qobjUpdates, List.foldl_cons, List.foldl_nil, QibGen.Wmi.qobjSkeleton, updateAt]
  simp only [List.map_cons, List.map_nil, String.reduceEq, ↓reduceIte]
  rw [hopt]
  simp only [updateAt]
  rw [dictUpdate_append _ _ hnd]
  · simp only [qobjSpec, configFixed, optionalEntries, Experiment.env, len]
  · intro k hk hmem
    have hk' : k ∈ optionalKeys := hsub.subset hk
    have := C18_optional_rows_wf.2.2.2 k hk'
    simp only [List.map_cons, List.map_nil] at hmem
    exact this hmem

/-! ### (a) The config section: required options, optional options iff truthy, nothing else -/

/-- the top-level `config` section: the seven fixed entries, then the truthy optional options in the order of `optional()` -/
theorem C18_config_section (x : Experiment) :
    getPath ["config"] (qobjFull x) = some (.dict (configFixed x ++ optionalEntries x.options)) := by
  rw [C18_qobj_shape]; simp [qobjSpec, getPath, child, List.lookup]

/-- the value the caller gave for option `k`, or the default of the parameter -/
def callerValue (kw : Dict) (k : String) : Val := (kw.lookup k).getD (attr QibGen.Wmi.initParams k)

/-- the attributes of `WMIOptions(**kw)`: every option is the caller's value or the default (1024 / True / False / None) -/
theorem C18_options_attributes (kw o : Dict) (h : mkOptions kw = .ok o) :
    attr o "shots" = (kw.lookup "shots").getD (.int 1024) ∧
    attr o "init_qubits" = (kw.lookup "init_qubits").getD (.bool true) ∧
    attr o "do_emulation" = (kw.lookup "do_emulation").getD (.bool false) ∧
    ∀ k ∈ optionalKeys, attr o k = (kw.lookup k).getD .none := by
  have w := C18_required_options_wf
  refine ⟨?_, ?_, ?_, ?_⟩
  · rw [attr_mkOptionsOf _ _ kw o h "shots" w.1, w.2.1]
  · rw [attr_mkOptionsOf _ _ kw o h "init_qubits" w.2.2.1, w.2.2.2.1]
  · rw [attr_mkOptionsOf _ _ kw o h "do_emulation" w.2.2.2.2.1, w.2.2.2.2.2]
  · intro k hk
    have wk := C18_optional_rows_wf.2.2.1 k hk
    rw [attr_mkOptionsOf _ _ kw o h k wk.1, wk.2]

/-- `WMIOptions(**kw)` is refused exactly when a keyword is not a parameter; nothing else is checked -/
theorem C18_options_accepts_iff (kw : Dict) :
    (∃ o, mkOptions kw = .ok o) ↔ ∀ p ∈ kw, p.1 ∈ QibGen.Wmi.initParams.map (·.1) := by
  constructor
  · rintro ⟨o, h⟩; exact (mkOptionsOf_ok _ _ kw o h).2
  · intro h
    unfold mkOptions mkOptionsOf
    have : kw.find? (fun p => !(QibGen.Wmi.initParams.map (·.1)).contains p.1) = none := by
      apply List.find?_eq_none.mpr
      intro p hp; simpa using h p hp
    rw [this]; exact ⟨_, rfl⟩

/-- lookup of ANY key in the config section: a fixed key gives the fixed entry, an optional key gives the option's value iff it is
truthy, every other key is absent -/
theorem C18_config_lookup (x : Experiment) (k : String) :
    (configFixed x ++ optionalEntries x.options).lookup k =
      if k ∈ configFixedKeys then (configFixed x).lookup k
      else if k ∈ optionalKeys ∧ (attr x.options k).truthy = true then some (attr x.options k) else none := by
  have hl := lookup_filterMap_rowEntry x.options QibGen.Wmi.optionalRows C18_optional_rows_wf.2.1 k
  rw [List.lookup_append]
  by_cases hk : k ∈ configFixedKeys
  · simp only [hk, if_true]
    simp only [configFixedKeys, List.mem_cons, List.not_mem_nil, or_false] at hk
    rcases hk with h | h | h | h | h | h | h <;> subst h <;> simp [configFixed, List.lookup]
  · simp only [hk, if_false]
    have hnone : (configFixed x).lookup k = none := by
      simp only [configFixedKeys, List.mem_cons, List.not_mem_nil, or_false, not_or] at hk
      obtain ⟨h1, h2, h3, h4, h5, h6, h7⟩ := hk
      have hb : ∀ s : String, ¬ k = s → (k == s) = false := fun s hs => by simp [hs]
      simp [configFixed, List.lookup, hb _ h1, hb _ h2, hb _ h3, hb _ h4, hb _ h5, hb _ h6, hb _ h7]
    rw [hnone]
    simp only [optionalEntries, optionalKeys, Option.none_or]
    rw [hl]
    congr

/-- **(a), required options**: the config section carries `shots`, `init_qubits`, `do_emulation` with the caller's value — whatever it
is, falsy or not — or the default when the caller gave none -/
theorem C18_config_required_options (x : Experiment) (kw : Dict) (h : mkOptions kw = .ok x.options) :
    getPath ["config", "shots"] (qobjFull x) = some ((kw.lookup "shots").getD (.int 1024)) ∧
    getPath ["config", "init_qubits"] (qobjFull x) = some ((kw.lookup "init_qubits").getD (.bool true)) ∧
    getPath ["config", "do_emulation"] (qobjFull x) = some ((kw.lookup "do_emulation").getD (.bool false)) := by
  have ha := C18_options_attributes kw x.options h
  have hc := C18_config_section x
  rw [getPath_two _ _ _ _ hc, getPath_two _ _ _ _ hc, getPath_two _ _ _ _ hc]
  simp only [child, C18_config_lookup]
  refine ⟨?_, ?_, ?_⟩ <;> simp [configFixedKeys, configFixed, List.lookup, ha.1, ha.2.1, ha.2.2.1]

/-- **(a), optional options**: an optional option is in the config section iff the caller's value is truthy, and then with exactly
that value; an option the caller did not give, or gave as `None`, `False`, `0`, `0.0`, `''`, `[]`, `{}`, is absent -/
theorem C18_config_optional_iff_truthy (x : Experiment) (kw : Dict) (h : mkOptions kw = .ok x.options) (k : String) (hk : k ∈ optionalKeys) :
    getPath ["config", k] (qobjFull x) =
      if ((kw.lookup k).getD .none).truthy = true then some ((kw.lookup k).getD .none) else none := by
  have ha := (C18_options_attributes kw x.options h).2.2.2 k hk
  have hc := C18_config_section x
  have hnf : k ∉ configFixedKeys := C18_optional_rows_wf.2.2.2 k hk
  rw [getPath_two _ _ _ _ hc]
  simp only [child, C18_config_lookup, hnf, if_false, hk, true_and, ha]

/-- **(a), nothing invented**: the keys of the config section are the seven fixed keys followed by the optional keys whose value is
truthy (in the order of `optional()`); in particular every key is a fixed key or the name of an optional option -/
theorem C18_config_keys (x : Experiment) :
    (getPath ["config"] (qobjFull x)).map keysOf =
      some (configFixedKeys ++ optionalKeys.filter (fun k => (attr x.options k).truthy)) := by
  rw [C18_config_section]
  simp only [Option.map_some, keysOf, List.map_append, optionalEntries, Option.some.injEq]
  congr 1
  have hwf := C18_optional_rows_wf.2.1
  unfold optionalKeys
  generalize QibGen.Wmi.optionalRows = rows at hwf
  induction rows with
  | nil => rfl
  | cons r rs ih =>
    have hr := hwf r (by simp)
    have ih' := ih (fun r' h' => hwf r' (by simp [h']))
    simp only [List.filterMap_cons, List.map_cons, List.filter_cons]
    by_cases ht : (attr x.options r.1).truthy = true
    · have h2 : rowEntry x.options r = some (r.2.1, attr x.options r.2.2) := by simp [rowEntry, ht]
      have ht' : (attr x.options r.2.1).truthy = true := hr.1 ▸ ht
      simp only [h2, List.map_cons, ht', if_true, ih']
    · have h2 : rowEntry x.options r = none := by simp [rowEntry, ht]
      have ht' : ¬ (attr x.options r.2.1).truthy = true := hr.1 ▸ ht
      simp only [h2, ht', ih']
      simp

/-! ### (b) Counts, labels, instructions and shots are those of the instruction-level Qobj -/

/-- every place of the full Qobj that speaks about the circuit carries the corresponding field of `Wmi.qobj` (`QibModel/Validate.lean`),
about which `C18.lean` proves: instructions in order, counts consistent, labels exact -/
theorem C18_full_agrees_with_instruction_level (x : Experiment) (shots : Int) :
    let q := qobj shots x.instrs
    let F := qobjFull x
    getPath ["experiments", "0", "instructions"] F = some (.list (q.instructions.map instrVal)) ∧
    getPath ["experiments", "0", "header", "qubit_labels", "qubits"] F = some (labels "q" q.qubitLabels) ∧
    getPath ["experiments", "0", "header", "clbit_labels", "clbits"] F = some (labels "c" q.clbitLabels) ∧
    getPath ["experiments", "0", "header", "n_qubits"] F = some (.int q.nQubitsHeader) ∧
    getPath ["experiments", "0", "header", "qreg_sizes", "q"] F = some (.int q.qregSize) ∧
    getPath ["experiments", "0", "config", "n_qubits"] F = some (.int q.nQubitsExpConfig) ∧
    getPath ["config", "n_qubits"] F = some (.int q.nQubitsConfig) ∧
    getPath ["experiments", "0", "header", "memory_slots"] F = some (.int q.memorySlotsHeader) ∧
    getPath ["experiments", "0", "header", "creg_sizes", "c"] F = some (.int q.cregSize) ∧
    getPath ["experiments", "0", "config", "memory_slots"] F = some (.int q.memorySlotsExpConfig) ∧
    getPath ["config", "memory_slots"] F = some (.int q.memorySlotsConfig) := by
  intro q F
  have hc := C18_config_section x
  refine ⟨?_, ?_, ?_, ?_, ?_, ?_, ?_, ?_, ?_, ?_, ?_⟩
  case refine_7 =>
    show getPath ["config", "n_qubits"] (qobjFull x) = _
    rw [getPath_two _ _ _ _ hc]; simp only [child, C18_config_lookup]; simp [configFixedKeys, configFixed, List.lookup, q, qobj]
  case refine_11 =>
    show getPath ["config", "memory_slots"] (qobjFull x) = _
    rw [getPath_two _ _ _ _ hc]; simp only [child, C18_config_lookup]; simp [configFixedKeys, configFixed, List.lookup, q, qobj]
  all_goals (simp only [F, C18_qobj_shape]; simp [qobjSpec, getPath, child, List.lookup, q, qobj])

/-- the number in `config.shots` is the number that was validated -/
theorem C18_full_shots (x : Experiment) : getPath ["config", "shots"] (qobjFull x) = some (attr x.options "shots") := by
  rw [getPath_two _ _ _ _ (C18_config_section x)]; simp only [child, C18_config_lookup]
  simp [configFixedKeys, configFixed]

/-- **an accepted submission**: the options were accepted, `shots` is the caller's (or 1024), the experiment passed `_validate` with
exactly these shots and instructions, the Qobj is `as_qasm()` of that experiment, and the request is built from that Qobj.
Consequently (theorems of `C18.lean`) the experiment is `Valid`, and n_qubits / labels / shots of the Qobj fit the processor. -/
theorem C18_full_sent_is_validated (p : Proc) (pcfg : ProcConfig) (token : Val) (name qid : String) (kw : Dict) (instrs : List Instr)
    (q : Val) (r : Request) (h : submitFull p pcfg token name qid kw instrs = .sent q r) :
    ∃ o shots, mkOptions kw = .ok o ∧ (kw.lookup "shots").getD (.int 1024) = .int shots ∧
      validate pcfg shots instrs = .ok () ∧ Valid pcfg shots instrs ∧
      q = qobjFull (mkExperiment p token name qid o instrs) ∧ r = request p token q ∧
      getPath ["config", "shots"] q = some (.int shots) ∧
      (particles instrs).length ≤ pcfg.nQubits ∧ shots ≤ (pcfg.maxShots : Int) := by
  unfold submitFull at h
  split at h
  · cases h
  · rename_i o ho
    split at h
    · rename_i shots hs
      split at h
      · cases h
      · rename_i hv
        cases h
        have hshots := (C18_options_attributes kw o ho).1
        have hvalid := C18_accepted_only_if_valid pcfg shots instrs hv
        have hfit := C18_accepted_qobj_fits pcfg shots instrs hv
        refine ⟨o, shots, ho, by rw [← hshots, hs], hv, hvalid, rfl, rfl, ?_, ?_, hvalid.1⟩
        · rw [C18_full_shots]; simp only [mkExperiment]; rw [hs]
        · simpa [qobj] using hfit.1
    · cases h

/-- nothing is sent for an experiment that is refused -/
theorem C18_full_refused_nothing_sent (p : Proc) (pcfg : ProcConfig) (token : Val) (name qid : String) (kw o : Dict) (instrs : List Instr)
    (shots : Int) (e : Err) (ho : mkOptions kw = .ok o) (hs : attr o "shots" = .int shots) (hv : validate pcfg shots instrs = .error e) :
    submitFull p pcfg token name qid kw instrs = .refused e := by
  unfold submitFull; rw [ho]; simp only; rw [hs]; simp only; rw [hv]

/-! ### (c) The token: never in the Qobj, only in the header; the body is the Qobj -/

/-- the Qobj does not depend on the credentials (url, access token) of the experiment at all -/
theorem C18_qobj_independent_of_credentials (x : Experiment) (cred : Dict) : qobjFull { x with cred := cred } = qobjFull x := by
  rw [C18_qobj_shape, C18_qobj_shape]; rfl

/-- … in particular two processors objects with different tokens build the same Qobj from the same inputs -/
theorem C18_qobj_independent_of_token (p : Proc) (t₁ t₂ : Val) (name qid : String) (o : Dict) (instrs : List Instr) :
    qobjFull (mkExperiment p t₁ name qid o instrs) = qobjFull (mkExperiment p t₂ name qid o instrs) := by
  rw [C18_qobj_shape, C18_qobj_shape]; rfl

/-- the request of both shipped processors: `PUT <url>/qobj`, the token in the `access-token` header and nowhere else (the url and the
body are the same for every token), and the body is exactly `{'qobj': Q}` — what is sent is the Qobj that was built, nothing else -/
theorem C18_request_shape (token q : Val) :
    (request QibGen.Wmi.qsim token q).method = "PUT" ∧ (request QibGen.Wmi.qc token q).method = "PUT" ∧
    (request QibGen.Wmi.qsim token q).url = QibGen.Wmi.qsim.url ++ "/qobj" ∧
    (request QibGen.Wmi.qc token q).url = QibGen.Wmi.qc.url ++ "/qobj" ∧
    (request QibGen.Wmi.qsim token q).headers = [("access-token", token), ("Content-Type", .str "application/json")] ∧
    (request QibGen.Wmi.qc token q).headers = [("access-token", token), ("Content-Type", .str "application/json")] ∧
    (request QibGen.Wmi.qsim token q).body = .dict [("qobj", q)] ∧
    (request QibGen.Wmi.qc token q).body = .dict [("qobj", q)] := by
  refine ⟨rfl, rfl, ?_, ?_, ?_, ?_, ?_, ?_⟩ <;>
    simp [request, QibGen.Wmi.qsim, QibGen.Wmi.qc, rsrcVal, credOf, attr, List.lookup, strOf, String.join]

/-- url and body do not depend on the token -/
theorem C18_request_token_only_in_header (t₁ t₂ q : Val) :
    (request QibGen.Wmi.qsim t₁ q).url = (request QibGen.Wmi.qsim t₂ q).url ∧
    (request QibGen.Wmi.qsim t₁ q).body = (request QibGen.Wmi.qsim t₂ q).body ∧
    (request QibGen.Wmi.qc t₁ q).url = (request QibGen.Wmi.qc t₂ q).url ∧
    (request QibGen.Wmi.qc t₁ q).body = (request QibGen.Wmi.qc t₂ q).body := by
  have h1 := C18_request_shape t₁ q
  have h2 := C18_request_shape t₂ q
  refine ⟨?_, ?_, ?_, ?_⟩
  · rw [h1.2.2.1, h2.2.2.1]
  · rw [h1.2.2.2.2.2.2.1, h2.2.2.2.2.2.2.1]
  · rw [h1.2.2.2.1, h2.2.2.2.1]
  · rw [h1.2.2.2.2.2.2.2, h2.2.2.2.2.2.2.2]

/-! ### (d) Injectivity up to falsy options; determinism up to `qobj_id` -/

/-- two experiments with the same Qobj have the same `qobj_id`, type, name, the same instruction list, the same backend name / version,
the same `shots`, `init_qubits`, `do_emulation`, `memory`, `meas_level`, and agree on every optional option that is truthy in one of
them (the documented loss: an option that is falsy on both sides is invisible). Contrapositive: experiments that differ in the circuit,
in shots or in a truthy option have different Qobjs. -/
theorem C18_qobj_injective (x₁ x₂ : Experiment) (h : qobjFull x₁ = qobjFull x₂) :
    x₁.qobjId = x₂.qobjId ∧ x₁.typeValue = x₂.typeValue ∧ x₁.name = x₂.name ∧ x₁.instrs = x₂.instrs ∧
    attr x₁.cfgAttrs "backend_name" = attr x₂.cfgAttrs "backend_name" ∧
    attr x₁.options "shots" = attr x₂.options "shots" ∧ attr x₁.options "init_qubits" = attr x₂.options "init_qubits" ∧
    attr x₁.options "do_emulation" = attr x₂.options "do_emulation" ∧
    ∀ k ∈ optionalKeys, (attr x₁.options k).truthy = true → attr x₂.options k = attr x₁.options k := by
  have hcfg : getPath ["config"] (qobjFull x₁) = getPath ["config"] (qobjFull x₂) := by rw [h]
  rw [C18_config_section, C18_config_section] at hcfg
  rw [C18_qobj_shape, C18_qobj_shape] at h
  have hconf : configFixed x₁ ++ optionalEntries x₁.options = configFixed x₂ ++ optionalEntries x₂.options := by
    injection hcfg with hcfg; injection hcfg
  have hid := congrArg (getPath ["qobj_id"]) h
  have hty := congrArg (getPath ["type"]) h
  have hname := congrArg (getPath ["experiments", "0", "header", "name"]) h
  have hI := congrArg (getPath ["experiments", "0", "instructions"]) h
  have hbn := congrArg (getPath ["header", "backend_name"]) h
  simp [qobjSpec, getPath, child, List.lookup] at hid hty hname hI hbn
  refine ⟨hid, hty, hname, instructions_inj _ _ (congrArg Val.list (by simpa [List.map_map] using hI)), hbn, ?_, ?_, ?_, ?_⟩
  · have := congrArg (fun d => List.lookup "shots" d) hconf
    simpa [C18_config_lookup, configFixedKeys, configFixed, List.lookup] using this
  · have := congrArg (fun d => List.lookup "init_qubits" d) hconf
    simpa [C18_config_lookup, configFixedKeys, configFixed, List.lookup] using this
  · have := congrArg (fun d => List.lookup "do_emulation" d) hconf
    simpa [C18_config_lookup, configFixedKeys, configFixed, List.lookup] using this
  · intro k hk ht
    have hnf : k ∉ configFixedKeys := C18_optional_rows_wf.2.2.2 k hk
    have := congrArg (fun d => List.lookup k d) hconf
    simp only [C18_config_lookup, hnf, if_false, hk, true_and, ht, if_true] at this
    split at this
    · exact (Option.some.inj this).symm
    · cases this

/-- `v[k] = new` for an existing key of a dictionary -/
def replaceKey (k : String) (new : Val) : Val → Val
  | .dict d => .dict (d.map fun p => if p.1 = k then (p.1, new) else p)
  | v => v

/-- the same inputs give the same Qobj except for `qobj_id`: the id enters the Qobj at the top-level key `qobj_id` and nowhere else -/
theorem C18_qobj_deterministic_up_to_id (x : Experiment) (id' : String) :
    qobjFull { x with qobjId := id' } = replaceKey "qobj_id" (.str id') (qobjFull x) := by
  rw [C18_qobj_shape, C18_qobj_shape]
  simp [qobjSpec, replaceKey, configFixed]

/-! ### (e) The key lists of all sections are fixed -/

/-- no key of any section depends on the circuit, the options' values, the name or the processor — except that a truthy optional option
adds its own key to `config` (`C18_config_keys`) -/
theorem C18_qobj_keys_fixed (x : Experiment) :
    let F := qobjFull x
    keysOf F = ["qobj_id", "type", "schema_version", "experiments", "header", "config"] ∧
    (getPath ["experiments", "0"] F).map keysOf = some ["header", "config", "instructions"] ∧
    (getPath ["experiments", "0", "header"] F).map keysOf =
      some ["qubit_labels", "n_qubits", "qreg_sizes", "clbit_labels", "memory_slots", "creg_sizes", "name", "global_phase", "metadata"] ∧
    (getPath ["experiments", "0", "config"] F).map keysOf = some ["n_qubits", "memory_slots"] ∧
    (getPath ["header"] F).map keysOf = some ["backend_name", "backend_version"] ∧
    (∃ ks, (getPath ["config"] F).map keysOf = some (configFixedKeys ++ ks) ∧ ks.Sublist optionalKeys) ∧
    (∀ y : Experiment, y.options = x.options → (getPath ["config"] (qobjFull y)).map keysOf = (getPath ["config"] F).map keysOf) := by
  intro F
  refine ⟨?_, ?_, ?_, ?_, ?_, ⟨_, C18_config_keys x, List.filter_sublist⟩, ?_⟩
  case refine_6 => intro y hy; rw [C18_config_keys, C18_config_keys, hy]
  all_goals (simp only [F, C18_qobj_shape]; simp [qobjSpec, getPath, child, List.lookup, keysOf])

/-- the canonical instruction dictionaries have the fixed keys `name, qubits, params, memory` -/
theorem C18_instruction_keys_fixed (q : QInstr) : keysOf (instrVal q) = ["name", "qubits", "params", "memory"] := rfl

/-! ### Non-vacuity and examples (tests, by evaluation) -/

/-- an experiment on the simulator: two instructions, `shots = 5`, `chip = 'c'`, `relax = False` (falsy: dropped), `debug = True` -/
def exampleKw : Dict := [("shots", .int 5), ("chip", .str "c"), ("relax", .bool false), ("debug", .bool true), ("init_qubits", .int 0)]
def exampleInstrs : List Instr := [⟨"x", [0], [], []⟩, ⟨"measure", [0, 2], [], [3, 1]⟩]

example : ∃ o, mkOptions exampleKw = .ok o := (C18_options_accepts_iff _).mpr (by decide)
example : mkOptions [("shotz", .int 5)] = .error "shotz" := by rfl
example : ∃ q r, submitFull QibGen.Wmi.qsim qsimConfig (.str "tok") "n" "id" exampleKw exampleInstrs = .sent q r := by
  simp [submitFull, mkOptions, mkOptionsOf, exampleKw, QibGen.Wmi.initParams, QibGen.Wmi.initAssign, attr, List.lookup,
    show validate qsimConfig 5 exampleInstrs = .ok () from by decide]
example : submitFull QibGen.Wmi.qsim qsimConfig (.str "tok") "n" "id" [("shots", .int 9000)] exampleInstrs = .refused .shots := by
  simp [submitFull, mkOptions, mkOptionsOf, QibGen.Wmi.initParams, QibGen.Wmi.initAssign, attr, List.lookup,
    show validate qsimConfig 9000 exampleInstrs = .error .shots from by decide]
/-- truthiness -/
example : [Val.none, .bool false, .int 0, .float 0 1, .str "", .list [], .dict []].all (fun v => !v.truthy) = true := by decide
example : [Val.bool true, .int (-3), .float 1 2, .special "inf", .str "0", .list [.none], .dict [("", .none)]].all (·.truthy) = true := by decide

end Qib.Wmi.Full
