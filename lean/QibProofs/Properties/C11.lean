import QibProofs.Lemmas.EncodeSum
import QibProofs.Lemmas.EncodePrune
import QibProofs.Lemmas.EncodeTotal
import QibProofs.Lemmas.EncodeExtra
import QibProofs.Lemmas.EncodeInv
/-!
C11 — Jordan-Wigner encoding reproduces the operator exactly.

Property theorems only (proofs are in `Lemmas/EncodeStrings.lean`, `EncodeLadder.lean`, `EncodeSum.lean`,
`EncodePrune.lean`, `EncodeTotal.lean`). Everything is stated about the executable model `QibModel/Encode.lean`
(run by `drv_encode`), which reuses the Pauli model `QibModel/Pauli.lean` whose phase tables and product formula
are the generated definitions of `QibGen/PauliTables.lean`.

Conventions. `L` sites, matrices in bit-function indexing `Matrix (Fin L → Bool) (Fin L → Bool) ℂ` (site 0 = outermost
Kronecker factor, `C09_matEntry_flat`). A field operator is data: `fields` (fermionic?, number of sites) and `terms`
(operator descriptions, shape and entries `(multi_index, coeff)` of the coefficient array in `nditer` order).
`φ : α → ℂ` maps the weights into ℂ (`ScalarHom φ`; the driver's instance is `GQ.toC`, `GQ.scalarHom`).
`refMat φ L op` is the field operator's own matrix `Σ_terms Σ_entries coeff • Π ladder(j, kind)` with
`ladder L i kind = 1 ⊗ … ⊗ 1 ⊗ U ⊗ Z ⊗ … ⊗ Z` (sign string on LATER sites, `field_operator.py:201-217`).
`fop.WF` is what the `FieldOperatorTerm` constructor guarantees (`coeffs.ndim == len(opdesc)`).
-/
open Complex Matrix
namespace Qib.Encode
open Qib.Pauli

/-! ### the two strings per ladder operator -/

/-- the strings of `jordan_wigner_encoding.py:21-27` as functions of the site: `s₀ = X_i Z_{>i}` (phase 0),
`s₁ = Y_i Z_{>i}` with phase `q = 1` (creation) / `q = 3` (annihilation); all of length `L` -/
theorem C11_jw_strings (L i k : ℕ) (hi : i < L) (hk : k < L) :
    (s0 .jw L i).zf k = decide (i < k) ∧ (s0 .jw L i).xf k = decide (k = i) ∧ (s0 .jw L i).q = 0 ∧
    (s1c .jw L i).zf k = decide (i ≤ k) ∧ (s1c .jw L i).xf k = decide (k = i) ∧ (s1c .jw L i).q = 1 ∧
    (s1a .jw L i).zf k = decide (i ≤ k) ∧ (s1a .jw L i).xf k = decide (k = i) ∧ (s1a .jw L i).q = 3 ∧
    (s0 .jw L i).HasLen L ∧ (s1c .jw L i).HasLen L ∧ (s1a .jw L i).HasLen L :=
  ⟨jw_s0_zf L i k hi hk, jw_s0_xf L i k hi hk, rfl, jw_s1c_zf L i k hi hk, jw_s1c_xf L i k hi hk, rfl,
    jw_s1a_zf L i k hi hk, jw_s1a_xf L i k hi hk, rfl, s0_hasLen .jw L i hi, s1c_hasLen .jw L i hi, s1a_hasLen .jw L i hi⟩

/-- the reference ladder operator, entrywise: identity before site `i`, `U = |1⟩⟨0|` (creation) or `Uᴴ` on site `i`,
`Z` on every LATER site; the annihilation operator is the adjoint of the creation operator -/
theorem C11_ladder_def (L i : ℕ) (create : Bool) (r c : Fin L → Bool) :
    ladder L i create r c = ∏ k : Fin L,
      (if k.val < i then (1 : Matrix Bool Bool ℂ) else if k.val = i then (if create then createM else annihilM) else pauliZ) (r k) (c k) ∧
    createM true false = 1 ∧ createM false false = 0 ∧ createM false true = 0 ∧ createM true true = 0 ∧
    (ladder L i true)ᴴ = ladder L i false :=
  ⟨rfl, by simp [createM], by simp [createM], by simp [createM], by simp [createM], ladder_conjTranspose L i⟩

/-- flat indices: the reference ladder entry computed by the driver (`ladderEntry`, compared with `op.as_matrix()` of the single
ladder operators on every run) at `(natOfBits r, natOfBits c)`, site 0 most significant, is the entry of `ladder` -/
theorem C11_ladderEntry_flat (L i : ℕ) (create : Bool) (r c : Fin L → Bool) :
    ((ladderEntry L i create (natOfBits L r) (natOfBits L c) : ℤ) : ℂ) = ladder L i create r c :=
  ladderEntry_eq L i create r c

/-- `½ (s₀ + s₁)` with the code's signs is the reference ladder matrix, for every `L`, every site and both kinds -/
theorem C11_jw_ladder (L i : ℕ) (hi : i < L) (create : Bool) :
    (1 / 2 : ℂ) • ((ladderPair .jw L i create).1.mat L + (ladderPair .jw L i create).2.mat L) = ladder L i create :=
  jw_ladder L i hi create

/-- consequence: the reference ladder operators satisfy the canonical anticommutation relations -/
theorem C11_ladder_car (L i j : ℕ) (hi : i < L) (hj : j < L) :
    (ladder L i false * ladder L j true + ladder L j true * ladder L i false = if i = j then 1 else 0) ∧
    ladder L i false * ladder L j false + ladder L j false * ladder L i false = 0 ∧
    ladder L i true * ladder L j true + ladder L j true * ladder L i true = 0 := by
  have := encLadder_car .jw L i j hi hj
  simpa only [jw_ladder L i hi, jw_ladder L j hj] using this

/-- and the number operator is `½ (1 - Z_i)` -/
theorem C11_ladder_number (L i : ℕ) (hi : i < L) :
    ladder L i true * ladder L i false =
      (1 / 2 : ℂ) • (1 - tens (fun k : Fin L => if k.val = i then pauliZ else 1)) := by
  have := encLadder_number .jw L i hi
  simpa only [jw_ladder L i hi, numZ] using this

/-! ### the product expansion -/

/-- the strings produced for one coefficient sum to the ordered product of the `(s₀ + s₁)` matrices (induction over the
operator count with `C09_mat_mul`); a successful expansion met only site indices `< L` -/
theorem C11_expand_sum (enc : Enc) (L : ℕ) (ops : List Desc) (idx : List ℕ) (out : List PS)
    (h : expand enc L ops idx [PS.identity L] = .ok out) :
    (out.map (PS.mat L)).sum = stringProd enc L ops idx ∧ (∀ p ∈ out, p.HasLen L) := by
  obtain ⟨h1, h2, _⟩ := expand_sum enc L ops idx _ out h (by
    intro p hp; simp only [List.mem_singleton] at hp; subst hp; exact identity_hasLen L)
  have hid : sumMat L [PS.identity L] = 1 := by simp [sumMat, identity_mat]
  rw [hid, one_mul] at h1
  exact ⟨h1, h2⟩

/-- with one multi-index entry per operator, `2^-k` times that product is the product of the encoded ladder operators -/
theorem C11_stringProd_weight (enc : Enc) (L : ℕ) (ops : List Desc) (idx : List ℕ) (h : idx.length = ops.length) :
    ((1 / 2 : ℂ) ^ ops.length) • stringProd enc L ops idx = ladderProd enc L ops idx := stringProd_eq enc L ops idx h

/-- moving the sign of every string into its weight and inserting with merge-on-insert adds `w • Σ matrices` -/
theorem C11_addStrings_mat {α : Type} [EncScalar α] {φ : α → ℂ} (hφ : ScalarHom φ) (L : ℕ) (op : PauliOp α)
    (strings : List PS) (w : α) :
    PauliOp.mat φ L (addStrings op strings w) = PauliOp.mat φ L op + φ w • (strings.map (PS.mat L)).sum :=
  addStrings_mat hφ L op strings w

/-! ### the encoded operator has the matrix of the field operator -/

/-- unfolding of the reference: `Σ_terms Σ_entries coeff • (ordered product of ladder operators)` -/
theorem C11_refMat_def {α : Type} (φ : α → ℂ) (L : ℕ) (fop : FieldOp α) :
    refMat φ L fop = (fop.terms.map fun t => (t.entries.map fun e => φ e.2 • refProd L t.ops e.1).sum).sum ∧
    (∀ d ds j js, refProd L (d :: ds) (j :: js) = ladder L j (d.otype == .create) * refProd L ds js) ∧
    refProd L [] [] = 1 := ⟨rfl, fun _ _ _ _ => rfl, rfl⟩

theorem C11_encode_unfold {α : Type} [EncScalar α] (enc : Enc) (isZ : α → Bool) (fop : FieldOp α) (op : PauliOp α) :
    encode enc isZ fop = .ok op ↔ ∃ raw, encodeRaw enc fop = .ok raw ∧ op = raw.removeZero isZ := by
  unfold encode
  cases h : encodeRaw enc fop with
  | error e => simp
  | ok raw => simp [eq_comm]

/-- **C11, exact version** (`tol = 0`: the pruning test `isZ` only fires on weights that are zero):
for every field operator on one fermionic field – any number of terms, any operator count and pattern, arbitrary
complex coefficients, any lattice size – the Jordan-Wigner encoded Pauli operator has the matrix of the field operator -/
theorem C11_encode_mat {α : Type} [EncScalar α] {φ : α → ℂ} (hφ : ScalarHom φ) (isZ : α → Bool)
    (hz : ∀ w, isZ w = true → φ w = 0) (fop : FieldOp α) (op : PauliOp α)
    (h : encode .jw isZ fop = .ok op) (hwf : fop.WF) :
    ∃ L, fieldCheck fop = .ok L ∧ PauliOp.mat φ L op = refMat φ L fop := by
  obtain ⟨raw, hraw, rfl⟩ := (C11_encode_unfold .jw isZ fop op).mp h
  obtain ⟨L, hL, _, h2⟩ := encodeRaw_mat hφ .jw fop raw hraw hwf
  refine ⟨L, hL, ?_⟩
  rw [← h2 rfl]
  exact PauliOp.removeZero_matG (PS.mat L) φ isZ hz raw

/-- the same for the driver's scalars (Gaussian rationals), pruning with `abs(w) <= 0` -/
theorem C11_encode_mat_GQ (fop : FieldOp GQ) (op : PauliOp GQ)
    (h : encode .jw (fun w => w.absLe 0) fop = .ok op) (hwf : fop.WF) :
    ∃ L, fieldCheck fop = .ok L ∧ PauliOp.mat GQ.toC L op = refMat GQ.toC L fop :=
  C11_encode_mat GQ.scalarHom _ (fun w hw => GQ.absLe_zero w hw) fop op h hwf

/-- **C11 with the pruning tolerance**: if the pruning test only fires on weights of modulus `≤ tol` then every matrix
entry differs from the field operator's by at most `(number of pruned strings) · tol` -/
theorem C11_encode_mat_tol {α : Type} [EncScalar α] {φ : α → ℂ} (hφ : ScalarHom φ) (isZ : α → Bool) (tol : ℝ)
    (hz : ∀ w, isZ w = true → ‖φ w‖ ≤ tol) (fop : FieldOp α) (op : PauliOp α)
    (h : encode .jw isZ fop = .ok op) (hwf : fop.WF) :
    ∃ L raw, fieldCheck fop = .ok L ∧ encodeRaw .jw fop = .ok raw ∧ op = raw.removeZero isZ ∧
      ∀ r c, ‖(PauliOp.mat φ L op - refMat φ L fop) r c‖ ≤ ((raw.length - op.length : ℕ) : ℝ) * tol := by
  obtain ⟨raw, hraw, rfl⟩ := (C11_encode_unfold .jw isZ fop op).mp h
  obtain ⟨L, hL, _, h2⟩ := encodeRaw_mat hφ .jw fop raw hraw hwf
  refine ⟨L, raw, hL, hraw, rfl, fun r c => ?_⟩
  have hsplit := PauliOp.removeZero_add_dropped (PS.mat L) φ isZ raw
  have hd : PauliOp.mat φ L (raw.removeZero isZ) - refMat φ L fop = -PauliOp.mat φ L (raw.dropped isZ) := by
    rw [← h2 rfl]; simp only [PauliOp.mat]; rw [← hsplit]; abel
  have hlen : raw.length - (raw.removeZero isZ).length = (raw.dropped isZ).length := by
    have := PauliOp.dropped_length isZ raw; omega
  rw [hd, Matrix.neg_apply, norm_neg, hlen]
  exact opMat_entry_norm_le φ L tol _ (fun e he => hz _ (PauliOp.dropped_isZ isZ raw e he)) r c

/-- the driver's instance: Gaussian-rational weights, pruning with `abs(w) <= tol` for a rational `tol`
(the harness passes the exact value of the literal `1e-14`) -/
theorem C11_encode_mat_tol_GQ (tol : ℚ) (fop : FieldOp GQ) (op : PauliOp GQ)
    (h : encode .jw (fun w => w.absLe tol) fop = .ok op) (hwf : fop.WF) :
    ∃ L raw, fieldCheck fop = .ok L ∧ encodeRaw .jw fop = .ok raw ∧ op = raw.removeZero (fun w => w.absLe tol) ∧
      ∀ r c, ‖(PauliOp.mat GQ.toC L op - refMat GQ.toC L fop) r c‖ ≤ ((raw.length - op.length : ℕ) : ℝ) * (tol : ℝ) :=
  C11_encode_mat_tol GQ.scalarHom _ (tol : ℝ) (fun w hw => GQ.absLe_norm w tol hw) fop op h hwf

/-- shape of the encoded operator: every string has length `L` (so `PauliOp.mat φ L` is exactly what
`PauliOperator.as_matrix` sums), its phase is `q ∈ {0, 1}` (the sign sits in the weight) and no string occurs twice -/
theorem C11_encode_strings {α : Type} [EncScalar α] (isZ : α → Bool) (fop : FieldOp α) (op : PauliOp α) (L : ℕ)
    (hL : fieldCheck fop = .ok L) (h : encode .jw isZ fop = .ok op) :
    (∀ e ∈ op, e.1.HasLen L ∧ e.1.q.val < 2) ∧ (op.map (·.1)).Nodup := encode_good .jw isZ fop op L hL h

/-! ### what is accepted and what is rejected -/

/-- totality: with exactly one field, fermionic, `L` sites, every operator whose terms use fermionic operator types and
non-empty coefficient arrays with one axis per operator and extents `≤ L` is encoded (no exception) -/
theorem C11_encode_total {α : Type} [EncScalar α] (isZ : α → Bool) (fop : FieldOp α) (L : ℕ)
    (hL : fieldCheck fop = .ok L) (hv : ∀ t ∈ fop.terms, t.Valid L) :
    ∃ op, encode .jw isZ fop = .ok op ∧ fop.WF := by
  obtain ⟨raw, hraw⟩ := encodeRaw_ok .jw fop L hL hv
  exact ⟨raw.removeZero isZ, (C11_encode_unfold .jw isZ fop _).mpr ⟨raw, hraw, rfl⟩, fun t ht => (hv t ht).wf⟩

/-- the field test: accepted iff exactly one field occurs in the terms and it is fermionic; its size is `L` -/
theorem C11_fieldCheck {α : Type} [EncScalar α] (fop : FieldOp α) :
    (∀ L, fieldCheck fop = .ok L ↔ ∃ f, fieldIds fop.terms = [f] ∧ fop.fields[f]? = some ⟨true, L⟩) ∧
    (∀ e, fieldCheck fop = .error e → e = .notImplemented) :=
  ⟨fieldCheck_ok_iff fop, fieldCheck_error fop⟩

/-- error branches of the expansion: a non-fermionic operator type is a `RuntimeError`, a site index outside the lattice an
`IndexError` (in the order in which the loop meets them) -/
theorem C11_expand_errors (enc : Enc) (L : ℕ) (d : Desc) (ds : List Desc) (j : ℕ) (js : List ℕ) (acc : List PS) :
    (d.otype = .other → expand enc L (d :: ds) (j :: js) acc = .error .runtimeError) ∧
    (d.otype ≠ .other → ¬ j < L → expand enc L (d :: ds) (j :: js) acc = .error .indexError) ∧
    expand enc L [] (j :: js) acc = .error .indexError := by
  refine ⟨fun h => by simp [expand, h], fun h hj => ?_, rfl⟩
  cases hd : d.otype with
  | other => exact absurd hd h
  | create => simp [expand, hd, hj]
  | annihil => simp [expand, hd, hj]

/-- a zero-sized coefficient array is a `ValueError` (NumPy's `nditer` refuses it), whatever else the term contains -/
theorem C11_zero_sized_term {α : Type} [EncScalar α] (enc : Enc) (L : ℕ) (op : PauliOp α) (t : Term α)
    (h : 0 ∈ t.shape) : encodeTerm enc L op t = .error .valueError := by
  unfold encodeTerm
  have : t.shape.any (· == 0) = true := List.any_eq_true.mpr ⟨0, h, rfl⟩
  simp [this]

/-! ### non-vacuity -/

/-- a hopping term plus a constant on three sites -/
def exampleOp : FieldOp GQ :=
  ⟨[⟨true, 3⟩], [⟨[], [], [([], ⟨5 / 2, 0⟩)]⟩,
    ⟨[⟨0, .create⟩, ⟨0, .annihil⟩], [3, 3], [([0, 1], ⟨1, 1 / 2⟩), ([1, 0], ⟨1, -1 / 2⟩), ([2, 2], 0)]⟩]⟩

example : fieldCheck exampleOp = .ok 3 := by decide
example : exampleOp.WF := by
  intro t ht e he
  simp only [exampleOp, List.mem_cons, List.mem_nil_iff, or_false] at ht
  rcases ht with rfl | rfl <;> simp only [List.mem_cons, List.mem_nil_iff, or_false] at he <;>
    rcases he with rfl | rfl | rfl <;> rfl
example : (match encode .jw (fun w => w.absLe 0) exampleOp with | .ok op => op.length | .error _ => 0) = 5 := by decide +kernel
example : (s0 .jw 3 1, s1c .jw 3 1, s1a .jw 3 1) =
    (⟨[false, false, true], [false, true, false], 0⟩, ⟨[false, true, true], [false, true, false], 1⟩,
     ⟨[false, true, true], [false, true, false], 3⟩) := by decide
example : encode .jw (fun w => w.absLe 0) (⟨[⟨true, 2⟩, ⟨true, 2⟩], [⟨[⟨0, .create⟩, ⟨1, .annihil⟩], [2, 2], []⟩]⟩ : FieldOp GQ) =
    .error .notImplemented := by decide
example : encode .jw (fun w => w.absLe 0) (⟨[⟨true, 2⟩], [⟨[⟨0, .other⟩], [2], [([0], 1)]⟩]⟩ : FieldOp GQ) =
    .error .runtimeError := by decide +kernel
example : encode .jw (fun w => w.absLe 0) (⟨[⟨true, 2⟩], [⟨[⟨0, .create⟩], [3], [([2], 1)]⟩]⟩ : FieldOp GQ) =
    .error .indexError := by decide +kernel
example : encode .jw (fun w => w.absLe 0) (⟨[⟨true, 2⟩], [⟨[⟨0, .create⟩], [0], []⟩]⟩ : FieldOp GQ) =
    .error .valueError := by decide +kernel

end Qib.Encode
