import QibModel.Compact
/-! C13 (under construction) -/
namespace Qib.Compact
open Qib.Pauli Qib.Lattice

theorem C13_vertex_hermitian (n0 n1 x y : Nat) : (vertexStr n0 n1 x y).isHermitian = true := rfl

end Qib.Compact
