import QibProofs.Lemmas.CompactFormula
import QibProofs.Lemmas.CompactGroup
import QibProofs.Lemmas.CompactAdj
/-!
C13 — Compact encoding is exact on its stabiliser code space.

**What is proved here, and what is cited.** The property has two parts. (1) For every open rectangular lattice
`n0 × n1 ≥ 1` (even/odd extents, single rows/columns — the shape is a *variable* in every theorem below, nothing is
enumerated) the strings the code builds satisfy the relations of the Derby–Klassen construction: edge operators are
Hermitian and antisymmetric (`E_ji = −E_ij`), an edge operator anticommutes with the vertex operators of its two
endpoints and commutes with all others, two edge operators anticommute iff the edges share exactly one vertex, the
product of the edge operators around a face is the identity on faces carrying an auxiliary qubit and a Hermitian
involution on every face, all these loop products commute, and the encoded operator of every accepted coefficient
matrix is Hermitian and commutes with every loop product. These are the theorems `C13_…` below, stated about the
executable model `QibModel/Compact.lean` at the level of `(z, x, q)` strings and transported to complex matrices with
the C09 lemmas (`mat_mul`, `commutes_iff`, `hermitian_iff`).
(2) The spectral statement — *restricted to the joint +1 eigenspace of the loop products the encoded operator has exactly
the spectrum of the fermionic operator, every level repeated the same number of times* — is **not formalised**. It is the result
of Derby, Klassen, Bausch and Cubitt (Phys. Rev. B 104, 035118 (2021), Sec. III) applied to exactly the relations
(1). C13 is therefore claimed as *proof of the hypotheses + cited consequence*; the harness oracle additionally checks the
spectral statement numerically on every generated encoding with ≤ 11 qubits (failing-input search support only).

Vocabulary. Coordinates are `(x, y)` = (row, column), `x < n0`, `y < n1`; `n = ofcNsites n0 n1` qubits: vertex `(x, y)`
is qubit `vIdx n1 x y = x·n1 + y`, the face with upper-left corner `(x, y)` and `x + y` even carries the auxiliary qubit
`fIdx n0 n1 x y`. `EdgeOk n0 n1 ix iy jx jy`: a nearest-neighbour pair of vertices of the rectangle; `FaceIn`: a face of
the rectangle; `FaceOK`: a face carrying an auxiliary qubit. `vertexStr`, `edgeStr`, `loopStr` are the closed-layer
strings; `vertexOp`, `edgeOp`, `loopOp`, `encode` the literal layer the driver executes (integer coordinates, rejections,
strings built with the C09 model's constructors and generated letter table). `anti P R = !(P.commutesWith R)`;
`neg P` is `P` with `q + 2`; `P.mat n` is the C09 denotation `(-i)^q ⊗ₖ letter`.
-/
open Complex Matrix
namespace Qib.Compact
open Qib.Pauli Qib.Lattice

/-! ### the driver's literal layer is the closed layer -/

/-- `_encode_vertex_operator`: `Z` on the vertex's own qubit; anything outside the rectangle is a `ValueError` -/
theorem C13_vertexOp_eq (n0 n1 : ℕ) (c : Int × Int) :
    (∀ x y : ℕ, c = ((x : Int), (y : Int)) → x < n0 → y < n1 → vertexOp n0 n1 c = .ok (vertexStr n0 n1 x y)) ∧
    ((¬ ∃ x y : ℕ, c = ((x : Int), (y : Int)) ∧ x < n0 ∧ y < n1) → vertexOp n0 n1 c = .error .valueError) :=
  ⟨fun _ _ e hx hy => e ▸ vertexOp_ok hx hy, vertexOp_err n0 n1 c⟩

/-- `_encode_edge_operator` on an edge of the rectangle returns the closed-layer string -/
theorem C13_edgeOp_eq (n0 n1 ix iy jx jy : ℕ) (h : EdgeOk n0 n1 ix iy jx jy) :
    edgeOp n0 n1 ((ix : Int), (iy : Int)) ((jx : Int), (jy : Int)) = .ok (edgeStr n0 n1 ix iy jx jy) := edgeOp_ok h

/-- … and it returns a value *only* on edges of the rectangle (any other pair of integer coordinates raises) -/
theorem C13_edgeOp_accepts_only_edges (n0 n1 : ℕ) (i j : Int × Int) (E : PS) (h : edgeOp n0 n1 i j = .ok E) :
    ∃ ix iy jx jy : ℕ, i = ((ix : Int), (iy : Int)) ∧ j = ((jx : Int), (jy : Int)) ∧ EdgeOk n0 n1 ix iy jx jy ∧
      E = edgeStr n0 n1 ix iy jx jy := edgeOp_ok_imp n0 n1 i j E h

/-- `edge_to_odd_face_index` on an edge of the rectangle; `none` is the code's `-1` -/
theorem C13_edgeFace_eq (n0 n1 ix iy jx jy : ℕ) (h : EdgeOk n0 n1 ix iy jx jy) :
    edgeFace n0 n1 ((ix : Int), (iy : Int)) ((jx : Int), (jy : Int)) =
      .ok (auxFace n0 n1 (ix == jx) (min ix jx) (min iy jy)) := edgeFace_ok h

/-- `edge_to_odd_face_index` raises `ValueError` for a pair that is not a nearest-neighbour pair and for a pair whose
smaller corner lies outside the rectangle -/
theorem C13_edgeFace_rejects (n0 n1 : ℕ) (i j : Int × Int)
    (h : isNN i j = false ∨ min i.1 j.1 < 0 ∨ min i.2 j.2 < 0 ∨ min i.1 j.1 ≥ (n0 : Int) ∨ min i.2 j.2 ≥ (n1 : Int)) :
    edgeFace n0 n1 i j = .error .valueError := edgeFace_err n0 n1 i j h

/-- the auxiliary qubit of an edge is linked with both endpoints of the edge in the adjacency matrix of the
odd-face-centred lattice (C14's `faceAdj`: face qubit against a corner) -/
theorem C13_aux_qubit_adjacent (n0 n1 ix iy jx jy f : ℕ) (h : EdgeOk n0 n1 ix iy jx jy)
    (hf : auxFace n0 n1 (ix == jx) (min ix jx) (min iy jy) = some f) :
    faceAdj n0 n1 f (vIdx n1 ix iy) = true ∧ faceAdj n0 n1 f (vIdx n1 jx jy) = true := auxFace_adjacent h hf

/-- the auxiliary qubit of an edge is the auxiliary qubit of the *numbered* (`x + y` even) face among the two faces the
edge borders, if that face lies in the rectangle; it is a qubit of the register beyond the primary ones -/
theorem C13_auxFace_spec (n0 n1 : ℕ) (horiz : Bool) (x y : ℕ) :
    auxFace n0 n1 horiz x y = (auxC n0 n1 horiz x y).map (fun c => fIdx n0 n1 c.1 c.2) ∧
    (∀ c, auxC n0 n1 horiz x y = some c → FaceOK n0 n1 c.1 c.2 ∧ n0 * n1 ≤ fIdx n0 n1 c.1 c.2 ∧
      fIdx n0 n1 c.1 c.2 < ofcNsites n0 n1 ∧
      (c = (x, y) ∨ (horiz = true ∧ c.1 + 1 = x ∧ c.2 = y) ∨ (horiz = false ∧ c.1 = x ∧ c.2 + 1 = y))) := by
  refine ⟨auxFace_eq_auxC n0 n1 horiz x y, fun c hc => ⟨auxC_faceOK hc, fIdx_ge _ _ _ _, fIdx_lt (auxC_faceOK hc), ?_⟩⟩
  unfold auxC at hc
  split at hc
  · split at hc
    · cases hc; exact Or.inl rfl
    · cases hc
  · split at hc
    · split at hc
      · rename_i hh _
        cases hc; exact Or.inr (Or.inl ⟨hh, by simp only; omega, rfl⟩)
      · cases hc
    · split at hc
      · rename_i hh _
        cases hc; exact Or.inr (Or.inr ⟨by simpa using hh, rfl, by simp only; omega⟩)
      · cases hc

/-- the loop product computed by the driver with the literal edge operators and `@` is `loopStr` -/
theorem C13_loopOp_eq (n0 n1 x y : ℕ) (h : FaceIn n0 n1 x y) :
    loopOp n0 n1 (x : Int) (y : Int) = .ok (loopStr n0 n1 x y) := loopOp_ok h

/-- qubit numbering: vertices and auxiliary qubits are in range, distinct, and determined by their coordinates -/
theorem C13_numbering (n0 n1 : ℕ) :
    (∀ x y, x < n0 → y < n1 → vIdx n1 x y < n0 * n1 ∧ n0 * n1 ≤ ofcNsites n0 n1) ∧
    (∀ x y x' y', y < n1 → y' < n1 → (vIdx n1 x y = vIdx n1 x' y' ↔ x = x' ∧ y = y')) ∧
    (∀ x y x' y', FaceOK n0 n1 x y → FaceOK n0 n1 x' y' → (fIdx n0 n1 x y = fIdx n0 n1 x' y' ↔ x = x' ∧ y = y')) ∧
    (∀ x y, FaceOK n0 n1 x y → n0 * n1 ≤ fIdx n0 n1 x y ∧ fIdx n0 n1 x y < ofcNsites n0 n1) :=
  ⟨fun _ _ hx hy => ⟨vIdx_lt hx hy, nverts_le n0 n1⟩, fun _ _ _ _ hy hy' => vIdx_inj hy hy',
    fun _ _ _ _ h h' => fIdx_inj h h', fun _ _ h => ⟨fIdx_ge _ _ _ _, fIdx_lt h⟩⟩

/-! ### edge and vertex operators -/

theorem C13_strings_on_register (n0 n1 : ℕ) :
    (∀ x y, (vertexStr n0 n1 x y).HasLen (ofcNsites n0 n1)) ∧
    (∀ ix iy jx jy, EdgeOk n0 n1 ix iy jx jy → (edgeStr n0 n1 ix iy jx jy).HasLen (ofcNsites n0 n1)) ∧
    (∀ x y, FaceIn n0 n1 x y → (loopStr n0 n1 x y).HasLen (ofcNsites n0 n1)) :=
  ⟨vertexStr_hasLen n0 n1, fun _ _ _ _ h => edgeStr_hasLen h, fun _ _ h => loopStr_hasLen h⟩

/-- the letters of an edge operator: `X` on one endpoint, `Y` on the other (which one: parity of the row for horizontal,
of the column for vertical edges), `Y` resp. `X` on the auxiliary qubit if there is one; the sign is `±1` -/
theorem C13_edge_letters (n0 n1 ix iy jx jy : ℕ) (h : EdgeOk n0 n1 ix iy jx jy) :
    (edgeStr n0 n1 ix iy jx jy = bodyOf n0 n1 ix iy jx jy ∨ edgeStr n0 n1 ix iy jx jy = neg (bodyOf n0 n1 ix iy jx jy)) ∧
    (∀ x y, hBody n0 n1 x y = xyStr (ofcNsites n0 n1) (vIdx n1 x (y + 1 - x % 2)) (vIdx n1 x (y + x % 2))
      ((auxFace n0 n1 true x y).map fun f => (f, true)) 0) ∧
    (∀ x y, vBody n0 n1 x y = xyStr (ofcNsites n0 n1) (vIdx n1 (x + 1 - y % 2) y) (vIdx n1 (x + y % 2) y)
      ((auxFace n0 n1 false x y).map fun f => (f, false)) 0) :=
  ⟨edgeStr_body n0 n1 ix iy jx jy h, fun _ _ => rfl, fun _ _ => rfl⟩

/-- **edge operators are Hermitian** -/
theorem C13_edge_hermitian (n0 n1 ix iy jx jy : ℕ) (h : EdgeOk n0 n1 ix iy jx jy) :
    (edgeStr n0 n1 ix iy jx jy).isHermitian = true ∧
    ((edgeStr n0 n1 ix iy jx jy).mat (ofcNsites n0 n1))ᴴ = (edgeStr n0 n1 ix iy jx jy).mat (ofcNsites n0 n1) := by
  have hh := isHermitian_of_even _ (edgeStr_q_even h)
  exact ⟨hh, (hermitian_iff _ _).mp hh⟩

/-- edge operators are involutions: `E_ij² = 1` -/
theorem C13_edge_sq (n0 n1 ix iy jx jy : ℕ) (h : EdgeOk n0 n1 ix iy jx jy) :
    (edgeStr n0 n1 ix iy jx jy).mul (edgeStr n0 n1 ix iy jx jy) = PS.identity (ofcNsites n0 n1) ∧
    (edgeStr n0 n1 ix iy jx jy).mat (ofcNsites n0 n1) * (edgeStr n0 n1 ix iy jx jy).mat (ofcNsites n0 n1) = 1 := by
  have hs := mul_self_of_herm _ _ (edgeStr_hasLen h) (edgeStr_q_even h)
  refine ⟨hs, ?_⟩
  rw [← mat_mul _ _ _ (edgeStr_hasLen h) (edgeStr_hasLen h), hs, identity_mat]

/-- **antisymmetry**: `E_ji = −E_ij` -/
theorem C13_edge_antisym (n0 n1 ix iy jx jy : ℕ) (h : EdgeOk n0 n1 ix iy jx jy) :
    edgeStr n0 n1 jx jy ix iy = neg (edgeStr n0 n1 ix iy jx jy) ∧
    (edgeStr n0 n1 jx jy ix iy).mat (ofcNsites n0 n1) = - (edgeStr n0 n1 ix iy jx jy).mat (ofcNsites n0 n1) := by
  have e := edgeStr_rev h
  exact ⟨e, by rw [e, mat_neg]⟩

/-- vertex operators are Hermitian involutions and commute with each other -/
theorem C13_vertex_ops (n0 n1 x y x' y' : ℕ) (hx : x < n0) (hy : y < n1) :
    (vertexStr n0 n1 x y).isHermitian = true ∧
    (vertexStr n0 n1 x y).mul (vertexStr n0 n1 x y) = PS.identity (ofcNsites n0 n1) ∧
    (vertexStr n0 n1 x y).zf (vIdx n1 x y) = true ∧ (vertexStr n0 n1 x y).xf (vIdx n1 x y) = false ∧
    (vertexStr n0 n1 x y).commutesWith (vertexStr n0 n1 x' y') = true := by
  have hk := vIdx_lt_nsites (n0 := n0) (n1 := n1) hx hy
  have hl := identity_hasLen (ofcNsites n0 n1)
  refine ⟨rfl, mul_self_of_herm _ _ (vertexStr_hasLen n0 n1 x y) rfl, ?_, ?_, ?_⟩
  · rw [vertexStr, zf_setL, hl.1]; simp [hk]
  · rw [vertexStr, xf_setL, hl.2]; simp [hk]
  · rw [← anti_false_iff]
    unfold vertexStr
    have z0 : (PS.identity (ofcNsites n0 n1)).z.getD (vIdx n1 x y) false = false := getD_replicate_false _ _
    have x0 : (PS.identity (ofcNsites n0 n1)).x.getD (vIdx n1 x y) false = false := getD_replicate_false _ _
    rw [anti_setL _ _ _ _ _ (by rw [hl.1]; exact hk) (by rw [hl.2]; exact hk) z0 x0, anti_identity_left]
    have hx' : (setL (PS.identity (ofcNsites n0 n1)) (vIdx n1 x' y') true false).x.getD (vIdx n1 x y) false = false := by
      show (setL (PS.identity (ofcNsites n0 n1)) (vIdx n1 x' y') true false).xf (vIdx n1 x y) = false
      rw [xf_setL]
      split
      · rfl
      · exact getD_replicate_false _ _
    rw [hx']; rfl

/-- **edge/vertex relation**: `E_ij` anticommutes with `V_i` and `V_j` and commutes with every other vertex operator -/
theorem C13_edge_vertex_rel (n0 n1 ix iy jx jy a b : ℕ) (h : EdgeOk n0 n1 ix iy jx jy) (ha : a < n0) (hb : b < n1) :
    ((edgeStr n0 n1 ix iy jx jy).commutesWith (vertexStr n0 n1 a b) = false ↔ ((a = ix ∧ b = iy) ∨ (a = jx ∧ b = jy))) ∧
    (((a = ix ∧ b = iy) ∨ (a = jx ∧ b = jy)) →
      (edgeStr n0 n1 ix iy jx jy).mat (ofcNsites n0 n1) * (vertexStr n0 n1 a b).mat (ofcNsites n0 n1) =
        - ((vertexStr n0 n1 a b).mat (ofcNsites n0 n1) * (edgeStr n0 n1 ix iy jx jy).mat (ofcNsites n0 n1))) ∧
    (¬ ((a = ix ∧ b = iy) ∨ (a = jx ∧ b = jy)) →
      (edgeStr n0 n1 ix iy jx jy).mat (ofcNsites n0 n1) * (vertexStr n0 n1 a b).mat (ofcNsites n0 n1) =
        (vertexStr n0 n1 a b).mat (ofcNsites n0 n1) * (edgeStr n0 n1 ix iy jx jy).mat (ofcNsites n0 n1)) := by
  have e := anti_edge_vertex n0 n1 ix iy jx jy a b h ha hb
  have lE := edgeStr_hasLen h
  have lV := vertexStr_hasLen n0 n1 a b
  refine ⟨?_, fun hc => ?_, fun hc => ?_⟩
  · rw [← anti_true_iff, e]; simp
  · exact mat_anticomm _ _ _ lE lV (by rw [e]; simpa using hc)
  · exact mat_comm_of_not_anti _ _ _ lE lV (by rw [e]; simpa using hc)

/-- **edge/edge relation**: `E_ij` and `E_kl` anticommute iff the edges share exactly one vertex (a common endpoint, but
not the same pair of endpoints); otherwise (disjoint, or the same edge in either orientation) they commute -/
theorem C13_edge_edge_rel (n0 n1 ix iy jx jy kx ky lx ly : ℕ)
    (h : EdgeOk n0 n1 ix iy jx jy) (h' : EdgeOk n0 n1 kx ky lx ly) :
    ((edgeStr n0 n1 ix iy jx jy).commutesWith (edgeStr n0 n1 kx ky lx ly) = false ↔ ShareOne ix iy jx jy kx ky lx ly) ∧
    (ShareOne ix iy jx jy kx ky lx ly →
      (edgeStr n0 n1 ix iy jx jy).mat (ofcNsites n0 n1) * (edgeStr n0 n1 kx ky lx ly).mat (ofcNsites n0 n1) =
        - ((edgeStr n0 n1 kx ky lx ly).mat (ofcNsites n0 n1) * (edgeStr n0 n1 ix iy jx jy).mat (ofcNsites n0 n1))) ∧
    (¬ ShareOne ix iy jx jy kx ky lx ly →
      (edgeStr n0 n1 ix iy jx jy).mat (ofcNsites n0 n1) * (edgeStr n0 n1 kx ky lx ly).mat (ofcNsites n0 n1) =
        (edgeStr n0 n1 kx ky lx ly).mat (ofcNsites n0 n1) * (edgeStr n0 n1 ix iy jx jy).mat (ofcNsites n0 n1)) := by
  have e := anti_edge_edge n0 n1 ix iy jx jy kx ky lx ly h h'
  have l1 := edgeStr_hasLen h
  have l2 := edgeStr_hasLen h'
  refine ⟨?_, fun hc => ?_, fun hc => ?_⟩
  · rw [← anti_true_iff, e]; simp
  · exact mat_anticomm _ _ _ l1 l2 (by rw [e]; simpa using hc)
  · exact mat_comm_of_not_anti _ _ _ l1 l2 (by rw [e]; simpa using hc)

/-! ### loop products around the faces -/

/-- **on a face carrying an auxiliary qubit the loop product is the identity** (string: all letters `I`, phase `q = 0`) -/
theorem C13_loop_identity_on_aux_faces (n0 n1 x y : ℕ) (h : FaceOK n0 n1 x y) :
    loopStr n0 n1 x y = PS.identity (ofcNsites n0 n1) ∧ (loopStr n0 n1 x y).mat (ofcNsites n0 n1) = 1 := by
  have e := loopStr_identity h
  exact ⟨e, by rw [e, identity_mat]⟩

/-- **on every face of the rectangle the loop product is a Hermitian involution** -/
theorem C13_loop_involution_elsewhere (n0 n1 x y : ℕ) (h : FaceIn n0 n1 x y) :
    (loopStr n0 n1 x y).isHermitian = true ∧
    (loopStr n0 n1 x y).mul (loopStr n0 n1 x y) = PS.identity (ofcNsites n0 n1) ∧
    ((loopStr n0 n1 x y).mat (ofcNsites n0 n1))ᴴ = (loopStr n0 n1 x y).mat (ofcNsites n0 n1) ∧
    (loopStr n0 n1 x y).mat (ofcNsites n0 n1) * (loopStr n0 n1 x y).mat (ofcNsites n0 n1) = 1 := by
  have hh := isHermitian_of_even _ (loopStr_q_even h)
  have hs := loopStr_sq h
  refine ⟨hh, hs, (hermitian_iff _ _).mp hh, ?_⟩
  rw [← mat_mul _ _ _ (loopStr_hasLen h) (loopStr_hasLen h), hs, identity_mat]

/-- **loop products commute with each other** -/
theorem C13_loops_commute (n0 n1 x y x' y' : ℕ) (h : FaceIn n0 n1 x y) (h' : FaceIn n0 n1 x' y') :
    (loopStr n0 n1 x y).commutesWith (loopStr n0 n1 x' y') = true ∧
    (loopStr n0 n1 x y).mat (ofcNsites n0 n1) * (loopStr n0 n1 x' y').mat (ofcNsites n0 n1) =
      (loopStr n0 n1 x' y').mat (ofcNsites n0 n1) * (loopStr n0 n1 x y).mat (ofcNsites n0 n1) := by
  have e := anti_loop_loop h h'
  exact ⟨(anti_false_iff _ _).mp e, mat_comm_of_not_anti _ _ _ (loopStr_hasLen h) (loopStr_hasLen h') e⟩

/-- **"the product of the edge operators around a face" is well defined**: starting from any of the four corners and going
round in either direction gives the same string (`E₀ … E₃`: edge operators along
`(x,y) → (x,y+1) → (x+1,y+1) → (x+1,y) → (x,y)`, `F₀ … F₃`: operators of the reversed edges) -/
theorem C13_loop_orientation_independent (n0 n1 x y : ℕ) (h : FaceIn n0 n1 x y) :
    let E0 := edgeStr n0 n1 x y x (y + 1)
    let E1 := edgeStr n0 n1 x (y + 1) (x + 1) (y + 1)
    let E2 := edgeStr n0 n1 (x + 1) (y + 1) (x + 1) y
    let E3 := edgeStr n0 n1 (x + 1) y x y
    let F0 := edgeStr n0 n1 x (y + 1) x y
    let F1 := edgeStr n0 n1 (x + 1) (y + 1) x (y + 1)
    let F2 := edgeStr n0 n1 (x + 1) y (x + 1) (y + 1)
    let F3 := edgeStr n0 n1 x y (x + 1) y
    let L := loopStr n0 n1 x y
    L = ((E0.mul E1).mul E2).mul E3 ∧
    ((E1.mul E2).mul E3).mul E0 = L ∧ ((E2.mul E3).mul E0).mul E1 = L ∧ ((E3.mul E0).mul E1).mul E2 = L ∧
    ((F3.mul F2).mul F1).mul F0 = L ∧ ((F2.mul F1).mul F0).mul F3 = L ∧ ((F1.mul F0).mul F3).mul F2 = L ∧
    ((F0.mul F3).mul F2).mul F1 = L :=
  ⟨rfl, loop_variants h⟩

/-- loop products commute with every vertex operator and every edge operator -/
theorem C13_loop_commutes_with_generators (n0 n1 x y : ℕ) (h : FaceIn n0 n1 x y) :
    (∀ a b, a < n0 → b < n1 → (loopStr n0 n1 x y).commutesWith (vertexStr n0 n1 a b) = true) ∧
    (∀ kx ky lx ly, EdgeOk n0 n1 kx ky lx ly → (loopStr n0 n1 x y).commutesWith (edgeStr n0 n1 kx ky lx ly) = true) :=
  ⟨fun _ _ ha hb => (anti_false_iff _ _).mp (anti_loop_vertex h ha hb),
    fun _ _ _ _ hk => (anti_false_iff _ _).mp (anti_loop_edge h hk)⟩

/-! ### the encoded operator -/

/-- the encoder returns the register size of the encoding lattice and strings of that length -/
theorem C13_encoded_register (inp : Input) (op : PauliOp GQ) (n : ℕ) (hs : encode inp = .ok (op, n)) :
    ∃ n0 n1, inp.shape = [n0, n1] ∧ n = ofcNsites n0 n1 ∧ ∀ e ∈ op, e.1.HasLen n := by
  obtain ⟨n0, n1, h1, h2, h3⟩ := encode_good inp op n hs
  exact ⟨n0, n1, h1, h2, fun e he => h2 ▸ (h3 e he).2.1⟩

/-- **the encoded operator is Hermitian**: every weighted string answers Hermitian (so `PauliOperator.is_hermitian()` is
`True`) and the matrix `Σ weight · string` equals its conjugate transpose — for every input the encoder accepts -/
theorem C13_encoded_hermitian (inp : Input) (op : PauliOp GQ) (n : ℕ) (hs : encode inp = .ok (op, n)) :
    PauliOp.isHermitian op = true ∧ (PauliOp.mat GQ.toC n op)ᴴ = PauliOp.mat GQ.toC n op := by
  obtain ⟨n0, n1, -, -, h3⟩ := encode_good inp op n hs
  have hh : PauliOp.isHermitian op = true := by
    unfold PauliOp.isHermitian
    rw [List.all_eq_true]
    exact fun e he => (h3 e he).1
  exact ⟨hh, pauliOp_isHermitian_sound n op hh⟩

/-- **the encoded operator commutes with the loop product of every face**: string by string, and as matrices -/
theorem C13_encoded_commutes_with_loops (inp : Input) (op : PauliOp GQ) (n : ℕ) (hs : encode inp = .ok (op, n)) :
    ∃ n0 n1, inp.shape = [n0, n1] ∧ n = ofcNsites n0 n1 ∧ ∀ x y, FaceIn n0 n1 x y →
      (∀ e ∈ op, (loopStr n0 n1 x y).commutesWith e.1 = true) ∧
      PauliOp.mat GQ.toC n op * (loopStr n0 n1 x y).mat n = (loopStr n0 n1 x y).mat n * PauliOp.mat GQ.toC n op := by
  obtain ⟨n0, n1, h1, h2, h3⟩ := encode_good inp op n hs
  refine ⟨n0, n1, h1, h2, fun x y hf => ⟨fun e he => (anti_false_iff _ _).mp ((h3 e he).2.2 x y hf), ?_⟩⟩
  subst h2
  exact pauliOp_mat_comm _ _ _ (loopStr_hasLen hf) op (fun e he => ⟨(h3 e he).2.1, (h3 e he).2.2 x y hf⟩)

/-- **the encoded operator is the Derby–Klassen image of the fermionic operator**: its matrix is, term by term,
`Σᵢ cᵢᵢ (1 − Vᵢ)/2 + Σ_{i<j} c_ij (i/2)(E_ij V_j − E_ij V_i)` (`termMat`; `Vm i`, `Em i j` are the matrices of the vertex /
edge strings of the fermionic sites `i`, `j` in C order). Together with the relations above this is the complete list of
hypotheses of the cited theorem. -/
theorem C13_encoded_matrix_formula (inp : Input) (op : PauliOp GQ) (n : ℕ) (hs : encode inp = .ok (op, n)) :
    ∃ n0 n1, inp.shape = [n0, n1] ∧ n = ofcNsites n0 n1 ∧
      PauliOp.mat GQ.toC (ofcNsites n0 n1) op = (inp.terms.map fun t => termMat n0 n1 t.coeffs).sum ∧
      (∀ c, termMat n0 n1 c =
        ((List.range (n0 * n1)).map fun i => ((cget c i i : ℚ) : ℂ) • ((1 / 2 : ℂ) • (1 - Vm n0 n1 i))).sum +
        ((pairs (n0 * n1)).map fun ij => ((cget c ij.1 ij.2 : ℚ) : ℂ) •
          ((I / 2) • (Em n0 n1 ij.1 ij.2 * Vm n0 n1 ij.2 - Em n0 n1 ij.1 ij.2 * Vm n0 n1 ij.1))).sum) ∧
      (∀ i j, (i, j) ∈ pairs (n0 * n1) ↔ i < j ∧ j < n0 * n1) := by
  obtain ⟨n0, n1, h1, h2, h3⟩ := encode_mat inp op n hs
  exact ⟨n0, n1, h1, h2, h3, fun _ => rfl, mem_pairs _⟩

/-- **the encoder accepts exactly the admissible inputs** (so the theorems above are not vacuous): one fermionic field on an
open two-dimensional integer lattice, every term of creation–annihilation type with float64 coefficients that pass
`np.allclose(c, c.T)` and whose non-zero upper-triangle entries connect nearest neighbours; an exactly symmetric matrix
passes the closeness test, and "nearest neighbours" (`IntegerLattice.adjacency_matrix`, C14) are exactly the edges of
the rectangle. -/
theorem C13_encode_accepts_iff (inp : Input) (n0 n1 : ℕ) :
    ((∃ op, encode inp = .ok (op, ofcNsites n0 n1) ∧ inp.shape = [n0, n1]) ↔ Admissible inp n0 n1) ∧
    (∀ c : List (List Rat), (∀ i j, i < n0 * n1 → j < n0 * n1 → cget c i j = cget c j i) → allcloseT (n0 * n1) c = true) ∧
    (∀ i j, i < n0 * n1 → j < n0 * n1 →
      (gridAdj [n0, n1] [false, false] i j = true ↔ EdgeOk n0 n1 (i / n1) (i % n1) (j / n1) (j % n1))) :=
  ⟨encode_ok_iff inp n0 n1, allcloseT_of_symm (n0 * n1), fun _ _ hi hj => ⟨gridAdj_edgeOk, edgeOk_gridAdj hi hj⟩⟩

/-- what the encoder inserts: `V_i` with a real weight, the identity with a real weight, `E_ij V_j` and `E_ij V_i` with
imaginary weights — each such weighted string is Hermitian and commutes with every loop product -/
theorem C13_inserted_terms (n0 n1 : ℕ) (r : Rat) :
    (∀ x y, x < n0 → y < n1 → Good n0 n1 (vertexStr n0 n1 x y, realW r)) ∧
    Good n0 n1 (PS.identity (ofcNsites n0 n1), realW r) ∧
    (∀ ix iy jx jy, EdgeOk n0 n1 ix iy jx jy →
      Good n0 n1 ((edgeStr n0 n1 ix iy jx jy).mul (vertexStr n0 n1 jx jy), imagW r) ∧
      Good n0 n1 ((edgeStr n0 n1 ix iy jx jy).mul (vertexStr n0 n1 ix iy), imagW r)) :=
  ⟨fun x y hx hy => good_vertex n0 n1 x y hx hy r, good_identity n0 n1 r,
    fun _ _ _ _ h => ⟨good_edge_vertex _ _ _ _ _ _ _ _ h h.2.2.1 h.2.2.2.1 (Or.inr ⟨rfl, rfl⟩) r,
      good_edge_vertex _ _ _ _ _ _ _ _ h h.1 h.2.1 (Or.inl ⟨rfl, rfl⟩) r⟩⟩

/-! ### non-vacuity and samples (tests, not proofs of the property) -/

example : EdgeOk 3 3 0 0 0 1 ∧ EdgeOk 3 3 2 1 1 1 ∧ ¬ EdgeOk 3 3 2 2 2 3 ∧ ¬ EdgeOk 3 3 0 0 1 1 := by decide
example : FaceOK 3 3 1 1 ∧ FaceIn 3 3 0 1 ∧ ¬ FaceOK 3 3 0 1 ∧ ¬ FaceIn 3 3 2 0 := by decide
example : ShareOne 0 0 0 1 0 1 1 1 ∧ ¬ ShareOne 0 0 0 1 0 1 0 0 ∧ ¬ ShareOne 0 0 0 1 1 0 1 1 := by decide
/-- `E_(0,0)(0,1) = −Y₀X₁Y₉` on the 3×3 lattice (11 qubits), as the code prints it -/
example : (edgeStr 3 3 0 0 0 1).toChars = "-YXIIIIIIIYI".toList := by decide
/-- the loop product of the plain face (0,1) of the 3×3 lattice: `Z` on the four corners, `X`, `Y` on the two neighbouring
auxiliary qubits; of the auxiliary face (1,1): the identity -/
example : (loopStr 3 3 0 1).toChars = "IZZIZZIIIXY".toList ∧ loopStr 3 3 1 1 = PS.identity 11 := by decide
example : edgeOp 3 3 (0, 0) (0, 1) = .ok (edgeStr 3 3 0 0 0 1) ∧ edgeOp 3 3 (0, 0) (1, 1) = .error .assertion ∧
    edgeOp 3 3 (2, 2) (2, 3) = .error .valueError ∧ edgeFace 3 3 (0, 1) (0, 2) = .ok none := by decide
/-- a 1×2 chain: `H = ½(1−Z₀)·½ + …`, five weighted strings, register of 2 qubits -/
example : (encode ⟨1, true, true, [1, 2], [false, false], [⟨true, true, [[1 / 2, 3 / 4], [3 / 4, -1]]⟩]⟩).map
    (fun r => (r.1.length, r.2)) = .ok (5, 2) := by decide +kernel
example : (encode ⟨1, true, true, [2, 2], [true, false], []⟩).map (fun r => r.2) = .error .runtimeError ∧
    (encode ⟨1, true, true, [2, 2], [false, false], [⟨true, false, []⟩]⟩).map (fun r => r.2) = .error .valueError := by
  decide

end Qib.Compact
