import QibProofs.Lemmas.GateNetSem
import QibProofs.Lemmas.GateNetConsWF
import QibProofs.Lemmas.GateNetGQ
import Mathlib.Analysis.Complex.Exponential
/-!
C06 — A gate's tensor network is its matrix, one axis pair per wire. Property theorems only
(helper lemmas: `QibProofs/Lemmas/GateNet*.lean`).

Model: `QibModel/GateNet.lean` — `gateNet : G α → Except GErr (TN α)` is `Gate.as_tensornet()` for every class of
`gates.py`, `G.mat` is `as_matrix()`, `G.wires` is `num_wires`; `full net D idx` (Core C, `QibModel/TNet.lean`) is
the defining sum of a network with shared open legs expanded to Kronecker deltas, i.e. what
`to_full_tensor(*contract_einsum())` computes (C07). `tn.D` reads the network's own data arrays.

A multi-index over the `2·wires` open axes is `o ++ i` (outputs first, then inputs, each in particle order, first
particle = most significant bit): `bitsVal o` is the row and `bitsVal i` the column of the reshaped matrix.

All statements hold over any commutative semiring `α` — in particular over ℂ and over the Gaussian rationals the
driver computes with.
-/
set_option linter.unusedSimpArgs false
set_option linter.unusedVariables false
namespace Qib.C06
open Qib.TNet Qib.GateNet

variable {α : Type} [CommSemiring α]

/-! ### the three claims of the property as predicates on a gate description -/

/-- the network contracts (shared control axes expanded) to the gate's matrix reshaped to one axis per wire,
outputs first, then inputs, in particle order -/
def Denotes (g : G α) : Prop :=
  ∀ tn, gateNet g = .ok tn → ∀ o i : List Nat, o.length = g.wires → i.length = g.wires → Bits o → Bits i →
    full tn.net tn.D (o ++ i) = g.mat (bitsVal o) (bitsVal i)

/-- exactly two open axes per wire, every one of dimension 2 -/
def TwoAxesPerWire (g : G α) : Prop :=
  ∀ tn, gateNet g = .ok tn → numOpenAxes tn.net = .ok (2 * g.wires) ∧ netShape tn.net = .ok (rep2 (2 * g.wires))

/-! ### which gates offer a tensor-network form -/

/-- `as_tensornet` succeeds except for block encodings (`NotImplementedError`), a controlled gate without any control
after flattening (`IndexError` at `ctrl_state[0]`), a phase gate on zero wires (`ZeroDivisionError`) and a multiplexer
whose targets do not all have the same width / whose target count is not `2^nc` (`ValueError`) -/
theorem C06_offers_network (g : G α) :
    (∃ tn, gateNet g = .ok tn) ↔
      match g with
      | .block _ _ => False
      | .phase n _ _ => n ≠ 0
      | .controlled cs t => (flattenCtrl cs t).1 ≠ []
      | .multiplexed nc ts => ts.length = 2 ^ nc ∧ allEq (wiresList ts) = true
      | _ => True := by
  cases g with
  | leaf w m => simp [gateNet]
  | dense w m => simp [gateNet]
  | phase n u un =>
    by_cases h : n = 0
    · simp [gateNet, h]
    · simp [gateNet, h]
  | prepare n x m tr => simp [gateNet]
  | block w m => simp [gateNet]
  | controlled cs t =>
    simp only [gateNet]
    rcases hf : flattenCtrl cs t with ⟨cs', t'⟩
    cases cs' <;> simp
  | multiplexed nc ts =>
    simp only [gateNet]
    by_cases h1 : ts.length = 2 ^ nc
    · by_cases h2 : allEq (wiresList ts) = true
      · simp [h1, h2]
      · simp [h1, h2]
    · simp [h1]

/-! ### wrapped gates -/

/-- one-qubit elementary gates (`wrap(as_matrix())`, classes Identity … T†): the network is the 2×2 matrix -/
theorem C06_leaf_denotes (m : Nat → Nat → α) : Denotes (G.leaf 1 m) := by
  intro tn h o i ho hi bo bi
  simp only [gateNet, Except.ok.injEq] at h
  subst h
  simp only [G.wires] at ho hi
  obtain ⟨a, rfl⟩ := List.length_eq_one_iff.mp ho
  obtain ⟨b, rfl⟩ := List.length_eq_one_iff.mp hi
  have ha : a < 2 := bo a List.mem_cons_self
  have hb : b < 2 := bi b List.mem_cons_self
  simp only [wrapTN, G.mat, bitsVal_singleton]
  rw [wrap_full _ _ _ (by simp), show ([a] ++ [b] : List Nat) = [a, b] from rfl]
  rw [D0_of_head _ [2 ^ 1, 2 ^ 1] (leafSem m) [] rfl _
    (List.Forall₂.cons (by simpa using ha) (List.Forall₂.cons (by simpa using hb) List.Forall₂.nil))]
  rfl

/-- `GeneralGate`, `TimeEvolutionGate` (matrix reshaped to `2·w` axes, then wrapped), every width -/
theorem C06_dense_denotes (w : Nat) (m : Nat → Nat → α) : Denotes (G.dense w m) := by
  intro tn h o i ho hi bo bi
  simp only [gateNet, Except.ok.injEq] at h
  subst h
  simp only [G.wires] at ho hi
  simp only [wrapTN, G.mat]
  rw [wrap_full _ _ _ (by simp [rep2, ho, hi]; omega)]
  rw [D0_of_head _ (rep2 (2 * w)) (denseSem w m) [] rfl _ (forall2_rep2' _ _ (by simp [ho, hi]; omega) (bo.append bi))]
  simp only [denseSem]
  rw [← ho, List.take_left', List.drop_left'] <;> rfl

/-! ### phase-factor gate: a chain of `n` diagonal tensors -/

/-- `PhaseFactorGate(φ, n)` for every `n ≥ 1`: the network has entries `un` per wire, the matrix `u` on the diagonal;
they agree as soon as `unⁿ = u` (for `u = e^{iφ}`, `un = e^{iφ/n}` see `C06_phase_complex`) -/
theorem C06_phase_denotes (n : Nat) (u un : α) (hpow : un ^ n = u) : Denotes (G.phase n u un) := by
  intro tn h o i ho hi bo bi
  simp only [gateNet] at h
  split at h
  · cases h
  · simp only [Except.ok.injEq] at h
    subst h
    simp only [G.wires] at ho hi
    simp only [G.mat]
    rw [phase_full n _ o i ho hi]
    rw [phase_prod un _ (fun a b ha hb => D0_of_head _ [2, 2] (phaseSem un) [] rfl _
      (List.Forall₂.cons ha (List.Forall₂.cons hb List.Forall₂.nil))) o i (by omega) bo bi]
    have e : bitsVal o = bitsVal i ↔ o = i := ⟨bitsVal_inj o i (by omega) bo bi, fun h => by rw [h]⟩
    simp only [e, ho, hpow]

/-- over ℂ with the values the code uses: `e^{iφ/n}` per wire against `e^{iφ}` -/
theorem C06_phase_complex (n : Nat) (hn : n ≠ 0) (φ : ℝ) :
    Denotes (G.phase n (Complex.exp (Complex.I * φ)) (Complex.exp (Complex.I * φ / n))) := by
  apply C06_phase_denotes
  rw [← Complex.exp_nat_mul]
  congr 1
  have : (n : ℂ) ≠ 0 := by exact_mod_cast hn
  field_simp

/-! ### multiplexed gate: every number of controls, every target width -/

theorem C06_multiplexed_denotes (nc : Nat) (ts : List (G α)) : Denotes (G.multiplexed nc ts) := by
  intro tn h o i ho hi bo bi
  simp only [gateNet] at h
  split at h
  · cases h
  · split at h
    · cases h
    · simp only [Except.ok.injEq] at h
      subst h
      simp only [G.wires] at ho hi
      simp only [G.mat]
      -- split the multi-indices into control part and target part
      obtain ⟨oc, ot, rfl, h1, h2⟩ : ∃ oc ot, o = oc ++ ot ∧ oc.length = nc ∧ ot.length = wiresHead ts :=
        ⟨o.take nc, o.drop nc, (List.take_append_drop nc o).symm, by simp [ho], by simp [ho]⟩
      obtain ⟨ic, it, rfl, h3, h4⟩ : ∃ ic it, i = ic ++ it ∧ ic.length = nc ∧ it.length = wiresHead ts :=
        ⟨i.take nc, i.drop nc, (List.take_append_drop nc i).symm, by simp [hi], by simp [hi]⟩
      rw [mplx_full nc (wiresHead ts) _ oc ot ic it h1 h2 h3 h4,
        blockDiag_bits (wiresHead ts) (matList ts) oc ot ic it (by omega) h2 h4 bo.left bo.right bi.left bi.right]
      by_cases hc : oc = ic
      · rw [if_pos hc, if_pos hc]
        rw [D0_of_head _ (rep2 (nc + 2 * wiresHead ts)) (mtgSem nc (wiresHead ts) (matList ts)) [] rfl _
          (forall2_rep2' _ _ (by simp [h1, h2, h4]; omega) (bo.left.append (bo.right.append bi.right)))]
        exact mtgSem_bits nc (wiresHead ts) (matList ts) oc ot it h1 h2
      · rw [if_neg hc, if_neg hc]

/-! ### controlled gates: every number of controls ≥ 1, every control pattern, nested to any depth -/

/-- **controlled gates.** For every control pattern (including leading negated controls, handled in the code by a
Pauli-X sandwich), every number of controls, every target gate and every nesting of controlled gates (which the
code flattens first): whenever the network exists (at least one control in total) it denotes the matrix
`kron(diag(1 - e_ic), 1) + kron(diag(e_ic), U)`. The proof is an induction along the chain of wire-crossing tensors:
the vertical bond leaving position `j` carries the conjunction of the control conditions of positions `0..j`. -/
theorem C06_controlled_denotes (cs : List Bool) (t : G α) : Denotes (G.controlled cs t) := by
  intro tn h o i ho hi bo bi
  obtain ⟨hw, hmat⟩ := flatten_spec cs t
  simp only [gateNet] at h
  rcases hf : flattenCtrl cs t with ⟨cs', t'⟩
  rw [hf] at h hw hmat
  cases cs' with
  | nil => cases h
  | cons c0 rest =>
    simp only [Except.ok.injEq] at h
    subst h
    simp only [G.wires] at ho hi
    simp only [List.length_cons] at hw
    simp only [G.mat]
    rw [← hmat]
    obtain ⟨oc, ot, rfl, h1, h2⟩ : ∃ oc ot, o = oc ++ ot ∧ oc.length = rest.length + 1 ∧ ot.length = t'.wires :=
      ⟨o.take (rest.length + 1), o.drop (rest.length + 1), (List.take_append_drop _ o).symm, by simp [ho]; omega, by simp [ho]; omega⟩
    obtain ⟨ic, it, rfl, h3, h4⟩ : ∃ ic it, i = ic ++ it ∧ ic.length = rest.length + 1 ∧ it.length = t'.wires :=
      ⟨i.take (rest.length + 1), i.drop (rest.length + 1), (List.take_append_drop _ i).symm, by simp [hi]; omega, by simp [hi]; omega⟩
    exact ctrlTN_full c0 rest t'.wires t'.mat oc ot ic it h1 h2 h3 h4 bo.left bo.right bi.left bi.right

/-- what the matrix on the right-hand side is: the target on the block selected by the control pattern read
most-significant control first, the identity on the other blocks, nothing between different control values -/
theorem C06_controlled_matrix_entries (cs : List Bool) (t : G α) (oc ot ic it : List Nat)
    (h1 : oc.length = cs.length) (h2 : ot.length = t.wires) (h3 : ic.length = cs.length) (h4 : it.length = t.wires)
    (b1 : Bits oc) (b2 : Bits ot) (b3 : Bits ic) (b4 : Bits it) :
    (G.controlled cs t).mat (bitsVal (oc ++ ot)) (bitsVal (ic ++ it)) =
      if oc = ic then (if oc = cs.map bit then t.mat (bitsVal ot) (bitsVal it) else (if bitsVal ot = bitsVal it then 1 else 0))
      else 0 := by
  simp only [G.mat]
  exact ctrlMat_bits cs t.wires t.mat oc ot ic it h1 h2 h3 h4 b1 b2 b3 b4

/-! ### state preparation: the documented exception -/

/-- `PrepareGate`: the network is the rank-one map `|x⟩⟨0…0|` (its transpose `|0…0⟩⟨x|` for `transpose=True`) -/
theorem C06_prepare_rankOne (n : Nat) (x : Nat → α) (m : Nat → Nat → α) (tr : Bool) (tn : TN α)
    (h : gateNet (G.prepare n x m tr) = .ok tn) (o i : List Nat) (ho : o.length = n) (hi : i.length = n)
    (bo : Bits o) (bi : Bits i) :
    full tn.net tn.D (o ++ i) =
      if tr then (if o = List.replicate n 0 then x (bitsVal i) else 0)
      else (if i = List.replicate n 0 then x (bitsVal o) else 0) := by
  simp only [gateNet, Except.ok.injEq] at h
  subst h
  rw [prepare_full n tr _ o i ho hi]
  have hk : ∀ v, v < 2 → (⟨prepareNet n tr, [(0, DT.ofFn (rep2 n) (fun idx => x (bitsVal idx))), (4, DT.ofFn [2] ket0Sem)]⟩ : TN α).D
      (some 4) [v] = ket0Sem [v] := by
    intro v hv
    rw [TN.D_of_lookup _ 4 (DT.ofFn [2] ket0Sem) (by simp [List.lookup]), DT.get_ofFn _ _ _ (List.Forall₂.cons hv List.Forall₂.nil)]
  cases tr
  · simp only [Bool.false_eq_true, if_false]
    rw [ket_prod _ hk i bi, D0_of_head _ (rep2 n) (fun idx => x (bitsVal idx)) _ rfl o (forall2_rep2' o n ho bo), hi]
    split <;> simp
  · simp only [if_true]
    rw [ket_prod _ hk o bo, D0_of_head _ (rep2 n) (fun idx => x (bitsVal idx)) _ rfl i (forall2_rep2' i n hi bi), ho]
    split <;> simp

/-- … and it agrees with the gate on the all-zero input: if the first column of `as_matrix()` is `x`
(`C02_prepare_firstColumn`; first row for `transpose=True`), network and matrix coincide on `|0…0⟩` -/
theorem C06_prepare_agrees_on_zero (n : Nat) (x : Nat → α) (m : Nat → Nat → α) (tr : Bool) (tn : TN α)
    (h : gateNet (G.prepare n x m tr) = .ok tn) (k : List Nat) (hk : k.length = n) (bk : Bits k)
    (hcol : ∀ r, if tr then m 0 r = x r else m r 0 = x r) :
    if tr then full tn.net tn.D (List.replicate n 0 ++ k) = (G.prepare n x m tr).mat 0 (bitsVal k)
    else full tn.net tn.D (k ++ List.replicate n 0) = (G.prepare n x m tr).mat (bitsVal k) 0 := by
  cases tr
  · simp only [Bool.false_eq_true, if_false] at hcol ⊢
    rw [C06_prepare_rankOne n x m false tn h k (List.replicate n 0) hk (by simp) bk (bits_replicate_zero n)]
    simp [G.mat, hcol]
  · simp only [if_true] at hcol ⊢
    rw [C06_prepare_rankOne n x m true tn h (List.replicate n 0) k (by simp) hk (bits_replicate_zero n) bk]
    simp [G.mat, hcol]

/-! ### internal consistency -/

/-- **every gate network passes `is_consistent`** (tensor ids and bond ids are keys of their dictionaries, every leg's
bond exists and refers back with the right multiplicity, every bond finds its axes, all axes on a bond have one
dimension, the virtual tensor exists) — for all gates, all numbers of controls, all patterns, all widths. Proved
through the declarative predicate `WF` of Core C and its bridge `consistent_of_wf` to the executable check. -/
theorem C06_gateNet_consistent (g : G α) (tn : TN α) (h : gateNet g = .ok tn) : isConsistent tn.net = .ok true := by
  apply consistent_of_wf
  cases g with
  | leaf w m => simp only [gateNet, Except.ok.injEq] at h; subst h; exact wrap_wf _
  | dense w m => simp only [gateNet, Except.ok.injEq] at h; subst h; exact wrap_wf _
  | phase n u un =>
    simp only [gateNet] at h
    split at h
    · cases h
    · simp only [Except.ok.injEq] at h; subst h; exact phase_wf n
  | prepare n x m tr => simp only [gateNet, Except.ok.injEq] at h; subst h; exact prepare_wf n tr
  | block w m => simp [gateNet] at h
  | controlled cs t =>
    simp only [gateNet] at h
    rcases hf : flattenCtrl cs t with ⟨cs', t'⟩
    rw [hf] at h
    cases cs' with
    | nil => cases h
    | cons c0 rest => simp only [Except.ok.injEq] at h; subst h; exact ctrl_wf c0 rest t'.wires
  | multiplexed nc ts =>
    simp only [gateNet] at h
    split at h
    · cases h
    · split at h
      · cases h
      · simp only [Except.ok.injEq] at h; subst h; exact mplx_wf nc _

/-- … and `TensorNetwork.is_consistent` (with the data dictionary): every real tensor's data reference is present
and the stored array has the tensor's shape -/
theorem C06_gateNet_consistent_data (g : G α) (tn : TN α) (h : gateNet g = .ok tn) : isConsistentData tn = .ok true := by
  have hc := C06_gateNet_consistent g tn h
  simp only [isConsistentData, hc, bind, Except.bind, Bool.not_true, Bool.false_eq_true, if_false, pure, Except.pure,
    Except.ok.injEq, List.all_eq_true]
  cases g with
  | leaf w m =>
    simp only [gateNet, Except.ok.injEq] at h; subst h
    intro e he; simp only [wrapTN, wrapNet, List.mem_cons, List.not_mem_nil, or_false] at he
    rcases he with rfl | rfl <;> simp [wrapTN, List.lookup, DT.ofFn]
  | dense w m =>
    simp only [gateNet, Except.ok.injEq] at h; subst h
    intro e he; simp only [wrapTN, wrapNet, List.mem_cons, List.not_mem_nil, or_false] at he
    rcases he with rfl | rfl <;> simp [wrapTN, List.lookup, DT.ofFn]
  | phase n u un =>
    simp only [gateNet] at h
    split at h
    · cases h
    · simp only [Except.ok.injEq] at h; subst h
      intro e he; simp only [phaseNet, List.mem_append, List.mem_map, List.mem_range, List.mem_singleton] at he
      rcases he with ⟨i, _, rfl⟩ | rfl <;> simp [List.lookup, DT.ofFn]
  | prepare n x m tr =>
    simp only [gateNet, Except.ok.injEq] at h; subst h
    intro e he
    simp only [prepareNet, List.mem_append, List.mem_map, List.mem_range, List.mem_singleton, List.mem_cons, List.not_mem_nil,
      or_false] at he
    rcases he with (rfl | ⟨i, _, rfl⟩) | rfl <;> simp [List.lookup, DT.ofFn]
  | block w m => simp [gateNet] at h
  | controlled cs t =>
    simp only [gateNet] at h
    rcases hf : flattenCtrl cs t with ⟨cs', t'⟩
    rw [hf] at h
    cases cs' with
    | nil => cases h
    | cons c0 rest =>
      simp only [Except.ok.injEq] at h; subst h
      intro e he
      simp only [ctrlTN, ctrlNet, List.mem_append, List.mem_cons, List.not_mem_nil, or_false] at he
      rcases he with ((rfl | rfl) | he) | he
      · simp [ctrlTN, List.lookup, DT.ofFn]
      · simp
      · cases c0
        · simp only [Bool.not_false, if_true, List.mem_cons, List.not_mem_nil, or_false] at he
          rcases he with rfl | rfl <;> simp [ctrlTN, List.lookup, DT.ofFn]
        · simp at he
      · obtain ⟨h1, h2, c, hc', h3⟩ := crossTensors_dataref _ _ _ _ e he
        have hmem : (if c then (3 : Int) else 2) ∈ crossRefs rest := by
          simp only [crossRefs, List.mem_eraseDups, List.mem_map]; exact ⟨c, hc', rfl⟩
        have hl : (ctrlTN c0 rest t'.wires t'.mat).data.lookup (if c then (3 : Int) else 2) =
            some (DT.ofFn [2, 2, 2, 2] (ctrlSem t'.wires t'.mat (if c then 3 else 2))) := by
          simp only [ctrlTN, List.cons_append, List.nil_append, List.lookup]
          have h0 : ((if c then (3 : Int) else 2) == 0) = false := by cases c <;> decide
          have h1 : ((if c then (3 : Int) else 2) == 1) = false := by cases c <;> decide
          rw [h0]
          cases c0
          · simp only [Bool.not_false, if_true, List.cons_append, List.nil_append, List.lookup, h1]
            exact lookup_map_self _ _ _ hmem
          · simp only [Bool.not_true, Bool.false_eq_true, if_false, List.nil_append]
            exact lookup_map_self _ _ _ hmem
        have hne : (e.2.tid == -1) = false := by simpa using h1
        rw [hne, h3, Bool.false_or]
        simp only [hl, h2]
        simp [DT.ofFn]
  | multiplexed nc ts =>
    simp only [gateNet] at h
    split at h
    · cases h
    · split at h
      · cases h
      · simp only [Except.ok.injEq] at h; subst h
        intro e he; simp only [multiplexedNet, List.mem_cons, List.not_mem_nil, or_false] at he
        rcases he with rfl | rfl <;> simp [List.lookup, DT.ofFn]

/-! ### two open axes per wire -/

/-- every network except the two-qubit wraps exposes `2·num_wires` open axes of dimension 2 -/
theorem C06_twoAxesPerWire_partial (g : G α) (hleaf : ∀ w m, g = G.leaf w m → w = 1) : TwoAxesPerWire g := by
  intro tn h
  cases g with
  | leaf w m =>
    have := hleaf w m rfl
    subst this
    simp only [gateNet, Except.ok.injEq] at h
    subst h
    have := numOpen_of_virt _ _ (wrap_virt [2 ^ 1, 2 ^ 1])
    simpa [wrapTN, G.wires, rep2] using this
  | dense w m =>
    simp only [gateNet, Except.ok.injEq] at h
    subst h
    have := numOpen_of_virt _ _ (wrap_virt (rep2 (2 * w)))
    simpa [wrapTN, G.wires, rep2] using this
  | phase n u un =>
    simp only [gateNet] at h
    split at h
    · cases h
    · simp only [Except.ok.injEq] at h
      subst h
      have := numOpen_of_virt _ _ (phase_virt n)
      simpa [G.wires, rep2] using this
  | prepare n x m tr =>
    simp only [gateNet, Except.ok.injEq] at h
    subst h
    have := numOpen_of_virt _ _ (prepare_virt n tr)
    simpa [G.wires, rep2] using this
  | block w m => simp [gateNet] at h
  | controlled cs t =>
    obtain ⟨hw, _⟩ := flatten_spec cs t
    simp only [gateNet] at h
    rcases hf : flattenCtrl cs t with ⟨cs', t'⟩
    rw [hf] at h hw
    cases cs' with
    | nil => cases h
    | cons c0 rest =>
      simp only [Except.ok.injEq] at h
      subst h
      have := numOpen_of_virt _ _ (ctrl_virt c0 rest t'.wires)
      simp only [List.length_cons] at hw
      have e : rest.length + 1 + t'.wires = t.wires + cs.length := by omega
      simpa [ctrlTN, G.wires, rep2, e] using this
  | multiplexed nc ts =>
    simp only [gateNet] at h
    split at h
    · cases h
    · split at h
      · cases h
      · simp only [Except.ok.injEq] at h
        subst h
        have := numOpen_of_virt _ _ (mplx_virt nc (wiresHead ts))
        have e : nc + wiresHead ts = wiresHead ts + nc := by omega
        simpa [G.wires, rep2, e] using this

/-! ### the known finding: two-qubit elementary gates wrap the 4×4 matrix

FULL STATEMENT (violated by the code, see `known_findings.json`, keys `C06:open-axes:two-qubit-wrap:*`):
`∀ g, TwoAxesPerWire g ∧ (g not a preparation gate → Denotes g)`.
`RxxGate`, `RyyGate`, `RzzGate`, `ISwapGate` are exactly the classes described by `G.leaf 2 m` (`wrap(as_matrix())`
with `num_wires = 2`); `C06_twoAxesPerWire_partial` / `C06_gateNet_denotes_partial` exclude exactly them. -/

/-- negation of the property on the witness: the network of a two-qubit wrap has 2 open axes of dimension 4, not
`2·num_wires = 4` axes of dimension 2 – for every matrix `m` (in particular those of Rxx, Ryy, Rzz, iSWAP) -/
theorem C06_known_twoQubitWrap_violates (m : Nat → Nat → α) : ¬ TwoAxesPerWire (G.leaf 2 m) := by
  intro h
  have := (h _ rfl).1
  simp [wrapTN, numOpenAxes, virt, wrapNet, dget, List.lookup, G.wires] at this

theorem C06_known_twoQubitWrap_shape (m : Nat → Nat → α) :
    ∃ tn, gateNet (G.leaf 2 m) = .ok tn ∧ numOpenAxes tn.net = .ok 2 ∧ netShape tn.net = .ok [4, 4] ∧
      ∀ r c, r < 4 → c < 4 → full tn.net tn.D [r, c] = m r c := by
  refine ⟨_, rfl, ?_, ?_, ?_⟩
  · simp [wrapTN, numOpenAxes, virt, wrapNet, dget, List.lookup]
  · simp [wrapTN, netShape, virt, wrapNet, dget, List.lookup]
  · intro r c hr hc
    simp only [wrapTN]
    rw [wrap_full _ _ _ (by simp)]
    rw [D0_of_head _ [2 ^ 2, 2 ^ 2] (leafSem m) [] rfl _
      (List.Forall₂.cons (by simpa using hr) (List.Forall₂.cons (by simpa using hc) List.Forall₂.nil))]
    rfl

/-! ### denotation of all gates -/

/-- **every gate that offers a network, except the two-qubit wraps and the preparation gate, contracts to its
matrix** (phase gates under `unⁿ = u`, which holds for the values the code uses: `C06_phase_complex`) -/
theorem C06_gateNet_denotes_partial (g : G α) (hleaf : ∀ w m, g = G.leaf w m → w = 1)
    (hprep : ∀ n x m tr, g ≠ G.prepare n x m tr) (hphase : ∀ n u un, g = G.phase n u un → un ^ n = u) : Denotes g := by
  cases g with
  | leaf w m => have := hleaf w m rfl; subst this; exact C06_leaf_denotes m
  | dense w m => exact C06_dense_denotes w m
  | phase n u un => exact C06_phase_denotes n u un (hphase n u un rfl)
  | prepare n x m tr => exact absurd rfl (hprep n x m tr)
  | block w m => intro tn h; simp [gateNet] at h
  | controlled cs t => exact C06_controlled_denotes cs t
  | multiplexed nc ts => exact C06_multiplexed_denotes nc ts

/-! ### all gates together -/

/-- **the property, for every gate except the known two-qubit wraps.** Whenever `as_tensornet` returns a network `tn`
for a gate `g` that is not one of the four two-qubit elementary classes:
(1) `tn` is internally consistent (also as a `TensorNetwork`, with its data);
(2) it exposes exactly `2·num_wires` open axes, all of dimension 2;
(3) unless `g` is a preparation gate, contracting it at outputs `o`, inputs `i` (particle order) gives the matrix entry
    `as_matrix()[bitsVal o, bitsVal i]` (phase gates under `unⁿ = u`);
(4) if `g` is a preparation gate, the network is the rank-one map `|x⟩⟨0…0|` resp. its transpose. -/
theorem C06_gate_network_partial (g : G α) (hleaf : ∀ w m, g = G.leaf w m → w = 1)
    (hphase : ∀ n u un, g = G.phase n u un → un ^ n = u) (tn : TN α) (h : gateNet g = .ok tn) :
    isConsistent tn.net = .ok true ∧ isConsistentData tn = .ok true ∧
    numOpenAxes tn.net = .ok (2 * g.wires) ∧ netShape tn.net = .ok (rep2 (2 * g.wires)) ∧
    ∀ o i : List Nat, o.length = g.wires → i.length = g.wires → Bits o → Bits i →
      full tn.net tn.D (o ++ i) =
        match g with
        | .prepare n x _ tr =>
          if tr then (if o = List.replicate n 0 then x (bitsVal i) else 0)
          else (if i = List.replicate n 0 then x (bitsVal o) else 0)
        | _ => g.mat (bitsVal o) (bitsVal i) := by
  refine ⟨C06_gateNet_consistent g tn h, C06_gateNet_consistent_data g tn h,
    (C06_twoAxesPerWire_partial g hleaf tn h).1, (C06_twoAxesPerWire_partial g hleaf tn h).2, ?_⟩
  intro o i ho hi bo bi
  cases g with
  | prepare n x m tr => exact C06_prepare_rankOne n x m tr tn h o i ho hi bo bi
  | leaf w m => exact C06_gateNet_denotes_partial _ hleaf (by intro _ _ _ _ e; cases e) hphase tn h o i ho hi bo bi
  | dense w m => exact C06_gateNet_denotes_partial _ hleaf (by intro _ _ _ _ e; cases e) hphase tn h o i ho hi bo bi
  | phase n u un => exact C06_gateNet_denotes_partial _ hleaf (by intro _ _ _ _ e; cases e) hphase tn h o i ho hi bo bi
  | block w m => exact C06_gateNet_denotes_partial _ hleaf (by intro _ _ _ _ e; cases e) hphase tn h o i ho hi bo bi
  | controlled cs t => exact C06_gateNet_denotes_partial _ hleaf (by intro _ _ _ _ e; cases e) hphase tn h o i ho hi bo bi
  | multiplexed nc ts => exact C06_gateNet_denotes_partial _ hleaf (by intro _ _ _ _ e; cases e) hphase tn h o i ho hi bo bi

/-- the theorems are about what the driver executes: over the driver's Gaussian rationals the semiring operations used
in the statements are the driver's own `0`, `1`, `+`, `*` (`QibModel/GQ.lean`) -/
theorem C06_driver_scalars (g : G Qib.GQ) :
    @gateNet Qib.GQ Qib.GQ.instZero Qib.GQ.instOne g = gateNet g ∧
    @G.mat Qib.GQ Qib.GQ.instZero Qib.GQ.instOne g = g.mat ∧
    (∀ (net : Net) (D : Option Int → List Nat → Qib.GQ) (idx : List Nat),
      @full Qib.GQ Qib.GQ.instZero Qib.GQ.instOne Qib.GQ.instAdd Qib.GQ.instMul net D idx = full net D idx) :=
  ⟨rfl, rfl, fun _ _ _ => rfl⟩

/-! ### non-vacuity -/

/-- CNOT with a negated control on the first wire, over ℤ: the network exists, has four open axes and its
denotation at (output 0 1, input 0 0) is the matrix entry `X[1,0] = 1` on the active block `c = 0` -/
example : ∃ tn, gateNet (G.controlled [false] (G.leaf 1 (fun i j => if i = j then (0 : Int) else 1))) = .ok tn ∧
    numOpenAxes tn.net = .ok 4 ∧ full tn.net tn.D [0, 1, 0, 0] = 1 := by
  refine ⟨_, rfl, by decide, by decide⟩

example : bitsVal [0, 1, 1] = 3 ∧ ctrlIndex [true, false, false] = 4 := by decide

/-- a three-fold nested controlled gate is flattened to one pattern -/
example : (flattenCtrl [true] (G.controlled [false] (G.controlled [true, true] (G.leaf 1 (fun _ _ => (1 : Int)))))).1 =
    [true, false, true, true] := by rfl

end Qib.C06
