import QibProofs.Lemmas.GateTree
/-!
C02 (deepening) — control semantics of composite gates, proved about the definitions `drv_gate` executes.

`Properties/C02.lean` states what a controlled / multiplexed gate IS over an abstract product index (`blockOn`,
`blocks`) and, separately, that `ctrlIndex` reads the control pattern most-significant control first. Here the
two are joined on the executable model: the entries of `Tree.mat` of a `controlled` / `multiplexed` node
(`controlledMat` = `kron(diag(1-e), 1) + kron(diag(e), U)`, `blockDiag`) in flat row-major indices, for any number of
controls, any pattern, any (well-formed) target tree; and the statement that the arrays denote the abstract
combinators of `C02.lean` (so that everything proved there transfers). Property statements only.
-/
open Matrix Qib Qib.Mat Qib.Gate Qib.GateAlgebra Qib.GateFlat

namespace Qib.C02Tree

/-- **C02 (controlled gate)**: write a flat index as `c * 2^w + a` with `c` the value of the control wires (first
control = most significant bit) and `a` the index on the `w` target wires. Then the entry is the target's entry when both
control values equal the control pattern, the identity's entry when they are equal but different from the pattern,
and zero when the control values differ. Stated over the Gaussian rationals of the driver itself. -/
theorem C02_tree_controlled_entry (cs : List Bool) (t : Tree) (h : t.WF) (c c' a b : ℕ)
    (hc : c < 2 ^ cs.length) (hc' : c' < 2 ^ cs.length) (ha : a < 2 ^ t.wires) (hb : b < 2 ^ t.wires) :
    (Tree.controlled cs t).mat.get (c * 2 ^ t.wires + a) (c' * 2 ^ t.wires + b) =
      if c = c' then (if c = ofBitsMSB cs then t.mat.get a b else if a = b then 1 else 0) else 0 :=
  Tree.controlled_entry cs t h hc hc' ha hb

/-- the control pattern in the same statement as the code computes it (`ctrlIndex` = the loop of `as_matrix`) -/
theorem C02_tree_controlled_entry_ctrlIndex (cs : List Bool) (t : Tree) (h : t.WF) (c c' a b : ℕ)
    (hc : c < 2 ^ cs.length) (hc' : c' < 2 ^ cs.length) (ha : a < 2 ^ t.wires) (hb : b < 2 ^ t.wires) :
    (Tree.controlled cs t).mat.get (c * 2 ^ t.wires + a) (c' * 2 ^ t.wires + b) =
      if c = c' then (if c = ctrlIndex cs then t.mat.get a b else if a = b then 1 else 0) else 0 := by
  rw [ctrlIndex_msb]; exact Tree.controlled_entry cs t h hc hc' ha hb

/-- every flat index below `2 ^ (w + nc)` has the form `c * 2^w + a` (so the entry theorem covers the whole matrix) -/
theorem C02_tree_index_split (nc w i : ℕ) (hi : i < 2 ^ (w + nc)) :
    i = (i / 2 ^ w) * 2 ^ w + i % 2 ^ w ∧ i / 2 ^ w < 2 ^ nc ∧ i % 2 ^ w < 2 ^ w := by
  refine ⟨(Nat.div_add_mod' i (2 ^ w)).symm, ?_, Nat.mod_lt _ (Nat.pow_pos (by norm_num))⟩
  rw [Nat.div_lt_iff_lt_mul (Nat.pow_pos (by norm_num)), ← pow_add, Nat.add_comm]; exact hi

/-- **C02 (multiplexed gate)**: block `(k, k')` of the assembled matrix is the `k`-th target's matrix on the diagonal
and zero off the diagonal (`2 ^ nc` targets, control value most significant). -/
theorem C02_tree_multiplexed_entry (nc : ℕ) (ts : List Tree) (h : (Tree.multiplexed nc ts).WF) (k k' a b : ℕ)
    (hk : k < ts.length) (hk' : k' < ts.length) (ha : a < 2 ^ wiresHead ts) (hb : b < 2 ^ wiresHead ts) :
    (Tree.multiplexed nc ts).mat.get (k * 2 ^ wiresHead ts + a) (k' * 2 ^ wiresHead ts + b) =
      if k = k' then ts[k].mat.get a b else 0 :=
  Tree.multiplexed_entry nc ts h hk hk' ha hb

/-- the bridge to `C02.lean`: the array of a controlled node denotes `blockOn` at the control pattern (indices paired
row-major by `finProdFinEquiv`), hence `C02_controlled_apply`, `C02_controlled_mulVec`, … hold for it -/
theorem C02_tree_controlled_denotes (cs : List Bool) (t : Tree) (h : t.WF) :
    (Tree.controlled cs t).mat.toM (2 ^ cs.length * 2 ^ t.wires) (2 ^ cs.length * 2 ^ t.wires) =
      Matrix.reindex finProdFinEquiv finProdFinEquiv
        (blockOn (⟨ofBitsMSB cs, ofBitsMSB_lt cs⟩ : Fin (2 ^ cs.length)) (t.mat.toM (2 ^ t.wires) (2 ^ t.wires))) := by
  rw [mat_controlled]
  exact toM_controlledMat cs t.mat (t.mat_isSq h).n_eq (t.mat_isSq h).m_eq

/-- the bridge to `C02.lean` for multiplexers: the array denotes `blocks` of the targets' matrices -/
theorem C02_tree_multiplexed_denotes (nc : ℕ) (ts : List Tree) (h : (Tree.multiplexed nc ts).WF) :
    (Tree.multiplexed nc ts).mat.toM (2 ^ nc * 2 ^ wiresHead ts) (2 ^ nc * 2 ^ wiresHead ts) =
      Matrix.reindex finProdFinEquiv finProdFinEquiv
        (blocks fun k : Fin (2 ^ nc) => ((ts.map Tree.mat).getD k (Mat.one (2 ^ wiresHead ts))).toM (2 ^ wiresHead ts) (2 ^ wiresHead ts)) := by
  cases h with
  | multiplexed _ _ hlen hts hw =>
    rw [mat_multiplexed]
    refine toM_blockDiag' _ _ (by simpa using length_pos_of_pow hlen) ?_ (by simpa using hlen)
    intro V hV
    obtain ⟨t, ht, rfl⟩ := List.mem_map.mp hV
    rw [← hw t ht]; exact (t.mat_isSq (hts t ht)).n_eq

/-! ### non-vacuity / sanity on a concrete nested tree -/

/-- `ControlledGate(MultiplexedGate([X, S], 1), 2, ctrl_state=[1, 0])`: the pattern `[1, 0]` is control value `2` -/
example : ofBitsMSB [true, false] = 2 := by decide
/-- inside the pattern block (control value 2, rows/columns 8..11) the inner multiplexer appears: entry `(8, 9)` of the
16 × 16 matrix is entry `(0, 1)` of the multiplexer's first block, the `X` gate, i.e. `1` (the two entry theorems
instantiated; `hW` shows their hypotheses are satisfiable) -/
example : Example.tree1.mat.get 8 9 = 1 := by
  have hW : (Tree.multiplexed 1 [Example.leafX, Example.leafS]).WF := by
    cases Example.tree1_wf with | controlled _ _ ht => exact ht
  have h1 := Tree.controlled_entry [true, false] _ hW (c := 2) (c' := 2) (a := 0) (b := 1) (by decide) (by decide)
    (by simp [Example.leafX]) (by simp [Example.leafX])
  have h2 := Tree.multiplexed_entry 1 _ hW (k := 0) (k' := 0) (a := 0) (b := 1) (by decide) (by decide)
    (by simp [Example.leafX]) (by simp [Example.leafX])
  have hw : (Tree.multiplexed 1 [Example.leafX, Example.leafS]).wires = 2 := by simp [Example.leafX]
  have hh : wiresHead [Example.leafX, Example.leafS] = 1 := by simp [Example.leafX]
  have hb : ofBitsMSB [true, false] = 2 := by decide
  rw [hw, hb] at h1; rw [hh] at h2
  norm_num at h1 h2
  have e : Example.tree1.mat = controlledMat [true, false] (Gate.blockDiag [Example.leafX.mat, Example.leafS.mat]) := by
    simp [Example.tree1]
  rw [e, h1, h2]
  simp [Example.leafX, Example.X, Example.get_mk]

end Qib.C02Tree
