import QibProofs.Lemmas.GateBridge
import QibProofs.Lemmas.GateAlgebra
import QibProofs.Lemmas.Embed
import Mathlib.Tactic.NormNum
import Mathlib.Tactic.Positivity
/-!
C03 — inverse() really inverts (property theorems only; gate level).
`K.inv` is the matrix of what `K.inverse()` returns, regenerated from the Python source
(`return self` ↦ the same matrix, `RxGate(-self.theta, …)` ↦ `RxGate.mat (-θ)`, partner classes, the adjoint for
`GeneralGate(self.as_matrix().conj().T, …)`).  That the inverse is bound to the same particles in the same
roles is an object-level fact checked by the correspondence (`gate.inverse`), see DESIGN.md.
-/
open Matrix NormedSpace Complex QibGen QibRef Qib.GateAlgebra

namespace Qib.C03

macro "entries2" : tactic => `(tactic| (ext i j; fin_cases i <;> fin_cases j <;> simp [Matrix.mul_apply, Fin.sum_univ_two]))
macro "entries4" : tactic => `(tactic| (ext i j; fin_cases i <;> fin_cases j <;> simp [Matrix.mul_apply, Fin.sum_univ_four]))

private theorem sqrt2_facts : ((Real.sqrt 2 : ℝ) : ℂ) ^ 2 = 2 ∧ ((Real.sqrt 2 : ℝ) : ℂ) ≠ 0 := by
  have h2 : (Real.sqrt 2) ^ 2 = 2 := Real.sq_sqrt (by norm_num)
  have hpos : Real.sqrt 2 ≠ 0 := by positivity
  exact ⟨by exact_mod_cast h2, by exact_mod_cast hpos⟩

theorem C03_IdentityGate_inverse : IdentityGate.inv * IdentityGate.mat = 1 := by
  simp only [IdentityGate.inv, IdentityGate.mat]; entries2
theorem C03_PauliXGate_inverse : PauliXGate.inv * PauliXGate.mat = 1 := by
  simp only [PauliXGate.inv, PauliXGate.mat]; entries2
theorem C03_PauliYGate_inverse : PauliYGate.inv * PauliYGate.mat = 1 := by
  simp only [PauliYGate.inv, PauliYGate.mat]; entries2
theorem C03_PauliZGate_inverse : PauliZGate.inv * PauliZGate.mat = 1 := by
  simp only [PauliZGate.inv, PauliZGate.mat]; entries2
theorem C03_SGate_inverse : SGate.inv * SGate.mat = 1 := by
  simp only [SGate.inv, SGate.mat, SAdjGate.mat]; entries2
theorem C03_SAdjGate_inverse : SAdjGate.inv * SAdjGate.mat = 1 := by
  simp only [SAdjGate.inv, SGate.mat, SAdjGate.mat]; entries2
theorem C03_ISwapGate_inverse : ISwapGate.inv * ISwapGate.mat = 1 := by
  simp only [ISwapGate.inv, ISwapGate.mat]; entries4

theorem C03_HadamardGate_inverse : HadamardGate.inv * HadamardGate.mat = 1 := by
  simp only [HadamardGate.inv, HadamardGate.mat]
  obtain ⟨h', hr⟩ := sqrt2_facts
  generalize Real.sqrt 2 = r at *
  ext i j; fin_cases i <;> fin_cases j <;> simp [Matrix.mul_apply, Fin.sum_univ_two] <;> field_simp <;> grind

theorem C03_TGate_inverse : TGate.inv * TGate.mat = 1 := by
  simp only [TGate.inv, TGate.mat, TAdjGate.mat]
  obtain ⟨h', hr⟩ := sqrt2_facts
  have hI : I ^ 2 = -1 := Complex.I_sq
  generalize Real.sqrt 2 = r at *
  ext i j; fin_cases i <;> fin_cases j <;> simp [Matrix.mul_apply, Fin.sum_univ_two] <;> field_simp <;> grind

theorem C03_TAdjGate_inverse : TAdjGate.inv * TAdjGate.mat = 1 := by
  simp only [TAdjGate.inv, TGate.mat, TAdjGate.mat]
  obtain ⟨h', hr⟩ := sqrt2_facts
  have hI : I ^ 2 = -1 := Complex.I_sq
  generalize Real.sqrt 2 = r at *
  ext i j; fin_cases i <;> fin_cases j <;> simp [Matrix.mul_apply, Fin.sum_univ_two] <;> field_simp <;> grind

/-- `SxGate.inverse()` is `RxGate(-π/2)` (after the `fix:` commit; it used to return `self`) -/
theorem C03_SxGate_inverse : SxGate.inv * SxGate.mat = 1 := by
  simp only [SxGate.inv, SxGate.mat, RxGate.mat]
  have harg : ((-(1 / 2 : ℝ)) * Real.pi) / (2 : ℝ) = -(Real.pi / 4) := by ring
  rw [harg, Real.cos_neg, Real.sin_neg, Real.cos_pi_div_four, Real.sin_pi_div_four]
  obtain ⟨h', hr⟩ := sqrt2_facts
  have hI : I ^ 2 = -1 := Complex.I_sq
  generalize Real.sqrt 2 = r at *
  ext i j; fin_cases i <;> fin_cases j <;> simp [Matrix.mul_apply, Fin.sum_univ_two] <;> field_simp <;> grind

theorem C03_RxGate_inverse (θ : ℝ) : RxGate.inv θ * RxGate.mat θ = 1 := by
  have h := Real.cos_sq_add_sin_sq (θ / 2)
  simp only [RxGate.inv, RxGate.mat, neg_div, Real.cos_neg, Real.sin_neg]
  generalize Real.cos (θ / 2) = c at *
  generalize Real.sin (θ / 2) = s at *
  have h' : (c : ℂ) ^ 2 + (s : ℂ) ^ 2 = 1 := by exact_mod_cast h
  have hI : I ^ 2 = -1 := Complex.I_sq
  ext i j; fin_cases i <;> fin_cases j <;> simp [Matrix.mul_apply, Fin.sum_univ_two] <;> grind

theorem C03_RyGate_inverse (θ : ℝ) : RyGate.inv θ * RyGate.mat θ = 1 := by
  have h := Real.cos_sq_add_sin_sq (θ / 2)
  simp only [RyGate.inv, RyGate.mat, neg_div, Real.cos_neg, Real.sin_neg]
  generalize Real.cos (θ / 2) = c at *
  generalize Real.sin (θ / 2) = s at *
  have h' : (c : ℂ) ^ 2 + (s : ℂ) ^ 2 = 1 := by exact_mod_cast h
  have hI : I ^ 2 = -1 := Complex.I_sq
  ext i j; fin_cases i <;> fin_cases j <;> simp [Matrix.mul_apply, Fin.sum_univ_two] <;> grind

theorem C03_RxxGate_inverse (θ : ℝ) : RxxGate.inv θ * RxxGate.mat θ = 1 := by
  have h := Real.cos_sq_add_sin_sq (θ / 2)
  simp only [RxxGate.inv, RxxGate.mat, neg_div, Real.cos_neg, Real.sin_neg]
  generalize Real.cos (θ / 2) = c at *
  generalize Real.sin (θ / 2) = s at *
  have h' : (c : ℂ) ^ 2 + (s : ℂ) ^ 2 = 1 := by exact_mod_cast h
  have hI : I ^ 2 = -1 := Complex.I_sq
  ext i j; fin_cases i <;> fin_cases j <;> simp [Matrix.mul_apply, Fin.sum_univ_four] <;> grind

theorem C03_RyyGate_inverse (θ : ℝ) : RyyGate.inv θ * RyyGate.mat θ = 1 := by
  have h := Real.cos_sq_add_sin_sq (θ / 2)
  simp only [RyyGate.inv, RyyGate.mat, neg_div, Real.cos_neg, Real.sin_neg]
  generalize Real.cos (θ / 2) = c at *
  generalize Real.sin (θ / 2) = s at *
  have h' : (c : ℂ) ^ 2 + (s : ℂ) ^ 2 = 1 := by exact_mod_cast h
  have hI : I ^ 2 = -1 := Complex.I_sq
  ext i j; fin_cases i <;> fin_cases j <;> simp [Matrix.mul_apply, Fin.sum_univ_four] <;> grind

/-- `exp(z(-θ)) = conj(exp(zθ))` for purely imaginary `z θ` -/
private theorem exp_neg_eq_conj (z : ℂ) (hz : z.re = 0) : Complex.exp (-z) = starRingEnd ℂ (Complex.exp z) := by
  rw [← Complex.exp_conj]; congr 1
  apply Complex.ext <;> simp [hz]

theorem C03_RzGate_inverse (θ : ℝ) : RzGate.inv θ * RzGate.mat θ = 1 := by
  simp only [RzGate.inv, RzGate.mat]
  have e : (((1 : ℝ) : ℂ) * I) * (((-θ) : ℝ) : ℂ) / (((2 : ℝ) : ℝ) : ℂ) = -((((1 : ℝ) : ℂ) * I) * ((θ : ℝ) : ℂ) / (((2 : ℝ) : ℝ) : ℂ)) := by
    push_cast; ring
  rw [e, exp_neg_eq_conj _ (by simp)]
  have hu := exp_mul_conj_of_re_zero ((((1 : ℝ) : ℂ) * I) * ((θ : ℝ) : ℂ) / (((2 : ℝ) : ℝ) : ℂ)) (by simp)
  generalize Complex.exp ((((1 : ℝ) : ℂ) * I) * ((θ : ℝ) : ℂ) / (((2 : ℝ) : ℝ) : ℂ)) = u at *
  have hu' : starRingEnd ℂ u * u = 1 := by rw [mul_comm]; exact hu
  ext i j; fin_cases i <;> fin_cases j <;> simp [Matrix.mul_apply, Fin.sum_univ_two, hu, hu']

theorem C03_RzzGate_inverse (θ : ℝ) : RzzGate.inv θ * RzzGate.mat θ = 1 := by
  simp only [RzzGate.inv, RzzGate.mat]
  have e : (-(((1 : ℝ) : ℂ) * I)) * (((-θ) : ℝ) : ℂ) / (((2 : ℝ) : ℝ) : ℂ) = -((-(((1 : ℝ) : ℂ) * I)) * ((θ : ℝ) : ℂ) / (((2 : ℝ) : ℝ) : ℂ)) := by
    push_cast; ring
  rw [e, exp_neg_eq_conj _ (by simp)]
  have hu := exp_mul_conj_of_re_zero ((-(((1 : ℝ) : ℂ) * I)) * ((θ : ℝ) : ℂ) / (((2 : ℝ) : ℝ) : ℂ)) (by simp)
  generalize Complex.exp ((-(((1 : ℝ) : ℂ) * I)) * ((θ : ℝ) : ℂ) / (((2 : ℝ) : ℝ) : ℂ)) = u at *
  have hu' : starRingEnd ℂ u * u = 1 := by rw [mul_comm]; exact hu
  ext i j; fin_cases i <;> fin_cases j <;> simp [Matrix.mul_apply, Fin.sum_univ_four, hu, hu']

theorem C03_PhaseFactorGate_inverse (φ : ℝ) (n : ℕ) : PhaseFactorGate.inv φ n * PhaseFactorGate.mat φ n = 1 := by
  simp only [PhaseFactorGate.inv, PhaseFactorGate.mat]
  rw [Matrix.smul_mul, Matrix.mul_smul, Matrix.mul_one, smul_smul, ← Complex.exp_add]
  have : (((1 : ℝ) : ℂ) * I) * (((-φ) : ℝ) : ℂ) + (((1 : ℝ) : ℂ) * I) * ((φ : ℝ) : ℂ) = 0 := by push_cast; ring
  rw [this, Complex.exp_zero, one_smul]

theorem C03_RotationGate_inverse (v : Fin 3 → ℝ) : RotationGate.inv v * RotationGate.mat v = 1 := by
  simp only [RotationGate.inv, RotationGate.mat, neg_sq, neg_div]
  split_ifs with h0
  · simp
  · have hnn : 0 ≤ (v 0) ^ 2 + (v 1) ^ 2 + (v 2) ^ 2 := by positivity
    have hsq := Real.sq_sqrt hnn
    have hc := Real.cos_sq_add_sin_sq (Real.sqrt ((v 0) ^ 2 + (v 1) ^ 2 + (v 2) ^ 2) / 2)
    generalize Real.sqrt ((v 0) ^ 2 + (v 1) ^ 2 + (v 2) ^ 2) = t at *
    generalize Real.cos (t / 2) = c at *
    generalize Real.sin (t / 2) = s at *
    have hn : (v 0 / t) ^ 2 + (v 1 / t) ^ 2 + (v 2 / t) ^ 2 = 1 := by
      field_simp; linarith
    generalize v 0 / t = n0 at *
    generalize v 1 / t = n1 at *
    generalize v 2 / t = n2 at *
    have hc' : (c : ℂ) ^ 2 + (s : ℂ) ^ 2 = 1 := by exact_mod_cast hc
    have hn' : (n0 : ℂ) ^ 2 + (n1 : ℂ) ^ 2 + (n2 : ℂ) ^ 2 = 1 := by exact_mod_cast hn
    have hI : I ^ 2 = -1 := Complex.I_sq
    ext i j; fin_cases i <;> fin_cases j <;> simp [Matrix.mul_apply, Fin.sum_univ_two] <;> grind

/-! ### composite gates -/

section Composite
variable {κ ι : Type} [Fintype κ] [DecidableEq κ] [Fintype ι] [DecidableEq ι]

/-- `ControlledGate(tgate.inverse(), ncontrols, ctrl_state)` -/
theorem C03_controlled_inverse (cs : κ) (U V : Matrix ι ι ℂ) (h : V * U = 1) : blockOn cs V * blockOn cs U = 1 := by
  rw [blockOn_eq_blocks, blockOn_eq_blocks, blocks_mul]
  have : (fun k => (if k = cs then V else 1) * (if k = cs then U else 1)) = fun _ : κ => (1 : Matrix ι ι ℂ) := by
    funext k; split_ifs <;> simp [h]
  rw [this, blocks_one]

/-- `MultiplexedGate([g.inverse() for g in tgates], ncontrols)` -/
theorem C03_multiplexed_inverse (U V : κ → Matrix ι ι ℂ) (h : ∀ k, V k * U k = 1) : blocks V * blocks U = 1 := by
  rw [blocks_mul]; simp only [h]; exact blocks_one

/-- `TimeEvolutionGate(h, -t)` -/
theorem C03_timeEvolution_inverse (H : Matrix ι ι ℂ) (t : ℝ) :
    exp ((-(I * ((-t : ℝ) : ℂ))) • H) * exp ((-(I * (t : ℂ))) • H) = 1 := by
  rw [← Matrix.exp_add_of_commute]
  · have : (-(I * ((-t : ℝ) : ℂ))) • H + (-(I * (t : ℂ))) • H = 0 := by
      rw [← add_smul]; push_cast; ring_nf; simp
    rw [this, NormedSpace.exp_zero]
  · exact ((Commute.refl H).smul_left _).smul_right _

/-- block encodings: `Wx⁻¹ = Wxi`, `Wxi⁻¹ = Wx`, `R⁻¹ = R` (under the recorded `sqrtm` assumption) -/
theorem C03_blockEncoding_inverse (H S : Matrix ι ι ℂ) (hsq : S * S = 1 - H * H) (hc : S * H = H * S) :
    fromBlocks H ((-I) • S) ((-I) • S) H * fromBlocks H (I • S) (I • S) H = 1 ∧
    fromBlocks H (I • S) (I • S) H * fromBlocks H ((-I) • S) ((-I) • S) H = 1 ∧
    fromBlocks H S S (-H) * fromBlocks H S S (-H) = 1 := by
  refine ⟨?_, ?_, ?_⟩ <;> rw [fromBlocks_multiply, ← fromBlocks_one]
  · simp only [smul_mul_smul_comm, Matrix.mul_smul, Matrix.smul_mul, hsq, hc]
    congr 1 <;> simp [mul_neg] <;> abel
  · simp only [smul_mul_smul_comm, Matrix.mul_smul, Matrix.smul_mul, hsq, hc]
    congr 1 <;> simp [mul_neg] <;> abel
  · simp only [Matrix.mul_neg, Matrix.neg_mul, neg_neg, hsq, hc]
    congr 1 <;> abel

/-- `PrepareGate(vec, n, not transpose)`: the transposed orthogonal matrix -/
theorem C03_prepare_inverse (Q : Matrix ι ι ℝ) (hQ : Qᵀ * Q = 1) (hQ' : Q * Qᵀ = 1) :
    (Qᵀ.map Complex.ofReal) * (Q.map Complex.ofReal) = 1 ∧ (Q.map Complex.ofReal) * (Qᵀ.map Complex.ofReal) = 1 := by
  constructor
  · ext i j
    have hij := congrFun (congrFun hQ i) j
    simp only [Matrix.mul_apply, Matrix.transpose_apply, Matrix.one_apply] at hij
    simp only [Matrix.mul_apply, Matrix.map_apply, Matrix.transpose_apply, Matrix.one_apply]
    split_ifs at hij ⊢ <;> exact_mod_cast hij
  · ext i j
    have hij := congrFun (congrFun hQ' i) j
    simp only [Matrix.mul_apply, Matrix.transpose_apply, Matrix.one_apply] at hij
    simp only [Matrix.mul_apply, Matrix.map_apply, Matrix.transpose_apply, Matrix.one_apply]
    split_ifs at hij ⊢ <;> exact_mod_cast hij

/-- `GeneralGate(mat.conj().T, n)`: from the constructor's unitarity check (finite dimension) -/
theorem C03_general_inverse (U : Matrix ι ι ℂ) (h : U * Uᴴ = 1) : Uᴴ * U = 1 :=
  mul_eq_one_comm.mp h

end Composite

/-! ### the lift: inverse of any gate tree -/

/-- `InvPair U V`: `U` is the matrix of a constructible gate `g` and `V` the matrix of `g.inverse()`. -/
inductive InvPair : ∀ {ι : Type} [Fintype ι] [DecidableEq ι], Matrix ι ι ℂ → Matrix ι ι ℂ → Prop
  | identity : InvPair IdentityGate.mat IdentityGate.inv
  | pauliX : InvPair PauliXGate.mat PauliXGate.inv
  | pauliY : InvPair PauliYGate.mat PauliYGate.inv
  | pauliZ : InvPair PauliZGate.mat PauliZGate.inv
  | hadamard : InvPair HadamardGate.mat HadamardGate.inv
  | sx : InvPair SxGate.mat SxGate.inv
  | rx (θ : ℝ) : InvPair (RxGate.mat θ) (RxGate.inv θ)
  | ry (θ : ℝ) : InvPair (RyGate.mat θ) (RyGate.inv θ)
  | rz (θ : ℝ) : InvPair (RzGate.mat θ) (RzGate.inv θ)
  | rotation (v : Fin 3 → ℝ) : InvPair (RotationGate.mat v) (RotationGate.inv v)
  | s : InvPair SGate.mat SGate.inv
  | sAdj : InvPair SAdjGate.mat SAdjGate.inv
  | t : InvPair TGate.mat TGate.inv
  | tAdj : InvPair TAdjGate.mat TAdjGate.inv
  | phase (φ : ℝ) (n : ℕ) : InvPair (PhaseFactorGate.mat φ n) (PhaseFactorGate.inv φ n)
  | rxx (θ : ℝ) : InvPair (RxxGate.mat θ) (RxxGate.inv θ)
  | ryy (θ : ℝ) : InvPair (RyyGate.mat θ) (RyyGate.inv θ)
  | rzz (θ : ℝ) : InvPair (RzzGate.mat θ) (RzzGate.inv θ)
  | iswap : InvPair ISwapGate.mat ISwapGate.inv
  | general {ι : Type} [Fintype ι] [DecidableEq ι] (U : Matrix ι ι ℂ) (h : U * Uᴴ = 1) : InvPair U Uᴴ
  | prepare {ι : Type} [Fintype ι] [DecidableEq ι] (Q : Matrix ι ι ℝ) (hQ : Qᵀ * Q = 1) (hQ' : Q * Qᵀ = 1) :
      InvPair (Q.map Complex.ofReal) (Qᵀ.map Complex.ofReal)
  | prepareT {ι : Type} [Fintype ι] [DecidableEq ι] (Q : Matrix ι ι ℝ) (hQ : Qᵀ * Q = 1) (hQ' : Q * Qᵀ = 1) :
      InvPair (Qᵀ.map Complex.ofReal) (Q.map Complex.ofReal)
  | timeEvolution {ι : Type} [Fintype ι] [DecidableEq ι] (H : Matrix ι ι ℂ) (t : ℝ) :
      InvPair (exp ((-(I * (t : ℂ))) • H)) (exp ((-(I * ((-t : ℝ) : ℂ))) • H))
  | blockWx {ι : Type} [Fintype ι] [DecidableEq ι] (H S : Matrix ι ι ℂ) (hsq : S * S = 1 - H * H) (hc : S * H = H * S) :
      InvPair (fromBlocks H (I • S) (I • S) H) (fromBlocks H ((-I) • S) ((-I) • S) H)
  | blockWxi {ι : Type} [Fintype ι] [DecidableEq ι] (H S : Matrix ι ι ℂ) (hsq : S * S = 1 - H * H) (hc : S * H = H * S) :
      InvPair (fromBlocks H ((-I) • S) ((-I) • S) H) (fromBlocks H (I • S) (I • S) H)
  | blockR {ι : Type} [Fintype ι] [DecidableEq ι] (H S : Matrix ι ι ℂ) (hsq : S * S = 1 - H * H) (hc : S * H = H * S) :
      InvPair (fromBlocks H S S (-H)) (fromBlocks H S S (-H))
  | controlled {κ ι : Type} [Fintype κ] [DecidableEq κ] [Fintype ι] [DecidableEq ι] (cs : κ) (U V : Matrix ι ι ℂ) :
      InvPair U V → InvPair (blockOn cs U) (blockOn cs V)
  | multiplexed {κ ι : Type} [Fintype κ] [DecidableEq κ] [Fintype ι] [DecidableEq ι] (U V : κ → Matrix ι ι ℂ) :
      (∀ k, InvPair (U k) (V k)) → InvPair (blocks U) (blocks V)

/-- **C03 (gates)**: for every gate tree, the matrix of `g.inverse()` is a left inverse – hence, in finite
dimension, the two-sided inverse and (by C01) the adjoint – of the matrix of `g`. -/
theorem C03_inverse_mul {ι : Type} [Fintype ι] [DecidableEq ι] {U V : Matrix ι ι ℂ} (h : InvPair U V) :
    V * U = 1 ∧ U * V = 1 := by
  suffices hs : V * U = 1 from ⟨hs, mul_eq_one_comm.mp hs⟩
  induction h with
  | identity => exact C03_IdentityGate_inverse
  | pauliX => exact C03_PauliXGate_inverse
  | pauliY => exact C03_PauliYGate_inverse
  | pauliZ => exact C03_PauliZGate_inverse
  | hadamard => exact C03_HadamardGate_inverse
  | sx => exact C03_SxGate_inverse
  | rx θ => exact C03_RxGate_inverse θ
  | ry θ => exact C03_RyGate_inverse θ
  | rz θ => exact C03_RzGate_inverse θ
  | rotation v => exact C03_RotationGate_inverse v
  | s => exact C03_SGate_inverse
  | sAdj => exact C03_SAdjGate_inverse
  | t => exact C03_TGate_inverse
  | tAdj => exact C03_TAdjGate_inverse
  | phase φ n => exact C03_PhaseFactorGate_inverse φ n
  | rxx θ => exact C03_RxxGate_inverse θ
  | ryy θ => exact C03_RyyGate_inverse θ
  | rzz θ => exact C03_RzzGate_inverse θ
  | iswap => exact C03_ISwapGate_inverse
  | general U h => exact C03_general_inverse U h
  | prepare Q hQ hQ' => exact (C03_prepare_inverse Q hQ hQ').1
  | prepareT Q hQ hQ' => exact (C03_prepare_inverse Q hQ hQ').2
  | timeEvolution H t => exact C03_timeEvolution_inverse H t
  | blockWx H S hsq hc => exact (C03_blockEncoding_inverse H S hsq hc).1
  | blockWxi H S hsq hc => exact (C03_blockEncoding_inverse H S hsq hc).2.1
  | blockR H S hsq hc => exact (C03_blockEncoding_inverse H S hsq hc).2.2
  | controlled cs U V _ ih => exact C03_controlled_inverse cs U V ih
  | multiplexed U V _ ih => exact C03_multiplexed_inverse U V ih

/-- circuits at the abstract level: the inverse circuit is the reversed list of inverses; for any list of
(embedded) gate matrices with their inverses, the products cancel.  `circuitMat gs = gₙ ⋯ g₁`. -/
theorem C03_circuit_inverse_mul {ι : Type} [Fintype ι] [DecidableEq ι] (gs : List (Matrix ι ι ℂ × Matrix ι ι ℂ))
    (h : ∀ p ∈ gs, p.2 * p.1 = 1) :
    ((gs.reverse.map Prod.snd).foldl (fun acc g => g * acc) 1) * ((gs.map Prod.fst).foldl (fun acc g => g * acc) 1) = 1 := by
  -- foldl (fun acc g => g * acc) 1 [a,b,c] = c * b * a  (first gate applied first)
  have key : ∀ (l : List (Matrix ι ι ℂ)) (A : Matrix ι ι ℂ), l.foldl (fun acc g => g * acc) A = (l.foldl (fun acc g => g * acc) 1) * A := by
    intro l; induction l with
    | nil => intro A; simp
    | cons x xs ih => intro A; simp only [List.foldl_cons, Matrix.mul_one]; rw [ih (x * A), ih x, Matrix.mul_assoc]
  induction gs with
  | nil => simp
  | cons p ps ih =>
    have hp := h p (by simp)
    have ih' := ih (fun q hq => h q (by simp [hq]))
    simp only [List.reverse_cons, List.map_append, List.map_cons, List.map_nil, List.foldl_append, List.foldl_cons, List.foldl_nil, Matrix.mul_one]
    rw [key (ps.map Prod.fst) p.1, ← Matrix.mul_assoc, Matrix.mul_assoc p.2]
    rw [ih', Matrix.mul_one, hp]

/-! ### circuits on a register: `Circuit.inverse` of the executable model (`Qib.Embed.circuitInverse`) -/

/-- a gate placed on the wires `iw` of an `n`-wire register, together with the matrix of its `inverse()`
(which the code binds to the same particles, hence the same wires) -/
structure PlacedPair (n : ℕ) where
  m : ℕ
  iw : Fin m ↪ Fin n
  g : Matrix (Fin m → Bool) (Fin m → Bool) ℂ
  ginv : Matrix (Fin m → Bool) (Fin m → Bool) ℂ

/-- `gate.inverse()` at the level of placed values -/
def PlacedPair.inverse {n : ℕ} (p : PlacedPair n) : PlacedPair n := { p with g := p.ginv, ginv := p.g }

/-- register matrix of a placed gate (C04: the embedding) -/
def PlacedPair.mat {n : ℕ} (p : PlacedPair n) : Matrix (Fin n → Bool) (Fin n → Bool) ℂ := Qib.Embed.embed p.iw p.g

/-- `Circuit.as_matrix`: left-multiplication loop, first gate applied first -/
def regMat {n : ℕ} (c : List (PlacedPair n)) : Matrix (Fin n → Bool) (Fin n → Bool) ℂ :=
  (c.map PlacedPair.mat).foldl (fun acc g => g * acc) 1

/-- **C03 (circuits)**: for every circuit (any length, any wire assignment, overlapping or identical wire sets) on
every register size, the matrix of `C.inverse()` – the model's `circuitInverse`, i.e. the reversed list of the
gates' inverses, each on the wires of its gate – times the matrix of `C` is the identity, provided each gate's
`inverse()` inverts its matrix (which `C03_inverse_mul` establishes for every gate tree). -/
theorem C03_circuit_inverse_embedded {n : ℕ} (c : List (PlacedPair n)) (h : ∀ p ∈ c, p.ginv * p.g = 1) :
    regMat (Qib.Embed.circuitInverse PlacedPair.inverse c) * regMat c = 1 := by
  have := C03_circuit_inverse_mul (c.map fun p => (Qib.Embed.embed p.iw p.g, Qib.Embed.embed p.iw p.ginv)) (by
    intro q hq
    obtain ⟨p, hp, rfl⟩ := List.mem_map.mp hq
    simp only
    rw [Qib.Embed.embed_mul, h p hp, Qib.Embed.embed_one])
  have e1 : (Qib.Embed.circuitInverse PlacedPair.inverse c).map PlacedPair.mat
      = ((c.map fun p => (Qib.Embed.embed p.iw p.g, Qib.Embed.embed p.iw p.ginv)).reverse.map Prod.snd) := by
    simp [Qib.Embed.circuitInverse, PlacedPair.mat, PlacedPair.inverse, List.map_reverse, Function.comp_def]
  have e2 : c.map PlacedPair.mat = (c.map fun p => (Qib.Embed.embed p.iw p.g, Qib.Embed.embed p.iw p.ginv)).map Prod.fst := by
    simp [PlacedPair.mat, Function.comp_def]
  rw [regMat, regMat, e1, e2]
  exact this

/-- non-vacuity: a two-gate circuit on three wires whose gates are inverted gate-wise -/
example : ∃ c : List (PlacedPair 3), c.length = 2 ∧ ∀ p ∈ c, p.ginv * p.g = 1 :=
  ⟨[⟨1, ⟨fun _ => 0, fun _ _ _ => Subsingleton.elim _ _⟩, 1, 1⟩, ⟨1, ⟨fun _ => 2, fun _ _ _ => Subsingleton.elim _ _⟩, 1, 1⟩], rfl, by
    intro p hp; simp at hp; rcases hp with rfl | rfl <;> simp⟩

/-! ### The same statements about the forms regenerated from the CURRENT source

`QibSrc.K.mat` / `QibSrc.K.inv` are regenerated from `src/qib/operator/gates.py` on every run; `QibBridge` proves on every run that they are
equal to the reference forms `QibRef.K.mat` / `QibRef.K.inv` used above (by a tactic that is independent of how the source spells the
closed form), so every theorem above is a theorem about what the code says now. -/

theorem C03_source_agrees : QibBridge.SrcAgrees := QibBridge.srcAgrees
theorem C03_IdentityGate_inverse_src : QibSrc.IdentityGate.inv * QibSrc.IdentityGate.mat = 1 := by
  rw [QibBridge.IdentityGate_inv, QibBridge.IdentityGate_mat]; exact C03_IdentityGate_inverse
theorem C03_PauliXGate_inverse_src : QibSrc.PauliXGate.inv * QibSrc.PauliXGate.mat = 1 := by
  rw [QibBridge.PauliXGate_inv, QibBridge.PauliXGate_mat]; exact C03_PauliXGate_inverse
theorem C03_PauliYGate_inverse_src : QibSrc.PauliYGate.inv * QibSrc.PauliYGate.mat = 1 := by
  rw [QibBridge.PauliYGate_inv, QibBridge.PauliYGate_mat]; exact C03_PauliYGate_inverse
theorem C03_PauliZGate_inverse_src : QibSrc.PauliZGate.inv * QibSrc.PauliZGate.mat = 1 := by
  rw [QibBridge.PauliZGate_inv, QibBridge.PauliZGate_mat]; exact C03_PauliZGate_inverse
theorem C03_HadamardGate_inverse_src : QibSrc.HadamardGate.inv * QibSrc.HadamardGate.mat = 1 := by
  rw [QibBridge.HadamardGate_inv, QibBridge.HadamardGate_mat]; exact C03_HadamardGate_inverse
theorem C03_SxGate_inverse_src : QibSrc.SxGate.inv * QibSrc.SxGate.mat = 1 := by
  rw [QibBridge.SxGate_inv, QibBridge.SxGate_mat]; exact C03_SxGate_inverse
theorem C03_RxGate_inverse_src (θ : ℝ): QibSrc.RxGate.inv θ * QibSrc.RxGate.mat θ = 1 := by
  rw [QibBridge.RxGate_inv, QibBridge.RxGate_mat]; exact C03_RxGate_inverse θ
theorem C03_RyGate_inverse_src (θ : ℝ): QibSrc.RyGate.inv θ * QibSrc.RyGate.mat θ = 1 := by
  rw [QibBridge.RyGate_inv, QibBridge.RyGate_mat]; exact C03_RyGate_inverse θ
theorem C03_RzGate_inverse_src (θ : ℝ): QibSrc.RzGate.inv θ * QibSrc.RzGate.mat θ = 1 := by
  rw [QibBridge.RzGate_inv, QibBridge.RzGate_mat]; exact C03_RzGate_inverse θ
theorem C03_RotationGate_inverse_src (v : Fin 3 → ℝ): QibSrc.RotationGate.inv v * QibSrc.RotationGate.mat v = 1 := by
  rw [QibBridge.RotationGate_inv, QibBridge.RotationGate_mat]; exact C03_RotationGate_inverse v
theorem C03_SGate_inverse_src : QibSrc.SGate.inv * QibSrc.SGate.mat = 1 := by
  rw [QibBridge.SGate_inv, QibBridge.SGate_mat]; exact C03_SGate_inverse
theorem C03_SAdjGate_inverse_src : QibSrc.SAdjGate.inv * QibSrc.SAdjGate.mat = 1 := by
  rw [QibBridge.SAdjGate_inv, QibBridge.SAdjGate_mat]; exact C03_SAdjGate_inverse
theorem C03_TGate_inverse_src : QibSrc.TGate.inv * QibSrc.TGate.mat = 1 := by
  rw [QibBridge.TGate_inv, QibBridge.TGate_mat]; exact C03_TGate_inverse
theorem C03_TAdjGate_inverse_src : QibSrc.TAdjGate.inv * QibSrc.TAdjGate.mat = 1 := by
  rw [QibBridge.TAdjGate_inv, QibBridge.TAdjGate_mat]; exact C03_TAdjGate_inverse
theorem C03_PhaseFactorGate_inverse_src (φ : ℝ) (n : ℕ): QibSrc.PhaseFactorGate.inv φ n * QibSrc.PhaseFactorGate.mat φ n = 1 := by
  rw [QibBridge.PhaseFactorGate_inv, QibBridge.PhaseFactorGate_mat]; exact C03_PhaseFactorGate_inverse φ n
theorem C03_RxxGate_inverse_src (θ : ℝ): QibSrc.RxxGate.inv θ * QibSrc.RxxGate.mat θ = 1 := by
  rw [QibBridge.RxxGate_inv, QibBridge.RxxGate_mat]; exact C03_RxxGate_inverse θ
theorem C03_RyyGate_inverse_src (θ : ℝ): QibSrc.RyyGate.inv θ * QibSrc.RyyGate.mat θ = 1 := by
  rw [QibBridge.RyyGate_inv, QibBridge.RyyGate_mat]; exact C03_RyyGate_inverse θ
theorem C03_RzzGate_inverse_src (θ : ℝ): QibSrc.RzzGate.inv θ * QibSrc.RzzGate.mat θ = 1 := by
  rw [QibBridge.RzzGate_inv, QibBridge.RzzGate_mat]; exact C03_RzzGate_inverse θ
theorem C03_ISwapGate_inverse_src : QibSrc.ISwapGate.inv * QibSrc.ISwapGate.mat = 1 := by
  rw [QibBridge.ISwapGate_inv, QibBridge.ISwapGate_mat]; exact C03_ISwapGate_inverse

end Qib.C03
