import QibProofs.Lemmas.GateBridge
import QibProofs.Lemmas.GateAlgebra
import QibProofs.Lemmas.GateFlat
import Mathlib.Tactic.NormNum
import Mathlib.Tactic.Positivity
/-!
C02 — Gate matrices equal their mathematical definitions (property theorems only).
The left-hand sides are the definitions regenerated from the Python source; the right-hand sides are
the textbook definitions (`NormedSpace.exp` of the generator, literal Pauli matrices, …).
-/
open Matrix NormedSpace Complex QibGen QibRef Qib.GateAlgebra

namespace Qib.C02

/-! ### reference operators -/
def σx : Matrix (Fin 2) (Fin 2) ℂ := !![0, 1; 1, 0]
def σy : Matrix (Fin 2) (Fin 2) ℂ := !![0, -I; I, 0]
def σz : Matrix (Fin 2) (Fin 2) ℂ := !![1, 0; 0, -1]
/-- `P ⊗ P` on two qubits, first qubit most significant (numpy `kron`) -/
def kron2 (A B : Matrix (Fin 2) (Fin 2) ℂ) : Matrix (Fin 4) (Fin 4) ℂ :=
  Matrix.of fun i j => A (Fin.divNat (n := 2) (m := 2) i) (Fin.divNat (n := 2) (m := 2) j) * B (Fin.modNat (n := 2) (m := 2) i) (Fin.modNat (n := 2) (m := 2) j)

theorem σx_sq : σx * σx = 1 := by
  ext i j; fin_cases i <;> fin_cases j <;> simp [σx, Matrix.mul_apply, Fin.sum_univ_two]
theorem σy_sq : σy * σy = 1 := by
  ext i j; fin_cases i <;> fin_cases j <;> simp [σy, Matrix.mul_apply, Fin.sum_univ_two]
theorem σz_sq : σz * σz = 1 := by
  ext i j; fin_cases i <;> fin_cases j <;> simp [σz, Matrix.mul_apply, Fin.sum_univ_two]

/-! ### fixed gates -/

theorem C02_pauli_literals :
    IdentityGate.mat = 1 ∧ PauliXGate.mat = σx ∧ PauliYGate.mat = σy ∧ PauliZGate.mat = σz := by
  refine ⟨?_, ?_, ?_, ?_⟩ <;>
  · ext i j; fin_cases i <;> fin_cases j <;> simp [IdentityGate.mat, PauliXGate.mat, PauliYGate.mat, PauliZGate.mat, σx, σy, σz]

theorem C02_hadamard_def : HadamardGate.mat = ((1 / Real.sqrt 2 : ℝ) : ℂ) • (σx + σz) := by
  ext i j; fin_cases i <;> fin_cases j <;> simp [HadamardGate.mat, σx, σz]

theorem C02_s_def : SGate.mat = !![1, 0; 0, I] ∧ SAdjGate.mat = !![1, 0; 0, -I] := by
  constructor <;>
  · ext i j; fin_cases i <;> fin_cases j <;> simp [SGate.mat, SAdjGate.mat]

theorem exp_I_pi_div_four : Complex.exp (I * ((Real.pi / 4 : ℝ) : ℂ)) = (1 + I) / ((Real.sqrt 2 : ℝ) : ℂ) := by
  have h2 : (Real.sqrt 2) ^ 2 = 2 := Real.sq_sqrt (by norm_num)
  have hpos : Real.sqrt 2 ≠ 0 := by positivity
  have h' : ((Real.sqrt 2 : ℝ) : ℂ) ^ 2 = 2 := by exact_mod_cast h2
  have hr : ((Real.sqrt 2 : ℝ) : ℂ) ≠ 0 := by exact_mod_cast hpos
  rw [mul_comm, Complex.exp_mul_I, ← Complex.ofReal_cos, ← Complex.ofReal_sin, Real.cos_pi_div_four, Real.sin_pi_div_four]
  push_cast
  field_simp
  linear_combination (1 + I) * h'

/-- T = diag(1, e^{iπ/4}), T† = diag(1, e^{-iπ/4}) -/
theorem C02_t_def : TGate.mat = !![1, 0; 0, Complex.exp (I * ((Real.pi / 4 : ℝ) : ℂ))] ∧
    TAdjGate.mat = !![1, 0; 0, starRingEnd ℂ (Complex.exp (I * ((Real.pi / 4 : ℝ) : ℂ)))] := by
  rw [exp_I_pi_div_four]
  constructor <;>
  · ext i j; fin_cases i <;> fin_cases j <;> simp [TGate.mat, TAdjGate.mat] <;> ring

theorem C02_iswap_def : ISwapGate.mat = !![1, 0, 0, 0; 0, 0, I, 0; 0, I, 0, 0; 0, 0, 0, 1] := by
  ext i j; fin_cases i <;> fin_cases j <;> simp [ISwapGate.mat]

theorem C02_sx_def : SxGate.mat * SxGate.mat = (-I : ℂ) • σx := by
  have h2 : (Real.sqrt 2) ^ 2 = 2 := Real.sq_sqrt (by norm_num)
  have hpos : Real.sqrt 2 ≠ 0 := by positivity
  simp only [SxGate.mat]
  generalize Real.sqrt 2 = r at *
  have h' : (r : ℂ) ^ 2 = 2 := by exact_mod_cast h2
  have hr : (r : ℂ) ≠ 0 := by exact_mod_cast hpos
  have hI : I ^ 2 = -1 := Complex.I_sq
  ext i j; fin_cases i <;> fin_cases j <;> simp [Matrix.mul_apply, Fin.sum_univ_two, σx] <;> field_simp <;> grind

/-! ### one-qubit rotations: `R_P(θ) = exp(-i θ P / 2)` -/

theorem C02_rx_eq_exp (θ : ℝ) : RxGate.mat θ = exp ((-(I * (θ / 2 : ℝ))) • σx) := by
  rw [Matrix.exp_rotation σx σx_sq]
  simp only [RxGate.mat]
  generalize Real.cos (θ / 2) = c
  generalize Real.sin (θ / 2) = s
  ext i j; fin_cases i <;> fin_cases j <;> simp [σx] <;> ring

theorem C02_ry_eq_exp (θ : ℝ) : RyGate.mat θ = exp ((-(I * (θ / 2 : ℝ))) • σy) := by
  rw [Matrix.exp_rotation σy σy_sq]
  simp only [RyGate.mat]
  generalize Real.cos (θ / 2) = c
  generalize Real.sin (θ / 2) = s
  have hI : I ^ 2 = -1 := Complex.I_sq
  ext i j; fin_cases i <;> fin_cases j <;> simp [σy] <;> grind

theorem exp_half_angle (θ : ℝ) : Complex.exp (I * (θ : ℂ) / 2) = ((Real.cos (θ / 2) : ℝ) : ℂ) + I * ((Real.sin (θ / 2) : ℝ) : ℂ) := by
  have : I * (θ : ℂ) / 2 = ((θ / 2 : ℝ) : ℂ) * I := by push_cast; ring
  rw [this, Complex.exp_mul_I, Complex.ofReal_cos, Complex.ofReal_sin]; ring

theorem C02_rz_eq_exp (θ : ℝ) : RzGate.mat θ = exp ((-(I * (θ / 2 : ℝ))) • σz) := by
  rw [Matrix.exp_rotation σz σz_sq]
  simp only [RzGate.mat]
  have hx : Complex.exp ((((1 : ℝ) : ℂ) * I) * ((θ : ℝ) : ℂ) / (((2 : ℝ) : ℝ) : ℂ)) = ((Real.cos (θ / 2) : ℝ) : ℂ) + I * ((Real.sin (θ / 2) : ℝ) : ℂ) := by
    rw [← exp_half_angle]; congr 1; push_cast; ring
  rw [hx]
  generalize Real.cos (θ / 2) = c
  generalize Real.sin (θ / 2) = s
  ext i j; fin_cases i <;> fin_cases j <;> simp [σz, Complex.conj_ofReal] <;> ring

/-! ### general rotation `exp(-i (v·σ)/2)`, including the zero vector -/

theorem C02_rot_eq_exp (v : Fin 3 → ℝ) :
    RotationGate.mat v = exp ((-(I / 2)) • (((v 0 : ℝ) : ℂ) • σx + ((v 1 : ℝ) : ℂ) • σy + ((v 2 : ℝ) : ℂ) • σz)) := by
  simp only [RotationGate.mat]
  have hnn : 0 ≤ (v 0) ^ 2 + (v 1) ^ 2 + (v 2) ^ 2 := by positivity
  have hsq := Real.sq_sqrt hnn
  split_ifs with h0
  · -- zero vector: every component vanishes
    rw [h0] at hsq
    have e0 : v 0 = 0 := by nlinarith [sq_nonneg (v 0), sq_nonneg (v 1), sq_nonneg (v 2)]
    have e1 : v 1 = 0 := by nlinarith [sq_nonneg (v 0), sq_nonneg (v 1), sq_nonneg (v 2)]
    have e2 : v 2 = 0 := by nlinarith [sq_nonneg (v 0), sq_nonneg (v 1), sq_nonneg (v 2)]
    simp [e0, e1, e2]
  · set t := Real.sqrt ((v 0) ^ 2 + (v 1) ^ 2 + (v 2) ^ 2) with ht
    have hn : (v 0 / t) ^ 2 + (v 1 / t) ^ 2 + (v 2 / t) ^ 2 = 1 := by
      field_simp; linarith
    -- the unit-vector Pauli combination is an involution
    let P : Matrix (Fin 2) (Fin 2) ℂ := (((v 0 / t : ℝ)) : ℂ) • σx + (((v 1 / t : ℝ)) : ℂ) • σy + (((v 2 / t : ℝ)) : ℂ) • σz
    have hn' : ((v 0 / t : ℝ) : ℂ) ^ 2 + ((v 1 / t : ℝ) : ℂ) ^ 2 + ((v 2 / t : ℝ) : ℂ) ^ 2 = 1 := by exact_mod_cast hn
    have hI : I ^ 2 = -1 := Complex.I_sq
    have hP : P * P = 1 := by
      simp only [P]
      generalize ((v 0 / t : ℝ) : ℂ) = a at *
      generalize ((v 1 / t : ℝ) : ℂ) = b at *
      generalize ((v 2 / t : ℝ) : ℂ) = c at *
      ext i j; fin_cases i <;> fin_cases j <;> simp [σx, σy, σz, Matrix.mul_apply, Fin.sum_univ_two] <;> grind
    have harg : (-(I / 2)) • (((v 0 : ℝ) : ℂ) • σx + ((v 1 : ℝ) : ℂ) • σy + ((v 2 : ℝ) : ℂ) • σz) = (-(I * (t / 2 : ℝ))) • P := by
      have ht0 : (t : ℂ) ≠ 0 := by exact_mod_cast h0
      simp only [P, smul_add, smul_smul]
      congr 1
      · congr 1
        · congr 1; push_cast; field_simp
        · congr 1; push_cast; field_simp
      · congr 1; push_cast; field_simp
    rw [harg, Matrix.exp_rotation P hP]
    simp only [P]
    generalize Real.cos (t / 2) = c
    generalize Real.sin (t / 2) = s
    ext i j; fin_cases i <;> fin_cases j <;> simp [σx, σy, σz] <;> (first | done | (simp; done) | grind | ring)

/-! ### two-qubit rotations `exp(-i θ P⊗P / 2)` -/

theorem kron2_sq (A : Matrix (Fin 2) (Fin 2) ℂ) (h : A * A = 1) : kron2 A A * kron2 A A = 1 := by
  have h00 := congrFun (congrFun h 0) 0
  have h01 := congrFun (congrFun h 0) 1
  have h10 := congrFun (congrFun h 1) 0
  have h11 := congrFun (congrFun h 1) 1
  simp only [Matrix.mul_apply, Fin.sum_univ_two, Matrix.one_apply] at h00 h01 h10 h11
  simp at h00 h01 h10 h11
  ext i j; fin_cases i <;> fin_cases j <;> simp [kron2, Matrix.mul_apply, Fin.sum_univ_four, Fin.divNat, Fin.modNat] <;> grind

theorem C02_rxx_eq_exp (θ : ℝ) : RxxGate.mat θ = exp ((-(I * (θ / 2 : ℝ))) • kron2 σx σx) := by
  rw [Matrix.exp_rotation _ (kron2_sq σx σx_sq)]
  simp only [RxxGate.mat]
  generalize Real.cos (θ / 2) = c
  generalize Real.sin (θ / 2) = s
  ext i j; fin_cases i <;> fin_cases j <;> simp [kron2, σx, Fin.divNat, Fin.modNat] <;> ring

theorem C02_ryy_eq_exp (θ : ℝ) : RyyGate.mat θ = exp ((-(I * (θ / 2 : ℝ))) • kron2 σy σy) := by
  rw [Matrix.exp_rotation _ (kron2_sq σy σy_sq)]
  simp only [RyyGate.mat]
  generalize Real.cos (θ / 2) = c
  generalize Real.sin (θ / 2) = s
  have hI : I ^ 2 = -1 := Complex.I_sq
  ext i j; fin_cases i <;> fin_cases j <;> simp [kron2, σy, Fin.divNat, Fin.modNat] <;> grind

theorem C02_rzz_eq_exp (θ : ℝ) : RzzGate.mat θ = exp ((-(I * (θ / 2 : ℝ))) • kron2 σz σz) := by
  rw [Matrix.exp_rotation _ (kron2_sq σz σz_sq)]
  simp only [RzzGate.mat]
  have hx : Complex.exp ((-(((1 : ℝ) : ℂ) * I)) * ((θ : ℝ) : ℂ) / (((2 : ℝ) : ℝ) : ℂ)) = ((Real.cos (θ / 2) : ℝ) : ℂ) - I * ((Real.sin (θ / 2) : ℝ) : ℂ) := by
    have : (-(((1 : ℝ) : ℂ) * I)) * ((θ : ℝ) : ℂ) / (((2 : ℝ) : ℝ) : ℂ) = ((-(θ / 2) : ℝ) : ℂ) * I := by push_cast; ring
    rw [this, Complex.exp_mul_I, ← Complex.ofReal_cos, ← Complex.ofReal_sin, Real.cos_neg, Real.sin_neg]; push_cast; ring
  rw [hx]
  generalize Real.cos (θ / 2) = c
  generalize Real.sin (θ / 2) = s
  ext i j; fin_cases i <;> fin_cases j <;> simp [kron2, σz, Fin.divNat, Fin.modNat, Complex.conj_ofReal] <;> ring

/-! ### global phase, time evolution, block encoding, state preparation -/

theorem C02_phase_def (φ : ℝ) (n : ℕ) : PhaseFactorGate.mat φ n = Complex.exp (I * (φ : ℂ)) • 1 := by
  simp [PhaseFactorGate.mat]

/-- the encoded operator is the top-left block of all three block encodings (auxiliary qubit most significant) -/
theorem C02_blockEncoding_topLeft {ι : Type} (H S : Matrix ι ι ℂ) :
    (fromBlocks H (I • S) (I • S) H).toBlocks₁₁ = H ∧ (fromBlocks H ((-I) • S) ((-I) • S) H).toBlocks₁₁ = H ∧
    (fromBlocks H S S (-H)).toBlocks₁₁ = H := by
  simp [toBlocks_fromBlocks₁₁]

/-- state preparation: if the QR completion has first column `ε • u` (`ε = ±1`, `u = x/‖x‖₂`, `x ≠ 0`), then after
the sign fix `if x·Q[:,0] < 0 then flip`, the first column is exactly `u`. -/
theorem C02_prepare_firstColumn {ι : Type} [Fintype ι] (x u : ι → ℝ) (r ε : ℝ) (hr : 0 < r) (hu : ∀ i, u i = x i / r)
    (hnorm : ∑ i, x i * x i = r * r) (hε : ε = 1 ∨ ε = -1) :
    let q0 : ι → ℝ := fun i => ε * u i
    let d0 : ℝ := if (∑ i, x i * q0 i) < 0 then -1 else 1
    ∀ i, d0 * q0 i = u i := by
  intro q0 d0 i
  have hdot : ∑ i, x i * q0 i = ε * r := by
    simp only [q0, hu]
    have : ∀ i, x i * (ε * (x i / r)) = (ε / r) * (x i * x i) := fun i => by field_simp
    simp only [this, ← Finset.mul_sum, hnorm]; field_simp
  simp only [d0, hdot, q0]
  rcases hε with rfl | rfl
  · have : ¬ (1 * r < 0) := by linarith
    rw [if_neg this]; ring
  · have : (-1 * r < 0) := by linarith
    rw [if_pos this]; ring

/-- with the 1-norm normalisation `Σ|v| = 1`, `x = sign(v)·√|v|` has unit 2-norm, so the first column is
`sign(v)·√|v|` itself -/
theorem C02_prepare_column_value {ι : Type} [Fintype ι] (v : ι → ℝ) (h1 : ∑ i, |v i| = 1) :
    ∑ i, (SignType.sign (v i) * Real.sqrt |v i|) * (SignType.sign (v i) * Real.sqrt |v i|) = 1 := by
  rw [← h1]
  apply Finset.sum_congr rfl
  intro i _
  rcases lt_trichotomy (v i) 0 with h | h | h
  · simp [h, sign_neg h, Real.mul_self_sqrt (abs_nonneg _)]
  · simp [h]
  · simp [sign_pos h, Real.mul_self_sqrt (abs_nonneg _)]

/-! ### controlled and multiplexed gates -/

section Ctrl
variable {κ ι : Type} [Fintype κ] [DecidableEq κ] [Fintype ι] [DecidableEq ι]

/-- a controlled gate applies its target exactly on the control pattern `cs`, the identity elsewhere,
and never mixes different control values -/
theorem C02_controlled_apply (cs : κ) (U : Matrix ι ι ℂ) (c c' : κ) (t t' : ι) :
    blockOn cs U (c, t) (c', t') =
      if c = c' then (if c = cs then U t t' else if t = t' then 1 else 0) else 0 := by
  simp [blockOn, Matrix.one_apply]

/-- a multiplexed gate applies the `k`-th target when the controls read `k` -/
theorem C02_multiplexed_apply (U : κ → Matrix ι ι ℂ) (c c' : κ) (t t' : ι) :
    blocks U (c, t) (c', t') = if c = c' then U c t t' else 0 := by
  simp [blocks]

/-- action on basis states: `|c⟩|ψ⟩ ↦ |c⟩ U|ψ⟩` if `c = cs`, `|c⟩|ψ⟩` otherwise -/
theorem C02_controlled_mulVec (cs : κ) (U : Matrix ι ι ℂ) (c : κ) (ψ : ι → ℂ) :
    (blockOn cs U).mulVec (fun p => if p.1 = c then ψ p.2 else 0) =
      fun p => if p.1 = c then (if c = cs then U.mulVec ψ p.2 else ψ p.2) else 0 := by
  funext p
  simp only [Matrix.mulVec, dotProduct, blockOn, Fintype.sum_prod_type]
  by_cases hp : p.1 = c
  · subst hp
    rw [Finset.sum_eq_single p.1]
    · by_cases hc : p.1 = cs
      · simp [hc]
      · simp [hc, Matrix.one_apply]
    · intro k _ hk; simp [Ne.symm hk]
    · simp
  · simp only [hp, if_false]
    apply Finset.sum_eq_zero; intro k _
    by_cases hk : p.1 = k
    · have : ¬ k = c := fun h => hp (hk.trans h)
      simp [this]
    · simp [hk]

end Ctrl

/-! ### the executable (flat-index) model: control pattern is read most-significant control first -/

/-- the block index computed by the loop of `ControlledGate.as_matrix` is the binary value of `ctrl_state`
with the FIRST control as the MOST significant bit; it is a valid block index and different patterns select
different blocks ("exactly on the control pattern") -/
theorem C02_ctrlIndex_msb_first (cs : List Bool) :
    Qib.Gate.ctrlIndex cs = Qib.GateFlat.ofBitsMSB cs ∧ Qib.Gate.ctrlIndex cs < 2 ^ cs.length := by
  rw [Qib.GateFlat.ctrlIndex_msb]; exact ⟨rfl, Qib.GateFlat.ofBitsMSB_lt cs⟩

theorem C02_ctrlIndex_injective (cs ds : List Bool) (hl : cs.length = ds.length)
    (h : Qib.Gate.ctrlIndex cs = Qib.Gate.ctrlIndex ds) : cs = ds := by
  rw [Qib.GateFlat.ctrlIndex_msb, Qib.GateFlat.ctrlIndex_msb] at h
  exact Qib.GateFlat.ofBitsMSB_injective cs ds hl h

example : Qib.Gate.ctrlIndex [true, false, false] = 4 := by decide

/-! ### The same statements about the forms regenerated from the CURRENT source

`QibSrc.K.mat` / `QibSrc.K.inv` are regenerated from `src/qib/operator/gates.py` on every run; `QibBridge` proves on every run that they are
equal to the reference forms `QibRef.K.mat` / `QibRef.K.inv` used above (by a tactic that is independent of how the source spells the
closed form), so every theorem above is a theorem about what the code says now. -/

theorem C02_source_agrees : QibBridge.SrcAgrees := QibBridge.srcAgrees

end Qib.C02
