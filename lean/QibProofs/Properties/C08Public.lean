import QibProofs.Lemmas.TNetPublicValue
import QibProofs.Lemmas.TNetPublicGen
import QibProofs.Lemmas.TNetPublicWrap
import QibProofs.Lemmas.TNetPublicData
import QibProofs.Properties.C08
import Mathlib.Algebra.Ring.Int.Defs
/-!
C08 (public stage) — the PUBLIC surgery and query operations of `SymbolicTensorNetwork`: `merge_tensors`, `merge_bonds`, `add_tensor`,
`add_bond`, `generate_bonds`, `has_/get_tensor`, `has_/get_bond`, `tensor_ids`, `num_tensors`, `num_bonds`, `num_open_axes`, `shape`.
Property theorems only (helper lemmas: `QibProofs/Lemmas/TNetPublic*.lean`).

All statements are about the executable definitions of `QibModel/TNetPublic.lean` / `QibModel/TNet.lean` that the driver `drv_tnet` runs in
its op `net.historyP`. A public call is an `Outcome`: the exception it raised (if any) and the network it leaves behind.

C08's statement covers rename / transpose / merge. `merge_tensors` and `merge_bonds` are the building blocks of `merge` and are public: what
they do to a consistent network is stated here exactly (including when the result is NOT consistent: the virtual tensor merged away, bonds
of different dimensions fused); these are characterisations of out-of-statement operations, not findings.
-/
namespace Qib.C08
open Qib.TNet

/-! ### (a) `merge_tensors`: which calls are accepted, what a rejected call leaves behind -/

/-- **`merge_tensors` on ANY network** (no invariant): the call returns iff the two ids are equal (then NO lookup happens: unknown equal ids
are accepted) or both tensors exist and every bond id on an axis of the second tensor is a key of the bond dictionary. -/
theorem C08_mergeTensors_accepts_iff (net : Net) (tid1 tid2 : Int) :
    (mergeTensorsP net tid1 tid2).err = none ↔
      tid1 = tid2 ∨ ∃ T1 T2, dget net.tensors tid1 = some T1 ∧ dget net.tensors tid2 = some T2 ∧
        ∀ b ∈ T2.bids, b ∈ dkeys net.bonds := by
  rw [← mergeTensors_ok_iff]
  unfold mergeTensorsP Outcome.ofExcept
  cases mergeTensors net tid1 tid2 <;> simp

/-- every other call raises `KeyError` (never anything else) -/
theorem C08_mergeTensors_rejects_keyError (net : Net) (tid1 tid2 : Int) {e : Err}
    (h : (mergeTensorsP net tid1 tid2).err = some e) : e = .keyError := by
  unfold mergeTensorsP Outcome.ofExcept at h
  cases hm : mergeTensors net tid1 tid2 with
  | ok n => rw [hm] at h; cases h
  | error e' => rw [hm] at h; cases h; exact mergeTensors_err hm

/-- on a consistent network the guard is "both ids exist (or are equal)" … -/
theorem C08_mergeTensors_accepts_iff_consistent {net : Net} (h : Inv net) (tid1 tid2 : Int) :
    (mergeTensorsP net tid1 tid2).err = none ↔
      tid1 = tid2 ∨ (tid1 ∈ dkeys net.tensors ∧ tid2 ∈ dkeys net.tensors) := by
  have hw := ((C08_inv_iff_wf net).mp h).toWF0
  rw [C08_mergeTensors_accepts_iff]
  constructor
  · rintro (h | ⟨T1, T2, h1, h2, _⟩)
    · exact Or.inl h
    · exact Or.inr ⟨mem_dkeys_of_mem (mem_of_dget_eq_some _ h1), mem_dkeys_of_mem (mem_of_dget_eq_some _ h2)⟩
  · rintro (h | ⟨h1, h2⟩)
    · exact Or.inl h
    · obtain ⟨T1, hT1⟩ := dget_some_of_mem_dkeys h1
      obtain ⟨T2, hT2⟩ := dget_some_of_mem_dkeys h2
      exact Or.inr ⟨T1, T2, hT1, hT2, fun b hb => hw.mem_bond_keys (mem_of_dget_eq_some _ hT2) hb⟩

/-- … and **a rejected call leaves a consistent network untouched** (the `KeyError` comes from one of the two dictionary lookups that
precede every write) -/
theorem C08_mergeTensors_rejected_unchanged {net : Net} (h : Inv net) (tid1 tid2 : Int)
    (hr : (mergeTensorsP net tid1 tid2).err ≠ none) : (mergeTensorsP net tid1 tid2).net = net := by
  have hacc := C08_mergeTensors_accepts_iff_consistent h tid1 tid2
  have hno : ¬ (tid1 = tid2 ∨ (tid1 ∈ dkeys net.tensors ∧ tid2 ∈ dkeys net.tensors)) := fun hc => hr (hacc.mpr hc)
  have hun : dget net.tensors tid1 = none ∨ dget net.tensors tid2 = none := by
    by_cases h1 : tid1 ∈ dkeys net.tensors
    · right; rw [dget_none_iff]; exact fun h2 => hno (Or.inr ⟨h1, h2⟩)
    · left; rw [dget_none_iff]; exact h1
  unfold mergeTensorsP Outcome.ofExcept
  cases hm : mergeTensors net tid1 tid2 with
  | ok n =>
    exfalso; apply hr
    unfold mergeTensorsP Outcome.ofExcept; rw [hm]
  | error e => exact mergeTensorsLeft_unknown hun

/-- on ANY network an unknown id is refused before anything is written … -/
theorem C08_mergeTensors_unknown_unchanged (net : Net) {tid1 tid2 : Int} (hne : tid1 ≠ tid2)
    (hun : tid1 ∉ dkeys net.tensors ∨ tid2 ∉ dkeys net.tensors) :
    mergeTensorsP net tid1 tid2 = ⟨some .keyError, net⟩ := by
  have hun' : dget net.tensors tid1 = none ∨ dget net.tensors tid2 = none :=
    hun.imp (dget_none_iff _ _).mpr (dget_none_iff _ _).mpr
  have hrej : ¬ ∃ n, mergeTensors net tid1 tid2 = .ok n := by
    rw [mergeTensors_ok_iff]
    rintro (h | ⟨T1, T2, h1, h2, _⟩)
    · exact hne h
    · rcases hun' with h | h
      · rw [h] at h1; cases h1
      · rw [h] at h2; cases h2
  unfold mergeTensorsP Outcome.ofExcept
  cases hm : mergeTensors net tid1 tid2 with
  | ok n => exact absurd ⟨n, hm⟩ hrej
  | error e => rw [mergeTensors_err hm, mergeTensorsLeft_unknown hun']

/-- … whereas **a dangling bond id on the second tensor makes the call raise AFTER it has written** (only possible on an inconsistent
network): the second tensor is gone, the first one has not been extended. The call is not atomic. -/
theorem C08_mergeTensors_dangling_wrote (net : Net) {tid1 tid2 : Int} {T1 T2 : STensor} (hne : tid1 ≠ tid2)
    (h1 : dget net.tensors tid1 = some T1) (h2 : dget net.tensors tid2 = some T2)
    (hd : ∃ b ∈ T2.bids, b ∉ dkeys net.bonds) :
    (mergeTensorsP net tid1 tid2).err = some .keyError ∧
      (mergeTensorsP net tid1 tid2).net.tensors = dpop net.tensors tid2 ∧
      tid2 ∉ dkeys (mergeTensorsP net tid1 tid2).net.tensors := by
  have hrej : ¬ ∃ n, mergeTensors net tid1 tid2 = .ok n := by
    rw [mergeTensors_ok_iff]
    rintro (h | ⟨T1', T2', h1', h2', hall⟩)
    · exact hne h
    · rw [h2] at h2'; cases h2'
      obtain ⟨b, hb, hnb⟩ := hd
      exact hnb (hall b hb)
  unfold mergeTensorsP Outcome.ofExcept
  cases hm : mergeTensors net tid1 tid2 with
  | ok n => exact absurd ⟨n, hm⟩ hrej
  | error e =>
    have hl : (mergeTensorsLeft net tid1 tid2).tensors = dpop net.tensors tid2 := by
      unfold mergeTensorsLeft; rw [h1, h2]
    refine ⟨by rw [mergeTensors_err hm], hl, ?_⟩
    show tid2 ∉ dkeys (mergeTensorsLeft net tid1 tid2).tensors
    rw [hl]; exact notMem_dkeys_dpop _ _

/-! ### (a) `merge_bonds` -/

/-- **`merge_bonds` on ANY network**: the call returns iff the ids are equal (no lookup) or both bonds exist and every tensor id stored in
the second bond is a key of the tensor dictionary. The dimensions of the two bonds are NOT compared. -/
theorem C08_mergeBonds_accepts_iff (net : Net) (bid1 bid2 : Int) :
    (mergeBondsP net bid1 bid2).err = none ↔
      bid1 = bid2 ∨ ∃ B1 B2, dget net.bonds bid1 = some B1 ∧ dget net.bonds bid2 = some B2 ∧
        ∀ t ∈ B2.tids, t ∈ dkeys net.tensors := by
  rw [← mergeBonds_ok_iff]
  unfold mergeBondsP Outcome.ofExcept
  cases mergeBonds net bid1 bid2 <;> simp

theorem C08_mergeBonds_rejects_keyError (net : Net) (bid1 bid2 : Int) {e : Err}
    (h : (mergeBondsP net bid1 bid2).err = some e) : e = .keyError := by
  unfold mergeBondsP Outcome.ofExcept at h
  cases hm : mergeBonds net bid1 bid2 with
  | ok n => rw [hm] at h; cases h
  | error e' => rw [hm] at h; cases h; exact mergeBonds_err hm

theorem C08_mergeBonds_accepts_iff_consistent {net : Net} (h : Inv net) (bid1 bid2 : Int) :
    (mergeBondsP net bid1 bid2).err = none ↔ bid1 = bid2 ∨ (bid1 ∈ dkeys net.bonds ∧ bid2 ∈ dkeys net.bonds) := by
  have hw := ((C08_inv_iff_wf net).mp h).toWF0
  rw [C08_mergeBonds_accepts_iff]
  constructor
  · rintro (h | ⟨B1, B2, h1, h2, _⟩)
    · exact Or.inl h
    · exact Or.inr ⟨mem_dkeys_of_mem (mem_of_dget_eq_some _ h1), mem_dkeys_of_mem (mem_of_dget_eq_some _ h2)⟩
  · rintro (h | ⟨h1, h2⟩)
    · exact Or.inl h
    · obtain ⟨B1, hB1⟩ := dget_some_of_mem_dkeys h1
      obtain ⟨B2, hB2⟩ := dget_some_of_mem_dkeys h2
      exact Or.inr ⟨B1, B2, hB1, hB2, fun t ht => hw.mem_tensor_keys (mem_of_dget_eq_some _ hB2) ht⟩

/-- a rejected `merge_bonds` leaves a consistent network untouched -/
theorem C08_mergeBonds_rejected_unchanged {net : Net} (h : Inv net) (bid1 bid2 : Int)
    (hr : (mergeBondsP net bid1 bid2).err ≠ none) : (mergeBondsP net bid1 bid2).net = net := by
  have hacc := C08_mergeBonds_accepts_iff_consistent h bid1 bid2
  have hno : ¬ (bid1 = bid2 ∨ (bid1 ∈ dkeys net.bonds ∧ bid2 ∈ dkeys net.bonds)) := fun hc => hr (hacc.mpr hc)
  have hun : dget net.bonds bid1 = none ∨ dget net.bonds bid2 = none := by
    by_cases h1 : bid1 ∈ dkeys net.bonds
    · right; rw [dget_none_iff]; exact fun h2 => hno (Or.inr ⟨h1, h2⟩)
    · left; rw [dget_none_iff]; exact h1
  unfold mergeBondsP Outcome.ofExcept
  cases hm : mergeBonds net bid1 bid2 with
  | ok n =>
    exfalso; apply hr
    unfold mergeBondsP Outcome.ofExcept; rw [hm]
  | error e => exact mergeBondsLeft_unknown hun

theorem C08_mergeBonds_unknown_unchanged (net : Net) {bid1 bid2 : Int} (hne : bid1 ≠ bid2)
    (hun : bid1 ∉ dkeys net.bonds ∨ bid2 ∉ dkeys net.bonds) :
    mergeBondsP net bid1 bid2 = ⟨some .keyError, net⟩ := by
  have hun' : dget net.bonds bid1 = none ∨ dget net.bonds bid2 = none :=
    hun.imp (dget_none_iff _ _).mpr (dget_none_iff _ _).mpr
  have hrej : ¬ ∃ n, mergeBonds net bid1 bid2 = .ok n := by
    rw [mergeBonds_ok_iff]
    rintro (h | ⟨B1, B2, h1, h2, _⟩)
    · exact hne h
    · rcases hun' with h | h
      · rw [h] at h1; cases h1
      · rw [h] at h2; cases h2
  unfold mergeBondsP Outcome.ofExcept
  cases hm : mergeBonds net bid1 bid2 with
  | ok n => exact absurd ⟨n, hm⟩ hrej
  | error e => rw [mergeBonds_err hm, mergeBondsLeft_unknown hun']

/-- a dangling tensor id in the second bond: `KeyError` after the second bond has been removed (not atomic; inconsistent networks only) -/
theorem C08_mergeBonds_dangling_wrote (net : Net) {bid1 bid2 : Int} {B1 B2 : SBond} (hne : bid1 ≠ bid2)
    (h1 : dget net.bonds bid1 = some B1) (h2 : dget net.bonds bid2 = some B2)
    (hd : ∃ t ∈ B2.tids, t ∉ dkeys net.tensors) :
    (mergeBondsP net bid1 bid2).err = some .keyError ∧ bid2 ∉ dkeys (mergeBondsP net bid1 bid2).net.bonds := by
  have hrej : ¬ ∃ n, mergeBonds net bid1 bid2 = .ok n := by
    rw [mergeBonds_ok_iff]
    rintro (h | ⟨B1', B2', h1', h2', hall⟩)
    · exact hne h
    · rw [h2] at h2'; cases h2'
      obtain ⟨t, ht, hnt⟩ := hd
      exact hnt (hall t ht)
  unfold mergeBondsP Outcome.ofExcept
  cases hm : mergeBonds net bid1 bid2 with
  | ok n => exact absurd ⟨n, hm⟩ hrej
  | error e =>
    refine ⟨by rw [mergeBonds_err hm], ?_⟩
    show bid2 ∉ dkeys (mergeBondsLeft net bid1 bid2).bonds
    unfold mergeBondsLeft; rw [h1, h2]
    simp only [dkeys_dmodify]
    exact notMem_dkeys_dpop _ _

/-! ### (b) consistency and counts after `merge_tensors` -/

/-- equal ids: the call is the identity (even for ids that do not exist) -/
theorem C08_mergeTensors_same (net : Net) (tid : Int) : mergeTensorsP net tid tid = ⟨none, net⟩ :=
  (mergeTensorsP_ok_iff _ _ _ _).mpr (mergeTensors_self net tid)

/-- **`merge_tensors` keeps the network consistent** whenever the second operand is not the virtual tensor (the first one may be: the axes
of the second tensor then become open axes - what `merge` does with the virtual tensor of the other network) -/
theorem C08_mergeTensors_consistent {net net' : Net} {tid1 tid2 : Int} (h : Inv net) (h2 : tid2 ≠ -1)
    (hok : mergeTensorsP net tid1 tid2 = ⟨none, net'⟩) : Inv net' := by
  rw [mergeTensorsP_ok_iff] at hok
  by_cases hne : tid1 = tid2
  · subst hne
    rw [mergeTensors_self] at hok
    exact (Except.ok.inj hok) ▸ h
  · exact (C08_inv_iff_wf net').mpr (mergeTensors_wf ((C08_inv_iff_wf net).mp h) hne h2 hok)

/-- … and **exactly then**: merging the virtual tensor into another tensor is accepted by the code and leaves an object that fails
`is_consistent()` (there is no virtual tensor any more; every count raises `RuntimeError`) -/
theorem C08_mergeTensors_virtual_lost {net net' : Net} {tid1 : Int} (h : Inv net) (h1 : tid1 ≠ -1)
    (hok : mergeTensorsP net tid1 (-1) = ⟨none, net'⟩) :
    isConsistent net' = .ok false ∧ numTensors net' = .error .runtimeError ∧ numOpenAxes net' = .error .runtimeError := by
  rw [mergeTensorsP_ok_iff] at hok
  have hw := (C08_inv_iff_wf net).mp h
  have hk := (dkeys_mergeTensors hw.toWF0 h1 hok).1
  have hnot : (-1 : Int) ∉ dkeys net'.tensors := by
    rw [hk, List.mem_filter]; simp
  have hg : dget net'.tensors (-1) = none := dget_eq_none_of_notMem _ hnot
  refine ⟨mergeTensors_virtual_lost hw h1 hok, ?_, ?_⟩
  · unfold numTensors virt; rw [hg]; rfl
  · unfold numOpenAxes virt; rw [hg]; rfl

/-- **counts after `merge_tensors`**: one tensor fewer, the bonds unchanged, the open axes unchanged - unless the first operand is the
virtual tensor, which gains the axes of the second -/
theorem C08_mergeTensors_counts {net net' : Net} {tid1 tid2 : Int} (h : Inv net) (hne : tid1 ≠ tid2) (h2 : tid2 ≠ -1)
    (hok : mergeTensorsP net tid1 tid2 = ⟨none, net'⟩) :
    ∃ n o T2, numTensors net = .ok (n + 1) ∧ numOpenAxes net = .ok o ∧ dget net.tensors tid2 = some T2 ∧
      numTensors net' = .ok n ∧ numBonds net' = numBonds net ∧
      numOpenAxes net' = .ok (if tid1 = -1 then o + T2.shape.length else o) := by
  rw [mergeTensorsP_ok_iff] at hok
  have hw := (C08_inv_iff_wf net).mp h
  have hw' := mergeTensors_wf hw hne h2 hok
  obtain ⟨v, hv⟩ := hw.virt_get
  obtain ⟨T1, T2, hT1, hT2, _⟩ := mergeTensors_spec hw.toWF0 hne hok
  obtain ⟨hl1, hl2⟩ := length_mergeTensors hw.toWF0 hne hok
  have hv' := virt_mergeTensors hw.toWF0 hne h2 hv hT2 hok
  -- two distinct keys (`tid2` and `-1`): at least two tensors
  have hlen2 : 2 ≤ net.tensors.length := by
    have hp := perm_cons_dpop net.tensors hw.tnodup hT2
    have hv2 : dget (dpop net.tensors tid2) (-1) = some v := by
      rw [dget_dpop_ne _ (fun e : (-1 : Int) = tid2 => h2 e.symm)]; exact hv
    have := List.length_pos_of_mem (mem_of_dget_eq_some _ hv2)
    have := hp.length_eq
    simp only [List.length_cons] at this
    omega
  refine ⟨net.tensors.length - 2, v.shape.length, T2, ?_, numOpenAxes_eq hv, hT2, ?_, ?_, ?_⟩
  · rw [numTensors_eq hw.virt]; congr 1; omega
  · rw [numTensors_eq hw'.virt]; congr 1; omega
  · simp only [numBonds, hl2]
  · rw [numOpenAxes_eq hv']
    by_cases ht : tid1 = -1
    · simp [ht, catTensor]
    · simp [ht]

/-! ### (b) consistency and counts after `merge_bonds` -/

theorem C08_mergeBonds_same (net : Net) (bid : Int) : mergeBondsP net bid bid = ⟨none, net⟩ :=
  (mergeBondsP_ok_iff _ _ _ _).mpr (mergeBonds_self net bid)

/-- **`merge_bonds` keeps the network consistent iff the two bonds have the same dimension** (the code does not compare them). Two bonds
attached to one tensor are no exception: the fused bond then refers to that tensor once per axis (a trace) and passes the check. -/
theorem C08_mergeBonds_consistent_iff {net net' : Net} {bid1 bid2 : Int} (h : Inv net) (hne : bid1 ≠ bid2)
    (hok : mergeBondsP net bid1 bid2 = ⟨none, net'⟩) : Inv net' ↔ bondDim net bid1 = bondDim net bid2 := by
  rw [mergeBondsP_ok_iff] at hok
  have hw := (C08_inv_iff_wf net).mp h
  constructor
  · intro h'
    exact mergeBonds_dims_of_wf hw hne hok ((C08_inv_iff_wf net').mp h').toWF0
  · intro hd
    exact (C08_inv_iff_wf net').mpr (mergeBonds_wf hw hne hd hok)

theorem C08_mergeBonds_consistent {net net' : Net} {bid1 bid2 : Int} (h : Inv net)
    (hd : bondDim net bid1 = bondDim net bid2) (hok : mergeBondsP net bid1 bid2 = ⟨none, net'⟩) : Inv net' := by
  by_cases hne : bid1 = bid2
  · subst hne
    rw [mergeBondsP_ok_iff, mergeBonds_self] at hok
    exact (Except.ok.inj hok) ▸ h
  · exact (C08_mergeBonds_consistent_iff h hne hok).mpr hd

/-- **counts after `merge_bonds`**: one bond fewer; tensors, open axes and the shape unchanged (whatever the dimensions) -/
theorem C08_mergeBonds_counts {net net' : Net} {bid1 bid2 : Int} (h : Inv net) (hne : bid1 ≠ bid2)
    (hok : mergeBondsP net bid1 bid2 = ⟨none, net'⟩) :
    numBonds net' + 1 = numBonds net ∧ numTensors net' = numTensors net ∧ numOpenAxes net' = numOpenAxes net ∧
      netShape net' = netShape net := by
  rw [mergeBondsP_ok_iff] at hok
  have hw := (C08_inv_iff_wf net).mp h
  obtain ⟨v, hv⟩ := hw.virt_get
  obtain ⟨hl1, hl2⟩ := length_mergeBonds hw.toWF0 hne hok
  have hv' := virt_mergeBonds hw.toWF0 hne hv hok
  have hvirt' : (-1 : Int) ∈ dkeys net'.tensors := by
    rw [(dkeys_mergeBonds hw.toWF0 hne hok).1]; exact hw.virt
  refine ⟨by simp only [numBonds]; exact hl2, ?_, ?_, ?_⟩
  · rw [numTensors_eq hvirt', numTensors_eq hw.virt, hl1]
  · rw [numOpenAxes_eq hv', numOpenAxes_eq hv]
  · unfold netShape virt; rw [hv', hv]; rfl

/-! ### `TensorNetwork.is_consistent` (with the data dictionary) -/

/-- **`merge_bonds` keeps a `TensorNetwork` consistent with its data** (bonds of one dimension): no tensor changes its shape or its data
reference -/
theorem C08_mergeBonds_consistentData {net net' : Net} {bid1 bid2 : Int} (h : Inv net)
    (hd : bondDim net bid1 = bondDim net bid2) (hok : mergeBondsP net bid1 bid2 = ⟨none, net'⟩) (data : Data)
    (hdat : isConsistentData net data = .ok true) : isConsistentData net' data = .ok true := by
  have h' := C08_mergeBonds_consistent h hd hok
  rw [isConsistentData_ok_true_iff] at hdat ⊢
  refine ⟨h'.2, ?_⟩
  by_cases hne : bid1 = bid2
  · subst hne
    rw [mergeBondsP_ok_iff, mergeBonds_self] at hok
    rw [← Except.ok.inj hok]; exact hdat.2
  · obtain ⟨B1, B2, _, _, rfl⟩ := mergeBonds_spec ((C08_inv_iff_wf net).mp h).toWF0 hne ((mergeBondsP_ok_iff _ _ _ _).mp hok)
    simp only
    rw [dataOK_relTensors]; exact hdat.2

/-- **`merge_tensors` of two real tensors leaves a `TensorNetwork` whose data check FAILS until the caller stores the product array**: the
fused tensor keeps the first operand's data reference but has the concatenated shape (characterisation; `TensorNetwork` offers no
`merge_tensors` of its own, the symbolic call is reached through `tn.net`) -/
theorem C08_mergeTensors_consistentData_lost {net net' : Net} {tid1 tid2 : Int} {T2 : STensor} (h : Inv net)
    (hne : tid1 ≠ tid2) (h1 : tid1 ≠ -1) (h2 : tid2 ≠ -1) (hT2 : dget net.tensors tid2 = some T2) (hs : T2.shape ≠ [])
    (hok : mergeTensorsP net tid1 tid2 = ⟨none, net'⟩) (data : Data) (hdat : isConsistentData net data = .ok true) :
    isConsistent net' = .ok true ∧ isConsistentData net' data = .ok false := by
  have h' := C08_mergeTensors_consistent h h2 hok
  have hw := (C08_inv_iff_wf net).mp h
  obtain ⟨T1, T2', hT1, hT2', hnet⟩ := mergeTensors_spec hw.toWF0 hne ((mergeTensorsP_ok_iff _ _ _ _).mp hok)
  rw [hT2] at hT2'; cases hT2'
  refine ⟨h'.2, ?_⟩
  rw [isConsistentData_ok_true_iff] at hdat
  rw [isConsistentData_eq, h'.2]
  simp only [bind, Except.bind, Bool.not_true, Bool.false_eq_true, if_false, pure, Except.pure]
  congr 1
  -- the fused tensor fails the data test
  have hfused : dget net'.tensors tid1 = some (catTensor T1 T2) := by
    rw [hnet]; simp only
    rw [dget_dmodify, dget_dpop_ne _ hne, hT1]; simp
  have hm' := mem_of_dget_eq_some _ hfused
  have hm1 := mem_of_dget_eq_some _ hT1
  have hk1 : T1.tid = tid1 := hw.tkey _ hm1
  have hold := List.all_eq_true.mp hdat.2 _ hm1
  have hne1 : (T1.tid == -1) = false := by rw [hk1]; simpa using h1
  simp only [hne1, Bool.false_or] at hold
  cases hb : dataOK net'.tensors data with
  | false => rfl
  | true =>
    exfalso
    have hnew := List.all_eq_true.mp hb _ hm'
    have hne1' : ((catTensor T1 T2).tid == -1) = false := hne1
    simp only [hne1', Bool.false_or] at hnew
    have hr : (catTensor T1 T2).dataref = T1.dataref := rfl
    rw [hr] at hnew
    cases href : T1.dataref with
    | none => rw [href] at hold; cases hold
    | some r =>
      rw [href] at hold hnew
      simp only at hold hnew
      cases hl : List.lookup r data with
      | none => rw [hl] at hold; cases hold
      | some d =>
        rw [hl] at hold hnew
        simp only [beq_iff_eq] at hold hnew
        have : T1.shape = T1.shape ++ T2.shape := by
          have e : d.shape = T1.shape ++ T2.shape := hnew
          rw [← hold]; rw [hold] at e ⊢; exact e
        have : T2.shape = [] := by
          have := congrArg List.length this
          simp only [List.length_append] at this
          exact List.length_eq_zero_iff.mp (by omega)
        exact hs this

/-! ### (d) the queries agree with each other, on EVERY network -/

/-- `has_tensor` says whether `get_tensor` returns (otherwise it raises `KeyError`) -/
theorem C08_hasTensor_iff_getTensor (net : Net) (tid : Int) :
    (hasTensor net tid = true ↔ ∃ T, getTensor net tid = .ok T) ∧
      (hasTensor net tid = false ↔ getTensor net tid = .error .keyError) := by
  unfold hasTensor getTensor
  cases hg : dget net.tensors tid with
  | none =>
    have := (dhas_false_iff _ _).mpr ((dget_none_iff _ _).mp hg)
    simp [this]
  | some T =>
    have := (dhas_iff _ _).mpr (mem_dkeys_of_mem (mem_of_dget_eq_some _ hg))
    simp [this]

theorem C08_hasBond_iff_getBond (net : Net) (bid : Int) :
    (hasBond net bid = true ↔ ∃ B, getBond net bid = .ok B) ∧
      (hasBond net bid = false ↔ getBond net bid = .error .keyError) := by
  unfold hasBond getBond
  cases hg : dget net.bonds bid with
  | none =>
    have := (dhas_false_iff _ _).mpr ((dget_none_iff _ _).mp hg)
    simp [this]
  | some B =>
    have := (dhas_iff _ _).mpr (mem_dkeys_of_mem (mem_of_dget_eq_some _ hg))
    simp [this]

/-- the four queries that need the virtual tensor raise `RuntimeError` together, exactly when it is missing -/
theorem C08_queries_need_virtual (net : Net) :
    (hasTensor net (-1) = false ↔ numTensors net = .error .runtimeError) ∧
    (hasTensor net (-1) = false ↔ numOpenAxes net = .error .runtimeError) ∧
    (hasTensor net (-1) = false ↔ netShape net = .error .runtimeError) ∧
    (hasTensor net (-1) = false ↔ tensorIds net = .error .runtimeError) := by
  unfold hasTensor numTensors numOpenAxes netShape tensorIds virt
  cases hg : dget net.tensors (-1) with
  | none =>
    have := (dhas_false_iff _ _).mpr ((dget_none_iff _ _).mp hg)
    simp [this, bind, Except.bind]
  | some T =>
    have := (dhas_iff _ _).mpr (mem_dkeys_of_mem (mem_of_dget_eq_some _ hg))
    simp [this, bind, Except.bind, pure, Except.pure]

/-- **`num_tensors` is the length of `tensor_ids()`** (both leave the virtual tensor out), **`num_open_axes` is the length of `shape`**,
and `shape` is the shape stored in the virtual tensor -/
theorem C08_counts_agree (net : Net) (h : hasTensor net (-1) = true) :
    ∃ ids s v, tensorIds net = .ok ids ∧ numTensors net = .ok ids.length ∧ netShape net = .ok s ∧
      numOpenAxes net = .ok s.length ∧ getTensor net (-1) = .ok v ∧ v.shape = s := by
  have hk : (-1 : Int) ∈ dkeys net.tensors := (dhas_iff _ _).mp h
  obtain ⟨v, hv⟩ := dget_some_of_mem_dkeys hk
  refine ⟨(isort (dkeys net.tensors)).erase (-1), v.shape, v, ?_, ?_, ?_, ?_, ?_, rfl⟩
  · unfold tensorIds virt; rw [hv]; rfl
  · rw [numTensors_eq hk]
    have hm : (-1 : Int) ∈ isort (dkeys net.tensors) := mem_isort.mpr hk
    rw [List.length_erase_of_mem hm, length_isort]
    simp [dkeys]
  · unfold netShape virt; rw [hv]; rfl
  · exact numOpenAxes_eq hv
  · unfold getTensor; rw [hv]

/-- `tensor_ids()` lists, in increasing order, exactly the ids `has_tensor` answers `True` for, except `-1` (dictionary keys are unique) -/
theorem C08_tensorIds_spec (net : Net) (hn : (dkeys net.tensors).Nodup) {ids : List Int} (h : tensorIds net = .ok ids) :
    ids.Pairwise (· ≤ ·) ∧ ∀ t, t ∈ ids ↔ (hasTensor net t = true ∧ t ≠ -1) := by
  unfold tensorIds virt at h
  cases hv : dget net.tensors (-1) with
  | none => rw [hv] at h; cases h
  | some v =>
    rw [hv] at h
    have hids : ids = (isort (dkeys net.tensors)).erase (-1) := (Except.ok.inj h).symm
    subst hids
    have hnd : (isort (dkeys net.tensors)).Nodup := (isort_perm _).nodup_iff.mpr hn
    refine ⟨(isort_sorted _).sublist List.erase_sublist, fun t => ?_⟩
    rw [hnd.mem_erase_iff, mem_isort]
    unfold hasTensor
    rw [dhas_iff]
    exact and_comm

/-- `num_bonds` counts the keys `has_bond` answers `True` for -/
theorem C08_numBonds_eq (net : Net) : numBonds net = (dkeys net.bonds).length ∧ ∀ b, hasBond net b = true ↔ b ∈ dkeys net.bonds :=
  ⟨by simp [numBonds, dkeys], fun b => dhas_iff _ _⟩

/-- **on a consistent network `shape` lists the dimensions of the bonds on the open axes, in order** -/
theorem C08_shape_eq_bondDims {net : Net} (h : Inv net) {v : STensor} (hv : getTensor net (-1) = .ok v) :
    netShape net = .ok (v.bids.map (bondDim net)) := by
  have hw := (C08_inv_iff_wf net).mp h
  unfold getTensor at hv
  cases hg : dget net.tensors (-1) with
  | none => rw [hg] at hv; cases hv
  | some v' =>
    rw [hg] at hv
    have : v' = v := Except.ok.inj hv
    subst this
    unfold netShape virt; rw [hg]
    show Except.ok v'.shape = Except.ok (v'.bids.map (bondDim net))
    congr 1
    have hm := mem_of_dget_eq_some _ hg
    have hlen := hw.tshape _ hm
    simp only at hlen
    apply List.ext_getElem (by simp [hlen])
    intro i h1 h2
    simp only [List.getElem_map]
    have hb : i < v'.bids.length := by simpa using h2
    have := hw.toWF0.shape_eq_bondDim hm (ax := i) (b := v'.bids[i])
      (by show v'.bids[i]? = _; exact List.getElem?_eq_getElem hb)
    simp only at this
    rw [List.getElem?_eq_getElem h1] at this
    exact Option.some.inj this

/-- **`get_bond_axes` on a consistent network**: for an existing bond it returns one axis per stored tensor id, and that axis of that tensor
carries the bond (the back reference); for an unknown bond it raises `KeyError` (on every network) -/
theorem C08_getBondAxes_spec {net : Net} (h : Inv net) {bid : Int} {B : SBond} (hB : getBond net bid = .ok B) :
    ∃ axes, getBondAxes net bid = .ok axes ∧ axes.length = B.tids.length ∧
      ∀ p ∈ B.tids.zip axes, ∃ T, getTensor net p.1 = .ok T ∧ T.bids[p.2]? = some bid := by
  have hw := ((C08_inv_iff_wf net).mp h).toWF0
  unfold getBond at hB
  cases hg : dget net.bonds bid with
  | none => rw [hg] at hB; cases hB
  | some B' =>
    rw [hg] at hB
    have : B' = B := Except.ok.inj hB
    subst this
    have hm := mem_of_dget_eq_some _ hg
    obtain ⟨axes, hs⟩ := hw.axesSpec_exists hm
    refine ⟨axes, (getBondAxes_ok_iff net bid axes).mpr ⟨B', hg, hw.bkey _ hm, hs⟩, hs.1, ?_⟩
    intro p hp
    obtain ⟨i, hi, hi', rfl, T, hT, hax, _⟩ := hs.entry hp
    exact ⟨T, by unfold getTensor; rw [hT], hax⟩

theorem C08_getBondAxes_unknown (net : Net) {bid : Int} (h : hasBond net bid = false) :
    getBondAxes net bid = .error .keyError := by
  have hg : dget net.bonds bid = none := (dget_none_iff _ _).mpr ((dhas_false_iff _ _).mp h)
  unfold getBondAxes
  rw [hg]; rfl

/-! ### `add_tensor`, `add_bond`: guards; what they do to consistency -/

/-- `add_tensor(SymbolicTensor(tid, shape, bids, dataref))` is accepted iff `len(shape) == len(bids)` and the id is new; otherwise
`ValueError` and nothing is written. On every network. -/
theorem C08_addTensor_accepts_iff (net : Net) (tid : Int) (shape : List Nat) (bids : List Int) (r : Option Int) :
    ((addTensorP net tid shape bids r).err = none ↔ shape.length = bids.length ∧ tid ∉ dkeys net.tensors) ∧
    ((addTensorP net tid shape bids r).err ≠ none →
      addTensorP net tid shape bids r = ⟨some .valueError, net⟩) := by
  unfold addTensorP mkTensor addTensor Outcome.ofExcept
  by_cases hl : shape.length = bids.length
  · by_cases hk : tid ∈ dkeys net.tensors
    · have := (dhas_iff _ _).mpr hk
      simp [hl, hk, this]
    · have := (dhas_false_iff _ _).mpr hk
      simp [hl, hk, this]
  · simp [hl]

/-- an accepted `add_tensor` appends the tensor under its id and touches nothing else -/
theorem C08_addTensor_result (net : Net) (tid : Int) (shape : List Nat) (bids : List Int) (r : Option Int)
    (h : (addTensorP net tid shape bids r).err = none) :
    (addTensorP net tid shape bids r).net = ⟨net.tensors ++ [(tid, ⟨tid, shape, bids, r⟩)], net.bonds⟩ := by
  obtain ⟨hl, hk⟩ := ((C08_addTensor_accepts_iff net tid shape bids r).1).mp h
  have := (dhas_false_iff _ _).mpr hk
  unfold addTensorP mkTensor addTensor Outcome.ofExcept
  simp [hl, this]

theorem C08_addBond_accepts_iff (net : Net) (bid : Int) (tids : List Int) :
    ((addBondP net bid tids).err = none ↔ 2 ≤ tids.length ∧ bid ∉ dkeys net.bonds) ∧
    ((addBondP net bid tids).err ≠ none → addBondP net bid tids = ⟨some .valueError, net⟩) := by
  unfold addBondP mkBond addBond Outcome.ofExcept
  by_cases hl : tids.length < 2
  · simp [hl]
  · by_cases hk : bid ∈ dkeys net.bonds
    · have := (dhas_iff _ _).mpr hk
      simp [hl, hk, this]
    · have := (dhas_false_iff _ _).mpr hk
      simp [hl, hk, this]; omega

/-- an accepted `add_bond` appends the bond with its tensor ids SORTED (the constructor sorts) and touches no tensor -/
theorem C08_addBond_result (net : Net) (bid : Int) (tids : List Int) (h : (addBondP net bid tids).err = none) :
    (addBondP net bid tids).net = ⟨net.tensors, net.bonds ++ [(bid, ⟨bid, isort tids⟩)]⟩ := by
  obtain ⟨hl, hk⟩ := ((C08_addBond_accepts_iff net bid tids).1).mp h
  have := (dhas_false_iff _ _).mpr hk
  have hl' : ¬ tids.length < 2 := by omega
  unfold addBondP mkBond addBond Outcome.ofExcept
  simp [hl', this]

/-- **`add_tensor` of a tensor without axes keeps the network consistent** (a scalar factor) -/
theorem C08_addTensor_scalar_consistent {net : Net} (h : Inv net) (tid : Int) (shape : List Nat) (r : Option Int) :
    Inv (addTensorP net tid shape [] r).net := by
  by_cases he : (addTensorP net tid shape [] r).err = none
  · obtain ⟨hl, hk⟩ := ((C08_addTensor_accepts_iff net tid shape [] r).1).mp he
    have hs : shape = [] := List.length_eq_zero_iff.mp hl
    subst hs
    rw [C08_addTensor_result net tid [] [] r he]
    have hw := (C08_inv_iff_wf net).mp h
    refine (C08_inv_iff_wf _).mpr (addTensor_scalar_wf (T := ⟨tid, [], [], r⟩) hw rfl rfl ?_)
    unfold addTensor
    rw [(dhas_false_iff _ _).mpr hk]; rfl
  · rw [((C08_addTensor_accepts_iff net tid shape [] r).2) he]
    exact h

/-- … and **only then**: a tensor with axes added to a consistent network is not referred to by any bond yet, the result fails the check
(`add_tensor` + `add_bond` / `generate_bonds` are construction steps) -/
theorem C08_addTensor_axes_breaks {net : Net} (h : Inv net) (tid : Int) (shape : List Nat) (bids : List Int) (r : Option Int)
    (hb : bids ≠ []) (hacc : (addTensorP net tid shape bids r).err = none) :
    ¬ Inv (addTensorP net tid shape bids r).net := by
  rw [C08_addTensor_result net tid shape bids r hacc]
  intro h'
  have hw := (C08_inv_iff_wf net).mp h
  have hw' := (C08_inv_iff_wf _).mp h'
  have l1 := hw.legs.length_eq
  have l2 := hw'.legs.length_eq
  have e1 : tLegs ⟨net.tensors ++ [(tid, ⟨tid, shape, bids, r⟩)], net.bonds⟩ = tLegs net ++ bids.map (fun b => (tid, b)) := by
    simp [tLegs]
  have e2 : bLegs ⟨net.tensors ++ [(tid, ⟨tid, shape, bids, r⟩)], net.bonds⟩ = bLegs net := rfl
  rw [e1, e2, List.length_append, List.length_map] at l2
  have : bids.length ≠ 0 := fun hc => hb (List.length_eq_zero_iff.mp hc)
  omega

/-- **an accepted `add_bond` never leaves a consistent network consistent**: no tensor refers to the new bond yet (the two directions of
the incidence no longer match). `add_tensor` / `add_bond` are construction steps; consistency is a property of the finished network. -/
theorem C08_addBond_breaks {net : Net} (h : Inv net) (bid : Int) (tids : List Int)
    (hacc : (addBondP net bid tids).err = none) : ¬ Inv (addBondP net bid tids).net := by
  obtain ⟨hl, hk⟩ := ((C08_addBond_accepts_iff net bid tids).1).mp hacc
  rw [C08_addBond_result net bid tids hacc]
  intro h'
  have hw := (C08_inv_iff_wf net).mp h
  have hw' := (C08_inv_iff_wf _).mp h'
  have l1 := hw.legs.length_eq
  have l2 := hw'.legs.length_eq
  have e1 : tLegs ⟨net.tensors, net.bonds ++ [(bid, ⟨bid, isort tids⟩)]⟩ = tLegs net := rfl
  have e2 : bLegs ⟨net.tensors, net.bonds ++ [(bid, ⟨bid, isort tids⟩)]⟩ = bLegs net ++ (isort tids).map (fun t => (t, bid)) := by
    simp [bLegs]
  rw [e1, e2, List.length_append, List.length_map, length_isort] at l2
  omega

/-! ### `generate_bonds` -/

/-- `generate_bonds` on a non-empty bond collection: `RuntimeError`, nothing written -/
theorem C08_generateBonds_nonempty (net : Net) (h : net.bonds ≠ []) : generateBondsP net = ⟨some .runtimeError, net⟩ := by
  unfold generateBondsP
  cases hb : net.bonds with
  | nil => exact absurd hb h
  | cons b bs => simp

/-- **`generate_bonds` in closed form** (empty bond collection, any tensors): the bond ids on the axes of the tensors are visited in
increasing order without repetition (`genIds`); each gets the bond with the sorted ids of the tensors carrying it, once per axis
(`genBond`). The call returns iff every id is carried by at least two axes; otherwise the `SymbolicBond` constructor raises `ValueError`
at the first id carried by a single axis and THE BONDS GENERATED BEFORE IT STAY (not atomic). -/
theorem C08_generateBonds_closed_form (ts : List (Int × STensor)) :
    generateBondsP ⟨ts, []⟩ =
      ⟨if (genIds ts).all (twoRefs ts) then none else some .valueError,
       ⟨ts, ((genIds ts).takeWhile (twoRefs ts)).map (genBond ts)⟩⟩ ∧
    (genIds ts).Nodup ∧ (genIds ts).Pairwise (· ≤ ·) ∧ (∀ b, b ∈ genIds ts ↔ ∃ e ∈ ts, b ∈ e.2.bids) :=
  ⟨generateBondsP_empty ts, nodup_genIds ts, sorted_genIds ts, fun _ => mem_genIds⟩

/-- **an accepted `generate_bonds` yields a consistent network** whenever the tensor dictionary is sound (keys = ids, unique,
`len(shape) == len(bids)`, one dimension per bond id, virtual tensor present) -/
theorem C08_generateBonds_consistent {ts : List (Int × STensor)} (h : TensOK ts)
    (hacc : (generateBondsP ⟨ts, []⟩).err = none) : Inv (generateBondsP ⟨ts, []⟩).net := by
  rw [generateBondsP_empty] at hacc ⊢
  have hall : (genIds ts).all (twoRefs ts) = true := by
    by_contra hc
    simp only [hc, if_false] at hacc
    cases hacc
  have htw : (genIds ts).takeWhile (twoRefs ts) = genIds ts :=
    takeWhile_of_all _ _ hall
  simp only [htw]
  exact (C08_inv_iff_wf _).mpr (generated_wf h hall)

/-- **`generate_bonds` rebuilds the bonds of a consistent network**: drop the bond dictionary of a consistent network and call
`generate_bonds` - it returns, the result is consistent, has the same tensors, and every bond of the original network is back with the same
tensor-id list (the dictionary is now ordered by bond id) -/
theorem C08_generateBonds_rebuilds {net : Net} (h : Inv net) :
    ∃ net', generateBondsP ⟨net.tensors, []⟩ = ⟨none, net'⟩ ∧ Inv net' ∧ net'.tensors = net.tensors ∧
      dkeys net'.bonds = genIds net.tensors ∧ ∀ b, dget net'.bonds b = dget net.bonds b := by
  have hw := (C08_inv_iff_wf net).mp h
  have hall := twoRefs_of_wf hw
  have htw : (genIds net.tensors).takeWhile (twoRefs net.tensors) = genIds net.tensors :=
    takeWhile_of_all _ _ hall
  refine ⟨⟨net.tensors, (genIds net.tensors).map (genBond net.tensors)⟩, ?_, ?_, rfl, dkeys_map_genBond _ _, ?_⟩
  · rw [generateBondsP_empty, htw]; simp [hall]
  · exact (C08_inv_iff_wf _).mpr (generated_wf (tensOK_of_wf hw) hall)
  · intro b
    simp only
    rw [dget_map_genBond]
    by_cases hb : b ∈ genIds net.tensors
    · obtain ⟨B, hB⟩ := dget_some_of_mem_dkeys ((genIds_of_wf hw).mp hb)
      have hk : B.bid = b := hw.bkey _ (mem_of_dget_eq_some _ hB)
      rw [if_pos hb, hB]
      simp only [genBond, isort_refsOf_eq hw hB]
      cases B; simp_all
    · rw [if_neg hb]
      exact (dget_eq_none_of_notMem _ (fun hc => hb ((genIds_of_wf hw).mpr hc))).symm

/-! ### `TensorNetwork.wrap` -/

/-- **`wrap` of an array of ANY shape returns a consistent network** with one logical tensor, one bond per axis (each joining the tensor
and the virtual tensor), the array's shape as logical shape, and the open axes in the order of the array's axes -/
theorem C08_wrap_consistent (shape : List Nat) (r : Option Int) :
    ∃ net, wrap shape r = .ok net ∧ Inv net ∧ numTensors net = .ok 1 ∧ numBonds net = shape.length ∧
      numOpenAxes net = .ok shape.length ∧ netShape net = .ok shape ∧ tensorIds net = .ok [0] := by
  refine ⟨wrapped shape r, wrap_eq shape r, (C08_inv_iff_wf _).mpr (wrapped_wf shape r), rfl, ?_, rfl, rfl, rfl⟩
  simp [numBonds, wrapped, wrapAxes]

/-- **a wrapped array contracts to itself**: `full (wrap a) D idx = D[dataref][idx]` for every index within the shape -/
theorem C08_wrap_full {α : Type} [CommSemiring α] (shape : List Nat) (r : Option Int) (D : Option Int → List Nat → α)
    (idx : List Nat) (hidx : idx.length = shape.length) : full (wrapped shape r) D idx = D r idx := by
  have hinj : Function.Injective Int.ofNat := fun a b h => Int.ofNat.inj h
  have hax : (wrapAxes shape.length).Nodup := List.Nodup.map hinj List.nodup_range
  have hv : dget (wrapped shape r).tensors (-1) = some ⟨-1, shape, wrapAxes shape.length, none⟩ := rfl
  rw [full_eq_sem _ D idx hv]
  have hint : internalBids (wrapped shape r) ⟨-1, shape, wrapAxes shape.length, none⟩ = [] := by
    simp only [internalBids, wrapped, dkeys, List.map_map, Function.comp_def, List.map_id']
    rw [List.filter_eq_nil_iff]
    intro a ha
    simp [ha]
  have hreal : realTs (wrapped shape r) = [(r, wrapAxes shape.length)] := rfl
  rw [hint, hreal]
  unfold sem
  have hpin : pinsOK (wrapAxes shape.length) idx = true := by
    rw [pinsOK_iff]
    refine ⟨by simp [wrapAxes, hidx], fun k k' hk hk' he => ?_⟩
    have : k = k' := by
      rw [List.getElem?_eq_getElem hk, List.getElem?_eq_getElem hk'] at he
      exact (hax.getElem_inj_iff).mp (Option.some.inj he)
    rw [this]
  rw [if_pos hpin]
  simp only [sumOver_nil, tensorTerm, List.map_cons, List.map_nil, prodL, List.foldr_cons, List.foldr_nil, mul_one]
  congr 1
  apply List.ext_getElem?
  intro k
  by_cases hk : k < shape.length
  · have hk' : k < (wrapAxes shape.length).length := by simp [wrapAxes, hk]
    rw [List.getElem?_map, List.getElem?_eq_getElem hk']
    simp only [Option.map_some]
    exact pin_of_pinsOK _ idx (fun _ => 0) hpin k hk'
  · have h1 : (wrapAxes shape.length).length ≤ k := by simp [wrapAxes]; omega
    rw [List.getElem?_map, List.getElem?_eq_none h1, List.getElem?_eq_none (by omega)]
    rfl

/-! ### (e) histories over the enlarged operation set -/

/-- the old operations (rename / transpose / merge) and the public surgery calls that can preserve the invariant -/
inductive PubOp where
  | old (op : Op)
  | mergeTensors (i : Nat) (tid1 tid2 : Int)
  | mergeBonds (i : Nat) (bid1 bid2 : Int)
  | addTensor (i : Nat) (tid : Int) (shape : List Nat) (bids : List Int) (dataref : Option Int)

/-- one call: the state afterwards, whether the call returned or raised (`Outcome.net` is the state a raising call leaves behind) -/
def applyPub (nets : List Net) : PubOp → List Net
  | .old op => match applyOp nets op with
    | .ok nets' => nets'
    | .error _ => nets
  | .mergeTensors i a b => match nets[i]? with
    | some n => nets.set i (mergeTensorsP n a b).net
    | none => nets
  | .mergeBonds i a b => match nets[i]? with
    | some n => nets.set i (mergeBondsP n a b).net
    | none => nets
  | .addTensor i tid shape bids r => match nets[i]? with
    | some n => nets.set i (addTensorP n tid shape bids r).net
    | none => nets

/-- the guards under which the invariant is claimed: the second operand of `merge_tensors` is not the virtual tensor; `merge_bonds` fuses
bonds of one dimension; a tensor added to a finished network has no axes -/
def pubGuard (nets : List Net) : PubOp → Prop
  | .old op => opGuard nets op
  | .mergeTensors _ _ tid2 => tid2 ≠ -1
  | .mergeBonds i b1 b2 => ∀ n, nets[i]? = some n → bondDim n b1 = bondDim n b2
  | .addTensor _ _ _ bids _ => bids = []

theorem C08_pub_step_consistent {nets : List Net} {op : PubOp} (h : ∀ n ∈ nets, Inv n) (hg : pubGuard nets op) :
    ∀ n ∈ applyPub nets op, Inv n := by
  have hset : ∀ i (x : Net), Inv x → ∀ n ∈ nets.set i x, Inv n := by
    intro i x hx n hn
    rcases List.mem_or_eq_of_mem_set hn with hn | rfl
    · exact h n hn
    · exact hx
  cases op with
  | old op =>
    simp only [applyPub]
    cases hs : applyOp nets op with
    | ok nets' => exact C08_step_consistent h hg hs
    | error e => exact h
  | mergeTensors i a b =>
    simp only [applyPub]
    cases hi : nets[i]? with
    | none => exact h
    | some n =>
      have hn : Inv n := h n (List.mem_of_getElem? hi)
      apply hset
      cases he : (mergeTensorsP n a b).err with
      | none =>
        exact C08_mergeTensors_consistent hn hg (show mergeTensorsP n a b = ⟨none, (mergeTensorsP n a b).net⟩ by
          rw [← he])
      | some e =>
        rw [C08_mergeTensors_rejected_unchanged hn a b (by rw [he]; simp)]
        exact hn
  | mergeBonds i a b =>
    simp only [applyPub]
    cases hi : nets[i]? with
    | none => exact h
    | some n =>
      have hn : Inv n := h n (List.mem_of_getElem? hi)
      apply hset
      cases he : (mergeBondsP n a b).err with
      | none =>
        exact C08_mergeBonds_consistent hn (hg n hi) (show mergeBondsP n a b = ⟨none, (mergeBondsP n a b).net⟩ by
          rw [← he])
      | some e =>
        rw [C08_mergeBonds_rejected_unchanged hn a b (by rw [he]; simp)]
        exact hn
  | addTensor i tid shape bids r =>
    simp only [applyPub]
    cases hi : nets[i]? with
    | none => exact h
    | some n =>
      have hn : Inv n := h n (List.mem_of_getElem? hi)
      apply hset
      have hb : bids = [] := hg
      subst hb
      exact C08_addTensor_scalar_consistent hn tid shape r

def runPub (nets : List Net) : List PubOp → List Net
  | [] => nets
  | op :: ops => runPub (applyPub nets op) ops

def pubGuardsHold (nets : List Net) : List PubOp → Prop
  | [] => True
  | op :: ops => pubGuard nets op ∧ pubGuardsHold (applyPub nets op) ops

/-- **The invariant holds after every history over the enlarged operation set** (rename / transpose / merge / merge_tensors / merge_bonds /
add_tensor of scalars, accepted or refused, in any order, on any number of networks), from any consistent starting point -/
theorem C08_pub_ops_consistent (ops : List PubOp) (nets : List Net) (h : ∀ n ∈ nets, Inv n) (hg : pubGuardsHold nets ops) :
    ∀ n ∈ runPub nets ops, Inv n := by
  induction ops generalizing nets with
  | nil => exact h
  | cons op ops ih =>
    simp only [runPub, pubGuardsHold] at hg ⊢
    exact ih _ (C08_pub_step_consistent h hg.1) hg.2

/-! ### (c) what the public surgery calls mean: the contracted value `full` -/
section Value
variable {α : Type} [CommSemiring α]

/-- **`merge_tensors` of two real tensors leaves the contracted value unchanged when the fused tensor carries the outer product**: the
fused tensor keeps the data reference of the first operand and has the axes of the first followed by those of the second; if the data
assignment `D'` gives it `D'[i₁ ++ i₂] = D₁[i₁] · D₂[i₂]` and agrees with `D` on every other tensor, every entry of the network is the same
as before (contraction is associative: the product tensor replaces the pair). Any commutative semiring. -/
theorem C08_mergeTensors_full {net net' : Net} {tid1 tid2 : Int} {T1 T2 : STensor} (h : Inv net) (hne : tid1 ≠ tid2)
    (h1 : tid1 ≠ -1) (h2 : tid2 ≠ -1) (hT1 : dget net.tensors tid1 = some T1) (hT2 : dget net.tensors tid2 = some T2)
    (hok : mergeTensorsP net tid1 tid2 = ⟨none, net'⟩) (D D' : Option Int → List Nat → α)
    (hprod : ∀ i1 i2 : List Nat, i1.length = T1.bids.length → D' T1.dataref (i1 ++ i2) = D T1.dataref i1 * D T2.dataref i2)
    (hrest : ∀ e ∈ net.tensors, e.1 ≠ tid1 → e.1 ≠ tid2 → e.1 ≠ -1 → ∀ i, D' e.2.dataref i = D e.2.dataref i)
    (idx : List Nat) : full net' D' idx = full net D idx :=
  mergeTensors_full ((C08_inv_iff_wf net).mp h) hne h1 h2 hT1 hT2 ((mergeTensorsP_ok_iff _ _ _ _).mp hok) D D' hprod hrest idx

/-- the fused tensor: id and data reference of the first operand, shapes and bond lists concatenated -/
theorem C08_mergeTensors_fused {net net' : Net} {tid1 tid2 : Int} {T1 T2 : STensor} (h : Inv net) (hne : tid1 ≠ tid2)
    (hT1 : dget net.tensors tid1 = some T1) (hT2 : dget net.tensors tid2 = some T2)
    (hok : mergeTensorsP net tid1 tid2 = ⟨none, net'⟩) :
    dget net'.tensors tid1 = some ⟨T1.tid, T1.shape ++ T2.shape, T1.bids ++ T2.bids, T1.dataref⟩ ∧
      dget net'.tensors tid2 = none := by
  have hw := ((C08_inv_iff_wf net).mp h).toWF0
  obtain ⟨T1', T2', h1', h2', rfl⟩ := mergeTensors_spec hw hne ((mergeTensorsP_ok_iff _ _ _ _).mp hok)
  rw [hT1] at h1'; cases h1'
  rw [hT2] at h2'; cases h2'
  constructor
  · simp only
    rw [dget_dmodify, dget_dpop_ne _ hne, hT1]
    simp [catTensor]
  · apply dget_eq_none_of_notMem
    simp only [dkeys_dmodify]
    exact notMem_dkeys_dpop _ _

/-- **`merge_bonds` is the diagonal restriction of the defining sum**, whatever the position of the two bonds (both summed, both on open
axes, one of each) and for two bonds of ONE tensor as well (partial trace): for every logical index `z` within the shape, the value of the
new network is the old defining sum with every summand multiplied by the Kronecker delta `[σ(bid1) = σ(bid2)]` (`fullDiag`): the two
summation indices are identified, `Σ_{…,i,j,…} f(i, j)` becomes `Σ_{…,i,…} f(i, i)`. Any commutative semiring, every data assignment. -/
theorem C08_mergeBonds_full {net net' : Net} {bid1 bid2 : Int} {v : STensor} {z : List Nat} (h : Inv net) (hne : bid1 ≠ bid2)
    (hdim : bondDim net bid1 = bondDim net bid2) (hok : mergeBondsP net bid1 bid2 = ⟨none, net'⟩)
    (hv : dget net.tensors (-1) = some v) (hz : z ∈ allIdx v.shape) (D : Option Int → List Nat → α) :
    full net' D z = fullDiag net D bid1 bid2 z :=
  mergeBonds_full_general ((C08_inv_iff_wf net).mp h) hne hdim ((mergeBondsP_ok_iff _ _ _ _).mp hok) hv hz D

/-- the special case of two bonds without open leg (no restriction on `z`) -/
theorem C08_mergeBonds_full_internal {net net' : Net} {bid1 bid2 : Int} {v : STensor} (h : Inv net) (hne : bid1 ≠ bid2)
    (hdim : bondDim net bid1 = bondDim net bid2) (hok : mergeBondsP net bid1 bid2 = ⟨none, net'⟩)
    (hv : dget net.tensors (-1) = some v) (ho1 : bid1 ∉ v.bids) (ho2 : bid2 ∉ v.bids)
    (D : Option Int → List Nat → α) (z : List Nat) : full net' D z = fullDiag net D bid1 bid2 z :=
  mergeBonds_full_internal ((C08_inv_iff_wf net).mp h) hne hdim ((mergeBondsP_ok_iff _ _ _ _).mp hok) hv
    (fun hc => absurd hc ho1) ho2 D

/-- **`merge_bonds` of the bonds on two open axes `p`, `q` identifies the two open legs**: the new value is the old one on the diagonal
`z[p] = z[q]` and zero elsewhere (shape unchanged, see `C08_mergeBonds_counts`) -/
theorem C08_mergeBonds_full_open {net net' : Net} {bid1 bid2 : Int} {v : STensor} (h : Inv net) (hne : bid1 ≠ bid2)
    (hdim : bondDim net bid1 = bondDim net bid2) (hok : mergeBondsP net bid1 bid2 = ⟨none, net'⟩)
    (hv : dget net.tensors (-1) = some v) {p q : Nat} (hb1 : v.bids[p]? = some bid1) (hb2 : v.bids[q]? = some bid2)
    (D : Option Int → List Nat → α) (z : List Nat) :
    full net' D z = if z[p]? == z[q]? then full net D z else 0 :=
  mergeBonds_full_open ((C08_inv_iff_wf net).mp h) hne hdim ((mergeBondsP_ok_iff _ _ _ _).mp hok) hv hb1 hb2 D z

end Value

/-! ### non-vacuity: `Σ_{ij} A_ij B_ij`, its bonds fused (`Σ_i A_ii B_ii`), its tensors fused -/

/-- two 2×2 matrices contracted over both axes -/
def abNet : Net :=
  ⟨[(0, ⟨0, [2, 2], [0, 1], some 0⟩), (1, ⟨1, [2, 2], [0, 1], some 1⟩), (-1, ⟨-1, [], [], none⟩)],
   [(0, ⟨0, [0, 1]⟩), (1, ⟨1, [0, 1]⟩)]⟩

/-- A = [[1, 2], [3, -1]], B = [[2, 0], [1, 1]] -/
def abData : Option Int → List Nat → Int
  | some 0, [0, 0] => 1 | some 0, [0, 1] => 2 | some 0, [1, 0] => 3 | some 0, [1, 1] => -1
  | some 1, [0, 0] => 2 | some 1, [0, 1] => 0 | some 1, [1, 0] => 1 | some 1, [1, 1] => 1
  | _, _ => 0

example : Inv abNet := ⟨⟨by decide, by decide, by decide, by decide⟩, by decide +kernel⟩
example : bondDim abNet 0 = bondDim abNet 1 := by decide
example : mergeBondsP abNet 0 1 =
    ⟨none, ⟨[(0, ⟨0, [2, 2], [0, 0], some 0⟩), (1, ⟨1, [2, 2], [0, 0], some 1⟩), (-1, ⟨-1, [], [], none⟩)],
      [(0, ⟨0, [0, 0, 1, 1]⟩)]⟩⟩ := by decide +kernel
/-- `Σ_ij A_ij B_ij = 2 + 0 + 3 - 1 = 4`, on the diagonal `Σ_i A_ii B_ii = 2 - 1 = 1` -/
example : full abNet abData [] = 4 := by decide +kernel
example : full (mergeBondsP abNet 0 1).net abData [] = 1 := by decide +kernel
example : fullDiag abNet abData 0 1 [] = 1 := by decide +kernel
example : mergeTensorsP abNet 0 1 =
    ⟨none, ⟨[(0, ⟨0, [2, 2, 2, 2], [0, 1, 0, 1], some 0⟩), (-1, ⟨-1, [], [], none⟩)], [(0, ⟨0, [0, 0]⟩), (1, ⟨1, [0, 0]⟩)]⟩⟩ := by
  decide +kernel
example : isConsistent (mergeTensorsP abNet 0 1).net = .ok true := by decide +kernel
/-- the calls that raise: unknown ids before any write, equal unknown ids accepted, the virtual tensor merged away -/
example : mergeTensorsP abNet 0 7 = ⟨some .keyError, abNet⟩ := by decide +kernel
example : mergeTensorsP abNet 7 7 = ⟨none, abNet⟩ := by decide +kernel
example : isConsistent (mergeTensorsP abNet 0 (-1)).net = .ok false := by decide +kernel
/-- a dangling bond id: `KeyError` after the second tensor has been popped -/
example : mergeTensorsP ⟨[(0, ⟨0, [2], [5], none⟩), (1, ⟨1, [], [], none⟩)], []⟩ 1 0 =
    ⟨some .keyError, ⟨[(1, ⟨1, [], [], none⟩)], []⟩⟩ := by decide +kernel
/-- a dangling tensor id: `KeyError` after the id has been appended to the first bond (unsorted) and the second bond removed -/
example : (mergeBondsP ⟨[(0, ⟨0, [2, 2], [0, 1], none⟩)], [(0, ⟨0, [0, 3]⟩), (1, ⟨1, [0, 2]⟩)]⟩ 0 1) =
    ⟨some .keyError, ⟨[(0, ⟨0, [2, 2], [0, 0], none⟩)], [(0, ⟨0, [0, 3, 0, 2]⟩)]⟩⟩ := by decide +kernel
example : (generateBondsP ⟨abNet.tensors, []⟩).net = abNet := by decide +kernel
example : wrap [2, 3] (some 7) = .ok wrapNet := by decide +kernel
/-- `generate_bonds` stopped by the `SymbolicBond` constructor at bond 1 (a single axis): bond 0 has already been added -/
example : generateBondsP ⟨[(0, ⟨0, [2, 2], [0, 1], none⟩), (-1, ⟨-1, [2], [0], none⟩)], []⟩ =
    ⟨some .valueError, ⟨[(0, ⟨0, [2, 2], [0, 1], none⟩), (-1, ⟨-1, [2], [0], none⟩)], [(0, ⟨0, [-1, 0]⟩)]⟩⟩ := by decide +kernel
example : TensOK abNet.tensors := ⟨by decide, by decide, by decide, by decide, by decide⟩
example : generateBondsP abNet = ⟨some .runtimeError, abNet⟩ := by decide +kernel
example : addBondP abNet 0 [0, 1] = ⟨some .valueError, abNet⟩ := by decide +kernel
example : addBondP abNet 5 [1] = ⟨some .valueError, abNet⟩ := by decide +kernel
example : addTensorP abNet 1 [] [] none = ⟨some .valueError, abNet⟩ := by decide +kernel
example : addTensorP abNet 5 [2] [] none = ⟨some .valueError, abNet⟩ := by decide +kernel
example : isConsistentData abNet [(0, ⟨[2, 2], .a []⟩), (1, ⟨[2, 2], .a []⟩)] = .ok true := by decide +kernel
example : pubGuardsHold [abNet] [.mergeBonds 0 0 1, .mergeTensors 0 0 1, .addTensor 0 5 [] [] (some 3)] := by
  refine ⟨?_, ?_, ?_, trivial⟩
  · intro n hn
    have : n = abNet := by simpa using hn.symm
    subst this; decide
  · show (1 : Int) ≠ -1
    decide
  · rfl

end Qib.C08
