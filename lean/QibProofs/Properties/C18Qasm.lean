import QibProofs.Lemmas.Qasm
import QibProofs.Lemmas.Validate
/-!
C18 (second part) — "the Qobj says what the circuit is", from the gate / instruction OBJECT to the Qobj instruction.

`QibModel/Qasm.lean` interprets the tables `QibGen/QasmTable.lean`, which the translator regenerates on every run from the `as_qasm`
methods of `operator/gates.py`, `operator/control_instructions.py` (names through `util/const.py`). Every general theorem below is
stated for an arbitrary table `T` with the decidable side condition `T.WF` ("canonical layout of every row, pairwise distinct names");
`C18_qasm_table_wf` discharges it for the table of the CURRENT source by evaluation, so a source change that breaks a theorem breaks
exactly that obligation. Property theorems only; helpers in `QibProofs/Lemmas/Qasm.lean`.

Objects are STATES (`Obj`): class tag, exact parameters, qubit attributes (`none` = unbound), control qubits, control state, the
`qubits` / `clbits` / `duration` attributes of the control instructions; `Obj.WF T` says "as many attribute values as the class has".
-/
namespace Qib.Qasm
open QibGen.Qasm (Exc Key QSrc Dflt LeafRow CtrlRow InstrRow)
open Qib.Wmi (Instr ProcConfig qsimConfig qcConfig validate checkInstr InstrOK)

/-! ### The table of the current source -/

/-- every leaf class emits "own parameters in order, own qubits in order", every branch of the controlled-gate tree that can return
emits "the target's parameters in order; control qubits in order, then the target's qubits", the instructions carry their qubit list
(measure: + memory, delay: + duration), all names are pairwise distinct, no class / branch occurs twice -/
theorem C18_qasm_table_wf : genTable.WF := by decide

/-- (c) the names are pairwise distinct over all classes, all branches of the controlled-gate tree and the three instructions -/
theorem C18_qasm_names_distinct : genTable.names.Nodup := C18_qasm_table_wf.namesNodup

/-- every class is serialised under the OpenQASM 2 / Qiskit name of its gate; a gate with n controls under `c…c` + the name of its
target (cx, cy, cz, ch, crx, cry, crz, cu3, cs, csdg, ccx); the instructions under measure / barrier / delay. In particular S and
S-dagger (T and T-dagger) are not confused. -/
theorem C18_qasm_names_standard : genTable.Standard := by decide

/-! ### (a) Round trip -/

/-- decoding the dictionary `as_qasm()` returned gives the object back, except for what `norm` forgets: the control state -/
theorem C18_qasm_roundtrip (T : Table) (hT : T.WF) (o : Obj) (ho : o.WF T) (d : QDict) (h : o.asQasm T = .ok d) :
    decode T d = some o.norm :=
  decode_asQasm T hT o ho d h

/-- … for the classes as they are in the source now -/
theorem C18_qasm_roundtrip_source (o : Obj) (ho : o.WF genTable) (d : QDict) (h : o.asQasm genTable = .ok d) :
    decode genTable d = some o.norm :=
  decode_asQasm genTable C18_qasm_table_wf o ho d h

/-- what `norm` forgets is exactly the control state of a controlled gate: every other object is its own normal form, and a
controlled gate keeps target, number of controls and control qubits -/
theorem C18_qasm_norm_forgets_only_control_state :
    (∀ o : Obj, o.norm = o ↔ o.StdCtrl) ∧
    (∀ tg n cs ctrls, (Obj.gate (.controlled tg n cs ctrls)).norm = .gate (.controlled tg n (List.replicate n true) ctrls)) ∧
    (∀ c ps qs, (Obj.gate (.leaf c ps qs)).norm = .gate (.leaf c ps qs)) ∧
    (∀ qs cs, (Obj.measure qs cs).norm = .measure qs cs) ∧ (∀ qs, (Obj.barrier qs).norm = .barrier qs) ∧
    (∀ u qs, (Obj.delay u qs).norm = .delay u qs) := by
  refine ⟨?_, fun _ _ _ _ => rfl, fun _ _ _ => rfl, fun _ _ => rfl, fun _ => rfl, fun _ _ => rfl⟩
  intro o
  constructor
  · intro h
    cases o with
    | gate g =>
      cases g with
      | leaf => trivial
      | controlled tg n cs ctrls =>
        simp only [Obj.norm, Gate.norm, Obj.gate.injEq, Gate.controlled.injEq, true_and, and_true] at h
        exact h.symm
    | _ => trivial
  · exact norm_of_std o

/-- `as_qasm` never looks at the control state -/
theorem C18_qasm_control_state_ignored (T : Table) (tg : Gate) (n : Nat) (cs cs' : List Bool) (ctrls : List Int) :
    (Obj.gate (.controlled tg n cs ctrls)).asQasm T = (Obj.gate (.controlled tg n cs' ctrls)).asQasm T := rfl

/-! #### Known finding `C18:qobj:negated-control-serialised-as-plain`

Full statement ("the Qobj says what the circuit is", object level): the dictionary determines the object,

    theorem C18_qasm_says_what_it_is (o d) : o.WF genTable → o.asQasm genTable = .ok d → decode genTable d = some o

It is false for the code as it is: `ControlledGate.as_qasm` ignores `ctrl_state` (same finding as `C18_known_negated_control_witness`
of `C18.lean`, recorded in `known_findings.json`; property files do not import one another, the old witness is restated below). Proved: the statement for every object whose control state is the standard one
(and for every object that is not a controlled gate), and its negation on the witness. -/

theorem C18_qasm_says_what_it_is_partial (o : Obj) (ho : o.WF genTable) (hstd : o.StdCtrl) (d : QDict)
    (h : o.asQasm genTable = .ok d) : decode genTable d = some o := by
  rw [decode_asQasm genTable C18_qasm_table_wf o ho d h, norm_of_std o hstd]

/-- the same for any well-formed table -/
theorem C18_qasm_says_what_it_is_partial_any_table (T : Table) (hT : T.WF) (o : Obj) (ho : o.WF T) (hstd : o.StdCtrl) (d : QDict)
    (h : o.asQasm T = .ok d) : decode T d = some o := by
  rw [decode_asQasm T hT o ho d h, norm_of_std o hstd]

/-- the witness: Z on qubit 1 controlled on qubit 0 being |0> is serialised as `{'name': 'cz', 'qubits': [0, 1]}`, which decodes to the
gate controlled on |1>; the hand-written name table of `C18.lean` says the same -/
theorem C18_qasm_known_negated_control_witness :
    let o : Obj := .gate (.controlled (.leaf "PauliZGate" [] [some 1]) 1 [false] [0])
    let d : QDict := { name := "cz", qubits := some [0, 1] }
    o.WF genTable ∧ o.asQasm genTable = .ok d ∧
    decode genTable d = some (.gate (.controlled (.leaf "PauliZGate" [] [some 1]) 1 [true] [0])) ∧ decode genTable d ≠ some o ∧
    Wmi.ctrlQasmName "z" [false] = some "cz" ∧
    ¬ (∀ (o : Obj) (d : QDict), o.WF genTable → o.asQasm genTable = .ok d → decode genTable d = some o) := by
  refine ⟨by decide, by decide, by decide, by decide, by decide, ?_⟩
  intro h
  have := h (.gate (.controlled (.leaf "PauliZGate" [] [some 1]) 1 [false] [0])) { name := "cz", qubits := some [0, 1] } (by decide) (by decide)
  revert this
  decide

/-! ### (b) Injectivity: different gates never share a Qobj instruction -/

/-- two objects (standard control state) that serialise to the same dictionary are equal -/
theorem C18_qasm_injective (T : Table) (hT : T.WF) (o₁ o₂ : Obj) (h₁ : o₁.WF T) (h₂ : o₂.WF T) (s₁ : o₁.StdCtrl) (s₂ : o₂.StdCtrl)
    (d : QDict) (e₁ : o₁.asQasm T = .ok d) (e₂ : o₂.asQasm T = .ok d) : o₁ = o₂ := by
  have a := decode_asQasm T hT o₁ h₁ d e₁
  have b := decode_asQasm T hT o₂ h₂ d e₂
  rw [norm_of_std o₁ s₁] at a
  rw [norm_of_std o₂ s₂] at b
  exact Option.some.inj (a.symm.trans b)

/-- without the restriction: they differ at most in the control state -/
theorem C18_qasm_injective_up_to_control_state (T : Table) (hT : T.WF) (o₁ o₂ : Obj) (h₁ : o₁.WF T) (h₂ : o₂.WF T)
    (d : QDict) (e₁ : o₁.asQasm T = .ok d) (e₂ : o₂.asQasm T = .ok d) : o₁.norm = o₂.norm :=
  Option.some.inj ((decode_asQasm T hT o₁ h₁ d e₁).symm.trans (decode_asQasm T hT o₂ h₂ d e₂))

theorem C18_qasm_injective_source (o₁ o₂ : Obj) (h₁ : o₁.WF genTable) (h₂ : o₂.WF genTable) (s₁ : o₁.StdCtrl) (s₂ : o₂.StdCtrl)
    (d : QDict) (e₁ : o₁.asQasm genTable = .ok d) (e₂ : o₂.asQasm genTable = .ok d) : o₁ = o₂ :=
  C18_qasm_injective genTable C18_qasm_table_wf o₁ o₂ h₁ h₂ s₁ s₂ d e₁ e₂

/-! ### (c) Names -/

/-- two serialisable objects carry the same name iff they are of the same kind (same class; for controlled gates same number of
controls and same class of target): different classes never share a name, and the name never depends on parameters, qubits or
control state -/
theorem C18_qasm_same_name_iff_same_kind (T : Table) (hT : T.WF) (o₁ o₂ : Obj) (h₁ : o₁.WF T) (h₂ : o₂.WF T) (d₁ d₂ : QDict)
    (e₁ : o₁.asQasm T = .ok d₁) (e₂ : o₂.asQasm T = .ok d₂) : d₁.name = d₂.name ↔ o₁.tag T = o₂.tag T := by
  constructor
  · intro h
    have a := nameTag_asQasm T hT o₁ h₁ d₁ e₁
    have b := nameTag_asQasm T hT o₂ h₂ d₂ e₂
    rw [h] at a
    exact Option.some.inj (a.symm.trans b)
  · exact name_of_tag T o₁ o₂ d₁ d₂ e₁ e₂

/-- the name alone identifies the kind of object -/
theorem C18_qasm_name_determines_kind (T : Table) (hT : T.WF) (o : Obj) (ho : o.WF T) (d : QDict) (h : o.asQasm T = .ok d) :
    nameTag T d.name = some (o.tag T) :=
  nameTag_asQasm T hT o ho d h

/-! ### `decode` is the two-sided inverse -/

/-- whatever `decode` returns is a well-formed object with the standard control state whose `as_qasm()` is the dictionary decoded -/
theorem C18_qasm_decode_sound (T : Table) (hT : T.WF) (d : QDict) (o : Obj) (h : decode T d = some o) :
    o.asQasm T = .ok d ∧ o.StdCtrl ∧ o.WF T :=
  decode_sound T hT d o h

/-- objects with the standard control state and the dictionaries `decode` accepts correspond one to one -/
theorem C18_qasm_bijection (T : Table) (hT : T.WF) (o : Obj) (ho : o.WF T) (hs : o.StdCtrl) (d : QDict) :
    o.asQasm T = .ok d ↔ decode T d = some o :=
  ⟨C18_qasm_says_what_it_is_partial_any_table T hT o ho hs d, fun h => (decode_sound T hT d o h).1⟩

/-! ### (c) Names and the shipped processors -/

/-- every basis gate of the two shipped processors is the name of a class (or branch) -/
theorem C18_qasm_basis_gates_have_classes :
    ∀ n ∈ qsimConfig.basisGates ++ qcConfig.basisGates, n ∈ genTable.names := by decide

/-- … and the configured number of parameters / length of every configured qubit tuple is the number of parameters / qubits the
instructions of that name carry -/
theorem C18_qasm_shipped_arity :
    ∀ cfg ∈ [qsimConfig, qcConfig], ∀ gp ∈ cfg.gates,
      ∃ a, nameArity genTable gp.name = some a ∧ (gp.nparams = a.1 ∧ ∀ t ∈ gp.qubits, t.length = a.2) := by decide

/-- each emitted name lies in the basis-gate set of the processor (or is `measure`), or every experiment containing an instruction of
that name is refused - at any position, for every configuration -/
theorem C18_qasm_name_in_basis_or_refused (cfg : ProcConfig) (n : String) :
    n ∈ cfg.basisGates ∨ n = "measure" ∨
    ∀ (shots : Int) (pre post : List Instr) (i : Instr), i.name = n → ∃ e, validate cfg shots (pre ++ i :: post) = .error e := by
  by_cases hb : n ∈ cfg.basisGates
  · exact Or.inl hb
  · by_cases hm : n = "measure"
    · exact Or.inr (Or.inl hm)
    · refine Or.inr (Or.inr ?_)
      intro shots pre post i hi
      have hbad : ¬ InstrOK cfg i := by
        rintro (h | ⟨h, _⟩)
        · exact hm (hi ▸ h)
        · exact hb (hi ▸ h)
      cases hv : validate cfg shots (pre ++ i :: post) with
      | error e => exact ⟨e, rfl⟩
      | ok u =>
        exfalso
        unfold validate at hv
        split at hv
        · cases hv
        · cases hl : Wmi.validateLoop cfg (pre ++ i :: post) with
          | error e => rw [hl] at hv; cases hv
          | ok u' => exact hbad ((Wmi.validateLoop_iff cfg _).mp hl i (by simp))

/-- a serialised object whose name is not a basis gate refuses the experiment -/
theorem C18_qasm_object_outside_basis_refused (T : Table) (cfg : ProcConfig) (shots : Int) (pre post : List Instr) (o : Obj) (d : QDict)
    (_h : o.asQasm T = .ok d) (hb : d.name ∉ cfg.basisGates) (hm : d.name ≠ "measure") :
    ∃ e, validate cfg shots (pre ++ d.toInstr :: post) = .error e := by
  rcases C18_qasm_name_in_basis_or_refused cfg d.name with h | h | h
  · exact absurd h hb
  · exact absurd h hm
  · exact h shots pre post d.toInstr rfl

/-- on the shipped processors the "wrong number of parameters" refusal is unreachable for gate objects: whenever the name of a
serialised gate is configured, it carries exactly the configured number of parameters -/
theorem C18_qasm_param_count_never_wrong (cfg : ProcConfig) (hcfg : cfg ∈ [qsimConfig, qcConfig]) (g : Gate) (hg : g.WF genTable)
    (d : QDict) (h : g.asQasm genTable = .ok d) (gp : Wmi.GateProps) (hgp : cfg.findGate d.name = some gp) :
    d.toInstr.params.length = gp.nparams := by
  have ha := nameArity_asQasm genTable C18_qasm_table_wf g hg d h
  have hmem : gp ∈ cfg.gates := List.mem_of_find?_eq_some hgp
  have hname : gp.name = d.name := by
    have h0 := List.find?_some hgp
    simp only [beq_iff_eq] at h0
    exact h0
  obtain ⟨a, h1, h2, _⟩ := C18_qasm_shipped_arity cfg hcfg gp hmem
  rw [hname, ha] at h1
  cases h1
  simp [QDict.toInstr, h2]

/-! ### (d) What is in the dictionary -/

/-- leaf gate: the class's name, the gate's own qubit indices in the order of the class, its own parameters unchanged and in order
(no `params` entry iff the class has no parameter), nothing else -/
theorem C18_qasm_leaf_layout (T : Table) (hT : T.WF) (c : String) (ps : List Rat) (qs : List (Option Int))
    (hg : (Gate.leaf c ps qs).WF T) (d : QDict) (h : (Obj.gate (.leaf c ps qs)).asQasm T = .ok d) :
    ∃ r l, findLeaf T c = some r ∧ d.name = r.name ∧ qs = l.map some ∧ d.qubits = some l ∧
      d.params.getD [] = ps ∧ (d.params.isSome = true ↔ ps ≠ []) ∧ d.memory = none ∧ d.duration = none := by
  obtain ⟨r, l, hf, hq, rfl⟩ := (leaf_asQasm_ok_iff T hT c ps qs hg d).mp h
  obtain ⟨hp, _⟩ := hg r hf
  refine ⟨r, l, hf, rfl, hq, rfl, ?_, ?_, rfl, rfl⟩
  · by_cases h0 : r.nparams = 0
    · have : ps = [] := List.eq_nil_of_length_eq_zero (hp.trans h0)
      simp [leafDict, h0, this]
    · simp [leafDict, h0]
  · by_cases h0 : r.nparams = 0
    · have : ps = [] := List.eq_nil_of_length_eq_zero (hp.trans h0)
      simp [leafDict, h0, this]
    · have : ps ≠ [] := fun hnil => h0 (by rw [← hp, hnil]; rfl)
      simp [leafDict, h0, this]

/-- controlled gate: the branch's name; `qubits` = the control indices in order FOLLOWED BY the target's indices in order;
`params` = the TARGET's parameters unchanged (no sign, no scale, same order) -/
theorem C18_qasm_controlled_layout (T : Table) (hT : T.WF) (tg : Gate) (n : Nat) (cs : List Bool) (ctrls : List Int)
    (hg : (Gate.controlled tg n cs ctrls).WF T) (d : QDict) (h : (Obj.gate (.controlled tg n cs ctrls)).asQasm T = .ok d) :
    ∃ r tq, findCtrl T n (tg.cls T) = some r ∧ d.name = r.name ∧ ctrls.length = n ∧ tg.ownQubits = tq.map some ∧
      d.qubits = some (ctrls ++ tq) ∧ d.params.getD [] = tg.ownParams ∧ (d.params.isSome = true ↔ tg.ownParams ≠ []) ∧
      d.memory = none ∧ d.duration = none := by
  obtain ⟨r, tq, hf, _, hc, htg, rfl⟩ := (ctrl_asQasm_ok_iff T hT tg n cs ctrls hg d).mp h
  obtain ⟨hp, _⟩ := hg.2.2 r hf
  have hown : tg.ownQubits = tq.map some := by rw [htg]; rfl
  refine ⟨r, tq, hf, rfl, hc, hown, rfl, ?_, ?_, rfl, rfl⟩
  · by_cases h0 : r.tnparams = 0
    · have : tg.ownParams = [] := List.eq_nil_of_length_eq_zero (hp.trans h0)
      simp [ctrlDict, h0, this]
    · simp [ctrlDict, h0]
  · by_cases h0 : r.tnparams = 0
    · have : tg.ownParams = [] := List.eq_nil_of_length_eq_zero (hp.trans h0)
      simp [ctrlDict, h0, this]
    · have : tg.ownParams ≠ [] := fun hnil => h0 (by rw [← hp, hnil]; rfl)
      simp [ctrlDict, h0, this]

/-- measurement: `qubits` = the instruction's qubit indices, `memory` = the instruction's clbits, both in order -/
theorem C18_qasm_measure_layout (T : Table) (hT : T.WF) (qs cs : Option (List Int)) (d : QDict)
    (h : (Obj.measure qs cs).asQasm T = .ok d) :
    d.name = T.measure.name ∧ d.qubits = qs ∧ d.memory = cs ∧ qs.isSome = true ∧ cs.isSome = true ∧ d.params = none ∧ d.duration = none := by
  obtain ⟨l, m, rfl, rfl, rfl⟩ := (measure_asQasm_ok_iff T hT qs cs d).mp h
  simp

theorem C18_qasm_barrier_layout (T : Table) (hT : T.WF) (qs : Option (List Int)) (d : QDict) (h : (Obj.barrier qs).asQasm T = .ok d) :
    d.name = T.barrier.name ∧ d.qubits = qs ∧ qs.isSome = true ∧ d.memory = none ∧ d.params = none ∧ d.duration = none := by
  obtain ⟨l, rfl, rfl⟩ := (barrier_asQasm_ok_iff T hT qs d).mp h
  simp

theorem C18_qasm_delay_layout (T : Table) (hT : T.WF) (u : Rat) (qs : Option (List Int)) (d : QDict)
    (h : (Obj.delay u qs).asQasm T = .ok d) :
    d.name = T.delay.name ∧ d.qubits = qs ∧ qs.isSome = true ∧ d.duration = some u ∧ d.memory = none ∧ d.params = none := by
  obtain ⟨l, rfl, rfl⟩ := (delay_asQasm_ok_iff T hT u qs d).mp h
  simp

/-! ### (e) Exactly which objects raise, and what -/

/-- an object has a Qobj form iff its class (its branch of the controlled-gate tree) has one that can return, every qubit it lists is
bound, the control qubits are set; an instruction iff its lists are not `None` -/
theorem C18_qasm_serialisable_iff (T : Table) (hT : T.WF) (o : Obj) (ho : o.WF T) :
    (∃ d, o.asQasm T = .ok d) ↔ o.Serialisable T :=
  serialisable_iff T hT o ho

/-- a leaf gate that raises: the class has no `as_qasm` (the default exception of `Gate`), or a qubit is unbound (AttributeError) -/
theorem C18_qasm_leaf_raises (T : Table) (hT : T.WF) (c : String) (ps : List Rat) (qs : List (Option Int))
    (hg : (Gate.leaf c ps qs).WF T) (e : Exc) (h : (Obj.gate (.leaf c ps qs)).asQasm T = .error e) :
    (findLeaf T c = none ∧ e = T.gateDefault) ∨ ((findLeaf T c).isSome = true ∧ e = .AttributeError ∧ none ∈ qs) :=
  leaf_asQasm_error T hT c ps qs hg e h

/-- a controlled gate that raises: outside the tree (default exception), on a branch that can never return, controls not set
(IndexError), or - controls set - a target qubit unbound (AttributeError) -/
theorem C18_qasm_controlled_raises (T : Table) (hT : T.WF) (tg : Gate) (n : Nat) (cs : List Bool) (ctrls : List Int)
    (hg : (Gate.controlled tg n cs ctrls).WF T) (e : Exc) (h : (Obj.gate (.controlled tg n cs ctrls)).asQasm T = .error e) :
    (findCtrl T n (tg.cls T) = none ∧ e = T.gateDefault) ∨
    (∃ r, findCtrl T n (tg.cls T) = some r ∧
      (ctrlRaises r = true ∨ (ctrls.length ≠ n ∧ e = .IndexError) ∨ (ctrls.length = n ∧ e = .AttributeError ∧ none ∈ tg.ownQubits))) :=
  ctrl_asQasm_error T hT tg n cs ctrls hg e h

/-- a branch of the tree whose dictionary reads an attribute the target class does not have (the `cu3` branch over `RotationGate`
in the source this was written against) never returns, whatever the object -/
theorem C18_qasm_raising_branch_never_returns (T : Table) (tg : Gate) (n : Nat) (cs : List Bool) (ctrls : List Int) (r : CtrlRow)
    (hf : findCtrl T n (tg.cls T) = some r) (hz : ctrlRaises r = true) (d : QDict) :
    (Obj.gate (.controlled tg n cs ctrls)).asQasm T ≠ .ok d := by
  simp only [Obj.asQasm, Gate.asQasm, hf]
  exact ctrlRaises_never_ok r hz _ _ _ d

/-- instructions raise only TypeError (a list that is `None`); an instruction class without `as_qasm` the default of
`ControlInstruction` -/
theorem C18_qasm_instruction_raises (T : Table) (hT : T.WF) (o : Obj) (e : Exc) (h : o.asQasm T = .error e) :
    match o with
    | .gate _ => True
    | .measure qs cs => e = .TypeError ∧ (qs = none ∨ cs = none)
    | .barrier qs => e = .TypeError ∧ qs = none
    | .delay _ qs => e = .TypeError ∧ qs = none
    | .other _ => e = T.instrDefault :=
  instr_asQasm_error T hT o e h

/-- the gate classes of the source that inherit `Gate.as_qasm` raise its exception, whatever their content -/
theorem C18_qasm_classes_without_as_qasm_raise :
    ∀ c ∈ QibGen.Qasm.noQasmClasses, ∀ ps qs, (Obj.gate (.leaf c ps qs)).asQasm genTable = .error genTable.gateDefault := by
  have h : ∀ c ∈ QibGen.Qasm.noQasmClasses, findLeaf genTable c = none := by decide
  intro c hc ps qs
  simp [Obj.asQasm, Gate.asQasm, h c hc]

/-- a controlled gate whose (number of controls, target class) is not a branch of the tree - in particular every nested controlled
gate - falls through to the default -/
theorem C18_qasm_controlled_outside_tree_raises (T : Table) (tg : Gate) (n : Nat) (cs : List Bool) (ctrls : List Int)
    (h : findCtrl T n (tg.cls T) = none) : (Obj.gate (.controlled tg n cs ctrls)).asQasm T = .error T.gateDefault := by
  simp [Obj.asQasm, Gate.asQasm, h]

theorem C18_qasm_nested_controlled_raises (T : Table) (hT : T.WF) (t : Gate) (m : Nat) (cs' : List Bool) (k' : List Int)
    (n : Nat) (cs : List Bool) (ctrls : List Int) :
    (Obj.gate (.controlled (.controlled t m cs' k') n cs ctrls)).asQasm T = .error T.gateDefault := by
  apply C18_qasm_controlled_outside_tree_raises
  cases hf : findCtrl T n (Gate.cls T (.controlled t m cs' k')) with
  | none => rfl
  | some r =>
    obtain ⟨hmem, _, hcls⟩ := findCtrl_some hf
    exact absurd hcls (hT.noNested r hmem)

/-! ### Circuits and the link to the validation / Qobj model -/

/-- `Circuit.as_qasm()`: one dictionary per instruction, in order, the k-th one decoding to the (normal form of the) k-th object -/
theorem C18_qasm_circuit_roundtrip (T : Table) (hT : T.WF) (os : List Obj) (hos : ∀ o ∈ os, o.WF T) (ds : List QDict)
    (h : circuitQasm T os = .ok ds) :
    ds.length = os.length ∧ ds.map (decode T) = os.map (fun o => some o.norm) :=
  ⟨circuit_length T os ds h, circuit_decode T hT os hos ds h⟩

/-- one object without Qobj form, anywhere in the circuit, and `Circuit.as_qasm()` raises: the experiment is never constructed -/
theorem C18_qasm_circuit_raises_if_any (T : Table) (pre post : List Obj) (o : Obj) (e : Exc) (h : o.asQasm T = .error e) :
    ∃ e', circuitQasm T (pre ++ o :: post) = .error e' :=
  circuit_error_of_mem T pre post o e h

/-- composition with the Qobj model of `C18.lean`: instruction k of the Qobj carries name, qubits, parameters (as exact tokens) and
memory slots of the k-th dictionary, which decodes to the k-th object of the circuit -/
theorem C18_qasm_circuit_qobj (T : Table) (hT : T.WF) (shots : Int) (os : List Obj) (hos : ∀ o ∈ os, o.WF T) (ds : List QDict)
    (h : circuitQasm T os = .ok ds) :
    (Wmi.qobj shots (ds.map QDict.toInstr)).instructions.length = os.length ∧
    ∀ (k : Nat) (hk : k < os.length) (hd : k < ds.length) (hq : k < (Wmi.qobj shots (ds.map QDict.toInstr)).instructions.length),
      ((Wmi.qobj shots (ds.map QDict.toInstr)).instructions[k]).name = ds[k].name ∧
      ((Wmi.qobj shots (ds.map QDict.toInstr)).instructions[k]).qubits = ds[k].qubits.getD [] ∧
      ((Wmi.qobj shots (ds.map QDict.toInstr)).instructions[k]).params = (ds[k].params.getD []).map ratToken ∧
      ((Wmi.qobj shots (ds.map QDict.toInstr)).instructions[k]).memory = ds[k].memory.getD [] ∧
      decode T ds[k] = some os[k].norm := by
  have hlen := circuit_length T os ds h
  have hdec := circuit_decode T hT os hos ds h
  refine ⟨by simp [Wmi.qobj, hlen], ?_⟩
  intro k hk hd hq
  have hk' := congrArg (fun l => l[k]?) hdec
  simp only [List.getElem?_map, List.getElem?_eq_getElem hd, List.getElem?_eq_getElem hk, Option.map_some, Option.some.injEq] at hk'
  simp [Wmi.qobj, Wmi.Instr.toQ, QDict.toInstr, hk']

/-- the `qubits` entry is the index list of `obj.particles()`: what an instruction says about its qubits is what the Qobj header labels
and what the final range check of `_validate` looks at -/
theorem C18_qasm_qubits_are_particles (T : Table) (hT : T.WF) (o : Obj) (ho : o.WF T) (d : QDict) (h : o.asQasm T = .ok d) :
    d.qubits = some o.particles :=
  qubits_eq_particles T hT o ho d h

/-- hence the qubit labels of the Qobj are exactly the particles of the circuit's objects (sorted, without repetition) -/
theorem C18_qasm_circuit_labels (T : Table) (hT : T.WF) (shots : Int) (os : List Obj) (hos : ∀ o ∈ os, o.WF T) (ds : List QDict)
    (h : circuitQasm T os = .ok ds) :
    (Wmi.qobj shots (ds.map QDict.toInstr)).qubitLabels = Wmi.sortDedup (os.flatMap Obj.particles) := by
  simp [Wmi.qobj, Wmi.particles, circuit_particles T hT os hos ds h]

/-- an accepted experiment, seen from the objects: shots within the limit; every object's dictionary is a measurement or a basis gate
on a configured, coupled tuple with the configured number of parameters; it decodes to the object; all particles of the object are
inside the processor -/
theorem C18_qasm_accepted_circuit (T : Table) (hT : T.WF) (cfg : ProcConfig) (shots : Int) (os : List Obj) (hos : ∀ o ∈ os, o.WF T)
    (ds : List QDict) (h : circuitQasm T os = .ok ds) (hv : validate cfg shots (ds.map QDict.toInstr) = .ok ()) :
    shots ≤ (cfg.maxShots : Int) ∧
    ∀ (k : Nat) (hk : k < os.length) (hd : k < ds.length),
      InstrOK cfg ds[k].toInstr ∧ decode T ds[k] = some os[k].norm ∧
      ∀ q ∈ os[k].particles, 0 ≤ q ∧ q < (cfg.nQubits : Int) := by
  unfold validate at hv
  split at hv
  · cases hv
  · rename_i hs
    cases hl : Wmi.validateLoop cfg (ds.map QDict.toInstr) with
    | error e => rw [hl] at hv; cases hv
    | ok u =>
      rw [hl] at hv
      have hn : 0 < cfg.nQubits := by
        rcases Nat.eq_zero_or_pos cfg.nQubits with h0 | hpos
        · rw [Wmi.rangeCheck_zero cfg _ h0] at hv; cases hv
        · exact hpos
      have hall := (Wmi.validateLoop_iff cfg _).mp hl
      have hrange := (Wmi.rangeCheck_iff cfg _ hn).mp hv
      refine ⟨by omega, ?_⟩
      intro k hk hd
      have hmem : ds[k].toInstr ∈ ds.map QDict.toInstr := List.mem_map_of_mem (List.getElem_mem hd)
      have hok := circuit_getElem T os ds h k hk hd
      have hwf := hos os[k] (List.getElem_mem hk)
      refine ⟨hall _ hmem, decode_asQasm T hT _ hwf _ hok, ?_⟩
      intro q hq
      have hqs := qubits_eq_particles T hT _ hwf _ hok
      exact hrange _ hmem q (by simp [QDict.toInstr, hqs, hq])

/-! ### Constructors: how the states are reached -/

/-- every gate object built through the constructors (`ControlledGate(...)`, `set_control(...)`, to any nesting depth) satisfies the
control part of `Gate.WF`; what remains is that the recipe lists as many attribute values per leaf as the class has -/
theorem C18_qasm_built_gate_wf (T : Table) (r : GRecipe) (hr : r.LeavesOK T) (g : Gate) (h : r.build = .ok g) : g.WF T :=
  build_wf T r hr g h

/-- `MeasureInstruction(qubits, clbits)` / `.on(qubits, clbits)`: with qubits, the memory slots are the given clbits, or - when
none (or an empty list) is given - the qubit indices; without qubits both attributes are `None` -/
theorem C18_qasm_measure_memory (qs cs : Option (List Int)) (o : Obj) (h : assignMeasure qs cs = .ok o) :
    (truthy qs = true → o = .measure qs (if truthy cs = true then cs else qs)) ∧ (truthy qs = false → o = .measure none none) := by
  unfold assignMeasure at h
  split at h
  · cases h
  · split at h
    · rename_i hq
      simp only [Except.ok.injEq] at h
      exact ⟨fun _ => h.symm, fun hf => by rw [hq] at hf; cases hf⟩
    · rename_i hq
      simp only [Except.ok.injEq] at h
      exact ⟨fun ht => absurd ht hq, fun _ => h.symm⟩

/-- it is refused (ValueError) exactly when both lists are given and their lengths differ -/
theorem C18_qasm_measure_rejects (qs cs : Option (List Int)) :
    (∃ e, assignMeasure qs cs = .error e) ↔ (truthy qs = true ∧ truthy cs = true ∧ optLen qs ≠ optLen cs) := by
  unfold assignMeasure
  by_cases h : (truthy qs && truthy cs && optLen qs != optLen cs) = true
  · simp only [h, ↓reduceIte, Except.error.injEq, exists_eq', true_iff]
    simpa [Bool.and_eq_true, and_assoc] using h
  · simp only [h]
    have : ¬ (truthy qs = true ∧ truthy cs = true ∧ optLen qs ≠ optLen cs) := by
      intro ⟨a, b, c⟩; apply h; simp [a, b, c]
    simp only [Bool.false_eq_true, ↓reduceIte, this, iff_false, not_exists]
    intro e
    split <;> simp

/-- end to end for a measurement with qubits: the Qobj instruction carries the qubits and, as memory, the clbits given (same length,
non-empty) or else the qubit indices -/
theorem C18_qasm_measure_end_to_end (q : Int) (qs : List Int) (cs : Option (List Int)) (o : Obj)
    (h : assignMeasure (some (q :: qs)) cs = .ok o) :
    o.asQasm genTable = .ok { name := "measure", qubits := some (q :: qs), memory := if truthy cs = true then cs else some (q :: qs) } := by
  have := (C18_qasm_measure_memory (some (q :: qs)) cs o h).1 rfl
  subst this
  cases cs with
  | none => exact (measure_asQasm_ok_iff genTable C18_qasm_table_wf _ _ _).mpr ⟨q :: qs, q :: qs, rfl, rfl, rfl⟩
  | some l =>
    cases l with
    | nil => exact (measure_asQasm_ok_iff genTable C18_qasm_table_wf _ _ _).mpr ⟨q :: qs, q :: qs, rfl, rfl, rfl⟩
    | cons c l => exact (measure_asQasm_ok_iff genTable C18_qasm_table_wf _ _ _).mpr ⟨q :: qs, c :: l, rfl, rfl, rfl⟩

/-- `ControlledGate(target, n, ctrl_state)` then `set_control(qubits)`: the control state has n entries (all ones by default, the
given 0/1 list otherwise), the control qubits are the given ones and there are n of them - which is the control part of `Gate.WF` -/
theorem C18_qasm_controlled_constructor (tg : Gate) (n : Nat) (cs : Option (List Int)) (g : Gate) (h : mkControlled tg n cs = .ok g)
    (qs : List Int) (g' : Gate) (h' : setControl g qs = .ok g') :
    ∃ st, g' = .controlled tg n st qs ∧ st.length = n ∧ qs.length = n ∧
      (cs = none → st = List.replicate n true) ∧ (∀ l, cs = some l → st = l.map (· == 1) ∧ ∀ b ∈ l, b = 0 ∨ b = 1) := by
  obtain ⟨st, rfl, hlen, h1, h2⟩ := mkControlled_wf_parts tg n cs g h
  simp only [setControl] at h'
  split at h'
  · cases h'
  · rename_i hq
    simp only [Except.ok.injEq] at h'
    exact ⟨st, h'.symm, hlen, by simpa using hq, h1, h2⟩

/-- the constructor refuses (ValueError) exactly a control state of the wrong length or with an entry other than 0, 1 -/
theorem C18_qasm_controlled_constructor_rejects (tg : Gate) (n : Nat) (l : List Int) :
    (∃ e, mkControlled tg n (some l) = .error e) ↔ (l.length ≠ n ∨ ∃ b ∈ l, b ≠ 0 ∧ b ≠ 1) :=
  mkControlled_rejects tg n l

/-! ### The hand-written name table of `C18.lean` agrees with the regenerated tree -/

/-- `Wmi.ctrlQasmName` (used by the known-finding theorems of `C18.lean`) is the regenerated decision tree: for every leaf class and
0…3 controls it names exactly the branches that can return -/
theorem C18_qasm_ctrlname_agrees :
    ∀ r ∈ genTable.leaf, ∀ n ∈ [0, 1, 2, 3],
      Wmi.ctrlQasmName r.name (List.replicate n true) =
        ((findCtrl genTable n r.cls).filter (fun b => !ctrlRaises b)).map (·.name) := by decide

/-! ### Non-vacuity -/

def exRx : Obj := .gate (.leaf "RxGate" [1/2] [some 3])
def exCrz : Obj := .gate (.controlled (.leaf "RzGate" [-3/4] [some 1]) 1 [true] [0])
def exToffoli : Obj := .gate (.controlled (.leaf "PauliXGate" [] [some 0]) 2 [true, true] [1, 2])

example : exRx.WF genTable ∧ exRx.asQasm genTable = .ok { name := "rx", params := some [1/2], qubits := some [3] } := by decide +kernel
example : exCrz.WF genTable ∧ exCrz.StdCtrl ∧ exCrz.asQasm genTable = .ok { name := "crz", params := some [-3/4], qubits := some [0, 1] } := by decide +kernel
example : exToffoli.asQasm genTable = .ok { name := "ccx", qubits := some [1, 2, 0] } ∧ decode genTable { name := "ccx", qubits := some [1, 2, 0] } = some exToffoli := by decide
example : decode genTable { name := "sdg", qubits := some [4] } = some (.gate (.leaf "SAdjGate" [] [some 4])) ∧
    decode genTable { name := "s", qubits := some [4] } = some (.gate (.leaf "SGate" [] [some 4])) := by decide
example : decode genTable { name := "cx", qubits := some [4] } = none ∧ decode genTable { name := "x", params := some [], qubits := some [4] } = none ∧
    decode genTable { name := "frob", qubits := some [4] } = none := by decide
example : (Obj.measure (some [1, 2]) (some [2, 1])).asQasm genTable = .ok { name := "measure", qubits := some [1, 2], memory := some [2, 1] } := by decide
example : (Obj.measure none none).asQasm genTable = .error .TypeError ∧ (Obj.barrier (some [])).asQasm genTable = .ok { name := "barrier", qubits := some [] } := by decide
example : (Obj.delay 10 (some [1])).asQasm genTable = .ok { name := "delay", qubits := some [1], duration := some 10 } := by decide
example : (Obj.gate (.leaf "PauliXGate" [] [none])).asQasm genTable = .error .AttributeError ∧
    (Obj.gate (.controlled (.leaf "PauliXGate" [] [some 1]) 1 [true] [])).asQasm genTable = .error .IndexError ∧
    (Obj.gate (.controlled (.leaf "TGate" [] [some 1]) 1 [true] [0])).asQasm genTable = .error .NotImplementedError ∧
    (Obj.gate (.leaf "RxxGate" [1/2] [some 0, some 1])).asQasm genTable = .error .NotImplementedError := by decide
example : exCrz.Serialisable genTable ∧ ¬ (Obj.gate (.leaf "RxxGate" [1/2] [some 0, some 1])).Serialisable genTable := by
  decide +kernel
example : circuitQasm genTable [exRx, exCrz, .measure (some [3]) (some [0])] =
    .ok [{ name := "rx", params := some [1/2], qubits := some [3] }, { name := "crz", params := some [-3/4], qubits := some [0, 1] },
         { name := "measure", qubits := some [3], memory := some [0] }] := by decide +kernel
example : mkControlled (.leaf "PauliZGate" [] [some 1]) 1 (some [0]) = .ok (.controlled (.leaf "PauliZGate" [] [some 1]) 1 [false] []) ∧
    mkControlled (.leaf "PauliZGate" [] [some 1]) 1 (some [2]) = .error .ValueError ∧
    assignMeasure (some [1, 2]) (some [5]) = .error .ValueError ∧ assignMeasure (some [1, 2]) none = .ok (.measure (some [1, 2]) (some [1, 2])) := by decide
example : (GRecipe.controlled (.leaf "PauliXGate" [] [some 0]) 2 none (some [1, 2])).build = .ok (.controlled (.leaf "PauliXGate" [] [some 0]) 2 [true, true] [1, 2]) ∧
    (GRecipe.controlled (.leaf "PauliXGate" [] [some 0]) 2 none (some [1])).build = .error .ValueError := by decide
example : exToffoli.particles = [1, 2, 0] ∧ (Obj.gate (.leaf "ISwapGate" [] [some 3, none])).particles = [] := by decide
-- an experiment of real objects that the simulator accepts, and one it refuses (S is no basis gate there)
example : ∃ ds, circuitQasm genTable [.gate (.leaf "HadamardGate" [] [some 0]), .gate (.controlled (.leaf "PauliZGate" [] [some 2]) 1 [true] [0]),
      .gate (.leaf "RxGate" [1/2] [some 1]), .measure (some [0, 2, 3]) (some [0, 1, 2])] = .ok ds ∧ validate qsimConfig 1024 (ds.map QDict.toInstr) = .error .range := by
  refine ⟨_, rfl, ?_⟩; decide +kernel
example : ∃ ds, circuitQasm genTable [.gate (.leaf "HadamardGate" [] [some 0]), .gate (.controlled (.leaf "PauliZGate" [] [some 2]) 1 [true] [0]),
      .gate (.leaf "RxGate" [1/2] [some 1]), .measure (some [0, 2, 1]) (some [0, 1, 2])] = .ok ds ∧ validate qsimConfig 1024 (ds.map QDict.toInstr) = .ok () := by
  refine ⟨_, rfl, ?_⟩; decide +kernel
example : ∃ ds, circuitQasm genTable [.gate (.leaf "SGate" [] [some 0])] = .ok ds ∧ validate qsimConfig 1024 (ds.map QDict.toInstr) = .error .unsupported := by
  refine ⟨_, rfl, ?_⟩; decide +kernel
-- an ill-formed table is refused by `WF`: two classes sharing a name
example : ¬ ({ genTable with leaf := ⟨"SAdjGate", "s", 0, 1, [.qubits], [], [.own 0]⟩ :: genTable.leaf } : Table).WF := by decide

end Qib.Qasm
