import QibModel.Backend
/-!
C17 — Experiment lifecycle is monotone; transport retries are bounded.
Property theorems only. All statements are over the generated tables in `QibGen.Tables`.
-/
namespace Qib.Backend
open QibGen

/-! ### Status mapping -/

/-- every documented reply maps to the documented status -/
theorem C17_status_map_documented :
    fromWmi "pending" = .QUEUED ∧ fromWmi "active" = .RUNNING ∧ fromWmi "finished" = .DONE ∧
    fromWmi "cancelled" = .CANCELLED ∧ fromWmi "offline" = .ERROR := by decide

/-- unknown replies become ERROR -/
theorem C17_status_map_total (s : String)
    (h : s ∉ ["pending", "active", "finished", "cancelled", "offline"]) : fromWmi s = .ERROR := by
  simp only [List.mem_cons, List.not_mem_nil, or_false, not_or] at h
  obtain ⟨h1, h2, h3, h4, h5⟩ := h
  have e1 : (s == "pending") = false := by simpa using h1
  have e2 : (s == "active") = false := by simpa using h2
  have e3 : (s == "finished") = false := by simpa using h3
  have e4 : (s == "cancelled") = false := by simpa using h4
  have e5 : (s == "offline") = false := by simpa using h5
  simp [fromWmi, wmiStatusTable, wmiStatusDefault, List.lookup, e1, e2, e3, e4, e5]

theorem C17_terminal_iff (s : Status) :
    Status.isTerminal s = true ↔ (s = .DONE ∨ s = .ERROR ∨ s = .CANCELLED) := by
  cases s <;> decide

/-- no server reply can put the experiment back to INITIALIZING -/
theorem C17_fromWmi_ne_initializing (s : String) : fromWmi s ≠ .INITIALIZING := by
  unfold fromWmi
  cases h : wmiStatusTable.lookup s with
  | none => simp [wmiStatusDefault]
  | some st =>
    have hm : (s, st) ∈ wmiStatusTable := by
      have := List.lookup_eq_some_iff.mp h
      obtain ⟨l1, l2, hl, _⟩ := this
      rw [hl]; simp
    simp only [wmiStatusTable, List.mem_cons, Prod.mk.injEq, List.not_mem_nil, or_false] at hm
    rcases hm with ⟨_, rfl⟩ | ⟨_, rfl⟩ | ⟨_, rfl⟩ | ⟨_, rfl⟩ | ⟨_, rfl⟩ <;> simp

/-! ### Transport retry loop -/

theorem httpLoop_attempts (maxR : Nat) (retries : Nat) (os : List Outcome) (att : Nat) :
    (httpLoop maxR retries os att).2.1 + retries ≤ att + (maxR + 1) ∨
    (maxR < retries ∧ (httpLoop maxR retries os att).2.1 = att) := by
  induction os generalizing retries att with
  | nil =>
    by_cases hle : retries ≤ maxR
    · left; simp [httpLoop, hle]; omega
    · have hlt : maxR < retries := by omega
      right; simp [httpLoop, hle, httpAfterLoop, hlt]
  | cons o rest ih =>
    by_cases hle : retries ≤ maxR
    · cases o with
      | timeout =>
        simp only [httpLoop, hle, if_true]
        rcases ih (retries + 1) (att + 1) with h | ⟨h1, h2⟩
        · left; omega
        · left; rw [h2]; omega
      | ok s p => left; simp [httpLoop, hle]; omega
      | httpError => left; simp [httpLoop, hle]; omega
      | reqError => left; simp [httpLoop, hle]; omega
      | connError => left; simp [httpLoop, hle]; omega
    · have hlt : maxR < retries := by omega
      right; simp [httpLoop, hle, httpAfterLoop, hlt]

/-- a request is attempted at most 1 + max-retries times -/
theorem C17_attempts_le (maxR : Nat) (os : List Outcome) :
    (httpRequest maxR os).2.1 ≤ maxR + 1 := by
  rcases httpLoop_attempts maxR 0 os 0 with h | ⟨h, _⟩
  · simpa [httpRequest] using h
  · omega

theorem httpLoop_ne_none (maxR retries : Nat) (os : List Outcome) (att : Nat) :
    ∀ x y, httpLoop maxR retries os att ≠ (.none, x, y) := by
  induction os generalizing retries att with
  | nil =>
    intro x y
    by_cases hle : retries ≤ maxR
    · simp [httpLoop, hle]
    · have : maxR < retries := by omega
      simp [httpLoop, hle, httpAfterLoop, this]
  | cons o rest ih =>
    intro x y
    by_cases hle : retries ≤ maxR
    · cases o with
      | timeout => simp only [httpLoop, hle, if_true]; exact ih _ _ x y
      | ok s p => simp [httpLoop, hle]
      | httpError => simp [httpLoop, hle]
      | reqError => simp [httpLoop, hle]
      | connError => simp [httpLoop, hle]
    · have : maxR < retries := by omega
      simp [httpLoop, hle, httpAfterLoop, this]

/-- the implicit `return None` at the end of `_http_request` is unreachable -/
theorem C17_never_returns_nothing (maxR : Nat) (os : List Outcome) :
    ∀ x y, httpRequest maxR os ≠ (.none, x, y) := httpLoop_ne_none maxR 0 os 0

theorem httpLoop_timeouts (maxR retries k : Nat) (os : List Outcome) (att : Nat)
    (hk : retries + k ≤ maxR + 1) :
    httpLoop maxR retries (List.replicate k .timeout ++ os) att = httpLoop maxR (retries + k) os (att + k) := by
  induction k generalizing retries att with
  | zero => simp
  | succ k ih =>
    have hle : retries ≤ maxR := by omega
    rw [List.replicate_succ, List.cons_append]
    simp only [httpLoop, hle, if_true]
    rw [ih (retries + 1) (att + 1) (by omega)]
    congr 1 <;> omega

/-- returns the first successful response: after `k ≤ maxR` timeouts, a 2xx reply is returned
after exactly `k+1` attempts and nothing further is consumed -/
theorem C17_returns_first_success (maxR k : Nat) (hk : k ≤ maxR) (s : String) (p : Nat) (rest : List Outcome) :
    httpRequest maxR (List.replicate k .timeout ++ .ok s p :: rest) = (.ret ⟨s, p⟩, k + 1, rest) := by
  unfold httpRequest
  rw [httpLoop_timeouts maxR 0 k _ 0 (by omega)]
  simp [httpLoop, hk]

/-- conversely, a returned response is the first non-timeout outcome and it is a success -/
theorem httpLoop_ret_inv (maxR retries : Nat) (os : List Outcome) (att : Nat) (r : Resp) (a : Nat) (rest : List Outcome)
    (h : httpLoop maxR retries os att = (.ret r, a, rest)) :
    ∃ k, retries + k ≤ maxR ∧ os = List.replicate k .timeout ++ .ok r.status r.payload :: rest ∧ a = att + k + 1 := by
  induction os generalizing retries att with
  | nil =>
    by_cases hle : retries ≤ maxR
    · simp [httpLoop, hle] at h
    · simp only [httpLoop, hle, if_false, httpAfterLoop] at h; split at h <;> simp at h
  | cons o os ih =>
    by_cases hle : retries ≤ maxR
    · cases o with
      | ok s p =>
        simp only [httpLoop, hle, if_true, Prod.mk.injEq, PyRes.ret.injEq] at h
        obtain ⟨rfl, rfl, rfl⟩ := h
        exact ⟨0, by omega, by simp, by omega⟩
      | timeout =>
        simp only [httpLoop, hle, if_true] at h
        obtain ⟨k, h1, h2, h3⟩ := ih _ _ h
        exact ⟨k + 1, by omega, by rw [h2, List.replicate_succ]; simp, by omega⟩
      | httpError => simp [httpLoop, hle] at h
      | reqError => simp [httpLoop, hle] at h
      | connError => simp [httpLoop, hle] at h
    · simp only [httpLoop, hle, if_false, httpAfterLoop] at h; split at h <;> simp at h

theorem C17_returns_only_first_success (maxR : Nat) (os : List Outcome) (r : Resp) (a : Nat) (rest : List Outcome)
    (h : httpRequest maxR os = (.ret r, a, rest)) :
    ∃ k, k ≤ maxR ∧ os = List.replicate k .timeout ++ .ok r.status r.payload :: rest ∧ a = k + 1 := by
  obtain ⟨k, h1, h2, h3⟩ := httpLoop_ret_inv maxR 0 os 0 r a rest h
  exact ⟨k, by omega, h2, by omega⟩

/-- retries happen only on timeouts: an HTTP error ends the loop at that attempt with an error -/
theorem C17_retries_only_on_timeout (maxR k : Nat) (hk : k ≤ maxR) (rest : List Outcome) :
    httpRequest maxR (List.replicate k .timeout ++ .httpError :: rest) = (.raised .runtimeError, k + 1, rest) ∧
    httpRequest maxR (List.replicate k .timeout ++ .reqError :: rest) = (.raised .runtimeError, k + 1, rest) := by
  unfold httpRequest
  constructor <;>
  · rw [httpLoop_timeouts maxR 0 k _ 0 (by omega)]
    simp [httpLoop, hk]

/-- after `maxR + 1` timeouts the request gives up with an error and does not touch later outcomes -/
theorem C17_gives_up (maxR : Nat) (rest : List Outcome) :
    httpRequest maxR (List.replicate (maxR + 1) .timeout ++ rest) = (.raised .runtimeError, maxR + 1, rest) := by
  unfold httpRequest
  rw [httpLoop_timeouts maxR 0 (maxR + 1) _ 0 (by omega)]
  have : ¬ (maxR + 1 ≤ maxR) := by omega
  cases rest <;> simp [httpLoop, httpAfterLoop, this]

/-! ### Experiment life-cycle -/

/-- terminal statuses are absorbing: no request, unchanged world, for every client call -/
theorem C17_terminal_absorbing (maxR : Nat) (w : World) (h : Status.isTerminal w.exp.status = true) (c : Call) :
    (stepCall maxR w c).2 = w := by
  have hni : w.exp.status ≠ .INITIALIZING := by
    intro hh; rw [hh] at h; exact absurd h (by decide)
  have hq : queryStatus maxR w = (.ret w.exp.status, w) := by
    simp [queryStatus, hni, h]
  have hp : ∀ fuel, pollLoop maxR (fuel + 1) w = (.ret (), w) := by
    intro fuel; simp [pollLoop, hq, h]
  have hg : (getResults maxR w).2 = w := by
    unfold getResults
    split
    · rfl
    · rw [hp]; simp only; split <;> rfl
  cases c with
  | query => simp [stepCall, hq]
  | results => simp only [stepCall]; rw [← hg]; split <;> simp_all
  | wait => simp only [stepCall]; rw [← hg]; split <;> simp_all

/-- once terminal, every later call in every order leaves status and request count unchanged -/
theorem C17_history_absorbing (maxR : Nat) (w : World) (h : Status.isTerminal w.exp.status = true) (cs : List Call) :
    ∀ e ∈ runCalls maxR w cs, e.2.1 = w.exp.status ∧ e.2.2 = w.requests := by
  induction cs with
  | nil => simp [runCalls]
  | cons c cs ih =>
    intro e he
    simp only [runCalls, List.mem_cons] at he
    have hw := C17_terminal_absorbing maxR w h c
    rcases he with rfl | he
    · simp [hw]
    · rw [hw] at he; exact ih e he

/-- querying before submission is refused, by every client call, without any request -/
theorem C17_query_before_submit_refused (maxR : Nat) (w : World) (h : w.exp.status = .INITIALIZING) (c : Call) :
    stepCall maxR w c = (.raised .valueError, w) := by
  have hq : queryStatus maxR w = (.raised .valueError, w) := by simp [queryStatus, h]
  have hp : ∀ fuel, pollLoop maxR (fuel + 1) w = (.raised .valueError, w) := by
    intro fuel; simp [pollLoop, hq]
  cases c <;> simp [stepCall, hq, getResults, h, hp]

/-- the status after a query is never INITIALIZING again -/
theorem queryStatus_status (maxR : Nat) (w : World) (h : w.exp.status ≠ .INITIALIZING) :
    (queryStatus maxR w).2.exp.status ≠ .INITIALIZING := by
  unfold queryStatus
  simp only [h, if_false]
  split
  · exact h
  · split <;> simp_all [C17_fromWmi_ne_initializing]

/-- `Inv`: results are populated whenever the status is DONE (true after every submission whose
reply is not `finished`, and preserved by every call). -/
def Inv (w : World) : Prop := w.exp.status = .DONE → w.exp.results.isSome = true

instance (w : World) : Decidable (Inv w) := by unfold Inv; infer_instance

theorem queryStatus_inv (maxR : Nat) (w : World) (h : Inv w) : Inv (queryStatus maxR w).2 := by
  unfold queryStatus
  split
  · exact h
  · split
    · exact h
    · split
      · intro hd; simp only at hd ⊢; simp [hd]
      · exact h
      · exact h

theorem pollLoop_inv (maxR fuel : Nat) (w : World) (h : Inv w) : Inv (pollLoop maxR fuel w).2 := by
  induction fuel generalizing w with
  | zero => simpa [pollLoop] using h
  | succ fuel ih =>
    have hq := queryStatus_inv maxR w h
    unfold pollLoop
    split
    · rename_i st w' heq
      rw [heq] at hq
      split
      · exact hq
      · exact ih w' hq
    · rename_i e w' heq; rw [heq] at hq; exact hq
    · rename_i w' heq; rw [heq] at hq; exact hq

theorem pollLoop_ret_terminal (maxR fuel : Nat) (w w' : World) (h : pollLoop maxR fuel w = (.ret (), w')) :
    Status.isTerminal w'.exp.status = true := by
  induction fuel generalizing w with
  | zero => simp [pollLoop] at h
  | succ fuel ih =>
    unfold pollLoop at h
    split at h
    · rename_i st w'' heq
      split at h
      · rename_i hterm
        simp only [Prod.mk.injEq, true_and] at h
        subst h
        -- status returned by queryStatus is the status stored
        have : w''.exp.status = st := by
          unfold queryStatus at heq
          split at heq
          · simp at heq
          · split at heq
            · simp only [Prod.mk.injEq, PyRes.ret.injEq] at heq; rw [← heq.2]; exact heq.1
            · split at heq <;> simp at heq
              obtain ⟨h1, h2⟩ := heq
              rw [← h2]; exact h1
        rw [this]; exact hterm
      · exact ih w'' h
    · simp at h
    · simp at h

theorem getResults_inv (maxR : Nat) (w : World) (h : Inv w) : Inv (getResults maxR w).2 := by
  unfold getResults
  split
  · exact h
  · have hp := pollLoop_inv maxR (w.outcomes.length + 2) w h
    split
    · rename_i w' heq; rw [heq] at hp; split <;> exact hp
    · rename_i e w' heq; rw [heq] at hp; exact hp
    · rename_i w' heq; rw [heq] at hp; exact hp

/-- `Inv` is preserved by every client call -/
theorem C17_inv_step (maxR : Nat) (w : World) (h : Inv w) (c : Call) : Inv (stepCall maxR w c).2 := by
  cases c with
  | query =>
    have := queryStatus_inv maxR w h
    simp only [stepCall]; split <;> simp_all
  | results =>
    have := getResults_inv maxR w h
    simp only [stepCall]; split <;> simp_all
  | wait =>
    have := getResults_inv maxR w h
    simp only [stepCall]; split <;> simp_all

/-- blocking and awaiting result calls: whenever they return, the final status is terminal and they
return the stored server results exactly when it is DONE, `None` otherwise -/
theorem C17_results_iff_done (maxR : Nat) (w w' : World) (hinv : Inv w) (r : Option Nat)
    (h : getResults maxR w = (.ret r, w')) :
    Status.isTerminal w'.exp.status = true ∧ (r.isSome = true ↔ w'.exp.status = .DONE) ∧ r = (if w'.exp.status = .DONE then w'.exp.results else none) := by
  have hinv' : Inv w' := by have := getResults_inv maxR w hinv; rw [h] at this; exact this
  unfold getResults at h
  split at h
  · rename_i hc
    simp only [Prod.mk.injEq, PyRes.ret.injEq] at h
    obtain ⟨rfl, rfl⟩ := h
    refine ⟨by rw [hc.2]; decide, by simp [hc.1, hc.2], by simp [hc.2]⟩
  · split at h
    · rename_i w'' heq
      have hterm := pollLoop_ret_terminal _ _ _ _ heq
      split at h
      · rename_i hd
        simp only [Prod.mk.injEq, PyRes.ret.injEq] at h
        obtain ⟨rfl, rfl⟩ := h
        exact ⟨hterm, by simp [hd, hinv' hd], by simp [hd]⟩
      · rename_i hd
        simp only [Prod.mk.injEq, PyRes.ret.injEq] at h
        obtain ⟨rfl, rfl⟩ := h
        exact ⟨hterm, by simp [hd], by simp [hd]⟩
    · simp at h
    · simp at h

/-- the poll loop stops at the first terminal reply: with fault-free transport, if the first terminal
status string is preceded by `pre` non-terminal ones, exactly `pre.length + 1` requests are made, the
rest of the script is untouched and the results are those of that reply iff it says DONE -/
theorem C17_poll_stops_at_first_terminal (maxR : Nat) (w : World)
    (hs : w.exp.status ≠ .INITIALIZING) (hnt : Status.isTerminal w.exp.status = false)
    (pre : List (String × Nat)) (hpre : ∀ x ∈ pre, Status.isTerminal (fromWmi x.1) = false)
    (t : String) (q : Nat) (ht : Status.isTerminal (fromWmi t) = true) (rest : List Outcome) (fuel : Nat)
    (hw : w.outcomes = pre.map (fun x => Outcome.ok x.1 x.2) ++ .ok t q :: rest) (hf : pre.length < fuel) :
    pollLoop maxR fuel w =
      (.ret (), { exp := { status := fromWmi t, results := if fromWmi t = .DONE then some q else w.exp.results },
                  outcomes := rest, requests := w.requests + pre.length + 1 }) := by
  induction pre generalizing w fuel with
  | nil =>
    obtain ⟨fuel, rfl⟩ : ∃ f, fuel = f + 1 := ⟨fuel - 1, by simp at hf; omega⟩
    simp only [List.map_nil, List.nil_append] at hw
    have hq : queryStatus maxR w = (.ret (fromWmi t), { exp := { status := fromWmi t, results := if fromWmi t = .DONE then some q else w.exp.results }, outcomes := rest, requests := w.requests + 1 }) := by
      simp [queryStatus, hs, hnt, hw, httpRequest, httpLoop]
    simp [pollLoop, hq, ht]
  | cons x pre ih =>
    obtain ⟨fuel, rfl⟩ : ∃ f, fuel = f + 1 := ⟨fuel - 1, by simp at hf; omega⟩
    have hx := hpre x (by simp)
    simp only [List.map_cons, List.cons_append] at hw
    have hq : queryStatus maxR w = (.ret (fromWmi x.1), { exp := { status := fromWmi x.1, results := if fromWmi x.1 = .DONE then some x.2 else w.exp.results }, outcomes := pre.map (fun x => Outcome.ok x.1 x.2) ++ .ok t q :: rest, requests := w.requests + 1 }) := by
      simp [queryStatus, hs, hnt, hw, httpRequest, httpLoop]
    have hnd : fromWmi x.1 ≠ .DONE := by intro hh; rw [hh] at hx; exact absurd hx (by decide)
    rw [pollLoop, hq]
    simp only [hx]
    rw [ih _ (C17_fromWmi_ne_initializing _) hx (fun y hy => hpre y (by simp [hy])) fuel rfl (by simp at hf; omega)]
    simp [hnd]; omega

/-! ### Known finding (negative result, proved on the concrete witness)

If the *submission* reply already says `finished`, the experiment is DONE without stored results and,
DONE being terminal, no later call ever fetches them: `results()` returns `None` although the final
status is DONE. `Inv` is exactly the hypothesis that excludes this history; the witness is replayed on
the implementation on every run (known_findings.json: C17:results-none-when-submit-reply-finished). -/

theorem C17_known_submit_finished_witness :
    ¬ Inv (submit 5 [.ok "finished" 1]).2 ∧
    (getResults 5 (submit 5 [.ok "finished" 1]).2).1 = .ret none ∧
    (getResults 5 (submit 5 [.ok "finished" 1]).2).2.exp.status = .DONE := by
  decide +kernel

/-- every submission whose reply is not DONE establishes `Inv` -/
theorem C17_submit_inv (maxR : Nat) (os : List Outcome) (h : (submit maxR os).2.exp.status ≠ .DONE) :
    Inv (submit maxR os).2 := fun hd => absurd hd h

/-! ### Non-vacuity -/

example : Inv { exp := { status := .QUEUED, results := none }, outcomes := [.ok "active" 0, .timeout, .ok "finished" 7], requests := 1 } := by
  simp [Inv]

example : (runCalls 5 { exp := { status := .QUEUED, results := none }, outcomes := [.ok "active" 0, .timeout, .ok "finished" 7], requests := 1 } [.results, .query]).map (·.1)
    = [.res (some 7), .status .DONE] := by decide +kernel

end Qib.Backend
