import QibProofs.Lemmas.GateTree
/-!
C01 (deepening) — unitarity and size of composite gates, proved about the definitions `drv_gate` executes.

`Properties/C01.lean` states the property over Mathlib matrices with abstract combinators (`blockOn`, `blocks`,
`fromBlocks`). Here the same property is stated about `Qib.Gate.Tree.mat` / `Tree.wires` of `QibModel/Gate.lean`
(array-backed matrices over Gaussian rationals, flat indices, `controlledMat`, `blockDiag`, `prepareMat`, `blockMat`)
for EVERY tree – any nesting depth, any number of controls, any control pattern – whose numerical payload satisfies
`Tree.WF` (leaf / user / `expm` matrices unitary, `qr` factor real orthogonal, `sqrtm` hypotheses; see
`Lemmas/GateTree.lean`). The proofs are structural induction over `Tree` (`Lemmas/GateTree.lean`) on top of the
entrywise bridge `Lemmas/MatBridge.lean`. Property statements only.
-/
open Matrix Qib Qib.Mat Qib.Gate

namespace Qib.C01Tree

/-- **C01 (size)**: the assembled array is a well-formed `2 ^ num_wires × 2 ^ num_wires` matrix. -/
theorem C01_tree_dim (t : Tree) (h : t.WF) :
    t.mat.n = 2 ^ t.wires ∧ t.mat.m = 2 ^ t.wires ∧ t.mat.data.size = 2 ^ t.wires * 2 ^ t.wires := by
  obtain ⟨h1, h2, h3⟩ := t.mat_isSq h
  refine ⟨h1, h2, ?_⟩
  have : t.mat.data.size = t.mat.n * t.mat.m := h3
  rw [this, h1, h2]

/-- **C01 (unitarity)**: the complex matrix denoted by the assembled array is unitary (both equations). -/
theorem C01_tree_unitary (t : Tree) (h : t.WF) :
    t.mat.toMatrix * t.mat.toMatrixᴴ = 1 ∧ t.mat.toMatrixᴴ * t.mat.toMatrix = 1 :=
  (t.mat_unitary h).toMatrix

/-- the same, entry by entry: the rows and the columns of `t.mat` are orthonormal -/
theorem C01_tree_unitary_entries (t : Tree) (h : t.WF) (i j : ℕ) (hi : i < 2 ^ t.wires) (hj : j < 2 ^ t.wires) :
    (∑ k ∈ Finset.range (2 ^ t.wires), (t.mat.get i k).toC * star (t.mat.get j k).toC = if i = j then 1 else 0) ∧
    (∑ k ∈ Finset.range (2 ^ t.wires), star (t.mat.get k i).toC * (t.mat.get k j).toC = if i = j then 1 else 0) :=
  ⟨(t.mat_unitary h).rows i j hi hj, (t.mat_unitary h).cols i j hi hj⟩

/-- the same without complex numbers: the driver's own `mul` / `adjoint` / `one` satisfy `U U† = 1 = U† U` as arrays -/
theorem C01_tree_unitary_exec (t : Tree) (h : t.WF) :
    t.mat.mul t.mat.adjoint = Mat.one (2 ^ t.wires) ∧ t.mat.adjoint.mul t.mat = Mat.one (2 ^ t.wires) :=
  ⟨t.mat_mul_adjoint_exec h, t.adjoint_mul_mat_exec h⟩

/-- the inverse tree is again a gate: unitary of the same size -/
theorem C01_tree_inverse_unitary (t : Tree) (h : t.WF) :
    t.inverse.mat.toMatrix * t.inverse.mat.toMatrixᴴ = 1 ∧ t.inverse.mat.n = 2 ^ t.wires := by
  have := t.inverse.mat_unitary (t.inverse_wf h)
  exact ⟨this.toMatrix.1, by rw [this.n_eq, Tree.inverse_wires]⟩

/-! ### non-vacuity: concrete nested trees (exact Gaussian-rational leaves) satisfy the hypothesis -/

/-- `ControlledGate(MultiplexedGate([X, S], 1), 2, ctrl_state=[1, 0])` -/
example : Example.tree1.WF := Example.tree1_wf
example : Example.tree1.mat.n = 16 := by
  have := (C01_tree_dim _ Example.tree1_wf).1; rwa [Example.tree1_wires] at this
example : Example.tree1.mat.IsUnitary := (Example.tree1.mat_unitary Example.tree1_wf).isUnitary
example : Example.tree1.mat.mul Example.tree1.mat.adjoint = Mat.one 16 := by
  have := (C01_tree_unitary_exec _ Example.tree1_wf).1; rwa [Example.tree1_wires] at this
/-- prepare / block-encoding / general / time-evolution payloads -/
example : Example.tree2.WF ∧ Example.tree3.WF ∧ Example.tree4.WF := ⟨Example.tree2_wf, Example.tree3_wf, Example.tree4_wf⟩
example : Example.tree2.mat.mul Example.tree2.mat.adjoint = Mat.one (2 ^ Example.tree2.wires) :=
  (C01_tree_unitary_exec _ Example.tree2_wf).1

end Qib.C01Tree
