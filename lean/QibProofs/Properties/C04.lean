import QibProofs.Lemmas.CircuitMat
/-!
C04 — Embedding a gate into a register acts on exactly its wires.

Property theorems only. The model is `QibModel/Embed.lean`:
`distributeToWires` is the algorithmic mirror of `gates.py:_distribute_to_wires` (bit scatter with shifts,
replication over the complementary wires), `gateCircuitMatrix` of every `as_circuit_matrix`,
`mapParticleToWire` / `permuteGateWires` of `util.py`. The reference semantics is `embedEntry` (flat indices,
wire 0 = most significant bit, first listed wire = most significant gate bit) and, in Mathlib vocabulary, `embed`
(bit-function indices). Both descriptions are tied to the running code by the exact correspondence in
`harness/props/c04.py` (exhaustive over all ordered wire selections up to the tier's bounds).
-/
open Matrix
namespace Qib.Embed

/-! ### The bit-scatter algorithm computes the embedding — for every register size, every ordered selection of
distinct wires, every gate matrix -/

/-- **Main theorem (full, not partial).** For all `n`, all ordered duplicate-free in-range wire lists `iw` and all
dense gate matrices `g` (any scalars, no symmetry or unitarity assumed), the mirror of `_distribute_to_wires` is
accepted and the sparse matrix it returns is `g` on the wires `iw` and the identity elsewhere. -/
theorem C04_distribute_denote {α : Type} [AddMonoid α] [DecidableEq α] (n : Nat) (iw : List Nat)
    (hnd : iw.Nodup) (hr : ∀ w ∈ iw, w < n) (g : Nat → Nat → α) :
    ∃ out, distributeToWires n iw (2 ^ iw.length) (2 ^ iw.length) (cooOfDense (2 ^ iw.length) g) = .ok out ∧
      ∀ R C, R < 2 ^ n → C < 2 ^ n → denote out R C = embedEntry n iw g R C := by
  have hcoo : ∀ e ∈ cooOfDense (2 ^ iw.length) g, e.1 < 2 ^ iw.length ∧ e.2.1 < 2 ^ iw.length :=
    fun e he => ⟨(mem_cooOfDense he).1, (mem_cooOfDense he).2.1⟩
  obtain ⟨out, ho, hden⟩ := distribute_denote hnd hr _ hcoo
  refine ⟨out, ho, fun R C hR hC => ?_⟩
  rw [hden R C hR hC]
  unfold embedEntry
  by_cases ha : agreeOff n iw R C = true
  · simp only [ha, if_true]
    exact denote_cooOfDense _ g _ _ (gateIdx_lt _ _ _) (gateIdx_lt _ _ _)
  · simp [ha]

/-- the same for an arbitrary list of stored entries (duplicates and explicit zeros allowed): the algorithm is
linear in the stored entries -/
theorem C04_distribute_denote_sparse {α : Type} [AddMonoid α] (n : Nat) (iw : List Nat)
    (hnd : iw.Nodup) (hr : ∀ w ∈ iw, w < n) (coo : Coo α)
    (hcoo : ∀ e ∈ coo, e.1 < 2 ^ iw.length ∧ e.2.1 < 2 ^ iw.length) :
    ∃ out, distributeToWires n iw (2 ^ iw.length) (2 ^ iw.length) coo = .ok out ∧
      ∀ R C, R < 2 ^ n → C < 2 ^ n → denote out R C = embedEntry n iw (denote coo) R C :=
  distribute_denote hnd hr coo hcoo

/-- no two entries of the returned COO list share a position (so nothing is ever summed up by the sparse
constructor), and their number is `2^(n-m) · nnz` -/
theorem C04_distribute_nodup {α : Type} [AddMonoid α] [DecidableEq α] (n : Nat) (iw : List Nat)
    (hnd : iw.Nodup) (hr : ∀ w ∈ iw, w < n) (g : Nat → Nat → α) (out : Coo α)
    (h : distributeToWires n iw (2 ^ iw.length) (2 ^ iw.length) (cooOfDense (2 ^ iw.length) g) = .ok out) :
    (out.map fun e => (e.1, e.2.1)).Nodup ∧
      out.length = 2 ^ (n - iw.length) * (cooOfDense (2 ^ iw.length) g).length := by
  have hcoo : ∀ e ∈ cooOfDense (2 ^ iw.length) g, e.1 < 2 ^ iw.length ∧ e.2.1 < 2 ^ iw.length :=
    fun e he => ⟨(mem_cooOfDense he).1, (mem_cooOfDense he).2.1⟩
  rw [distribute_eq_blocks hnd hr] at h
  simp only [Except.ok.injEq] at h
  subst h
  refine ⟨blocks_nodup hnd hr _ hcoo (cooOfDense_pos_nodup _ g), ?_⟩
  simp [blocks, List.length_flatMap]

/-- the rejection branch: the `assert`s of the code fire exactly for wire lists with a duplicate or an
out-of-range entry (and for a gate matrix of the wrong shape) -/
theorem C04_distribute_rejects {α : Type} [Add α] (n : Nat) (iw : List Nat) (r c : Nat) (coo : Coo α) :
    (¬ (iw.Nodup ∧ ∀ w ∈ iw, w < n) → distributeToWires n iw r c coo = .error .assertion) ∧
    (¬ (r = 2 ^ iw.length ∧ c = 2 ^ iw.length) → distributeToWires n iw r c coo = .error .assertion) ∧
    (iw.length + (complWires n iw).length = n ↔ (iw.Nodup ∧ ∀ w ∈ iw, w < n)) :=
  ⟨distribute_reject n iw r c coo, distribute_reject_shape n iw r c coo, length_add_complWires_iff n iw⟩

/-- the public path: whenever `gate.as_circuit_matrix(fields)` returns, all fields are two-level, every particle
was found, the wires are distinct and in range, and the returned sparse matrix (no duplicate positions) is the gate
on the wires of its particles, identity elsewhere -/
theorem C04_as_circuit_matrix_spec {α : Type} [AddMonoid α] [DecidableEq α] (fields : List FieldSpec)
    (ps : List ParticleSpec) (d : Nat) (g : Nat → Nat → α) (n' : Nat) (out : Coo α)
    (h : gateCircuitMatrix fields ps d g = .ok (n', out)) :
    n' = numWires fields ∧ GateOK fields ps d ∧ (out.map fun e => (e.1, e.2.1)).Nodup ∧
      ∀ R C, R < 2 ^ numWires fields → C < 2 ^ numWires fields →
        denote out R C = embedEntry (numWires fields) (wiresOfParticles fields ps) g R C :=
  gateCircuitMatrix_spec fields ps d g n' out h

/-! ### The embedding is `g` on the chosen wires and the identity on all others -/

section bits
variable {α : Type*} [CommRing α] {n m : ℕ}

/-- the flat reference is the bit-function embedding (bridge: `toBits n R w` = bit of wire `w`, wire 0 most
significant; `bitsToNat` its inverse) -/
theorem C04_embedEntry_eq_embed {β : Type} [CommRing β] (iw : Fin m ↪ Fin n) (g : ℕ → ℕ → β) (R C : ℕ) :
    embedEntry n (wiresOf iw) g R C
      = embed iw (fun r c => g (bitsToNat r) (bitsToNat c)) (toBits n R) (toBits n C) :=
  embedEntry_eq_embed iw g R C

theorem C04_bits_roundtrip (r : Fin m → Bool) (R : ℕ) (hR : R < 2 ^ n) :
    toBits m (bitsToNat r) = r ∧ bitsToNat r < 2 ^ m ∧ bitsToNat (toBits n R) = R :=
  ⟨toBits_bitsToNat r, bitsToNat_lt r, bitsToNat_toBits hR⟩

/-- acts as `g` on the chosen wires, as the identity elsewhere: an entry vanishes unless row and column agree off
the wires; the image of a basis state `C` is `Σ_t g(t, C∘iw) |C with the wires overwritten by t⟩` -/
theorem C04_embed_is_tensor_identity (iw : Fin m ↪ Fin n) (g : Matrix (Fin m → Bool) (Fin m → Bool) α) :
    (∀ R C, ¬ AgreeOff iw R C → embed iw g R C = 0) ∧
    (∀ R C, AgreeOff iw R C → embed iw g R C = g (R ∘ iw) (C ∘ iw)) ∧
    (∀ C t, embed iw g (override iw C t) C = g t (C ∘ iw)) := by
  refine ⟨fun R C h => by simp [embed, h], fun R C h => by simp [embed, h], fun C t => ?_⟩
  simp [embed, agreeOff_symm (override_agree iw C t), override_comp]

theorem C04_embed_mul (iw : Fin m ↪ Fin n) (g h : Matrix (Fin m → Bool) (Fin m → Bool) α) :
    embed iw g * embed iw h = embed iw (g * h) := embed_mul iw g h

theorem C04_embed_one (iw : Fin m ↪ Fin n) : embed iw (1 : Matrix (Fin m → Bool) (Fin m → Bool) α) = 1 :=
  embed_one iw

theorem C04_embed_conjTranspose [StarRing α] (iw : Fin m ↪ Fin n) (g : Matrix (Fin m → Bool) (Fin m → Bool) α) :
    (embed iw g)ᴴ = embed iw gᴴ := embed_conjTranspose iw g

/-- hence the embedding preserves inverses and unitarity, and is linear and injective -/
theorem C04_embed_preserves (iw : Fin m ↪ Fin n) [StarRing α] (g h : Matrix (Fin m → Bool) (Fin m → Bool) α) (z : α) :
    (g * h = 1 → embed iw g * embed iw h = 1) ∧
    (g * gᴴ = 1 ∧ gᴴ * g = 1 → embed iw g * (embed iw g)ᴴ = 1 ∧ (embed iw g)ᴴ * embed iw g = 1) ∧
    embed iw (g + h) = embed iw g + embed iw h ∧ embed iw (z • g) = z • embed iw g ∧
    (embed iw g = embed iw h → g = h) :=
  ⟨embed_inverse iw g h, embed_unitary iw g, embed_add iw g h, embed_smul iw z g, fun e => embed_injective iw e⟩

/-- wires `0..m-1` of `m + k`: the embedded gate is `g ⊗ₖ 1` (first Kronecker factor = leading wires) -/
theorem C04_embed_leading {k : ℕ} (g : Matrix (Fin m → Bool) (Fin m → Bool) α) :
    embed (Fin.castAddEmb k) g
      = Matrix.reindex (Fin.appendEquiv m k) (Fin.appendEquiv m k)
          (Matrix.kroneckerMap (· * ·) g (1 : Matrix (Fin k → Bool) (Fin k → Bool) α)) :=
  embed_leading g

/-- routing the wires through a permutation `σ` of the register = conjugation by the induced basis permutation -/
theorem C04_embed_perm [StarRing α] (iw : Fin m ↪ Fin n) (σ : Equiv.Perm (Fin n))
    (g : Matrix (Fin m → Bool) (Fin m → Bool) α) :
    embed (iw.trans σ.toEmbedding) g = wirePermMatrix σ * embed iw g * (wirePermMatrix σ)ᴴ ∧
    (wirePermMatrix σ : Matrix _ _ α) * (wirePermMatrix σ)ᴴ = 1 ∧
    ∀ R C, embed (iw.trans σ.toEmbedding) g R C = embed iw g (R ∘ σ) (C ∘ σ) :=
  ⟨embed_perm iw σ g, wirePermMatrix_unitary σ, embed_perm_apply iw σ g⟩

/-- any choice, order and adjacency of target wires: the embedded gate is a permuted `g ⊗ₖ 1` -/
theorem C04_embed_eq_permuted_kron [StarRing α] {k : ℕ} (iw : Fin m ↪ Fin (m + k))
    (g : Matrix (Fin m → Bool) (Fin m → Bool) α) :
    ∃ σ : Equiv.Perm (Fin (m + k)), (∀ a, σ (Fin.castAdd k a) = iw a) ∧
      embed iw g = wirePermMatrix σ *
        Matrix.reindex (Fin.appendEquiv m k) (Fin.appendEquiv m k)
          (Matrix.kroneckerMap (· * ·) g (1 : Matrix (Fin k → Bool) (Fin k → Bool) α)) * (wirePermMatrix σ)ᴴ :=
  embed_eq_conj_leading iw g

/-- re-ordering the field list moves every particle to another wire; the two register matrices of a gate are
conjugate by (any) wire permutation `σ` carrying the old placement to the new one, and such a `σ` exists -/
theorem C04_embed_fields_order [StarRing α] (iw iw' : Fin m ↪ Fin n) (g : Matrix (Fin m → Bool) (Fin m → Bool) α) :
    (∃ σ : Equiv.Perm (Fin n), ∀ a, σ (iw a) = iw' a) ∧
    ∀ σ : Equiv.Perm (Fin n), (∀ a, σ (iw a) = iw' a) →
      embed iw' g = wirePermMatrix σ * embed iw g * (wirePermMatrix σ)ᴴ := by
  refine ⟨exists_perm_extending iw iw', fun σ hσ => ?_⟩
  have : iw' = iw.trans σ.toEmbedding := by ext a; simp [← hσ a]
  rw [this, embed_perm]

/-! ### `permute_gate_wires` -/

/-- the model of `util.permute_gate_wires(u, perm)` accepts every permutation, its result is `permuteGate`
(new axis `a` = old axis `perm[a]`) read through the flat/bit bridge; `permuteGate` is the conjugation by the wire
permutation, and placing the permuted gate on wires `iw` is placing the original gate on `iw ∘ perm⁻¹` -/
theorem C04_permuteGateWires_spec [StarRing α] (π : Equiv.Perm (Fin m)) :
    (∀ {β : Type} (u : ℕ → ℕ → β), ∃ f, permuteGateWires (permList π) (2 ^ m) (2 ^ m) u = .ok f ∧
      ∀ R C, f R C = u (bitsToNat (toBits m R ∘ π.symm)) (bitsToNat (toBits m C ∘ π.symm))) ∧
    (∀ u : Matrix (Fin m → Bool) (Fin m → Bool) α,
      permuteGate π u = wirePermMatrix π.symm * u * (wirePermMatrix π.symm)ᴴ) ∧
    (∀ (iw : Fin m ↪ Fin n) (u : Matrix (Fin m → Bool) (Fin m → Bool) α),
      embed iw (permuteGate π u) = embed (π.symm.toEmbedding.trans iw) u) :=
  ⟨fun u => permuteGateWires_permList π u, permuteGate_eq_conj π, fun iw u => embed_permuteGate iw π u⟩

/-- rejections of `permute_gate_wires`: wrong shape ↦ `assert`; not a permutation ↦ numpy's `ValueError` -/
theorem C04_permuteGateWires_rejects {β : Type} (perm : List ℕ) (r c : ℕ) (u : ℕ → ℕ → β) :
    (¬ (r = 2 ^ perm.length ∧ c = 2 ^ perm.length) → ∃ e, permuteGateWires perm r c u = .error e ∧ e = .assertion) ∧
    (r = 2 ^ perm.length ∧ c = 2 ^ perm.length → isPermOfRange perm.length perm = false →
      ∃ e, permuteGateWires perm r c u = .error e ∧ e = .valueError) := by
  constructor
  · intro h; exact ⟨_, by simp [permuteGateWires, h], rfl⟩
  · intro h h2; exact ⟨_, by simp [permuteGateWires, h, h2], rfl⟩

end bits

/-! ### particle ↦ wire -/

/-- the wire of a particle is the sum of the sizes of the fields listed before its field, plus its index;
`-1` if its field is not listed; the first match wins -/
theorem C04_wireOf_spec (pre post : List FieldSpec) (f : FieldSpec) (p : ParticleSpec)
    (hpre : ∀ g ∈ pre, g.id ≠ p.field) :
    (f.id = p.field →
      mapParticleToWire (pre ++ f :: post) p = ((pre.map fun g => (g.nsites : Int)).sum) + p.index) ∧
    mapParticleToWire pre p = -1 ∧
    numWires (pre ++ f :: post) = (pre.map (·.nsites)).sum + f.nsites + (post.map (·.nsites)).sum := by
  refine ⟨fun hf => ?_, ?_, ?_⟩
  · unfold mapParticleToWire
    rw [mapParticleToWireGo_found _ _ pre post f hpre hf]; ring
  · exact mapParticleToWireGo_notfound _ _ pre hpre 0
  · rw [numWires_eq_sum]; simp [Nat.add_assoc]

/-- first listed particle ↦ most significant gate bit; wire 0 ↦ most significant register bit -/
theorem C04_gateIdx_msb_first (n : Nat) (w : Nat) (ws : List Nat) (R : Nat) :
    gateIdx n (w :: ws) R = (wireBit n R w).toNat * 2 ^ ws.length + gateIdx n ws R ∧
    wireBit n R w = R.testBit (n - 1 - w) ∧ gateIdx n (w :: ws) R < 2 ^ (ws.length + 1) := by
  refine ⟨?_, rfl, by simpa using gateIdx_lt n (w :: ws) R⟩
  unfold gateIdx wireBit
  simp only [List.foldl_cons]
  rw [foldl_eq_gatherRec (fun w => n - 1 - w), foldl_eq_gatherRec (fun w => n - 1 - w)]
  simp

/-! ### Non-vacuity: the hypotheses are satisfiable, the functions do something -/

example : ([2, 0] : List Nat).Nodup ∧ ∀ w ∈ ([2, 0] : List Nat), w < 3 := by decide

/-- a non-symmetric single entry `g[1,2] = 5` on wires `[2, 0]` of a 3-wire register: gate row `(01)` ↦ second listed
wire (wire 0, flat bit 2) set, gate column `(10)` ↦ first listed wire (wire 2, flat bit 0) set; replicated over wire 1 -/
example : distributeToWires 3 [2, 0] 4 4 [(1, 2, (5 : Int))] = .ok [(4, 1, 5), (6, 3, 5)] := by decide

example : embedEntry 3 [2, 0] (fun r c => if r = 1 ∧ c = 2 then (5 : Int) else 0) 6 3 = 5 := by decide
example : embedEntry 3 [2, 0] (fun r c => if r = 1 ∧ c = 2 then (5 : Int) else 0) 4 3 = 0 := by decide

example : distributeToWires 3 [2, 2] 4 4 [(1, 2, (5 : Int))] = .error .assertion := by decide
example : distributeToWires 3 [3, 0] 4 4 [(1, 2, (5 : Int))] = .error .assertion := by decide

example : mapParticleToWire [⟨7, 2, 2⟩, ⟨9, 3, 2⟩] ⟨9, 1⟩ = 3 ∧ mapParticleToWire [⟨7, 2, 2⟩] ⟨9, 1⟩ = -1 := by
  decide

example : ∃ iw : Fin 2 ↪ Fin 3, wiresOf iw = [2, 0] :=
  ⟨⟨![2, 0], by intro a b; fin_cases a <;> fin_cases b <;> simp⟩, by decide⟩

end Qib.Embed
