import QibProofs.Lemmas.GateBridge
import QibProofs.Lemmas.GateAlgebra
import QibProofs.Lemmas.PauliFlags
import Mathlib.Tactic.NormNum
import Mathlib.Tactic.Positivity
/-!
C01 — Every gate reports a unitary matrix (property theorems only).

Leaf theorems are about the definitions *regenerated from the Python source* (`QibGen.GatesReal`);
composite gates are combinators over arbitrary index types, so "any number of controls, any control
pattern, arbitrary nesting" is covered by `C01_constructible_unitary` (induction over gate trees).
Matrix sizes: the generated leaf matrices have type `Matrix (Fin d) (Fin d) ℂ` with `d = 2 ^ wires`
(`C01_leaf_dims`); composites multiply the index type by the control index type.
-/
open Matrix NormedSpace Complex QibGen QibRef Qib.GateAlgebra

namespace Qib.C01

/-! ### leaves (generated closed forms) -/

theorem C01_leaf_dims :
    (2 = 2 ^ IdentityGate.wires) ∧ (2 = 2 ^ PauliXGate.wires) ∧ (2 = 2 ^ PauliYGate.wires) ∧ (2 = 2 ^ PauliZGate.wires) ∧
    (2 = 2 ^ HadamardGate.wires) ∧ (2 = 2 ^ SxGate.wires) ∧ (2 = 2 ^ RxGate.wires) ∧ (2 = 2 ^ RyGate.wires) ∧
    (2 = 2 ^ RzGate.wires) ∧ (2 = 2 ^ RotationGate.wires) ∧ (2 = 2 ^ SGate.wires) ∧ (2 = 2 ^ SAdjGate.wires) ∧
    (2 = 2 ^ TGate.wires) ∧ (2 = 2 ^ TAdjGate.wires) ∧ (4 = 2 ^ RxxGate.wires) ∧ (4 = 2 ^ RyyGate.wires) ∧
    (4 = 2 ^ RzzGate.wires) ∧ (4 = 2 ^ ISwapGate.wires) ∧ (∀ n, 2 ^ n = 2 ^ PhaseFactorGate.wires n) := by
  refine ⟨rfl, rfl, rfl, rfl, rfl, rfl, rfl, rfl, rfl, rfl, rfl, rfl, rfl, rfl, rfl, rfl, rfl, rfl, fun _ => rfl⟩

theorem C01_IdentityGate_unitary : IdentityGate.mat * (IdentityGate.mat)ᴴ = 1 := by
  simp only [IdentityGate.mat]
  ext i j; fin_cases i <;> fin_cases j <;> simp [Matrix.mul_apply, Fin.sum_univ_two]

theorem C01_PauliXGate_unitary : PauliXGate.mat * (PauliXGate.mat)ᴴ = 1 := by
  simp only [PauliXGate.mat]
  ext i j; fin_cases i <;> fin_cases j <;> simp [Matrix.mul_apply, Fin.sum_univ_two]

theorem C01_PauliYGate_unitary : PauliYGate.mat * (PauliYGate.mat)ᴴ = 1 := by
  simp only [PauliYGate.mat]
  ext i j; fin_cases i <;> fin_cases j <;> simp [Matrix.mul_apply, Fin.sum_univ_two]

theorem C01_PauliZGate_unitary : PauliZGate.mat * (PauliZGate.mat)ᴴ = 1 := by
  simp only [PauliZGate.mat]
  ext i j; fin_cases i <;> fin_cases j <;> simp [Matrix.mul_apply, Fin.sum_univ_two]

theorem C01_SGate_unitary : SGate.mat * (SGate.mat)ᴴ = 1 := by
  simp only [SGate.mat]
  ext i j; fin_cases i <;> fin_cases j <;> simp [Matrix.mul_apply, Fin.sum_univ_two]

theorem C01_SAdjGate_unitary : SAdjGate.mat * (SAdjGate.mat)ᴴ = 1 := by
  simp only [SAdjGate.mat]
  ext i j; fin_cases i <;> fin_cases j <;> simp [Matrix.mul_apply, Fin.sum_univ_two]

theorem C01_ISwapGate_unitary : ISwapGate.mat * (ISwapGate.mat)ᴴ = 1 := by
  simp only [ISwapGate.mat]
  ext i j; fin_cases i <;> fin_cases j <;> simp [Matrix.mul_apply, Fin.sum_univ_four]

/-- facts about `√2` used by H, Sx, T, T† -/
private theorem sqrt2_facts : ((Real.sqrt 2 : ℝ) : ℂ) ^ 2 = 2 ∧ ((Real.sqrt 2 : ℝ) : ℂ) ≠ 0 := by
  have h2 : (Real.sqrt 2) ^ 2 = 2 := Real.sq_sqrt (by norm_num)
  have hpos : Real.sqrt 2 ≠ 0 := by positivity
  exact ⟨by exact_mod_cast h2, by exact_mod_cast hpos⟩

theorem C01_HadamardGate_unitary : HadamardGate.mat * (HadamardGate.mat)ᴴ = 1 := by
  simp only [HadamardGate.mat]
  obtain ⟨h', hr⟩ := sqrt2_facts
  generalize Real.sqrt 2 = r at *
  ext i j; fin_cases i <;> fin_cases j <;> simp [Matrix.mul_apply, Fin.sum_univ_two] <;> field_simp <;> grind

theorem C01_SxGate_unitary : SxGate.mat * (SxGate.mat)ᴴ = 1 := by
  simp only [SxGate.mat]
  obtain ⟨h', hr⟩ := sqrt2_facts
  have hI : I ^ 2 = -1 := Complex.I_sq
  generalize Real.sqrt 2 = r at *
  ext i j; fin_cases i <;> fin_cases j <;> simp [Matrix.mul_apply, Fin.sum_univ_two] <;> field_simp <;> grind

theorem C01_TGate_unitary : TGate.mat * (TGate.mat)ᴴ = 1 := by
  simp only [TGate.mat]
  obtain ⟨h', hr⟩ := sqrt2_facts
  have hI : I ^ 2 = -1 := Complex.I_sq
  generalize Real.sqrt 2 = r at *
  ext i j; fin_cases i <;> fin_cases j <;> simp [Matrix.mul_apply, Fin.sum_univ_two] <;> field_simp <;> grind

theorem C01_TAdjGate_unitary : TAdjGate.mat * (TAdjGate.mat)ᴴ = 1 := by
  simp only [TAdjGate.mat]
  obtain ⟨h', hr⟩ := sqrt2_facts
  have hI : I ^ 2 = -1 := Complex.I_sq
  generalize Real.sqrt 2 = r at *
  ext i j; fin_cases i <;> fin_cases j <;> simp [Matrix.mul_apply, Fin.sum_univ_two] <;> field_simp <;> grind

theorem C01_RxGate_unitary (θ : ℝ) : RxGate.mat θ * (RxGate.mat θ)ᴴ = 1 := by
  have h := Real.cos_sq_add_sin_sq (θ / 2)
  simp only [RxGate.mat]
  generalize Real.cos (θ / 2) = c at *
  generalize Real.sin (θ / 2) = s at *
  have h' : (c : ℂ) ^ 2 + (s : ℂ) ^ 2 = 1 := by exact_mod_cast h
  have hI : I ^ 2 = -1 := Complex.I_sq
  ext i j; fin_cases i <;> fin_cases j <;> simp [Matrix.mul_apply, Fin.sum_univ_two] <;> grind

theorem C01_RyGate_unitary (θ : ℝ) : RyGate.mat θ * (RyGate.mat θ)ᴴ = 1 := by
  have h := Real.cos_sq_add_sin_sq (θ / 2)
  simp only [RyGate.mat]
  generalize Real.cos (θ / 2) = c at *
  generalize Real.sin (θ / 2) = s at *
  have h' : (c : ℂ) ^ 2 + (s : ℂ) ^ 2 = 1 := by exact_mod_cast h
  have hI : I ^ 2 = -1 := Complex.I_sq
  ext i j; fin_cases i <;> fin_cases j <;> simp [Matrix.mul_apply, Fin.sum_univ_two] <;> grind

theorem C01_RxxGate_unitary (θ : ℝ) : RxxGate.mat θ * (RxxGate.mat θ)ᴴ = 1 := by
  have h := Real.cos_sq_add_sin_sq (θ / 2)
  simp only [RxxGate.mat]
  generalize Real.cos (θ / 2) = c at *
  generalize Real.sin (θ / 2) = s at *
  have h' : (c : ℂ) ^ 2 + (s : ℂ) ^ 2 = 1 := by exact_mod_cast h
  have hI : I ^ 2 = -1 := Complex.I_sq
  ext i j; fin_cases i <;> fin_cases j <;> simp [Matrix.mul_apply, Fin.sum_univ_four] <;> grind

theorem C01_RyyGate_unitary (θ : ℝ) : RyyGate.mat θ * (RyyGate.mat θ)ᴴ = 1 := by
  have h := Real.cos_sq_add_sin_sq (θ / 2)
  simp only [RyyGate.mat]
  generalize Real.cos (θ / 2) = c at *
  generalize Real.sin (θ / 2) = s at *
  have h' : (c : ℂ) ^ 2 + (s : ℂ) ^ 2 = 1 := by exact_mod_cast h
  have hI : I ^ 2 = -1 := Complex.I_sq
  ext i j; fin_cases i <;> fin_cases j <;> simp [Matrix.mul_apply, Fin.sum_univ_four] <;> grind

theorem C01_RzGate_unitary (θ : ℝ) : RzGate.mat θ * (RzGate.mat θ)ᴴ = 1 := by
  simp only [RzGate.mat]
  have hu := exp_mul_conj_of_re_zero ((((1 : ℝ) : ℂ) * I) * ((θ : ℝ) : ℂ) / (((2 : ℝ) : ℝ) : ℂ)) (by simp)
  generalize Complex.exp ((((1 : ℝ) : ℂ) * I) * ((θ : ℝ) : ℂ) / (((2 : ℝ) : ℝ) : ℂ)) = u at *
  have hu' : starRingEnd ℂ u * u = 1 := by rw [mul_comm]; exact hu
  ext i j; fin_cases i <;> fin_cases j <;> simp [Matrix.mul_apply, Fin.sum_univ_two, hu, hu']

theorem C01_RzzGate_unitary (θ : ℝ) : RzzGate.mat θ * (RzzGate.mat θ)ᴴ = 1 := by
  simp only [RzzGate.mat]
  have hu := exp_mul_conj_of_re_zero ((-(((1 : ℝ) : ℂ) * I)) * ((θ : ℝ) : ℂ) / (((2 : ℝ) : ℝ) : ℂ)) (by simp)
  generalize Complex.exp ((-(((1 : ℝ) : ℂ) * I)) * ((θ : ℝ) : ℂ) / (((2 : ℝ) : ℝ) : ℂ)) = u at *
  have hu' : starRingEnd ℂ u * u = 1 := by rw [mul_comm]; exact hu
  ext i j; fin_cases i <;> fin_cases j <;> simp [Matrix.mul_apply, Fin.sum_univ_four, hu, hu']

theorem C01_PhaseFactorGate_unitary (φ : ℝ) (n : ℕ) : PhaseFactorGate.mat φ n * (PhaseFactorGate.mat φ n)ᴴ = 1 := by
  simp only [PhaseFactorGate.mat]
  have hu := exp_mul_conj_of_re_zero ((((1 : ℝ) : ℂ) * I) * ((φ : ℝ) : ℂ)) (by simp)
  generalize Complex.exp ((((1 : ℝ) : ℂ) * I) * ((φ : ℝ) : ℂ)) = u at *
  rw [Matrix.conjTranspose_smul, Matrix.conjTranspose_one, Matrix.smul_mul, Matrix.mul_smul, Matrix.mul_one, smul_smul]
  have : u * star u = 1 := by simpa using hu
  rw [this, one_smul]

theorem C01_RotationGate_unitary (v : Fin 3 → ℝ) : RotationGate.mat v * (RotationGate.mat v)ᴴ = 1 := by
  simp only [RotationGate.mat]
  split_ifs with h0
  · simp
  · have hnn : 0 ≤ (v 0) ^ 2 + (v 1) ^ 2 + (v 2) ^ 2 := by positivity
    have hsq := Real.sq_sqrt hnn
    have hc := Real.cos_sq_add_sin_sq (Real.sqrt ((v 0) ^ 2 + (v 1) ^ 2 + (v 2) ^ 2) / 2)
    generalize Real.sqrt ((v 0) ^ 2 + (v 1) ^ 2 + (v 2) ^ 2) = t at *
    generalize Real.cos (t / 2) = c at *
    generalize Real.sin (t / 2) = s at *
    have hn : (v 0 / t) ^ 2 + (v 1 / t) ^ 2 + (v 2 / t) ^ 2 = 1 := by
      field_simp; linarith
    generalize v 0 / t = n0 at *
    generalize v 1 / t = n1 at *
    generalize v 2 / t = n2 at *
    have hc' : (c : ℂ) ^ 2 + (s : ℂ) ^ 2 = 1 := by exact_mod_cast hc
    have hn' : (n0 : ℂ) ^ 2 + (n1 : ℂ) ^ 2 + (n2 : ℂ) ^ 2 = 1 := by exact_mod_cast hn
    have hI : I ^ 2 = -1 := Complex.I_sq
    ext i j; fin_cases i <;> fin_cases j <;> simp [Matrix.mul_apply, Fin.sum_univ_two] <;> grind

/-! ### composite gates (arbitrary index types: any number of controls, any pattern) -/

section Composite
variable {κ ι : Type} [Fintype κ] [DecidableEq κ] [Fintype ι] [DecidableEq ι]

/-- controlled gate = `U` on the control pattern `cs`, identity on every other pattern -/
theorem C01_controlled_unitary (cs : κ) (U : Matrix ι ι ℂ) (h : U * Uᴴ = 1) :
    blockOn cs U * (blockOn cs U)ᴴ = 1 := by
  rw [blockOn_eq_blocks]
  apply blocks_unitary
  intro k; split_ifs
  · exact h
  · simp

/-- multiplexed gate = block diagonal of the target matrices -/
theorem C01_multiplexed_unitary (U : κ → Matrix ι ι ℂ) (h : ∀ k, U k * (U k)ᴴ = 1) :
    blocks U * (blocks U)ᴴ = 1 := blocks_unitary U h

/-- time evolution `exp(-i t H)` for every Hermitian `H` and every real `t` (`expm` modelled by `NormedSpace.exp`) -/
theorem C01_timeEvolution_unitary (H : Matrix ι ι ℂ) (hH : Hᴴ = H) (t : ℝ) :
    exp ((-(I * (t : ℂ))) • H) * (exp ((-(I * (t : ℂ))) • H))ᴴ = 1 := by
  rw [← Matrix.exp_conjTranspose, Matrix.conjTranspose_smul, hH]
  have hs : star (-(I * (t : ℂ))) = I * (t : ℂ) := by simp
  rw [hs, ← Matrix.exp_add_of_commute]
  · rw [neg_smul, neg_add_cancel, NormedSpace.exp_zero]
  · exact ((Commute.refl H).smul_left _).smul_right _

/-- the three block encodings; `S` stands for `sqrtm(1 - H²)` and is only assumed to be a Hermitian
square root of `1 - H²` commuting with `H` (checked numerically on every sampled call) -/
theorem C01_blockEncoding_Wx_unitary (H S : Matrix ι ι ℂ) (hH : Hᴴ = H) (hS : Sᴴ = S)
    (hsq : S * S = 1 - H * H) (hc : S * H = H * S) :
    fromBlocks H (I • S) (I • S) H * (fromBlocks H (I • S) (I • S) H)ᴴ = 1 := by
  rw [fromBlocks_conjTranspose, fromBlocks_multiply, ← fromBlocks_one]
  simp only [conjTranspose_smul, hH, hS, star_def, conj_I, smul_mul_smul_comm, Matrix.mul_smul, Matrix.smul_mul, hsq, hc]
  congr 1 <;> simp [mul_neg] <;> abel

theorem C01_blockEncoding_Wxi_unitary (H S : Matrix ι ι ℂ) (hH : Hᴴ = H) (hS : Sᴴ = S)
    (hsq : S * S = 1 - H * H) (hc : S * H = H * S) :
    fromBlocks H ((-I) • S) ((-I) • S) H * (fromBlocks H ((-I) • S) ((-I) • S) H)ᴴ = 1 := by
  rw [fromBlocks_conjTranspose, fromBlocks_multiply, ← fromBlocks_one]
  simp only [conjTranspose_smul, hH, hS, star_def, conj_I, map_neg, neg_neg, smul_mul_smul_comm, Matrix.mul_smul, Matrix.smul_mul, hsq, hc]
  congr 1 <;> simp [mul_neg] <;> abel

theorem C01_blockEncoding_R_unitary (H S : Matrix ι ι ℂ) (hH : Hᴴ = H) (hS : Sᴴ = S)
    (hsq : S * S = 1 - H * H) (hc : S * H = H * S) :
    fromBlocks H S S (-H) * (fromBlocks H S S (-H))ᴴ = 1 := by
  rw [fromBlocks_conjTranspose, fromBlocks_multiply, ← fromBlocks_one]
  simp only [conjTranspose_neg, hH, hS, Matrix.mul_neg, Matrix.neg_mul, neg_neg, hsq, hc]
  congr 1 <;> abel

/-- state preparation: a real orthogonal `Q` (the QR completion) stays orthogonal when columns are
multiplied by signs, and so does its transpose; complexified it is unitary -/
theorem C01_prepare_orthogonal (Q : Matrix ι ι ℝ) (hQ : Q * Qᵀ = 1) (d : ι → ℝ) (hd : ∀ i, d i * d i = 1) :
    (Q * diagonal d) * (Q * diagonal d)ᵀ = 1 ∧
    ((Q * diagonal d).map Complex.ofReal) * ((Q * diagonal d).map Complex.ofReal)ᴴ = 1 := by
  have h1 := orthogonal_mul_signs Q hQ d hd
  exact ⟨h1, real_orthogonal_unitary _ h1⟩

end Composite

/-! ### every constructible gate tree, nested to any depth -/

/-- `Constructible w U`: `U` is the matrix of a gate object with `w` wires that the library can build. -/
inductive Constructible : ℕ → ∀ {ι : Type} [Fintype ι] [DecidableEq ι], Matrix ι ι ℂ → Prop
  | identity : Constructible 1 IdentityGate.mat
  | pauliX : Constructible 1 PauliXGate.mat
  | pauliY : Constructible 1 PauliYGate.mat
  | pauliZ : Constructible 1 PauliZGate.mat
  | hadamard : Constructible 1 HadamardGate.mat
  | sx : Constructible 1 SxGate.mat
  | rx (θ : ℝ) : Constructible 1 (RxGate.mat θ)
  | ry (θ : ℝ) : Constructible 1 (RyGate.mat θ)
  | rz (θ : ℝ) : Constructible 1 (RzGate.mat θ)
  | rotation (v : Fin 3 → ℝ) : Constructible 1 (RotationGate.mat v)
  | s : Constructible 1 SGate.mat
  | sAdj : Constructible 1 SAdjGate.mat
  | t : Constructible 1 TGate.mat
  | tAdj : Constructible 1 TAdjGate.mat
  | phase (φ : ℝ) (n : ℕ) : Constructible n (PhaseFactorGate.mat φ n)
  | rxx (θ : ℝ) : Constructible 2 (RxxGate.mat θ)
  | ryy (θ : ℝ) : Constructible 2 (RyyGate.mat θ)
  | rzz (θ : ℝ) : Constructible 2 (RzzGate.mat θ)
  | iswap : Constructible 2 ISwapGate.mat
  /-- `GeneralGate`: the constructor's own unitarity check, read exactly -/
  | general (n : ℕ) (U : Matrix (Fin (2 ^ n)) (Fin (2 ^ n)) ℂ) (h : U * Uᴴ = 1) : Constructible n U
  /-- `PrepareGate` on `n` qubits (either transpose flag) -/
  | prepare (n : ℕ) (Q : Matrix (Fin (2 ^ n)) (Fin (2 ^ n)) ℝ) (hQ : Q * Qᵀ = 1) (d : Fin (2 ^ n) → ℝ)
      (hd : ∀ i, d i * d i = 1) : Constructible n ((Q * diagonal d).map Complex.ofReal)
  | prepareT (n : ℕ) (Q : Matrix (Fin (2 ^ n)) (Fin (2 ^ n)) ℝ) (hQ : Q * Qᵀ = 1) (hQ' : Qᵀ * Q = 1) (d : Fin (2 ^ n) → ℝ)
      (hd : ∀ i, d i * d i = 1) : Constructible n (((Q * diagonal d)ᵀ).map Complex.ofReal)
  | timeEvolution (n : ℕ) (H : Matrix (Fin (2 ^ n)) (Fin (2 ^ n)) ℂ) (hH : Hᴴ = H) (t : ℝ) :
      Constructible n (exp ((-(I * (t : ℂ))) • H))
  | blockWx (n : ℕ) (H S : Matrix (Fin (2 ^ n)) (Fin (2 ^ n)) ℂ) (hH : Hᴴ = H) (hS : Sᴴ = S)
      (hsq : S * S = 1 - H * H) (hc : S * H = H * S) : Constructible (n + 1) (fromBlocks H (I • S) (I • S) H)
  | blockWxi (n : ℕ) (H S : Matrix (Fin (2 ^ n)) (Fin (2 ^ n)) ℂ) (hH : Hᴴ = H) (hS : Sᴴ = S)
      (hsq : S * S = 1 - H * H) (hc : S * H = H * S) : Constructible (n + 1) (fromBlocks H ((-I) • S) ((-I) • S) H)
  | blockR (n : ℕ) (H S : Matrix (Fin (2 ^ n)) (Fin (2 ^ n)) ℂ) (hH : Hᴴ = H) (hS : Sᴴ = S)
      (hsq : S * S = 1 - H * H) (hc : S * H = H * S) : Constructible (n + 1) (fromBlocks H S S (-H))
  /-- `ControlledGate` with `nc` controls in pattern `cs` around ANY constructible target -/
  | controlled {w : ℕ} {ι : Type} [Fintype ι] [DecidableEq ι] (nc : ℕ) (cs : Fin nc → Bool) (U : Matrix ι ι ℂ) :
      Constructible w U → Constructible (w + nc) (blockOn cs U)
  /-- `MultiplexedGate` with `nc` controls around ANY constructible targets -/
  | multiplexed {w : ℕ} {ι : Type} [Fintype ι] [DecidableEq ι] (nc : ℕ) (U : (Fin nc → Bool) → Matrix ι ι ℂ) :
      (∀ k, Constructible w (U k)) → Constructible (w + nc) (blocks U)

/-- **C01**: every constructible gate, nested to any depth, has a unitary matrix of size `2 ^ wires`. -/
theorem C01_constructible_unitary {w : ℕ} {ι : Type} [Fintype ι] [DecidableEq ι] {U : Matrix ι ι ℂ}
    (h : Constructible w U) : U * Uᴴ = 1 ∧ Fintype.card ι = 2 ^ w := by
  induction h with
  | identity => exact ⟨C01_IdentityGate_unitary, rfl⟩
  | pauliX => exact ⟨C01_PauliXGate_unitary, rfl⟩
  | pauliY => exact ⟨C01_PauliYGate_unitary, rfl⟩
  | pauliZ => exact ⟨C01_PauliZGate_unitary, rfl⟩
  | hadamard => exact ⟨C01_HadamardGate_unitary, rfl⟩
  | sx => exact ⟨C01_SxGate_unitary, rfl⟩
  | rx θ => exact ⟨C01_RxGate_unitary θ, rfl⟩
  | ry θ => exact ⟨C01_RyGate_unitary θ, rfl⟩
  | rz θ => exact ⟨C01_RzGate_unitary θ, rfl⟩
  | rotation v => exact ⟨C01_RotationGate_unitary v, rfl⟩
  | s => exact ⟨C01_SGate_unitary, rfl⟩
  | sAdj => exact ⟨C01_SAdjGate_unitary, rfl⟩
  | t => exact ⟨C01_TGate_unitary, rfl⟩
  | tAdj => exact ⟨C01_TAdjGate_unitary, rfl⟩
  | phase φ n => exact ⟨C01_PhaseFactorGate_unitary φ n, by simp⟩
  | rxx θ => exact ⟨C01_RxxGate_unitary θ, rfl⟩
  | ryy θ => exact ⟨C01_RyyGate_unitary θ, rfl⟩
  | rzz θ => exact ⟨C01_RzzGate_unitary θ, rfl⟩
  | iswap => exact ⟨C01_ISwapGate_unitary, rfl⟩
  | general n U h => exact ⟨h, by simp⟩
  | prepare n Q hQ d hd => exact ⟨(C01_prepare_orthogonal Q hQ d hd).2, by simp⟩
  | prepareT n Q hQ hQ' d hd =>
    exact ⟨real_orthogonal_unitary _ (orthogonal_mul_signs_transpose Q hQ' d hd), by simp⟩
  | timeEvolution n H hH t => exact ⟨C01_timeEvolution_unitary H hH t, by simp⟩
  | blockWx n H S hH hS hsq hc => exact ⟨C01_blockEncoding_Wx_unitary H S hH hS hsq hc, by simp [pow_succ]; ring⟩
  | blockWxi n H S hH hS hsq hc => exact ⟨C01_blockEncoding_Wxi_unitary H S hH hS hsq hc, by simp [pow_succ]; ring⟩
  | blockR n H S hH hS hsq hc => exact ⟨C01_blockEncoding_R_unitary H S hH hS hsq hc, by simp [pow_succ]; ring⟩
  | controlled nc cs U _ ih => exact ⟨C01_controlled_unitary cs U ih.1, by simp [ih.2, pow_add, mul_comm]⟩
  | multiplexed nc U _ ih => exact ⟨C01_multiplexed_unitary U (fun k => (ih k).1), by
      have := (ih (fun _ => false)).2
      simp [this, pow_add, mul_comm]⟩

/-! ### non-vacuity: a doubly nested, negatively controlled rotation is constructible -/
example : Constructible (1 + 2 + 1) (blockOn (fun _ : Fin 1 => false) (blockOn (fun i : Fin 2 => decide (i = 0)) (RxGate.mat 0.3))) :=
  .controlled 1 _ _ (.controlled 2 _ _ (.rx 0.3))

/-! ### "whenever an operator claims to be unitary, its matrix is": Pauli strings and weighted Pauli strings -/

open Qib.Pauli in
/-- `PauliString.is_unitary()` is the constant True; every string matrix (any length, any phase) is unitary. -/
theorem C01_PauliString_unitary (n : ℕ) (P : PS) : (P.mat n)ᴴ * P.mat n = 1 ∧ P.mat n * (P.mat n)ᴴ = 1 := by
  have h := Qib.Pauli.mat_conjTranspose_mul_self n P
  exact ⟨h, mul_eq_one_comm.mp h⟩

open Qib.Pauli in
/-- `WeightedPauliString.is_unitary()` answers `abs(weight) == 1`; the weighted string is unitary exactly then. -/
theorem C01_WeightedPauliString_unitary_iff (n : ℕ) (P : PS) (w : ℂ) :
    ‖w‖ = 1 ↔ (w • P.mat n)ᴴ * (w • P.mat n) = 1 :=
  Qib.Pauli.wps_unitary_iff n P w

open Qib.Pauli in
/-- the executable answer of the model (`|w|² = 1` over exact Gaussian rationals) claims unitarity exactly when the weighted string
matrix is unitary -/
theorem C01_WeightedPauliString_claim_iff (n : ℕ) (P : PS) (w : GQ) :
    wpsIsUnitary w = true ↔ (w.toC • P.mat n)ᴴ * (w.toC • P.mat n) = 1 :=
  (Qib.Pauli.wpsIsUnitary_iff w).trans (Qib.Pauli.wps_unitary_iff n P w.toC)

/-! ### The same statements about the forms regenerated from the CURRENT source

`QibSrc.K.mat` / `QibSrc.K.inv` are regenerated from `src/qib/operator/gates.py` on every run; `QibBridge` proves on every run that they are
equal to the reference forms `QibRef.K.mat` / `QibRef.K.inv` used above (by a tactic that is independent of how the source spells the
closed form), so every theorem above is a theorem about what the code says now. -/

theorem C01_source_agrees : QibBridge.SrcAgrees := QibBridge.srcAgrees
theorem C01_IdentityGate_unitary_src : QibSrc.IdentityGate.mat * (QibSrc.IdentityGate.mat)ᴴ = 1 := by
  rw [QibBridge.IdentityGate_mat]; exact C01_IdentityGate_unitary
theorem C01_PauliXGate_unitary_src : QibSrc.PauliXGate.mat * (QibSrc.PauliXGate.mat)ᴴ = 1 := by
  rw [QibBridge.PauliXGate_mat]; exact C01_PauliXGate_unitary
theorem C01_PauliYGate_unitary_src : QibSrc.PauliYGate.mat * (QibSrc.PauliYGate.mat)ᴴ = 1 := by
  rw [QibBridge.PauliYGate_mat]; exact C01_PauliYGate_unitary
theorem C01_PauliZGate_unitary_src : QibSrc.PauliZGate.mat * (QibSrc.PauliZGate.mat)ᴴ = 1 := by
  rw [QibBridge.PauliZGate_mat]; exact C01_PauliZGate_unitary
theorem C01_HadamardGate_unitary_src : QibSrc.HadamardGate.mat * (QibSrc.HadamardGate.mat)ᴴ = 1 := by
  rw [QibBridge.HadamardGate_mat]; exact C01_HadamardGate_unitary
theorem C01_SxGate_unitary_src : QibSrc.SxGate.mat * (QibSrc.SxGate.mat)ᴴ = 1 := by
  rw [QibBridge.SxGate_mat]; exact C01_SxGate_unitary
theorem C01_RxGate_unitary_src (θ : ℝ): QibSrc.RxGate.mat θ * (QibSrc.RxGate.mat θ)ᴴ = 1 := by
  rw [QibBridge.RxGate_mat]; exact C01_RxGate_unitary θ
theorem C01_RyGate_unitary_src (θ : ℝ): QibSrc.RyGate.mat θ * (QibSrc.RyGate.mat θ)ᴴ = 1 := by
  rw [QibBridge.RyGate_mat]; exact C01_RyGate_unitary θ
theorem C01_RzGate_unitary_src (θ : ℝ): QibSrc.RzGate.mat θ * (QibSrc.RzGate.mat θ)ᴴ = 1 := by
  rw [QibBridge.RzGate_mat]; exact C01_RzGate_unitary θ
theorem C01_RotationGate_unitary_src (v : Fin 3 → ℝ): QibSrc.RotationGate.mat v * (QibSrc.RotationGate.mat v)ᴴ = 1 := by
  rw [QibBridge.RotationGate_mat]; exact C01_RotationGate_unitary v
theorem C01_SGate_unitary_src : QibSrc.SGate.mat * (QibSrc.SGate.mat)ᴴ = 1 := by
  rw [QibBridge.SGate_mat]; exact C01_SGate_unitary
theorem C01_SAdjGate_unitary_src : QibSrc.SAdjGate.mat * (QibSrc.SAdjGate.mat)ᴴ = 1 := by
  rw [QibBridge.SAdjGate_mat]; exact C01_SAdjGate_unitary
theorem C01_TGate_unitary_src : QibSrc.TGate.mat * (QibSrc.TGate.mat)ᴴ = 1 := by
  rw [QibBridge.TGate_mat]; exact C01_TGate_unitary
theorem C01_TAdjGate_unitary_src : QibSrc.TAdjGate.mat * (QibSrc.TAdjGate.mat)ᴴ = 1 := by
  rw [QibBridge.TAdjGate_mat]; exact C01_TAdjGate_unitary
theorem C01_PhaseFactorGate_unitary_src (φ : ℝ) (n : ℕ): QibSrc.PhaseFactorGate.mat φ n * (QibSrc.PhaseFactorGate.mat φ n)ᴴ = 1 := by
  rw [QibBridge.PhaseFactorGate_mat]; exact C01_PhaseFactorGate_unitary φ n
theorem C01_RxxGate_unitary_src (θ : ℝ): QibSrc.RxxGate.mat θ * (QibSrc.RxxGate.mat θ)ᴴ = 1 := by
  rw [QibBridge.RxxGate_mat]; exact C01_RxxGate_unitary θ
theorem C01_RyyGate_unitary_src (θ : ℝ): QibSrc.RyyGate.mat θ * (QibSrc.RyyGate.mat θ)ᴴ = 1 := by
  rw [QibBridge.RyyGate_mat]; exact C01_RyyGate_unitary θ
theorem C01_RzzGate_unitary_src (θ : ℝ): QibSrc.RzzGate.mat θ * (QibSrc.RzzGate.mat θ)ᴴ = 1 := by
  rw [QibBridge.RzzGate_mat]; exact C01_RzzGate_unitary θ
theorem C01_ISwapGate_unitary_src : QibSrc.ISwapGate.mat * (QibSrc.ISwapGate.mat)ᴴ = 1 := by
  rw [QibBridge.ISwapGate_mat]; exact C01_ISwapGate_unitary

end Qib.C01
