import QibProofs.Lemmas.CircuitNetTotalRun
import QibProofs.Properties.C05Net
/-!
C05 — All views of a circuit agree. **Totality of the tensor-network view**: on every valid circuit the executable
models of `Circuit.as_tensornet()` (`circuitNet`) and `TensorNetworkSimulator.run` (`tnRun`) RETURN – none of their
internal assertions and refusals can fire. `C05Net.lean` proves what the network is *if* `circuitNet` returns; this file
removes the "if".

Property theorems only (helper lemmas: `QibProofs/Lemmas/CircuitNetTotal*.lean`). All statements are about the
executable definitions of `QibModel/CircuitNet.lean` that the driver `drv_circuitnet` runs.

Every way in which the modelled code can stop, and why it cannot on the domain below:
* `RuntimeError` "particle not found", `list.remove` `ValueError`, range check of `merge`: the particles of every gate
  are *well placed* (`WellPlaced`: fields listed, indices inside the lattices, no particle twice), hence the wires are
  distinct numbers `< n` (`wires_of_wellPlaced`);
* exceptions of `gate.as_tensornet()` and `assert gate_net.num_open_axes == 2*len(prtcl)`: the gate offers a network
  (`C06_offers_network`), it has two open axes per wire (C06: every class but Rxx/Ryy/Rzz/iSWAP, known finding) and is
  bound to as many particles as it has wires;
* **the internal `assert` of `merge`** (a fused bond left with fewer than two references): every bond of a gate network
  refers to a real tensor (`gateNet_realRef`), and every bond of the circuit network built so far has a reference that is
  not an output axis – a loop invariant (`SlackOK`) proved here together with its mirror image for the input axes
  (needed for the last merge of the simulator). General form: `C05_merge_returns_of_slack`;
* the data-clash `ValueError` of `TensorNetwork.merge`: **equal data references carry equal data** (`DataCompat`; this is
  what the repair `bb24019` in /repo is about – `RotationGate.as_tensornet` named its array by `str(array)`) – and this
  hypothesis is needed: `C05_mergeTN_clash_refused`, and the example at the end;
* `transpose`: `argsort(perm)` is a permutation; `assert net.is_consistent()`: `C05_circuitNet_assert_never_fires`;
* the protocol error `badOrder` of the model (the set-iteration orders handed over are not permutations of the shared
  ids): the orders are *admissible* (`OrdersAdm`), i.e. valid for the states that occur – and a run that returns has
  admissible orders, so under the other hypotheses "returns" ⇔ "orders admissible" (`C05_circuitNet_returns_iff_orders`);
* in `TensorNetworkSimulator.run` additionally: `IndexError` of `ket0[0] = 1` and the two assertions on `init_net`
  (two-level register), `np.einsum` without operand (`ValueError` on a register without wires – the model refuses the
  empty register, see the example at the end, so `numWires fields ≠ 0` is assumed), every refusal of `as_einsum` /
  `np.einsum` / `to_full_tensor` (C07 on the merged network, which is consistent with its data).
-/
set_option linter.unusedSimpArgs false
set_option linter.unusedSectionVars false
namespace Qib.C05Total
open Qib.TNet Qib.GateNet Qib.Embed Qib.CircuitNet

variable {α : Type} [CommSemiring α] [DecidableEq α]

/-! ### which gates satisfy the hypotheses -/

/-- every gate class covered by C06 satisfies the gate hypothesis of the totality theorems: not a two-qubit wrap
`G.leaf 2` (Rxx, Ryy, Rzz, iSWAP – known finding), offers a network at all (`C06_offers_network`: no block encoding, no
phase gate on zero wires, at least one control after flattening, a well-formed multiplexer), own data reference not
numbered like a fixed one (controlled gates only, as in `C05_gateHyp_of_class`), bound to `num_wires` well-placed
particles. (Unlike `GateHyp`, preparation gates are included: totality does not need the network to denote the matrix.) -/
theorem C05_gateTot_of_class (fields : List FieldSpec) (p : PGate α) (hleaf : ∀ w m, p.g = G.leaf w m → w = 1)
    (hoffer : ∃ gtn, gateNet p.g = .ok gtn)
    (href : ∀ cs t, p.g = G.controlled cs t → p.ref0 ≠ 1 ∧ p.ref0 ≠ 2 ∧ p.ref0 ≠ 3)
    (hprep : ∀ n x m tr, p.g = G.prepare n x m tr → p.ref0 ≠ 4)
    (harity : p.particles.length = p.g.wires) (hplaced : WellPlaced fields p.particles) : GateTot fields p := by
  refine ⟨C06.C06_twoAxesPerWire_partial p.g hleaf, ?_, hoffer, harity, hplaced⟩
  intro gtn hg k hk hk0
  cases hgc : p.g with
  | leaf w m =>
    rw [hgc] at hg; simp only [gateNet, Except.ok.injEq] at hg; subst hg
    exact absurd (by simpa [wrapTN, dkeys] using hk) hk0
  | dense w m =>
    rw [hgc] at hg; simp only [gateNet, Except.ok.injEq] at hg; subst hg
    exact absurd (by simpa [wrapTN, dkeys] using hk) hk0
  | phase n u un =>
    rw [hgc] at hg; simp only [gateNet] at hg
    split at hg
    · cases hg
    · simp only [Except.ok.injEq] at hg; subst hg
      exact absurd (by simpa [dkeys] using hk) hk0
  | prepare n x m tr =>
    rw [hgc] at hg; simp only [gateNet, Except.ok.injEq] at hg; subst hg
    simp only [dkeys, List.map_cons, List.map_nil, List.mem_cons, List.not_mem_nil, or_false] at hk
    rcases hk with rfl | rfl
    · exact absurd rfl hk0
    · exact (hprep n x m tr hgc).symm
  | block w m => rw [hgc] at hg; simp [gateNet] at hg
  | controlled cs t =>
    obtain ⟨r1, r2, r3⟩ := href cs t hgc
    rw [hgc] at hg; simp only [gateNet] at hg
    rcases hf : flattenCtrl cs t with ⟨cs', t'⟩
    rw [hf] at hg
    cases cs' with
    | nil => cases hg
    | cons c0 rest =>
      simp only [Except.ok.injEq] at hg; subst hg
      simp only [ctrlTN, dkeys, List.map_append, List.map_cons, List.map_nil, List.map_map, List.mem_append, List.mem_cons,
        List.not_mem_nil, or_false, List.mem_map, Function.comp] at hk
      rcases hk with (hk | hk) | ⟨r, hr, rfl⟩
      · exact absurd hk hk0
      · split at hk
        · obtain ⟨a, ha, rfl⟩ := hk
          simp only [List.mem_cons, List.not_mem_nil, or_false] at ha
          subst ha; exact r1.symm
        · simp at hk
      · rcases (crossRefs_spec rest).2 r hr with h | h
        · rw [h]; exact r2.symm
        · rw [h]; exact r3.symm
  | multiplexed nc ts =>
    rw [hgc] at hg; simp only [gateNet] at hg
    split at hg
    · cases hg
    · split at hg
      · cases hg
      · simp only [Except.ok.injEq] at hg; subst hg
        exact absurd (by simpa [dkeys] using hk) hk0

/-! ### `merge` returns -/

/-- **when the internal `assert` of `merge` cannot fire** (the step beyond `C08_merge_returns_or_asserts`): on consistent
operands, with in-range joins of matching dimensions and valid set orders, if every bond of the first operand has a
reference beyond the open axes at the positions `Wa` (a list containing every joined axis of the first operand; `hits`
counts the positions of `Wa` that carry the bond) and every bond of the second operand refers to a real tensor, then
`merge` returns. (Without such a condition it need not: joining the two legs of an identity wire with another identity
wire closes a loop, `C08_merge_returns_or_asserts`.) -/
theorem C05_merge_returns_of_slack {a b : Net} {j : List (Int × Int)} {tor bor : List Int} (ha : C08.Inv a)
    (hb : C08.Inv b) (ho : C08.OrdersOK a b tor bor) (hdim : C08.JoinDimsMatch a b j) {va vb : STensor}
    (hva : dget a.tensors (-1) = some va) (hvb : dget b.tensors (-1) = some vb)
    (hrange : ∀ ja ∈ j, 0 ≤ ja.1 ∧ ja.1 < va.shape.length ∧ 0 ≤ ja.2 ∧ ja.2 < vb.shape.length)
    (hrb : ∀ e ∈ b.bonds, ∃ t ∈ e.2.tids, t ≠ -1) (Wa : List Nat) (hWa : ∀ d ∈ Wa, d < va.bids.length)
    (hsub : ∀ ja ∈ j, ja.1.toNat ∈ Wa)
    (hsl : ∀ e ∈ a.bonds, hits va.bids Wa e.1 + 1 ≤ e.2.tids.length) :
    ∃ net', merge a b j tor bor = .ok net' :=
  merge_returns ((C08.C08_inv_iff_wf a).mp ha) ((C08.C08_inv_iff_wf b).mp hb) ho.1 ho.2 hdim hva hvb hrange hrb Wa hWa
    hsub hsl

/-! ### one loop iteration -/

/-- **one iteration of `for gate in self.gates` returns** (given the invariant): from a consistent state with `2n` open
axes of dimension 2 and consistent data (`StateOK`, the invariant of `C05Net.lean`) in which every bond has a reference
that is not an output axis and one that is not an input axis (`SlackOK`), for a gate satisfying `GateTot`, valid set
orders and a data dictionary whose entries agree with the gate's under equal references, `gateStep` returns a state
that satisfies the invariants again; the new dictionary is the old one updated with the gate's. -/
theorem C05_gateStep_total (fields : List FieldSpec) (tn : TN α) (p : PGate α)
    (hst : StateOK (numWires fields) tn) (hsl : SlackOK (numWires fields) tn.net) (hg : GateTot fields p)
    (hord : ∀ gtn, gateNet p.g = .ok gtn → C08.OrdersOK tn.net (rerefTN p.ref0 gtn).net p.tor p.bor)
    (hdata : ∀ k d d', (k, d) ∈ tn.data → (k, d') ∈ gateData p → d = d') :
    ∃ tn', gateStep fields (numWires fields) tn p = .ok tn' ∧ StateOK (numWires fields) tn' ∧
      SlackOK (numWires fields) tn'.net ∧ tn'.data = dupdate tn.data (gateData p) :=
  gateStep_total hst hsl hg hord hdata

/-- the loop starts inside the invariants: the identity wires of a two-level register -/
theorem C05_init_invariants (fields : List FieldSpec) (hdim : ∀ f ∈ fields, f.localDim = 2) :
    StateOK (numWires fields) (⟨wireNetC (wireDims fields), []⟩ : TN α) ∧
      SlackOK (numWires fields) (wireNetC (wireDims fields)) := by
  refine ⟨(init_state (wireDims fields) (numWires fields) (wireDims_eq_rep2 fields hdim)).1, ?_⟩
  have := wireNetC_slack (wireDims fields)
  rw [length_wireDims] at this
  exact this

/-! ### `Circuit.as_tensornet` -/

/-- **`Circuit.as_tensornet()` returns on every valid circuit**: for every field list with local dimension 2, every
instruction list (any length, control instructions interleaved) whose gates satisfy `GateTot` (classes of C06 without the
two-qubit wraps, well-placed particles), whose data references are used consistently (`DataCompat`: equal references
carry equal data) and every admissible choice of the set-iteration orders (`OrdersAdm`), `circuitNet` returns a network –
neither the `RuntimeError`, nor an exception of `gate.as_tensornet()`, nor the open-axes assertion, nor `merge`'s
range check or internal `assert`, nor the data-clash `ValueError`, nor `list.remove`, nor `transpose`, nor
`assert net.is_consistent()` can fire. The network satisfies the invariants (`StateOK`: consistent, `2n` open axes,
consistent data). -/
theorem C05_circuitNet_total (fields : List FieldSpec) (instrs : List (CInstr α))
    (hdim : ∀ f ∈ fields, f.localDim = 2) (hg : ∀ p, CInstr.gate p ∈ instrs → GateTot fields p)
    (hcompat : DataCompat instrs)
    (hord : OrdersAdm fields (numWires fields) (⟨wireNetC (wireDims fields), []⟩ : TN α) instrs) :
    ∃ tn, circuitNet fields instrs = .ok tn ∧ StateOK (numWires fields) tn := by
  obtain ⟨tn, h, hst, _, _⟩ := circuitNet_total_state fields instrs hdim hg hcompat hord
  exact ⟨tn, h, hst⟩

/-- **"returns" ⇔ "the orders are admissible"**: under the hypotheses on register, gates and data references, the model
of `Circuit.as_tensornet()` returns exactly when the set-iteration orders it was handed are admissible – the only
failure left is the protocol error `badOrder` of the harness, never a Python exception -/
theorem C05_circuitNet_returns_iff_orders (fields : List FieldSpec) (instrs : List (CInstr α))
    (hdim : ∀ f ∈ fields, f.localDim = 2) (hg : ∀ p, CInstr.gate p ∈ instrs → GateTot fields p)
    (hcompat : DataCompat instrs) :
    (∃ tn, circuitNet fields instrs = .ok tn) ↔
      OrdersAdm fields (numWires fields) (⟨wireNetC (wireDims fields), []⟩ : TN α) instrs := by
  constructor
  · rintro ⟨tn, h⟩
    have := circuitNet_ok h
    rw [length_wireDims] at this
    exact ordersAdm_of_loop_ok instrs _ tn this
  · intro hord
    obtain ⟨tn, h, _⟩ := C05_circuitNet_total fields instrs hdim hg hcompat hord
    exact ⟨tn, h⟩

/-- **no Python exception, whatever the set orders**: for ARBITRARY lists `tor`/`bor` attached to the gates (no hypothesis
on them), under the hypotheses on register, gates and data references, the model of `Circuit.as_tensornet()` either
returns a network (consistent, `2n` open axes, consistent data) or stops with the protocol error `badOrder` of the
harness – `RuntimeError`, `AssertionError`, `ValueError`, `KeyError`, `IndexError` of the modelled code are impossible -/
theorem C05_circuitNet_total_or_badOrder (fields : List FieldSpec) (instrs : List (CInstr α))
    (hdim : ∀ f ∈ fields, f.localDim = 2) (hg : ∀ p, CInstr.gate p ∈ instrs → GateTot fields p)
    (hcompat : DataCompat instrs) :
    (∃ tn, circuitNet fields instrs = .ok tn ∧ StateOK (numWires fields) tn) ∨
      circuitNet fields instrs = .error .badOrder := by
  rcases circuitNet_total_or_badOrder fields instrs hdim hg hcompat with ⟨tn, h, hst, _, _⟩ | h
  · exact Or.inl ⟨tn, h, hst⟩
  · exact Or.inr h

/-- **unconditional form of `C05_circuitNet_full`**: on the domain of `C05_circuitNet_total`, for gates that also satisfy
`GateHyp` (their networks denote their matrices: C06) and a circuit whose matrix exists, `Circuit.as_tensornet()` returns
a network whose contraction at outputs `o`, inputs `i` is the matrix entry `P[bitsVal o, bitsVal i]` -/
theorem C05_circuitNet_total_full (fields : List FieldSpec) (instrs : List (CInstr α))
    (P : DMat α (2 ^ numWires fields)) (hdim : ∀ f ∈ fields, f.localDim = 2)
    (hg : ∀ p, CInstr.gate p ∈ instrs → GateTot fields p) (hh : ∀ p, CInstr.gate p ∈ instrs → GateHyp p)
    (hcompat : DataCompat instrs)
    (hord : OrdersAdm fields (numWires fields) (⟨wireNetC (wireDims fields), []⟩ : TN α) instrs)
    (hmat : circuitMatrix fields (instrs.map CInstr.toInstr) = .ok P) :
    ∃ tn, circuitNet fields instrs = .ok tn ∧
      ∀ o i : List Nat, o.length = numWires fields → i.length = numWires fields → Bits o → Bits i →
        full tn.net tn.D (o ++ i) = entry P (bitsVal o) (bitsVal i) := by
  obtain ⟨tn, h, _⟩ := C05_circuitNet_total fields instrs hdim hg hcompat hord
  exact ⟨tn, h, fun o i ho hi bo bi => C05Net.C05_circuitNet_full fields instrs tn P h hmat hh o i ho hi bo bi⟩

/-! ### `TensorNetworkSimulator.run` -/

/-- **`TensorNetworkSimulator.run` returns on every valid circuit** over a non-empty two-level register: on the domain of
`C05_circuitNet_total`, if moreover the reference `"|0>_2"` (number 4) – should a gate of the circuit use it – carries
the `|0>` vector (equal references carry equal data, for the simulator's own entry) and the set orders of the last merge
are valid for the network `circ.as_tensornet()` returns, then `init_net` is built and passes its two assertions, the
circuit network is built, the merge onto the input legs returns (its `assert` cannot fire: every bond of the circuit
network has a reference that is not an input axis), `contract_einsum` and `to_full_tensor` return. -/
theorem C05_tnRun_total (fields : List FieldSpec) (instrs : List (CInstr α)) (tor bor : List Int)
    (hdim : ∀ f ∈ fields, f.localDim = 2) (hn : numWires fields ≠ 0)
    (hg : ∀ p, CInstr.gate p ∈ instrs → GateTot fields p) (hcompat : DataCompat instrs)
    (hord : OrdersAdm fields (numWires fields) (⟨wireNetC (wireDims fields), []⟩ : TN α) instrs)
    (hket : ∀ p, CInstr.gate p ∈ instrs → ∀ d, ((4 : Int), d) ∈ gateData p → d = DT.ofFn [2] ket0Sem)
    (hordf : ∀ tn, circuitNet fields instrs = .ok tn → C08.OrdersOK tn.net (initNetC (numWires fields)) tor bor) :
    ∃ psi, tnRun fields instrs tor bor = .ok psi := by
  obtain ⟨_, psi, _, h⟩ := tnRun_total_aux fields instrs tor bor hdim hn hg hcompat hord hket hordf
  exact ⟨psi, h⟩

/-- **no Python exception, whatever the set orders** – the simulator: for arbitrary `tor`/`bor` (of the gates and of the
last merge) `TensorNetworkSimulator.run` returns a state or stops with the protocol error `badOrder` -/
theorem C05_tnRun_total_or_badOrder (fields : List FieldSpec) (instrs : List (CInstr α)) (tor bor : List Int)
    (hdim : ∀ f ∈ fields, f.localDim = 2) (hn : numWires fields ≠ 0)
    (hg : ∀ p, CInstr.gate p ∈ instrs → GateTot fields p) (hcompat : DataCompat instrs)
    (hket : ∀ p, CInstr.gate p ∈ instrs → ∀ d, ((4 : Int), d) ∈ gateData p → d = DT.ofFn [2] ket0Sem) :
    (∃ psi, tnRun fields instrs tor bor = .ok psi) ∨ tnRun fields instrs tor bor = .error .badOrder :=
  tnRun_total_or_badOrder fields instrs tor bor hdim hn hg hcompat hket

/-- **unconditional form of `C05_tnRun_eq_col0`**: on that domain, for gates whose networks denote their matrices and a
circuit whose matrix `P` exists, the simulator returns a state `psi` of shape `(2,)*n` with `psi[o] = P[bitsVal o, 0]` -/
theorem C05_tnRun_total_col0 (fields : List FieldSpec) (instrs : List (CInstr α)) (tor bor : List Int)
    (P : DMat α (2 ^ numWires fields)) (hdim : ∀ f ∈ fields, f.localDim = 2) (hn : numWires fields ≠ 0)
    (hg : ∀ p, CInstr.gate p ∈ instrs → GateTot fields p) (hh : ∀ p, CInstr.gate p ∈ instrs → GateHyp p)
    (hcompat : DataCompat instrs)
    (hord : OrdersAdm fields (numWires fields) (⟨wireNetC (wireDims fields), []⟩ : TN α) instrs)
    (hket : ∀ p, CInstr.gate p ∈ instrs → ∀ d, ((4 : Int), d) ∈ gateData p → d = DT.ofFn [2] ket0Sem)
    (hordf : ∀ tn, circuitNet fields instrs = .ok tn → C08.OrdersOK tn.net (initNetC (numWires fields)) tor bor)
    (hmat : circuitMatrix fields (instrs.map CInstr.toInstr) = .ok P) :
    ∃ psi, tnRun fields instrs tor bor = .ok psi ∧ psi.shape = rep2 (numWires fields) ∧
      ∀ o : List Nat, o.length = numWires fields → Bits o → psi.get o = entry P (bitsVal o) 0 := by
  obtain ⟨psi, h⟩ := C05_tnRun_total fields instrs tor bor hdim hn hg hcompat hord hket hordf
  exact ⟨psi, h, C05Net.C05_tnRun_eq_col0 fields instrs tor bor psi P h hmat hh⟩

/-- the reference `"|0>_2"` is not used by any gate class but the preparation gate (where it carries the `|0>` vector),
unless the harness numbered the gate's own reference 4: the hypothesis `hket` of `C05_tnRun_total` from the class -/
theorem C05_ket_reference_of_class (p : PGate α) (href : p.ref0 ≠ 4) :
    ∀ d, ((4 : Int), d) ∈ gateData p → d = DT.ofFn [2] ket0Sem := by
  intro d hd
  unfold gateData at hd
  cases hgn : gateNet p.g with
  | error e => rw [hgn] at hd; cases hd
  | ok gtn =>
    rw [hgn] at hd
    simp only [rerefTN, List.mem_map, Prod.mk.injEq] at hd
    obtain ⟨e0, he0, hk, rfl⟩ := hd
    have hk4 : e0.1 = 4 := by
      unfold reref at hk
      split at hk
      · exact absurd hk href
      · exact hk
    have hmem : ((4 : Int), e0.2) ∈ gtn.data := by rw [← hk4]; exact he0
    -- only the preparation gate uses the reference 4
    cases hgc : p.g with
    | leaf w m => rw [hgc] at hgn; simp only [gateNet, Except.ok.injEq] at hgn; subst hgn; simp [wrapTN] at hmem
    | dense w m => rw [hgc] at hgn; simp only [gateNet, Except.ok.injEq] at hgn; subst hgn; simp [wrapTN] at hmem
    | phase n u un =>
      rw [hgc] at hgn; simp only [gateNet] at hgn
      split at hgn
      · cases hgn
      · simp only [Except.ok.injEq] at hgn; subst hgn; simp at hmem
    | prepare n x m tr =>
      rw [hgc] at hgn; simp only [gateNet, Except.ok.injEq] at hgn; subst hgn
      simp only [List.mem_cons, Prod.mk.injEq, List.not_mem_nil, or_false] at hmem
      rcases hmem with ⟨h1, _⟩ | ⟨_, h2⟩
      · cases h1
      · exact h2
    | block w m => rw [hgc] at hgn; simp [gateNet] at hgn
    | controlled cs t =>
      rw [hgc] at hgn; simp only [gateNet] at hgn
      rcases hf : flattenCtrl cs t with ⟨cs', t'⟩
      rw [hf] at hgn
      cases cs' with
      | nil => cases hgn
      | cons c0 rest =>
        simp only [Except.ok.injEq] at hgn; subst hgn
        simp only [ctrlTN, List.mem_append, List.mem_cons, List.not_mem_nil, or_false, List.mem_map,
          Prod.mk.injEq] at hmem
        rcases hmem with (⟨h1, _⟩ | hmem) | ⟨r, hr, h1, _⟩
        · cases h1
        · split at hmem
          · simp only [List.mem_cons, List.not_mem_nil, or_false, Prod.mk.injEq] at hmem
            cases hmem.1
          · cases hmem
        · rcases (crossRefs_spec rest).2 r hr with h | h <;> (rw [h] at h1; cases h1)
    | multiplexed nc ts =>
      rw [hgc] at hgn; simp only [gateNet] at hgn
      split at hgn
      · cases hgn
      · split at hgn
        · cases hgn
        · simp only [Except.ok.injEq] at hgn; subst hgn; simp at hmem

/-! ### the hypothesis on data references is needed -/

/-- **converse refusal**: when the dictionaries clash – one reference, two different arrays – `TensorNetwork.merge`
raises `ValueError`, although the symbolic merge would return. (This is what `Circuit.as_tensornet` did before the
repair `bb24019` on two rotation gates whose vectors agree to 8 digits.) -/
theorem C05_mergeTN_clash_refused (self other : TN α) (join : List (Int × Int)) (tor bor : List Int) (net : Net)
    (ho : C08.OrdersOK self.net other.net tor bor) (hm : merge self.net other.net join tor bor = .ok net)
    (k : Int) (d d' : DT α) (h1 : self.data.lookup k = some d) (h2 : (k, d') ∈ other.data) (hne : d ≠ d') :
    mergeTN self other join tor bor = .error .valueError := by
  have hp1 : isPermOf tor (sharedTids self.net other.net) = true := by
    simp only [isPermOf, beq_iff_eq]; exact isort_eq_of_perm ho.1
  have hp2 : isPermOf bor (sharedBids self.net other.net) = true := by
    simp only [isPermOf, beq_iff_eq]; exact isort_eq_of_perm ho.2
  have hc : dataClash self.data other.data = true := by
    simp only [dataClash, List.any_eq_true]
    refine ⟨(k, d'), h2, ?_⟩
    simp only [h1, Bool.not_eq_true']
    by_contra hcon
    exact hne (dtEq_eq (by simpa using hcon))
  unfold mergeTN
  simp only [hp1, hp2, Bool.and_self, Bool.not_true, Bool.false_eq_true, if_false, bind, Except.bind, hm, liftT, hc,
    if_true]
  rfl

/-! ### the theorems are about what the driver executes -/

/-- over the driver's Gaussian rationals the functions in the statements are the ones `drv_circuitnet` runs
(`C05_driver_scalars` of `C05Net.lean`) -/
theorem C05_total_driver_scalars (fields : List FieldSpec) (instrs : List (CInstr Qib.GQ)) (tor bor : List Int) :
    @circuitNet Qib.GQ Qib.GQ.instZero Qib.GQ.instOne inferInstance fields instrs = circuitNet fields instrs ∧
    @tnRun Qib.GQ Qib.GQ.instZero Qib.GQ.instOne Qib.GQ.instAdd Qib.GQ.instMul inferInstance fields instrs tor bor =
      tnRun fields instrs tor bor :=
  C05Net.C05_driver_scalars fields instrs tor bor

/-! ### non-vacuity (tests, not proofs): the hypotheses are satisfiable on the circuit of `C05Net.lean` -/
section Examples
open Qib.C05Net (exFields exCircuit exH exX)

/-- the two gates of the example satisfy `GateTot` -/
theorem C05_example_gateTot : ∀ p, CInstr.gate p ∈ exCircuit → GateTot exFields p := by
  intro p hp
  simp only [exCircuit, List.mem_cons, List.not_mem_nil, or_false, reduceCtorEq, false_or, CInstr.gate.injEq] at hp
  rcases hp with rfl | rfl
  · refine C05_gateTot_of_class _ _ (by intro w m h; simp only [exH, G.leaf.injEq] at h; exact h.1.symm) ⟨_, rfl⟩
      (by intro cs t h; cases h) (by intro n x m tr h; cases h) rfl ?_
    refine ⟨?_, ?_, by simp⟩
    · intro q hq; simp only [List.mem_singleton] at hq; subst hq; exact ⟨⟨0, 2, 2⟩, by simp [exFields], rfl⟩
    · intro q hq f hf _
      simp only [List.mem_singleton] at hq; subst hq
      simp only [exFields, List.mem_singleton] at hf; subst hf
      decide
  · refine C05_gateTot_of_class _ _ (by intro w m h; cases h) ⟨_, rfl⟩ (by intro cs t _; decide)
      (by intro n x m tr h; cases h) rfl ?_
    refine ⟨?_, ?_, by simp⟩
    · intro q hq
      simp only [List.mem_cons, List.not_mem_nil, or_false] at hq
      rcases hq with rfl | rfl <;> exact ⟨⟨0, 2, 2⟩, by simp [exFields], rfl⟩
    · intro q hq f hf _
      simp only [exFields, List.mem_singleton] at hf; subst hf
      simp only [List.mem_cons, List.not_mem_nil, or_false] at hq
      rcases hq with rfl | rfl <;> decide

/-- the data references of the example (5 for the Hadamard-like gate; 6 and `"PauliX"` = 1 for the controlled gate) are
pairwise different -/
theorem C05_example_dataCompat : DataCompat exCircuit := by
  have g1 : gateData (⟨[⟨0, 1⟩], exH, 5, [-1], [0, 1]⟩ : PGate Int) =
      [(5, DT.ofFn [2 ^ 1, 2 ^ 1] (leafSem fun i j => if i = 1 ∧ j = 1 then -1 else 1))] := rfl
  have g2 : gateData (⟨[⟨0, 1⟩, ⟨0, 0⟩], .controlled [false] exX, 6, [0, -1], [0, 1, 2]⟩ : PGate Int) =
      [(6, DT.ofFn (2 :: rep2 (2 * 1)) (ctrlSem 1 (fun i j => if i = j then 0 else 1) 0)),
       (1, DT.ofFn [2, 2] (ctrlSem 1 (fun i j => if i = j then 0 else 1) 1))] := rfl
  intro p q hp hq k d d' h1 h2
  simp only [exCircuit, List.mem_cons, List.not_mem_nil, or_false, reduceCtorEq, false_or, CInstr.gate.injEq] at hp hq
  rcases hp with rfl | rfl <;> rcases hq with rfl | rfl
  · rw [g1] at h1 h2
    simp only [List.mem_singleton, Prod.mk.injEq] at h1 h2
    rw [h1.2, h2.2]
  · rw [g1] at h1; rw [g2] at h2
    simp only [List.mem_cons, List.mem_singleton, Prod.mk.injEq, List.not_mem_nil, or_false] at h1 h2
    rcases h2 with h2 | h2 <;> (exfalso; omega)
  · rw [g2] at h1; rw [g1] at h2
    simp only [List.mem_cons, List.mem_singleton, Prod.mk.injEq, List.not_mem_nil, or_false] at h1 h2
    rcases h1 with h1 | h1 <;> (exfalso; omega)
  · rw [g2] at h1 h2
    simp only [List.mem_cons, List.mem_singleton, Prod.mk.injEq, List.not_mem_nil, or_false] at h1 h2
    rcases h1 with h1 | h1 <;> rcases h2 with h2 | h2
    · rw [h1.2, h2.2]
    · exfalso; omega
    · exfalso; omega
    · rw [h1.2, h2.2]

/-- the run of `C05Net.lean` returns, hence its orders are admissible -/
theorem C05_example_ordersAdm : OrdersAdm exFields (numWires exFields) (⟨wireNetC (wireDims exFields), []⟩ : TN Int) exCircuit := by
  have h : (circuitNet exFields exCircuit).toBool = true := by decide +kernel
  cases hc : circuitNet exFields exCircuit with
  | error e => rw [hc] at h; cases h
  | ok tn => exact (C05_circuitNet_returns_iff_orders exFields exCircuit (by decide) C05_example_gateTot C05_example_dataCompat).mp ⟨tn, hc⟩

/-- all hypotheses of `C05_circuitNet_total` hold for the example: the theorem (not an evaluation) yields the network -/
example : ∃ tn, circuitNet exFields exCircuit = .ok tn ∧ StateOK (numWires exFields) tn :=
  C05_circuitNet_total exFields exCircuit (by decide) C05_example_gateTot C05_example_dataCompat C05_example_ordersAdm

/-- … and all hypotheses of `C05_tnRun_total` -/
example : ∃ psi, tnRun exFields exCircuit [-1, 0, 1] [0, 1] = .ok psi := by
  refine C05_tnRun_total exFields exCircuit [-1, 0, 1] [0, 1] (by decide) (by decide) C05_example_gateTot C05_example_dataCompat
    C05_example_ordersAdm ?_ ?_
  · intro p hp
    simp only [exCircuit, List.mem_cons, List.not_mem_nil, or_false, reduceCtorEq, false_or, CInstr.gate.injEq] at hp
    rcases hp with rfl | rfl <;> exact C05_ket_reference_of_class _ (by decide)
  · have h : (tnRunNet exFields exCircuit [-1, 0, 1] [0, 1]).toBool = true := by decide +kernel
    cases hc : tnRunNet exFields exCircuit [-1, 0, 1] [0, 1] with
    | error e => rw [hc] at h; cases h
    | ok tn' => exact ordersOK_of_tnRunNet_ok (by decide) hc

/-- refusal, data clash (the situation before `bb24019`): two different gates numbered with one data reference –
`Circuit.as_tensornet()` raises `ValueError` -/
example : (match circuitNet exFields [.gate ⟨[⟨0, 1⟩], exH, 5, [-1], [0, 1]⟩, .gate ⟨[⟨0, 1⟩], exX, 5, [0, -1], [0, 1]⟩] with
    | .error .valueError => true
    | _ => false) = true := by decide +kernel

/-- the same two gates with different references: returns -/
example : (circuitNet exFields [.gate ⟨[⟨0, 1⟩], exH, 5, [-1], [0, 1]⟩, .gate ⟨[⟨0, 1⟩], exX, 6, [0, -1], [0, 1]⟩]).toBool
    = true := by decide +kernel

/-- wrong set orders: the protocol error of the model, not a Python exception -/
example : (match circuitNet exFields [.gate ⟨[⟨0, 1⟩], exH, 5, [0, -1], [0, 1]⟩] with
    | .error .badOrder => true
    | _ => false) = true := by decide +kernel

/-- refusal, empty register: `np.einsum` without operand – the simulator raises `ValueError` on a circuit without wires -/
example : (match tnRun (α := Int) [] [] [-1] [] with
    | .error (.tn .valueError) => true
    | _ => false) = true := by decide +kernel

/-- refusal, badly placed particles: the same particle twice (`list.remove` raises `ValueError`) -/
example : (match circuitNet exFields [.gate ⟨[⟨0, 1⟩, ⟨0, 1⟩], .controlled [true] exX, 6, [-1], [0, 1]⟩] with
    | .error .valueError => true
    | _ => false) = true := by decide +kernel

end Examples

end Qib.C05Total
