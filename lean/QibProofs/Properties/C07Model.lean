import QibProofs.Lemmas.TNetTreeData
import QibProofs.Lemmas.TNetEinsumCertMain
import QibProofs.Lemmas.TNetBridgeDense
import QibProofs.Lemmas.TNetTreePermTree
import QibProofs.Lemmas.TNetBridgeFinset
import QibProofs.Lemmas.TNetTreeBuildOK
import QibProofs.Lemmas.TNetTreePrep
import QibProofs.Lemmas.TNetEinsumTotal
import QibProofs.Lemmas.TNetTreeLeaf
/-!
C07 — Network contraction is independent of strategy and equals the defining sum: theorems about the EXECUTABLE model
(`QibModel/TNet.lean`, driver `drv_tnet`). Statements only; proofs are in `QibProofs/Lemmas/TNetBridgeRel.lean`,
`TNetEinsumSound.lean`, `TNetEinsumData.lean`, `TNetTreeCert.lean`, `TNetTreeStruct.lean`, `TNetTreeSound.lean`,
`TNetTreeRoot.lean`, `TNetTreeData.lean`, `TNetEinsumCert.lean`, `TNetEinsumCertMain.lean`, `TNetBridgeDense.lean`, `TNetTreePerm.lean`, `TNetTreePermTree.lean`, `TNetBridgeFinset.lean`, `TNetTreeBuildScan.lean`, `TNetTreeBuildAssign.lean`,
`TNetTreeBuildInv.lean`, `TNetTreeBuildNode.lean`, `TNetTreeBuildOK.lean`, `TNetTreePrepPerm.lean`, `TNetTreePrep.lean`, `TNetEinsumTotal.lean`, `TNetTreeLeaf.lean`.

`RepOK net` is what Python dictionaries and the constructors guarantee (unique keys, `len(shape) == len(bids)`, sorted
tensor ids of a bond); with it `isConsistent net = .ok true` is the declarative well-formedness `WF net`
(`consistent_iff_wf`, C08 lemma files).
-/
namespace Qib.C07
open Qib.TNet

section Einsum
variable {α : Type} [CommSemiring α]

/-- **The denotation `full` is the defining sum in Mathlib's terms** (bridge from the model's list sums to `Finset`):
for consistent pins, the `Finset` sum over all index vectors `vs` for the bonds without open leg – `vs[k]` below the
dimension of the `k`-th such bond – of the product over the real tensors of the entry read at "inner bond `k` ↦ `vs[k]`,
open bonds ↦ the logical index"; `0` when two open legs on one bond are given different indices. -/
theorem C07_full_eq_finset_sum (net : Net) (hb : (dkeys net.bonds).Nodup) (D : Option Int → List Nat → α)
    (idx : List Nat) {v : STensor} (hv : dget net.tensors (-1) = some v) :
    full net D idx = if pinsOK v.bids idx then
        ∑ vs ∈ (allIdx ((internalBids net v).map (bondDim net))).toFinset,
          ((realTensors net).map (fun t => D t.dataref (t.bids.map
            (pin (internalBids net v) vs (pin v.bids idx (fun _ => 0)))))).prod
      else 0 :=
  full_eq_finset_sum net hb D idx hv

/-- membership in the box of index vectors -/
theorem C07_mem_box {S z : List Nat} : z ∈ (allIdx S).toFinset ↔ List.Forall₂ (fun i d => i < d) z S :=
  mem_allIdx_toFinset

/-- **Soundness of the certificate `einsumOK`** (the certificate the harness evaluates on every sampled network).
For a consistent network, an einsum specification `e` with `einsumOK net e = true`, operands `dt tid` that carry the
network's data (`DataOK`) and ones-vectors `ones` for output labels that occur in no operand (`OnesOK`): whenever the
einsum call succeeds, its value expanded by `toFullSem` along `e.axesMap` is the defining sum `full net D` – the sum over
all assignments of an index to every bond without open leg of the product of the tensor entries, the open legs pinned,
two open legs on one bond giving a Kronecker delta – at every logical multi-index within the reported shape. -/
theorem C07_einsumOK_sound {net : Net} (hrep : RepOK net) (hcons : isConsistent net = .ok true) {v : STensor}
    (hv : dget net.tensors (-1) = some v) {e : EinsumSpec} (hok : einsumOK net e = true)
    {D : Option Int → List Nat → α} {dt : Int → DT α} (hdt : DataOK net D dt)
    {ones : List (DT α × List Nat)} (hones : OnesOK v e ones) {r : DT α}
    (hr : einsumEval (eArgs dt e ++ ones) e.idxout = .ok r) (idx : List Nat)
    (hidx : List.Forall₂ (fun i d => i < d) idx v.shape) :
    toFullSem r e.axesMap idx = full net D idx :=
  einsumOK_sound (wf_of_consistent hrep hcons) hv ((einsumOK_iff hv e).mp hok) hdt hones hr idx hidx

end Einsum

/-- **`contract_einsum` returns the defining sum**: the driver's `contractEinsum` (operands read from the data
dictionary, ones-vectors for dangling output labels, one `einsumEval`) on a consistent network with consistent data,
whenever the specification produced by `asEinsum` is certified: the axes map is the one of `asEinsum` and the expanded
value is `full`. -/
theorem C07_contractEinsum_sound {net : Net} {data : Data} (hrep : RepOK net)
    (hcd : isConsistentData net data = .ok true) {e : EinsumSpec} (he : asEinsum net = .ok e)
    (hok : einsumOK net e = true) {r : DT Int} {am : List Nat} (hce : contractEinsum net data = .ok (r, am))
    {v : STensor} (hv : dget net.tensors (-1) = some v) (idx : List Nat)
    (hidx : List.Forall₂ (fun i d => i < d) idx v.shape) :
    am = e.axesMap ∧ toFullSem r am idx = full net (dataAcc data) idx :=
  contractEinsum_sound hrep hcd he hok hce hv idx hidx

/-- **`as_einsum` is always certified** (the bookkeeping proof, general: hyper-bonds with any number of legs,
multi-edges, traces, open legs sharing a bond, open-only bonds): on a consistent network the index unification per bond
followed by condensation yields labels that are an injective renaming of the bond ids, output labels without
repetition and an axes map into them – i.e. the result of `asEinsum` passes `einsumOK`. -/
theorem C07_asEinsum_ok {net : Net} (hrep : RepOK net) (hcons : isConsistent net = .ok true) {e : EinsumSpec}
    (he : asEinsum net = .ok e) : einsumOK net e = true := by
  have hwf := wf_of_consistent hrep hcons
  obtain ⟨v, hv⟩ := exists_mem_of_mem_dkeys hwf.virt
  have hv' := dget_of_mem hwf.tnodup hv
  exact (einsumOK_iff hv' e).mpr (asEinsum_cert hwf hv' he)

/-- **Single-shot contraction equals the defining sum** (no certificate hypothesis): whatever `contractEinsum` returns on
a consistent network with consistent data expands, along the returned axes map, to `full` at every logical multi-index
within the reported shape. -/
theorem C07_einsum_sound {net : Net} {data : Data} (hrep : RepOK net) (hcd : isConsistentData net data = .ok true)
    {r : DT Int} {am : List Nat} (hce : contractEinsum net data = .ok (r, am)) {v : STensor}
    (hv : dget net.tensors (-1) = some v) (idx : List Nat) (hidx : List.Forall₂ (fun i d => i < d) idx v.shape) :
    toFullSem r am idx = full net (dataAcc data) idx := by
  cases he : asEinsum net with
  | error err => simp [contractEinsum, he, bind, Except.bind] at hce
  | ok e =>
    exact (contractEinsum_sound hrep hcd he (C07_asEinsum_ok hrep (isConsistentData_ok hcd).1 he) hce hv idx hidx).2

section Tree
variable {α : Type} [CommSemiring α]

/-- **One certified node**: the pairwise einsum of a node with `nodeOK net n cL cR = true` sums the product of the two
children over exactly the bonds contracted at the node, and has the shape of its remaining legs. -/
theorem C07_node_step {net : Net} {n cL cR : NodeInfo} (hok : nodeOK net n cL cR = true) {tL tR r : DT α}
    (hsL : tL.shape = nodeShape net cL) (hsR : tR.shape = nodeShape net cR)
    (hr : einsumEval [(tL, n.idxL), (tR, n.idxR)] n.idxout = .ok r) :
    r.shape = nodeShape net n ∧ ∀ σ, InR net n σ →
      r.get (nodeIdx net n σ) = sumOver (bondDim net) (elimAt net n cL cR)
        (fun τ => tL.get (nodeIdx net cL τ) * tR.get (nodeIdx net cR τ)) σ :=
  node_step (nodeOK_cert hok) hsL hsR hr

/-- **Any pairwise scaffold** (the executable twin of `C07_contract_any_bracketing`): for every tree all of whose nodes
are certified, over distinct leaves, pairwise evaluation gives, for every assignment `σ` within the dimensions on the
legs of the root, the sum over all bonds contracted inside the tree of the product of the leaf tensors. -/
theorem C07_treeEval_sound {net : Net} (hrep : RepOK net) (hcons : isConsistent net = .ok true)
    (D : Option Int → List Nat → α) (dict : Int → Option (DT α)) (t : Tree)
    (hok : ∀ x ∈ treeOKList net t, x = true) (hnd : (treeLeaves t).Nodup)
    (hdata : ∀ i ∈ leafInfos t, LeafDataOK net D dict i) {r : DT α} (hr : treeEval dict t = .ok r) :
    r.shape = nodeShape net t.info ∧ ∀ σ, InR net t.info σ →
      r.get (nodeIdx net t.info σ) = sumOver (bondDim net) (treeElims net t) (treeProd net D t) σ :=
  treeEval_sound (wf_of_consistent hrep hcons) D dict t hok hnd hdata r hr

/-- **Soundness of the tree certificates** `treeOKList` / `rootOK`: a tree all of whose nodes are certified, whose root
and axes map are certified and whose distinct root legs carry distinct bonds (`RootInj`; automatic when the root is an
inner node, `C07_rootInj_of_node`) evaluates, expanded by `toFullSem` along the axes map, to the defining sum `full`. -/
theorem C07_tree_sound {net : Net} (hrep : RepOK net) (hcons : isConsistent net = .ok true) {v : STensor}
    (hv : dget net.tensors (-1) = some v) (D : Option Int → List Nat → α) (dict : Int → Option (DT α)) (tree : Tree)
    (am : List Nat) (hok : ∀ x ∈ treeOKList net tree, x = true) (hroot : rootOK net tree am = true)
    (hinj : RootInj net tree.info) (hdata : ∀ i ∈ leafInfos tree, LeafDataOK net D dict i)
    {r : DT α} (hr : treeEval dict tree = .ok r) (idx : List Nat)
    (hidx : List.Forall₂ (fun i d => i < d) idx v.shape) :
    toFullSem r am idx = full net D idx :=
  tree_sound (wf_of_consistent hrep hcons) hv D dict tree am hok hroot hinj hdata hr idx hidx

/-- **Soundness of the strengthened tree certificates** `treeOKList` / `rootOKStrong` (`rootOK` plus "distinct root
legs carry distinct bonds", decidable, defined in `Lemmas/TNetTreeRoot.lean`): no further hypothesis on the root. -/
theorem C07_tree_sound_strong {net : Net} (hrep : RepOK net) (hcons : isConsistent net = .ok true) {v : STensor}
    (hv : dget net.tensors (-1) = some v) (D : Option Int → List Nat → α) (dict : Int → Option (DT α)) (tree : Tree)
    (am : List Nat) (hok : ∀ x ∈ treeOKList net tree, x = true) (hroot : rootOKStrong net tree am = true)
    (hdata : ∀ i ∈ leafInfos tree, LeafDataOK net D dict i)
    {r : DT α} (hr : treeEval dict tree = .ok r) (idx : List Nat)
    (hidx : List.Forall₂ (fun i d => i < d) idx v.shape) :
    toFullSem r am idx = full net D idx :=
  tree_sound_strong (wf_of_consistent hrep hcons) hv D dict tree am hok hroot hdata hr idx hidx

omit [CommSemiring α] in
/-- the extra conjunct of `rootOKStrong` gives `RootInj` on a certified root -/
theorem C07_rootInj_of_strong {net : Net} {c : NodeInfo} (hi : infoOK net c = true)
    (h : nodupB ((List.range c.idxout.length).map (nodeLegBond net c)) = true) : RootInj net c :=
  rootInj_of_nodupB (infoOK_cert hi) h

omit [CommSemiring α] in
/-- distinct legs of a certified inner node carry distinct bonds -/
theorem C07_rootInj_of_node {net : Net} {n : NodeInfo} {l r : Tree} (hok : nodeOK net n l.info r.info = true) :
    RootInj net (Tree.node n l r).info :=
  (nodeOK_cert hok).legB_inj

end Tree

/-- **The tree builder always produces certified nodes** (the bookkeeping proof of `_build_contraction_tree`, general:
bonds with any number of legs, partial contraction of a hyper-bond at an inner node, multi-edges, traces, open legs
sharing a bond; every scaffold): every node of a tree returned by `buildContractionTree` on a consistent network passes
its certificate `leafOK` / `nodeOK`. -/
theorem C07_buildTree_ok {net : Net} (hrep : RepOK net) (hcons : isConsistent net = .ok true) (s : Scaffold) {t : Tree}
    (h : buildContractionTree net s = .ok t) : ∀ x ∈ treeOKList net t, x = true :=
  (buildTree_ok (wf_of_consistent hrep hcons) s _ t h).1

/-- pairwise evaluation of the tree built for ANY scaffold gives the sum over the bonds contracted inside of the
product of the leaf tensors (no certificate hypothesis) -/
theorem C07_buildTree_eval {net : Net} {data : Data} (hrep : RepOK net) (hcd : isConsistentData net data = .ok true)
    (s : Scaffold) {t : Tree} (h : buildContractionTree net s = .ok t) (hnd : (treeLeaves t).Nodup) {r : DT Int}
    (hr : treeEval (tensorDict net data) t = .ok r) :
    r.shape = nodeShape net t.info ∧ ∀ σ, InR net t.info σ →
      r.get (nodeIdx net t.info σ) = sumOver (bondDim net) (treeElims net t) (treeProd net (dataAcc data) t) σ := by
  have hwf : WF net := wf_of_consistent hrep (isConsistentData_ok hcd).1
  have hok := (buildTree_ok hwf s _ t h).1
  refine treeEval_sound hwf (dataAcc data) (tensorDict net data) t hok hnd ?_ r hr
  intro i hi
  have hlc := leafOK_cert (hok _ (leafOK_mem_treeOKList _ i hi))
  exact leafData_of_leafId hwf hlc.info (buildTree_leafId s _ t h i hi)
    (fun T hT => tensorDict_ok hwf.tkey hcd hlc.ne hT)

/-- **`contract_tree` returns the defining sum**: the driver's `contractTree` (tree builder, axes map and root
permutation, data dictionary, pairwise evaluation) on a consistent network with consistent data and ANY scaffold with at
least two leaves, whenever the tree it evaluated is certified. -/
theorem C07_contractTree_sound {net : Net} {data : Data} (hrep : RepOK net)
    (hcd : isConsistentData net data = .ok true) {sl sr : Scaffold} {r : DT Int} {am : List Nat} {t : Tree}
    (hct : contractTree net data (.node sl sr) = .ok (r, am, t))
    (hok : ∀ x ∈ treeOKList net t, x = true) (hroot : rootOK net t am = true)
    {v : STensor} (hv : dget net.tensors (-1) = some v) (idx : List Nat)
    (hidx : List.Forall₂ (fun i d => i < d) idx v.shape) :
    toFullSem r am idx = full net (dataAcc data) idx :=
  contractTree_sound hrep hcd hct hok hroot hv idx hidx

/-- **Strategy independence** on the executable model: single-shot contraction and tree contraction along any certified
pairwise scaffold expand to the same dense tensor. -/
theorem C07_einsum_eq_tree {net : Net} {data : Data} (hrep : RepOK net)
    (hcd : isConsistentData net data = .ok true) {r1 : DT Int} {am1 : List Nat}
    (hce : contractEinsum net data = .ok (r1, am1))
    {sl sr : Scaffold} {r2 : DT Int} {am2 : List Nat} {t : Tree}
    (hct : contractTree net data (.node sl sr) = .ok (r2, am2, t))
    (hok : ∀ x ∈ treeOKList net t, x = true) (hroot : rootOK net t am2 = true)
    {v : STensor} (hv : dget net.tensors (-1) = some v) (idx : List Nat)
    (hidx : List.Forall₂ (fun i d => i < d) idx v.shape) :
    toFullSem r1 am1 idx = toFullSem r2 am2 idx := by
  rw [C07_einsum_sound hrep hcd hce hv idx hidx, C07_contractTree_sound hrep hcd hct hok hroot hv idx hidx]

section Permute
variable {α : Type} [CommSemiring α]

/-- **Re-ordering a node's axes does not change the result** (`ContractionTreeNode.permute_axes`, any node of any
tree, no certificate needed): let `t' = permuteAt t path sort` for a permutation `sort` of the node's axes, and let the
caller transpose the stored tensor when the node is a leaf (`permDict`, the protocol of `tests/test_tensor_network.py`
and of the harness). Then evaluating `t'` gives the value of `t`, transposed by `sort` if the re-ordered node is the
root and unchanged otherwise – as dense tensors, including the shape. -/
theorem C07_permute_axes_invariant (dict : Int → Option (DT α)) (sort : List Nat)
    (hsort : sort.Perm (List.range sort.length)) (t : Tree) (path : List Bool) {t' : Tree}
    (hp : permuteAt t path sort = .ok t') (hnd : (treeLeaves t).Nodup)
    (hleaf : ∀ i ∈ leafInfos t, ∀ d, dict i.tid = some d → d.shape.length = i.idxout.length)
    {r : DT α} (hr : treeEval dict t = .ok r) :
    treeEval (permDict dict t path sort) t' = .ok (if path = [] then r.transpose sort else r) :=
  permuteAt_eval dict sort hsort t path t' r hp hnd hleaf hr

/-- permuting the output labels of an einsum call transposes its result -/
theorem C07_einsum_perm_out {args : List (DT α × List Nat)} {out : List Nat} {r : DT α}
    (h : einsumEval args out = .ok r) {sort : List Nat} (hs : sort.Perm (List.range out.length)) :
    einsumEval args (permL out sort) = .ok (r.transpose sort) :=
  einsumEval_perm_out h hs

/-- transposing an operand of an einsum call together with its label list does not change the result -/
theorem C07_einsum_perm_arg {pre post : List (DT α × List Nat)} {t : DT α} {ls out : List Nat} {r : DT α}
    (h : einsumEval (pre ++ (t, ls) :: post) out = .ok r) {sort : List Nat} (hs : sort.Perm (List.range ls.length)) :
    einsumEval (pre ++ (t.transpose sort, permL ls sort) :: post) out = .ok r :=
  einsumEval_perm_arg h hs

end Permute

/-- **Dense form, single shot**: `to_full_tensor(contract_einsum())` IS the dense tensor of the defining sum – same
shape, same entries (equality of the two `Except` values, so in particular `toFullTensor` does not fail). -/
theorem C07_einsum_dense {net : Net} {data : Data} (hrep : RepOK net) (hcd : isConsistentData net data = .ok true)
    {r : DT Int} {am : List Nat} (hce : contractEinsum net data = .ok (r, am)) :
    toFullTensor r am = fullTensor net (dataAcc data) :=
  contractEinsum_dense hrep hcd hce

/-- **Dense form, tree**: `to_full_tensor(contract_tree(scaffold))` IS the dense tensor of the defining sum, for every
scaffold with at least two leaves whose evaluated tree is certified. -/
theorem C07_tree_dense {net : Net} {data : Data} (hrep : RepOK net) (hcd : isConsistentData net data = .ok true)
    {sl sr : Scaffold} {r : DT Int} {am : List Nat} {t : Tree}
    (hct : contractTree net data (.node sl sr) = .ok (r, am, t))
    (hok : ∀ x ∈ treeOKList net t, x = true) (hroot : rootOK net t am = true) :
    toFullTensor r am = fullTensor net (dataAcc data) :=
  contractTree_dense hrep hcd hct hok hroot

/-- **`as_einsum` never fails** on a consistent network. -/
theorem C07_asEinsum_total {net : Net} (hrep : RepOK net) (hcons : isConsistent net = .ok true) :
    ∃ e, asEinsum net = .ok e :=
  asEinsum_total (wf_of_consistent hrep hcons)

/-- **Single-shot contraction, complete**: on every consistent network with consistent data `contract_einsum` succeeds
and the expansion of its result along its axes map IS the dense tensor of the defining sum. -/
theorem C07_einsum_complete {net : Net} {data : Data} (hrep : RepOK net) (hcd : isConsistentData net data = .ok true) :
    ∃ r am, contractEinsum net data = .ok (r, am) ∧ toFullTensor r am = fullTensor net (dataAcc data) := by
  obtain ⟨r, am, h⟩ := contractEinsum_total hrep hcd
  exact ⟨r, am, h, C07_einsum_dense hrep hcd h⟩

/-- **The tree evaluated by `contract_tree` is always certified**: for a consistent network with consistent data and a
scaffold with at least two leaves that is a binary tree over all real tensors (`ScaffoldFull`: every real tensor id
exactly once), the tree after the axes-map computation and the root permutation passes `treeOKList` and `rootOK`
(hence also `rootOKStrong`). The per-sample certificate checks of the harness can never fail on such inputs. -/
theorem C07_contractTree_certified {net : Net} {data : Data} (hrep : RepOK net)
    (hcd : isConsistentData net data = .ok true) {sl sr : Scaffold} {r : DT Int} {am : List Nat} {t : Tree}
    (hct : contractTree net data (.node sl sr) = .ok (r, am, t)) (hfull : ScaffoldFull net (.node sl sr)) :
    (∀ x ∈ treeOKList net t, x = true) ∧ rootOK net t am = true :=
  contractTree_certified hrep hcd hct hfull

/-- **Tree contraction along ANY pairwise scaffold equals the defining sum** (no certificate hypothesis; every consistent
network – hyper-bonds, multi-edges, traces, shared open legs; every binary bracketing / order of the real tensors with
at least two leaves): whatever `contractTree` returns expands to the dense tensor of the defining sum. -/
theorem C07_tree_total {net : Net} {data : Data} (hrep : RepOK net) (hcd : isConsistentData net data = .ok true)
    {sl sr : Scaffold} {r : DT Int} {am : List Nat} {t : Tree}
    (hct : contractTree net data (.node sl sr) = .ok (r, am, t)) (hfull : ScaffoldFull net (.node sl sr)) :
    toFullTensor r am = fullTensor net (dataAcc data) :=
  contractTree_total hrep hcd hct hfull

/-- **Tree contraction, every scaffold** (single leaf included): for ANY scaffold over all real tensors, whatever
`contractTree` returns expands to the dense tensor of the defining sum. (On a one-tensor network whose tensor repeats a
bond the implementation refuses; the statement is about returned values.) -/
theorem C07_tree_total_any {net : Net} {data : Data} (hrep : RepOK net) (hcd : isConsistentData net data = .ok true)
    (s : Scaffold) {r : DT Int} {am : List Nat} {t : Tree}
    (hct : contractTree net data s = .ok (r, am, t)) (hfull : ScaffoldFull net s) :
    toFullTensor r am = fullTensor net (dataAcc data) := by
  cases s with
  | leaf tid => exact contractTree_leaf_total hrep hcd hct hfull
  | node sl sr => exact contractTree_total hrep hcd hct hfull
  | bad => simp [contractTree, buildContractionTree, buildTree, bind, Except.bind] at hct

/-- **Strategy independence** (no certificate hypothesis): single-shot contraction and tree contraction along any two
scaffolds return (tensor, axes map) pairs that expand to the same dense tensor. -/
theorem C07_strategy_independent {net : Net} {data : Data} (hrep : RepOK net)
    (hcd : isConsistentData net data = .ok true) {r0 : DT Int} {am0 : List Nat}
    (hce : contractEinsum net data = .ok (r0, am0))
    {sl sr sl' sr' : Scaffold} {r1 r2 : DT Int} {am1 am2 : List Nat} {t1 t2 : Tree}
    (h1 : contractTree net data (.node sl sr) = .ok (r1, am1, t1)) (hf1 : ScaffoldFull net (.node sl sr))
    (h2 : contractTree net data (.node sl' sr') = .ok (r2, am2, t2)) (hf2 : ScaffoldFull net (.node sl' sr')) :
    toFullTensor r0 am0 = toFullTensor r1 am1 ∧ toFullTensor r1 am1 = toFullTensor r2 am2 := by
  rw [C07_einsum_dense hrep hcd hce, C07_tree_total hrep hcd h1 hf1, C07_tree_total hrep hcd h2 hf2]
  exact ⟨rfl, rfl⟩

/-- **Logical shape**: the expanded contraction result has the shape the network reports (`netShape`, the shape of the
virtual tensor), which is the shape of the dense defining sum. -/
theorem C07_shape {net : Net} {data : Data} (hrep : RepOK net) (hcd : isConsistentData net data = .ok true)
    {r : DT Int} {am : List Nat} (hce : contractEinsum net data = .ok (r, am)) :
    ∃ ft, toFullTensor r am = .ok ft ∧ fullTensor net (dataAcc data) = .ok ft ∧ netShape net = .ok ft.shape := by
  have hwf : WF net := wf_of_consistent hrep (isConsistentData_ok hcd).1
  obtain ⟨v, hvm⟩ := exists_mem_of_mem_dkeys hwf.virt
  have hv := dget_of_mem hwf.tnodup hvm
  simp only at hv
  refine ⟨DT.ofFn v.shape (full net (dataAcc data)), ?_, ?_, ?_⟩
  · rw [C07_einsum_dense hrep hcd hce]
    simp [fullTensor, virt, hv, bind, Except.bind, pure, Except.pure]
  · simp [fullTensor, virt, hv, bind, Except.bind, pure, Except.pure]
  · simp [netShape, virt, hv, bind, Except.bind, pure, Except.pure, DT.ofFn]

/-! ### non-vacuity (tests, not proofs): a concrete network on which every hypothesis above holds

Two real tensors joined by the hyper-bond 5 (four legs, two of them open legs sharing the bond), one open leg each on
bonds 6 and 7, one inner bond 8 of dimension 3. -/
namespace Example

def exNet : Net :=
  ⟨[(-1, ⟨-1, [2, 2, 2, 2], [5, 5, 6, 7], none⟩), (0, ⟨0, [2, 2, 3], [5, 6, 8], some 0⟩),
    (1, ⟨1, [2, 2, 3], [5, 7, 8], some 1⟩)],
   [(5, ⟨5, [-1, -1, 0, 1]⟩), (6, ⟨6, [-1, 0]⟩), (7, ⟨7, [-1, 1]⟩), (8, ⟨8, [0, 1]⟩)]⟩

def exData : Data :=
  [(0, DT.ofFn [2, 2, 3] (fun i => Int.ofNat (i.foldl (fun a x => 3 * a + x + 1) 0))),
   (1, DT.ofFn [2, 2, 3] (fun i => 2 - Int.ofNat (i.foldl (fun a x => 2 * a + x) 1)))]

def exSpec : EinsumSpec :=
  { tids := [0, 1], tidx := [[0, 1, 2], [0, 3, 2]], idxout := [0, 1, 3], axesMap := [0, 0, 1, 2] }

example : RepOK exNet := ⟨by decide, by decide, by decide, by decide⟩
example : isConsistentData exNet exData = .ok true := by decide +kernel
example : asEinsum exNet = .ok exSpec := by decide +kernel
example : einsumOK exNet exSpec = true := by decide +kernel
example : (contractEinsum exNet exData).toBool = true := by decide +kernel
/-- the tree built and evaluated by `contractTree` is certified -/
example : (match contractTree exNet exData (.node (.leaf 0) (.leaf 1)) with
    | .ok (_, am, t) => (treeOKList exNet t).all id && rootOK exNet t am
    | .error _ => false) = true := by decide +kernel
/-- `permute_axes` on the left leaf and on the root of the built tree succeed (hypothesis of
`C07_permute_axes_invariant`) -/
example : (match buildContractionTree exNet (.node (.leaf 0) (.leaf 1)) with
    | .ok t => (permuteAt t [false] [2, 0, 1]).toBool && (permuteAt t [] [1, 2, 0]).toBool &&
        (treeEval (tensorDict exNet exData) t).toBool
    | .error _ => false) = true := by decide +kernel
example : (buildContractionTree exNet (.node (.leaf 1) (.leaf 0))).toBool = true := by decide +kernel
example : ScaffoldFull exNet (.node (.leaf 1) (.leaf 0)) := ⟨by decide, by decide +kernel⟩
example : (contractTree exNet exData (.node (.leaf 1) (.leaf 0))).toBool = true := by decide +kernel
/-- a non-trivial value: the entry at the logical index (1,1,0,1) -/
example : full exNet (dataAcc exData) [1, 1, 0, 1] = -899 := by decide +kernel
example : full exNet (dataAcc exData) [0, 1, 0, 1] = 0 := by decide +kernel

/-- a one-tensor network (the logical axes are the transposed tensor axes): the single-leaf scaffold is accepted -/
def oneNet : Net :=
  ⟨[(-1, ⟨-1, [3, 2], [8, 7], none⟩), (4, ⟨4, [2, 3], [7, 8], some 0⟩)], [(7, ⟨7, [-1, 4]⟩), (8, ⟨8, [-1, 4]⟩)]⟩
def oneData : Data := [(0, DT.ofFn [2, 3] (fun i => Int.ofNat (i.foldl (fun a x => 3 * a + x) 1)))]
example : isConsistentData oneNet oneData = .ok true := by decide +kernel
example : ScaffoldFull oneNet (.leaf 4) := ⟨by decide, by decide +kernel⟩
example : (contractTree oneNet oneData (.leaf 4)).toBool = true := by decide +kernel

/-! The hypothesis `RootInj` of `C07_tree_sound` cannot be dropped: on a one-tensor network whose tensor carries the
same (open) bond on both axes, the single-leaf tree passes `leafOK` and `rootOK`, yet the expanded value differs from the
defining sum (which has a Kronecker delta). The implementation refuses this case (`contract_tree` raises). -/
def cexNet : Net :=
  ⟨[(-1, ⟨-1, [2, 2], [5, 5], none⟩), (0, ⟨0, [2, 2], [5, 5], some 0⟩)], [(5, ⟨5, [-1, -1, 0, 0]⟩)]⟩
def cexData : Data := [(0, DT.ofFn [2, 2] (fun i => Int.ofNat (i.foldl (fun a x => 2 * a + x) 1)))]
def cexTree : Tree :=
  .leaf { tid := 0, idxL := [], idxR := [], idxout := [0, 1], openaxes := [(0, 0), (0, 1)], trackaxes := [0, 1] }

example : isConsistentData cexNet cexData = .ok true := by decide +kernel
example : ((treeOKList cexNet cexTree).all id && rootOK cexNet cexTree [0, 1]) = true := by decide +kernel
example : (match treeEval (tensorDict cexNet cexData) cexTree with
    | .ok r => toFullSem r [0, 1] [0, 1] != full cexNet (dataAcc cexData) [0, 1]
    | .error _ => false) = true := by decide +kernel
/-- the strengthened certificate rejects it -/
example : rootOKStrong cexNet cexTree [0, 1] = false := by decide +kernel
/-- and accepts the tree evaluated by `contractTree` on the first example -/
example : (match contractTree exNet exData (.node (.leaf 0) (.leaf 1)) with
    | .ok (_, am, t) => rootOKStrong exNet t am
    | .error _ => false) = true := by decide +kernel

end Example

end Qib.C07
