import QibProofs.Lemmas.CircuitNetMergeData
import QibProofs.Properties.C05
/-!
C05 — All views of a circuit agree. **Tensor-network part**: the network built by `Circuit.as_tensornet` is consistent,
has two open axes per wire (outputs first, then inputs) and contracts to the circuit matrix.

Property theorems only (helper lemmas: `QibProofs/Lemmas/CircuitNet*.lean`). All statements are about the executable
definitions of `QibModel/CircuitNet.lean` that the driver `drv_circuitnet` runs: `circuitNet` is `Circuit.as_tensornet()`
(identity wires from `generate_bonds`, per gate `gate.as_tensornet()` of `QibModel/GateNet.lean`, the open-axes assertion,
`TensorNetwork.merge` with its data-clash check, the `perm`/`argsort` re-transposition, `assert net.is_consistent()`),
`circuitMatrix` (`QibModel/Embed.lean`) is `Circuit.as_matrix(fields)`, `full net D idx` (Core C) is the defining sum of a
network, i.e. what `to_full_tensor(*contract_einsum())` computes (C07).

A multi-index over the `2n` open axes is `o ++ i` (outputs first, then inputs, wire 0 first); `bitsVal o` is the row
and `bitsVal i` the column of the circuit matrix (wire 0 = most significant bit).

Hypotheses on the gates (`GateHyp`): the gate network has two open axes of dimension 2 per wire and denotes the gate
matrix – both proved in C06 for every class except the four two-qubit wraps (known finding) and the preparation gate
(rank-one network) – and the number the harness gave to the gate's own data reference does not collide with one of the
fixed references (`"PauliX"`, `"ctrl_cross_*"`, `"|0>_2"`) used inside the same gate network.
-/
set_option linter.unusedSimpArgs false
set_option linter.unusedSectionVars false
namespace Qib.C05Net
open Qib.TNet Qib.GateNet Qib.Embed Qib.CircuitNet

variable {α : Type} [CommSemiring α] [DecidableEq α]

/-! ### which gates satisfy the hypotheses -/

/-- every gate class covered by C06 – all but the two-qubit wraps `G.leaf 2` (Rxx, Ryy, Rzz, iSWAP) and the
preparation gate – satisfies the hypotheses of the theorems below (phase gates under `unⁿ = u`, true for the values the
code uses: `C06_phase_complex`). Only a controlled gate uses fixed data references besides its own (`"PauliX"`,
`"ctrl_cross_neg"`, `"ctrl_cross_pos"`); its own reference (`"ctrl_" + hash`) must have got a number different from
theirs. (A Pauli-X gate, whose own reference IS `"PauliX"` = 1, is covered: its network has no other reference.) -/
theorem C05_gateHyp_of_class (p : PGate α) (hleaf : ∀ w m, p.g = G.leaf w m → w = 1)
    (hprep : ∀ n x m tr, p.g ≠ G.prepare n x m tr) (hphase : ∀ n u un, p.g = G.phase n u un → un ^ n = u)
    (href : ∀ cs t, p.g = G.controlled cs t → p.ref0 ≠ 1 ∧ p.ref0 ≠ 2 ∧ p.ref0 ≠ 3) : GateHyp p := by
  refine ⟨C06.C06_twoAxesPerWire_partial p.g hleaf, C06.C06_gateNet_denotes_partial p.g hleaf hprep hphase, ?_⟩
  intro gtn hg k hk hk0
  cases hgc : p.g with
  | leaf w m =>
    rw [hgc] at hg; simp only [gateNet, Except.ok.injEq] at hg; subst hg
    exact absurd (by simpa [wrapTN, dkeys] using hk) hk0
  | dense w m =>
    rw [hgc] at hg; simp only [gateNet, Except.ok.injEq] at hg; subst hg
    exact absurd (by simpa [wrapTN, dkeys] using hk) hk0
  | phase n u un =>
    rw [hgc] at hg; simp only [gateNet] at hg
    split at hg
    · cases hg
    · simp only [Except.ok.injEq] at hg; subst hg
      exact absurd (by simpa [dkeys] using hk) hk0
  | prepare n x m tr => exact absurd hgc (hprep n x m tr)
  | block w m => rw [hgc] at hg; simp [gateNet] at hg
  | controlled cs t =>
    obtain ⟨r1, r2, r3⟩ := href cs t hgc
    rw [hgc] at hg; simp only [gateNet] at hg
    rcases hf : flattenCtrl cs t with ⟨cs', t'⟩
    rw [hf] at hg
    cases cs' with
    | nil => cases hg
    | cons c0 rest =>
      simp only [Except.ok.injEq] at hg; subst hg
      simp only [ctrlTN, dkeys, List.map_append, List.map_cons, List.map_nil, List.map_map, List.mem_append, List.mem_cons,
        List.not_mem_nil, or_false, List.mem_map, Function.comp] at hk
      rcases hk with (hk | hk) | ⟨r, hr, rfl⟩
      · exact absurd hk hk0
      · split at hk
        · obtain ⟨a, ha, rfl⟩ := hk
          simp only [List.mem_cons, List.not_mem_nil, or_false] at ha
          subst ha; exact r1.symm
        · simp at hk
      · rcases (crossRefs_spec rest).2 r hr with h | h
        · rw [h]; exact r2.symm
        · rw [h]; exact r3.symm
  | multiplexed nc ts =>
    rw [hgc] at hg; simp only [gateNet] at hg
    split at hg
    · cases hg
    · split at hg
      · cases hg
      · simp only [Except.ok.injEq] at hg; subst hg
        exact absurd (by simpa [dkeys] using hk) hk0

/-! ### the network contracts to the circuit matrix -/

/-- **`full (circuitNet c) = reshape (circuitMatrix c)`** – for every circuit (any length, any mix of the gate classes
above, any wire overlap pattern, idle wires, several fields, control instructions interleaved), every numbering of the
data references and every iteration order of the Python sets inside `merge`: whenever `Circuit.as_tensornet()` returns a
network `tn` and `Circuit.as_matrix(fields)` returns `P`, contracting `tn` at outputs `o`, inputs `i` gives the matrix
entry `P[bitsVal o, bitsVal i]`. By induction over the gate list: one loop iteration (`merge` onto the output axes of
the gate's wires + `argsort` re-transposition) is left multiplication by the embedded gate – from `C08_merge_full`,
`C08_transpose_full`, the `…_denotes` theorems of C06 and the embedding lemmas of C04. -/
theorem C05_circuitNet_full (fields : List FieldSpec) (instrs : List (CInstr α)) (tn : TN α)
    (P : DMat α (2 ^ numWires fields)) (hnet : circuitNet fields instrs = .ok tn)
    (hmat : circuitMatrix fields (instrs.map CInstr.toInstr) = .ok P)
    (hg : ∀ p, CInstr.gate p ∈ instrs → GateHyp p) (o i : List Nat)
    (ho : o.length = numWires fields) (hi : i.length = numWires fields) (bo : Bits o) (bi : Bits i) :
    full tn.net tn.D (o ++ i) = entry P (bitsVal o) (bitsVal i) := by
  have hloop := circuitNet_ok hnet
  rw [length_wireDims] at hloop
  unfold circuitMatrix at hmat
  split at hmat
  · cases hmat
  · cases hl : circuitMatrixLoop fields none (instrs.map CInstr.toInstr) with
    | error e => rw [hl] at hmat; cases hmat
    | ok acc =>
      rw [hl] at hmat
      cases acc with
      | none => cases hmat
      | some Q =>
        simp only [Except.ok.injEq] at hmat
        subst hmat
        have hwd := wireDims_eq_rep2 fields (loop_some_localDim _ Q hl)
        obtain ⟨hst0, hden0⟩ := init_state (α := α) (wireDims fields) (numWires fields) hwd
        obtain ⟨_, hden⟩ := loop_den instrs _ tn none (some Q) hst0 hden0 hloop hl hg
        exact hden o i ho hi bo bi

/-- **one loop iteration = left multiplication by the embedded gate** (the induction step of `C05_circuitNet_full`, stated
on its own): from a consistent network with `2n` open axes, after `gate.as_tensornet()`, the merge onto the output axes of
the gate's wires and the `argsort` re-transposition, the value at outputs `o`, inputs `i` is
`Σ_t g[o restricted to the wires, t] · (old network)[o with the wires overwritten by t, i]` – the row `o` of the embedded
gate times the old value (`embed_mul_bits` turns the sum over `t` into the sum over the flat register index) -/
theorem C05_circuitNet_step (fields : List FieldSpec) (n : Nat) (tn tn' : TN α) (p : PGate α)
    (hst : StateOK n tn) (h : gateStep fields n tn p = .ok tn') (hp : GateHyp p)
    (hwires : ∀ x ∈ p.particles.map (mapParticleToWire fields), x.toNat < n) (o i : List Nat)
    (ho : o.length = n) (hi : i.length = n) (bo : Bits o) (bi : Bits i) :
    StateOK n tn' ∧ full tn'.net tn'.D (o ++ i) = ((allIdx (rep2 p.particles.length)).map (fun t =>
      p.g.mat (bitsVal (pickD o 0 ((p.particles.map (mapParticleToWire fields)).map Int.toNat))) (bitsVal t) *
      full tn.net tn.D (setW o ((p.particles.map (mapParticleToWire fields)).map Int.toNat) t ++ i))).sum := by
  obtain ⟨hst', hwl, gtn, hg, hval⟩ := gateStep_value hst h hp.two hp.fresh hwires
  refine ⟨hst', ?_⟩
  rw [hval o i ho hi bo bi]
  apply congrArg
  apply List.map_congr_left
  intro t ht
  obtain ⟨htl, htb⟩ := mem_allIdx_rep2.mp ht
  rw [hp.den gtn hg _ t (by simp [pickD, hwl]) (by rw [htl, hwl]) (bits_pickD bo _) htb, mul_comm]

/-- the same in terms of the product of the embedded gate matrices, first gate applied first (`C05_circuitMatrix_eq_prod`
of the matrix part): the network contracts to `Mₖ * … * M₁` -/
theorem C05_circuitNet_eq_prod (fields : List FieldSpec) (instrs : List (CInstr α)) (tn : TN α)
    (P : DMat α (2 ^ numWires fields)) (hnet : circuitNet fields instrs = .ok tn)
    (hmat : circuitMatrix fields (instrs.map CInstr.toInstr) = .ok P)
    (hg : ∀ p, CInstr.gate p ∈ instrs → GateHyp p) :
    ∃ Ms, gateMats fields (instrs.map CInstr.toInstr) = .ok Ms ∧ Ms ≠ [] ∧
      ∀ o i : List Nat, ∀ ho : o.length = numWires fields, ∀ hi : i.length = numWires fields, ∀ bo : Bits o, ∀ bi : Bits i,
        full tn.net tn.D (o ++ i) =
          ((Ms.map DMat.toMatrix).reverse.prod) ⟨bitsVal o, by rw [← ho]; exact bitsVal_lt o bo⟩
            ⟨bitsVal i, by rw [← hi]; exact bitsVal_lt i bi⟩ := by
  obtain ⟨Ms, hMs, hfold⟩ := (circuitMatrix_eq_ok_iff fields _ P).mp hmat
  refine ⟨Ms, hMs, ?_, ?_⟩
  · rintro rfl; simp [circuitMatOf] at hfold
  · intro o i ho hi bo bi
    rw [C05_circuitNet_full fields instrs tn P hnet hmat hg o i ho hi bo bi]
    have hmap := circuitMatOf_map (DMat.mul (α := α) (N := 2 ^ numWires fields)) (· * ·) DMat.toMatrix
      (fun x y => DMat.toMatrix_mul x y) Ms
    rw [hfold, Option.map_some] at hmap
    have hP := ((circuitMatOf_eq_some_iff _ _).mp hmap.symm).2
    rw [← hP]
    have h1 : bitsVal o < 2 ^ numWires fields := by rw [← ho]; exact bitsVal_lt o bo
    have h2 : bitsVal i < 2 ^ numWires fields := by rw [← hi]; exact bitsVal_lt i bi
    simp [entry, h1, h2, DMat.toMatrix]

/-- **idle wires are identities**: a circuit without gates (control instructions only, or empty) has the network of
identity wires – bonds touching no tensor – and its value is `δ(outputs, inputs)`, whatever the local dimensions.
(`contract_einsum` realises these legs by ones-vectors: `C05_idle_wires_ones`.) -/
theorem C05_circuitNet_identity (fields : List FieldSpec) (instrs : List (CInstr α)) (tn : TN α)
    (hnet : circuitNet fields instrs = .ok tn) (hno : ∀ p, CInstr.gate p ∉ instrs) (o i : List Nat)
    (ho : o.length = numWires fields) (hi : i.length = numWires fields) :
    tn.net = wireNetC (wireDims fields) ∧ full tn.net tn.D (o ++ i) = if o = i then 1 else 0 := by
  have hloop := circuitNet_ok hnet
  have key : ∀ (is : List (CInstr α)) (t t' : TN α), (∀ p, CInstr.gate p ∉ is) →
      circuitLoop fields (wireDims fields).length t is = .ok t' → t' = t := by
    intro is
    induction is with
    | nil => intro t t' _ h; simp only [circuitLoop, Except.ok.injEq] at h; exact h.symm
    | cons ins rest ih =>
      intro t t' hn h
      cases ins with
      | ctrl => simp only [circuitLoop] at h; exact ih t t' (fun p hp => hn p (List.mem_cons_of_mem _ hp)) h
      | gate p => exact absurd List.mem_cons_self (hn p)
  have := key instrs _ tn hno hloop
  subst this
  refine ⟨rfl, ?_⟩
  exact wireNetC_full _ _ o i (by rw [ho, length_wireDims]) (by rw [hi, length_wireDims])

/-! ### consistency and open axes -/

/-- **every intermediate and the final network are consistent**, and this does not rest on the `assert
net.is_consistent()` inside the loop: from a consistent network with `2n` open axes of dimension 2, the loop body before
its assertion (`gateStepCore`: `gate.as_tensornet()`, the open-axes assertion, `merge`, `perm`, `argsort`, `transpose`)
returns – whenever it returns – a network that satisfies the invariant of C08 (representation facts + the code's own
`is_consistent` returns `True`) and again has `2n` open axes of dimension 2; moreover the gate acts on as many particles
as it has wires. From C06 (every gate network is consistent, two axes per wire) and C08 (`merge`, `transpose` preserve
consistency, shapes) -/
theorem C05_circuitNet_step_consistent (fields : List FieldSpec) (n : Nat) (tn tn' : TN α) (p : PGate α)
    (hinv : C08.Inv tn.net) (hshape : ∃ v, dget tn.net.tensors (-1) = some v ∧ v.shape = rep2 (2 * n))
    (h : gateStepCore fields n tn p = .ok tn') (htwo : C06.TwoAxesPerWire p.g) :
    C08.Inv tn'.net ∧ isConsistent tn'.net = .ok true ∧ netShape tn'.net = .ok (rep2 (2 * n)) ∧
      p.particles.length = p.g.wires := by
  obtain ⟨h1, ⟨v, hv, hs⟩, h3⟩ := gateStepCore_state hinv hshape h htwo
  refine ⟨h1, h1.2, ?_, h3⟩
  simp only [netShape, virt, hv, bind, Except.bind, pure, Except.pure, hs]

/-- **the `assert net.is_consistent()` of the loop never fires**: with its data dictionary, too, whatever the loop body
returns before its assertion passes `TensorNetwork.is_consistent()` – `merge` invents no tensor (every real tensor of the
merged network has the shape and the data reference of a real tensor of one of the operands), the clash check makes
the united dictionary fit both, `transpose` touches the virtual tensor only -/
theorem C05_circuitNet_assert_never_fires (fields : List FieldSpec) (n : Nat) (tn tn' : TN α) (p : PGate α)
    (hst : StateOK n tn) (h : gateStepCore fields n tn p = .ok tn') (htwo : C06.TwoAxesPerWire p.g)
    (hfresh : ∀ gtn, gateNet p.g = .ok gtn → ∀ k ∈ dkeys gtn.data, k ≠ 0 → k ≠ p.ref0) :
    GateNet.isConsistentData tn' = .ok true ∧ gateStep fields n tn p = .ok tn' := by
  have hd := gateStepCore_consistentData hst h htwo hfresh
  refine ⟨hd, ?_⟩
  simp only [gateStep, h, bind, Except.bind, assertConsistent, hd, liftT, Bool.not_true, Bool.false_eq_true, if_false,
    pure, Except.pure]

/-- **the network of a whole circuit is consistent** (symbolically and with its data dictionary) – by induction over the
gate list, for all two-level registers and all gates with two axes per wire -/
theorem C05_circuitNet_consistent (fields : List FieldSpec) (instrs : List (CInstr α)) (tn : TN α)
    (hnet : circuitNet fields instrs = .ok tn) (hdim : ∀ f ∈ fields, f.localDim = 2)
    (hg : ∀ p, CInstr.gate p ∈ instrs → C06.TwoAxesPerWire p.g) :
    C08.Inv tn.net ∧ isConsistent tn.net = .ok true ∧ GateNet.isConsistentData tn = .ok true := by
  have hloop := circuitNet_ok hnet
  rw [length_wireDims] at hloop
  obtain ⟨hst0, _⟩ := init_state (α := α) (wireDims fields) (numWires fields) (wireDims_eq_rep2 fields hdim)
  have hst := loop_state instrs _ tn hst0 hloop hg
  exact ⟨hst.inv, hst.inv.2, hst.data⟩

/-- **two open axes per wire, outputs first then inputs**: the network of a circuit on `n` wires has `2n` open axes, all
of dimension 2 (that axes `0..n-1` are the outputs and `n..2n-1` the inputs, in wire order, is the content of
`C05_circuitNet_full`) -/
theorem C05_circuitNet_openAxes (fields : List FieldSpec) (instrs : List (CInstr α)) (tn : TN α)
    (hnet : circuitNet fields instrs = .ok tn) (hdim : ∀ f ∈ fields, f.localDim = 2)
    (hg : ∀ p, CInstr.gate p ∈ instrs → C06.TwoAxesPerWire p.g) :
    numOpenAxes tn.net = .ok (2 * numWires fields) ∧ netShape tn.net = .ok (rep2 (2 * numWires fields)) := by
  have hloop := circuitNet_ok hnet
  rw [length_wireDims] at hloop
  obtain ⟨hst0, _⟩ := init_state (α := α) (wireDims fields) (numWires fields) (wireDims_eq_rep2 fields hdim)
  obtain ⟨v, hv, hs⟩ := (loop_state instrs _ tn hst0 hloop hg).shape
  constructor
  · rw [numOpenAxes_eq hv, hs, length_rep2]
  · simp only [netShape, virt, hv, bind, Except.bind, pure, Except.pure, hs]

/-! ### single-shot contraction and the tensor-network simulator -/

/-- **`to_full_tensor(*Circuit.as_tensornet().contract_einsum())` is the circuit matrix reshaped** (the observation point
named by the property): whatever the executable single-shot contraction (`contractEinsum`: operands from the data
dictionary, ones-vectors for output legs that touch no tensor, one `einsumEval`) returns on the circuit network expands to
a dense tensor of shape `(2,)*2n` whose entry at outputs `o`, inputs `i` is `P[bitsVal o, bitsVal i]`. Corollary of
`C05_circuitNet_full` and the soundness of `as_einsum` (C07). -/
theorem C05_circuitNet_einsum (fields : List FieldSpec) (instrs : List (CInstr α)) (tn : TN α)
    (P : DMat α (2 ^ numWires fields)) (hnet : circuitNet fields instrs = .ok tn)
    (hmat : circuitMatrix fields (instrs.map CInstr.toInstr) = .ok P)
    (hg : ∀ p, CInstr.gate p ∈ instrs → GateHyp p) (r : DT α) (am : List Nat)
    (hce : contractEinsum tn = .ok (r, am)) :
    ∃ ft, toFullTensor r am = .ok ft ∧ ft.shape = rep2 (2 * numWires fields) ∧
      ∀ o i : List Nat, o.length = numWires fields → i.length = numWires fields → Bits o → Bits i →
        ft.get (o ++ i) = entry P (bitsVal o) (bitsVal i) := by
  obtain ⟨_, hst⟩ := circuit_state fields instrs tn P hnet hmat hg
  obtain ⟨v, hv, hs⟩ := hst.shape
  have hd := contractEinsum_dense hst.inv hst.data hce
  refine ⟨DT.ofFn v.shape (full tn.net tn.D), ?_, by simp [DT.ofFn, hs], ?_⟩
  · rw [hd]; simp [fullTensor, virt, hv, bind, Except.bind, pure, Except.pure]
  · intro o i ho hi bo bi
    rw [DT.get_ofFn _ _ _ (by rw [hs]; exact forall2_rep2' _ _ (by simp [ho, hi]; omega) (bo.append bi))]
    exact C05_circuitNet_full fields instrs tn P hnet hmat hg o i ho hi bo bi

/-- **legs that touch no tensor get ones-vectors – and that makes idle wires identities**: on the network of a gate-free
circuit (every bond is an identity wire `[-1, -1]`, no operand carries its label) the executable `contract_einsum`, which
appends a ones-vector per such output label, expands to the identity `δ(outputs, inputs)` – for any local dimensions -/
theorem C05_idle_wires_ones (wd : List Nat) (r : DT α) (am : List Nat)
    (hce : contractEinsum (⟨wireNetC wd, []⟩ : TN α) = .ok (r, am)) :
    ∃ ft, toFullTensor r am = .ok ft ∧ ft.shape = wd ++ wd ∧
      ∀ o i : List Nat, List.Forall₂ (fun x d => x < d) o wd → List.Forall₂ (fun x d => x < d) i wd →
        ft.get (o ++ i) = if o = i then 1 else 0 := by
  have hcd : GateNet.isConsistentData (⟨wireNetC wd, []⟩ : TN α) = .ok true := by
    have hc := consistent_of_wf (wireNetC_wf wd)
    simp only [GateNet.isConsistentData, hc, bind, Except.bind, Bool.not_true, Bool.false_eq_true, if_false, pure,
      Except.pure, Except.ok.injEq, List.all_eq_true]
    intro e he
    simp only [wireNetC, List.mem_cons, List.not_mem_nil, or_false] at he
    subst he
    simp [wireVirt]
  have hd := contractEinsum_dense (wireNetC_inv wd) hcd hce
  refine ⟨DT.ofFn (wd ++ wd) (full (wireNetC wd) (⟨wireNetC wd, []⟩ : TN α).D), ?_, by simp [DT.ofFn], ?_⟩
  · rw [hd]; simp [fullTensor, virt, wireNetC_virt, bind, Except.bind, pure, Except.pure, wireVirt]
  · intro o i ho hi
    rw [DT.get_ofFn _ _ _ (List.rel_append ho hi)]
    exact wireNetC_full wd _ o i ho.length_eq hi.length_eq

/-- **`TensorNetworkSimulator.run` = column `|0…0⟩` of `Circuit.as_matrix`**: whenever the model of the simulator (the
`|0>` tensors with their shared data reference merged onto the input legs of `circ.as_tensornet()`, `contract_einsum`,
`to_full_tensor`) returns `psi` for a circuit whose matrix `P` exists, `psi` has shape `(2,)*n` and
`psi[o] = P[bitsVal o, 0]`. Corollary of `C05_circuitNet_full`, `C08_merge_full` (the last merge contracts the inputs
with the product of the `|0>` vectors) and the soundness of `as_einsum` (C07).
The network handed to `contract_einsum` passes `TensorNetwork.is_consistent()` although the code does not assert it
after this last merge: `merge` invents no tensor (`merge_realIn`), so the united data dictionary fits. -/
theorem C05_tnRun_eq_col0 (fields : List FieldSpec) (instrs : List (CInstr α)) (tor bor : List Int) (psi : DT α)
    (P : DMat α (2 ^ numWires fields)) (hrun : tnRun fields instrs tor bor = .ok psi)
    (hmat : circuitMatrix fields (instrs.map CInstr.toInstr) = .ok P)
    (hg : ∀ p, CInstr.gate p ∈ instrs → GateHyp p) :
    psi.shape = rep2 (numWires fields) ∧
      ∀ o : List Nat, o.length = numWires fields → Bits o → psi.get o = entry P (bitsVal o) 0 := by
  obtain ⟨tn', r, am, hnet', hce, hft⟩ := tnRun_ok hrun
  obtain ⟨init, tn, hinit, hinitd, hcirc, hmerge⟩ := tnRunNet_ok hnet'
  obtain ⟨hwd, hst⟩ := circuit_state fields instrs tn P hcirc hmat hg
  rw [hwd, initTN_eq] at hinit
  simp only [Except.ok.injEq] at hinit
  subst hinit
  rw [hwd, length_rep2] at hmerge
  obtain ⟨ho, hm, hcl, hdata⟩ := mergeTN_ok hmerge
  obtain ⟨va, hva, hsa⟩ := hst.shape
  obtain ⟨hinv', ⟨v', hv', hsh'⟩, hval⟩ := sim_merge_full hst.inv (initNetC_inv _) ho hva (initNetC_virt _) hsa rfl hm tn'.D
  have hnd0 : (dkeys (initDataC (α := α) (numWires fields))).Nodup := by
    unfold initDataC; split <;> simp [dkeys]
  have hcd : GateNet.isConsistentData tn' = .ok true :=
    mergeTN_consistentData hst.inv (initNetC_inv _) hst.data hinitd hnd0
      (simJoin_dims hva (initNetC_virt _) hsa rfl) hmerge
  have hd := contractEinsum_dense hinv' hcd hce
  rw [hd] at hft
  simp only [fullTensor, virt, hv', bind, Except.bind, pure, Except.pure, Except.ok.injEq] at hft
  subst hft
  refine ⟨by simp [DT.ofFn, hsh'], ?_⟩
  intro o hol hob
  rw [DT.get_ofFn _ _ _ (by rw [hsh']; exact forall2_rep2' _ _ hol hob), hval o hol hob]
  -- data: the circuit network reads its own dictionary, the `|0>` network the `|0>` vector
  have hwfa := (C08.C08_inv_iff_wf _).mp hst.inv
  have hnd : (dkeys (initDataC (α := α) (numWires fields))).Nodup := by
    unfold initDataC; split <;> simp [dkeys]
  have hDeq : tn'.D = (⟨tn.net, dupdate tn.data (initDataC (numWires fields))⟩ : TN α).D := by
    funext r idx; simp only [TN.D, hdata]
  have hA : ∀ x, full tn.net tn'.D x = full tn.net tn.D x := by
    intro x
    apply full_congr_data
    intro r hr
    obtain ⟨k, rfl, hk⟩ := dataRefs_keys hwfa.tkey hst.data r hr
    rw [hDeq, D_dupdate_left tn.data _ hnd hcl tn.net k hk]
  have hB : ∀ y, y.length = (numWires fields) → Bits y →
      full (initNetC (numWires fields)) tn'.D y = if y = List.replicate (numWires fields) 0 then 1 else 0 := by
    intro y hyl hyb
    rw [initNetC_full (numWires fields) _ y hyl]
    by_cases hn0 : numWires fields = 0
    · have : y = [] := List.length_eq_zero_iff.mp (by omega)
      subst this
      simp [prodL, hn0]
    · have hD : ∀ v, v < 2 → tn'.D (some 4) [v] = ket0Sem [v] := by
        intro v hv
        have hmem : ((4 : Int), DT.ofFn (α := α) [2] ket0Sem) ∈ initDataC (numWires fields) := by simp [initDataC, hn0]
        have hl : tn'.data.lookup 4 = some (DT.ofFn [2] ket0Sem) := by
          rw [hdata]; exact lookup_dupdate_of_mem _ _ hnd hmem
        simp only [TN.D, hl]
        exact DT.get_ofFn _ _ _ (List.Forall₂.cons hv List.Forall₂.nil)
      rw [ket_prod _ hD y hyb, hyl]
  have hterm : ∀ y ∈ allIdx (rep2 (numWires fields)), full tn.net tn'.D (o ++ y) * full (initNetC (numWires fields)) tn'.D y =
      if List.replicate (numWires fields) 0 = y then full tn.net tn.D (o ++ y) else 0 := by
    intro y hy
    obtain ⟨hyl, hyb⟩ := mem_allIdx_rep2.mp hy
    rw [hA, hB y hyl hyb]
    by_cases h : y = List.replicate (numWires fields) 0
    · rw [if_pos h, if_pos h.symm, mul_one]
    · rw [if_neg h, if_neg (fun e => h e.symm), mul_zero]
  have hzero : List.replicate (numWires fields) 0 ∈ allIdx (rep2 (numWires fields)) := by
    rw [mem_allIdx_rep2]; exact ⟨by simp, bits_replicate_zero (numWires fields)⟩
  rw [List.map_congr_left hterm, sum_delta_nodup _ (nodup_allIdx _), if_pos hzero]
  -- the circuit network denotes the matrix
  have := C05_circuitNet_full fields instrs tn P hcirc hmat hg o (List.replicate (numWires fields) 0) hol (by simp)
    hob (bits_replicate_zero (numWires fields))
  rw [this, bitsVal_replicate_zero]

/-- **both simulators return the same state**: whenever `StatevectorSimulator.run` and `TensorNetworkSimulator.run` both
return on a (non-empty) circuit, amplitude by amplitude `psi_tn[o] = psi_sv[bitsVal o]` – both are column `|0…0⟩` of the
circuit matrix (`C05_svRun_eq_col0`, `C05_tnRun_eq_col0`) -/
theorem C05_simulators_agree {α : Type} [CommRing α] [DecidableEq α] (fields : List FieldSpec) (instrs : List (CInstr α)) (hne : instrs ≠ []) (tor bor : List Int)
    (psi : DT α) (phi : Vector α (2 ^ numWires fields)) (hrun : tnRun fields instrs tor bor = .ok psi)
    (hsv : svRun fields (instrs.map CInstr.toInstr) = .ok phi) (hg : ∀ p, CInstr.gate p ∈ instrs → GateHyp p)
    (o : List Nat) (ho : o.length = numWires fields) (bo : Bits o) :
    psi.get o = phi[bitsVal o]'(by rw [← ho]; exact bitsVal_lt o bo) := by
  obtain ⟨_, P, hP, hcol⟩ := C05_svRun_eq_col0 fields (instrs.map CInstr.toInstr) (by simpa using hne) phi hsv
  have h1 : bitsVal o < 2 ^ numWires fields := by rw [← ho]; exact bitsVal_lt o bo
  rw [(C05_tnRun_eq_col0 fields instrs tor bor psi P hrun hP hg).2 o ho bo, hcol ⟨bitsVal o, h1⟩]
  have h0 : 0 < 2 ^ numWires fields := Nat.pos_of_ne_zero (by positivity)
  simp [entry, h1, h0]

/-! ### the known finding: two-qubit wraps are refused

FULL STATEMENT (violated by the code, `known_findings.json`, keys `C05:tensornet-view:two-qubit-wrap:*`): "for every
circuit whose matrix exists, `as_tensornet()` returns a network that contracts to it". `RxxGate`, `RyyGate`, `RzzGate`,
`ISwapGate` are exactly `G.leaf 2 m` on two particles; `C05_circuitNet_full` excludes them through `GateHyp`
(`C06_known_twoQubitWrap_violates`: their gate network has 2 open axes of dimension 4). -/

/-- negation on the witness: the loop body refuses every two-qubit wrap bound to two (found) particles with the
`AssertionError` of `assert gate_net.num_open_axes == 2*len(prtcl)`, whatever the circuit so far -/
theorem C05_known_twoQubitWrap_refused (fields : List FieldSpec) (n : Nat) (tn : TN α) (m : Nat → Nat → α)
    (q1 q2 : ParticleSpec) (ref0 : Int) (tor bor : List Int)
    (h1 : 0 ≤ mapParticleToWire fields q1) (h2 : 0 ≤ mapParticleToWire fields q2) :
    gateStep fields n tn ⟨[q1, q2], G.leaf 2 m, ref0, tor, bor⟩ = .error .assertion := by
  have ha : ([q1, q2].map (mapParticleToWire fields)).any (· < 0) = false := by
    simp only [List.map_cons, List.map_nil, List.any_cons, List.any_nil, Bool.or_false, Bool.or_eq_false_iff,
      decide_eq_false_iff_not, Int.not_lt]
    exact ⟨h1, h2⟩
  have hno : numOpenAxes (rerefTN ref0 (wrapTN [2 ^ 2, 2 ^ 2] (leafSem m))).net = .ok 2 := by
    simp [rerefTN, wrapTN, wrapNet, numOpenAxes, virt, dget, List.lookup, rerefTensor]
  have hcore : gateStepCore fields n tn ⟨[q1, q2], G.leaf 2 m, ref0, tor, bor⟩ = .error .assertion := by
    unfold gateStepCore
    simp only [bind, Except.bind, ha, Bool.false_eq_true, if_false, gateNet, liftG, hno, liftT]
    rfl
  unfold gateStep
  simp only [bind, Except.bind, hcore]

/-- the theorems are about what the driver executes: over the driver's Gaussian rationals (`QibModel/GQ.lean`, a commutative
semiring with the driver's own `0`, `1`, `+`, `*`: `Lemmas/GateNetGQ.lean`) the functions in the statements are the ones
`drv_circuitnet` runs -/
theorem C05_driver_scalars (fields : List FieldSpec) (instrs : List (CInstr Qib.GQ)) (tor bor : List Int) :
    @circuitNet Qib.GQ Qib.GQ.instZero Qib.GQ.instOne inferInstance fields instrs =
      circuitNet fields instrs ∧
    @tnRun Qib.GQ Qib.GQ.instZero Qib.GQ.instOne Qib.GQ.instAdd Qib.GQ.instMul inferInstance fields instrs tor bor =
      tnRun fields instrs tor bor :=
  ⟨rfl, rfl⟩

/-! ### non-vacuity (tests, not proofs) -/

/-- Hadamard-like gate on wire 1 of a 2-wire register followed by a CNOT-like controlled gate with negated control
(wires 1 → 0), over ℤ: the network exists, passes the checks, and contracts to the product of the embedded matrices -/
def exFields : List FieldSpec := [⟨0, 2, 2⟩]
def exH : G Int := .leaf 1 (fun i j => if i = 1 ∧ j = 1 then -1 else 1)
def exX : G Int := .leaf 1 (fun i j => if i = j then 0 else 1)
def exCircuit : List (CInstr Int) :=
  [.gate ⟨[⟨0, 1⟩], exH, 5, [-1], [0, 1]⟩, .ctrl, .gate ⟨[⟨0, 1⟩, ⟨0, 0⟩], .controlled [false] exX, 6, [0, -1], [0, 1, 2]⟩]

example : (circuitNet exFields exCircuit).toBool = true := by decide +kernel
example : (circuitMatrix exFields (exCircuit.map CInstr.toInstr)).toBool = true := by decide +kernel
example : (match circuitNet exFields exCircuit with
    | .ok tn => full tn.net tn.D [1, 0, 0, 0] == 1 && full tn.net tn.D [1, 1, 0, 1] == 0 && full tn.net tn.D [0, 1, 0, 1] == -1
    | .error _ => false) = true := by decide +kernel

/-- the simulator on the same circuit: the state `(|01⟩ + |10⟩)` (unnormalised over ℤ) = column 0 of the matrix -/
example : (match tnRun exFields exCircuit [-1, 0, 1] [0, 1], circuitMatrix exFields (exCircuit.map CInstr.toInstr) with
    | .ok psi, .ok P => psi.shape == [2, 2] && [psi.get [0, 0], psi.get [0, 1], psi.get [1, 0], psi.get [1, 1]] == [0, 1, 1, 0] &&
        [entry P 0 0, entry P 1 0, entry P 2 0, entry P 3 0] == [0, 1, 1, 0]
    | _, _ => false) = true := by decide +kernel

/-- the hypotheses on the gates hold for the two gates of the example -/
example : ∀ p, CInstr.gate p ∈ exCircuit → GateHyp p := by
  intro p hp
  simp only [exCircuit, List.mem_cons, List.not_mem_nil, or_false, reduceCtorEq, false_or, CInstr.gate.injEq] at hp
  rcases hp with rfl | rfl
  · exact C05_gateHyp_of_class _ (by intro w m h; simp only [exH, G.leaf.injEq] at h; exact h.1.symm)
      (by intro n x m tr h; cases h) (by intro n u un h; cases h) (by intro cs t h; cases h)
  · exact C05_gateHyp_of_class _ (by intro w m h; cases h) (by intro n x m tr h; cases h) (by intro n u un h; cases h)
      (by intro cs t _; decide)

end Qib.C05Net
