import QibProofs.Lemmas.PauliMat
import QibProofs.Lemmas.PauliText
import QibProofs.Lemmas.PauliOpSum
/-!
C09 — Pauli-string algebra is a faithful image of matrix algebra.

Property theorems only (proofs are one-line uses of `Lemmas/PauliMat.lean`, `Lemmas/PauliText.lean`,
`Lemmas/PauliOpSum.lean`). Everything is stated about the executable model `QibModel/Pauli.lean`, whose
tables and phase formulas are the *generated* definitions of `QibGen/PauliTables.lean` (regenerated from
`/repo/src/qib/operator/pauli_operator.py` on every run), for every number of sites `n`, all strings and all
four phases.

Conventions: `P.HasLen n` = both check vectors have length `n` (what the constructor guarantees);
`P.mat n : Matrix (Fin n → Bool) (Fin n → Bool) ℂ` in bit-function indexing; `natOfBits` is the flat index
with site 0 most significant (NumPy's `kron` order).
-/
open Complex Matrix
namespace Qib.Pauli
open QibGen.Pauli

/-! ### the matrix of a string -/

/-- every phase table in the source (`as_matrix`, `refactor_phase`, `WeightedPauliString.is_hermitian`,
`WeightedPauliString.__str__`) is `[1, -i, -1, i]`, i.e. entry `k` is `(-i)^k` -/
theorem C09_phase_tables (k : ℕ) (h : k < 4) :
    gi (phaseAsMatrix.getD k (0, 0)) = (-I) ^ k ∧ gi (phaseRefactor.getD k (0, 0)) = (-I) ^ k ∧
    gi (phaseWeightedHerm.getD k (0, 0)) = (-I) ^ k ∧ gi (phaseWeightedStr.getD k (0, 0)) = (-I) ^ k :=
  ⟨phaseAsMatrix_eq k h, phaseRefactor_eq k h, phaseWeightedHerm_eq k h, phaseWeightedStr_eq k h⟩

/-- the matrix is `(-i)^q` times the Kronecker product of the letters I, X, Y, Z with `Y = -i·Z·X`;
site 0 is the outermost Kronecker factor -/
theorem C09_mat_def (n : ℕ) (P : PS) :
    P.mat n = (-I) ^ P.q.val • tens (fun k : Fin n => letter (P.zf k) (P.xf k)) ∧
    letter false false = 1 ∧ letter false true = pauliX ∧ letter true false = pauliZ ∧
    letter true true = (-I) • (pauliZ * pauliX) :=
  ⟨rfl, letter_I, letter_X, letter_Z, by rw [letter_Y, pauliY_eq]⟩

theorem C09_tens_kron {n : ℕ} (A : Fin (n + 1) → Matrix Bool Bool ℂ) (r c : Fin (n + 1) → Bool) :
    tens A r c = A 0 (r 0) (c 0) * tens (Fin.tail A) (Fin.tail r) (Fin.tail c) := tens_succ A r c

/-- what `as_matrix` computes – one lookup in the generated phase table at `(q + z·x) % 4`, times the
Kronecker product of `Z^z X^x` with the generated 2×2 matrices – is that matrix -/
theorem C09_mat_asMatrix (n : ℕ) (P : PS) (hP : P.HasLen n) :
    P.mat n = gi (phaseAsMatrix.getD P.phaseIdx (0, 0)) • tens (fun k : Fin n => zx (P.zf k) (P.xf k)) :=
  mat_asMatrix n P hP

/-- flat indices: the executable dense entry at `(natOfBits r, natOfBits c)` (site 0 most significant) is
the entry of `P.mat` at the bit functions `r`, `c`; every flat index below `2^n` is of this form -/
theorem C09_matEntry_flat (P : PS) (hP : P.WF) (r c : Fin P.z.length → Bool) :
    gi (P.matEntry (natOfBits _ r) (natOfBits _ c)) = P.mat P.z.length r c ∧
    natOfBits _ r < 2 ^ P.z.length ∧ bitsOfIdx _ (natOfBits _ r) = r :=
  ⟨matEntry_natOfBits P hP r c, natOfBits_lt _ r, bitsOfIdx_natOfBits _ r⟩

theorem C09_mat_ne_zero (n : ℕ) (P : PS) : P.mat n ≠ 0 := mat_ne_zero n P

/-- Pauli-string matrices are unitary -/
theorem C09_mat_unitary (n : ℕ) (P : PS) : (P.mat n)ᴴ * P.mat n = 1 := mat_conjTranspose_mul_self n P

/-! ### products, commutation, Hermiticity -/

/-- the product of two strings (the code's mod-4 phase formula) has the product matrix -/
theorem C09_mat_mul (n : ℕ) (P R : PS) (hP : P.HasLen n) (hR : R.HasLen n) :
    (P.mul R).mat n = P.mat n * R.mat n := mat_mul n P R hP hR

theorem C09_mul_hasLen (n : ℕ) (P R : PS) (hP : P.HasLen n) (hR : R.HasLen n) : (P.mul R).HasLen n :=
  mul_hasLen n P R hP hR

/-- `@` succeeds exactly on strings of equal length (NumPy rejects the rest) and then returns `mul` -/
theorem C09_mulE_ok_iff (P R S : PS) :
    P.mulE R = .ok S ↔ (P.z.length = R.z.length ∧ P.x.length = R.x.length) ∧ S = P.mul R := by
  unfold PS.mulE
  split
  · rename_i h; simp [h, eq_comm]
  · rename_i h; simp [h]

/-- `commutes_with` is true exactly when the matrices commute -/
theorem C09_commutes_iff (n : ℕ) (P R : PS) (hP : P.HasLen n) (hR : R.HasLen n) :
    P.commutesWith R = true ↔ P.mat n * R.mat n = R.mat n * P.mat n := commutes_iff n P R hP hR

/-- the Hermiticity flag is exact -/
theorem C09_hermitian_iff (n : ℕ) (P : PS) : P.isHermitian = true ↔ (P.mat n)ᴴ = P.mat n :=
  hermitian_iff n P

/-! ### printing and parsing -/

/-- parsing the printed form gives back an equal string (n ≥ 1) -/
theorem C09_parse_print (P : PS) (hwf : P.WF) (hn : P.z ≠ []) : PS.fromChars P.toChars = .ok P :=
  parse_print P hwf hn

theorem C09_parse_print_string (P : PS) (hwf : P.WF) (hn : P.z ≠ []) : PS.fromString P.toString = .ok P := by
  simp only [PS.fromString, PS.toString, String.toList_ofList]
  exact parse_print P hwf hn

/-- the same with an optional leading `+` and blanks anywhere -/
theorem C09_parse_print_decorated (P : PS) (hwf : P.WF) (hn : P.z ≠ []) (s : List Char)
    (h : s.filter (fun c => c != parseBlank) = P.toChars ∨ s.filter (fun c => c != parseBlank) = '+' :: P.toChars) :
    PS.fromChars s = .ok P := parse_print_decorated P hwf hn s h

/-- error branch: a text without any non-blank character is rejected with `IndexError` (`s[0]`) -/
theorem C09_parse_blank_text (s : List Char) (h : s.filter (fun c => c != parseBlank) = []) :
    PS.fromChars s = .error .indexError := by
  simp [PS.fromChars, h]

/-- error branch: letters outside the letter table are rejected with `ValueError` -/
theorem C09_parse_unknown_letter (s : List Char) (q : Int) (c : Char) (hc : c ∈ s)
    (hu : PS.parseLetter c = none) : PS.ofLetters s q = .error .valueError := by
  have : s.mapM PS.parseLetter = none := by
    induction s with
    | nil => cases hc
    | cons a s ih =>
      rcases List.mem_cons.mp hc with rfl | h
      · simp [List.mapM_cons, hu]
      · cases ha : PS.parseLetter a <;> simp [List.mapM_cons, ha, ih h]
  simp [PS.ofLetters, this]

/-! ### extracting a phase or a sign -/

/-- `refactor_phase`: the returned factor `f` satisfies `f × (new matrix) = old matrix`, new phase is 0 -/
theorem C09_refactor_spec (n : ℕ) (P : PS) :
    gi P.refactorPhase.1 • P.refactorPhase.2.mat n = P.mat n ∧ P.refactorPhase.2.q = 0 :=
  refactorPhase_spec n P

/-- `refactor_sign`: `f ∈ {1, -1}`, `f × (new matrix) = old matrix`, new phase ∈ {0, 1} -/
theorem C09_refactorSign_spec (n : ℕ) (P : PS) :
    ((P.refactorSign.1 : ℤ) : ℂ) • P.refactorSign.2.mat n = P.mat n ∧ P.refactorSign.2.q.val < 2 ∧
    (P.refactorSign.1 = 1 ∨ P.refactorSign.1 = -1) := refactorSign_spec n P

/-! ### Pauli operators: weighted sums, merge-on-insert, zero-weight pruning -/

theorem C09_op_mat_def {α : Type} (φ : α → ℂ) (n : ℕ) (op : PauliOp α) :
    PauliOp.mat φ n op = (op.map fun e => φ e.2 • e.1.mat n).sum := rfl

/-- inserting a string adds `w • matrix`, whether it is appended or merged into an equal string -/
theorem C09_add_mat {α : Type} [Add α] (φ : α → ℂ) (hadd : ∀ a b, φ (a + b) = φ a + φ b) (n : ℕ)
    (op : PauliOp α) (P : PS) (w : α) :
    PauliOp.mat φ n (op.add P w) = PauliOp.mat φ n op + φ w • P.mat n :=
  PauliOp.add_matG (PS.mat n) φ hadd op P w

/-- dropping zero-weight strings (with the "keep at least one" rule) does not change the matrix -/
theorem C09_removeZero_mat {α : Type} (φ : α → ℂ) (isZ : α → Bool) (hz : ∀ w, isZ w = true → φ w = 0) (n : ℕ)
    (op : PauliOp α) : PauliOp.mat φ n (op.removeZero isZ) = PauliOp.mat φ n op :=
  PauliOp.removeZero_matG (PS.mat n) φ isZ hz op

/-- the closed form `removeZero` used above is the loop of `remove_zero_weight_strings`
(`for i in range(len-1, -1, -1): if zero(i) and len > 1: pop(i)`) -/
theorem C09_removeZero_is_loop {α : Type} (isZ : α → Bool) (op : PauliOp α) :
    PauliOp.removeZeroLoop isZ op = PauliOp.removeZero isZ op := PauliOp.removeZeroLoop_eq isZ op

/-- any history of insertions and zero-weight removals: final matrix = initial matrix + Σ inserted terms -/
theorem C09_history_mat {α : Type} [Add α] (φ : α → ℂ) (hadd : ∀ a b, φ (a + b) = φ a + φ b) (n : ℕ)
    (h : List (PauliOp.Step α)) (hz : ∀ isZ, PauliOp.Step.prune isZ ∈ h → ∀ w, isZ w = true → φ w = 0)
    (op : PauliOp α) :
    PauliOp.mat φ n (PauliOp.run op h) = PauliOp.mat φ n op + PauliOp.adds φ n h :=
  PauliOp.run_matG (PS.mat n) φ hadd h hz op

/-- the driver's instance: Gaussian-rational weights, pruning with `abs(w) <= 0` -/
theorem C09_history_mat_GQ (n : ℕ) (h : List (PauliOp.Step GQ))
    (hz : ∀ isZ, PauliOp.Step.prune isZ ∈ h → isZ = fun w => w.absLe 0) (op : PauliOp GQ) :
    PauliOp.mat GQ.toC n (PauliOp.run op h) = PauliOp.mat GQ.toC n op + PauliOp.adds GQ.toC n h :=
  C09_history_mat GQ.toC GQ.toC_add n h (fun isZ hm w hw => by rw [hz isZ hm] at hw; exact GQ.absLe_zero w hw) op

/-! ### constructor -/

/-- accepted ⇔ two flat sequences of equal length whose entries (after NumPy's cast to `int`) are 0 or 1;
the result has those bits and the phase `int(q) % 4` -/
theorem C09_ctor_accepts_iff (z x : ArrLike) (q : Rat) (P : PS) :
    PS.ofArrayLike z x q = .ok P ↔
      ∃ zs xs, z.flat? = some zs ∧ x.flat? = some xs ∧ zs.length = xs.length ∧
        (∀ v ∈ zs, truncInt v = 0 ∨ truncInt v = 1) ∧ (∀ v ∈ xs, truncInt v = 0 ∨ truncInt v = 1) ∧
        P = ⟨zs.map (truncInt · == 1), xs.map (truncInt · == 1), qOfInt (truncInt q)⟩ :=
  ofArrayLike_ok_iff z x q P

/-- integer 0/1 array-likes: accepted ⇔ all entries ∈ {0, 1} and equal lengths; otherwise `ValueError` -/
theorem C09_ctor_int_lists (zs xs : List Int) (q : Int) :
    PS.ofArrayLike (.ofInts zs) (.ofInts xs) (q : Rat) =
      if zs.length = xs.length ∧ (∀ v ∈ zs, v = 0 ∨ v = 1) ∧ (∀ v ∈ xs, v = 0 ∨ v = 1)
      then .ok ⟨zs.map (· == 1), xs.map (· == 1), qOfInt q⟩ else .error .valueError :=
  ofArrayLike_ints zs xs q

theorem C09_ctor_wf (z x : ArrLike) (q : Rat) (P : PS) (h : PS.ofArrayLike z x q = .ok P) : P.WF :=
  ofArrayLike_wf z x q P h

theorem C09_ctor_error_kind (z x : ArrLike) (q : Rat) (e : Err) (h : PS.ofArrayLike z x q = .error e) :
    e = .valueError := ofArrayLike_error z x q e h

/-! ### non-vacuity -/

/-- `-i·XY` and `i·YZ` on two sites -/
example : (⟨[false, true], [true, true], 1⟩ : PS).HasLen 2 ∧ (⟨[true, true], [true, false], 3⟩ : PS).HasLen 2 :=
  ⟨⟨rfl, rfl⟩, ⟨rfl, rfl⟩⟩
example : (⟨[false, true], [true, true], 1⟩ : PS).WF ∧ (⟨[false, true], [true, true], 1⟩ : PS).z ≠ [] :=
  ⟨rfl, by decide⟩
/-- X and Z anticommute, XX and ZZ commute, and products carry the right phase: X·Z = -i·Y -/
example : (⟨[false], [true], 0⟩ : PS).commutesWith ⟨[true], [false], 0⟩ = false := by decide
example : (⟨[false, false], [true, true], 0⟩ : PS).commutesWith ⟨[true, true], [false, false], 0⟩ = true := by decide
example : (⟨[false], [true], 0⟩ : PS).mul ⟨[true], [false], 0⟩ = ⟨[true], [true], 1⟩ := by decide
example : (⟨[true], [false], 0⟩ : PS).mul ⟨[false], [true], 0⟩ = ⟨[true], [true], 3⟩ := by decide
example : PS.fromChars ['+', ' ', '-', 'i', 'X', ' ', 'Y'] = .ok ⟨[false, true], [true, true], 1⟩ := by decide
example : (⟨[false, true], [true, true], 1⟩ : PS).toChars = ['-', 'i', 'X', 'Y'] := by decide
example : PS.fromChars ['-'] = .error .indexError ∧ PS.fromChars ['i', 'i', 'X'] = .error .valueError := by decide
example : (⟨[true], [true], 3⟩ : PS).refactorSign = (-1, ⟨[true], [true], 1⟩) := by decide
example : (⟨[true], [true], 3⟩ : PS).refactorPhase = ((0, 1), ⟨[true], [true], 0⟩) := by decide
/-- merge-on-insert really merges, pruning really drops, and the first entry survives when all are zero -/
example : PauliOp.run ([] : PauliOp Int)
    [.add ⟨[false], [true], 0⟩ 2, .add ⟨[true], [true], 0⟩ 5, .add ⟨[false], [true], 0⟩ (-2), .prune (· == 0)]
    = [(⟨[true], [true], 0⟩, 5)] := by decide
example : PauliOp.removeZero (· == 0) ([(⟨[false], [true], 0⟩, 0), (⟨[true], [true], 0⟩, 0)] : PauliOp Int)
    = [(⟨[false], [true], 0⟩, 0)] := by decide
example : PS.ofArrayLike (.ofInts [0, 1]) (.ofInts [1, 1]) ((-3 : Int) : Rat) = .ok ⟨[false, true], [true, true], 1⟩ := by
  rw [C09_ctor_int_lists]; decide
example : PS.ofArrayLike (.ofInts [0, 2]) (.ofInts [1, 1]) ((0 : Int) : Rat) = .error .valueError := by
  rw [C09_ctor_int_lists]; decide

end Qib.Pauli
