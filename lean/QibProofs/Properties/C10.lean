import QibProofs.Lemmas.FermiExec
import QibProofs.Lemmas.FermiTol
/-!
C10 — Second-quantised operators obey the fermionic algebra.

Property theorems only (proofs are short uses of `Lemmas/FermiMat.lean`, `FermiTensor.lean`, `FermiTerm.lean`,
`FermiBridge.lean`). Everything is about the executable model `QibModel/Fermi.lean` that the driver `drv_fermi`
runs against the real `qib.operator.field_operator` on every check, for every lattice size `L`, all sites, all
operator patterns and all coefficient arrays.

Vocabulary
* `createMat L i`, `clist L`, `alist L`, `FieldOp.asMatrix` : the executable `as_matrix` (integer / Gaussian-rational
  arrays at flat indices; `clist[i]` is built by the code's left-nested Kronecker loop with `Z` on the LATER sites).
* `IMat.toM L`, `MtoM L` : read an executable matrix at the flat indices `natOfBits r`, `natOfBits c` (site 0 most
  significant – NumPy's `kron` order) as a complex matrix indexed by bit functions `Fin L → Bool`.
* `ladderM L i create` : `1^{⊗i} ⊗ U/Uᴴ ⊗ Z^{⊗(L-i-1)}`; `C10_ladder_exec` proves it *is* `clist[i]` / `alist[i]`.
* `Term.mat L t`, `FieldOp.mat L op` : coefficient-weighted sum over index tuples of ordered products;
  `C10_asMatrix_spec` proves it *is* what the executable `as_matrix` returns.
* `gqC` : the driver's exact Gaussian rationals into ℂ.
-/
open Complex Matrix
namespace Qib.Fermi

/-! ### flat indices -/

/-- the flat index `natOfBits r` of an occupation pattern `r` (site 0 most significant, NumPy's `kron` order) ranges
bijectively over `0 … 2^L - 1`, and site `k`'s occupation is bit `L-1-k` of it – so reading an executable matrix at
these indices (`IMat.toM`, `MtoM`) reads all of its entries -/
theorem C10_flat_index (L : ℕ) :
    (∀ r : Fin L → Bool, natOfBits L r < 2 ^ L) ∧ Function.Injective (natOfBits L) ∧
    (∀ k < 2 ^ L, ∃ r : Fin L → Bool, natOfBits L r = k) ∧
    (∀ (r : Fin L → Bool) (k : Fin L), (natOfBits L r).testBit (L - 1 - k) = r k) :=
  ⟨natOfBits_lt L, natOfBits_injective L, natOfBits_surjective L, fun r k => bitAt_natOfBits L r k⟩

/-! ### the reference ladder matrices are the ones the code builds -/

/-- `clist[i]` (the Kronecker loop of lines 206-215) is `1 ⊗ … ⊗ U ⊗ Z ⊗ … ⊗ Z` with `U` on site `i`, read at flat indices
with site 0 most significant; `alist[i]` (its transpose) is the adjoint; both lists have exactly `L` entries -/
theorem C10_ladder_exec (L : ℕ) (i : Fin L) :
    (clist L)[(i : ℕ)]? = some (createMat L i) ∧ (alist L)[(i : ℕ)]? = some (createMat L i).transpose ∧
    (createMat L i).toM L = ladderM L i true ∧ (createMat L i).transpose.toM L = ladderM L i false ∧
    (clist L)[L]? = none ∧ (alist L)[L]? = none := by
  refine ⟨by simp [clist_getElem?], by simp [alist_getElem?], createMat_toM L i, ?_, by simp [clist_getElem?],
    by simp [alist_getElem?]⟩
  rw [IMat.transpose_toM L _ (createMat_n L i), createMat_toM, ladderM_conjTranspose]; rfl

/-- the definition: identity on the earlier sites, `U = [[0,0],[1,0]]` (or `Uᴴ`) on site `i`, `Z` on the later sites;
site 0 is the outermost Kronecker factor -/
theorem C10_ladder_def (L : ℕ) (i : Fin L) (create : Bool) :
    ladderM L i create = tens (fun k => if k < i then 1 else if k = i then (if create then siteUm else siteDm) else pauliZ) ∧
    (siteUm false false = 0 ∧ siteUm false true = 0 ∧ siteUm true false = 1 ∧ siteUm true true = 0) ∧
    siteDm = siteUmᴴ :=
  ⟨rfl, by simp [siteUm], siteUm_conjTranspose.symm⟩

theorem C10_ladder_adjoint (L : ℕ) (i : Fin L) (create : Bool) :
    (ladderM L i create)ᴴ = ladderM L i (!create) := ladderM_conjTranspose L i create

/-! ### canonical anticommutation relations, vacuum, number operators (∀ L, ∀ i j) -/

/-- `aᵢ aⱼ† + aⱼ† aᵢ = δᵢⱼ` -/
theorem C10_car_ac (L : ℕ) (i j : Fin L) :
    ladderM L i false * ladderM L j true + ladderM L j true * ladderM L i false = if i = j then 1 else 0 :=
  car_ac L i j

/-- `aᵢ aⱼ + aⱼ aᵢ = 0` -/
theorem C10_car_aa (L : ℕ) (i j : Fin L) :
    ladderM L i false * ladderM L j false + ladderM L j false * ladderM L i false = 0 := car_same_kind L i j false

/-- `aᵢ† aⱼ† + aⱼ† aᵢ† = 0` -/
theorem C10_car_cc (L : ℕ) (i j : Fin L) :
    ladderM L i true * ladderM L j true + ladderM L j true * ladderM L i true = 0 := car_same_kind L i j true

/-- Pauli exclusion: `aᵢ² = 0 = (aᵢ†)²` -/
theorem C10_ladder_sq (L : ℕ) (i : Fin L) (create : Bool) : ladderM L i create * ladderM L i create = 0 :=
  ladderM_sq L i create

/-- every annihilation operator annihilates the all-empty state `|0…0⟩` (flat index 0) -/
theorem C10_annihilates_vacuum (L : ℕ) (i : Fin L) :
    ladderM L i false *ᵥ Pi.single (fun _ => false) 1 = 0 ∧ natOfBits L (fun _ => false) = 0 := by
  constructor
  · ext r
    simp [ladderM_vacuum]
  · induction L with
    | zero => rfl
    | succ n ih =>
      have : Fin.tail (fun _ : Fin (n + 1) => false) = fun _ => false := rfl
      simp only [natOfBits, Bool.toNat_false, Nat.zero_mul, Nat.zero_add, this]
      cases n with
      | zero => rfl
      | succ m => exact ih 0

/-- `aᵢ† aᵢ` is diagonal in the computational basis; the entry at the basis state with flat index `b = natOfBits r`
is bit `L-1-i` of `b`, i.e. site 0 is the most significant bit -/
theorem C10_number_diagonal (L : ℕ) (i : Fin L) :
    ladderM L i true * ladderM L i false = Matrix.diagonal (fun r => if r i then (1 : ℂ) else 0) ∧
    ∀ r : Fin L → Bool, r i = (natOfBits L r).testBit (L - 1 - i) :=
  ⟨number_diagonal L i, fun r => (bitAt_natOfBits L r i).symm⟩

/-! ### the matrix of a term: coefficient-weighted sum over index tuples of ordered products -/

/-- the matrix of a term is `Σ_idx coeffs[idx] • (ladder(op₀, idx₀) · ladder(op₁, idx₁) ⋯)`, the sum running over the
list `multiIndices shape`, which contains every index tuple of the coefficient array exactly once -/
theorem C10_term_mat_def (L : ℕ) (t : Term) :
    t.mat L = ((multiIndices t.coeffs.shape).map fun idx => gqC (t.coeffs.get idx) •
      (List.zipWith (fun d j => ladderN L d.otype j) t.opdesc idx).prod).sum ∧
    (multiIndices t.coeffs.shape).Nodup ∧
    (∀ idx, idx ∈ multiIndices t.coeffs.shape ↔ List.Forall₂ (· < ·) idx t.coeffs.shape) ∧
    (∀ (j : ℕ) (h : j < L), ladderN L .fermiCreate j = ladderM L ⟨j, h⟩ true ∧
      ladderN L .fermiAnnihil j = ladderM L ⟨j, h⟩ false) :=
  ⟨rfl, nodup_multiIndices _, fun _ => mem_multiIndices, fun j h => by simp [ladderN, opKind, h]⟩

theorem C10_op_mat_def (L : ℕ) (op : FieldOp) : op.mat L = (op.terms.map (Term.mat L)).sum := rfl

/-- the same sum written over all index tuples `g : Fin n → Fin L`, for a term with `n` fermionic operators
(`kind a = true` for a creation operator) and an `L × … × L` coefficient array:
`mat = Σ_g coeffs[g] • (ladder(g 0, kind 0) · ladder(g 1, kind 1) ⋯ ladder(g (n-1), kind (n-1)))` -/
theorem C10_term_mat_sum (L n : ℕ) (ds : Fin n → IFODesc) (kind : Fin n → Bool)
    (hkind : ∀ a, opKind (ds a).otype = some (kind a)) (c : Tensor) (hs : c.shape = List.replicate n L) :
    (Term.mk (List.ofFn ds) c).mat L =
      ∑ g : Fin n → Fin L, gqC (c.get (List.ofFn fun a => (g a : ℕ))) •
        (List.ofFn fun a => ladderM L (g a) (kind a)).prod :=
  Term.mat_sum L n ds kind hkind c hs

/-- what the executable `as_matrix` returns *is* that sum: for an operator on exactly one fermionic field whose terms
carry fermionic operators, non-empty coefficient arrays and no non-zero coefficient outside the lattice, the loop of
lines 219-233 (C-order visit, zero coefficients skipped, left-to-right products, `op += coeff * fstring`) succeeds
and its result, read at flat indices with site 0 most significant, is `FieldOp.mat` -/
theorem C10_asMatrix_spec (op : FieldOp) (f : FieldD) (hf : op.fields = [f]) (hp : f.ptype = .fermion)
    (hg : ∀ t ∈ op.terms, t.Good f.nsites) :
    ∃ M, op.asMatrix = .ok M ∧ M.n = 2 ^ f.nsites ∧ M.m = 2 ^ f.nsites ∧
      ∀ r c, gqC (M.get (natOfBits _ r) (natOfBits _ c)) = op.mat f.nsites r c := by
  obtain ⟨M, e, m1, m2, m3⟩ := asMatrix_spec op f hf hp hg
  exact ⟨M, e, m1, m2, fun r c => congrFun (congrFun m3 r) c⟩

/-- the documented use – every axis of the coefficient array has length `L ≥ 1`, one axis per fermionic operator – is
processable -/
theorem C10_standard_good (L : ℕ) (hL : 0 < L) (t : Term) (hk : ∀ d ∈ t.opdesc, (opKind d.otype).isSome)
    (hs : ∀ d ∈ t.coeffs.shape, d = L) : t.Good L := by
  refine ⟨hk, ?_, ?_⟩
  · generalize t.coeffs.shape = s at hs
    induction s with
    | nil => simp [prodL]
    | cons d ds ih =>
      have h1 := hs d (List.mem_cons_self ..)
      have h2 := ih (fun e he => hs e (List.mem_cons_of_mem _ he))
      simp only [prodL]
      exact Nat.mul_ne_zero (by omega) h2
  · intro idx hin _ j hj
    obtain ⟨k, hk1, rfl⟩ := List.getElem_of_mem hj
    have hlen := hin.length_eq
    have := List.Forall₂.get hin hk1 (hlen ▸ hk1)
    simp only [List.get_eq_getElem] at this
    rw [hs _ (List.getElem_mem _)] at this
    exact this

/-- rejections: no field, several fields, or a non-fermionic field ⇒ `NotImplementedError` -/
theorem C10_asMatrix_refuses (op : FieldOp) :
    (op.fields = [] → op.asMatrix = .error .notImplementedError) ∧
    (∀ f g fs, op.fields = f :: g :: fs → op.asMatrix = .error .notImplementedError) ∧
    (∀ f, op.fields = [f] → f.ptype ≠ .fermion → op.asMatrix = .error .notImplementedError) := by
  refine ⟨fun h => by simp [FieldOp.asMatrix, h], fun f g fs h => by simp [FieldOp.asMatrix, h], fun f h hp => ?_⟩
  simp [FieldOp.asMatrix, h, hp]

/-- on one fermionic field, with terms as the constructors build them (`ndim = len(opdesc)`, fermionic operator types,
non-empty arrays): `as_matrix` returns a matrix iff no non-zero coefficient sits at an index tuple that leaves the
lattice, and raises `IndexError` otherwise (zero coefficients are skipped before any lookup) -/
theorem C10_asMatrix_ok_iff (op : FieldOp) (f : FieldD) (hf : op.fields = [f]) (hp : f.ptype = .fermion)
    (hpre : ∀ t ∈ op.terms, t.Pre) :
    ((∃ M, op.asMatrix = .ok M) ↔ ∀ t ∈ op.terms, ¬ t.OutOfRange f.nsites) ∧
    ((∃ t ∈ op.terms, t.OutOfRange f.nsites) → op.asMatrix = .error .indexError) := by
  refine ⟨⟨fun ⟨M, hM⟩ t ht hbad => ?_, fun h => ?_⟩, fun hbad => asMatrix_indexError op f hf hp hpre hbad⟩
  · rw [asMatrix_indexError op f hf hp hpre ⟨t, ht, hbad⟩] at hM; cases hM
  · obtain ⟨M, e, _⟩ := asMatrix_spec op f hf hp (fun t ht => Term.good_of_pre _ t (hpre t ht) (h t ht))
    exact ⟨M, e⟩

/-- a zero-sized coefficient array is refused with `ValueError` (`np.nditer`), once the terms before it were processed -/
theorem C10_asMatrix_valueError (op : FieldOp) (f : FieldD) (hf : op.fields = [f]) (hp : f.ptype = .fermion)
    (ts rest : List Term) (t : Term) (hts : op.terms = ts ++ t :: rest) (hg : ∀ u ∈ ts, u.Good f.nsites)
    (h0 : prodL t.coeffs.shape = 0) : op.asMatrix = .error .valueError :=
  asMatrix_valueError op f hf hp ts rest t hts hg h0

/-! ### adjoint, sum, product -/

/-- `IFODesc(field, otype)` accepts exactly the operator types of the field's particle type (anything on a qubit field),
rejects the rest with `ValueError`, and `adjoint()` of an accepted description is accepted again -/
theorem C10_ifo_make (f : FieldD) (o : IFOType) :
    (IFODesc.make f o = .ok ⟨f, o⟩ ∨ IFODesc.make f o = .error .valueError) ∧
    (IFODesc.make f o = .ok ⟨f, o⟩ ↔
      match f.ptype with
      | .boson => o = .bosonCreate ∨ o = .bosonAnnihil
      | .fermion => o = .fermiCreate ∨ o = .fermiAnnihil
      | .majorana => o = .majoranaRe ∨ o = .majoranaIm
      | .qubit => True) ∧
    (IFODesc.make f o = .ok ⟨f, o⟩ → IFODesc.make f o.adjoint = .ok (IFODesc.adjoint ⟨f, o⟩)) ∧
    o.adjoint.adjoint = o := by
  obtain ⟨id, pt, n⟩ := f
  cases pt <;> cases o <;> simp [IFODesc.make, IFODesc.adjoint, IFOType.adjoint]

/-- the constructor accepts exactly `ndim = len(opdesc)`; `adjoint` and `@` preserve it -/
theorem C10_make_iff (ds : List IFODesc) (c : Tensor) (t : Term) :
    Term.make ds c = .ok t ↔ c.ndim = ds.length ∧ t = ⟨ds, c⟩ := by
  unfold Term.make
  split
  · rename_i h; simp [h]
  · rename_i h; simp only [ne_eq, not_not] at h; simp [h, eq_comm]

theorem C10_wf_closed (a b : Term) (ha : a.WF) (hb : b.WF) : a.adjoint.WF ∧ (a.mul b).WF :=
  ⟨Term.adjoint_wf a ha, Term.mul_wf a b ha hb⟩

/-- `fields()`: no repetitions, contains exactly the fields of the operator descriptions; in particular it is `[f]`
iff some description exists and all of them live on `f` -/
theorem C10_fields_spec (op : FieldOp) :
    op.fields.Nodup ∧ (∀ g, g ∈ op.fields ↔ ∃ t ∈ op.terms, ∃ d ∈ t.opdesc, d.field = g) ∧
    (∀ f, op.fields = [f] ↔ (∃ t ∈ op.terms, t.opdesc ≠ []) ∧ ∀ t ∈ op.terms, ∀ d ∈ t.opdesc, d.field = f) :=
  ⟨FieldOp.fields_nodup op, FieldOp.mem_fields op, FieldOp.fields_eq_singleton_iff op⟩

/-- what `adjoint()` does to the data: operators reversed and flipped, the coefficient array has the reversed shape and
`adjoint.coeffs[idx] = conj(coeffs[reversed idx])` (that is `coeffs.conj().T`) -/
theorem C10_adjoint_data (t : Term) :
    t.adjoint.opdesc = t.opdesc.reverse.map IFODesc.adjoint ∧ t.adjoint.coeffs.shape = t.coeffs.shape.reverse ∧
    t.adjoint.coeffs.WF ∧
    ∀ idx, List.Forall₂ (· < ·) idx t.coeffs.shape.reverse → t.adjoint.coeffs.get idx = (t.coeffs.get idx.reverse).conj :=
  ⟨rfl, rfl, Tensor.conjT_wf _, fun _ h => Tensor.get_conjT t.coeffs h⟩

/-- what `@` does to the data: operators concatenated, shapes concatenated and
`(a @ b).coeffs[i1 ++ i2] = a.coeffs[i1] * b.coeffs[i2]` (the outer product, computed as `np.kron` of the flattened arrays) -/
theorem C10_mul_data (a b : Term) :
    (a.mul b).opdesc = a.opdesc ++ b.opdesc ∧ (a.mul b).coeffs.shape = a.coeffs.shape ++ b.coeffs.shape ∧
    (a.mul b).coeffs.WF ∧
    ∀ i1 i2, List.Forall₂ (· < ·) i1 a.coeffs.shape → List.Forall₂ (· < ·) i2 b.coeffs.shape →
      (a.mul b).coeffs.get (i1 ++ i2) = a.coeffs.get i1 * b.coeffs.get i2 :=
  ⟨rfl, rfl, Tensor.outer_wf _ _, fun _ _ h1 h2 => Tensor.get_outer a.coeffs b.coeffs h1 h2⟩

/-- `adjoint()` of a term (reversed, flipped operators; `coeffs.conj().T`) has the adjoint matrix -/
theorem C10_term_adjoint_mat (L : ℕ) (t : Term) (h : t.WF) : t.adjoint.mat L = (t.mat L)ᴴ := Term.adjoint_mat L t h

/-- `@` of two terms (concatenated operators, outer product of the coefficient arrays) has the product matrix -/
theorem C10_term_mul_mat (L : ℕ) (a b : Term) (ha : a.WF) : (a.mul b).mat L = a.mat L * b.mat L := Term.mul_mat L a b ha

/-- `(op.adjoint()).mat = op.matᴴ` -/
theorem C10_adjoint_mat (L : ℕ) (op : FieldOp) (h : ∀ t ∈ op.terms, t.WF) : op.adjoint.mat L = (op.mat L)ᴴ :=
  FieldOp.adjoint_mat L op h

/-- `(A + B).mat = A.mat + B.mat` -/
theorem C10_add_mat (L : ℕ) (a b : FieldOp) : (a.add b).mat L = a.mat L + b.mat L := FieldOp.add_mat L a b

/-- Python's `sum([A₀, A₁, …])` -/
theorem C10_sum_mat (L : ℕ) (a : FieldOp) (as : List FieldOp) :
    ∃ s, FieldOp.sumOps (a :: as) = some s ∧ s.mat L = ((a :: as).map (FieldOp.mat L)).sum :=
  ⟨_, rfl, by simp [FieldOp.sumOps_mat]⟩

/-- `(A @ B).mat = A.mat * B.mat` (all pairwise products of terms) -/
theorem C10_mul_mat (L : ℕ) (a b : FieldOp) (h : ∀ t ∈ a.terms, t.WF) : (a.mul b).mat L = a.mat L * b.mat L :=
  FieldOp.mul_mat L a b h

/-! ### the same laws for what the executable `as_matrix` returns -/

/-- `op.Good f`: exactly one field `f`, fermionic, every term built by the constructor and processable.
It is preserved by `adjoint`, `+` and `@`, so `as_matrix` succeeds on every expression built from such operators -/
theorem C10_good_closed (f : FieldD) (a b : FieldOp) (ha : a.Good f) (hb : b.Good f) :
    a.adjoint.Good f ∧ (a.add b).Good f ∧ (b.terms ≠ [] → (a.mul b).Good f) :=
  ⟨FieldOp.adjoint_good f a ha, FieldOp.add_good f a b ha hb, FieldOp.mul_good f a b ha hb⟩

/-- `as_matrix()` succeeds on a good operator, returns a `2^L × 2^L` array, and its value (`execM`, the returned array
read at flat indices with site 0 most significant) is `FieldOp.mat` -/
theorem C10_exec_mat (f : FieldD) (op : FieldOp) (h : op.Good f) :
    (∃ M, op.asMatrix = .ok M ∧ M.n = 2 ^ f.nsites ∧ M.m = 2 ^ f.nsites) ∧ op.execM f.nsites = op.mat f.nsites :=
  FieldOp.execM_eq f op h

/-- `op.adjoint().as_matrix()` succeeds and equals `op.as_matrix()ᴴ` -/
theorem C10_exec_adjoint (f : FieldD) (op : FieldOp) (h : op.Good f) :
    (∃ M, op.adjoint.asMatrix = .ok M) ∧ op.adjoint.execM f.nsites = (op.execM f.nsites)ᴴ := by
  have g := FieldOp.adjoint_good f op h
  obtain ⟨⟨M, e, _⟩, hm⟩ := FieldOp.execM_eq f _ g
  exact ⟨⟨M, e⟩, by rw [hm, (FieldOp.execM_eq f op h).2, FieldOp.adjoint_mat _ op h.wf]⟩

/-- `(A + B).as_matrix()` succeeds and equals `A.as_matrix() + B.as_matrix()` -/
theorem C10_exec_add (f : FieldD) (a b : FieldOp) (ha : a.Good f) (hb : b.Good f) :
    (∃ M, (a.add b).asMatrix = .ok M) ∧ (a.add b).execM f.nsites = a.execM f.nsites + b.execM f.nsites := by
  have g := FieldOp.add_good f a b ha hb
  obtain ⟨⟨M, e, _⟩, hm⟩ := FieldOp.execM_eq f _ g
  exact ⟨⟨M, e⟩, by rw [hm, (FieldOp.execM_eq f a ha).2, (FieldOp.execM_eq f b hb).2, FieldOp.add_mat]⟩

/-- `(A @ B).as_matrix()` succeeds and equals `A.as_matrix() @ B.as_matrix()` -/
theorem C10_exec_mul (f : FieldD) (a b : FieldOp) (ha : a.Good f) (hb : b.Good f) (hbne : b.terms ≠ []) :
    (∃ M, (a.mul b).asMatrix = .ok M) ∧ (a.mul b).execM f.nsites = a.execM f.nsites * b.execM f.nsites := by
  have g := FieldOp.mul_good f a b ha hb hbne
  obtain ⟨⟨M, e, _⟩, hm⟩ := FieldOp.execM_eq f _ g
  exact ⟨⟨M, e⟩, by rw [hm, (FieldOp.execM_eq f a ha).2, (FieldOp.execM_eq f b hb).2, FieldOp.mul_mat _ a b ha.wf]⟩

/-- the elementary operators `a_i`, `a†_i` as field operators (one term, one operator, coefficient vector `e_i`):
`as_matrix()` returns the reference ladder matrix -/
theorem C10_exec_ladder (f : FieldD) (hp : f.ptype = .fermion) (i : Fin f.nsites) (create : Bool) :
    (ladderOp f i create).Good f ∧ (ladderOp f i create).execM f.nsites = ladderM f.nsites i create := by
  have g := ladderOp_good f hp i create
  exact ⟨g, by rw [(FieldOp.execM_eq f _ g).2, ladderOp_mat]⟩

/-- CAR end to end: the executable `as_matrix()` of the field operator `a_i @ a†_j + a†_j @ a_i`, built with the model's
`@` and `+`, succeeds and returns `δᵢⱼ · 1`; likewise `a_i @ a_j + a_j @ a_i` and `a†_i @ a†_j + a†_j @ a†_i` return 0 -/
theorem C10_exec_car (f : FieldD) (hp : f.ptype = .fermion) (i j : Fin f.nsites) (ki kj : Bool) :
    let A := ladderOp f i ki
    let B := ladderOp f j kj
    ((A.mul B).add (B.mul A)).Good f ∧
    ((A.mul B).add (B.mul A)).execM f.nsites =
      if ki = kj then 0 else if i = j then 1 else 0 := by
  intro A B
  have gA : A.Good f := ladderOp_good f hp i ki
  have gB : B.Good f := ladderOp_good f hp j kj
  have hA : A.terms ≠ [] := by simp [A, ladderOp]
  have hB : B.terms ≠ [] := by simp [B, ladderOp]
  have gAB := FieldOp.mul_good f A B gA gB hB
  have gBA := FieldOp.mul_good f B A gB gA hA
  have g := FieldOp.add_good f _ _ gAB gBA
  refine ⟨g, ?_⟩
  rw [(FieldOp.execM_eq f _ g).2, FieldOp.add_mat, FieldOp.mul_mat _ A B gA.wf, FieldOp.mul_mat _ B A gB.wf,
    ladderOp_mat, ladderOp_mat]
  by_cases hk : ki = kj
  · subst hk; rw [if_pos rfl]; exact car_same_kind _ i j ki
  · rw [if_neg hk]
    cases ki <;> cases kj
    · exact absurd rfl hk
    · exact car_ac _ i j
    · rw [add_comm, car_ac _ j i]; simp only [eq_comm]
    · exact absurd rfl hk

/-! ### the Hermiticity flag -/

/-- a term flagged Hermitian has a Hermitian matrix -/
theorem C10_hermitianFlag_sound (L : ℕ) (t : Term) (hwf : t.WF) (h : t.isHermitian = true) : (t.mat L)ᴴ = t.mat L :=
  Term.isHermitian_sound L t hwf h

/-- `FieldOperator.is_hermitian()` returns `True` only if every term is flagged, and then the matrix is Hermitian;
otherwise it raises `NotImplementedError` (never `False`) -/
theorem C10_op_hermitianFlag_sound (L : ℕ) (op : FieldOp) (hwf : ∀ t ∈ op.terms, t.WF) :
    (op.isHermitian = .ok true → (op.mat L)ᴴ = op.mat L) ∧
    (op.isHermitian = .ok true ∨ op.isHermitian = .error .notImplementedError) := by
  unfold FieldOp.isHermitian
  split
  · rename_i h
    refine ⟨fun _ => ?_, Or.inl rfl⟩
    simp only [List.all_eq_true] at h
    simp only [FieldOp.mat, Matrix.conjTranspose_list_sum, List.map_map]
    congr 1
    apply List.map_congr_left
    intro t ht
    exact Term.isHermitian_sound L t (hwf t ht) (h t ht)
  · exact ⟨fun h => (by cases h), Or.inr rfl⟩

/-- the flag as the code computes it, with the tolerances of `np.allclose` (`|a - b| ≤ atol + rtol |b|`, decided exactly
on the rationals by `Term.closeTol`): the executable test implies the real inequality, and with zero tolerances the
flag is the exact one of `C10_hermitianFlag_sound` -/
theorem C10_hermitianFlag_allclose (atol rtol : ℚ) (ha : 0 ≤ atol) (hr : 0 ≤ rtol) :
    (∀ a b : Qib.GQ, Term.closeTol atol rtol a b = true → ‖gqC a - gqC b‖ ≤ (atol : ℝ) + (rtol : ℝ) * ‖gqC b‖) ∧
    (∀ t : Term, t.isHermitianTol 0 0 = t.isHermitian) :=
  ⟨closeTol_sound atol rtol ha hr, Term.isHermitianTol_zero⟩

/-- a term flagged Hermitian under tolerances `(atol, rtol)` is Hermitian up to the allowance the tolerances give:
every entry of `M - Mᴴ` is bounded by `Σ_idx (atol + rtol |coeffs[reversed idx]|)` (each ladder string has entries of
modulus ≤ 1) -/
theorem C10_hermitianFlag_tol (L : ℕ) (t : Term) (hwf : t.WF) (atol rtol : ℚ) (ha : 0 ≤ atol) (hr : 0 ≤ rtol)
    (h : t.isHermitianTol atol rtol = true) (r c : Fin L → Bool) :
    ‖(t.mat L - (t.mat L)ᴴ) r c‖ ≤
      ((multiIndices t.coeffs.shape).map fun idx => (atol : ℝ) + (rtol : ℝ) * ‖gqC (t.coeffs.get idx.reverse)‖).sum :=
  Term.isHermitianTol_bound L t hwf atol rtol ha hr h r c

/-- the same for `FieldOperator.is_hermitian()` -/
theorem C10_op_hermitianFlag_tol (L : ℕ) (op : FieldOp) (hwf : ∀ t ∈ op.terms, t.WF) (atol rtol : ℚ)
    (ha : 0 ≤ atol) (hr : 0 ≤ rtol) (h : op.isHermitianTol atol rtol = .ok true) (r c : Fin L → Bool) :
    ‖(op.mat L - (op.mat L)ᴴ) r c‖ ≤ (op.terms.map (Term.tolAllowance atol rtol)).sum :=
  FieldOp.isHermitianTol_bound L op hwf atol rtol ha hr h r c

/-- every entry of an ordered product of ladder matrices has modulus at most 1 -/
theorem C10_string_entry_le (L : ℕ) (ds : List IFODesc) (js : List ℕ) (r c : Fin L → Bool) :
    ‖stringM L ds js r c‖ ≤ 1 := stringM_entry_le L ds js r c

/-! ### non-vacuity (tests, not proofs of the property) -/

def exField : FieldD := ⟨0, .fermion, 2⟩
/-- `Σ_{jk} h_{jk} a†_j a_k` with `h = [[1, 2+i], [2-i, 3]]` on two sites -/
def exTerm : Term :=
  ⟨[⟨exField, .fermiCreate⟩, ⟨exField, .fermiAnnihil⟩], ⟨[2, 2], #[⟨1, 0⟩, ⟨2, 1⟩, ⟨2, -1⟩, ⟨3, 0⟩]⟩⟩
/-- `a†_0 (a_0 + a_1)`: a `1 × 2` coefficient array of ones -/
def exRect : Term :=
  ⟨[⟨exField, .fermiCreate⟩, ⟨exField, .fermiAnnihil⟩], ⟨[1, 2], #[⟨1, 0⟩, ⟨1, 0⟩]⟩⟩

example : exTerm.WF ∧ exTerm.isHermitian = true ∧ exTerm.adjoint = exTerm := by unfold Term.WF; decide
example : exTerm.Good 2 := C10_standard_good 2 (by decide) exTerm (by decide) (by decide)
example : (FieldOp.mk [exTerm]).fields = [exField] ∧ exField.ptype = .fermion := by decide
/-- the rectangular array that NumPy's broadcasting used to accept is not flagged (see the `fix:` commit) -/
example : exRect.WF ∧ exRect.isHermitian = false := by unfold Term.WF; decide
example : (FieldOp.mk [exTerm]).isHermitian = .ok true ∧
    (FieldOp.mk [exTerm, exRect]).isHermitian = .error .notImplementedError := by decide
/-- a coefficient off by 2⁻³⁰ is still flagged under NumPy's default tolerances, not under zero tolerances -/
def exNear : Term :=
  ⟨[⟨exField, .fermiCreate⟩, ⟨exField, .fermiAnnihil⟩], ⟨[2, 2], #[⟨1, 0⟩, ⟨2 + 1 / 2 ^ 30, 1⟩, ⟨2, -1⟩, ⟨3, 0⟩]⟩⟩
example : exNear.isHermitianTol (1 / 10 ^ 8) (1 / 10 ^ 5) = true ∧ exNear.isHermitian = false := by decide +kernel
/-- `op.Good`, `Term.Pre` and "out of range" are inhabited -/
example : (ladderOp exField 1 true).Good exField := (C10_exec_ladder exField rfl ⟨1, by decide⟩ true).1
example : exTerm.Pre := ⟨rfl, by decide, by decide⟩
example : exTerm.OutOfRange 1 := ⟨[0, 1], by decide, by decide, 1, by decide, le_refl 1⟩
example : Term.make exTerm.opdesc ⟨[2], #[0, 0]⟩ = .error .valueError := by decide
example : (FieldOp.mk []).asMatrix = .error .notImplementedError := rfl
/-- `clist[0]` on two sites is `kron(U, Z)`: rows `[0,0,0,0], [0,0,0,0], [1,0,0,0], [0,-1,0,0]` -/
example : (createMat 2 0).data = #[0, 0, 0, 0, 0, 0, 0, 0, 1, 0, 0, 0, 0, -1, 0, 0] := by decide

end Qib.Fermi
