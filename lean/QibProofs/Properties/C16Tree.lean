import QibProofs.Lemmas.GateTree
/-!
C16 (deepening) — soundness of `is_hermitian()` of composite gates, proved about the definitions `drv_gate` executes.

`Properties/C16.lean` proves the soundness of each delegation rule over abstract matrices. Here the statement is about
`Qib.Gate.Tree.herm` of `QibModel/Gate.lean`, which evaluates the delegation functions GENERATED from the Python source
(`QibGen/GateFlags.lean`: `ControlledGate.hermitianFlag`, `MultiplexedGate.hermitianFlag`, …, used as they are), against
`Tree.mat`: for EVERY tree with a well-formed payload (`Tree.WF`: in particular a `True` leaf flag means a Hermitian leaf
matrix, which `C16.lean` proves for the closed-form leaves), a `True` answer implies that the assembled array is
Hermitian. If the source changes a delegation rule to an unsound one, the regenerated definitions make the induction in
`Lemmas/GateTree.lean` fail. Property statements only.
-/
open Matrix Qib Qib.Mat Qib.Gate

namespace Qib.C16Tree

/-- **C16 (flag soundness, executed model)**: if the model's `is_hermitian` answer is `True`, the driver's adjoint of
the assembled array is the array itself. -/
theorem C16_tree_flag_sound (t : Tree) (h : t.WF) (hf : t.herm = true) : t.mat.adjoint = t.mat :=
  t.herm_sound_exec h hf

/-- the same over `ℂ` -/
theorem C16_tree_flag_sound_complex (t : Tree) (h : t.WF) (hf : t.herm = true) :
    (t.mat.toM (2 ^ t.wires) (2 ^ t.wires))ᴴ = t.mat.toM (2 ^ t.wires) (2 ^ t.wires) :=
  t.herm_sound h hf

/-- entry by entry, over the Gaussian rationals -/
theorem C16_tree_flag_sound_entries (t : Tree) (h : t.WF) (hf : t.herm = true) (i j : ℕ)
    (hi : i < 2 ^ t.wires) (hj : j < 2 ^ t.wires) : (t.mat.get j i).conj = t.mat.get i j := by
  have h1 := t.mat_isSq h
  have := congrArg (fun M => Mat.get M i j) (t.herm_sound_exec h hf)
  rwa [Mat.get_adjoint _ (by rw [h1.m_eq]; exact hi) (by rw [h1.n_eq]; exact hj)] at this

/-- the answer of the inverse gate is sound as well (`inverse()` keeps leaf flags, see `Tree.inverse`) -/
theorem C16_tree_inverse_flag_sound (t : Tree) (h : t.WF) (hf : t.inverse.herm = true) :
    t.inverse.mat.adjoint = t.inverse.mat :=
  t.inverse.herm_sound_exec (t.inverse_wf h) hf

/-- `GeneralGate.is_hermitian` on the executed model is the exact test "adjoint array = array": sound and complete
(no hypothesis on the payload) -/
theorem C16_tree_general_flag_iff (w : ℕ) (m : Mat) : (Tree.general w m).herm = true ↔ m.adjoint = m := by
  rw [herm_general, ← Mat.beq_iff]
  simp [QibGen.GeneralGate.hermitianFlag]

/-! ### non-vacuity -/

/-- a nested composite whose answer is `True`: `ControlledGate(MultiplexedGate([X, GeneralGate(Z)], 1), 2, [0, 1])` -/
example : Example.tree4.WF ∧ Example.tree4.herm = true :=
  ⟨Example.tree4_wf, by
    simp only [Example.tree4, Example.leafX, herm_controlled, herm_multiplexed, List.map_cons, List.map_nil, herm_leaf, herm_general]
    decide⟩
/-- a block encoding with method `R` below a multiplexer next to a non-Hermitian answer: the composite says `False` -/
example : Example.tree2.herm = false := by
  simp only [Example.tree2, herm_controlled, herm_multiplexed, List.map_cons, List.map_nil, herm_prepare, herm_block]
  decide

end Qib.C16Tree
