import QibProofs.Lemmas.CompactSpecOps
import QibProofs.Lemmas.CompactSpecEig
import QibProofs.Lemmas.CompactSpecPlaq
import QibProofs.Lemmas.CompactSpecStab5
import QibProofs.Properties.C11
import QibProofs.Properties.C13
/-!
C13, last sentence — *"Restricted to the joint +1 eigenspace of the loop products, the encoded operator has exactly the spectrum
of the fermionic operator, every level repeated the same number of times."*

`Properties/C13.lean` proves everything before that sentence for every shape.  This file proves the sentence itself **for single
rows and single columns of every length** (shapes `1 × n` and `n × 1`, which the property's quantifier names explicitly).  Such a
lattice has no faces, hence no auxiliary qubits and no loop products (`C13_chain_no_faces`): the joint +1 eigenspace is the whole
`2^n`-dimensional register, and "the spectrum of the fermionic operator, every level the same number of times" holds with the
number 1, in the strongest possible form — an explicit unitary equivalence
`matrix(compact_encode(op)) = W · matrix(op) · Wᴴ`
between the matrix of the encoded Pauli operator (`PauliOperator.as_matrix`, C09 denotation) and the field operator's own matrix
in the Jordan-Wigner representation of `FieldOperator.as_matrix` (`refMat` of C11: `Σ c_ij a†_i a_j` with the reference ladder
matrices `1 ⊗ … ⊗ U ⊗ Z ⊗ … ⊗ Z`).  `W` is the matrix of the Pauli string `chainW`: `Z₁ Z₃ Z₅ …` (a `Z` on every odd site) for a
row, the identity for a column.  (The strings: `V_i = Z_i`; `E_{i,i+1} = − Y_i X_{i+1}` in a row, `+ Y_i X_{i+1}` in a column; the
hopping term of the encoder `(i/2)(E V_{i+1} − E V_i)` is `∓ ½ (X_i X_{i+1} + Y_i Y_{i+1})`, the Jordan-Wigner hopping
`a†_i a_{i+1} + a†_{i+1} a_i` is `+ ½ (X_i X_{i+1} + Y_i Y_{i+1})`, and conjugation by `W` flips exactly that sign.)

Admissible input = what `compact_encode_field_operator` accepts (`encode inp = .ok …`: one fermionic field, open integer lattice,
creation–annihilation terms with real coefficients passing `np.allclose(c, c.T)`, non-zero hopping only between neighbours) with a
coefficient matrix that is *exactly* symmetric (`SymmC`), as the property says ("real symmetric").  For a matrix that is symmetric
only up to `np.allclose`'s tolerance the encoder reads the diagonal and the upper triangle: `C13_row_unitary_equiv_upper` /
`C13_col_unitary_equiv_upper` state the same equivalence, without any symmetry hypothesis, for the operator symmetrised from the
upper triangle (`upperTerms`).

Corollaries (`C13_chain_spectrum`): equal characteristic polynomials (all eigenvalues with their algebraic multiplicities), both
matrices Hermitian with the *same list of eigenvalues in decreasing order* (`Matrix.IsHermitian.eigenvalues₀`, from Mathlib's
spectral theorem; this is literally what the harness oracle compares numerically), `μ` is an eigenvalue of one iff of the other, equal
dimensions of the eigenspaces (geometric multiplicities), and eigenvectors are mapped to eigenvectors by `W`.

Not proved here (still cited from Derby–Klassen, Phys. Rev. B 104, 035118): the sentence for lattices with at least one face
(`n0, n1 ≥ 2`) other than the 2 × 2 plaquette.  Partial results (`C13_…_partial`): the 2 × 2 plaquette with an explicit Clifford unitary
(every level exactly twice), and for every shape the dimension of the code space (`2^{n0 n1}` times 2 if both extents are even) together
with the fact that the fermion parity is traceless on it (both parity sectors occur, with equal dimension) — the two facts that fix
"the same number of times".  The harness checks the general statement numerically.
-/
open Complex Matrix
namespace Qib.Compact
open Qib.Pauli Qib.Lattice Qib.Spec

/-! ### the fermionic operator and its matrix -/

/-- the field operator the encoder is given, as data of the C11 model: one fermionic field on `n0·n1` sites; per term the
descriptions `(FERMI_CREATE, FERMI_ANNIHIL)`, shape `(L, L)`, and all `L²` entries `([i, j], c_ij)` in `nditer` order.  Its
matrix in the representation of `FieldOperator.as_matrix` is `Σ_terms Σ_{ij} c_ij · a†_i a_j` -/
theorem C13_fermiOp_def (n0 n1 L : ℕ) (terms : List Term) (hL : n0 * n1 = L) :
    (fermiOp n0 n1 terms).fields = [⟨true, n0 * n1⟩] ∧
    (fermiOp n0 n1 terms).terms = terms.map (fun t => fermiTerm (n0 * n1) t.coeffs) ∧
    (∀ c, fermiTerm L c = ⟨[⟨0, .create⟩, ⟨0, .annihil⟩], [L, L], hopEntries L c⟩) ∧
    (∀ c, hopEntries L c = (List.range L).flatMap fun i => (List.range L).map fun j => ([i, j], realW (cget c i j))) ∧
    (fermiOp n0 n1 terms).WF ∧
    Encode.refMat GQ.toC L (fermiOp n0 n1 terms) =
      (terms.map fun t => ∑ i ∈ Finset.range L, ∑ j ∈ Finset.range L,
        ((cget t.coeffs i j : ℚ) : ℂ) • (Encode.ladder L i true * Encode.ladder L j false)).sum :=
  ⟨rfl, rfl, fun _ => rfl, fun _ => rfl, fermiOp_wf n0 n1 terms, refMat_fermiOp L n0 n1 terms hL⟩

/-- tie to C11: whatever the Jordan-Wigner encoder (model of `jordan_wigner_encode_field_operator`) returns for `fermiOp` has
exactly this matrix — so `refMat (fermiOp …)` is the matrix of the operator the two encoders are both given -/
theorem C13_fermiOp_jw (n0 n1 L : ℕ) (terms : List Term) (hL : n0 * n1 = L) (jw : PauliOp GQ)
    (h : Encode.encode .jw (fun w => w.absLe 0) (fermiOp n0 n1 terms) = .ok jw) :
    PauliOp.mat GQ.toC L jw = Encode.refMat GQ.toC L (fermiOp n0 n1 terms) := by
  obtain ⟨L', hL', hm⟩ := Encode.C11_encode_mat_GQ (fermiOp n0 n1 terms) jw h (fermiOp_wf n0 n1 terms)
  have := fermiOp_fieldCheck n0 n1 L' terms hL'
  subst hL; subst this
  exact hm

/-! ### the strings of a chain -/

/-- a single row or column has no faces: no auxiliary qubit, no loop product, register of exactly `n` qubits -/
theorem C13_chain_no_faces (n x y : ℕ) :
    ¬ FaceIn 1 n x y ∧ ¬ FaceIn n 1 x y ∧ ofcNsites 1 n = n ∧ ofcNsites n 1 = n ∧
    (∀ i, auxFace 1 n true 0 i = none) ∧ (∀ i, auxFace n 1 false i 0 = none) :=
  ⟨fun h => by unfold FaceIn at h; omega, fun h => by unfold FaceIn at h; omega, ofcNsites_row n, ofcNsites_col n,
    auxFace_row n, auxFace_col n⟩

/-- the strings the encoder uses on a chain, as matrices on the `n`-qubit register: the vertex operator of site `i` is `Z_i`
(this holds for every shape), the edge operator of `(i, i+1)` is `− Y_i X_{i+1}` in a row and `Y_i X_{i+1}` in a column -/
theorem C13_chain_strings (n i : ℕ) :
    (∀ n0 n1 N, N = ofcNsites n0 n1 → i < n0 * n1 → (vertexStr n0 n1 (i / n1) (i % n1)).mat N = zSite N i) ∧
    (i + 1 < n → (edgeStr 1 n 0 i 0 (i + 1)).mat n = (-1 : ℂ) • tens2 n i (i + 1) pauliY pauliX) ∧
    (i + 1 < n → (edgeStr n 1 i 0 (i + 1) 0).mat n = tens2 n i (i + 1) pauliY pauliX) ∧
    (∀ j A B, tens2 n i j A B = tens (fun k : Fin n => if k.val = i then A else if k.val = j then B else 1)) ∧
    zSite n i = tens (fun k : Fin n => if k.val = i then pauliZ else 1) :=
  ⟨fun n0 n1 N hN hi => vertexStr_mat n0 n1 N i hN hi, edgeStr_row_mat n i, edgeStr_col_mat n i, fun _ _ _ => rfl, rfl⟩

/-- the two hopping operators: Jordan-Wigner `a†_i a_{i+1} + a†_{i+1} a_i = ½ (X_i X_{i+1} + Y_i Y_{i+1})`, compact
`(i/2)(E V_{i+1} − E V_i) = s · ½ (X_i X_{i+1} + Y_i Y_{i+1})` for `E = s · Y_i X_{i+1}`; number operator `a†_i a_i = ½ (1 − Z_i)` -/
theorem C13_chain_hopping (n i : ℕ) (hi : i + 1 < n) :
    Encode.ladder n i true * Encode.ladder n (i + 1) false + Encode.ladder n (i + 1) true * Encode.ladder n i false = hopT n i (i + 1) ∧
    (∀ (s : ℂ) (E : Matrix (Fin n → Bool) (Fin n → Bool) ℂ), E = s • tens2 n i (i + 1) pauliY pauliX →
      (I / 2) • (E * zSite n (i + 1) - E * zSite n i) = s • hopT n i (i + 1)) ∧
    hopT n i (i + 1) = (1 / 2 : ℂ) • (tens2 n i (i + 1) pauliX pauliX + tens2 n i (i + 1) pauliY pauliY) ∧
    Encode.ladder n i true * Encode.ladder n i false = (1 / 2 : ℂ) • (1 - zSite n i) :=
  ⟨ladder_hop n i hi, fun s E hE => hop_of_edge n i hi s E hE, rfl, ladder_number' n i (by omega)⟩

/-! ### the unitary `W` -/

/-- `W = Z₁ Z₃ …` is a Hermitian unitary involution; as a matrix it is the tensor product of `Z` on the odd and `1` on the even
sites; conjugation by it fixes every `Z_i` and flips the sign of the hopping operator of neighbouring sites -/
theorem C13_chainW (n : ℕ) :
    (wString n).HasLen n ∧ (wString n).q = 0 ∧ (wString n).isHermitian = true ∧
    (∀ k, k < n → (wString n).zf k = decide (k % 2 = 1) ∧ (wString n).xf k = false) ∧
    (wString n).mat n = tens (fun k : Fin n => if k.val % 2 = 1 then pauliZ else 1) ∧
    ((wString n).mat n)ᴴ = (wString n).mat n ∧ (wString n).mat n * (wString n).mat n = 1 ∧
    (∀ i, i < n → (wString n).mat n * zSite n i * (wString n).mat n = zSite n i) ∧
    (∀ i, i + 1 < n → (wString n).mat n * hopT n i (i + 1) * (wString n).mat n = (-1 : ℂ) • hopT n i (i + 1)) := by
  have hh : (wString n).isHermitian = true := rfl
  refine ⟨wString_hasLen n, rfl, hh, ?_, wString_mat n, (hermitian_iff n _).mp hh, Encode.mat_sq_of_q0 n _ rfl, ?_, ?_⟩
  · intro k hk
    constructor
    · simp [PS.zf, wString, oddMask, List.getD_eq_getElem?_getD, List.getElem?_map, List.getElem?_range hk, beq_eq_decide]
    · exact getD_replicate_false n k
  · intro i hi; rw [wString_mat]; exact conj_zSite n i dOdd dOdd_sq (dOdd_Z i)
  · intro i hi; rw [wString_mat]; exact conjW_hopT n i hi

/-! ### the unitary equivalence -/

/-- **single row `1 × n`, every `n`**: the encoder returns a register of `n` qubits and
`matrix(compact(op)) = W · matrix(op) · W` with `W = Z₁ Z₃ …` (`W = Wᴴ = W⁻¹`) -/
theorem C13_row_unitary_equiv (inp : Input) (op : PauliOp GQ) (m n : ℕ) (hshape : inp.shape = [1, n])
    (hs : encode inp = .ok (op, m)) (hsym : ∀ t ∈ inp.terms, SymmC n t.coeffs) :
    m = n ∧ PauliOp.mat GQ.toC n op =
      (wString n).mat n * Encode.refMat GQ.toC n (fermiOp 1 n inp.terms) * ((wString n).mat n)ᴴ := by
  rw [(C13_chainW n).2.2.2.2.2.1]
  exact row_equiv inp op m n hshape hs hsym

/-- **single column `n × 1`, every `n`**: the two matrices are equal (`W = 1`) -/
theorem C13_col_unitary_equiv (inp : Input) (op : PauliOp GQ) (m n : ℕ) (hshape : inp.shape = [n, 1])
    (hs : encode inp = .ok (op, m)) (hsym : ∀ t ∈ inp.terms, SymmC n t.coeffs) :
    m = n ∧ PauliOp.mat GQ.toC n op = Encode.refMat GQ.toC n (fermiOp n 1 inp.terms) :=
  col_equiv inp op m n hshape hs hsym

/-- the same without any symmetry hypothesis: the encoder reads the diagonal and the upper triangle of the coefficient matrix
(which only has to pass `np.allclose(c, c.T)`), i.e. it encodes the operator symmetrised from the upper triangle -/
theorem C13_row_unitary_equiv_upper (inp : Input) (op : PauliOp GQ) (m n : ℕ) (hshape : inp.shape = [1, n])
    (hs : encode inp = .ok (op, m)) :
    m = n ∧ PauliOp.mat GQ.toC n op =
      (wString n).mat n * Encode.refMat GQ.toC n (fermiOp 1 n (upperTerms n inp.terms)) * ((wString n).mat n)ᴴ ∧
    (∀ t ∈ upperTerms n inp.terms, SymmC n t.coeffs) ∧
    (∀ c i j, i < n → j < n → cget (upperSym n c) i j = cget c (min i j) (max i j)) ∧
    ((∀ t ∈ inp.terms, SymmC n t.coeffs) →
      Encode.refMat GQ.toC n (fermiOp 1 n (upperTerms n inp.terms)) = Encode.refMat GQ.toC n (fermiOp 1 n inp.terms)) := by
  rw [(C13_chainW n).2.2.2.2.2.1]
  obtain ⟨h1, h2⟩ := row_equiv_upper inp op m n hshape hs
  refine ⟨h1, h2, ?_, fun c i j hi hj => cget_upperSym n c i j hi hj,
    fun hsym => refMat_upperTerms n 1 n inp.terms (Nat.one_mul n) hsym⟩
  intro t ht
  simp only [upperTerms, List.mem_map] at ht
  obtain ⟨t0, _, rfl⟩ := ht
  exact upperSym_symm n t0.coeffs

theorem C13_col_unitary_equiv_upper (inp : Input) (op : PauliOp GQ) (m n : ℕ) (hshape : inp.shape = [n, 1])
    (hs : encode inp = .ok (op, m)) :
    m = n ∧ PauliOp.mat GQ.toC n op = Encode.refMat GQ.toC n (fermiOp n 1 (upperTerms n inp.terms)) :=
  col_equiv_upper inp op m n hshape hs


/-- **both cases at once**, as a unitary equivalence (`UEquiv A B W`: `Wᴴ W = 1`, `W Wᴴ = 1`, `A = W B Wᴴ`): for a lattice
`n0 × n1` with `n0 = 1` or `n1 = 1` and `n = n0·n1` sites, `A` = matrix of the compact-encoded operator, `B` = the field operator's
own matrix, `W` = matrix of the Pauli string `chainW n0 n1` (`Z₁ Z₃ …` for a row, identity for a column) -/
theorem C13_chain_unitary_equiv (inp : Input) (op : PauliOp GQ) (m n0 n1 n : ℕ) (hshape : inp.shape = [n0, n1])
    (hchain : n0 = 1 ∨ n1 = 1) (hn : n0 * n1 = n) (hs : encode inp = .ok (op, m)) (hsym : ∀ t ∈ inp.terms, SymmC n t.coeffs) :
    m = n ∧ UEquiv (PauliOp.mat GQ.toC n op) (Encode.refMat GQ.toC n (fermiOp n0 n1 inp.terms)) ((chainW n0 n1).mat n) := by
  have hW := C13_chainW n
  have rowcase : ∀ (hshape : inp.shape = [1, n]), m = n ∧
      UEquiv (PauliOp.mat GQ.toC n op) (Encode.refMat GQ.toC n (fermiOp 1 n inp.terms)) ((wString n).mat n) := by
    intro hshape
    obtain ⟨h1, h2⟩ := C13_row_unitary_equiv inp op m n hshape hs hsym
    exact ⟨h1, ⟨mat_conjTranspose_mul_self n _, by rw [hW.2.2.2.2.2.1]; exact hW.2.2.2.2.2.2.1, h2⟩⟩
  rcases hchain with rfl | rfl
  · have : n1 = n := by omega
    subst this
    simp only [chainW, if_true, Nat.one_mul]
    exact rowcase hshape
  · have : n0 = n := by omega
    subst this
    by_cases h1 : n0 = 1
    · subst h1
      simp only [chainW, if_true, Nat.one_mul]
      exact rowcase hshape
    · obtain ⟨e1, e2⟩ := C13_col_unitary_equiv inp op m n0 hshape hs hsym
      simp only [chainW, if_neg h1, Nat.mul_one, identity_mat]
      exact ⟨e1, ⟨by simp, by simp, by simp [e2]⟩⟩

/-- **the spectral statement for chains** (multiplicity exactly 1): with `A` the matrix of the compact-encoded operator and `B`
the matrix of the fermionic operator,
* `A` and `B` have the same characteristic polynomial (same eigenvalues, same algebraic multiplicities);
* both are Hermitian and their eigenvalues in decreasing order, repeated by multiplicity, are the same list;
* `μ` is an eigenvalue of `A` iff of `B`, and the eigenspaces have the same dimension;
* `W` maps eigenvectors of `B` to eigenvectors of `A` for the same eigenvalue, and kills no vector. -/
theorem C13_chain_spectrum (inp : Input) (op : PauliOp GQ) (m n0 n1 n : ℕ) (hshape : inp.shape = [n0, n1])
    (hchain : n0 = 1 ∨ n1 = 1) (hn : n0 * n1 = n) (hs : encode inp = .ok (op, m)) (hsym : ∀ t ∈ inp.terms, SymmC n t.coeffs) :
    (PauliOp.mat GQ.toC n op).charpoly = (Encode.refMat GQ.toC n (fermiOp n0 n1 inp.terms)).charpoly ∧
    (∃ (hA : (PauliOp.mat GQ.toC n op).IsHermitian) (hB : (Encode.refMat GQ.toC n (fermiOp n0 n1 inp.terms)).IsHermitian),
      hA.eigenvalues₀ = hB.eigenvalues₀ ∧ hA.eigenvalues = hB.eigenvalues) ∧
    (∀ μ : ℂ, Module.End.HasEigenvalue (Matrix.toLin' (PauliOp.mat GQ.toC n op)) μ ↔
      Module.End.HasEigenvalue (Matrix.toLin' (Encode.refMat GQ.toC n (fermiOp n0 n1 inp.terms))) μ) ∧
    (∀ μ : ℂ, Module.finrank ℂ (Module.End.eigenspace (Matrix.toLin' (PauliOp.mat GQ.toC n op)) μ) =
      Module.finrank ℂ (Module.End.eigenspace (Matrix.toLin' (Encode.refMat GQ.toC n (fermiOp n0 n1 inp.terms))) μ)) ∧
    (∀ (μ : ℂ) (v : (Fin n → Bool) → ℂ),
      ((Encode.refMat GQ.toC n (fermiOp n0 n1 inp.terms)).mulVec v = μ • v →
        (PauliOp.mat GQ.toC n op).mulVec (((chainW n0 n1).mat n).mulVec v) = μ • ((chainW n0 n1).mat n).mulVec v) ∧
      (((chainW n0 n1).mat n).mulVec v = 0 → v = 0)) := by
  obtain ⟨hm, hU⟩ := C13_chain_unitary_equiv inp op m n0 n1 n hshape hchain hn hs hsym
  subst hm
  have hA : (PauliOp.mat GQ.toC m op).IsHermitian := (C13_encoded_hermitian inp op m hs).2
  have hB : (Encode.refMat GQ.toC m (fermiOp n0 n1 inp.terms)).IsHermitian := hU.symm.isHermitian hA
  exact ⟨hU.charpoly_eq, ⟨hA, hB, hU.eigenvalues₀_eq hA hB, hU.eigenvalues_eq hA hB⟩, hU.hasEigenvalue_iff, hU.finrank_eigenspace_eq,
    hU.eigenvector⟩


/-! ### beyond chains: the 2 × 2 plaquette (partial results for lattices with faces)

The full statement for lattices with at least one face — *for every shape `n0 × n1` and every admissible input, the restriction of
`matrix(compact(op))` to the joint +1 eigenspace of the loop products of the faces without auxiliary qubit is unitarily equivalent
to `matrix(op) ⊗ 1_m` (`m = 2` if both extents are even, `1` otherwise), hence has the fermionic spectrum with every level repeated
exactly `m` times* — is **not proved** here; it remains the cited Derby–Klassen theorem applied to the relations of
`Properties/C13.lean`.  What is proved is the statement for the smallest lattice with a face, the 2 × 2 plaquette: 4 vertices, one
face, which carries the auxiliary qubit (qubit 4); its loop product is the identity (`C13_loop_identity_on_aux_faces`), so there is
no stabiliser and the joint +1 eigenspace is the whole 32-dimensional register = 2 × the 16-dimensional Fock space.  Missing for the
general case: (1) that every product of edge operators around a closed path is a product of face loops (cycle space of the grid),
(2) the resulting identification of the operators on the code space with a multiple of the Jordan-Wigner representation.  The harness
checks the general statement numerically (all shapes with ≤ 11 qubits completely; larger shapes in the sectors of few particles; the
stabiliser-group facts that fix the multiplicity for all shapes up to 8 × 8 / 12 × 12 at string level). -/

/-- the explicit unitary of the plaquette: the monomial Clifford
`plaqW = S₁ S₃† CZ₁₂ CZ₁₄ CZ₃₄ CNOT₁→₄ CNOT₂→₄`, `plaqW |b⟩ = i^{Q(πb)} |πb⟩` with `π b = (b₀, b₁, b₂, b₃, b₄ ⊕ b₁ ⊕ b₂)` and
`Q(b) = b₁ + 3 b₃ + 2 (b₁b₂ + b₁b₄ + b₃b₄)`; it is unitary, fixes the vertex operators `Z₀ … Z₃` and maps the four edge operators
of the plaquette to the Jordan-Wigner edge strings `Y_i Z…Z X_j` with the identity on the auxiliary qubit -/
theorem C13_plaqW (r c : Fin 5 → Bool) :
    plaqW r c = (if r = plaqPi c then (-I) ^ (3 * plaqQ (plaqPi c)) else 0) ∧
    (∀ b : Fin 5 → Bool, ∀ k : Fin 5, plaqPi b k = if k = 4 then xor (b 4) (xor (b 1) (b 2)) else b k) ∧
    (∀ b : Fin 5 → Bool, plaqQ b = (b 1).toNat + 3 * (b 3).toNat + 2 * ((b 1 && b 2).toNat + (b 1 && b 4).toNat + (b 3 && b 4).toNat)) ∧
    plaqWᴴ * plaqW = 1 ∧ plaqW * plaqWᴴ = 1 ∧
    (∀ i, i < 4 → plaqW * (vertexStr 2 2 (i / 2) (i % 2)).mat 5 * plaqWᴴ = zSite 5 i) ∧
    plaqW * (edgeStr 2 2 0 0 0 1).mat 5 * plaqWᴴ = tens2z 5 0 1 pauliY pauliX ∧
    plaqW * (edgeStr 2 2 1 0 1 1).mat 5 * plaqWᴴ = tens2z 5 2 3 pauliY pauliX ∧
    plaqW * (edgeStr 2 2 0 0 1 0).mat 5 * plaqWᴴ = tens2z 5 0 2 pauliY pauliX ∧
    plaqW * (edgeStr 2 2 0 1 1 1).mat 5 * plaqWᴴ = tens2z 5 1 3 pauliY pauliX ∧
    (∀ i j A B, tens2z 5 i j A B =
      tens (fun k : Fin 5 => if k.val = i then A else if k.val = j then B else if i < k.val ∧ k.val < j then pauliZ else 1)) :=
  ⟨rfl, fun _ _ => rfl, fun _ => rfl, plaqW_unitary.1, plaqW_unitary.2, conj_V, conj_E01.trans T01_mat, conj_E23.trans T23_mat,
    conj_E02.trans T02_mat, conj_E13.trans T13_mat, fun _ _ _ _ => rfl⟩

/-- the Jordan-Wigner hopping operator of any two sites `i < j` of `n` modes (reference ladder matrices of `field_operator.py`) is
`½ (X_i Z…Z X_j + Y_i Z…Z Y_j)`, and equals `(i/2)(T Z_j − T Z_i)` for the string `T = Y_i Z…Z X_j` — the form in which the
Derby–Klassen image produces it -/
theorem C13_jw_hopping (n i j : ℕ) (hij : i < j) (hj : j < n) :
    Encode.ladder n i true * Encode.ladder n j false + Encode.ladder n j true * Encode.ladder n i false =
      (1 / 2 : ℂ) • (tens2z n i j pauliX pauliX + tens2z n i j pauliY pauliY) ∧
    (I / 2) • (tens2z n i j pauliY pauliX * zSite n j - tens2z n i j pauliY pauliX * zSite n i) =
      Encode.ladder n i true * Encode.ladder n j false + Encode.ladder n j true * Encode.ladder n i false :=
  ⟨ladder_hop_z n i j hij hj, hop_of_edge_z n i j hij hj _ rfl⟩

/-- `pad B = B ⊗ 1₂` (spectator qubit last): every level of `B` exactly twice -/
theorem C13_pad (n : ℕ) (B : Matrix (Fin n → Bool) (Fin n → Bool) ℂ) (r c : Fin (n + 1) → Bool) :
    pad B r c = (if r (Fin.last n) = c (Fin.last n) then B (fun k => r k.castSucc) (fun k => c k.castSucc) else 0) ∧
    (pad B).charpoly = B.charpoly ^ 2 ∧ (pad B)ᴴ = pad Bᴴ :=
  ⟨rfl, charpoly_pad B, pad_conjTranspose B⟩

/-- **the 2 × 2 plaquette**: for every admissible (exactly symmetric) input on the 2 × 2 lattice the encoder returns a register of
5 qubits and `matrix(compact(op)) = Wᴴ · (matrix(op) ⊗ 1₂) · W` with the explicit unitary `W = plaqW`: the encoded operator on the
whole register (= the code space, there is no stabiliser) is unitarily equivalent to two copies of the fermionic operator.
*Partial*: one shape; the statement for all shapes with faces is not proved (see the section comment). -/
theorem C13_plaquette_unitary_equiv_partial (inp : Input) (op : PauliOp GQ) (m : ℕ) (hshape : inp.shape = [2, 2])
    (hs : encode inp = .ok (op, m)) (hsym : ∀ t ∈ inp.terms, SymmC 4 t.coeffs) :
    m = 5 ∧ UEquiv (PauliOp.mat GQ.toC 5 op) (pad (Encode.refMat GQ.toC 4 (fermiOp 2 2 inp.terms))) plaqWᴴ ∧
    (∀ x y, FaceIn 2 2 x y → loopStr 2 2 x y = PS.identity 5) := by
  obtain ⟨hm, he⟩ := plaq_equiv inp op m hshape hs hsym
  refine ⟨hm, ?_, ?_⟩
  · have hU : UEquiv (pad (Encode.refMat GQ.toC 4 (fermiOp 2 2 inp.terms))) (PauliOp.mat GQ.toC 5 op) plaqW :=
      ⟨plaqW_unitary.1, plaqW_unitary.2, he.symm⟩
    exact hU.symm
  · intro x y hf
    have hx : x = 0 := by unfold FaceIn at hf; omega
    have hy : y = 0 := by unfold FaceIn at hf; omega
    subst hx; subst hy
    exact (C13_loop_identity_on_aux_faces 2 2 0 0 (by decide)).1

/-- **spectrum on the plaquette** (multiplicity exactly 2): the characteristic polynomial of the encoded operator is the square of
that of the fermionic operator — every fermionic level occurs in the encoded operator with exactly twice its multiplicity, and
nothing else occurs; both matrices are Hermitian.  *Partial*: one shape. -/
theorem C13_plaquette_spectrum_partial (inp : Input) (op : PauliOp GQ) (m : ℕ) (hshape : inp.shape = [2, 2])
    (hs : encode inp = .ok (op, m)) (hsym : ∀ t ∈ inp.terms, SymmC 4 t.coeffs) :
    (PauliOp.mat GQ.toC 5 op).charpoly = (Encode.refMat GQ.toC 4 (fermiOp 2 2 inp.terms)).charpoly ^ 2 ∧
    (PauliOp.mat GQ.toC 5 op).IsHermitian ∧ (pad (Encode.refMat GQ.toC 4 (fermiOp 2 2 inp.terms))).IsHermitian ∧
    (∀ μ : ℂ, Module.finrank ℂ (Module.End.eigenspace (Matrix.toLin' (PauliOp.mat GQ.toC 5 op)) μ) =
      Module.finrank ℂ (Module.End.eigenspace (Matrix.toLin' (pad (Encode.refMat GQ.toC 4 (fermiOp 2 2 inp.terms)))) μ)) := by
  obtain ⟨hm, hU, _⟩ := C13_plaquette_unitary_equiv_partial inp op m hshape hs hsym
  subst hm
  have hA : (PauliOp.mat GQ.toC 5 op).IsHermitian := (C13_encoded_hermitian inp op 5 hs).2
  exact ⟨by rw [hU.charpoly_eq, charpoly_pad], hA, hU.symm.isHermitian hA, hU.finrank_eigenspace_eq⟩

/-! ### every shape: the code space (partial results towards the spectral statement)

For a general lattice the spectral statement says that the encoded operator, restricted to the joint `+1` eigenspace `C` of the loop
products of the faces without auxiliary qubit ("plain" faces, `x + y` odd), is a multiple `m` of the fermionic operator.  Two facts that
this needs — and that fix the multiplicity `m` and exclude that `C` carries only one fermion-parity sector (the levels of the other
sector would then be *missing*, the failure mode of encodings of this type on lattices with one plain face more than auxiliary faces) —
are proved here for **every** shape `n0 × n1 ≥ 1`:
* the loop products of distinct plain faces are independent: no product over a non-empty set of plain faces acts trivially on the
  auxiliary qubits (`C13_stabiliser_independent_partial`); hence `C` has dimension `2^{qubits − plain faces} = 2^{n0 n1} · m` with `m = 2`
  if both extents are even and `m = 1` otherwise (`C13_codespace_dimension_partial`) — qib numbers the face `(0, 0)` as an auxiliary face,
  so there are never more plain than auxiliary faces;
* the fermion parity `Π_j V_j` is not (up to sign) a product of loop products, and it is traceless on `C`
  (`C13_codespace_parity_balanced_partial`): the even and the odd sector of `C` have the same dimension `2^{n0 n1 − 1} · m`.
Not proved (cited, Derby–Klassen): that on `C` the edge and vertex operators *are* `m` copies of the Jordan-Wigner representation. -/

/-- letters of the loop product of a plain face `(x, y)` on the auxiliary qubit of the face `(a, b)`: an `X`-component on the four
neighbouring auxiliary faces, a `Z`-component on the two that lie above and below (so `Y` above/below, `X` left/right) -/
theorem C13_stabiliser_letters_partial (n0 n1 x y a b : ℕ) (h : FaceIn n0 n1 x y) (hp : (x + y) % 2 = 1) (hf : FaceOK n0 n1 a b) :
    (loopStr n0 n1 x y).xf (fIdx n0 n1 a b) =
      decide ((a + 1 = x ∧ b = y) ∨ (a = x ∧ b = y + 1) ∨ (a = x + 1 ∧ b = y) ∨ (a = x ∧ b + 1 = y)) ∧
    (loopStr n0 n1 x y).zf (fIdx n0 n1 a b) = decide ((a + 1 = x ∧ b = y) ∨ (a = x + 1 ∧ b = y)) :=
  loop_bits n0 n1 x y a b h hp hf

/-- **independence of the stabiliser generators, every shape**: the product of the loop products over any non-empty duplicate-free
list of plain faces has a non-identity letter on some auxiliary qubit; its matrix is the product of the loop matrices and is traceless
(in particular it is neither `1` nor `−1`), and multiplied by the fermion parity string it still has that letter -/
theorem C13_stabiliser_independent_partial (n0 n1 : ℕ) (R : List (ℕ × ℕ)) (hne : R ≠ []) (hnd : R.Nodup) (hR : PlainFaces n0 n1 R) :
    (∃ a b, FaceOK n0 n1 a b ∧
      ((stabProd n0 n1 R).zf (fIdx n0 n1 a b) = true ∨ (stabProd n0 n1 R).xf (fIdx n0 n1 a b) = true) ∧
      (parStr n0 n1).zf (fIdx n0 n1 a b) = false ∧ (parStr n0 n1).xf (fIdx n0 n1 a b) = false) ∧
    (stabProd n0 n1 R).mat (ofcNsites n0 n1) = (loopMats n0 n1 R).prod ∧
    ((loopMats n0 n1 R).prod).trace = 0 ∧
    (stabProd n0 n1 R = R.foldr (fun g P => (loopStr n0 n1 g.1 g.2).mul P) (PS.identity (ofcNsites n0 n1))) ∧
    (PlainFaces n0 n1 R ↔ ∀ g ∈ R, FaceIn n0 n1 g.1 g.2 ∧ (g.1 + g.2) % 2 = 1) := by
  obtain ⟨a, b, hf, hb⟩ := stab_nontrivial n0 n1 R hne hnd hR
  have ht := fIdx_lt hf
  have hge := fIdx_ge n0 n1 a b
  refine ⟨⟨a, b, hf, hb, ?_, (parStr_bits n0 n1 _ ht).2⟩, stabProd_mat n0 n1 R (fun g hg => (hR g hg).1),
    trace_stab_zero n0 n1 R hne hnd hR, rfl, Iff.rfl⟩
  rw [(parStr_bits n0 n1 _ ht).1]
  simp; omega

/-- the loop matrices of any faces are pairwise commuting Hermitian involutions; `jointProj` of them, `Π_g (1 + L_g)/2`, is an
orthogonal projector whose range is exactly the joint `+1` eigenspace -/
theorem C13_codespace_projector_partial (n0 n1 : ℕ) (R : List (ℕ × ℕ)) (hR : ∀ g ∈ R, FaceIn n0 n1 g.1 g.2) :
    CommInvols (loopMats n0 n1 R) ∧
    jointProj (loopMats n0 n1 R) = ((loopMats n0 n1 R).map fun M => (1 / 2 : ℂ) • (1 + M)).prod ∧
    jointProj (loopMats n0 n1 R) * jointProj (loopMats n0 n1 R) = jointProj (loopMats n0 n1 R) ∧
    (jointProj (loopMats n0 n1 R))ᴴ = jointProj (loopMats n0 n1 R) ∧
    (∀ v, (jointProj (loopMats n0 n1 R)).mulVec v = v ↔ ∀ M ∈ loopMats n0 n1 R, M.mulVec v = v) ∧
    (∀ v, v ∈ jointEig (loopMats n0 n1 R) ↔ ∀ M ∈ loopMats n0 n1 R, M.mulVec v = v) ∧
    (Module.finrank ℂ (jointEig (loopMats n0 n1 R)) : ℂ) = (jointProj (loopMats n0 n1 R)).trace := by
  have hc := loopMats_commInvols n0 n1 R hR
  obtain ⟨i1, i2, _, i4⟩ := jointProj_props _ hc
  exact ⟨hc, rfl, i1, i2, i4, fun v => Iff.rfl, finrank_jointEig _ hc⟩

/-- **dimension of the code space, every shape**: the joint `+1` eigenspace of the loop products of *all* plain faces has dimension
`2^{n0 n1}` — the dimension of the fermionic Fock space — times `2` if both extents are even, times `1` otherwise; the list of plain
faces has `⌊(n0−1)(n1−1)/2⌋` entries, the register `n0 n1 + ⌈(n0−1)(n1−1)/2⌉` qubits -/
theorem C13_codespace_dimension_partial (n0 n1 : ℕ) (h0 : 1 ≤ n0) (h1 : 1 ≤ n1) :
    Module.finrank ℂ (jointEig (loopMats n0 n1 (plainFaces n0 n1))) = 2 ^ (n0 * n1) * (if n0 % 2 = 0 ∧ n1 % 2 = 0 then 2 else 1) ∧
    (∀ g, g ∈ plainFaces n0 n1 ↔ FaceIn n0 n1 g.1 g.2 ∧ (g.1 + g.2) % 2 = 1) ∧ (plainFaces n0 n1).Nodup ∧
    (plainFaces n0 n1).length = (n0 - 1) * (n1 - 1) / 2 ∧
    (jointProj (loopMats n0 n1 (plainFaces n0 n1))).trace = (1 / 2 : ℂ) ^ (plainFaces n0 n1).length * 2 ^ ofcNsites n0 n1 :=
  ⟨finrank_codespace n0 n1 h0 h1, mem_plainFaces n0 n1, plainFaces_nodup n0 n1, plainFaces_length n0 n1,
    trace_jointProj n0 n1 _ (plainFaces_nodup n0 n1) (plainFaces_plain n0 n1)⟩

/-- **both fermion-parity sectors occur equally in the code space, every shape**: the parity operator `Π_j V_j` (`Z` on every vertex
qubit; it commutes with every loop product) is traceless on the code space, `tr (Π_C · Π_j V_j) = 0` — the even and the odd sector of
the code space have the same dimension -/
theorem C13_codespace_parity_balanced_partial (n0 n1 : ℕ) (h0 : 1 ≤ n0) (h1 : 1 ≤ n1) :
    (jointProj (loopMats n0 n1 (plainFaces n0 n1)) * (parStr n0 n1).mat (ofcNsites n0 n1)).trace = 0 ∧
    (parStr n0 n1).mat (ofcNsites n0 n1) = ((List.range (n0 * n1)).map (zSite (ofcNsites n0 n1))).prod ∧
    (∀ i, i < n0 * n1 → (vertexStr n0 n1 (i / n1) (i % n1)).mat (ofcNsites n0 n1) = zSite (ofcNsites n0 n1) i) ∧
    (∀ x y, FaceIn n0 n1 x y → (loopStr n0 n1 x y).mat (ofcNsites n0 n1) * (parStr n0 n1).mat (ofcNsites n0 n1) =
      (parStr n0 n1).mat (ofcNsites n0 n1) * (loopStr n0 n1 x y).mat (ofcNsites n0 n1)) := by
  refine ⟨trace_jointProj_parity n0 n1 (Nat.mul_pos h0 h1) _ (plainFaces_nodup n0 n1) (plainFaces_plain n0 n1), ?_,
    fun i hi => vertexStr_mat n0 n1 _ i rfl hi, ?_⟩
  · rw [parStr_mat, zUpTo_eq_prod]
  · intro x y hf
    rw [parStr_mat, zUpTo_eq_prod]
    have hcomm : ∀ i ∈ List.range (n0 * n1), (loopStr n0 n1 x y).mat (ofcNsites n0 n1) * zSite (ofcNsites n0 n1) i =
        zSite (ofcNsites n0 n1) i * (loopStr n0 n1 x y).mat (ofcNsites n0 n1) := by
      intro i hi
      have hi' := List.mem_range.mp hi
      obtain ⟨a1, a2⟩ := div_mod_lt hi'
      rw [← vertexStr_mat n0 n1 _ i rfl hi']
      exact mat_comm_of_not_anti _ _ _ (loopStr_hasLen hf) (vertexStr_hasLen n0 n1 _ _) (anti_loop_vertex hf a1 a2)
    generalize List.range (n0 * n1) = l at hcomm
    induction l with
    | nil => simp
    | cons a l ih =>
      have h1 := hcomm a (by simp)
      have h2 := ih (fun i hi => hcomm i (by simp [hi]))
      simp only [List.map_cons, List.prod_cons]
      rw [← Matrix.mul_assoc, h1, Matrix.mul_assoc, h2, Matrix.mul_assoc]

/-! ### what the driver op `compact.chain` computes -/

/-- the string-level operations of the driver denote what they say: `conjBy W P` is `W P W` for a Hermitian string `W` (`q = 0`),
`conjOp` conjugates the matrix of an operator, `canonOp` (phases moved into the weights, equal strings merged, zero weights
dropped) does not change it -/
theorem C13_chain_driver_ops (n : ℕ) (W : PS) (hW : W.HasLen n) (hq : W.q = 0) (op : PauliOp GQ) :
    (∀ P : PS, P.HasLen n → (conjBy W P).mat n = W.mat n * P.mat n * W.mat n) ∧
    ((∀ e ∈ op, e.1.HasLen n) → PauliOp.mat GQ.toC n (conjOp W op) = W.mat n * PauliOp.mat GQ.toC n op * W.mat n) ∧
    PauliOp.mat GQ.toC n (canonOp op) = PauliOp.mat GQ.toC n op :=
  ⟨fun P hP => conjBy_mat n W P hW hP hq, fun hop => conjOp_mat n W hW hq op hop, canonOp_mat n op⟩

/-- the two canonical operators the driver returns for a chain — the compact-encoded operator conjugated string by string
with `chainW`, and the Jordan-Wigner encoding of the same field operator — have the same matrix (the harness compares them as
sets of (string, weight) pairs, and the second one with the real `jordan_wigner_encode_field_operator`) -/
theorem C13_chain_conj_eq_jw (inp : Input) (op jw : PauliOp GQ) (m n0 n1 n : ℕ) (hshape : inp.shape = [n0, n1])
    (hchain : n0 = 1 ∨ n1 = 1) (hn : n0 * n1 = n) (hs : encode inp = .ok (op, m)) (hsym : ∀ t ∈ inp.terms, SymmC n t.coeffs)
    (hjw : Encode.encode .jw (fun w => w.absLe 0) (fermiOp n0 n1 inp.terms) = .ok jw) :
    PauliOp.mat GQ.toC n (canonOp (conjOp (chainW n0 n1) op)) = PauliOp.mat GQ.toC n (canonOp jw) := by
  obtain ⟨hm, hU⟩ := C13_chain_unitary_equiv inp op m n0 n1 n hshape hchain hn hs hsym
  obtain ⟨hWl, hWq⟩ := chainW_props n0 n1 n hn
  obtain ⟨a0, a1, _, ha, hlen⟩ := C13_encoded_register inp op m hs
  have hsq := Encode.mat_sq_of_q0 n (chainW n0 n1) hWq
  rw [canonOp_mat, canonOp_mat, conjOp_mat n _ hWl hWq op (fun e he => hm ▸ hlen e he), C13_fermiOp_jw n0 n1 n inp.terms hn jw hjw,
    hU.conj]
  simp only [Matrix.mul_assoc]
  rw [hU.left, Matrix.mul_one, ← Matrix.mul_assoc, hsq, Matrix.one_mul]

/-! ### non-vacuity and samples (tests, not proofs of the property) -/

/-- a row of three sites with on-site energies 1, 2, 3 and hoppings 5, 10 -/
def exampleRow : Input := ⟨1, true, true, [1, 3], [false, false], [⟨true, true, [[1, 5, 0], [5, 2, 10], [0, 10, 3]]⟩]⟩

example : (encode exampleRow).map (fun r => (r.1.length, r.2)) = .ok (8, 3) := by decide +kernel
example : ∀ t ∈ exampleRow.terms, SymmC 3 t.coeffs := by
  intro t ht
  simp only [exampleRow, List.mem_singleton] at ht
  subst ht
  intro i j hi hj
  interval_cases i <;> interval_cases j <;> rfl
example : Encode.fieldCheck (fermiOp 1 3 exampleRow.terms) = .ok 3 := by decide +kernel
/-- the driver's comparison on this instance: conjugated compact strings = Jordan-Wigner strings, as lists up to order -/
example : (match encode exampleRow, Encode.encode .jw (fun w => w.absLe 0) (fermiOp 1 3 exampleRow.terms) with
    | .ok (op, _), .ok jw => (canonOp (conjOp (chainW 1 3) op)).all (fun e => (canonOp jw).contains e) &&
        (canonOp jw).all (fun e => (canonOp (conjOp (chainW 1 3) op)).contains e)
    | _, _ => false) = true := by decide +kernel
example : chainW 1 4 = ⟨[false, true, false, true], [false, false, false, false], 0⟩ ∧
    chainW 4 1 = PS.identity 4 ∧ chainW 1 1 = PS.identity 1 := by decide
example : (edgeStr 1 4 0 1 0 2).toChars = "-IYXI".toList ∧ (edgeStr 4 1 1 0 2 0).toChars = "IYXI".toList := by decide
/-- plain faces of the 3 × 3 and 4 × 4 lattices; the product of the two loop products of 3 × 3 (`Z` on six vertices and, from `Y·X`, on both
auxiliary qubits) -/
example : plainFaces 3 3 = [(0, 1), (1, 0)] ∧ plainFaces 4 4 = [(0, 1), (1, 0), (1, 2), (2, 1)] ∧ plainFaces 2 2 = [] ∧
    PlainFaces 3 3 [(0, 1), (1, 0)] := by
  refine ⟨by decide, by decide, by decide, ?_⟩
  intro g hg
  simp only [List.mem_cons, List.mem_nil_iff, or_false] at hg
  rcases hg with rfl | rfl <;> decide
example : (stabProd 3 3 [(0, 1), (1, 0)]).toChars = "IZZZIZZZIZZ".toList ∧ (parStr 3 3).toChars = "ZZZZZZZZZII".toList := by decide
/-- the plaquette: a symmetric on-site + hopping operator on 2 × 2 is accepted, 5 qubits, 13 strings -/
def examplePlaq : Input := ⟨1, true, true, [2, 2], [false, false], [⟨true, true, [[1, 5, 7, 0], [5, 2, 0, -3], [7, 0, 3, 1 / 2], [0, -3, 1 / 2, 4]]⟩]⟩
example : (encode examplePlaq).map (fun r => (r.1.length, r.2)) = .ok (13, 5) := by decide +kernel
example : ∀ t ∈ examplePlaq.terms, SymmC 4 t.coeffs := by
  intro t ht
  simp only [examplePlaq, List.mem_singleton] at ht
  subst ht
  intro i j hi hj
  interval_cases i <;> interval_cases j <;> rfl
example : (edgeStr 2 2 0 0 0 1).toChars = "-YXIIY".toList ∧ (edgeStr 2 2 1 0 1 1).toChars = "IIXYY".toList ∧
    (edgeStr 2 2 0 0 1 0).toChars = "YIXIX".toList ∧ (edgeStr 2 2 0 1 1 1).toChars = "IXIYX".toList := by decide

end Qib.Compact
