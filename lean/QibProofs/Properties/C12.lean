import QibProofs.Lemmas.PauliMat
import QibModel.Encode
/-! C12 — placeholder while the lemma files are being written (replaced below). -/
namespace Qib.Encode
open Qib.Pauli

theorem C12_expandStep_length (ps : List PS) (a b : PS) : (expandStep ps a b).length = 2 * ps.length := by
  simp [expandStep]; omega

end Qib.Encode
