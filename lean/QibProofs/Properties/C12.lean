import QibProofs.Lemmas.EncodeSum
import QibProofs.Lemmas.EncodePrune
import QibProofs.Lemmas.EncodeTotal
import QibProofs.Lemmas.EncodeExtra
import QibProofs.Lemmas.EncodeInv
import QibProofs.Lemmas.EncodeParityEquiv
/-!
C12 — Parity encoding is a faithful parity-basis representation.

Property theorems only (proofs in `Lemmas/Encode*.lean`), stated about the executable model `QibModel/Encode.lean`
(encoder `.parity`, run by `drv_encode`). Conventions as in `Properties/C11.lean`.
`encLadder .parity L i kind = ½ (s₀.mat + s₁.mat)` is what the encoder substitutes for the ladder operator of site `i`
(`kind = true`: creation); `encMat φ .parity L op = Σ_terms Σ_entries coeff • Π encLadder` (ordered products).

"Spectra are preserved" is proved outright (no cited uniqueness theorem): `C12_parity_unitary_equiv` exhibits the unitary
`V |n⟩ = (-1)^{N(N-1)/2} |p(n)⟩`, `p(n)_j = n_0 + … + n_j mod 2` (qubit `j` stores the parity of the sites `0..j`) with
`mat (parityEncode op) = V · op.mat · Vᴴ` for every field operator, and `C12_parity_spectrum` maps eigenpairs to eigenpairs.
-/
open Complex Matrix
namespace Qib.Encode
open Qib.Pauli

/-! ### the strings: update set `X` on sites `≥ i`, parity `Z` on site `i - 1` -/

/-- the strings of `parity_encoding.py:19-30` as functions of the site: `s₀ = Z_{i-1} X_i X_{>i}` (no `Z` for `i = 0`),
`s₁ = Y_i X_{>i}` with phase `q = 1` (creation) / `q = 3` (annihilation); all of length `L` -/
theorem C12_parity_strings (L i k : ℕ) (hi : i < L) (hk : k < L) :
    (s0 .parity L i).zf k = decide (k + 1 = i) ∧ (s0 .parity L i).xf k = decide (i ≤ k) ∧ (s0 .parity L i).q = 0 ∧
    (s1c .parity L i).zf k = decide (k = i) ∧ (s1c .parity L i).xf k = decide (i ≤ k) ∧ (s1c .parity L i).q = 1 ∧
    (s1a .parity L i).zf k = decide (k = i) ∧ (s1a .parity L i).xf k = decide (i ≤ k) ∧ (s1a .parity L i).q = 3 ∧
    (s0 .parity L i).HasLen L ∧ (s1c .parity L i).HasLen L ∧ (s1a .parity L i).HasLen L :=
  ⟨par_s0_zf L i k hi hk, par_s0_xf L i k hi hk, rfl, par_s1c_zf L i k hi hk, par_s1c_xf L i k hi hk, rfl,
    par_s1a_zf L i k hi hk, par_s1a_xf L i k hi hk, rfl, s0_hasLen .parity L i hi, s1c_hasLen .parity L i hi,
    s1a_hasLen .parity L i hi⟩

/-- the encoded ladder operators in Majorana form: `½ (S ∓ i T)` with the two Hermitian strings
`S = Z_{i-1} X_{≥i}`, `T = Y_i X_{>i}` -/
theorem C12_parity_ladder_def (L i : ℕ) :
    encLadder .parity L i true = (1 / 2 : ℂ) • ((s0 .parity L i).mat L - I • (tS .parity L i).mat L) ∧
    encLadder .parity L i false = (1 / 2 : ℂ) • ((s0 .parity L i).mat L + I • (tS .parity L i).mat L) ∧
    encLadder .parity L i true = (1 / 2 : ℂ) • ((ladderPair .parity L i true).1.mat L + (ladderPair .parity L i true).2.mat L) ∧
    encLadder .parity L i false = (1 / 2 : ℂ) • ((ladderPair .parity L i false).1.mat L + (ladderPair .parity L i false).2.mat L) :=
  ⟨encLadder_create .parity L i, encLadder_annihil .parity L i, rfl, rfl⟩

/-- the `2L` Majorana strings square to one and anticommute pairwise (computed from the code's commutation test on the
indicator vectors, for symbolic `i`, `j`, `L`) -/
theorem C12_parity_majorana (L i j : ℕ) (hi : i < L) (hj : j < L) :
    let S := fun k => (s0 .parity L k).mat L
    let T := fun k => (tS .parity L k).mat L
    S i * S j + S j * S i = (if i = j then (2 : ℂ) else 0) • (1 : Matrix (Fin L → Bool) (Fin L → Bool) ℂ) ∧
    T i * T j + T j * T i = (if i = j then (2 : ℂ) else 0) • (1 : Matrix (Fin L → Bool) (Fin L → Bool) ℂ) ∧
    S i * T j + T j * S i = 0 ∧ T i * S j + S j * T i = 0 := majorana_rel .parity L i j hi hj

/-! ### canonical anticommutation relations, adjoint, vacuum -/

/-- all three families: `{a_i, a†_j} = δ_ij`, `{a_i, a_j} = 0`, `{a†_i, a†_j} = 0` for the encoded ladder operators,
every `L` and all sites -/
theorem C12_parity_car (L i j : ℕ) (hi : i < L) (hj : j < L) :
    (encLadder .parity L i false * encLadder .parity L j true + encLadder .parity L j true * encLadder .parity L i false =
        if i = j then 1 else 0) ∧
    encLadder .parity L i false * encLadder .parity L j false + encLadder .parity L j false * encLadder .parity L i false = 0 ∧
    encLadder .parity L i true * encLadder .parity L j true + encLadder .parity L j true * encLadder .parity L i true = 0 :=
  encLadder_car .parity L i j hi hj

/-- the encoded creation operator is the adjoint of the encoded annihilation operator -/
theorem C12_parity_adjoint (L i : ℕ) : (encLadder .parity L i false)ᴴ = encLadder .parity L i true :=
  encLadder_adjoint .parity L i

/-- every encoded annihilation operator annihilates `|0…0⟩`: its column at the all-zero basis state vanishes -/
theorem C12_parity_vacuum (L i : ℕ) (hi : i < L) (r : Fin L → Bool) :
    encLadder .parity L i false r (fun _ => false) = 0 := encLadder_vacuum .parity L i hi r

/-! ### the encoding of a field operator -/

theorem C12_encMat_def {α : Type} (φ : α → ℂ) (enc : Enc) (L : ℕ) (fop : FieldOp α) :
    encMat φ enc L fop = (fop.terms.map fun t => (t.entries.map fun e => φ e.2 • ladderProd enc L t.ops e.1).sum).sum ∧
    (∀ d ds j js, ladderProd enc L (d :: ds) (j :: js) = encLadder enc L j (d.otype == .create) * ladderProd enc L ds js) ∧
    ladderProd enc L [] [] = 1 := ⟨rfl, fun _ _ _ _ => rfl, rfl⟩

theorem C12_encode_unfold {α : Type} [EncScalar α] (enc : Enc) (isZ : α → Bool) (fop : FieldOp α) (op : PauliOp α) :
    encode enc isZ fop = .ok op ↔ ∃ raw, encodeRaw enc fop = .ok raw ∧ op = raw.removeZero isZ := by
  unfold encode
  cases h : encodeRaw enc fop with
  | error e => simp
  | ok raw => simp [eq_comm]

/-- the encoding of any field operator is the same coefficient-weighted sum of ordered products of the encoded ladder
operators (exact version: the pruning test only fires on zero weights) -/
theorem C12_parity_encode_def {α : Type} [EncScalar α] {φ : α → ℂ} (hφ : ScalarHom φ) (isZ : α → Bool)
    (hz : ∀ w, isZ w = true → φ w = 0) (fop : FieldOp α) (op : PauliOp α)
    (h : encode .parity isZ fop = .ok op) (hwf : fop.WF) :
    ∃ L, fieldCheck fop = .ok L ∧ PauliOp.mat φ L op = encMat φ .parity L fop := by
  obtain ⟨raw, hraw, rfl⟩ := (C12_encode_unfold .parity isZ fop op).mp h
  obtain ⟨L, hL, h1, _⟩ := encodeRaw_mat hφ .parity fop raw hraw hwf
  refine ⟨L, hL, ?_⟩
  rw [← h1]
  exact PauliOp.removeZero_matG (PS.mat L) φ isZ hz raw

theorem C12_parity_encode_def_GQ (fop : FieldOp GQ) (op : PauliOp GQ)
    (h : encode .parity (fun w => w.absLe 0) fop = .ok op) (hwf : fop.WF) :
    ∃ L, fieldCheck fop = .ok L ∧ PauliOp.mat GQ.toC L op = encMat GQ.toC .parity L fop :=
  C12_parity_encode_def GQ.scalarHom _ (fun w hw => GQ.absLe_zero w hw) fop op h hwf

/-- with the pruning tolerance: entrywise distance at most `(number of pruned strings) · tol` -/
theorem C12_parity_encode_tol {α : Type} [EncScalar α] {φ : α → ℂ} (hφ : ScalarHom φ) (isZ : α → Bool) (tol : ℝ)
    (hz : ∀ w, isZ w = true → ‖φ w‖ ≤ tol) (fop : FieldOp α) (op : PauliOp α)
    (h : encode .parity isZ fop = .ok op) (hwf : fop.WF) :
    ∃ L raw, fieldCheck fop = .ok L ∧ encodeRaw .parity fop = .ok raw ∧ op = raw.removeZero isZ ∧
      ∀ r c, ‖(PauliOp.mat φ L op - encMat φ .parity L fop) r c‖ ≤ ((raw.length - op.length : ℕ) : ℝ) * tol := by
  obtain ⟨raw, hraw, rfl⟩ := (C12_encode_unfold .parity isZ fop op).mp h
  obtain ⟨L, hL, h1, _⟩ := encodeRaw_mat hφ .parity fop raw hraw hwf
  refine ⟨L, raw, hL, hraw, rfl, fun r c => ?_⟩
  have hsplit := PauliOp.removeZero_add_dropped (PS.mat L) φ isZ raw
  have hd : PauliOp.mat φ L (raw.removeZero isZ) - encMat φ .parity L fop = -PauliOp.mat φ L (raw.dropped isZ) := by
    rw [← h1]; simp only [PauliOp.mat]; rw [← hsplit]; abel
  have hlen : raw.length - (raw.removeZero isZ).length = (raw.dropped isZ).length := by
    have := PauliOp.dropped_length isZ raw; omega
  rw [hd, Matrix.neg_apply, norm_neg, hlen]
  exact opMat_entry_norm_le φ L tol _ (fun e he => hz _ (PauliOp.dropped_isZ isZ raw e he)) r c

theorem C12_parity_encode_tol_GQ (tol : ℚ) (fop : FieldOp GQ) (op : PauliOp GQ)
    (h : encode .parity (fun w => w.absLe tol) fop = .ok op) (hwf : fop.WF) :
    ∃ L raw, fieldCheck fop = .ok L ∧ encodeRaw .parity fop = .ok raw ∧ op = raw.removeZero (fun w => w.absLe tol) ∧
      ∀ r c, ‖(PauliOp.mat GQ.toC L op - encMat GQ.toC .parity L fop) r c‖ ≤ ((raw.length - op.length : ℕ) : ℝ) * (tol : ℝ) :=
  C12_parity_encode_tol GQ.scalarHom _ (tol : ℝ) (fun w hw => GQ.absLe_norm w tol hw) fop op h hwf

/-- shape of the encoded operator: every string has length `L` (so `PauliOp.mat φ L` is exactly what
`PauliOperator.as_matrix` sums), its phase is `q ∈ {0, 1}` (the sign sits in the weight) and no string occurs twice -/
theorem C12_encode_strings {α : Type} [EncScalar α] (isZ : α → Bool) (fop : FieldOp α) (op : PauliOp α) (L : ℕ)
    (hL : fieldCheck fop = .ok L) (h : encode .parity isZ fop = .ok op) :
    (∀ e ∈ op, e.1.HasLen L ∧ e.1.q.val < 2) ∧ (op.map (·.1)).Nodup := encode_good .parity isZ fop op L hL h

/-- totality on valid operators -/
theorem C12_parity_encode_total {α : Type} [EncScalar α] (isZ : α → Bool) (fop : FieldOp α) (L : ℕ)
    (hL : fieldCheck fop = .ok L) (hv : ∀ t ∈ fop.terms, t.Valid L) :
    ∃ op, encode .parity isZ fop = .ok op ∧ fop.WF := by
  obtain ⟨raw, hraw⟩ := encodeRaw_ok .parity fop L hL hv
  exact ⟨raw.removeZero isZ, (C12_encode_unfold .parity isZ fop _).mpr ⟨raw, hraw, rfl⟩, fun t ht => (hv t ht).wf⟩

/-! ### occupation numbers: qubit `j` stores the parity of sites `0..j` -/

/-- `Z_{i-1} Z_i` with `Z_{-1} := 1` -/
theorem C12_numZ_def (L i : ℕ) (r c : Fin L → Bool) :
    numZ .parity L i r c = ∏ k : Fin L, (if k.val + 1 = i ∨ k.val = i then pauliZ else (1 : Matrix Bool Bool ℂ)) (r k) (c k) := rfl

/-- the encoded occupation number of site `i` is `½ (1 - Z_{i-1} Z_i)` -/
theorem C12_parity_number (L i : ℕ) (hi : i < L) :
    encLadder .parity L i true * encLadder .parity L i false = (1 / 2 : ℂ) • (1 - numZ .parity L i) :=
  encLadder_number .parity L i hi

/-- the operator `a†_i a_i` as data: one term, one coefficient `1` at `(i, i)` -/
def numberOp (α : Type) [EncScalar α] (L i : ℕ) : FieldOp α :=
  ⟨[⟨true, L⟩], [⟨[⟨0, .create⟩, ⟨0, .annihil⟩], [L, L], [([i, i], 1)]⟩]⟩

/-- … and this is what the encoder returns for the operator `a†_i a_i` -/
theorem C12_parity_number_encode {α : Type} [EncScalar α] {φ : α → ℂ} (hφ : ScalarHom φ) (isZ : α → Bool)
    (hz : ∀ w, isZ w = true → φ w = 0) (L i : ℕ) (hi : i < L) (op : PauliOp α)
    (h : encode .parity isZ (numberOp α L i) = .ok op) :
    PauliOp.mat φ L op = (1 / 2 : ℂ) • (1 - numZ .parity L i) := by
  have hwf : (numberOp α L i).WF := by
    intro t ht e he
    simp only [numberOp, List.mem_singleton] at ht; subst ht
    simp only [List.mem_singleton] at he; subst he; rfl
  obtain ⟨L', hL', hm⟩ := C12_parity_encode_def hφ isZ hz _ op h hwf
  have : L' = L := by
    have h0 : fieldIds (numberOp α L i).terms = [0] := rfl
    have h1 : fieldCheck (numberOp α L i) = .ok L := by
      unfold fieldCheck; rw [h0]; simp [numberOp]
    rw [h1] at hL'; exact (Except.ok.inj hL').symm
  subst this
  rw [hm, ← C12_parity_number L' i hi]
  have hb : (OType.annihil == OType.create) = false := rfl
  simp [encMat, termMat, numberOp, ladderProd, hφ.one, hb]

/-! ### the parity basis: unitary equivalence with the fermionic operator -/

/-- the parity basis state of an occupation state, the sign, and the signed permutation `V` -/
theorem C12_parity_basis_def (L : ℕ) (n p : Fin L → Bool) (j : Fin L) :
    parOf n j = decide ((∑ k : Fin L, if k.val ≤ j.val then (n k).toNat else 0) % 2 = 1) ∧
    wSign n = (-1) ^ ((∑ k : Fin L, (n k).toNat) * ((∑ k : Fin L, (n k).toNat) - 1) / 2) ∧
    parityBasis L p n = (if p = parOf n then wSign n else 0) := ⟨rfl, rfl, rfl⟩

/-- `V` is unitary; `parOf` is injective (the occupation of site `j` is the difference of neighbouring parity qubits) -/
theorem C12_parity_basis_unitary (L : ℕ) :
    (parityBasis L)ᴴ * parityBasis L = 1 ∧ parityBasis L * (parityBasis L)ᴴ = 1 ∧
    (∀ n n' : Fin L → Bool, parOf n = parOf n' → n = n') :=
  ⟨parityBasis_unitary L, parityBasis_unitary' L, parOf_injective⟩

/-- every encoded ladder operator is the image of the fermionic ladder operator (sign string on later sites) under `V`:
the parity encoding *is* the fermionic algebra written in the parity basis -/
theorem C12_parity_ladder_equiv (L i : ℕ) (hi : i < L) (create : Bool) :
    encLadder .parity L i create = parityBasis L * ladder L i create * (parityBasis L)ᴴ := parLadder_conj L i hi create

/-- **faithfulness**: for every field operator the parity-encoded Pauli operator is unitarily equivalent to the field
operator's own matrix, by the same `V` for all operators -/
theorem C12_parity_unitary_equiv {α : Type} [EncScalar α] {φ : α → ℂ} (hφ : ScalarHom φ) (isZ : α → Bool)
    (hz : ∀ w, isZ w = true → φ w = 0) (fop : FieldOp α) (op : PauliOp α)
    (h : encode .parity isZ fop = .ok op) (hwf : fop.WF) :
    ∃ L, fieldCheck fop = .ok L ∧
      PauliOp.mat φ L op = parityBasis L * refMat φ L fop * (parityBasis L)ᴴ := by
  obtain ⟨raw, hraw, rfl⟩ := (C12_encode_unfold .parity isZ fop op).mp h
  obtain ⟨L, hL, hm⟩ := encodeRaw_parity_conj hφ fop raw hraw hwf
  refine ⟨L, hL, ?_⟩
  rw [← hm]
  exact PauliOp.removeZero_matG (PS.mat L) φ isZ hz raw

/-- so spectra are preserved: `V` maps every eigenvector of the field operator to an eigenvector of the encoded operator
with the same eigenvalue, `Vᴴ` maps back, and neither kills a vector -/
theorem C12_parity_spectrum {L : ℕ} (A B : Matrix (Fin L → Bool) (Fin L → Bool) ℂ)
    (hAB : A = parityBasis L * B * (parityBasis L)ᴴ) (μ : ℂ) (v : (Fin L → Bool) → ℂ) :
    (B.mulVec v = μ • v → A.mulVec ((parityBasis L).mulVec v) = μ • (parityBasis L).mulVec v) ∧
    (A.mulVec v = μ • v → B.mulVec ((parityBasis L)ᴴ.mulVec v) = μ • (parityBasis L)ᴴ.mulVec v) ∧
    ((parityBasis L).mulVec v = 0 → v = 0) ∧ ((parityBasis L)ᴴ.mulVec v = 0 → v = 0) := by
  have hU := parityBasis_unitary L
  have hU' := parityBasis_unitary' L
  have hBA : B = (parityBasis L)ᴴ * A * parityBasis L := by
    rw [hAB]; simp only [Matrix.mul_assoc]; rw [hU, Matrix.mul_one, ← Matrix.mul_assoc, hU, Matrix.one_mul]
  refine ⟨fun h => ?_, fun h => ?_, fun h => ?_, fun h => ?_⟩
  · rw [hAB, Matrix.mulVec_mulVec, Matrix.mul_assoc, Matrix.mul_assoc, hU, Matrix.mul_one, ← Matrix.mulVec_mulVec, h,
      Matrix.mulVec_smul]
  · rw [hBA, Matrix.mulVec_mulVec, Matrix.mul_assoc, Matrix.mul_assoc, hU', Matrix.mul_one, ← Matrix.mulVec_mulVec, h,
      Matrix.mulVec_smul]
  · have := congrArg ((parityBasis L)ᴴ.mulVec) h
    rwa [Matrix.mulVec_mulVec, hU, Matrix.one_mulVec, Matrix.mulVec_zero] at this
  · have := congrArg ((parityBasis L).mulVec) h
    rwa [Matrix.mulVec_mulVec, hU', Matrix.one_mulVec, Matrix.mulVec_zero] at this

/-! ### not Jordan-Wigner -/

/-- on two or more sites the parity strings of every ladder operator differ from its Jordan-Wigner strings, and so do the
encoded ladder matrices (an encoder that silently returned Jordan-Wigner strings would violate this) -/
theorem C12_parity_not_jw (L i : ℕ) (hL : 2 ≤ L) (hi : i < L) (create : Bool) :
    ladderPair .parity L i create ≠ ladderPair .jw L i create ∧ s0 .parity L i ≠ s0 .jw L i ∧
    encLadder .parity L i create ≠ encLadder .jw L i create := by
  refine ⟨parity_pair_ne_jw L i hL hi create, parity_s0_ne_jw L i hL hi, ?_⟩
  rw [jw_ladder L i hi create]
  exact parity_ladder_ne L i hL hi create

/-! ### non-vacuity -/

example : (s0 .parity 4 2, s1c .parity 4 2, s1a .parity 4 2) =
    (⟨[false, true, false, false], [false, false, true, true], 0⟩, ⟨[false, false, true, false], [false, false, true, true], 1⟩,
     ⟨[false, false, true, false], [false, false, true, true], 3⟩) := by decide
example : (s0 .parity 3 0).z = [false, false, false] ∧ (s0 .parity 3 0).x = [true, true, true] := by decide
/-- `encode(a†_1 a_1) = ½ III - ½ ZZI` on three sites, `encode(a†_0 a_0) = ½ III - ½ ZII` -/
example : encode .parity (fun w => w.absLe 0) (numberOp GQ 3 1) =
    .ok [(⟨[false, false, false], [false, false, false], 0⟩, ⟨1 / 2, 0⟩), (⟨[true, true, false], [false, false, false], 0⟩, ⟨-1 / 2, 0⟩)] := by
  decide +kernel
example : encode .parity (fun w => w.absLe 0) (numberOp GQ 3 0) =
    .ok [(⟨[false, false, false], [false, false, false], 0⟩, ⟨1 / 2, 0⟩), (⟨[true, false, false], [false, false, false], 0⟩, ⟨-1 / 2, 0⟩)] := by
  decide +kernel
example : ladderPair .parity 2 1 true ≠ ladderPair .jw 2 1 true := by decide
/-- occupation `|110⟩` is the parity state `|100⟩`, `|111⟩` is `|101⟩` -/
example : parOf (L := 3) ![true, true, false] = ![true, false, false] ∧ parOf (L := 3) ![true, true, true] = ![true, false, true] := by decide

end Qib.Encode
