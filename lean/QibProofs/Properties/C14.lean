import QibProofs.Lemmas.LatticeSpec
import QibProofs.Lemmas.LatticeBrickExtra
import Mathlib.Data.Real.Basic
import Mathlib.Tactic.Linarith
/-!
C14 — Lattices: index/coordinate maps are inverse; adjacency = nearest neighbours.
Property theorems only (helper lemmas: `QibProofs/Lemmas/Lattice*.lean`). All statements are about the executable
model `QibModel/Lattice.lean` (the definitions the driver `drv_lattice` runs: `Lat.nsites`, `Lat.adjMatrix`,
`Lat.i2c`, `Lat.c2i`, constructors `mk…`), for ALL shapes, per-axis boundary flags, both shifted-row/column
conventions, delete on/off, any number of layers (layered lattices over any base lattice, recursively).

Vocabulary (defined in the lemma files, restated by the `C14_spec_…` theorems below):
* `Step n per x y`      nearest neighbours on one axis of extent `n`: `x ≠ y` and a unit step, or – only if `per` – the
                        wrap-around step between `n-1` and `0`.
* `GridNN shape pbc a b` a `Step` in exactly one axis, all other components equal.
* `DiagNN shape pbc a b` 2-D: `b = a ± (1,1)`, component-wise wrapping only on periodic axes, `a ≠ b`.
* `OfcNN`               doubled coordinates: grid neighbours among vertices, or face centre ↔ corner (±1 in both).
* `BrickNN dsq r c r' c'` brick wall on a square grid: all links along axis `dsq`, the links starting at even `r+c` on the other.
* `hexDist4 conv a b`   four times the squared Euclidean distance of two hexagonal coordinates.
* `Lat.WF`              what the constructors guarantee (validated customized matrix; odd-face-centred: no periodic axis
                        of extent 1) plus brick/hexagonal extents ≥ 1.
* `Lat.entry l i j`     entry `(i, j)` of `l.adjMatrix` (the matrix the driver prints).
* `Lat.NN l a b`        the nearest-neighbour relation of class `l` on coordinates, recursive through layers.

Status of the two defects found for this property (`known_findings.json`, both repaired in `/repo`, the model mirrors the
repaired code): self-loops for a periodic axis of extent 1 – excluded by `C14_adj_diag_zero` for every class; diagonal
links of the triangular lattice wrapping over an open axis – excluded by `C14_triangular_adj_iff_nn` (`DStep` wraps only
if the axis is periodic). Nothing in this file is partial; the only standing hypotheses are `Lat.WF` (brick/hexagonal
extents ≥ 1, customized matrix validated by its constructor, odd-face-centred lattice without a periodic axis of extent 1 –
its constructor refuses those) and index ranges `i < nsites`.
-/
namespace Qib.Lattice
open Lat

/-! ### 0. The specification vocabulary, restated -/

theorem C14_spec_step (n : Nat) (per : Bool) (x y : Nat) :
    Step n per x y ↔
      x ≠ y ∧ (x + 1 = y ∨ y + 1 = x ∨ (per = true ∧ ((x + 1 = n ∧ y = 0) ∨ (y + 1 = n ∧ x = 0)))) := Iff.rfl

/-- on an open axis: a unit step; on a periodic axis: `y ≡ x ± 1 (mod n)` and `y ≠ x` -/
theorem C14_spec_step_mod (n : Nat) (per : Bool) (x y : Nat) (hx : x < n) (hy : y < n) :
    Step n per x y ↔
      if per = true then x ≠ y ∧ ((x + 1) % n = y ∨ (y + 1) % n = x) else (x + 1 = y ∨ y + 1 = x) := by
  unfold Step
  cases per
  · simp only [Bool.false_eq_true, false_and, or_false, if_false]; omega
  · simp only [true_and, if_true]
    have e1 : (x + 1) % n = if x + 1 = n then 0 else x + 1 := by
      split
      · next h => rw [h, Nat.mod_self]
      · rw [Nat.mod_eq_of_lt (by omega)]
    have e2 : (y + 1) % n = if y + 1 = n then 0 else y + 1 := by
      split
      · next h => rw [h, Nat.mod_self]
      · rw [Nat.mod_eq_of_lt (by omega)]
    rw [e1, e2]
    split <;> split <;> omega

theorem C14_spec_gridNN (shape : List Nat) (pbc : List Bool) (a b : List Nat) :
    GridNN shape pbc a b ↔
      ∃ d, d < shape.length ∧ Step (shape.getD d 1) (pbc.getD d false) (a.getD d 0) (b.getD d 0) ∧
        ∀ e, e ≠ d → a.getD e 0 = b.getD e 0 := Iff.rfl

theorem C14_spec_diagNN (shape : List Nat) (pbc : List Bool) (a b : List Nat) :
    DiagNN shape pbc a b ↔
      shape.length = 2 ∧ a ≠ b ∧ ∃ up : Bool,
        DStep (shape.getD 0 1) (pbc.getD 0 false) up (a.getD 0 0) (b.getD 0 0) ∧
        DStep (shape.getD 1 1) (pbc.getD 1 false) up (a.getD 1 0) (b.getD 1 0) := Iff.rfl

theorem C14_spec_dstep (n : Nat) (per up : Bool) (x y : Nat) :
    DStep n per up x y ↔
      if up = true then (x + 1 = y ∨ (per = true ∧ x + 1 = n ∧ y = 0))
      else (y + 1 = x ∨ (per = true ∧ y + 1 = n ∧ x = 0)) := Iff.rfl

/-- a component of a diagonal step over an OPEN axis is a plain unit step (never a wrap) -/
theorem C14_spec_dstep_open (n : Nat) (up : Bool) (x y : Nat) :
    DStep n false up x y ↔ if up = true then x + 1 = y else y + 1 = x := by
  unfold DStep; cases up <;> simp

theorem C14_spec_ofcNN (n0 n1 : Nat) (pbc : List Bool) (a b : Nat × Nat) :
    OfcNN n0 n1 pbc a b ↔
      (a.1 % 2 = 0 ∧ b.1 % 2 = 0 ∧ GridNN [n0, n1] pbc [a.1 / 2, a.2 / 2] [b.1 / 2, b.2 / 2]) ∨
      (a.1 % 2 ≠ b.1 % 2 ∧ (a.1 + 1 = b.1 ∨ b.1 + 1 = a.1) ∧ (a.2 + 1 = b.2 ∨ b.2 + 1 = a.2)) := Iff.rfl

theorem C14_spec_noTrivialWrap (shape : List Nat) (pbc : List Bool) :
    NoTrivialWrap shape pbc ↔ ∀ d, d < shape.length → pbc.getD d false = true → shape.getD d 1 ≠ 1 := Iff.rfl

theorem C14_spec_brickNN (dsq r c r' c' : Nat) :
    BrickNN dsq r c r' c' ↔
      if dsq = 0 then
        (c = c' ∧ (r + 1 = r' ∨ r' + 1 = r)) ∨
          (r = r' ∧ ((c + 1 = c' ∧ (r + c) % 2 = 0) ∨ (c' + 1 = c ∧ (r + c') % 2 = 0)))
      else
        (r = r' ∧ (c + 1 = c' ∨ c' + 1 = c)) ∨
          (c = c' ∧ ((r + 1 = r' ∧ (r + c) % 2 = 0) ∨ (r' + 1 = r ∧ (r' + c) % 2 = 0))) := Iff.rfl

/-- `hexDist4` is four times the squared Euclidean distance of the decoded coordinates
(`cols`: `(x, y) = (a₀·√3/2, a₁/2)`, `rows`: `(x, y) = (a₀/2, a₁·√3/2)`), for any real `s` with `s² = 3` -/
theorem C14_spec_hexDist4_real (conv : Conv) (a b : List Int) (s : ℝ) (hs : s * s = 3) :
    (match conv with
      | .cols => ((a.getD 0 0 : ℝ) * s / 2 - (b.getD 0 0 : ℝ) * s / 2) ^ 2 + ((a.getD 1 0 : ℝ) / 2 - (b.getD 1 0 : ℝ) / 2) ^ 2
      | .rows => ((a.getD 0 0 : ℝ) / 2 - (b.getD 0 0 : ℝ) / 2) ^ 2 + ((a.getD 1 0 : ℝ) * s / 2 - (b.getD 1 0 : ℝ) * s / 2) ^ 2) = 1
      ↔ hexDist4 conv a b = 4 := by
  have key : (hexDist4 conv a b = 4) ↔ ((hexDist4 conv a b : Int) : ℝ) = 4 := by
    constructor
    · intro h; rw [h]; norm_num
    · intro h; exact_mod_cast h
  rw [key]
  cases conv <;> simp only [hexDist4] <;> push_cast <;> constructor <;> intro h <;> nlinarith [hs]

/-- the mixed-radix (numpy C order) maps behind `unravel_index` / `ravel_multi_index` are mutually inverse
bijections between `[0, prod shape)` and the box of valid coordinates -/
theorem C14_spec_unravel (shape : List Nat) :
    (∀ i, i < sprod shape → validCoord shape (unravel shape i) = true ∧ ravel shape (unravel shape i) = i) ∧
    (∀ c, validCoord shape c = true → ravel shape c < sprod shape ∧ unravel shape (ravel shape c) = c) :=
  ⟨fun i hi => ⟨validCoord_unravel shape i hi, ravel_unravel shape i hi⟩,
   fun _ hc => ⟨ravel_lt hc, unravel_ravel hc⟩⟩

/-! ### 1. What the constructors accept is well-formed -/

theorem C14_mkInteger_WF (shape : List Nat) (p : PbcSpec) (l : Lat) (h : mkInteger shape p = .ok l) :
    l.WF ∧ ∃ pbc, l = .integer shape pbc ∧ pbc.length = shape.length := by
  unfold mkInteger at h
  cases hp : p.expand shape with
  | error e => simp [hp, bind, Except.bind] at h
  | ok pbc =>
    simp only [hp, bind, Except.bind, pure, Except.pure, Except.ok.injEq] at h
    subst h
    refine ⟨trivial, pbc, rfl, ?_⟩
    cases p with
    | all b => simp only [PbcSpec.expand, Except.ok.injEq] at hp; subst hp; simp
    | per q =>
      simp only [PbcSpec.expand] at hp
      split at hp
      · next hq => simp only [Except.ok.injEq] at hp; subst hp; exact hq
      · simp at hp

theorem C14_mkTriangular_WF (shape : List Nat) (p : PbcSpec) (l : Lat) (h : mkTriangular shape p = .ok l) :
    l.WF ∧ shape.length ≤ 2 ∧ ∃ pbc, l = .triangular shape pbc := by
  unfold mkTriangular at h
  split at h
  · simp at h
  · next hlen =>
    cases hp : p.expand shape with
    | error e => simp [hp, bind, Except.bind] at h
    | ok pbc =>
      simp only [hp, bind, Except.bind, pure, Except.pure, Except.ok.injEq] at h
      subst h; exact ⟨trivial, by omega, _, rfl⟩

/-- the odd-face-centred constructor refuses a periodic axis of odd extent (in particular of extent 1) -/
theorem C14_mkOfc_WF (shape : List Nat) (p : PbcSpec) (l : Lat) (h : mkOfc shape p = .ok l) :
    l.WF ∧ ∃ n0 n1 pbc, shape = [n0, n1] ∧ l = .ofc n0 n1 pbc ∧
      (pbc.getD 0 false = true → n0 % 2 = 0) ∧ (pbc.getD 1 false = true → n1 % 2 = 0) := by
  unfold mkOfc at h
  split at h
  · next n0 n1 =>
    cases hp : p.expand [n0, n1] with
    | error e => simp [hp, bind, Except.bind] at h
    | ok pbc =>
      simp only [hp, bind, Except.bind, pure, Except.pure] at h
      split at h
      · simp at h
      · next hc =>
        simp only [Except.ok.injEq] at h
        subst h
        have h0 : pbc.getD 0 false = true → n0 % 2 = 0 := by
          intro hp0
          simp only [hp0, Bool.and_true, Bool.or_eq_true, beq_iff_eq, Bool.and_eq_true, not_or] at hc
          omega
        have h1 : pbc.getD 1 false = true → n1 % 2 = 0 := by
          intro hp1
          simp only [hp1, Bool.and_true, Bool.or_eq_true, beq_iff_eq, Bool.and_eq_true, not_or] at hc
          omega
        refine ⟨?_, n0, n1, pbc, rfl, rfl, h0, h1⟩
        intro d hd hp
        have hd' : d = 0 ∨ d = 1 := by simp at hd; omega
        rcases hd' with rfl | rfl
        · have := h0 hp; simp only [List.getD_cons_zero]; omega
        · have := h1 hp; simp only [List.getD_cons_succ, List.getD_cons_zero]; omega
  · simp at h

theorem C14_mkBrick_WF (m n : Nat) (pt del : Bool) (conv : Conv) (l : Lat) (hm : 1 ≤ m) (hn : 1 ≤ n)
    (h : mkBrick [m, n] pt del conv = .ok l) : l.WF ∧ l = .brick ⟨m, n, del, conv⟩ ∧ pt = false := by
  unfold mkBrick at h
  cases pt <;> simp at h
  subst h; exact ⟨⟨hm, hn⟩, rfl, rfl⟩

theorem C14_mkHex_WF (m n : Nat) (pt : Bool) (conv : Conv) (l : Lat) (hm : 1 ≤ m) (hn : 1 ≤ n)
    (h : mkHex [m, n] pt conv = .ok l) : l.WF ∧ l = .hex m n conv ∧ pt = false := by
  unfold mkHex at h
  cases pt <;> simp at h
  subst h; exact ⟨⟨hm, hn⟩, rfl, rfl⟩

/-- a customized lattice exists only for a square matrix of the right size that is symmetric with zero diagonal (as
booleans); its adjacency matrix is the given one (non-zero ↦ 1) -/
theorem C14_mkCustom_WF (shape : List Nat) (rows : List (List Int)) (l : Lat) (h : mkCustom shape rows = .ok l) :
    l.WF ∧ l.nsites = sprod shape ∧
      ∀ i j, i < sprod shape → j < sprod shape →
        l.entry i j = if (rows.getD i []).getD j 0 ≠ 0 then 1 else 0 := by
  obtain ⟨a, rfl, hok⟩ := mkCustom_ok h
  refine ⟨hok, rfl, ?_⟩
  intro i j hi hj
  have ha : a = rows.map fun r => r.map fun v => v != 0 := by
    unfold mkCustom at h
    simp only at h
    split at h
    · simp at h
    · split at h
      · simp at h
      · split at h
        · simp at h
        · simp only [Except.ok.injEq, Lat.custom.injEq, true_and] at h; exact h.symm
  rw [entry_eq _ (by simpa [Lat.nsites] using hi) (by simpa [Lat.nsites] using hj)]
  simp only [Lat.adj, hi, hj, decide_true, Bool.true_and, ha]
  have e1 : (rows.map fun r => r.map fun v => v != 0).getD i [] = (rows.getD i []).map fun v => v != 0 := by
    simp only [List.getD_eq_getElem?_getD, List.getElem?_map]
    cases rows[i]? <;> simp
  have e2 : ((rows.getD i []).map fun v => v != 0).getD j false = ((rows.getD i []).getD j 0 != 0) := by
    simp only [List.getD_eq_getElem?_getD, List.getElem?_map]
    cases (rows[i]?.getD [])[j]? <;> simp
  rw [e1, e2]
  simp

theorem C14_mkLayered_WF (base : Lat) (nl : Int) (l : Lat) (hb : base.WF) (h : mkLayered base nl = .ok l) :
    l.WF ∧ 1 ≤ nl ∧ l = .layered base nl.toNat := by
  unfold mkLayered at h
  split at h
  · simp at h
  · simp only [Except.ok.injEq] at h
    subst h; exact ⟨hb, by omega, rfl⟩

/-! ### 2. index → coordinate → index; distinct sites have distinct coordinates -/

/-- `index_to_coord(i)` succeeds for every site and `coord_to_index` maps the result back to `i`
(the coordinate is handed back with the dtype `index_to_coord` produced: `isFloat`) -/
theorem C14_coord_index_roundtrip (l : Lat) (h : l.WF) (i : Nat) (hi : i < l.nsites) :
    ∃ c, l.i2c (i : Int) = .ok c ∧ l.c2i (l.isFloat c) c = .ok (some (i : Int)) :=
  roundtrip l h i hi

/-- the coordinate returned by `index_to_coord`, in closed form per class (`Lat.coord`) -/
theorem C14_index_to_coord_eq (l : Lat) (h : l.WF) (i : Nat) (hi : i < l.nsites) :
    l.i2c (i : Int) = .ok (l.coord i) :=
  i2c_coord l h i hi

theorem C14_index_coord_injective (l : Lat) (h : l.WF) (i j : Nat) (hi : i < l.nsites) (hj : j < l.nsites)
    (e : l.i2c (i : Int) = l.i2c (j : Int)) : i = j :=
  coord_injective l h i j hi hj e

/-- grid-indexed classes: an index `≥ nsites` fails the assertion, a negative one is refused -/
theorem C14_index_out_of_range_rejected (shape : List Nat) (pbc : List Bool) (i : Int) :
    (i ≥ sprod shape → (Lat.integer shape pbc).i2c i = .error .assertion) ∧
    (i < 0 → (Lat.integer shape pbc).i2c i = .error .valueError) :=
  gridI2c_reject shape i

/-- grid-indexed classes: every coordinate of the box is mapped to its site and back -/
theorem C14_index_coord_roundtrip_grid (shape : List Nat) (pbc : List Bool) (c : List Nat)
    (hc : validCoord shape c = true) :
    (Lat.integer shape pbc).c2i false (c.map Int.ofNat) = .ok (some (ravel shape c : Int)) ∧
    ravel shape c < (Lat.integer shape pbc).nsites ∧
    (Lat.integer shape pbc).i2c (ravel shape c : Int) = .ok (c.map Int.ofNat) := by
  refine ⟨gridC2i_ok hc, ravel_lt hc, ?_⟩
  have := gridI2c_ok (ravel_lt hc)
  simp only [Lat.i2c]
  rw [this, unravel_ravel hc]

/-! ### 3. The adjacency matrix: `nsites × nsites`, entries 0/1, symmetric, zero diagonal -/

theorem C14_adj_shape (l : Lat) :
    l.adjMatrix.length = l.nsites ∧ ∀ r ∈ l.adjMatrix, r.length = l.nsites :=
  ⟨adjMatrix_length l, adjMatrix_row_length l⟩

theorem C14_adj_binary (l : Lat) : ∀ r ∈ l.adjMatrix, ∀ v ∈ r, v = 0 ∨ v = 1 :=
  adjMatrix_binary l

/-- the printed matrix is the tabulation of `Lat.adj` -/
theorem C14_adj_entry (l : Lat) (i j : Nat) (hi : i < l.nsites) (hj : j < l.nsites) :
    l.entry i j = if l.adj i j = true then 1 else 0 :=
  entry_eq l hi hj

theorem C14_adj_symm (l : Lat) (h : l.WF) (i j : Nat) : l.entry i j = l.entry j i := by
  by_cases hi : i < l.nsites <;> by_cases hj : j < l.nsites
  · rw [entry_eq l hi hj, entry_eq l hj hi, adj_symm l h i j]
  all_goals simp [Lat.entry, Lat.adjMatrix, List.getD_eq_getElem?_getD, hi, hj]

theorem C14_adj_diag_zero (l : Lat) (h : l.WF) (i : Nat) : l.entry i i = 0 := by
  by_cases hi : i < l.nsites
  · rw [entry_eq l hi hi, adj_irrefl l h i]; simp
  · simp [Lat.entry, Lat.adjMatrix, List.getD_eq_getElem?_getD, hi]

/-! ### 4. The ones of the adjacency matrix are exactly the nearest-neighbour pairs -/

/-- all classes at once (layered lattices over any base, recursively): both coordinates exist and
`adj[i, j] = 1 ⇔` the coordinates are nearest neighbours in the sense of the class -/
theorem C14_adj_iff_nn (l : Lat) (h : l.WF) (i j : Nat) (hi : i < l.nsites) (hj : j < l.nsites) :
    ∃ a b, l.i2c (i : Int) = .ok a ∧ l.i2c (j : Int) = .ok b ∧ (l.entry i j = 1 ↔ l.NN a b) :=
  ⟨l.coord i, l.coord j, i2c_coord l h i hi, i2c_coord l h j hj,
    (entry_eq_one l hi hj).trans (adj_iff_NN l h i j hi hj)⟩

/-- integer lattice, any dimension: unit step in exactly one axis, wrap-around iff that axis is periodic -/
theorem C14_integer_adj_iff_nn (shape : List Nat) (pbc : List Bool) (i j : Nat)
    (hi : i < sprod shape) (hj : j < sprod shape) :
    (Lat.integer shape pbc).i2c (i : Int) = .ok ((unravel shape i).map Int.ofNat) ∧
    ((Lat.integer shape pbc).entry i j = 1 ↔
      ∃ d, d < shape.length ∧
        Step (shape.getD d 1) (pbc.getD d false) ((unravel shape i).getD d 0) ((unravel shape j).getD d 0) ∧
        ∀ e, e ≠ d → (unravel shape i).getD e 0 = (unravel shape j).getD e 0) := by
  refine ⟨gridI2c_ok hi, ?_⟩
  rw [entry_eq_one _ (by simpa [Lat.nsites] using hi) (by simpa [Lat.nsites] using hj)]
  simp only [Lat.adj, gridAdj_iff, GridNN]
  exact ⟨fun h => h.2.2, fun h => ⟨hi, hj, h⟩⟩

/-- triangular lattice: the integer-lattice links plus the `(1,1)` diagonal; each component of a diagonal step wraps
only over a periodic axis -/
theorem C14_triangular_adj_iff_nn (shape : List Nat) (pbc : List Bool) (i j : Nat)
    (hi : i < sprod shape) (hj : j < sprod shape) :
    (Lat.triangular shape pbc).i2c (i : Int) = .ok ((unravel shape i).map Int.ofNat) ∧
    ((Lat.triangular shape pbc).entry i j = 1 ↔
      GridNN shape pbc (unravel shape i) (unravel shape j) ∨ DiagNN shape pbc (unravel shape i) (unravel shape j)) := by
  refine ⟨gridI2c_ok hi, ?_⟩
  rw [entry_eq_one _ (by simpa [Lat.nsites] using hi) (by simpa [Lat.nsites] using hj)]
  simp only [Lat.adj, triAdj, Bool.or_eq_true, gridAdj_iff, triDiag_iff]
  constructor
  · rintro (h | h)
    · exact Or.inl h.2.2
    · exact Or.inr h.2.2
  · rintro (h | h)
    · exact Or.inl ⟨hi, hj, h⟩
    · exact Or.inr ⟨hi, hj, h⟩

/-- triangular lattice, 2-D, spelled out in row/column numbers -/
theorem C14_triangular_adj_iff_nn_2d (n0 n1 : Nat) (p0 p1 : Bool) (i j : Nat) (hi : i < n0 * n1) (hj : j < n0 * n1) :
    (Lat.triangular [n0, n1] [p0, p1]).entry i j = 1 ↔
      (Step n0 p0 (i / n1) (j / n1) ∧ i % n1 = j % n1) ∨
      (i / n1 = j / n1 ∧ Step n1 p1 (i % n1) (j % n1)) ∨
      (i ≠ j ∧ ∃ up : Bool, DStep n0 p0 up (i / n1) (j / n1) ∧ DStep n1 p1 up (i % n1) (j % n1)) := by
  have hs : sprod [n0, n1] = n0 * n1 := by simp [sprod]
  have := (C14_triangular_adj_iff_nn [n0, n1] [p0, p1] i j (hs ▸ hi) (hs ▸ hj)).2
  rw [this]
  simp only [GridNN, DiagNN, unravel_two, List.length_cons, List.length_nil]
  have hij : i = j ↔ (i / n1 = j / n1 ∧ i % n1 = j % n1) := by
    constructor
    · rintro rfl; exact ⟨rfl, rfl⟩
    · rintro ⟨h1, h2⟩; rw [← Nat.div_add_mod' i n1, ← Nat.div_add_mod' j n1, h1, h2]
  constructor
  · rintro (⟨d, hd, hst, ho⟩ | ⟨_, hne, up, h0, h1⟩)
    · have hd' : d = 0 ∨ d = 1 := by omega
      rcases hd' with rfl | rfl
      · left; exact ⟨by simpa using hst, by simpa using ho 1 (by omega)⟩
      · right; left; exact ⟨by simpa using ho 0 (by omega), by simpa using hst⟩
    · right; right
      refine ⟨?_, up, by simpa using h0, by simpa using h1⟩
      intro e; apply hne; rw [e]
  · rintro (⟨hst, ho⟩ | ⟨ho, hst⟩ | ⟨hne, up, h0, h1⟩)
    · left
      refine ⟨0, by simp, by simpa using hst, ?_⟩
      intro e he
      rcases e with _ | _ | e
      · exact absurd rfl he
      · simpa using ho
      · simp
    · left
      refine ⟨1, by simp, by simpa using hst, ?_⟩
      intro e he
      rcases e with _ | _ | e
      · simpa using ho
      · exact absurd rfl he
      · simp
    · right
      refine ⟨trivial, ?_, up, by simpa using h0, by simpa using h1⟩
      intro e
      simp only [List.cons.injEq, and_true] at e
      exact hne (hij.mpr e)

/-- odd-face-centred lattice (doubled coordinates `ofcCoord`): two vertices that are grid neighbours, or a face centre
and one of the four corners of its face. The code writes every pair of the periodic wrap without an `i != j` test; it is
the constructor's refusal of periodic axes of odd extent (`C14_mkOfc_WF` ⇒ `NoTrivialWrap`) that keeps the diagonal zero. -/
theorem C14_ofc_adj_iff_nn (n0 n1 : Nat) (pbc : List Bool) (hw : NoTrivialWrap [n0, n1] pbc) (i j : Nat)
    (hi : i < ofcNsites n0 n1) (hj : j < ofcNsites n0 n1) :
    (Lat.ofc n0 n1 pbc).i2c (i : Int) = .ok [((ofcCoord n0 n1 i).1 : Int), ((ofcCoord n0 n1 i).2 : Int)] ∧
    ((Lat.ofc n0 n1 pbc).entry i j = 1 ↔ OfcNN n0 n1 pbc (ofcCoord n0 n1 i) (ofcCoord n0 n1 j)) := by
  refine ⟨i2c_coord (.ofc n0 n1 pbc) hw i hi, ?_⟩
  rw [entry_eq_one _ hi hj]
  simp only [Lat.adj, ofcAdj_iff n0 n1 pbc hw]
  exact ⟨fun h => h.2.2, fun h => ⟨hi, hj, h⟩⟩

/-- the hypothesis `NoTrivialWrap` cannot be dropped: the adjacency loop itself would make the single site of a periodic
axis of extent 1 its own neighbour – and the constructor refuses exactly such lattices -/
theorem C14_ofc_needs_constructor_check :
    (Lat.ofc 1 2 [true, false]).entry 0 0 = 1 ∧ mkOfc [1, 2] (.per [true, false]) = .error .valueError ∧
    mkOfc [3, 2] (.all true) = .error .valueError := by
  refine ⟨by decide, rfl, rfl⟩

/-- `nsites` = vertices + numbered faces; a vertex site sits at `(x, y)`, a face site at the centre `(x+½, y+½)` of a
face with `x + y` even inside the rectangle, and every such face has exactly one site (injectivity: section 2) -/
theorem C14_ofc_sites (n0 n1 : Nat) :
    ofcNsites n0 n1 = n0 * n1 + (faceCells n0 n1).length ∧
    (∀ i, i < n0 * n1 → ofcCoord n0 n1 i = (2 * (i / n1), 2 * (i % n1))) ∧
    (∀ i, n0 * n1 ≤ i → i < ofcNsites n0 n1 → ∃ x y, ofcCoord n0 n1 i = (2 * x + 1, 2 * y + 1) ∧
        x + 1 < n0 ∧ y + 1 < n1 ∧ (x + y) % 2 = 0) ∧
    (∀ x y, x + 1 < n0 → y + 1 < n1 → (x + y) % 2 = 0 →
        ∃ i, n0 * n1 ≤ i ∧ i < ofcNsites n0 n1 ∧ ofcCoord n0 n1 i = (2 * x + 1, 2 * y + 1)) := by
  refine ⟨by rw [faceCells_length]; rfl, ?_, ?_, ?_⟩
  · intro i hi; simp [ofcCoord, hi]
  · intro i hv hi
    have hk : i - n0 * n1 < ((n0 - 1) * (n1 - 1) + 1) / 2 := by unfold ofcNsites at hi; omega
    obtain ⟨h1, h2, h3, -⟩ := faceCoord_spec (n1 - 1) (n0 - 1) _ hk
    refine ⟨(faceCoord (n1 - 1) (i - n0 * n1)).1, (faceCoord (n1 - 1) (i - n0 * n1)).2, ?_, by omega, by omega, h3⟩
    simp [ofcCoord, Nat.not_lt.mpr hv]
  · intro x y hx hy hp
    have hget := (cellsUpTo_getElem? (n1 - 1) (n0 - 1) ((x * (n1 - 1) + 1) / 2 + y / 2) x y).mpr
      ⟨by omega, by omega, hp, rfl⟩
    have hlen : (x * (n1 - 1) + 1) / 2 + y / 2 < ((n0 - 1) * (n1 - 1) + 1) / 2 := by
      have := (List.getElem?_eq_some_iff.mp hget).1
      rwa [cellsUpTo_length] at this
    have hfc := faceCells_getElem?_eq n0 n1 _ hlen
    rw [faceCells_eq, hget] at hfc
    have hfc' : faceCoord (n1 - 1) ((x * (n1 - 1) + 1) / 2 + y / 2) = (x, y) := (Option.some.inj hfc).symm
    refine ⟨n0 * n1 + ((x * (n1 - 1) + 1) / 2 + y / 2), by omega, by unfold ofcNsites; omega, ?_⟩
    have e : n0 * n1 + ((x * (n1 - 1) + 1) / 2 + y / 2) - n0 * n1 = (x * (n1 - 1) + 1) / 2 + y / 2 := by omega
    simp [ofcCoord, e, hfc']

/-- face centre ↔ its four corners: the face site at `(x+½, y+½)` is linked with vertex `j` iff `j` is one of
`(x, y), (x, y+1), (x+1, y), (x+1, y+1)`; two face sites are never linked -/
theorem C14_ofc_face_corners (n0 n1 : Nat) (pbc : List Bool) (hw : NoTrivialWrap [n0, n1] pbc) (i j x y : Nat)
    (hi : i < ofcNsites n0 n1) (hj : j < ofcNsites n0 n1) (hf : ofcCoord n0 n1 i = (2 * x + 1, 2 * y + 1)) :
    (Lat.ofc n0 n1 pbc).entry i j = 1 ↔
      j < n0 * n1 ∧ (j / n1 = x ∨ j / n1 = x + 1) ∧ (j % n1 = y ∨ j % n1 = y + 1) := by
  rw [(C14_ofc_adj_iff_nn n0 n1 pbc hw i j hi hj).2, hf]
  by_cases hv : j < n0 * n1
  · have hcj : ofcCoord n0 n1 j = (2 * (j / n1), 2 * (j % n1)) := by simp [ofcCoord, hv]
    rw [hcj]
    simp only [OfcNN, hv, true_and]
    constructor
    · rintro (⟨h, _⟩ | ⟨_, h1, h2⟩) <;> omega
    · intro h; right; omega
  · have hcj : ofcCoord n0 n1 j =
        (2 * (faceCoord (n1 - 1) (j - n0 * n1)).1 + 1, 2 * (faceCoord (n1 - 1) (j - n0 * n1)).2 + 1) := by
      simp [ofcCoord, hv]
    rw [hcj]
    simp only [OfcNN, hv, false_and, iff_false, not_or, not_and]
    constructor
    · intro h; omega
    · intro h; omega

/-- brick lattice (grid coordinates `(row, col)` as returned by `index_to_coord`), both conventions, delete on/off:
brick-wall neighbours, and neither site is one of the two surplus grid points -/
theorem C14_brick_adj_iff_nn (b : Brick) (hm : 1 ≤ b.m) (hn : 1 ≤ b.n) (i j : Nat) (hi : i < b.nsites) (hj : j < b.nsites) :
    (Lat.brick b).i2c (i : Int) = .ok [(b.row i : Int), (b.col i : Int)] ∧
    ((Lat.brick b).entry i j = 1 ↔
      BrickNN b.dSquare (b.row i) (b.col i) (b.row j) (b.col j) ∧
        ¬ b.isExtra (b.row i) (b.col i) ∧ ¬ b.isExtra (b.row j) (b.col j)) := by
  refine ⟨i2c_coord (.brick b) ⟨hm, hn⟩ i hi, ?_⟩
  rw [entry_eq_one _ hi hj]
  simp only [Lat.adj, Brick.adj_iff b hm hn]
  exact ⟨fun h => h.2.2, fun h => ⟨hi, hj, h⟩⟩

/-- the brick wall is the honeycomb: grid points are brick-wall neighbours iff the hexagonal coordinates assigned to
them are at Euclidean distance 1 -/
theorem C14_brick_nn_iff_unit_distance (conv : Conv) (r c r' c' : Nat) :
    BrickNN (match conv with | .cols => 0 | .rows => 1) r c r' c' ↔
      hexDist4 conv (hexCoord conv r c) (hexCoord conv r' c') = 4 :=
  brickNN_iff_unit_distance conv r c r' c'

/-- number of sites: the whole square grid, minus the two surplus points if they exist and are deleted -/
theorem C14_brick_nsites (b : Brick) (hm : 1 ≤ b.m) (hn : 1 ≤ b.n) :
    (Lat.brick b).nsites = if (b.delete && b.hasExtra) = true then b.R * b.C - 2 else b.R * b.C :=
  b.nsites_eq hm hn

/-- `delete = False`: a site on a surplus grid point has no link at all (its row and column are zero) -/
theorem C14_brick_surplus_isolated (b : Brick) (hm : 1 ≤ b.m) (hn : 1 ≤ b.n) (i j : Nat)
    (hi : i < b.nsites) (hj : j < b.nsites) (hx : b.isExtra (b.row i) (b.col i)) :
    (Lat.brick b).entry i j = 0 ∧ (Lat.brick b).entry j i = 0 := by
  have := Brick.extra_isolated b hm hn i j hx
  rw [entry_eq _ hi hj, entry_eq _ hj hi]
  simp only [Lat.adj, this]
  simp

/-- `delete = True`: no site sits on a surplus grid point, the links are exactly the brick-wall links -/
theorem C14_brick_deleted_adj_iff_nn (b : Brick) (hm : 1 ≤ b.m) (hn : 1 ≤ b.n) (hd : b.delete = true) (i j : Nat)
    (hi : i < b.nsites) (hj : j < b.nsites) :
    ¬ b.isExtra (b.row i) (b.col i) ∧
    ((Lat.brick b).entry i j = 1 ↔ BrickNN b.dSquare (b.row i) (b.col i) (b.row j) (b.col j)) := by
  have n1 := Brick.not_isExtra_of_delete b hm hn hd i hi
  have n2 := Brick.not_isExtra_of_delete b hm hn hd j hj
  refine ⟨n1, ?_⟩
  rw [(C14_brick_adj_iff_nn b hm hn i j hi hj).2]
  exact ⟨fun h => h.1, fun h => ⟨h, n1, n2⟩⟩

/-- `delete = True` is `delete = False` renumbered: the two `np.delete` calls skip exactly the two surplus grid points
(`renum` is strictly increasing and never hits one), and they remove no link -/
theorem C14_brick_delete_is_renumbering (m n : Nat) (conv : Conv) (hm : 1 ≤ m) (hn : 1 ≤ n) (i j : Nat)
    (hi : i < (Lat.brick ⟨m, n, true, conv⟩).nsites) (hj : j < (Lat.brick ⟨m, n, true, conv⟩).nsites) :
    (Brick.renum ⟨m, n, true, conv⟩ i) < (Lat.brick ⟨m, n, false, conv⟩).nsites ∧
    (i < j → Brick.renum ⟨m, n, true, conv⟩ i < Brick.renum ⟨m, n, true, conv⟩ j) ∧
    (Lat.brick ⟨m, n, true, conv⟩).entry i j =
      (Lat.brick ⟨m, n, false, conv⟩).entry (Brick.renum ⟨m, n, true, conv⟩ i) (Brick.renum ⟨m, n, true, conv⟩ j) := by
  have hns := (⟨m, n, true, conv⟩ : Brick).nsites_eq hm hn
  have hns' := (⟨m, n, false, conv⟩ : Brick).nsites_eq hm hn
  have hlt : ∀ a, a < (⟨m, n, true, conv⟩ : Brick).nsites →
      Brick.renum ⟨m, n, true, conv⟩ a < (⟨m, n, false, conv⟩ : Brick).nsites := by
    intro a ha
    simp only [Bool.false_and, Bool.false_eq_true, if_false] at hns'
    rw [hns']
    unfold Brick.renum
    cases hx : (⟨m, n, true, conv⟩ : Brick).hasExtra
    · simp only [hx, Bool.and_false, Bool.false_eq_true, if_false] at hns ⊢
      rw [hns] at ha; exact ha
    · simp only [hx, Bool.and_self, if_true] at hns ⊢
      rw [hns] at ha
      exact (Brick.undelete_facts ⟨m, n, true, conv⟩ hm hn hx rfl a ha).2.1
  refine ⟨hlt i hi, ?_, ?_⟩
  · intro hij
    unfold Brick.renum
    split
    · exact Brick.undelete_lt_of_lt _ hij
    · exact hij
  · rw [entry_eq _ hi hj, entry_eq _ (hlt i hi) (hlt j hj)]
    have e : (Lat.brick ⟨m, n, true, conv⟩).adj i j =
        (Lat.brick ⟨m, n, false, conv⟩).adj (Brick.renum ⟨m, n, true, conv⟩ i) (Brick.renum ⟨m, n, true, conv⟩ j) :=
      Brick.adj_delete_eq m n conv hm hn i j hi hj
    rw [e]

/-- every grid point of the embedding square grid that is not a deleted surplus point is the coordinate of a site, and
`coord_to_index` finds that site (coordinate → index → coordinate) -/
theorem C14_brick_gridpoint_is_site (b : Brick) (hm : 1 ≤ b.m) (hn : 1 ≤ b.n) (r c : Nat) (hr : r < b.R) (hc : c < b.C)
    (hx : b.delete = true → ¬ b.isExtra r c) :
    ∃ i, i < b.nsites ∧ (Lat.brick b).i2c (i : Int) = .ok [(r : Int), (c : Int)] ∧
      (Lat.brick b).c2i false [(r : Int), (c : Int)] = .ok (some (i : Int)) := by
  obtain ⟨i, hi, rfl, rfl⟩ := Brick.gridpoint_is_site b hm hn r c hr hc hx
  exact ⟨i, hi, i2c_coord (.brick b) ⟨hm, hn⟩ i hi, Brick.c2i_i2c b hm hn i hi⟩

/-- `delete = True`: `coord_to_index` answers `None` for the two surplus grid points -/
theorem C14_brick_deleted_point_none (b : Brick) (hm : 1 ≤ b.m) (hn : 1 ≤ b.n) (hd : b.delete = true) (r c : Nat)
    (hx : b.isExtra r c) : (Lat.brick b).c2i false [(r : Int), (c : Int)] = .ok none :=
  Brick.c2i_extra b hm hn hd r c hx

/-- hexagonal lattice, both conventions: `adj[i, j] = 1` iff the coordinates returned by `index_to_coord` are at
Euclidean distance 1 (exact encoding; see `C14_spec_hexDist4_real`) -/
theorem C14_hex_adj_iff_unit_distance (m n : Nat) (conv : Conv) (hm : 1 ≤ m) (hn : 1 ≤ n) (i j : Nat)
    (hi : i < (Lat.hex m n conv).nsites) (hj : j < (Lat.hex m n conv).nsites) :
    (Lat.hex m n conv).i2c (i : Int) = .ok ((Lat.hex m n conv).coord i) ∧
    ((Lat.hex m n conv).entry i j = 1 ↔
      hexDist4 conv ((Lat.hex m n conv).coord i) ((Lat.hex m n conv).coord j) = 4) := by
  refine ⟨i2c_coord (.hex m n conv) ⟨hm, hn⟩ i hi, ?_⟩
  rw [entry_eq_one _ hi hj]
  exact adj_iff_NN (.hex m n conv) ⟨hm, hn⟩ i j hi hj

/-- the hexagonal lattice and its brick form (`delete = True`, same convention) are the same graph on the same
site numbers, and the hexagonal coordinate is a function of the brick grid coordinate -/
theorem C14_hex_graph_eq_brick (m n : Nat) (conv : Conv) :
    (Lat.hex m n conv).nsites = (Lat.brick ⟨m, n, true, conv⟩).nsites ∧
    (Lat.hex m n conv).adjMatrix = (Lat.brick ⟨m, n, true, conv⟩).adjMatrix ∧
    ∀ i, (Lat.hex m n conv).coord i =
      hexCoord conv (Brick.row ⟨m, n, true, conv⟩ i) (Brick.col ⟨m, n, true, conv⟩ i) := by
  have hn : (Lat.hex m n conv).nsites = (Lat.brick ⟨m, n, true, conv⟩).nsites := by
    simp [Lat.nsites, Brick.nsites]
  refine ⟨hn, ?_, fun _ => rfl⟩
  unfold Lat.adjMatrix
  rw [hn]
  rfl

/-- fully connected lattice: all pairs of different sites -/
theorem C14_full_adj_iff (shape : List Nat) (i j : Nat) (hi : i < sprod shape) (hj : j < sprod shape) :
    (Lat.full shape).entry i j = 1 ↔ i ≠ j := by
  rw [entry_eq_one _ (by simpa [Lat.nsites] using hi) (by simpa [Lat.nsites] using hj)]
  simp [Lat.adj, hi, hj]

/-- layered lattice: site `i` is base site `i % nb` in layer `i / nb`; inside a layer the base adjacency, between two
different layers exactly the links between copies of the same base site -/
theorem C14_layered_adj_iff (base : Lat) (nl : Nat) (h : base.WF) (i j : Nat)
    (hi : i < (Lat.layered base nl).nsites) (hj : j < (Lat.layered base nl).nsites) :
    (Lat.layered base nl).i2c (i : Int) = .ok (((i / base.nsites : Nat) : Int) :: base.coord (i % base.nsites)) ∧
    base.i2c ((i % base.nsites : Nat) : Int) = .ok (base.coord (i % base.nsites)) ∧
    ((Lat.layered base nl).entry i j = 1 ↔
      (i / base.nsites = j / base.nsites ∧ base.entry (i % base.nsites) (j % base.nsites) = 1) ∨
      (i / base.nsites ≠ j / base.nsites ∧ i % base.nsites = j % base.nsites)) := by
  have hnb := layered_base_pos hi
  have hmi : i % base.nsites < base.nsites := Nat.mod_lt _ hnb
  have hmj : j % base.nsites < base.nsites := Nat.mod_lt _ hnb
  refine ⟨i2c_coord (.layered base nl) h i hi, i2c_coord base h _ hmi, ?_⟩
  rw [entry_eq_one _ hi hj, entry_eq_one _ hmi hmj]
  simp only [Lat.nsites] at hi hj
  simp only [Lat.adj, hi, hj, decide_true, Bool.true_and]
  by_cases hl : i / base.nsites = j / base.nsites
  · simp [hl]
  · have hl' : (i / base.nsites == j / base.nsites) = false := by simpa using hl
    simp [hl, hl']

/-- block structure of the layered matrix: `nl × nl` blocks of size `nb`, diagonal blocks = base matrix,
off-diagonal blocks = identity -/
theorem C14_layered_blocks (base : Lat) (nl : Nat) (la lb u v : Nat)
    (hla : la < nl) (hlb : lb < nl) (hu : u < base.nsites) (hv : v < base.nsites) :
    (Lat.layered base nl).entry (la * base.nsites + u) (lb * base.nsites + v) =
      if la = lb then base.entry u v else if u = v then 1 else 0 := by
  have hbound : ∀ a w, a < nl → w < base.nsites → a * base.nsites + w < nl * base.nsites := by
    intro a w ha hw
    have := Nat.mul_le_mul_right base.nsites (show a + 1 ≤ nl by omega)
    rw [Nat.add_mul, Nat.one_mul] at this
    omega
  have hi := hbound la u hla hu
  have hj := hbound lb v hlb hv
  have hnb : 0 < base.nsites := by omega
  have d1 : (la * base.nsites + u) / base.nsites = la := by
    rw [Nat.mul_comm, Nat.mul_add_div hnb, Nat.div_eq_of_lt hu]; rfl
  have d2 : (lb * base.nsites + v) / base.nsites = lb := by
    rw [Nat.mul_comm, Nat.mul_add_div hnb, Nat.div_eq_of_lt hv]; rfl
  have m1 : (la * base.nsites + u) % base.nsites = u := by
    rw [Nat.mul_comm, Nat.mul_add_mod, Nat.mod_eq_of_lt hu]
  have m2 : (lb * base.nsites + v) % base.nsites = v := by
    rw [Nat.mul_comm, Nat.mul_add_mod, Nat.mod_eq_of_lt hv]
  rw [entry_eq (.layered base nl) (by simpa [Lat.nsites] using hi) (by simpa [Lat.nsites] using hj), entry_eq base hu hv]
  simp only [Lat.adj, hi, hj, decide_true, Bool.true_and, d1, d2, m1, m2]
  by_cases hl : la = lb
  · simp [hl]
  · have hl' : (la == lb) = false := by simpa using hl
    simp [hl, hl']

/-! ### 5. Non-vacuity: the hypotheses are satisfiable and the statements say something on concrete lattices
(these `example`s are tests by evaluation, not part of the proof) -/

example : (Lat.integer [2, 3] [true, false]).WF := trivial
example : (Lat.layered (.brick ⟨2, 2, false, .rows⟩) 3).WF := ⟨by decide, by decide⟩
example : mkInteger [2, 3] (.per [true, false]) = .ok (.integer [2, 3] [true, false]) := rfl
example : mkCustom [3] [[0, 1, 0], [1, 0, 2], [0, 2, 0]] =
    .ok (.custom [3] [[false, true, false], [true, false, true], [false, true, false]]) := rfl
/-- repaired defect 1: a periodic axis of extent 1 gives no self-loop -/
example : (Lat.integer [1] [true]).adjMatrix = [[0]] := by decide
example : (Lat.integer [1, 3] [true, false]).adjMatrix = [[0, 1, 0], [1, 0, 1], [0, 1, 0]] := by decide
/-- extent 2, periodic: one link, not two -/
example : (Lat.integer [2] [true]).adjMatrix = [[0, 1], [1, 0]] := by decide
/-- repaired defect 2: no diagonal wrap over the open second axis, but the wrap over the periodic first axis -/
example : (Lat.triangular [2, 3] [true, false]).entry 0 5 = 0 ∧ (Lat.triangular [2, 3] [true, false]).entry 0 4 = 1 ∧
    (Lat.triangular [2, 3] [true, false]).entry 3 1 = 1 := by decide
example : (Lat.triangular [3, 3] [false, false]).entry 0 4 = 1 ∧ (Lat.triangular [3, 3] [false, false]).entry 1 3 = 0 := by
  decide
example : Step 4 true 3 0 ∧ ¬ Step 4 false 3 0 ∧ ¬ Step 1 true 0 0 := by decide
example : (Lat.ofc 3 3 [false, false]).nsites = 11 ∧ (Lat.ofc 3 3 [false, false]).coord 9 = [1, 1] ∧
    (Lat.ofc 3 3 [false, false]).coord 10 = [3, 3] ∧ (Lat.ofc 3 3 [false, false]).entry 9 4 = 1 ∧
    (Lat.ofc 3 3 [false, false]).entry 9 8 = 0 := by decide
example : (Lat.hex 1 1 .cols).nsites = 6 ∧ (Lat.hex 1 1 .cols).coord 0 = [0, 1] ∧ (Lat.hex 1 1 .cols).coord 1 = [0, 3] ∧
    (Lat.hex 1 1 .cols).entry 0 1 = 1 ∧ hexDist4 .cols [0, 1] [0, 3] = 4 := by decide
example : (Lat.brick ⟨1, 2, false, .cols⟩).nsites = 12 ∧ (Lat.brick ⟨1, 2, true, .cols⟩).nsites = 10 ∧
    Brick.isExtra ⟨1, 2, false, .cols⟩ 3 0 :=
  ⟨by decide, by decide, by simp [Brick.isExtra, Brick.hasExtra, Brick.R, Brick.C]⟩
example : (Lat.layered (.full [2]) 2).adjMatrix = [[0, 1, 1, 0], [1, 0, 0, 1], [1, 0, 0, 1], [0, 1, 1, 0]] := by decide
example : (Lat.integer [2, 3] [true, false]).i2c 4 = .ok [1, 1] ∧
    (Lat.integer [2, 3] [true, false]).c2i false [1, 1] = .ok (some 4) := by decide

end Qib.Lattice
