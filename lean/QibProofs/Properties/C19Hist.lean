import QibProofs.Properties.C19
import QibProofs.Lemmas.QubitizationHist
import QibProofs.Lemmas.QubitizationHistEvt
/-!
C19 — Qubitization circuits equal their defining products, for objects reached by ARBITRARY HISTORIES of the public mutators
(property theorems).

Model: `QibModel/QubitizationHist.lean` (executed by `drv_qubitization`, ops `pcps.history` / `evt.history`, tied to the code by
`harness/props/c19.py` after every call of random and exhaustive-short histories): the attributes of a
`ProjectorControlledPhaseShift` (`PState`) and of an `EigenvalueTransformation` (`EState`: block-encoding descriptor, the ALIASED
processing object, angle list), one transition per public call (`PState.step`, `EState.exec` — what a setter rejects, erases,
ignores or forwards to the inner object; `as_matrix` / `as_circuit` are calls too because they write the angle of the processing
object), histories `PState.run` / `EState.run`.

The theorems compose the C19 theorems about a freshly described object (`Properties/C19.lean`) with facts that hold in EVERY
reachable state: the current attributes are the last values passed (`…_last_values`), the processing object inside an
`EigenvalueTransformation` is in the state the calls would have produced on it directly (`C19_evt_delegation`), whatever
`as_matrix` / `as_circuit` return is the defining phase shift / alternating product for the CURRENT attributes, and exactly
which states make them raise.
-/
open Matrix NormedSpace Complex Qib.Qubitization Qib.C19

namespace Qib.C19Hist

/-! ### `ProjectorControlledPhaseShift`: what every call does -/

/-- **`__init__`**: an entry outside {0,1} is a `ValueError` (checked first), an unknown method a `RuntimeError`; attributes
for which `None` was passed are NOT assigned; a method other than "auxiliary" makes the auxiliary list empty whatever was
passed -/
theorem C19_pcps_init_spec {α : Type} (θ : α) (proj : List Int) (enc aux : CArg) (method : String) :
    ((∃ x ∈ proj, x ≠ 0 ∧ x ≠ 1) → PState.init θ proj enc aux method = .error .valueError) ∧
    ((∀ x ∈ proj, x = 0 ∨ x = 1) →
      PState.init θ proj enc aux method =
        if method = "auxiliary" then .ok ⟨θ, proj, enc.norm, aux.norm, .auxiliary⟩
        else if method = "c-phase" then .ok ⟨θ, proj, enc.norm, some [], .cphase⟩ else .error .runtimeError) := by
  constructor
  · rintro ⟨x, hx, h0, h1⟩
    have : proj.any (fun s => s != 0 && s != 1) = true := by
      simp only [List.any_eq_true]; exact ⟨x, hx, by simp [h0, h1]⟩
    simp [PState.init, this]
  · intro h
    have : ¬ proj.any (fun s => s != 0 && s != 1) = true := by
      simp only [List.any_eq_true, not_exists, not_and]
      intro x hx
      rcases h x hx with rfl | rfl <;> simp
    simp [PState.init, this]

/-- **the five setters**, completely: `set_theta`, `set_encoding_qubits` accept everything; `set_projection_state` accepts
exactly the lists whose SET of entries is {0,1} (so never an all-zero state); `set_method` accepts the two names and the
c-phase name empties the auxiliary list (the auxiliary name does not restore it); `set_auxiliary_qubits` writes only while
the method is "auxiliary" and otherwise returns silently -/
theorem C19_pcps_step_spec {α : Type} (s : PState α) :
    (∀ θ, s.step (.setTheta θ) = ⟨{ s with theta := θ }, none⟩) ∧
    (∀ ps, ProjSettable ps → s.step (.setProj ps) = ⟨{ s with proj := ps }, none⟩) ∧
    (∀ ps, ¬ ProjSettable ps → s.step (.setProj ps) = ⟨s, some .valueError⟩) ∧
    s.step (.setMethod "auxiliary") = ⟨{ s with method := .auxiliary }, none⟩ ∧
    s.step (.setMethod "c-phase") = ⟨{ s with method := .cphase, aux := some [] }, none⟩ ∧
    (∀ m, m ≠ "auxiliary" → m ≠ "c-phase" → s.step (.setMethod m) = ⟨s, some .runtimeError⟩) ∧
    (∀ a, s.step (.setEnc a) = ⟨{ s with enc := some a.norm }, none⟩) ∧
    (∀ a, s.method = .auxiliary → s.step (.setAux a) = ⟨{ s with aux := some a.norm }, none⟩) ∧
    (∀ a, s.method = .cphase → s.step (.setAux a) = ⟨s, none⟩) := by
  refine ⟨fun θ => rfl, fun ps h => ?_, fun ps h => ?_, rfl, rfl, fun m h1 h2 => ?_, fun a => rfl, fun a hm => ?_, fun a hm => ?_⟩
  · simp [PState.step, (projSetIsZeroOne_iff ps).mpr h, Outcome.ok]
  · have : ¬ projSetIsZeroOne ps = true := fun h' => h ((projSetIsZeroOne_iff ps).mp h')
    simp [PState.step, this, Outcome.fail]
  · simp [PState.step, h1, h2, Outcome.fail]
  · simp [PState.step, hm, Outcome.ok]
  · simp [PState.step, hm, Outcome.ok]

/-- **a rejected setter call leaves the object unchanged** -/
theorem C19_pcps_rejected_unchanged {α : Type} (s : PState α) (op : POp α) (e : Err) (h : (s.step op).raised = some e) :
    (s.step op).state = s :=
  s.step_raised_unchanged op e h

/-! ### `ProjectorControlledPhaseShift`: every history -/

/-- **state invariant of all histories**: however the object was constructed and whatever calls followed, the projection
state has 0/1 entries only and with the c-phase method the auxiliary list is (assigned and) empty -/
theorem C19_pcps_invariant {α : Type} (θ : α) (proj : List Int) (enc aux : CArg) (method : String) (s0 : PState α)
    (h : PState.init θ proj enc aux method = .ok s0) (ops : List (POp α)) : (s0.run ops).Inv :=
  s0.run_inv ops (PState.init_inv h)

/-- **the current attributes are the last values passed**: after any history the angle is the last one given to `set_theta`,
the encoding qubits the last list given to `set_encoding_qubits`, the projection state the last ACCEPTED one, the method the
last valid name, and the auxiliary qubits the last list given while the method was "auxiliary", emptied by every switch to
"c-phase" (`lastAux`) -/
theorem C19_pcps_last_values {α : Type} (s0 : PState α) (ops : List (POp α)) :
    (s0.run ops).theta = lastTheta s0.theta ops ∧ (s0.run ops).enc = lastEnc s0.enc ops ∧
    (s0.run ops).proj = lastProj s0.proj ops ∧ (s0.run ops).method = lastMethod s0.method ops ∧
    (s0.run ops).aux = lastAux s0.method s0.aux ops :=
  ⟨s0.run_theta ops, s0.run_enc ops, s0.run_proj_last ops, s0.run_method ops, s0.run_aux ops⟩

/-- **`as_matrix` after any history**: if it returns, then no `set_projection_state` call was ever accepted — the projection
state is still the constructor's, non-empty and all-zero (the matrix size is fixed at construction) — and the matrix is the
diagonal `exp(iθ(2|0…0⟩⟨0…0| − 1))` for the LAST angle passed -/
theorem C19_pcps_hist_as_matrix (s0 : PState ℝ) (ops : List (POp ℝ)) (d : List Bool) (h : (s0.run ops).asMatrixDiag = .ok d) :
    (s0.run ops).proj = s0.proj ∧ s0.proj = List.replicate s0.proj.length 0 ∧ s0.proj ≠ [] ∧
    d.length = 2 ^ s0.proj.length ∧ (∀ k, k < 2 ^ s0.proj.length → d[k]? = some (k == 0)) ∧
    Matrix.diagonal (fun k : Fin (2 ^ s0.proj.length) =>
        if d.getD k.val false then Complex.exp (I * (lastTheta s0.theta ops : ℝ)) else Complex.exp (-(I * (lastTheta s0.theta ops : ℝ))))
      = exp ((I * ((lastTheta s0.theta ops : ℝ) : ℂ)) • reflOn (fun k : Fin (2 ^ s0.proj.length) => k.val = 0)) := by
  have hp : (s0.run ops).proj = s0.proj := by
    rcases s0.run_proj ops with hp | hp
    · exact hp
    · rw [(s0.run ops).asMatrixDiag_of_one_mem hp] at h; cases h
  unfold PState.asMatrixDiag at h
  rw [hp] at h
  obtain ⟨hz, hne, hlen, hk⟩ := C19_pcps_matrix_model s0.proj d h
  refine ⟨hp, hz, hne, hlen, hk, ?_⟩
  rw [C19_pcps_matrix_def]
  congr 1
  funext k
  have := hk k.val k.isLt
  have hd : d.getD k.val false = (k.val == 0) := by simp [List.getD_eq_getElem?_getD, this]
  rw [hd]
  by_cases h0 : k.val = 0 <;> simp [h0]

/-- **`num_wires` after any history**: the number of encoding qubits, plus the number of auxiliary qubits with the auxiliary
method; reading it raises (`AttributeError`) exactly when a needed list was never assigned -/
theorem C19_pcps_hist_num_wires {α : Type} (s0 : PState α) (ops : List (POp α)) :
    (∀ e a, lastMethod s0.method ops = .auxiliary → lastEnc s0.enc ops = some e → lastAux s0.method s0.aux ops = some a →
      (s0.run ops).numWires = .ok (a.length + e.length)) ∧
    (∀ e, lastMethod s0.method ops = .cphase → lastEnc s0.enc ops = some e → (s0.run ops).numWires = .ok e.length) ∧
    (lastEnc s0.enc ops = none → (s0.run ops).numWires = .error .other) := by
  rw [← s0.run_method ops, ← s0.run_enc ops, ← s0.run_aux ops]
  refine ⟨fun e a hm he ha => by simp [PState.numWires, hm, he, ha], fun e hm he => by simp [PState.numWires, hm, he], fun he => ?_⟩
  cases hm : (s0.run ops).method <;> cases ha : (s0.run ops).aux <;> simp [PState.numWires, hm, he, ha]

/-- **which states make `as_matrix` return**: exactly the non-empty all-zero projection states (whatever the encoding qubits,
the method or the auxiliary qubits are — `as_matrix` never looks at them) -/
theorem C19_pcps_as_matrix_returns_iff {α : Type} (s : PState α) :
    (∃ d, s.asMatrixDiag = .ok d) ↔ s.proj ≠ [] ∧ s.proj = List.replicate s.proj.length 0 := by
  constructor
  · rintro ⟨d, hd⟩
    obtain ⟨hz, hne, _, _⟩ := C19_pcps_matrix_model s.proj d hd
    exact ⟨hne, hz⟩
  · rintro ⟨hne, hz⟩
    have h2 : ¬ s.proj.any (· != 0) = true := by rw [hz]; simp [List.any_replicate]
    have h3 : ¬ s.proj.isEmpty = true := by
      cases hp : s.proj with
      | nil => exact absurd hp hne
      | cons x l => simp
    refine ⟨(List.range (2 ^ s.proj.length)).map (· == binaryIndex s.proj), ?_⟩
    unfold PState.asMatrixDiag pcpsMatrixDiag
    rw [if_neg h2, if_neg h3]

/-- **`as_circuit` after any history, c-phase method**: whatever it returns is, on every register, exactly
`exp(iθ(2P₀−1))` with `θ` the last angle passed and `P₀` the projector onto "all qubits of the last list passed to
`set_encoding_qubits` read 0" -/
theorem C19_pcps_hist_cphase_matrix (s0 : PState ℝ) (ops : List (POp ℝ)) (c : List (GateDesc ℝ))
    (hm : lastMethod s0.method ops = .cphase) (h : (s0.run ops).asCircuit = .ok c) (n : ℕ) :
    ∃ e, lastEnc s0.enc ops = some e ∧
      circuitMat n c = exp ((I * ((lastTheta s0.theta ops : ℝ) : ℂ)) • reflOn (EncZero n e)) := by
  cases he : (s0.run ops).enc with
  | none => rw [(s0.run ops).asCircuit_none he] at h; cases h
  | some e =>
    refine ⟨e, by rw [← s0.run_enc ops, he], ?_⟩
    rw [(s0.run ops).asCircuit_eq e he] at h
    have := C19_pcps_cphase_matrix ((s0.run ops).toPcps e) c (by rw [← hm, ← s0.run_method ops]; rfl) h n
    rw [← s0.run_theta ops]
    exact this

/-- **`as_circuit` after any history, auxiliary method**: whatever it returns uses the first qubit `a` of the CURRENT auxiliary
list (`lastAux`); if `a` is not an encoding qubit then on every register containing `a` the circuit is diagonal (the auxiliary
qubit returns to where it started) and on the auxiliary-`|0⟩` block it is `exp(iθ(2P₀−1))` for the last angle and the last
encoding qubits passed -/
theorem C19_pcps_hist_auxiliary_matrix (s0 : PState ℝ) (ops : List (POp ℝ)) (c : List (GateDesc ℝ))
    (hm : lastMethod s0.method ops = .auxiliary) (h : (s0.run ops).asCircuit = .ok c) :
    ∃ e a r, lastEnc s0.enc ops = some e ∧ lastAux s0.method s0.aux ops = some (a :: r) ∧
      ∀ n, a ∉ e → a < n →
        circuitMat n c = Matrix.diagonal (fun R => if (ext n R a = false ↔ EncZero n e R)
            then Complex.exp (I * (lastTheta s0.theta ops : ℝ)) else Complex.exp (-(I * (lastTheta s0.theta ops : ℝ)))) ∧
        circuitMat n c * wireZero n a
          = exp ((I * ((lastTheta s0.theta ops : ℝ) : ℂ)) • reflOn (EncZero n e)) * wireZero n a := by
  obtain ⟨e, he, _, hcase⟩ := (PState.asCircuit_ok_iff (s0.run ops)).mp ⟨c, h⟩
  have hmeth : (s0.run ops).method = .auxiliary := by rw [s0.run_method ops]; exact hm
  rcases hcase with ⟨_, a, r, ha⟩ | ⟨hc, _⟩
  · refine ⟨e, a, r, by rw [← s0.run_enc ops, he], by rw [← s0.run_aux ops, ha], ?_⟩
    intro n hdisj han
    rw [(s0.run ops).asCircuit_eq e he] at h
    have := C19_pcps_auxiliary_matrix ((s0.run ops).toPcps e) c hmeth h a (by simp [PState.toPcps, ha]) hdisj n han
    rw [← s0.run_theta ops]
    exact ⟨this.1, this.2.1⟩
  · rw [hmeth] at hc; cases hc

/-- **which histories make `as_circuit` return**: exactly those after which the last encoding list exists, the last accepted
projection state is all-zero of that length (so: no `set_projection_state` call was ever accepted and the constructor's state
was all-zero), and the construction has its first qubit -/
theorem C19_pcps_hist_as_circuit_returns_iff {α : Type} [Mul α] [Div α] [Neg α] [Sub α] [OfNat α 1] [OfNat α 2] (s0 : PState α) (ops : List (POp α)) :
    (∃ c, (s0.run ops).asCircuit = .ok c) ↔
      ∃ e, lastEnc s0.enc ops = some e ∧ lastProj s0.proj ops = List.replicate e.length 0 ∧
        ((lastMethod s0.method ops = .auxiliary ∧ ∃ a r, lastAux s0.method s0.aux ops = some (a :: r)) ∨
         (lastMethod s0.method ops = .cphase ∧ e ≠ [])) := by
  rw [PState.asCircuit_ok_iff, s0.run_enc, s0.run_proj_last, s0.run_method, s0.run_aux]

/-- … and then the projection state is still the constructor's -/
theorem C19_pcps_hist_as_circuit_proj {α : Type} [Mul α] [Div α] [Neg α] [Sub α] [OfNat α 1] [OfNat α 2] (s0 : PState α) (ops : List (POp α)) (c : List (GateDesc α))
    (h : (s0.run ops).asCircuit = .ok c) : (s0.run ops).proj = s0.proj := by
  rcases s0.run_proj ops with hp | hp
  · exact hp
  · obtain ⟨e, he⟩ := (s0.run ops).asCircuit_of_one_mem hp
    rw [he] at h; cases h

/-- **an accepted `set_projection_state` is final**: the setter accepts only states containing a 1, `as_matrix` and `as_circuit`
support only all-zero states, and no later call can bring an all-zero state back — after an accepted call both raise for ever
(`as_matrix`: `RuntimeError`) -/
theorem C19_pcps_setProj_never_recovers {α : Type} [Mul α] [Div α] [Neg α] [Sub α] [OfNat α 1] [OfNat α 2] (s : PState α) (ps : List Int) (hacc : (s.step (.setProj ps)).raised = none)
    (ops : List (POp α)) :
    ((s.step (.setProj ps)).state.run ops).asMatrixDiag = .error .runtimeError ∧
    ∃ e, ((s.step (.setProj ps)).state.run ops).asCircuit = .error e := by
  have hps : projSetIsZeroOne ps = true := by
    by_contra hn
    simp [PState.step, hn, Outcome.fail] at hacc
  have h1 : (1 : Int) ∈ (s.step (.setProj ps)).state.proj := by
    simp only [PState.step, hps, if_true, Outcome.ok]
    exact ((projSetIsZeroOne_iff ps).mp hps).2.2
  have := PState.run_one_mem _ ops h1
  exact ⟨PState.asMatrixDiag_of_one_mem _ this, PState.asCircuit_of_one_mem _ this⟩

/-- **`set_method("c-phase")` followed by `set_method("auxiliary")` loses the auxiliary qubits**: the list is empty afterwards
and `as_circuit` raises until `set_auxiliary_qubits` is called with a non-empty list — which then takes effect -/
theorem C19_pcps_method_roundtrip {α : Type} [Mul α] [Div α] [Neg α] [Sub α] [OfNat α 1] [OfNat α 2] (s : PState α) :
    let s' := ((s.step (.setMethod "c-phase")).state.step (.setMethod "auxiliary")).state
    s'.method = .auxiliary ∧ s'.aux = some [] ∧ (∀ c, s'.asCircuit ≠ .ok c) ∧
    ∀ x : QArgs, (s'.step (.setAux x)).state.aux = some x.norm := by
  refine ⟨rfl, rfl, ?_, fun x => rfl⟩
  intro c hc
  obtain ⟨e, _, _, hcase⟩ := (PState.asCircuit_ok_iff _).mp ⟨c, hc⟩
  rcases hcase with ⟨_, a, r, ha⟩ | ⟨hm, _⟩
  · simp [PState.step, Outcome.ok] at ha
  · simp [PState.step, Outcome.ok] at hm

/-! ### `EigenvalueTransformation`: what every call does -/

section EVT
variable {M : Type} [Monoid M]

/-- **the setters of `EigenvalueTransformation`**: `set_theta_seq` stores (a copy of) the list or `None`; the other four run the
setter of the same name ON THE PROCESSING OBJECT (`EState.onProc` = `PState.step` there: same acceptance, same effect);
`set_encoding_qubits` additionally writes the block encoding's auxiliary qubits, AFTER the processing object -/
theorem C19_evt_exec_spec {α : Type} [Mul α] [Div α] [Neg α] [Sub α] [OfNat α 1] [OfNat α 2] (env : MatEnv α M) (s : EState α) :
    (∀ θs, s.exec env (.setThetaSeq θs) = ⟨{ s with thetas := θs }, none, .none⟩) ∧
    (∀ a, s.exec env (.setAux a) = ⟨{ s with proc := (s.proc.step (.setAux a.toArgs)).state }, (s.proc.step (.setAux a.toArgs)).raised, .none⟩) ∧
    (∀ ps, s.exec env (.setProj ps) = ⟨{ s with proc := (s.proc.step (.setProj ps)).state }, (s.proc.step (.setProj ps)).raised, .none⟩) ∧
    (∀ m, s.exec env (.setMethod m) = ⟨{ s with proc := (s.proc.step (.setMethod m)).state }, (s.proc.step (.setMethod m)).raised, .none⟩) ∧
    (∀ op, s.exec env (.inner op) = ⟨{ s with proc := (s.proc.step op).state }, (s.proc.step op).raised, .none⟩) ∧
    (∀ a, a.toArgs.norm.length = s.block.naux → s.exec env (.setEnc a) =
        ⟨{ s with proc := { s.proc with enc := some a.toArgs.norm }, block := { s.block with aux := a.toArgs.norm } }, none, .none⟩) ∧
    (∀ a, a.toArgs.norm.length ≠ s.block.naux → s.exec env (.setEnc a) =
        ⟨{ s with proc := { s.proc with enc := some a.toArgs.norm } }, some .valueError, .none⟩) ∧
    (∀ a, a.norm.length = s.block.naux → s.exec env (.blockSetAux a) = ⟨{ s with block := { s.block with aux := a.norm } }, none, .none⟩) ∧
    (∀ a, a.norm.length ≠ s.block.naux → s.exec env (.blockSetAux a) = ⟨s, some .valueError, .none⟩) := by
  refine ⟨fun _ => rfl, fun _ => rfl, fun _ => rfl, fun _ => rfl, fun _ => rfl, fun a h => ?_, fun a h => ?_, fun a h => ?_, fun a h => ?_⟩
  · simp [EState.exec, PState.step, Outcome.ok, BState.setAux, h]
  · simp [EState.exec, PState.step, Outcome.ok, Outcome.fail, BState.setAux, h]
  · simp [EState.exec, Outcome.ok, BState.setAux, h]
  · simp [EState.exec, Outcome.fail, BState.setAux, h]

/-- **a raising call of an `EigenvalueTransformation`**: a rejected setter leaves the object unchanged — EXCEPT
`set_encoding_qubits` with a list whose length is not the block encoding's number of auxiliary qubits, which has already
replaced the processing object's encoding qubits when the block encoding raises `ValueError` (after which the two lists have
different lengths, so `as_circuit` raises `RuntimeError` until they are brought back in line); a raising `as_matrix` /
`as_circuit` has changed at most the angle of the processing object -/
theorem C19_evt_raised_effect {α : Type} [Mul α] [Div α] [Neg α] [Sub α] [OfNat α 1] [OfNat α 2] (env : MatEnv α M) (s : EState α) (op : EOp α) (e : Err) (h : (s.exec env op).raised = some e) :
    match op with
    | .setEnc a => (s.exec env op).state = { s with proc := { s.proc with enc := some a.toArgs.norm } } ∧
        e = .valueError ∧ a.toArgs.norm.length ≠ s.block.naux ∧
        (s.block.aux.length = s.block.naux →
          asCircuitH (s.exec env op).state = ((s.exec env op).state, .error .runtimeError))
    | .asMatrix | .asCircuit => ∃ t, (s.exec env op).state = { s with proc := s.proc.setTheta t }
    | _ => (s.exec env op).state = s := by
  cases op with
  | setThetaSeq θs => simp [EState.exec] at h
  | setAux a =>
    simp only [EState.exec, EState.onProc] at h ⊢
    rw [s.proc.step_raised_unchanged _ e h]
  | setProj ps =>
    simp only [EState.exec, EState.onProc] at h ⊢
    rw [s.proc.step_raised_unchanged _ e h]
  | setMethod m =>
    simp only [EState.exec, EState.onProc] at h ⊢
    rw [s.proc.step_raised_unchanged _ e h]
  | inner o =>
    simp only [EState.exec, EState.onProc] at h ⊢
    rw [s.proc.step_raised_unchanged _ e h]
  | setEnc a =>
    by_cases hl : a.toArgs.norm.length = s.block.naux
    · rw [(C19_evt_exec_spec env s).2.2.2.2.2.1 a hl] at h; cases h
    · rw [(C19_evt_exec_spec env s).2.2.2.2.2.2.1 a hl] at h ⊢
      cases h
      refine ⟨rfl, rfl, hl, ?_⟩
      intro hlen
      exact (asCircuitH_refused ({ s with proc := { s.proc with enc := some a.toArgs.norm } } : EState α)).2.1
        a.toArgs.norm rfl (by
          intro heq
          apply hl
          have : s.block.aux.length = a.toArgs.norm.length := by rw [show s.block.aux = a.toArgs.norm from heq]
          omega)
  | blockSetAux a =>
    by_cases hl : a.norm.length = s.block.naux
    · rw [(C19_evt_exec_spec env s).2.2.2.2.2.2.2.1 a hl] at h; cases h
    · rw [(C19_evt_exec_spec env s).2.2.2.2.2.2.2.2 a hl]
  | asMatrix =>
    obtain ⟨t, ht⟩ := asMatrixH_frame env s
    refine ⟨t, ?_⟩
    simp only [EState.exec]
    cases hh : asMatrixH env s with
    | mk s' r => rw [hh] at ht; cases r <;> simp only [] <;> exact ht
  | asCircuit =>
    obtain ⟨t, ht⟩ := asCircuitH_frame s
    refine ⟨t, ?_⟩
    simp only [EState.exec]
    cases hh : asCircuitH s with
    | mk s' r => rw [hh] at ht; cases r <;> simp only [] <;> exact ht

/-! ### `EigenvalueTransformation`: every history -/

/-- **delegation invariant**: after ANY history of calls — on the transformation, on the processing object the caller still
holds, on the block encoding, observations included — the processing object inside the transformation is, up to its angle, in
exactly the state that the same setter calls made directly on it would have produced. In particular its projection state,
method, encoding and auxiliary qubits are the last values passed through EITHER route (`C19_pcps_last_values`). -/
theorem C19_evt_delegation {α : Type} [Mul α] [Div α] [Neg α] [Sub α] [OfNat α 1] [OfNat α 2] (env : MatEnv α M) (s0 : EState α) (ops : List (EOp α)) :
    (∃ t, (s0.run env ops).proc = (s0.proc.run (ops.filterMap EOp.procOp)).setTheta t) ∧
    (s0.run env ops).proc.proj = lastProj s0.proc.proj (ops.filterMap EOp.procOp) ∧
    (s0.run env ops).proc.method = lastMethod s0.proc.method (ops.filterMap EOp.procOp) ∧
    (s0.run env ops).proc.enc = lastEnc s0.proc.enc (ops.filterMap EOp.procOp) ∧
    (s0.run env ops).proc.aux = lastAux s0.proc.method s0.proc.aux (ops.filterMap EOp.procOp) := by
  obtain ⟨t, ht⟩ := s0.run_proc env ops
  refine ⟨⟨t, ht⟩, ?_, ?_, ?_, ?_⟩
  · rw [ht, PState.setTheta_proj, PState.run_proj_last]
  · rw [ht, PState.setTheta_method, PState.run_method]
  · rw [ht, PState.setTheta_enc, PState.run_enc]
  · rw [ht, PState.setTheta_aux, PState.run_aux]

/-- the angle list is the last one passed to `set_theta_seq`; the block encoding keeps its size and its auxiliary qubits are
the last list of the right length passed to `set_encoding_qubits` or to its own setter -/
theorem C19_evt_last_values {α : Type} [Mul α] [Div α] [Neg α] [Sub α] [OfNat α 1] [OfNat α 2] (env : MatEnv α M) (s0 : EState α) (ops : List (EOp α)) :
    (s0.run env ops).thetas = lastThetas s0.thetas ops ∧
    (s0.run env ops).block = { s0.block with aux := lastBlockAux s0.block.naux s0.block.aux ops } :=
  ⟨s0.run_thetas env ops, s0.run_block env ops⟩

/-- **`as_matrix` in ANY state** (hence after any history), completely: without angles `ValueError` and nothing changes; with a
projection state that is not all-zero (`RuntimeError`), empty, or not as long as the block encoding has auxiliary qubits (both
`ValueError`) the exception comes after the FIRST angle was written to the processing object; otherwise the result is the
defining alternating product — one phase shift per angle of the CURRENT list, each followed by the encoding or its inverse, the
last factor the encoding — and the processing object keeps the last angle. Nothing else ever changes. -/
theorem C19_evt_as_matrix_any_state (env : MatEnv ℝ M) (s : EState ℝ) :
    ((s.thetas = none ∨ s.thetas = some []) → asMatrixH env s = (s, .error .valueError)) ∧
    (∀ a0 rest e, s.thetas = some (a0 :: rest) → kronErr s.block s.proc = some e →
      asMatrixH env s = ({ s with proc := s.proc.setTheta a0 }, .error e)) ∧
    (∀ a0 rest d, s.thetas = some (a0 :: rest) → s.proc.asMatrixDiag = .ok d → s.proc.proj.length = s.block.naux →
      asMatrixH env s = ({ s with proc := s.proc.setTheta (rest.getLast?.getD a0) },
        .ok (evtSpec (fun θ => env.phase θ d) env.U env.Ui (a0 :: rest))) ∧
      evtMatrix (fun θ => env.phase θ d) env.U env.Ui s.thetas = .ok (evtSpec (fun θ => env.phase θ d) env.U env.Ui (a0 :: rest))) :=
  ⟨asMatrixH_noangles env s, fun a0 rest e hθ he => asMatrixH_err env s a0 rest e hθ he,
   fun a0 rest d hθ hd hl => ⟨asMatrixH_ok env s a0 rest d hθ hd hl, by rw [hθ, C19_evt_eq_spec]; simp⟩⟩

/-- the three ways the phase-shift factor can fail, spelled out -/
theorem C19_evt_as_matrix_errors {α : Type} (s : EState α) :
    ((1 : Int) ∈ s.proc.proj → kronErr s.block s.proc = some .runtimeError) ∧
    (s.proc.proj = [] → kronErr s.block s.proc = some .valueError) ∧
    (s.proc.proj = List.replicate s.proc.proj.length 0 → s.proc.proj ≠ [] → s.proc.proj.length ≠ s.block.naux →
      kronErr s.block s.proc = some .valueError) ∧
    (s.proc.proj = List.replicate s.block.naux 0 → s.block.naux ≠ 0 → kronErr s.block s.proc = none) := by
  refine ⟨fun h => ?_, fun h => ?_, fun hz hne hl => ?_, fun hz hn => ?_⟩
  · simp [kronErr, s.proc.asMatrixDiag_of_one_mem h]
  · simp [kronErr, PState.asMatrixDiag, pcpsMatrixDiag, h]
  · have h2 : ¬ s.proc.proj.any (· != 0) = true := by rw [hz]; simp [List.any_replicate]
    have h3 : s.proc.proj.isEmpty = false := by cases hp : s.proc.proj <;> simp_all
    simp [kronErr, PState.asMatrixDiag, pcpsMatrixDiag, h2, h3, hl]
  · have h2 : ¬ s.proc.proj.any (· != 0) = true := by rw [hz]; simp [List.any_replicate]
    have h3 : s.proc.proj.isEmpty = false := by rw [hz]; cases hb : s.block.naux <;> simp_all
    have hl : s.proc.proj.length = s.block.naux := by rw [hz]; simp
    simp [kronErr, PState.asMatrixDiag, pcpsMatrixDiag, h2, h3, hl]

/-- **which states make `as_matrix` of an `EigenvalueTransformation` return**: there are angles, and the projection state is
all-zero with exactly one entry per auxiliary qubit of the block encoding (at least one) -/
theorem C19_evt_as_matrix_returns_iff {α : Type} (env : MatEnv α M) (s : EState α) :
    (∃ s' m, asMatrixH env s = (s', .ok m)) ↔
      (∃ a0 rest, s.thetas = some (a0 :: rest)) ∧ s.proc.proj = List.replicate s.block.naux 0 ∧ s.block.naux ≠ 0 := by
  constructor
  · rintro ⟨s', m, h⟩
    obtain ⟨b, p, th⟩ := s
    cases th with
    | none => rw [asMatrixH_noangles env _ (Or.inl rfl)] at h; cases (Prod.mk.inj h).2
    | some l =>
      cases l with
      | nil => rw [asMatrixH_noangles env _ (Or.inr rfl)] at h; cases (Prod.mk.inj h).2
      | cons a0 rest =>
        cases hk : kronErr b p with
        | some e => rw [asMatrixH_err env _ a0 rest e rfl hk] at h; cases (Prod.mk.inj h).2
        | none =>
          obtain ⟨d, hd, hl⟩ := (kronErr_none_iff b p).mp hk
          obtain ⟨hz, hne, _, _⟩ := C19_pcps_matrix_model p.proj d hd
          refine ⟨⟨a0, rest, rfl⟩, by rw [← hl]; exact hz, ?_⟩
          intro h0
          apply hne
          exact List.length_eq_zero_iff.mp (hl.trans h0)
  · rintro ⟨⟨a0, rest, hθ⟩, hz, hn⟩
    have hk := (C19_evt_as_matrix_errors s).2.2.2 hz hn
    obtain ⟨d, hd, hl⟩ := (kronErr_none_iff _ _).mp hk
    exact ⟨_, _, asMatrixH_ok env s a0 rest d hθ hd hl⟩

/-- **`as_matrix` after any history**: if it returns `m`, then the last list passed to `set_theta_seq` is a non-empty `θs`, no
`set_projection_state` call — on the transformation or on the processing object — was ever accepted (the projection state is
still the constructor's: all-zero, one entry per auxiliary qubit of the block encoding), and `m` is the defining alternating
product of the phase shifts `exp(iθₖ(2|0…0⟩⟨0…0|−1)) ⊗ 1` (`env.phase θₖ d`, `d` marking basis state 0) for exactly the angles
of `θs`, with the encoding applied `len θs` times (`C19_evt_uses_every_angle`); the processing object keeps the last angle -/
theorem C19_evt_hist_as_matrix (env : MatEnv ℝ M) (s0 : EState ℝ) (ops : List (EOp ℝ)) (s' : EState ℝ) (m : M)
    (h : asMatrixH env (s0.run env ops) = (s', .ok m)) :
    ∃ a0 rest d, lastThetas s0.thetas ops = some (a0 :: rest) ∧
      lastProj s0.proc.proj (ops.filterMap EOp.procOp) = s0.proc.proj ∧
      s0.proc.proj = List.replicate s0.block.naux 0 ∧ s0.block.naux ≠ 0 ∧
      d.length = 2 ^ s0.block.naux ∧ (∀ k, k < 2 ^ s0.block.naux → d[k]? = some (k == 0)) ∧
      m = evtSpec (fun θ => env.phase θ d) env.U env.Ui (a0 :: rest) ∧
      s' = { (s0.run env ops) with proc := (s0.run env ops).proc.setTheta (rest.getLast?.getD a0) } := by
  obtain ⟨hno, herr, hok⟩ := C19_evt_as_matrix_any_state env (s0.run env ops)
  have hθ := s0.run_thetas env ops
  have hnaux : (s0.run env ops).block.naux = s0.block.naux := by rw [s0.run_block env ops]
  cases hl : lastThetas s0.thetas ops with
  | none => rw [hno (Or.inl (hθ.trans hl))] at h; cases (Prod.mk.inj h).2
  | some l =>
    cases l with
    | nil => rw [hno (Or.inr (hθ.trans hl))] at h; cases (Prod.mk.inj h).2
    | cons a0 rest =>
      cases hk : kronErr (s0.run env ops).block (s0.run env ops).proc with
      | some e => rw [herr a0 rest e (hθ.trans hl) hk] at h; cases (Prod.mk.inj h).2
      | none =>
        obtain ⟨d, hd, hlen⟩ := (kronErr_none_iff _ _).mp hk
        rw [(hok a0 rest d (hθ.trans hl) hd hlen).1] at h
        obtain ⟨h1, h2⟩ := Prod.mk.inj h
        obtain ⟨⟨t, ht⟩, hproj, _, _, _⟩ := C19_evt_delegation env s0 ops
        -- the projection state is the constructor's
        have hp : (s0.run env ops).proc.proj = s0.proc.proj := by
          rw [ht, PState.setTheta_proj]
          rcases s0.proc.run_proj (ops.filterMap EOp.procOp) with hp | hp
          · exact hp
          · have : (1 : Int) ∈ (s0.run env ops).proc.proj := by rw [ht, PState.setTheta_proj]; exact hp
            rw [(s0.run env ops).proc.asMatrixDiag_of_one_mem this] at hd; cases hd
        unfold PState.asMatrixDiag at hd
        obtain ⟨hz, hne, hdl, hdk⟩ := C19_pcps_matrix_model _ d hd
        rw [hlen, hnaux] at hz hdl hdk
        refine ⟨a0, rest, d, rfl, by rw [← hproj, hp], by rw [← hp]; exact hz, ?_, hdl, hdk, (Except.ok.inj h2).symm, h1.symm⟩
        intro h0
        rw [hz, h0] at hne
        exact hne rfl

/-- **`as_circuit` in ANY state** (hence after any history): its result is that of the pure model `evtCircuit` of
`Properties/C19.lean` for the CURRENT attributes, so whatever it returns denotes, under every interpretation of its entries
in a monoid, the defining alternating product for the current angle list (`C19_evt_circuit_eq_spec`) -/
theorem C19_evt_as_circuit_any_state (s : EState ℝ) (s' : EState ℝ) (items : List (EvtItem ℝ)) (h : asCircuitH s = (s', .ok items)) :
    ∃ e a0 rest, s.proc.enc = some e ∧ s.block.aux = e ∧ s.thetas = some (a0 :: rest) ∧
      evtCircuit (s.proc.toPcps e) e (some (a0 :: rest)) = .ok items ∧
      (∃ c, s.proc.asCircuit = .ok c) ∧
      s' = { s with proc := s.proc.setTheta (rest.getLast?.getD a0) } ∧
      ∀ den : EvtItem ℝ → M,
        circuitDen den items = evtSpec (subDen (s.proc.toPcps e) den) (den .enc) (den .encInv) (a0 :: rest) := by
  obtain ⟨b, p, th⟩ := s
  obtain ⟨r1, r2, r3⟩ := asCircuitH_refused (⟨b, p, th⟩ : EState ℝ)
  cases he : p.enc with
  | none => rw [r1 he] at h; cases (Prod.mk.inj h).2
  | some e =>
    by_cases hb : b.aux = e
    · cases th with
      | none => rw [r3 e he hb (Or.inl rfl)] at h; cases (Prod.mk.inj h).2
      | some l =>
        cases l with
        | nil => rw [r3 e he hb (Or.inr rfl)] at h; cases (Prod.mk.inj h).2
        | cons a0 rest =>
          cases hc : p.asCircuit with
          | error err => rw [asCircuitH_err _ e a0 rest err he hb rfl hc] at h; cases (Prod.mk.inj h).2
          | ok c =>
            have hval := asCircuitH_val (⟨b, p, some (a0 :: rest)⟩ : EState ℝ) e he
            have hst := (asCircuitH_state_ok (⟨b, p, some (a0 :: rest)⟩ : EState ℝ) e a0 rest he hb rfl ⟨c, hc⟩).1
            rw [h] at hval hst
            simp only at hval hst
            rw [hb] at hval
            exact ⟨e, a0, rest, rfl, hb, rfl, hval.symm, ⟨c, rfl⟩, hst,
              fun den => C19_evt_circuit_eq_spec (p.toPcps e) e (a0 :: rest) items den hval.symm⟩
    · rw [r2 e he hb] at h; cases (Prod.mk.inj h).2

/-- **which states make `as_circuit` return**: the processing object has encoding qubits, they are the block encoding's
auxiliary qubits, there are angles, and the processing object's own `as_circuit` returns (`C19_pcps_hist_as_circuit_returns_iff`) -/
theorem C19_evt_as_circuit_returns_iff (s : EState ℝ) :
    (∃ s' items, asCircuitH s = (s', .ok items)) ↔
      ∃ e a0 rest, s.proc.enc = some e ∧ s.block.aux = e ∧ s.thetas = some (a0 :: rest) ∧ ∃ c, s.proc.asCircuit = .ok c := by
  constructor
  · rintro ⟨s', items, h⟩
    obtain ⟨e, a0, rest, he, hb, hθ, _, hc, _, _⟩ := C19_evt_as_circuit_any_state (M := Unit) s s' items h
    exact ⟨e, a0, rest, he, hb, hθ, hc⟩
  · rintro ⟨e, a0, rest, he, hb, hθ, hc⟩
    obtain ⟨h1, items, h2⟩ := asCircuitH_state_ok s e a0 rest he hb hθ hc
    exact ⟨(asCircuitH s).1, items, by rw [← h2]⟩

/-- **which histories make `as_matrix` return**, in terms of the calls alone: the last list passed to `set_theta_seq` is
non-empty, and the last accepted projection state — through the transformation or the processing object — is all-zero with one
entry per auxiliary qubit of the block encoding, i.e. (`C19_evt_hist_as_matrix`) none was ever accepted -/
theorem C19_evt_hist_as_matrix_returns_iff {α : Type} [Mul α] [Div α] [Neg α] [Sub α] [OfNat α 1] [OfNat α 2]
    (env : MatEnv α M) (s0 : EState α) (ops : List (EOp α)) :
    (∃ s' m, asMatrixH env (s0.run env ops) = (s', .ok m)) ↔
      (∃ a0 rest, lastThetas s0.thetas ops = some (a0 :: rest)) ∧
      lastProj s0.proc.proj (ops.filterMap EOp.procOp) = List.replicate s0.block.naux 0 ∧ s0.block.naux ≠ 0 := by
  rw [C19_evt_as_matrix_returns_iff, s0.run_thetas env ops, (C19_evt_delegation env s0 ops).2.1, s0.run_block env ops]

/-- **which histories make `as_circuit` return**, in terms of the calls alone -/
theorem C19_evt_hist_as_circuit_returns_iff (env : MatEnv ℝ M) (s0 : EState ℝ) (ops : List (EOp ℝ)) :
    (∃ s' items, asCircuitH (s0.run env ops) = (s', .ok items)) ↔
      ∃ e a0 rest, lastEnc s0.proc.enc (ops.filterMap EOp.procOp) = some e ∧ lastBlockAux s0.block.naux s0.block.aux ops = e ∧
        lastThetas s0.thetas ops = some (a0 :: rest) ∧
        lastProj s0.proc.proj (ops.filterMap EOp.procOp) = List.replicate e.length 0 ∧
        ((lastMethod s0.proc.method (ops.filterMap EOp.procOp) = .auxiliary ∧
            ∃ a r, lastAux s0.proc.method s0.proc.aux (ops.filterMap EOp.procOp) = some (a :: r)) ∨
         (lastMethod s0.proc.method (ops.filterMap EOp.procOp) = .cphase ∧ e ≠ [])) := by
  obtain ⟨_, hproj, hmeth, henc, haux⟩ := C19_evt_delegation env s0 ops
  rw [C19_evt_as_circuit_returns_iff, s0.run_thetas env ops, s0.run_block env ops]
  simp only [PState.asCircuit_ok_iff, hproj, hmeth, henc, haux]
  constructor
  · rintro ⟨e, a0, rest, he, hb, hθ, e', he', hz, hcase⟩
    have : e' = e := by rw [he] at he'; exact (Option.some.inj he').symm
    subst this
    exact ⟨e', a0, rest, he, hb, hθ, hz, hcase⟩
  · rintro ⟨e, a0, rest, he, hb, hθ, hz, hcase⟩
    exact ⟨e, a0, rest, he, hb, hθ, e, he, hz, hcase⟩

/-- **an accepted `set_projection_state` is final for the transformation too**: whether it was made on the transformation or on
the processing object, after it neither `as_matrix` nor `as_circuit` ever returns again, whatever calls follow -/
theorem C19_evt_setProj_never_recovers (env : MatEnv ℝ M) (s : EState ℝ) (op : EOp ℝ) (ps : List Int)
    (hop : op = .setProj ps ∨ op = .inner (.setProj ps)) (hacc : (s.exec env op).raised = none) (ops : List (EOp ℝ)) :
    (∀ s' m, asMatrixH env ((s.exec env op).state.run env ops) ≠ (s', .ok m)) ∧
    (∀ s' items, asCircuitH ((s.exec env op).state.run env ops) ≠ (s', .ok items)) := by
  have hstep : (s.exec env op).state.proc = (s.proc.step (.setProj ps)).state ∧ (s.proc.step (.setProj ps)).raised = none := by
    rcases hop with rfl | rfl <;> exact ⟨rfl, hacc⟩
  have hps : projSetIsZeroOne ps = true := by
    by_contra hn
    have := hstep.2
    simp [PState.step, hn, Outcome.fail] at this
  have h1 : (1 : Int) ∈ (s.exec env op).state.proc.proj := by
    rw [hstep.1]
    simp only [PState.step, hps, if_true, Outcome.ok]
    exact ((projSetIsZeroOne_iff ps).mp hps).2.2
  obtain ⟨t, ht⟩ := (s.exec env op).state.run_proc env ops
  have h2 : (1 : Int) ∈ ((s.exec env op).state.run env ops).proc.proj := by
    rw [ht, PState.setTheta_proj]
    exact PState.run_one_mem _ _ h1
  constructor
  · intro s' m h
    obtain ⟨_, hz, _⟩ := (C19_evt_as_matrix_returns_iff env _).mp ⟨s', m, h⟩
    rw [hz] at h2
    simp at h2
  · intro s' items h
    obtain ⟨e, a0, rest, _, _, _, c, hc⟩ := (C19_evt_as_circuit_returns_iff _).mp ⟨s', items, h⟩
    obtain ⟨e', he'⟩ := PState.asCircuit_of_one_mem _ h2
    rw [he'] at hc; cases hc

/-- the state invariant of the processing object survives every history of the transformation -/
theorem C19_evt_invariant {α : Type} [Mul α] [Div α] [Neg α] [Sub α] [OfNat α 1] [OfNat α 2]
    (env : MatEnv α M) (s0 : EState α) (h : s0.proc.Inv) (ops : List (EOp α)) : (s0.run env ops).proc.Inv := by
  obtain ⟨t, ht⟩ := s0.run_proc env ops
  rw [ht]
  exact s0.proc.run_inv _ h

/-- **`num_wires` of the transformation after any history** (processing object constructed by `__init__`, so that its invariant
holds): with c-phase processing it is the block encoding's wire count — the auxiliary list of the processing object is empty
whatever was passed earlier (this is where `set_method` erasing the list matters) — and otherwise the block encoding's wire
count plus the length of the current auxiliary list -/
theorem C19_evt_hist_num_wires {α : Type} [Mul α] [Div α] [Neg α] [Sub α] [OfNat α 1] [OfNat α 2]
    (env : MatEnv α M) (s0 : EState α) (h : s0.proc.Inv) (ops : List (EOp α)) :
    (lastMethod s0.proc.method (ops.filterMap EOp.procOp) = .cphase →
      (s0.run env ops).numWires = .ok (s0.block.naux + s0.block.nsys + 0)) ∧
    (∀ a, lastAux s0.proc.method s0.proc.aux (ops.filterMap EOp.procOp) = some a →
      (s0.run env ops).numWires = .ok (s0.block.naux + s0.block.nsys + a.length)) := by
  obtain ⟨_, _, hmeth, _, haux⟩ := C19_evt_delegation env s0 ops
  have hinv := C19_evt_invariant env s0 h ops
  have hb : (s0.run env ops).block.naux = s0.block.naux ∧ (s0.run env ops).block.nsys = s0.block.nsys := by
    rw [s0.run_block env ops]; exact ⟨rfl, rfl⟩
  constructor
  · intro hm
    have := hinv.2 (by rw [hmeth]; exact hm)
    simp [EState.numWires, this, hb.1, hb.2]
  · intro a ha
    rw [← haux] at ha
    simp [EState.numWires, ha, hb.1, hb.2]

/-- **`as_circuit` after any history, c-phase processing**: on every register, for arbitrary matrices `U`, `Ui` standing for
the block encoding and its `inverse()`, the returned circuit's matrix IS the alternating product of `exp(iθₖ(2P₀−1))` with
`U`/`Ui` for the last angle list passed and `P₀` the projector onto "the last encoding qubits passed read 0" — the matrix
`as_matrix` stands for -/
theorem C19_evt_hist_circuit_matrix_cphase (env : MatEnv ℝ M) (s0 : EState ℝ) (ops : List (EOp ℝ)) (s' : EState ℝ)
    (items : List (EvtItem ℝ)) (h : asCircuitH (s0.run env ops) = (s', .ok items))
    (hm : lastMethod s0.proc.method (ops.filterMap EOp.procOp) = .cphase) (n : ℕ)
    (U Ui : Matrix (Fin n → Bool) (Fin n → Bool) ℂ) :
    ∃ e θs, lastEnc s0.proc.enc (ops.filterMap EOp.procOp) = some e ∧ lastThetas s0.thetas ops = some θs ∧
      lastBlockAux s0.block.naux s0.block.aux ops = e ∧
      circuitDen (evtDen n U Ui) items = evtSpec (fun θ : ℝ => exp ((I * (θ : ℂ)) • reflOn (EncZero n e))) U Ui θs := by
  obtain ⟨e, a0, rest, he, hb, hθ, hval, _, _, _⟩ := C19_evt_as_circuit_any_state (M := Unit) _ s' items h
  obtain ⟨_, _, hmeth, henc, _⟩ := C19_evt_delegation env s0 ops
  refine ⟨e, a0 :: rest, by rw [← henc, he], by rw [← s0.run_thetas env ops, hθ], ?_, ?_⟩
  · rw [s0.run_block env ops] at hb; exact hb
  · exact (C19_evt_circuit_matrix_cphase ((s0.run env ops).proc.toPcps e) e (a0 :: rest) items
      (by rw [← hm, ← hmeth]; rfl) hval n U Ui).1

/-- **`as_circuit` after any history, auxiliary processing**: with `a` the first CURRENT auxiliary qubit (not an encoding
qubit, inside the register) and matrices `U`, `Ui` that do not touch wire `a`, the returned circuit restricted to the
auxiliary-`|0⟩` block is the alternating product for the last angle list and the last encoding qubits passed -/
theorem C19_evt_hist_circuit_matrix_auxiliary (env : MatEnv ℝ M) (s0 : EState ℝ) (ops : List (EOp ℝ)) (s' : EState ℝ)
    (items : List (EvtItem ℝ)) (h : asCircuitH (s0.run env ops) = (s', .ok items))
    (hm : lastMethod s0.proc.method (ops.filterMap EOp.procOp) = .auxiliary) :
    ∃ e θs a r, lastEnc s0.proc.enc (ops.filterMap EOp.procOp) = some e ∧ lastThetas s0.thetas ops = some θs ∧
      lastAux s0.proc.method s0.proc.aux (ops.filterMap EOp.procOp) = some (a :: r) ∧
      ∀ (n : ℕ) (U Ui : Matrix (Fin n → Bool) (Fin n → Bool) ℂ), a ∉ e → a < n →
        U * wireZero n a = wireZero n a * U → Ui * wireZero n a = wireZero n a * Ui →
        circuitDen (evtDen n U Ui) items * wireZero n a
          = evtSpec (fun θ : ℝ => exp ((I * (θ : ℂ)) • reflOn (EncZero n e))) U Ui θs * wireZero n a := by
  obtain ⟨e, a0, rest, he, hb, hθ, hval, hc, _, _⟩ := C19_evt_as_circuit_any_state (M := Unit) _ s' items h
  obtain ⟨_, _, hmeth, henc, haux⟩ := C19_evt_delegation env s0 ops
  have hmeth' : (s0.run env ops).proc.method = .auxiliary := by rw [hmeth]; exact hm
  obtain ⟨e', he', _, hcase⟩ := (PState.asCircuit_ok_iff _).mp hc
  rcases hcase with ⟨_, a, r, ha⟩ | ⟨hcp, _⟩
  · refine ⟨e, a0 :: rest, a, r, by rw [← henc, he], by rw [← s0.run_thetas env ops, hθ], by rw [← haux, ha], ?_⟩
    intro n U Ui hdisj han hU hUi
    exact (C19_evt_circuit_matrix_auxiliary ((s0.run env ops).proc.toPcps e) e (a0 :: rest) items hmeth' hval a
      (by simp [PState.toPcps, ha]) hdisj n han U Ui hU hUi).1
  · rw [hmeth'] at hcp; cases hcp

/-- **the two observations agree in every state** (c-phase processing): if the phase factor that `as_matrix` multiplies with is the
phase shift on the processing object's encoding wires (which is what `np.kron(processing.as_matrix(), id)` is when those are the
leading wires, `C19_phase_shift_kron`) and `U`, `Ui` are the block encoding's matrices on the register, then whenever both
`as_matrix` and `as_circuit` return, the circuit's matrix is the matrix of `as_matrix`, and both calls leave the object in the
same state -/
theorem C19_evt_matrix_eq_circuit_cphase (s s1 s2 : EState ℝ) (n : ℕ) (e : List ℕ)
    (env : MatEnv ℝ (Matrix (Fin n → Bool) (Fin n → Bool) ℂ)) (he : s.proc.enc = some e)
    (hphase : ∀ θ d, env.phase θ d = exp ((I * ((θ : ℝ) : ℂ)) • reflOn (EncZero n e)))
    (hm : s.proc.method = .cphase) (m : Matrix (Fin n → Bool) (Fin n → Bool) ℂ) (items : List (EvtItem ℝ))
    (h1 : asMatrixH env s = (s1, .ok m)) (h2 : asCircuitH s = (s2, .ok items)) :
    circuitDen (evtDen n env.U env.Ui) items = m ∧ s1 = s2 := by
  obtain ⟨e', a0, rest, he', _, hθ, hval, _, hs2, _⟩ := C19_evt_as_circuit_any_state (M := Unit) s s2 items h2
  have hee : e' = e := by rw [he] at he'; exact (Option.some.inj he').symm
  subst hee
  obtain ⟨_, herr, hok⟩ := C19_evt_as_matrix_any_state env s
  cases hk : kronErr s.block s.proc with
  | some err => rw [herr a0 rest err hθ hk] at h1; cases (Prod.mk.inj h1).2
  | none =>
    obtain ⟨d, hd, hl⟩ := (kronErr_none_iff _ _).mp hk
    rw [(hok a0 rest d hθ hd hl).1] at h1
    obtain ⟨hs1, hm1⟩ := Prod.mk.inj h1
    refine ⟨?_, by rw [← hs1, hs2]⟩
    rw [(C19_evt_circuit_matrix_cphase (s.proc.toPcps e') e' (a0 :: rest) items hm hval n env.U env.Ui).1, ← Except.ok.inj hm1]
    congr 1
    funext θ
    exact (hphase θ d).symm

/-- **observations do not depend on, and do not disturb, anything but the processing object's angle**: `as_matrix` and
`as_circuit` give the same result and leave the same state whatever angle the processing object held before (e.g. from a
direct `set_theta` or from an earlier observation) -/
theorem C19_evt_observation_angle_independent {α : Type} (env : MatEnv α M) (s : EState α) (t : α) :
    asMatrixH env { s with proc := s.proc.setTheta t } = asMatrixH env s ∨
      (s.thetas = none ∨ s.thetas = some []) := by
  obtain ⟨b, p, th⟩ := s
  cases th with
  | none => exact Or.inr (Or.inl rfl)
  | some l =>
    cases l with
    | nil => exact Or.inr (Or.inr rfl)
    | cons a0 rest =>
      left
      cases hk : kronErr b p with
      | some e =>
        rw [asMatrixH_err env ⟨b, p, _⟩ a0 rest e rfl hk,
          asMatrixH_err env ⟨b, p.setTheta t, _⟩ a0 rest e rfl (by rw [← hk]; rfl)]
        rfl
      | none =>
        obtain ⟨d, hd, hl⟩ := (kronErr_none_iff _ _).mp hk
        rw [asMatrixH_ok env ⟨b, p, _⟩ a0 rest d rfl hd hl,
          asMatrixH_ok env ⟨b, p.setTheta t, _⟩ a0 rest d rfl hd hl]
        rfl

/-- the same for `as_circuit`: what it returns or raises does not depend on the angle the processing object holds -/
theorem C19_evt_as_circuit_angle_independent {α : Type} [Mul α] [Div α] [Neg α] [Sub α] [OfNat α 1] [OfNat α 2]
    (s : EState α) (t : α) : (asCircuitH { s with proc := s.proc.setTheta t }).2 = (asCircuitH s).2 := by
  cases he : s.proc.enc with
  | none =>
    rw [(asCircuitH_refused s).1 he, (asCircuitH_refused { s with proc := s.proc.setTheta t }).1 (by simpa using he)]
  | some e =>
    rw [asCircuitH_val s e he, asCircuitH_val { s with proc := s.proc.setTheta t } e (by simpa using he)]
    simp only [PState.toPcps_setTheta]
    unfold evtCircuit
    simp only [evtCircuitLoop_setTheta, evtPrepend_setTheta]
    rfl

end EVT

/-! ### non-vacuity -/

/-- a history that stays inside the property's domain: construct with the auxiliary method, switch to c-phase and back, give
the auxiliary qubit again, change the angle and the encoding qubits — `as_circuit` returns the 3-gate auxiliary construction
for the last values -/
example : ∃ s0 : PState ℝ, PState.init 0.5 [0, 0] (.seq [1, 2]) (.one 0) "auxiliary" = .ok s0 ∧
    ∃ c, (s0.run [.setMethod "c-phase", .setMethod "auxiliary", .setAux (.var [3]), .setTheta 0.25, .setEnc (.seq [2, 1])]).asCircuit = .ok c ∧
      c.length = 3 := by
  refine ⟨_, by simp [PState.init]; rfl, ?_⟩
  simp [PState.run, PState.step, Outcome.ok, PState.asCircuit, PState.setTheta, auxCircuit, QArgs.norm]

/-- the hypothesis of `C19_pcps_setProj_never_recovers` is satisfiable: `[0, 1]` is accepted -/
example (s : PState ℝ) : (s.step (.setProj [0, 1])).raised = none := by
  simp [PState.step, projSetIsZeroOne, Outcome.ok]

/-- … and an all-zero projection state is rejected by the setter although the constructor takes it -/
example (s : PState ℝ) : (s.step (.setProj [0, 0])).raised = some .valueError ∧
    ∃ s0 : PState ℝ, PState.init 0 [0, 0] .none .none "c-phase" = .ok s0 := by
  refine ⟨by simp [PState.step, projSetIsZeroOne, Outcome.fail], _, by simp [PState.init]; rfl⟩

/-- an `EigenvalueTransformation` history whose `as_matrix` returns (free monoid: nothing is assumed about the matrices):
three angles are set, the encoding qubit is changed through the transformation, the processing object's angle is overwritten
directly — the result is the product for the three angles and the processing object ends with the last of them -/
example :
    let env : MatEnv ℝ (FreeMonoid ℕ) := ⟨FreeMonoid.of 0, FreeMonoid.of 1, fun _ _ => FreeMonoid.of 2⟩
    let s := (⟨⟨[1], 1, 1⟩, ⟨0, [0], some [1], some [0], .auxiliary⟩, none⟩ : EState ℝ).run env
      [.setThetaSeq (some [0.1, 0.2, 0.3]), .setEnc (.one 2), .inner (.setTheta 7)]
    s.proc.enc = some [2] ∧ s.block.aux = [2] ∧ s.proc.theta = 7 ∧
    asMatrixH env s = ({ s with proc := s.proc.setTheta 0.3 },
      .ok (evtSpec (fun θ => env.phase θ [true, false]) env.U env.Ui [0.1, 0.2, 0.3])) := by
  intro env s
  have hs : s = ⟨⟨[2], 1, 1⟩, ⟨7, [0], some [2], some [0], .auxiliary⟩, some [0.1, 0.2, 0.3]⟩ := by
    simp [s, EState.run, EState.exec, EState.onProc, PState.step, Outcome.ok, BState.setAux, QOne.toArgs, QArgs.norm, PState.setTheta]
  rw [hs]
  refine ⟨rfl, rfl, rfl, ?_⟩
  rw [asMatrixH_ok env _ 0.1 [0.2, 0.3] [true, false] rfl (by rfl) rfl]
  simp

/-- the partial write of `C19_evt_raised_effect` really occurs: a 2-qubit list is refused by a block encoding with one auxiliary
qubit, but the processing object already holds it -/
example : ((⟨⟨[1], 1, 1⟩, ⟨0, [0], some [1], some [0], .auxiliary⟩, none⟩ : EState ℝ).exec
      (⟨1, 1, fun _ _ => 1⟩ : MatEnv ℝ (FreeMonoid ℕ)) (.setEnc (.seq [1, 2]))).raised = some .valueError ∧
    ((⟨⟨[1], 1, 1⟩, ⟨0, [0], some [1], some [0], .auxiliary⟩, none⟩ : EState ℝ).exec
      (⟨1, 1, fun _ _ => 1⟩ : MatEnv ℝ (FreeMonoid ℕ)) (.setEnc (.seq [1, 2]))).state.proc.enc = some [1, 2] := by
  simp [EState.exec, PState.step, Outcome.ok, Outcome.fail, BState.setAux, QOne.toArgs, QArgs.norm]

/-- the hypotheses of `C19_evt_setProj_never_recovers` are satisfiable, through either route -/
example : ((⟨⟨[1], 1, 1⟩, ⟨0, [0], some [1], some [0], .auxiliary⟩, none⟩ : EState ℝ).exec
      (⟨1, 1, fun _ _ => 1⟩ : MatEnv ℝ (FreeMonoid ℕ)) (.setProj [1, 0])).raised = none ∧
    ((⟨⟨[1], 1, 1⟩, ⟨0, [0], some [1], some [0], .auxiliary⟩, none⟩ : EState ℝ).exec
      (⟨1, 1, fun _ _ => 1⟩ : MatEnv ℝ (FreeMonoid ℕ)) (.inner (.setProj [0, 1, 1]))).raised = none := by
  simp [EState.exec, EState.onProc, PState.step, projSetIsZeroOne, Outcome.ok]

/-- the hypotheses of `C19_evt_matrix_eq_circuit_cphase` are satisfiable: c-phase processing on encoding qubit 0 of a 2-wire
register, two angles; both observations return -/
example : ∃ (env : MatEnv ℝ (Matrix (Fin 2 → Bool) (Fin 2 → Bool) ℂ)) (s : EState ℝ),
    s.proc.enc = some [0] ∧ s.proc.method = .cphase ∧
    (∀ θ d, env.phase θ d = exp ((I * ((θ : ℝ) : ℂ)) • reflOn (EncZero 2 [0]))) ∧
    (∃ s1 m, asMatrixH env s = (s1, .ok m)) ∧ (∃ s2 items, asCircuitH s = (s2, .ok items)) := by
  refine ⟨⟨1, 1, fun θ _ => exp ((I * ((θ : ℝ) : ℂ)) • reflOn (EncZero 2 [0]))⟩,
    ⟨⟨[0], 1, 1⟩, ⟨0, [0], some [0], some [], .cphase⟩, some [0.1, 0.2]⟩, rfl, rfl, fun _ _ => rfl, ?_, ?_⟩
  · exact (C19_evt_as_matrix_returns_iff _ _).mpr ⟨⟨_, _, rfl⟩, rfl, by decide⟩
  · exact (C19_evt_as_circuit_returns_iff _).mpr ⟨[0], 0.1, [0.2], rfl, rfl, rfl,
      (PState.asCircuit_ok_iff _).mpr ⟨[0], rfl, rfl, Or.inr ⟨rfl, by simp⟩⟩⟩

end Qib.C19Hist
