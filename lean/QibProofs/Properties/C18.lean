import QibProofs.Lemmas.Validate
/-!
C18 — Only executable circuits are accepted, and the Qobj says what the circuit is.
Property theorems only (helpers: `QibProofs/Lemmas/Validate.lean`). `validate`, `qobj`, `hexToBin` are the
models of `QibModel/Validate.lean`; `qsimConfig` / `qcConfig` are built from the *generated* tables
`QibGen.WmiConfig`, so the instantiation lemmas below are re-checked whenever the shipped configurations change.
-/
namespace Qib.Wmi
open Qib.Backend (Outcome PyRes World)

/-! ### Accepted ⇔ valid — for every configuration and every instruction list -/

/-- an accepted experiment is valid: *every* instruction is a measurement or a basis gate on a configured,
coupled qubit tuple with the configured number of parameters, *every* addressed index is inside the
processor, shots within the limit. No side condition on the configuration. -/
theorem C18_accepted_only_if_valid (cfg : ProcConfig) (shots : Int) (instrs : List Instr)
    (h : validate cfg shots instrs = .ok ()) : Valid cfg shots instrs := by
  unfold validate at h
  split at h
  · cases h
  · rename_i hs
    cases hl : validateLoop cfg instrs with
    | error e => rw [hl] at h; cases h
    | ok u =>
      rw [hl] at h
      have hn : 0 < cfg.nQubits := by
        rcases Nat.eq_zero_or_pos cfg.nQubits with h0 | hpos
        · rw [rangeCheck_zero cfg instrs h0] at h; cases h
        · exact hpos
      exact ⟨by omega, (validateLoop_iff cfg instrs).mp hl, (rangeCheck_iff cfg instrs hn).mp h⟩

/-- a valid experiment on a processor with at least one qubit is accepted -/
theorem C18_valid_accepted (cfg : ProcConfig) (shots : Int) (instrs : List Instr) (hn : 0 < cfg.nQubits)
    (h : Valid cfg shots instrs) : validate cfg shots instrs = .ok () := by
  obtain ⟨hs, hi, hr⟩ := h
  unfold validate
  have : ¬ shots > (cfg.maxShots : Int) := by omega
  simp only [this, if_false, (validateLoop_iff cfg instrs).mpr hi]
  exact (rangeCheck_iff cfg instrs hn).mpr hr

/-- **accepted ⇔ valid**, all configurations (with at least one qubit), all circuits, all shot numbers -/
theorem C18_validate_iff_valid (cfg : ProcConfig) (shots : Int) (instrs : List Instr) (hn : 0 < cfg.nQubits) :
    validate cfg shots instrs = .ok () ↔ Valid cfg shots instrs :=
  ⟨C18_accepted_only_if_valid cfg shots instrs, C18_valid_accepted cfg shots instrs hn⟩

/-- the degenerate configuration excluded above: a processor with 0 qubits accepts nothing, not even the
empty circuit (`max([], default=0) >= 0`). Hence in general: accepted ⇔ valid ∧ 0 < n_qubits. -/
theorem C18_validate_iff_valid_any_config (cfg : ProcConfig) (shots : Int) (instrs : List Instr) :
    validate cfg shots instrs = .ok () ↔ (Valid cfg shots instrs ∧ 0 < cfg.nQubits) := by
  constructor
  · intro h
    refine ⟨C18_accepted_only_if_valid cfg shots instrs h, ?_⟩
    rcases Nat.eq_zero_or_pos cfg.nQubits with h0 | hpos
    · unfold validate at h
      split at h
      · cases h
      · cases hl : validateLoop cfg instrs with
        | error e => rw [hl] at h; cases h
        | ok u => rw [hl, rangeCheck_zero cfg instrs h0] at h; cases h
    · exact hpos
  · rintro ⟨h, hn⟩; exact C18_valid_accepted cfg shots instrs hn h

/-- one offending instruction *anywhere* in the circuit refuses the experiment -/
theorem C18_one_bad_instruction_refuses (cfg : ProcConfig) (shots : Int) (pre post : List Instr) (i : Instr)
    (hbad : ¬ InstrOK cfg i) : ∃ e, validate cfg shots (pre ++ i :: post) = .error e := by
  cases h : validate cfg shots (pre ++ i :: post) with
  | error e => exact ⟨e, rfl⟩
  | ok u =>
    have := (C18_accepted_only_if_valid cfg shots _ h).2.1 i (by simp)
    exact absurd this hbad

/-- one out-of-range or negative index *anywhere* — in a gate or in a measure instruction — refuses -/
theorem C18_one_bad_index_refuses (cfg : ProcConfig) (shots : Int) (pre post : List Instr) (i : Instr) (q : Int)
    (hq : q ∈ i.qubits) (hbad : q < 0 ∨ (cfg.nQubits : Int) ≤ q) :
    ∃ e, validate cfg shots (pre ++ i :: post) = .error e := by
  cases h : validate cfg shots (pre ++ i :: post) with
  | error e => exact ⟨e, rfl⟩
  | ok u =>
    have := (C18_accepted_only_if_valid cfg shots _ h).2.2 i (by simp) q hq
    omega

/-- too many shots refuse whatever the circuit is -/
theorem C18_too_many_shots_refused (cfg : ProcConfig) (shots : Int) (instrs : List Instr)
    (h : (cfg.maxShots : Int) < shots) : validate cfg shots instrs = .error .shots := by
  unfold validate; simp [h]

/-- the error reported is that of the first offending instruction, whatever its position -/
theorem C18_first_offender_reported (cfg : ProcConfig) (shots : Int) (pre post : List Instr) (i : Instr) (e : Err)
    (hs : shots ≤ (cfg.maxShots : Int)) (hpre : ∀ j ∈ pre, InstrOK cfg j) (hi : checkInstr cfg i = .error e) :
    validate cfg shots (pre ++ i :: post) = .error e := by
  unfold validate
  have : ¬ shots > (cfg.maxShots : Int) := by omega
  simp [this, validateLoop_first_error cfg pre post i e hpre hi]

/-- "respecting the coupling map" means every pair of positions `k < l` of the gate's qubit list:
`pairs` enumerates exactly the two-element subsequences -/
theorem C18_pairs_are_all_pairs (a b : Int) (l : List Int) : (a, b) ∈ pairs l ↔ [a, b].Sublist l :=
  mem_pairs a b l

/-- the distinct-particle count can never exceed the processor for a valid circuit (so the
`len(qubits) > n_qubits` clause of the code is implied by the index range) -/
theorem C18_valid_particle_count (cfg : ProcConfig) (shots : Int) (instrs : List Instr)
    (h : Valid cfg shots instrs) : (particles instrs).length ≤ cfg.nQubits := by
  have hall : ∀ x ∈ particles instrs, 0 ≤ x ∧ x < (cfg.nQubits : Int) := by
    intro x hx
    obtain ⟨i, hi, hq⟩ := (mem_particles x instrs).mp hx
    exact h.2.2 i hi x hq
  have := sorted_length_le (particles instrs) 0 cfg.nQubits (by omega) (sortDedup_sorted _) hall
  omega

/-! ### Refused before any request -/

/-- if validation fails, `submit_experiment` raises that error, no HTTP request has been made and the
transport has not been touched -/
theorem C18_refused_before_request (cfg : ProcConfig) (shots : Int) (instrs : List Instr) (maxR : Nat)
    (os : List Outcome) (e : Err) (h : validate cfg shots instrs = .error e) :
    (submitExperiment cfg shots instrs maxR os).1 = .error e ∧
    (submitExperiment cfg shots instrs maxR os).2.requests = 0 ∧
    (submitExperiment cfg shots instrs maxR os).2.outcomes = os := by
  simp [submitExperiment, h]

/-- contrapositive, in terms of the specification: a request on the wire implies a valid experiment -/
theorem C18_request_only_if_valid (cfg : ProcConfig) (shots : Int) (instrs : List Instr) (maxR : Nat)
    (os : List Outcome) (h : 0 < (submitExperiment cfg shots instrs maxR os).2.requests) :
    Valid cfg shots instrs := by
  cases hv : validate cfg shots instrs with
  | error e =>
    have := (C18_refused_before_request cfg shots instrs maxR os e hv).2.1
    omega
  | ok u => exact C18_accepted_only_if_valid cfg shots instrs hv

/-- an accepted experiment is handed to the transport exactly as C17 models it -/
theorem C18_accepted_then_sent (cfg : ProcConfig) (shots : Int) (instrs : List Instr) (maxR : Nat)
    (os : List Outcome) (h : validate cfg shots instrs = .ok ()) :
    submitExperiment cfg shots instrs maxR os = (.ok (Backend.submit maxR os).1, (Backend.submit maxR os).2) := by
  simp [submitExperiment, h]

/-! ### The Qobj says what the circuit is -/

/-- the instruction list of the Qobj is the circuit's, in order, each with its own name, qubits,
parameters and memory slots -/
theorem C18_qobj_instructions_in_order (shots : Int) (instrs : List Instr) :
    (qobj shots instrs).instructions = instrs.map Instr.toQ ∧
    (qobj shots instrs).instructions.length = instrs.length ∧
    ∀ (k : Nat) (hk : k < instrs.length) (hk' : k < (qobj shots instrs).instructions.length),
      ((qobj shots instrs).instructions[k]).name = instrs[k].name ∧
      ((qobj shots instrs).instructions[k]).qubits = instrs[k].qubits ∧
      ((qobj shots instrs).instructions[k]).params = instrs[k].params ∧
      ((qobj shots instrs).instructions[k]).memory = instrs[k].clbits := by
  refine ⟨rfl, by simp [qobj], ?_⟩
  intro k hk hk'
  simp [qobj, Instr.toQ]

/-- `n_qubits` (header, experiment config, top-level config) = `qreg_sizes.q` = number of qubit labels;
`memory_slots` (same three places) = `creg_sizes.c` = number of clbit labels -/
theorem C18_qobj_counts_consistent (shots : Int) (instrs : List Instr) :
    let q := qobj shots instrs
    q.nQubitsHeader = q.qubitLabels.length ∧ q.qregSize = q.qubitLabels.length ∧
    q.nQubitsExpConfig = q.qubitLabels.length ∧ q.nQubitsConfig = q.qubitLabels.length ∧
    q.memorySlotsHeader = q.clbitLabels.length ∧ q.cregSize = q.clbitLabels.length ∧
    q.memorySlotsExpConfig = q.clbitLabels.length ∧ q.memorySlotsConfig = q.clbitLabels.length := by
  simp [qobj]

/-- every qubit index used by any instruction is among the qubit labels, every memory slot used is among
the clbit labels -/
theorem C18_qobj_covers (shots : Int) (instrs : List Instr) :
    (∀ i ∈ instrs, ∀ q ∈ i.qubits, q ∈ (qobj shots instrs).qubitLabels) ∧
    (∀ i ∈ instrs, ∀ c ∈ i.clbits, c ∈ (qobj shots instrs).clbitLabels) := by
  constructor
  · intro i hi q hq; exact (mem_particles q instrs).mpr ⟨i, hi, hq⟩
  · intro i hi c hc; exact (mem_clbitsOf c instrs).mpr ⟨i, hi, hc⟩

/-- … and nothing else is: the labels are exactly the indices used, ascending, without repetition -/
theorem C18_qobj_labels_exact (shots : Int) (instrs : List Instr) :
    (∀ q, q ∈ (qobj shots instrs).qubitLabels ↔ ∃ i ∈ instrs, q ∈ i.qubits) ∧
    (∀ c, c ∈ (qobj shots instrs).clbitLabels ↔ ∃ i ∈ instrs, c ∈ i.clbits) ∧
    (qobj shots instrs).qubitLabels.Pairwise (· < ·) ∧ (qobj shots instrs).clbitLabels.Pairwise (· < ·) :=
  ⟨fun q => mem_particles q instrs, fun c => mem_clbitsOf c instrs, sortDedup_sorted _, sortDedup_sorted _⟩

/-- the Qobj of an accepted experiment fits the processor -/
theorem C18_accepted_qobj_fits (cfg : ProcConfig) (shots : Int) (instrs : List Instr)
    (h : validate cfg shots instrs = .ok ()) :
    (qobj shots instrs).nQubitsConfig ≤ cfg.nQubits ∧
    (∀ q ∈ (qobj shots instrs).qubitLabels, 0 ≤ q ∧ q < (cfg.nQubits : Int)) ∧
    (qobj shots instrs).shots ≤ (cfg.maxShots : Int) := by
  have hv := C18_accepted_only_if_valid cfg shots instrs h
  refine ⟨C18_valid_particle_count cfg shots instrs hv, ?_, hv.1⟩
  intro q hq
  obtain ⟨i, hi, hqi⟩ := (mem_particles q instrs).mp hq
  exact hv.2.2 i hi q hqi

/-! ### Binary count keys -/

/-- the binary key, read as a base-2 numeral, is the value of the hexadecimal key -/
theorem C18_hexToBin_value (n : Nat) (key : List Char) (v : Nat) (h : parseHex key = some v) :
    ∃ s, hexToBin n key = some s ∧ binVal s = v :=
  ⟨zfill n (toBin v), by simp [hexToBin, h], binVal_zfill_toBin n v⟩

/-- its length is `max n L` where `L` is the bit length of the value (1 for the value 0):
zero-padded to the number of qubits, never truncated -/
theorem C18_hexToBin_length (n : Nat) (key : List Char) (v : Nat) (h : parseHex key = some v) :
    ∃ s L, hexToBin n key = some s ∧ s.length = max n L ∧ 1 ≤ L ∧ v < 2 ^ L ∧ (v ≠ 0 → 2 ^ (L - 1) ≤ v) := by
  refine ⟨zfill n (toBin v), (toBin v).length, by simp [hexToBin, h], ?_, ?_⟩
  · simp only [zfill, List.length_append, List.length_replicate]; omega
  · unfold toBin
    by_cases hv : v = 0
    · subst hv; simp
    · have := binDigits_length_spec v hv
      have hpos : 0 < (binDigits v).length := by
        cases v with
        | zero => exact absurd rfl hv
        | succ m => rw [binDigits]; simp
      simp only [hv, if_false]
      exact ⟨hpos, this.2, fun _ => this.1⟩

/-- it consists of the digits 0 and 1 only -/
theorem C18_hexToBin_digits (n : Nat) (key : List Char) (s : List Char) (h : hexToBin n key = some s) :
    ∀ c ∈ s, c = '0' ∨ c = '1' := by
  unfold hexToBin at h
  cases hp : parseHex key with
  | none => rw [hp] at h; cases h
  | some v =>
    rw [hp] at h
    simp only [Option.some.injEq] at h
    subst h
    intro c hc
    simp only [zfill, List.mem_append, List.mem_replicate] at hc
    rcases hc with ⟨_, rfl⟩ | hc
    · left; rfl
    · unfold toBin at hc
      split at hc
      · simp only [List.mem_singleton] at hc; left; exact hc
      · exact binDigits_chars v c hc

/-- keys with different values stay different -/
theorem C18_hexToBin_injective (n : Nat) (k₁ k₂ : List Char) (v₁ v₂ : Nat)
    (h₁ : parseHex k₁ = some v₁) (h₂ : parseHex k₂ = some v₂) (h : hexToBin n k₁ = hexToBin n k₂) : v₁ = v₂ := by
  simp only [hexToBin, h₁, h₂, Option.some.injEq] at h
  have := congrArg binVal h
  rwa [binVal_zfill_toBin, binVal_zfill_toBin] at this

/-- counts unchanged: for a reply whose keys have pairwise different values, `get_counts(binary=True)` is
the same list of counts, in the same order, each under the binary form of its key -/
theorem C18_hexToBin_counts_unchanged (n : Nat) (kvs : List (List Char × Int)) (vs : List Nat)
    (hk : kvs.map (fun kv => parseHex kv.1) = vs.map some) (hnd : vs.Nodup) :
    countsBinary n kvs = some (List.zipWith (fun v kv => (zfill n (toBin v), kv.2)) vs kvs) ∧
    ∀ d, countsBinary n kvs = some d → d.map Prod.snd = kvs.map Prod.snd := by
  have hfold := countsFold n kvs vs [] hk hnd (by simp)
  have hlen : vs.length = kvs.length := by simpa using (congrArg List.length hk).symm
  refine ⟨by simpa [countsBinary] using hfold, ?_⟩
  intro d hd
  simp only [countsBinary, hfold, List.nil_append, Option.some.injEq] at hd
  subst hd
  apply List.ext_getElem
  · simp [hlen]
  · intro k h1 h2; simp

/-- a key that is not hexadecimal raises (`int(key, 16)`), it is never silently dropped -/
theorem C18_hexToBin_rejects (n : Nat) (key : List Char) (h : parseHex key = none) : hexToBin n key = none := by
  simp [hexToBin, h]

/-! ### The two shipped configurations (generated from the source) -/

def exH (q : Int) : Instr := { name := "h", qubits := [q] }
def exX (q : Int) : Instr := { name := "x", qubits := [q] }
def exZ (q : Int) : Instr := { name := "z", qubits := [q] }
def exRx (q : Int) : Instr := { name := "rx", qubits := [q], params := ["1/2"] }
def exRz (q : Int) : Instr := { name := "rz", qubits := [q], params := ["1/2"] }
def exCz (a b : Int) : Instr := { name := "cz", qubits := [a, b] }
def exISwap (a b : Int) : Instr := { name := "iswap", qubits := [a, b] }
def exMeasure (qs cs : List Int) : Instr := { name := "measure", qubits := qs, clbits := cs }

/-- a typical simulator circuit is accepted … -/
theorem C18_qsim_accepts_example :
    validate qsimConfig 1024 [exH 0, exCz 0 2, exRx 1, exISwap 2 1, exMeasure [0, 1, 2] [0, 1, 2]] = .ok () := by
  decide

/-- … and is refused as soon as one instruction at *any* position is not executable -/
theorem C18_qsim_refuses_examples :
    validate qsimConfig 1024 [exZ 0, exH 0, exCz 0 2] = .error .unsupported ∧
    validate qsimConfig 1024 [exH 0, exZ 0, exCz 0 2] = .error .unsupported ∧
    validate qsimConfig 1024 [exH 0, exCz 0 2, exZ 0] = .error .unsupported ∧
    validate qsimConfig 1024 [exH 3, exH 0] = .error .qubitTuple ∧
    validate qsimConfig 1024 [exH 0, exCz 1 1, exH 0] = .error .qubitTuple ∧
    validate qsimConfig 1024 [exMeasure [7] [7], exH 0] = .error .range ∧
    validate qsimConfig 1024 [exH 0, exMeasure [-1] [0], exH 1] = .error .range ∧
    validate qsimConfig 8197 [exH 0] = .error .shots ∧
    validate qsimConfig 8196 [exH 0] = .ok () := by
  decide

theorem C18_qc_examples :
    validate qcConfig 65536 [exX 0, exRz 0, exMeasure [0] [0]] = .ok () ∧
    validate qcConfig 65537 [exX 0] = .error .shots ∧
    validate qcConfig 1024 [exX 0, exX 1] = .error .qubitTuple ∧
    validate qcConfig 1024 [exX 0, exH 0] = .error .unsupported ∧
    validate qcConfig 1024 [exMeasure [3] [0], exX 0] = .error .range ∧
    validate qcConfig 1024 [exX 0, exMeasure [1, 2] [1, 2]] = .ok () := by
  decide

/-- the shipped configurations satisfy the side condition of `C18_validate_iff_valid` -/
theorem C18_shipped_configs_have_qubits : 0 < qsimConfig.nQubits ∧ 0 < qcConfig.nQubits := by decide

/-- on the simulator every basis gate has gate properties (the "not configured" error is unreachable) and
every configured two-qubit tuple is coupled (the coupling error is unreachable) -/
theorem C18_qsim_config_coherent :
    (∀ g ∈ qsimConfig.basisGates, (qsimConfig.findGate g).isSome = true) ∧
    (∀ gp ∈ qsimConfig.gates, ∀ t ∈ gp.qubits, ∀ p ∈ pairs t, [p.1, p.2] ∈ qsimConfig.couplingMap) ∧
    (∀ gp ∈ qsimConfig.gates, ∀ t ∈ gp.qubits, ∀ q ∈ t, 0 ≤ q ∧ q < (qsimConfig.nQubits : Int)) := by
  decide

/-- the same coherence for the hardware configuration (no coupling map, single qubit 0) -/
theorem C18_qc_config_coherent :
    (∀ g ∈ qcConfig.basisGates, (qcConfig.findGate g).isSome = true) ∧ qcConfig.couplingMap = [] ∧
    (∀ gp ∈ qcConfig.gates, ∀ t ∈ gp.qubits, ∀ q ∈ t, 0 ≤ q ∧ q < (qcConfig.nQubits : Int)) := by
  decide

/-- consequently on the hardware processor no gate on two or more qubits is ever accepted -/
theorem C18_qc_refuses_multi_qubit_gates (i : Instr) (hm : i.name ≠ "measure") (hl : 2 ≤ i.qubits.length) :
    ¬ InstrOK qcConfig i := by
  rintro (h | ⟨_, gp, hg, hq, _⟩)
  · exact hm h
  · have hmem : gp ∈ qcConfig.gates := by
      unfold ProcConfig.findGate at hg
      exact List.mem_of_find?_eq_some hg
    have hone : ∀ g ∈ qcConfig.gates, ∀ t ∈ g.qubits, t.length = 1 := by decide
    have := hone gp hmem _ hq
    omega

/-- hexadecimal keys as the server sends them, upper and lower case, with and without prefix -/
theorem C18_hexToBin_examples :
    hexToBin 3 "0x0".toList = some "000".toList ∧ hexToBin 3 "0x5".toList = some "101".toList ∧
    hexToBin 3 "0x1f".toList = some "11111".toList ∧ hexToBin 7 "0X1F".toList = some "0011111".toList ∧
    hexToBin 7 "0x7F".toList = some "1111111".toList ∧ hexToBin 2 "a".toList = some "1010".toList ∧
    hexToBin 3 "0xg".toList = none ∧ hexToBin 3 "0x".toList = none ∧ hexToBin 3 "".toList = none := by
  decide +kernel

/-! ### Known finding: the name of a controlled gate ignores the control state

Full statement ("the Qobj says what the circuit is", for controlled gates): the reported name denotes the
gate's own control state,

    theorem C18_ctrl_name_says_control_state (target cs nm) :
        ctrlQasmName target cs = some nm → nameCtrlState nm = some cs

It is false for the code as it is (`known_findings.json`, key `C18:qobj:negated-control-serialised-as-plain`):
`as_qasm` never looks at `ctrl_state`. Proved below: the statement restricted to all-ones control states,
and its negation on the concrete witness. -/

/-- for the standard control state (all controls |1>) the name says what the gate is -/
theorem C18_ctrl_name_says_control_state_partial (target : String) (cs : List Bool) (nm : String)
    (hcs : ∀ b ∈ cs, b = true) (h : ctrlQasmName target cs = some nm) : nameCtrlState nm = some cs := by
  unfold ctrlQasmName at h
  match cs, hcs, h with
  | [b], hcs, h =>
    have hb : b = true := hcs b (by simp)
    subst hb
    simp only [List.length_singleton] at h
    have hm : (target, nm) ∈ ctrl1Names := by
      obtain ⟨l1, l2, hl, _⟩ := List.lookup_eq_some_iff.mp h
      rw [hl]; simp
    simp only [ctrl1Names, List.mem_cons, Prod.mk.injEq, List.not_mem_nil, or_false] at hm
    rcases hm with ⟨_, rfl⟩ | ⟨_, rfl⟩ | ⟨_, rfl⟩ | ⟨_, rfl⟩ | ⟨_, rfl⟩ | ⟨_, rfl⟩ | ⟨_, rfl⟩ | ⟨_, rfl⟩ | ⟨_, rfl⟩ <;> decide
  | [b1, b2], hcs, h =>
    have h1 : b1 = true := hcs b1 (by simp)
    have h2 : b2 = true := hcs b2 (by simp)
    subst h1 h2
    simp only [List.length_cons, List.length_nil] at h
    split at h
    · simp only [Option.some.injEq] at h; subst h; decide
    · cases h
  | [], _, h => simp at h
  | _ :: _ :: _ :: _, _, h => simp at h

/-- the witness: a Z (or X) controlled on |0> is reported as plain `cz` (`cx`), whose meaning is control on |1>;
a Toffoli-like gate activated by |10> is reported as `ccx` -/
theorem C18_known_negated_control_witness :
    (ctrlQasmName "z" [false] = some "cz" ∧ nameCtrlState "cz" = some [true] ∧ nameCtrlState "cz" ≠ some [false]) ∧
    (ctrlQasmName "x" [false] = some "cx" ∧ nameCtrlState "cx" ≠ some [false]) ∧
    (ctrlQasmName "x" [true, false] = some "ccx" ∧ nameCtrlState "ccx" ≠ some [true, false]) ∧
    ¬ (∀ target cs nm, ctrlQasmName target cs = some nm → nameCtrlState nm = some cs) := by
  refine ⟨by decide, by decide, by decide, ?_⟩
  intro h
  have := h "z" [false] "cz" (by decide)
  revert this
  decide

/-! ### Non-vacuity -/

example : Valid qsimConfig 1024 [exH 0, exCz 0 2, exRx 1, exMeasure [0, 1, 2] [0, 1, 2]] := by decide
example : ¬ Valid qsimConfig 1024 [exH 0, exMeasure [7] [0], exRx 1] := by decide
example : Valid qcConfig 65536 [exX 0, exMeasure [0, 2] [0, 1]] := by decide
example : ¬ InstrOK qsimConfig (exZ 0) := by decide
-- a configuration where each kind of refusal is reachable (basis gate without properties, uncoupled pair, wrong parameter count)
def exCfg : ProcConfig :=
  { basisGates := ["x", "cz", "rx", "y"], gates := [⟨"x", [[0], [1]], 0⟩, ⟨"cz", [[0, 1], [1, 2]], 0⟩, ⟨"rx", [[0]], 2⟩],
    couplingMap := [[0, 1]], nQubits := 3, maxShots := 10 }
example : validate exCfg 10 [exX 0, exCz 0 1] = .ok () := by decide
example : validate exCfg 10 [exX 0, exCz 1 2] = .error .coupling := by decide
example : validate exCfg 10 [exX 0, exRx 0] = .error .paramCount := by decide
example : validate exCfg 10 [exX 0, ⟨"y", [0], [], []⟩] = .error .unconfigured := by decide
example : (submitExperiment exCfg 11 [exX 0] 5 [.ok "pending" 1]).2.requests = 0 := by decide
example : (submitExperiment exCfg 10 [exX 0] 5 [.timeout, .ok "pending" 1]).2.requests = 2 := by decide
example : (qobj 10 [exCz 2 0, exMeasure [2] [5]]).qubitLabels = [0, 2] ∧ (qobj 10 [exCz 2 0, exMeasure [2] [5]]).clbitLabels = [5] := by decide
example : countsBinary 3 [("0x0".toList, 5), ("0x5".toList, 7)] = some [("000".toList, 5), ("101".toList, 7)] := by decide +kernel
example : ([("0x0".toList, (5 : Int)), ("0x5".toList, 7)].map (fun kv => parseHex kv.1)) = [0, 5].map some := by decide +kernel

end Qib.Wmi
